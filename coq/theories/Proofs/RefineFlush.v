(** FlushDirtyData followed by Commit: effect on the cache and on the store. *)
From BX Require Import Base.Prelude Model.JsonAcct Model.Merkle Model.StateLedger Model.LedgerSpec
  Proofs.LedgerLemmas Proofs.RootProofs Proofs.RefineBase Proofs.RefineBlock Proofs.RefineUndo Proofs.RefineSim.
Local Open Scope N_scope.

(** * lookups through one [cache_add] / [commit_obj] *)
Definition cache_st_view (c : cache) (a : N) (k : bytes) : option val :=
  match aget a (c_st c) with Some cm => kget k cm | None => None end.

Lemma cached_state_view m a k :
  cached_state m a k = match cache_st_view (s_cache m) a k with Some v => v | None => sget (a, k) (d_st (s_db m)) end.
Proof. unfold cached_state, cache_st_view. destruct (aget a (c_st (s_cache m))) as [cm|]; reflexivity. Qed.

Lemma cache_add_st c a o a' k :
  cache_st_view (cache_add c a o) a' k =
  if a' =? a then match kget k (o_dst o) with Some v => Some v | None => cache_st_view c a k end
  else cache_st_view c a' k.
Proof.
  unfold cache_st_view, cache_add. cbn [c_st].
  destruct (aget a (c_st c)) as [cm|] eqn:Ea.
  - rewrite aget_aput. destruct (a' =? a) eqn:E; [| reflexivity]. apply kget_fold_kput.
  - destruct (o_dst o) as [|x t] eqn:Ed.
    + destruct (a' =? a) eqn:E; [| reflexivity]. apply N.eqb_eq in E. subst a'. rewrite Ea. reflexivity.
    + rewrite aget_aput. destruct (a' =? a) eqn:E; [| reflexivity]. rewrite <- Ed. rewrite kget_fold_kput.
      destruct (kget k (o_dst o)); reflexivity.
Qed.

Lemma cache_add_acct c a o a' :
  aget a' (c_acct (cache_add c a o)) =
  if a' =? a then match o_dirty o with Some d => Some d | None => aget a (c_acct c) end
  else aget a' (c_acct c).
Proof.
  unfold cache_add. cbn [c_acct]. destruct (o_dirty o) as [d|].
  - rewrite aget_aput. destruct (a' =? a); reflexivity.
  - destruct (a' =? a) eqn:E; [apply N.eqb_eq in E; subst; reflexivity | reflexivity].
Qed.

(** contract code: written when the dirty code differs from the loaded code; the cache takes it
    when, moreover, the code hash of the record changed *)
Definition code_written (o : obj) : bool := negb (veqb (o_ocode o) (o_dcode o)).
Definition cache_code_cond (o : obj) : bool :=
  code_written o &&
  match o_dirty o with
  | Some d => match o_orig o with Some x => negb (veqb (ac_ch d) (ac_ch x)) | None => true end
  | None => false
  end.

Lemma cache_add_code c a o a' :
  aget a' (c_code (cache_add c a o)) = if (a' =? a) && cache_code_cond o then Some (o_dcode o) else aget a' (c_code c).
Proof.
  unfold cache_add, cache_code_cond, code_written. cbn [c_code].
  destruct (negb (veqb (o_ocode o) (o_dcode o))); cbn [andb]; [| rewrite andb_false_r; reflexivity].
  destruct (o_dirty o) as [d|]; [| rewrite andb_false_r; reflexivity].
  destruct (o_orig o) as [x|].
  - destruct (negb (veqb (ac_ch d) (ac_ch x))); [| rewrite andb_false_r; reflexivity].
    rewrite aget_aput, andb_true_r. destruct (a' =? a); reflexivity.
  - rewrite aget_aput, andb_true_r. destruct (a' =? a); reflexivity.
Qed.

Lemma sget_fold_commit (a : N) (l : list (bytes * val)) (init : list ((N * bytes) * bytes)) a' k :
  sget (a', k)
       (fold_right (fun (kv : bytes * val) acc =>
                      match snd kv with Some b => sput (a, fst kv) b acc | None => sdel (a, fst kv) acc end) init l) =
  if a' =? a then match kget k l with
                  | Some (Some b) => Some b
                  | Some None => None
                  | None => sget (a', k) init
                  end
  else sget (a', k) init.
Proof.
  induction l as [|[x v] t IH]; cbn [fold_right fst snd].
  - destruct (a' =? a); reflexivity.
  - change (kget k ((x, v) :: t)) with (if bytes_eqb k x then Some v else kget k t).
    destruct v as [b|].
    + rewrite sget_sput, sk_eqb_pair, IH. destruct (a' =? a) eqn:E; cbn [andb]; [| reflexivity].
      destruct (bytes_eqb k x); reflexivity.
    + rewrite sget_sdel, sk_eqb_pair, IH. destruct (a' =? a) eqn:E; cbn [andb]; [| reflexivity].
      destruct (bytes_eqb k x); reflexivity.
Qed.

Lemma commit_obj_st d a o a' k :
  sget (a', k) (d_st (commit_obj d a o)) =
  if a' =? a then match kget k (changed_entries o) with
                  | Some (Some b) => Some b
                  | Some None => None
                  | None => sget (a', k) (d_st d)
                  end
  else sget (a', k) (d_st d).
Proof. unfold commit_obj. cbn [d_st]. apply sget_fold_commit. Qed.

Lemma commit_obj_acct d a o a' :
  aget a' (d_acct (commit_obj d a o)) =
  if a' =? a then (if acct_changed (o_orig o) (o_dirty o)
                   then match o_dirty o with Some x => Some x | None => aget a (d_acct d) end
                   else aget a (d_acct d))
  else aget a' (d_acct d).
Proof.
  unfold commit_obj. cbn [d_acct]. destruct (acct_changed (o_orig o) (o_dirty o)).
  - destruct (o_dirty o) as [x|].
    + rewrite aget_aput. destruct (a' =? a); reflexivity.
    + destruct (a' =? a) eqn:E; [apply N.eqb_eq in E; subst; reflexivity | reflexivity].
  - destruct (a' =? a) eqn:E; [apply N.eqb_eq in E; subst; reflexivity | reflexivity].
Qed.

Lemma commit_obj_rest d a o :
  d_jnl (commit_obj d a o) = d_jnl d /\
  d_min (commit_obj d a o) = d_min d /\ d_max (commit_obj d a o) = d_max d.
Proof. repeat split. Qed.

Lemma commit_obj_code d a o a' : (code_written o = true -> o_dcode o <> None) ->
  aget a' (d_code (commit_obj d a o)) = if (a' =? a) && code_written o then o_dcode o else aget a' (d_code d).
Proof.
  intro H. unfold commit_obj, code_written in *. cbn [d_code].
  destruct (negb (veqb (o_ocode o) (o_dcode o))); [| rewrite andb_false_r; reflexivity].
  destruct (o_dcode o) as [c|]; [| exfalso; apply (H eq_refl); reflexivity].
  rewrite aget_aput, andb_true_r. destruct (a' =? a); reflexivity.
Qed.

(** * the folds over the dirty accounts (each account at most once) *)
Definition cache_fold (c : cache) (l : list (N * obj)) : cache :=
  fold_right (fun (ao : N * obj) c' => cache_add c' (fst ao) (snd ao)) c l.
Definition commit_fold (d : db) (l : list (N * obj)) : db :=
  fold_right (fun (ao : N * obj) d' => commit_obj d' (fst ao) (snd ao)) d l.

Lemma aget_cons {V} (a b : N) (v : V) l : aget a ((b, v) :: l) = if a =? b then Some v else aget a l.
Proof. reflexivity. Qed.

Lemma NoDup_head_absent {V} (a : N) (v : V) l : NoDup (map fst ((a, v) :: l)) -> aget a l = None.
Proof.
  intro H. inversion H as [|? ? Hn _]; subst. unfold aget. apply (notin_alookup_None N.eqb N_eqb_spec). exact Hn.
Qed.

Lemma cache_fold_st c l a k : NoDup (map fst l) ->
  cache_st_view (cache_fold c l) a k =
  match aget a l with
  | Some o => match kget k (o_dst o) with Some v => Some v | None => cache_st_view c a k end
  | None => cache_st_view c a k
  end.
Proof.
  induction l as [|[b o] t IH]; intro Hn; [reflexivity|].
  cbn [cache_fold fold_right fst snd]. fold (cache_fold c t). rewrite cache_add_st, aget_cons.
  inversion Hn as [|? ? Hni Hn']; subst.
  destruct (a =? b) eqn:E.
  - apply N.eqb_eq in E. subst b. rewrite (IH Hn'), (NoDup_head_absent a o t Hn). reflexivity.
  - apply IH. exact Hn'.
Qed.

Lemma cache_fold_acct c l a : NoDup (map fst l) ->
  aget a (c_acct (cache_fold c l)) =
  match aget a l with
  | Some o => match o_dirty o with Some d => Some d | None => aget a (c_acct c) end
  | None => aget a (c_acct c)
  end.
Proof.
  induction l as [|[b o] t IH]; intro Hn; [reflexivity|].
  cbn [cache_fold fold_right fst snd]. fold (cache_fold c t). rewrite cache_add_acct, aget_cons.
  inversion Hn as [|? ? Hni Hn']; subst.
  destruct (a =? b) eqn:E.
  - apply N.eqb_eq in E. subst b. rewrite (IH Hn'), (NoDup_head_absent a o t Hn). reflexivity.
  - apply IH. exact Hn'.
Qed.

Lemma cache_fold_code c l a : NoDup (map fst l) ->
  aget a (c_code (cache_fold c l)) =
  match aget a l with
  | Some o => if cache_code_cond o then Some (o_dcode o) else aget a (c_code c)
  | None => aget a (c_code c)
  end.
Proof.
  induction l as [|[b o] t IH]; intro Hn; [reflexivity|].
  cbn [cache_fold fold_right fst snd]. fold (cache_fold c t). rewrite cache_add_code, aget_cons.
  inversion Hn as [|? ? Hni Hn']; subst.
  destruct (a =? b) eqn:E; cbn [andb].
  - apply N.eqb_eq in E. subst b. rewrite (IH Hn'), (NoDup_head_absent a o t Hn). reflexivity.
  - apply IH. exact Hn'.
Qed.

Lemma commit_fold_st d l a k : NoDup (map fst l) ->
  sget (a, k) (d_st (commit_fold d l)) =
  match aget a l with
  | Some o => match kget k (changed_entries o) with
              | Some (Some b) => Some b
              | Some None => None
              | None => sget (a, k) (d_st d)
              end
  | None => sget (a, k) (d_st d)
  end.
Proof.
  induction l as [|[b o] t IH]; intro Hn; [reflexivity|].
  cbn [commit_fold fold_right fst snd]. fold (commit_fold d t). rewrite commit_obj_st, aget_cons.
  inversion Hn as [|? ? Hni Hn']; subst.
  destruct (a =? b) eqn:E.
  - apply N.eqb_eq in E. subst b. rewrite (IH Hn'), (NoDup_head_absent a o t Hn). reflexivity.
  - apply IH. exact Hn'.
Qed.

Lemma commit_fold_acct d l a : NoDup (map fst l) ->
  aget a (d_acct (commit_fold d l)) =
  match aget a l with
  | Some o => if acct_changed (o_orig o) (o_dirty o)
              then match o_dirty o with Some x => Some x | None => aget a (d_acct d) end
              else aget a (d_acct d)
  | None => aget a (d_acct d)
  end.
Proof.
  induction l as [|[b o] t IH]; intro Hn; [reflexivity|].
  cbn [commit_fold fold_right fst snd]. fold (commit_fold d t). rewrite commit_obj_acct, aget_cons.
  inversion Hn as [|? ? Hni Hn']; subst.
  destruct (a =? b) eqn:E.
  - apply N.eqb_eq in E. subst b. rewrite (IH Hn'), (NoDup_head_absent a o t Hn). reflexivity.
  - apply IH. exact Hn'.
Qed.

Lemma commit_fold_rest d l :
  d_jnl (commit_fold d l) = d_jnl d /\
  d_min (commit_fold d l) = d_min d /\ d_max (commit_fold d l) = d_max d.
Proof.
  induction l as [|[b o] t IH]; [repeat split|].
  cbn [commit_fold fold_right fst snd]. fold (commit_fold d t).
  destruct (commit_obj_rest (commit_fold d t) b o) as [A2 [A3 A4]].
  destruct IH as [B2 [B3 B4]].
  repeat split; congruence.
Qed.

Lemma commit_fold_code d l a : NoDup (map fst l) ->
  (forall b o, In (b, o) l -> code_written o = true -> o_dcode o <> None) ->
  aget a (d_code (commit_fold d l)) =
  match aget a l with
  | Some o => if code_written o then o_dcode o else aget a (d_code d)
  | None => aget a (d_code d)
  end.
Proof.
  induction l as [|[b o] t IH]; intros Hn H; [reflexivity|].
  cbn [commit_fold fold_right fst snd]. fold (commit_fold d t).
  rewrite (commit_obj_code _ b o a (H b o (or_introl eq_refl))), aget_cons.
  inversion Hn as [|? ? Hni Hn']; subst.
  assert (H' : forall b' o', In (b', o') t -> code_written o' = true -> o_dcode o' <> None)
    by (intros b' o' Hin; apply (H b' o'); right; exact Hin).
  destruct (a =? b) eqn:E; cbn [andb].
  - apply N.eqb_eq in E. subst b. rewrite (IH Hn' H'), (NoDup_head_absent a o t Hn). reflexivity.
  - apply IH; assumption.
Qed.

Section ObjCode.
Context {e : env}.

(** the store's code is the cached code (no flush pending) *)
Lemma db_code_cached m a : Inv m -> db_code m a = cached_code m a.
Proof.
  intro I. unfold cached_code. destruct (aget a (c_code (s_cache m))) as [v|] eqn:Ev; [| reflexivity].
  symmetry. exact (inv_cc m I a v Ev).
Qed.

(** a written code is never nil (SetCode(nil) is outside the domain) *)
Lemma written_some m a o : ObjOk m a o -> code_written o = true -> o_dcode o <> None.
Proof.
  intros [_ _ _ _ Hoc Hcd] Hw Hd. unfold code_written in Hw. rewrite Hd in Hw.
  destruct Hcd as [[Heq _] | [d [_ [_ Hc]]]].
  - rewrite <- Heq, Hd in Hw. discriminate.
  - rewrite Hoc, (Hc Hd) in Hw. discriminate.
Qed.

(** * the dirty list: the lazy origin-code load of getJournalIfModified finds nothing new *)
Lemma journal_oc m a o : Inv m -> ObjOk m a o ->
  match o_ocode o, o_orig o with
  | None, Some x => if is_nil (ac_ch x) then None else db_code m a
  | oc, _ => oc
  end = o_ocode o.
Proof.
  intros I Ok. destruct (o_ocode o) as [c|] eqn:Eo; [reflexivity|].
  destruct (o_orig o) as [x|]; [| reflexivity]. destruct (is_nil (ac_ch x)); [reflexivity|].
  rewrite (db_code_cached m a I), <- (ok_oc m a o Ok). exact Eo.
Qed.

Lemma journal_obj_same m a o : Inv m -> ObjOk m a o -> fst (journal_of m a o) = o.
Proof.
  intros I Ok. unfold journal_of. cbn [fst]. rewrite (journal_oc m a o I Ok).
  destruct o; reflexivity.
Qed.
End ObjCode.

Definition flush_dirty (m : st) : list (N * obj) :=
  flat_map (fun x : N * (obj * option jentry) =>
              match snd (snd x) with Some _ => [(fst x, fst (snd x))] | None => [] end)
           (map (fun ao : N * obj => (fst ao, journal_of m (fst ao) (snd ao))) (s_objs m)).

Lemma flush_dirty_eq {e : env} m : Inv m -> flush_dirty m = dirty_objs m.
Proof.
  intro I. unfold flush_dirty. rewrite dirty_list_eq.
  assert (H : forall l : list (N * obj), (forall a o, In (a, o) l -> In (a, o) (s_objs m)) ->
            map (fun ao : N * obj => (fst ao, fst (journal_of m (fst ao) (snd ao)))) l = l).
  { induction l as [|[a o] t IH]; intro Hin; [reflexivity|]. cbn [map fst snd].
    rewrite (journal_obj_same m a o I), IH; [reflexivity | intros; apply Hin; right; assumption |].
    apply (inv_objs m I). apply In_aget; [apply I | apply Hin; left; reflexivity]. }
  apply H. intros a o Hin. apply In_dirty_objs in Hin. apply Hin.
Qed.

Lemma aget_dirty_objs m a : NoDup (map fst (s_objs m)) ->
  aget a (dirty_objs m) =
  match aget a (s_objs m) with Some o => if is_dirty m a o then Some o else None | None => None end.
Proof.
  intro Hn. destruct (aget a (dirty_objs m)) as [o|] eqn:E.
  - apply aget_In in E. apply In_dirty_objs in E. destruct E as [Hin Hd].
    rewrite (In_aget a o _ Hn Hin), Hd. reflexivity.
  - destruct (aget a (s_objs m)) as [o|] eqn:Eo; [| reflexivity].
    destruct (is_dirty m a o) eqn:Ed; [| reflexivity].
    assert (Hin : In (a, o) (dirty_objs m)) by (apply In_dirty_objs; split; [apply aget_In; exact Eo | exact Ed]).
    apply (In_aget a o _ (dirty_objs_keys_NoDup m Hn)) in Hin. congruence.
Qed.

(** an object that is not dirty has no changed entry and an unchanged account record *)
Lemma not_dirty_facts {e : env} m a o : ObjOk m a o -> is_dirty m a o = false ->
  acct_changed (o_orig o) (o_dirty o) = false /\ changed_entries o = [].
Proof.
  intros Ok. unfold is_dirty, journal_of. cbn [snd].
  destruct (acct_changed (o_orig o) (o_dirty o)); cbn [orb]; [discriminate|].
  destruct (changed_entries o) as [|x t]; [tauto|].
  cbn [map List.length Nat.eqb negb]. rewrite orb_true_r. discriminate.
Qed.

Lemma not_dirty_code {e : env} m a o : Inv m -> ObjOk m a o -> is_dirty m a o = false -> code_written o = false.
Proof.
  intros I Ok. unfold is_dirty, journal_of, code_written. cbn [snd]. rewrite (journal_oc m a o I Ok).
  destruct (negb (veqb (o_ocode o) (o_dcode o))); [| reflexivity].
  rewrite orb_true_r. cbn [orb]. discriminate.
Qed.

Lemma dirty_when_changed m a o : acct_changed (o_orig o) (o_dirty o) = true \/ changed_entries o <> [] ->
  is_dirty m a o = true.
Proof.
  intros H. unfold is_dirty, journal_of. cbn [snd].
  destruct (acct_changed (o_orig o) (o_dirty o)); cbn [orb]; [reflexivity|].
  destruct H as [H | H]; [discriminate|].
  destruct (changed_entries o) as [|x t]; [congruence|].
  cbn [map List.length Nat.eqb negb]. rewrite orb_true_r. reflexivity.
Qed.

(** * the store and the cache after flush + commit, pointwise *)
Lemma changed_lookup o k : NoDup (map fst (o_dst o)) ->
  kget k (changed_entries o) =
  match kget k (o_dst o) with
  | Some v => if veqb (orig_of o k) v then None else Some v
  | None => None
  end.
Proof.
  intro Hn. unfold changed_entries, kget.
  rewrite (alookup_filter bytes_eqb bytes_eqb_spec _ k (o_dst o) Hn).
  destruct (alookup bytes_eqb k (o_dst o)) as [v|]; [| reflexivity].
  cbn [fst snd]. destruct (veqb (orig_of o k) v); reflexivity.
Qed.

Lemma changed_nil_all o k v : changed_entries o = [] -> NoDup (map fst (o_dst o)) ->
  kget k (o_dst o) = Some v -> veqb (orig_of o k) v = true.
Proof.
  intros Hc Hn Hk. pose proof (changed_lookup o k Hn) as H. rewrite Hc, Hk in H.
  destruct (veqb (orig_of o k) v); [reflexivity | discriminate].
Qed.

Lemma orig_of_fl {e : env} m a o k v : ObjOk m a o -> kget k (o_dst o) = Some v -> nb (orig_of o k) = fl_st m a k.
Proof.
  intros Ok Hk. unfold orig_of. destruct (kget k (o_ost o)) as [vo|] eqn:E.
  - eapply ok_org; eassumption.
  - exfalso. eapply ok_dho; eassumption.
Qed.

Lemma veqb_nb x y : veqb x y = true -> nb x = nb y.
Proof. unfold veqb. apply bytes_eqb_spec. Qed.

Section FlushCommit.
  Context {e : env}.
  Hypothesis kec_ne : forall c, e_kec e c <> [].
  Hypothesis kec_inj : forall c c', e_kec e c = e_kec e c' -> c = c'.
  Variable m : st.
  Hypothesis I : Inv m.
  Hypothesis C : Coh m.

  Let dirty := dirty_objs m.
  Let cache' := cache_fold (s_cache m) dirty.
  Let db' := commit_fold (s_db m) dirty.

  Lemma dirty_nodup : NoDup (map fst dirty).
  Proof. apply dirty_objs_keys_NoDup. apply I. Qed.

  Lemma dirty_written : forall a o, In (a, o) dirty -> code_written o = true -> o_dcode o <> None.
  Proof.
    intros a o Hin. apply In_dirty_objs in Hin. destruct Hin as [Hin _].
    apply (written_some m a o). apply (inv_objs m I a o (In_aget a o _ (inv_nd_objs m I) Hin)).
  Qed.

  (** the value a fresh reader finds after flush + commit is the current value *)
  Lemma fc_state_view a k :
    nb (match cache_st_view cache' a k with Some v => v | None => sget (a, k) (d_st db') end) = cur_st m a k.
  Proof.
    unfold cache', db'. rewrite (cache_fold_st _ _ a k dirty_nodup), (commit_fold_st _ _ a k dirty_nodup).
    unfold dirty. rewrite (aget_dirty_objs m a (inv_nd_objs m I)). unfold cur_st.
    destruct (aget a (s_objs m)) as [o|] eqn:Eo.
    2:{ unfold fl_st. rewrite cached_state_view. reflexivity. }
    pose proof (inv_objs m I a o Eo) as Ok.
    destruct (is_dirty m a o) eqn:Ed.
    - unfold obj_st. destruct (kget k (o_dst o)) as [v|] eqn:Ek; [reflexivity|].
      rewrite (changed_lookup o k (ok_nd m a o Ok)), Ek.
      destruct (kget k (o_ost o)) as [vo|] eqn:Eost.
      + rewrite (ok_org m a o Ok k vo Eost). unfold fl_st. rewrite cached_state_view. reflexivity.
      + unfold fl_st. rewrite cached_state_view. reflexivity.
    - destruct (not_dirty_facts m a o Ok Ed) as [_ Hc].
      { rewrite <- cached_state_view. fold (fl_st m a k). unfold obj_st.
        destruct (kget k (o_dst o)) as [v|] eqn:Ek.
        - rewrite <- (veqb_nb _ _ (changed_nil_all o k v Hc (ok_nd m a o Ok) Ek)).
          symmetry. eapply orig_of_fl; eassumption.
        - destruct (kget k (o_ost o)) as [vo|] eqn:Eost; [symmetry; eapply ok_org; eassumption | reflexivity]. }
  Qed.

  (** the new cache agrees with the new store *)
  Lemma fc_coh_st a k v : cache_st_view cache' a k = Some v -> nb v = nb (sget (a, k) (d_st db')).
  Proof.
    unfold cache', db'. rewrite (cache_fold_st _ _ a k dirty_nodup), (commit_fold_st _ _ a k dirty_nodup).
    unfold dirty. rewrite (aget_dirty_objs m a (inv_nd_objs m I)).
    assert (Hold : cache_st_view (s_cache m) a k = Some v -> nb v = nb (sget (a, k) (d_st (s_db m)))).
    { unfold cache_st_view. destruct (aget a (c_st (s_cache m))) as [cm|] eqn:E; [| discriminate].
      intro H. exact (coh_st m C a cm k v E H). }
    destruct (aget a (s_objs m)) as [o|] eqn:Eo; [| exact Hold].
    pose proof (inv_objs m I a o Eo) as Ok.
    destruct (is_dirty m a o) eqn:Ed; [| exact Hold].
    rewrite (changed_lookup o k (ok_nd m a o Ok)).
    destruct (kget k (o_dst o)) as [v'|] eqn:Ek; [| exact Hold].
    intro H. inversion H; subst v'.
    destruct (veqb (orig_of o k) v) eqn:Ev.
    - rewrite <- (veqb_nb _ _ Ev), (orig_of_fl m a o k v Ok Ek), (fl_st_coh m a k C). reflexivity.
    - destruct v; reflexivity.
  Qed.

  Lemma nb_some_ne (x : val) (h : bytes) : h <> [] -> nb x = h -> x = Some h.
  Proof. intros Hne H. destruct x as [b|]; cbn [nb] in H; congruence. Qed.
  Lemma veqb_some_ne (x : val) (h : bytes) : h <> [] -> veqb x (Some h) = true -> x = Some h.
  Proof. intros Hne H. apply veqb_nb in H. cbn [nb] in H. apply nb_some_ne; assumption. Qed.

  (** an unchanged record is the loaded record, exactly *)
  Lemma acct_unchanged_eq a o x d : ObjOk m a o -> o_orig o = Some x -> o_dirty o = Some d ->
    acct_changed (Some x) (Some d) = false -> x = d.
  Proof.
    intros Ok Ho Hd. unfold acct_changed.
    intro H. apply negb_false_iff in H. apply andb_true_iff in H. destruct H as [H H3].
    apply andb_true_iff in H. destruct H as [H1 H2].
    apply N.eqb_eq in H1. apply Z.eqb_eq in H2.
    assert (Hch : ac_ch x = ac_ch d).
    { destruct (ok_cd m a o Ok) as [[_ Ha] | [d' [Hd' [Hk _]]]].
      - rewrite (Ha d Hd). unfold och. rewrite Ho. reflexivity.
      - rewrite Hd in Hd'. inversion Hd'; subst d'. rewrite Hk in H3 |- *.
        apply veqb_some_ne; [apply kec_ne | exact H3]. }
    destruct x, d. simpl in *. congruence.
  Qed.

  Lemma fc_acct a :
    let ca := aget a (c_acct cache') in
    let da := aget a (d_acct db') in
    (forall x, ca = Some x -> da = Some x) /\
    match ca with Some x => Some x | None => da end = cur_oacct m a.
  Proof.
    cbv zeta. unfold cache', db'. rewrite (cache_fold_acct _ _ a dirty_nodup), (commit_fold_acct _ _ a dirty_nodup).
    unfold dirty. rewrite (aget_dirty_objs m a (inv_nd_objs m I)). unfold cur_oacct.
    pose proof (coh_acct m C a) as O1.
    destruct (aget a (s_objs m)) as [o|] eqn:Eo.
    2:{ split; [exact O1 | reflexivity]. }
    pose proof (inv_objs m I a o Eo) as Ok.
    pose proof (ok_oa m a o Ok) as Hoa.
    assert (Hfl : fl_acct m a = aget a (d_acct (s_db m))) by (apply fl_acct_coh; exact C).
    destruct (is_dirty m a o) eqn:Ed.
    - destruct (o_dirty o) as [d|] eqn:Edirty.
      + split.
        * intros x Hx. inversion Hx; subst x.
          destruct (acct_changed (o_orig o) (Some d)) eqn:Eac; [reflexivity|].
          destruct (o_orig o) as [x0|] eqn:Eorig; [| discriminate].
          rewrite <- Hfl, <- Hoa. f_equal. apply (acct_unchanged_eq a o); assumption.
        * unfold cur_acct. rewrite Edirty. reflexivity.
      + assert (Eac : acct_changed (o_orig o) None = false) by reflexivity. rewrite Eac.
        split; [exact O1|].
        unfold cur_acct. rewrite Edirty, Hoa. unfold fl_acct. reflexivity.
    - destruct (not_dirty_facts m a o Ok Ed) as [Hac _].
      split; [exact O1|].
      change (fl_acct m a = cur_acct o). rewrite <- Hoa. unfold cur_acct.
      destruct (o_dirty o) as [d|] eqn:Edirty; [| reflexivity].
      destruct (o_orig o) as [x0|] eqn:Eorig; [| discriminate].
      f_equal. apply (acct_unchanged_eq a o); assumption.
  Qed.

  (** a written code changes the code hash of the record: the cache takes it *)
  Lemma written_cached a o : aget a (s_objs m) = Some o -> code_written o = true -> cache_code_cond o = true.
  Proof.
    intros Eo Hw. pose proof (inv_objs m I a o Eo) as Ok. unfold cache_code_cond. rewrite Hw. cbn [andb].
    pose proof Hw as Hw0. unfold code_written in Hw. apply negb_true_iff in Hw.
    destruct (ok_cd m a o Ok) as [[Heq _] | [d [Hd [Hk Hn]]]].
    { rewrite Heq in Hw. unfold veqb in Hw. rewrite bytes_eqb_refl in Hw. discriminate. }
    rewrite Hd. destruct (o_orig o) as [x|] eqn:Ex; [| reflexivity].
    destruct (veqb (ac_ch d) (ac_ch x)) eqn:Ev; [| reflexivity]. exfalso.
    rewrite Hk in Ev. apply veqb_nb in Ev. cbn [nb] in Ev. symmetry in Ev.
    apply (nb_some_ne _ _ (kec_ne _)) in Ev.
    assert (Hfc : fl_ch m a = ac_ch x) by (unfold fl_ch; rewrite <- (ok_oa m a o Ok), Ex; reflexivity).
    assert (Hne : ch_nonempty (fl_ch m a) = true).
    { rewrite Hfc, Ev. unfold ch_nonempty, veqb. cbn [nb]. destruct (bytes_eqb _ []) eqn:Eb; [| reflexivity].
      apply bytes_eqb_spec in Eb. exfalso. exact (kec_ne _ Eb). }
    pose proof (inv_k1 m I a Hne) as K. rewrite Hfc, Ev in K. inversion K as [K1].
    apply kec_inj in K1. rewrite <- (ok_oc m a o Ok) in K1.
    unfold veqb in Hw. rewrite K1, bytes_eqb_refl in Hw. discriminate.
  Qed.

  Definition code_after (a : N) : val :=
    match aget a (s_objs m) with
    | Some o => if is_dirty m a o && code_written o then o_dcode o else cached_code m a
    | None => cached_code m a
    end.

  Lemma fc_code a :
    let cc := aget a (c_code cache') in
    let dc := aget a (d_code db') in
    (forall v, cc = Some v -> v = dc) /\ match cc with Some v => v | None => dc end = code_after a.
  Proof.
    cbv zeta. unfold cache', db'.
    rewrite (cache_fold_code _ _ a dirty_nodup), (commit_fold_code _ _ a dirty_nodup dirty_written).
    unfold dirty. rewrite (aget_dirty_objs m a (inv_nd_objs m I)). unfold code_after.
    assert (Hold : (forall v, aget a (c_code (s_cache m)) = Some v -> v = aget a (d_code (s_db m))) /\
                   match aget a (c_code (s_cache m)) with Some v => v | None => aget a (d_code (s_db m)) end = cached_code m a).
    { split; [apply (inv_cc m I a) | reflexivity]. }
    destruct (aget a (s_objs m)) as [o|] eqn:Eo; [| exact Hold].
    destruct (is_dirty m a o) eqn:Ed; cbn [andb]; [| exact Hold].
    destruct (code_written o) eqn:Ew.
    - rewrite (written_cached a o Eo Ew). split; [intros v Hv; inversion Hv; reflexivity | reflexivity].
    - unfold cache_code_cond. rewrite Ew. cbn [andb]. exact Hold.
  Qed.

  (** the code a fresh reader finds after flush + commit is the current code *)
  Lemma code_after_cur a : nb (code_after a) = cur_code m a.
  Proof.
    unfold code_after, cur_code. destruct (aget a (s_objs m)) as [o|] eqn:Eo.
    2:{ rewrite (load_code_cached m a I). reflexivity. }
    pose proof (inv_objs m I a o Eo) as Ok.
    assert (Hnw : code_written o = false -> nb (cached_code m a) = nb (o_dcode o)).
    { intro H. unfold code_written in H. apply negb_false_iff in H. rewrite <- (ok_oc m a o Ok). apply veqb_nb. exact H. }
    destruct (is_dirty m a o) eqn:Ed; cbn [andb].
    - destruct (code_written o) eqn:Ew; [reflexivity | apply Hnw; reflexivity].
    - apply Hnw. apply (not_dirty_code m a o I Ok Ed).
  Qed.

  Lemma obj_ch_cases a o : ObjOk m a o ->
    (obj_ch o = fl_ch m a /\ o_dcode o = o_ocode o) \/ obj_ch o = Some (e_kec e (nb (o_dcode o))).
  Proof.
    intro Ok. unfold obj_ch, cur_acct. destruct (ok_cd m a o Ok) as [[Heq Ha] | [d [Hd [Hk _]]]].
    - left. split; [| exact Heq]. unfold fl_ch. rewrite <- (ok_oa m a o Ok).
      destruct (o_dirty o) as [d|]; [apply (Ha d eq_refl) | reflexivity].
    - right. rewrite Hd. exact Hk.
  Qed.

  Lemma ch_nonempty_kec c : ch_nonempty (Some (e_kec e c)) = true.
  Proof.
    unfold ch_nonempty, veqb. cbn [nb]. destruct (bytes_eqb _ []) eqn:Eb; [| reflexivity].
    apply bytes_eqb_spec in Eb. exfalso. exact (kec_ne _ Eb).
  Qed.

  (** the code tables after flush + commit against the records after flush + commit *)
  Lemma fc_code_tables a :
    let ch := match cur_oacct m a with Some x => ac_ch x | None => None end in
    (ch_nonempty ch = false -> code_after a = None) /\
    (ch_nonempty ch = true -> ch = Some (e_kec e (nb (code_after a)))).
  Proof.
    cbv zeta. unfold cur_oacct.
    destruct (aget a (s_objs m)) as [o|] eqn:Eo.
    2:{ unfold code_after. rewrite Eo. split; [apply (inv_t1 m I a) | apply (inv_k1 m I a)]. }
    pose proof (inv_objs m I a o Eo) as Ok. change (match cur_acct o with Some x => ac_ch x | None => None end) with (obj_ch o).
    assert (Hca : code_written o = false -> code_after a = cached_code m a).
    { intro H. unfold code_after. rewrite Eo, H, andb_false_r. reflexivity. }
    destruct (obj_ch_cases a o Ok) as [[Hch Heq] | Hch].
    - assert (Hw : code_written o = false).
      { unfold code_written. rewrite Heq. unfold veqb. rewrite bytes_eqb_refl. reflexivity. }
      rewrite Hch, (Hca Hw). split; [apply (inv_t1 m I a) | apply (inv_k1 m I a)].
    - rewrite Hch, ch_nonempty_kec. split; [discriminate|]. intros _. f_equal. f_equal.
      rewrite code_after_cur. unfold cur_code. rewrite Eo. reflexivity.
  Qed.
End FlushCommit.

(** * flush + commit as one step of the simulation *)
Section FlushCommitSim.
Variable e : env.

Definition flush_then_commit (m : st) (h : N) : st := fst (do_commit (fst (do_flush e m)) h).

Lemma del_range_above fuel : forall i l h, i + N.of_nat fuel <= h -> aget h (del_range fuel i l) = aget h l.
Proof.
  induction fuel as [|n IH]; intros i l h Hle; [reflexivity|].
  cbn [del_range]. rewrite IH by lia. rewrite aget_adel.
  destruct (h =? i) eqn:E; [apply N.eqb_eq in E; lia | reflexivity].
Qed.

(** the fields of the state after flush + commit *)
Lemma ftc_fields m h :
  Inv m ->
  let mc := flush_then_commit m h in
  let root := root_of e m in
  let min1 := if s_min m =? 0 then h else s_min m in
  let pr := (10 <? h) && (min1 <? h - 10) in
  d_acct (s_db mc) = d_acct (commit_fold (s_db m) (dirty_objs m)) /\
  d_st (s_db mc) = d_st (commit_fold (s_db m) (dirty_objs m)) /\
  d_code (s_db mc) = d_code (commit_fold (s_db m) (dirty_objs m)) /\
  s_cache mc = cache_fold (s_cache m) (dirty_objs m) /\
  s_objs mc = [] /\ s_chg mc = s_chg m /\ s_revs mc = s_revs m /\ s_next mc = s_next m /\
  s_pend mc = None /\ s_prev mc = root /\ s_max mc = h /\ d_max (s_db mc) = h /\
  s_min mc = (if pr then h - 10 else min1) /\
  d_min (s_db mc) = (if pr then h - 10 else if s_min m =? 0 then h else d_min (s_db m)) /\
  (exists jn, aget h (d_jnl (s_db mc)) = Some jn /\ j_root jn = root) /\
  snd (do_commit (fst (do_flush e m)) h) = ORes R_ok /\
  snd (do_flush e m) = OFlush root (isort n_leb (map fst (dirty_objs m))).
Proof.
  intro I. cbv zeta. unfold flush_then_commit, root_of, do_flush.
  fold (flush_dirty m). rewrite (flush_dirty_eq m I).
  cbn [fst snd]. unfold do_commit. cbn [s_pend s_db s_cache s_objs s_chg s_gen s_revs s_next s_prev s_min s_max s_bad].
  fold (commit_fold (s_db m) (dirty_objs m)).
  destruct (commit_fold_rest (s_db m) (dirty_objs m)) as [R2 [R3 R4]].
  destruct ((10 <? h) && ((if s_min m =? 0 then h else s_min m) <? h - 10)) eqn:Epr; cbn [fst snd s_db s_cache s_objs s_chg s_revs s_next s_pend s_prev s_max s_min d_acct d_st d_code d_max d_min d_jnl].
  - repeat split; try assumption; try reflexivity.
    apply andb_true_iff in Epr. destruct Epr as [E1 E2]. apply N.ltb_lt in E1, E2.
    eexists. split; [rewrite del_range_above by (rewrite N2Nat.id; lia); rewrite aget_aput, N.eqb_refl; reflexivity | reflexivity].
  - repeat split; try assumption; try reflexivity.
    + destruct (s_min m =? 0); [reflexivity | exact R3].
    + eexists. split; [rewrite aget_aput, N.eqb_refl; reflexivity | reflexivity].
Qed.
End FlushCommitSim.

Section FlushCommitSim2.
Variable e : env.
Hypothesis kec_ne : forall c, e_kec e c <> [].
Hypothesis kec_inj : forall c c', e_kec e c = e_kec e c' -> c = c'.

Definition spec_flush_commit (s : spec) (root : bytes) (dl : list N) (h : N) : spec :=
  fst (spec_step e (fst (spec_step e s Flush (OFlush root dl))) (Commit h) (ORes R_ok)).

Lemma snap_ok_taint' m m' s :
  snap_ok e m s -> s_revs m' = s_revs m -> s_next m' = s_next m ->
  (List.length (s_chg m) <= List.length (s_chg m'))%nat ->
  forall s', sp_snaps s' = taint (sp_snaps s) -> snap_ok e m' s'.
Proof.
  intros [S1 S2 S3 S4] Hr Hn Hl s' Hs. constructor.
  - rewrite Hs. unfold taint. rewrite map_map. simpl. rewrite Hr. rewrite <- S1. reflexivity.
  - intros id len Hin. rewrite Hr in Hin. destruct (S2 id len Hin). rewrite Hn. split; [assumption | lia].
  - rewrite Hr. exact S3.
  - intros id len S Ha Hb. rewrite Hs in Hb. exfalso. clear - Hb.
    induction (sp_snaps s) as [|[i [S' t']] r IH]; simpl in Hb; [discriminate|].
    destruct (id =? i); [inversion Hb | exact (IH Hb)].
Qed.

Lemma flush_commit_sim m s h :
  Sim e m s -> h = sp_max s + 1 ->
  Sim e (flush_then_commit e m h)
      (spec_flush_commit s (root_of e m) (isort n_leb (map fst (dirty_objs m))) h).
Proof.
  intros [I C Mc Mf Sn Nu] Hh.
  destruct (ftc_fields e m h I) as [F1 [F2 [F3 [F4 [F5 [F6 [F7 [F8 [F9 [F10 [F11 [F12 [F13 [F14 [F15 _]]]]]]]]]]]]]]].
  set (mc := flush_then_commit e m h) in *.
  assert (Hst : forall a k, fl_st mc a k = cur_st m a k).
  { intros a k. unfold fl_st. rewrite cached_state_view, F4, F2. apply (fc_state_view m I). }
  assert (Hac : forall a, fl_acct mc a = cur_oacct m a).
  { intros a. unfold fl_acct. rewrite F4, F1. apply (fc_acct kec_ne m I C a). }
  assert (Hcode : forall a, cached_code mc a = code_after m a).
  { intros a. unfold cached_code, db_code. rewrite F4, F3. apply (fc_code kec_ne kec_inj m I a). }
  assert (Hfch : forall a, fl_ch mc a = match cur_oacct m a with Some x => ac_ch x | None => None end).
  { intros a. unfold fl_ch. rewrite Hac. reflexivity. }
  assert (Imc : Inv mc).
  { constructor.
    - rewrite F5. constructor.
    - intros a o. rewrite F5. discriminate.
    - intro a. rewrite Hfch, Hcode. apply (fc_code_tables kec_ne m I a).
    - intro a. rewrite Hfch, Hcode. apply (fc_code_tables kec_ne m I a).
    - intros a v. unfold db_code. rewrite F4, F3. apply (fc_code kec_ne kec_inj m I a). }
  assert (Hcur_st : forall a k, cur_st mc a k = fl_st mc a k) by (intros; unfold cur_st; rewrite F5; reflexivity).
  assert (Hcur_ac : forall a, cur_oacct mc a = fl_acct mc a) by (intros; unfold cur_oacct; rewrite F5; reflexivity).
  unfold spec_flush_commit. cbn [spec_step fst sp_pend].
  constructor.
  - exact Imc.
  - (* Coh *)
    constructor.
    + intros a cm k v Ha Hk. unfold db_st. rewrite F2.
      apply (fc_coh_st m I C a k v). unfold cache_st_view. rewrite <- F4, Ha. exact Hk.
    + intros a x. rewrite F4, F1. apply (fc_acct kec_ne m I C a).
    + exact F9.
  - (* current = flushed = what was current *)
    destruct Mc as [M1 [M2 M3]]. split; [| split].
    + intros a k. cbn [sp_cur]. rewrite Hcur_st, Hst. apply M1.
    + intros a. cbn [sp_cur]. rewrite Hcur_ac, Hac. apply M2.
    + intros a. cbn [sp_cur].
      assert (Hcc : cur_code mc a = nb (load_code mc a)) by (unfold cur_code; rewrite F5; reflexivity).
      rewrite Hcc, (load_code_cached mc a Imc), Hcode, (code_after_cur m I a). apply M3.
  - destruct Mc as [M1 [M2 M3]]. split; [| split].
    + intros a k. cbn [sp_fl]. rewrite Hst. apply M1.
    + intros a. cbn [sp_fl]. rewrite Hac. apply M2.
    + intros a. cbn [sp_fl]. rewrite Hcode, (code_after_cur m I a). apply M3.
  - apply (snap_ok_taint' m mc s Sn); try assumption; [rewrite F6; lia | reflexivity].
  - (* numbers *)
    destruct Nu as [N1 N2 N3 N4 N5 N6 N7 N8].
    assert (Hmin : (if s_min m =? 0 then h else s_min m) = (if sp_min s =? 0 then h else sp_min s)).
    { destruct N5 as [N5 | [A [B D]]]; [rewrite N5; reflexivity|].
      rewrite D, B. simpl. rewrite Hh, A. reflexivity. }
    constructor; cbn [sp_pend sp_next sp_max sp_min sp_prev].
    + reflexivity.
    + rewrite F8. exact N2.
    + exact F11.
    + rewrite F12, F11. reflexivity.
    + left. rewrite F13, Hmin. reflexivity.
    + exact F10.
    + left. rewrite F14, F13.
      destruct ((10 <? h) && ((if s_min m =? 0 then h else s_min m) <? h - 10)); [reflexivity|].
      destruct (s_min m =? 0) eqn:E0; [reflexivity|].
      destruct N7 as [N7 | [A _]]; [exact N7 | rewrite A in E0; discriminate].
    + right. rewrite F11, F10. split; [rewrite Hh; lia | exact F15].
Qed.
End FlushCommitSim2.

(** the journal stored by the commit, and the journals it leaves alone *)
Section FlushCommitJournal.
Variable e : env.

Definition flush_entries0 (m : st) : list jentry :=
  flat_map (fun x : N * (obj * option jentry) => match snd (snd x) with Some en => [en] | None => [] end)
           (map (fun ao : N * obj => (fst ao, journal_of m (fst ao) (snd ao))) (s_objs m)).

Lemma del_range_spec fuel : forall i l h,
  aget h (del_range fuel i l) = if (i <=? h) && (h <? i + N.of_nat fuel) then None else aget h l.
Proof.
  induction fuel as [|n IH]; intros i l h.
  - cbn [del_range]. replace (i + N.of_nat 0) with i by lia.
    destruct (i <=? h) eqn:E1, (h <? i) eqn:E2; cbn [andb]; try reflexivity.
    apply N.leb_le in E1. apply N.ltb_lt in E2. lia.
  - cbn [del_range]. rewrite IH, aget_adel.
    destruct (i + 1 <=? h) eqn:E1, (h <? i + 1 + N.of_nat n) eqn:E2, (i <=? h) eqn:E3, (h <? i + N.of_nat (S n)) eqn:E4,
             (h =? i) eqn:E5; cbn [andb]; try reflexivity;
      rewrite ?N.leb_le, ?N.leb_gt, ?N.ltb_lt, ?N.ltb_ge, ?N.eqb_eq, ?N.eqb_neq in *; lia.
Qed.

Lemma ftc_journals m h :
  Inv m ->
  let mc := flush_then_commit e m h in
  let min1 := if s_min m =? 0 then h else s_min m in
  let pr := (10 <? h) && (min1 <? h - 10) in
  aget h (d_jnl (s_db mc)) = Some (mkJ (flush_entries0 m) (root_of e m)) /\
  forall h', h' <> h -> (pr = true -> h - 10 <= h') -> aget h' (d_jnl (s_db mc)) = aget h' (d_jnl (s_db m)).
Proof.
  intro I. cbv zeta. unfold flush_then_commit, root_of, do_flush.
  fold (flush_dirty m). rewrite (flush_dirty_eq m I). fold (flush_entries0 m).
  cbn [fst snd]. unfold do_commit. cbn [s_pend s_db s_cache s_objs s_chg s_gen s_revs s_next s_prev s_min s_max s_bad].
  fold (commit_fold (s_db m) (dirty_objs m)).
  destruct (commit_fold_rest (s_db m) (dirty_objs m)) as [R2 [R3 R4]].
  destruct ((10 <? h) && ((if s_min m =? 0 then h else s_min m) <? h - 10)) eqn:Epr; cbn [fst s_db d_jnl].
  - apply andb_true_iff in Epr. destruct Epr as [E1 E2]. apply N.ltb_lt in E1, E2.
    split.
    + rewrite del_range_spec, N2Nat.id, aget_aput, N.eqb_refl.
      destruct ((_ <=? h) && (h <? _)) eqn:E; [| reflexivity].
      apply andb_true_iff in E. destruct E as [E3 E4]. apply N.ltb_lt in E4. lia.
    + intros h' Hne Hge. specialize (Hge eq_refl).
      rewrite del_range_spec, N2Nat.id, aget_aput, R2.
      destruct ((_ <=? h') && (h' <? _)) eqn:E.
      * apply andb_true_iff in E. destruct E as [E3 E4]. apply N.ltb_lt in E4. lia.
      * destruct (h' =? h) eqn:E5; [apply N.eqb_eq in E5; contradiction | reflexivity].
  - split; [rewrite aget_aput, N.eqb_refl; reflexivity|].
    intros h' Hne _. rewrite aget_aput, R2.
    destruct (h' =? h) eqn:E5; [apply N.eqb_eq in E5; contradiction | reflexivity].
Qed.
End FlushCommitJournal.
