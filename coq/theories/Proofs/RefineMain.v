(** The refinement theorem: on every operation sequence inside the domain, every observable of the
    repaired model agrees with the reference specification. *)
From BX Require Import Base.Prelude Model.JsonAcct Model.Merkle Model.StateLedger Model.LedgerSpec
  Proofs.LedgerLemmas Proofs.RootProofs Proofs.RefineBase Proofs.RefineBlock Proofs.RefineUndo Proofs.RefineSim
  Proofs.RefineStep Proofs.RefineFlush.
Local Open Scope N_scope.

Section Main.
Variable e : env.

(** operations covered by the proof so far (the others are tied by correspondence only) *)
Definition proved_op (o : op) : bool :=
  match o with
  | Query _ _ | Dump _ _ | Rollback _ | SetCode _ _ | GetCommitted _ _ => false
  | _ => true
  end.

(** the relation between two steps: either the simulation proper, or "just flushed" *)
Definition SimT (m : st) (s : spec) : Prop :=
  Sim e m s \/
  exists m0 s0, Sim e m0 s0 /\ m = fst (do_flush e m0) /\ s = fst (spec_step e s0 Flush (snd (do_flush e m0))).

Lemma op_eq_flush (o : op) : o = Flush \/ o <> Flush.
Proof. destruct o; try (right; discriminate). left. reflexivity. Qed.

Lemma Sim0 : Sim e st0 spec0.
Proof.
  constructor.
  - constructor; simpl; try reflexivity; try (intros; discriminate). constructor.
  - constructor; simpl; try reflexivity; intros; discriminate.
  - split; [intros a k; reflexivity | intros a; repeat split].
  - split; [intros a k; reflexivity | intros a; repeat split].
  - constructor; simpl; try reflexivity; try constructor; intros; try contradiction; discriminate.
  - constructor; simpl; try reflexivity.
    + left. reflexivity.
    + left. reflexivity.
    + left. split; reflexivity.
Qed.

Lemma step_dispatch m s o :
  Sim e m s -> wf_thm_b s o = true -> proved_op o = true -> o <> Flush -> step_ok e m s o.
Proof.
  intros S Hwf Hp Hnf. destruct o; try discriminate.
  - apply step_getbal; exact S.
  - apply step_getnonce; exact S.
  - apply step_getcode; exact S.
  - apply step_getst; exact S.
  - apply step_setbal; exact S.
  - apply step_setnonce; exact S.
  - apply step_setst; exact S.
  - apply step_addst; exact S.
  - apply step_snap; exact S.
  - apply step_revert; assumption.
  - apply step_finalise; exact S.
  - apply step_clear; exact S.
  - contradiction.
  - apply step_commit_nopend; exact S.
  - apply step_version; exact S.
  - apply step_reopen; exact S.
  - apply step_evict; assumption.
  - apply step_dbdump; exact S.
Qed.

Lemma spec_flush_pend s x : sp_pend (fst (spec_step e s Flush x)) = true /\
  sp_max (fst (spec_step e s Flush x)) = sp_max s.
Proof. cbn [spec_step fst sp_pend sp_max]. split; reflexivity. Qed.

Theorem refine_run : forall ops m s,
  SimT m s -> forallb proved_op ops = true ->
  spec_agree_P wf_thm_b false e s ops (snd (run e cfg_fixed m ops)).
Proof.
  induction ops as [|o t IH]; intros m s ST Hp; [exact Logic.I|].
  cbn [forallb] in Hp. apply andb_true_iff in Hp. destruct Hp as [Hpo Hpt].
  cbn [run]. destruct (step e cfg_fixed m o) as [m1 x] eqn:Est.
  destruct (run e cfg_fixed m1 t) as [m2 xs] eqn:Er. cbn [snd spec_agree_P].
  intro Hwf.
  assert (Hxs : xs = snd (run e cfg_fixed m1 t)) by (rewrite Er; reflexivity).
  destruct ST as [S | [m0 [s0 [S0 [Hm Hs]]]]].
  - destruct (op_eq_flush o) as [-> | Hnf].
    + (* Flush: the relation becomes "just flushed" *)
      cbn [step] in Est. split; [reflexivity|].
      rewrite Hxs. apply IH; [| exact Hpt].
      right. exists m, s. split; [exact S|]. rewrite Est. split; reflexivity.
    + pose proof (step_dispatch m s o S Hwf Hpo Hnf) as SO. unfold step_ok in SO. rewrite Est in SO.
      destruct (spec_step e s o x) as [s1 ex] eqn:Esp. destruct SO as [S1 Hm1].
      cbn [fst snd]. split; [exact Hm1|]. rewrite Hxs. apply IH; [left; exact S1 | exact Hpt].
  - (* after a flush only the commit of the next height is inside the domain *)
    destruct (spec_flush_pend s0 (snd (do_flush e m0))) as [Hpend Hmax]. rewrite <- Hs in Hpend, Hmax.
    unfold wf_thm_b, wf_op_b in Hwf. rewrite Hpend in Hwf.
    destruct o; try (rewrite ?andb_false_r in Hwf; cbn [andb read_only] in Hwf; discriminate).
    rewrite !andb_true_iff in Hwf. destruct Hwf as [[[Hh _] _] _]. apply N.eqb_eq in Hh. rewrite Hmax in Hh.
    destruct (ftc_fields e m0 h (sim_inv e m0 s0 S0)) as [_ [_ [_ [_ [_ [_ [_ [_ [_ [_ [_ [_ [_ [_ [_ [Hco Hfo]]]]]]]]]]]]]]]].
    pose proof (flush_commit_sim e m0 s0 h S0 Hh) as S2.
    cbn [step] in Est. rewrite Hm in Est.
    assert (Hx : x = ORes R_ok) by (rewrite <- Hco, Est; reflexivity).
    assert (Hm1 : m1 = flush_then_commit e m0 h) by (unfold flush_then_commit; rewrite Est; reflexivity).
    subst x. rewrite Hs, Hfo.
    change (fst (spec_step e (fst (spec_step e s0 Flush (OFlush (root_of e m0) (isort n_leb (map fst (dirty_objs m0))))))
                           (Commit h) (ORes R_ok)))
      with (spec_flush_commit e s0 (root_of e m0) (isort n_leb (map fst (dirty_objs m0))) h).
    split.
    + cbn [spec_step fst sp_pend snd]. reflexivity.
    + rewrite Hxs. apply IH; [| exact Hpt]. left. rewrite Hm1. exact S2.
Qed.

(** from the initial (empty) ledger *)
Corollary refine_from_empty : forall ops,
  forallb proved_op ops = true ->
  spec_agree_P wf_thm_b false e spec0 ops (snd (run e cfg_fixed st0 ops)).
Proof. intros ops Hp. apply refine_run; [left; apply Sim0 | exact Hp]. Qed.
End Main.
