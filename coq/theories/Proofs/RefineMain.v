(** The refinement theorem: on every operation sequence inside the domain, every observable of the
    repaired model agrees with the reference specification. *)
From BX Require Import Base.Prelude Model.JsonAcct Model.Merkle Model.StateLedger Model.LedgerSpec
  Proofs.LedgerLemmas Proofs.RootProofs Proofs.RefineBase Proofs.RefineBlock Proofs.RefineUndo Proofs.RefineSim
  Proofs.RefineStep Proofs.RefineFlush Proofs.RefineRollback Proofs.RefineDump Proofs.RefineQuery.
Local Open Scope N_scope.

Section Main.
Variable e : env.
(** the code hash function: never the empty string, and injective on the codes that occur
    (collision freedom is a premise, as it is for every use of a hash as an identifier) *)
Hypothesis kec_ne : forall c, e_kec e c <> [].
Hypothesis kec_inj : forall c c', e_kec e c = e_kec e c' -> c = c'.

(** operations covered by the proof (the others are tied by correspondence only) *)
Definition proved_op (o : op) : bool := true.

Lemma op_eq_flush (o : op) : o = Flush \/ o <> Flush.
Proof. destruct o; try (right; discriminate). left. reflexivity. Qed.

Lemma Sim0 : Sim e st0 spec0.
Proof.
  constructor.
  - constructor; simpl; try reflexivity; try (intros; discriminate). constructor.
  - constructor; simpl; try reflexivity; intros; discriminate.
  - split; [intros a k; reflexivity | split; [intros a; repeat split | intros a; reflexivity]].
  - split; [intros a k; reflexivity | split; [intros a; repeat split | intros a; reflexivity]].
  - constructor; simpl; try reflexivity; try constructor; intros; try contradiction; discriminate.
  - constructor; simpl; try reflexivity.
    + left. reflexivity.
    + left. reflexivity.
    + left. split; reflexivity.
Qed.

Lemma SimC0 : SimC e st0 spec0.
Proof. split; [apply Sim0 | split; [apply chain0; apply Sim0 | constructor]]. Qed.

(** ** the store is only touched by Flush / Commit / Rollback *)
Lemma get_obj_db m a : s_db (fst (get_obj m a)) = s_db m.
Proof. unfold get_obj. destruct (aget a (s_objs m)); [reflexivity|]. destruct (load_obj m a); reflexivity. Qed.

Lemma revert_n_db n : forall m, s_db (revert_n e n m) = s_db m.
Proof.
  induction n as [|n IH]; intro m; [reflexivity|]. cbn [revert_n]. destruct (s_chg m) as [|c t]; [reflexivity|].
  rewrite IH. destruct (revert_change_views e (set_chg m t) c) as [D _]. rewrite D. reflexivity.
Qed.

Lemma step_db m o : proved_op o = true ->
  match o with Flush | Commit _ | Rollback _ | Dump _ _ | Query _ _ => True | _ => s_db (fst (step e cfg_fixed m o)) = s_db m end.
Proof.
  intro Hp. destruct o; try exact Logic.I; try discriminate; cbn [step].
  - unfold do_getbal. pose proof (get_obj_db m a). destruct (get_obj m a). exact H.
  - unfold do_getnonce. pose proof (get_obj_db m a). destruct (get_obj m a). exact H.
  - unfold do_getcode. pose proof (get_obj_db m a). destruct (get_obj m a) as [m1 o]. destruct (obj_code m1 a o). exact H.
  - unfold do_getst. pose proof (get_obj_db m a). destruct (get_obj m a) as [m1 o]. destruct (obj_get_state m1 a o k). exact H.
  - unfold do_getcommitted. cbn [d_getcommitted cfg_fixed negb]. pose proof (get_obj_db m a).
    destruct (get_obj m a) as [m1 o]. destruct (obj_get_origin m1 a o k). exact H.
  - unfold do_setbal. pose proof (get_obj_db m a). destruct (get_obj m a) as [m1 o]. exact H.
  - unfold do_addbal. pose proof (get_obj_db m a) as H. destruct (get_obj m a) as [m1 o]. cbn [fst] in H.
    destruct (z =? 0)%Z; [exact H|]. unfold do_setbal. pose proof (get_obj_db m1 a) as H1. destruct (get_obj m1 a) as [m2 o2]. cbn [fst] in H1.
    change (s_db m2 = s_db m). rewrite H1. exact H.
  - unfold do_setnonce. pose proof (get_obj_db m a). destruct (get_obj m a) as [m1 o]. exact H.
  - unfold do_setcode. pose proof (get_obj_db m a). destruct (get_obj m a) as [m1 o]. destruct (obj_code m1 a o). exact H.
  - unfold do_setst. pose proof (get_obj_db m a). destruct (get_obj m a) as [m1 o]. destruct (obj_get_state m1 a o k). exact H.
  - unfold do_addst. pose proof (get_obj_db m a). destruct (get_obj m a) as [m1 o]. exact H.
  - reflexivity.
  - unfold do_revert. destruct (alookup N.eqb id (s_revs m)); [| reflexivity]. cbn [fst]. apply revert_n_db.
  - unfold do_finalise. destruct (s_chg m); reflexivity.
  - reflexivity.
  - reflexivity.
  - unfold do_reopen. destruct (d_max (s_db m) =? 0); [reflexivity|]. destruct (aget _ _); reflexivity.
  - unfold do_evict. reflexivity.
  - reflexivity.
Qed.

Lemma spec_frame s o x : proved_op o = true ->
  match o with
  | Flush | Commit _ | Rollback _ | Dump _ _ | Query _ _ => True
  | _ => let s' := fst (spec_step e s o x) in
         sp_hist s' = sp_hist s /\ sp_min s' = sp_min s /\ sp_max s' = sp_max s /\ sp_fl s' = sp_fl s /\ sp_prev s' = sp_prev s
  end.
Proof.
  intro Hp. destruct o; try exact Logic.I; try discriminate; cbn [spec_step]; cbv zeta; try (repeat split; fail).
  - destruct (z =? 0)%Z; repeat split.
  - destruct (alookup N.eqb id (sp_snaps s)) as [[sv t]|]; repeat split.
Qed.

(** ** one step, chain included *)
Definition stepC_ok (m : st) (s : spec) (o : op) : Prop :=
  let '(m', x) := step e cfg_fixed m o in
  let '(s', ex) := spec_step e s o x in
  SimC e m' s' /\ sexp_match false ex x = true.

Lemma stepC_dispatch m s o :
  SimC e m s -> smap_wf (sp_cur s) -> wf_thm_b s o = true -> proved_op o = true -> o <> Flush -> stepC_ok m s o.
Proof.
  intros [S [K Hnd]] Wc Hwf Hp Hnf. unfold stepC_ok.
  destruct (match o with Query _ _ => true | _ => false end) eqn:Equ.
  { destruct o; try discriminate. pose proof (step_query e m s a p S Wc) as SO.
    destruct (step e cfg_fixed m (Query a p)) as [m' x] eqn:Est.
    destruct (spec_step e s (Query a p) x) as [s' ex] eqn:Esp.
    destruct SO as [S' [Hm Hdb]]. split; [| exact Hm].
    cbn [spec_step] in Esp. inversion Esp; subst s' ex.
    split; [exact S' | split; [apply (chain_frame m m' s s); try reflexivity; assumption | exact Hnd]]. }
  destruct (match o with Rollback _ => true | _ => false end) eqn:Erb.
  { destruct o; try discriminate. apply (step_rollback e m s h); [split; [exact S | split; assumption] | exact Hwf]. }
  destruct (match o with Dump _ _ => true | _ => false end) eqn:Edu.
  { destruct o; try discriminate. pose proof (step_dump e m s accts keys S) as SO.
    destruct (step e cfg_fixed m (Dump accts keys)) as [m' x] eqn:Est.
    destruct (spec_step e s (Dump accts keys) x) as [s' ex] eqn:Esp.
    destruct SO as [S' [Hm Hdb]]. split; [| exact Hm].
    cbn [spec_step] in Esp. inversion Esp; subst s' ex.
    split; [exact S' | split; [apply (chain_frame m m' s (sp_clear s)); try reflexivity; assumption | exact Hnd]]. }
  destruct (match o with Commit _ => true | _ => false end) eqn:Ecm.
  { destruct o; try discriminate. pose proof (step_commit_nopend e m s h S) as SO. unfold step_ok in SO.
    cbn [step spec_step] in *. unfold do_commit in *.
    rewrite (coh_pend m (sim_coh e m s S)), (nu_pend m s (sim_num e m s S)) in *.
    split; [split; [exact S | split; assumption] | reflexivity]. }
  assert (SO : step_ok e m s o).
  { destruct o; try discriminate; try contradiction.
    - apply step_getbal; exact S.
    - apply step_getnonce; exact S.
    - apply step_getcode; exact S.
    - apply step_getst; exact S.
    - apply step_getcommitted; exact S.
    - apply step_setbal; exact S.
    - apply step_addbal; exact S.
    - apply step_setnonce; exact S.
    - apply step_setcode; exact S.
    - apply step_setst; exact S.
    - apply step_addst; exact S.
    - apply step_snap; exact S.
    - apply step_revert; assumption.
    - apply step_finalise; exact S.
    - apply step_clear; exact S.
    - apply step_version; exact S.
    - apply step_reopen; exact S.
    - apply step_evict; assumption.
    - apply step_dbdump; exact S. }
  unfold step_ok in SO.
  pose proof (step_db m o Hp) as Hdb.
  destruct (step e cfg_fixed m o) as [m' x] eqn:Est.
  pose proof (spec_frame s o x Hp) as Hsf.
  destruct (spec_step e s o x) as [s' ex] eqn:Esp.
  destruct SO as [S' Hm]. split; [| exact Hm].
  assert (F : s_db m' = s_db m /\ sp_hist s' = sp_hist s /\ sp_min s' = sp_min s /\ sp_max s' = sp_max s /\
              sp_fl s' = sp_fl s /\ sp_prev s' = sp_prev s).
  { destruct o; try discriminate; try contradiction; cbn [fst] in *; (split; [exact Hdb | exact Hsf]). }
  destruct F as [F1 [F2 [F3 [F4 [F5 F6]]]]].
  split; [exact S' | split; [apply (chain_frame m m' s s'); assumption | rewrite F2; exact Hnd]].
Qed.

(** the relation between two steps: either the simulation proper, or "just flushed" *)
Definition SimW (m : st) (s : spec) : Prop := SimC e m s /\ spec_wf s.
Definition SimT (m : st) (s : spec) : Prop :=
  SimW m s \/
  exists m0 s0, SimW m0 s0 /\ m = fst (do_flush e m0) /\ s = fst (spec_step e s0 Flush (snd (do_flush e m0))).

Lemma spec_flush_pend s x : sp_pend (fst (spec_step e s Flush x)) = true /\
  sp_max (fst (spec_step e s Flush x)) = sp_max s.
Proof. cbn [spec_step fst sp_pend sp_max]. split; reflexivity. Qed.

Lemma aset_keys_NoDup {V} (l : list (N * V)) h x : NoDup (map fst l) -> NoDup (map fst (aset N.eqb h x l)).
Proof. apply (aset_NoDup N.eqb N_eqb_spec). Qed.

Theorem refine_run : forall ops m s,
  SimT m s -> forallb proved_op ops = true ->
  spec_agree_P wf_thm_b false e s ops (snd (run e cfg_fixed m ops)).
Proof.
  induction ops as [|o t IH]; intros m s ST Hp; [exact Logic.I|].
  cbn [forallb] in Hp. apply andb_true_iff in Hp. destruct Hp as [Hpo Hpt].
  cbn [run]. destruct (step e cfg_fixed m o) as [m1 x] eqn:Est.
  destruct (run e cfg_fixed m1 t) as [m2 xs] eqn:Er. cbn [snd spec_agree_P].
  intro Hwf.
  assert (Hxs : xs = snd (run e cfg_fixed m1 t)) by (rewrite Er; reflexivity).
  destruct ST as [S | [m0 [s0 [S0 [Hm Hs]]]]].
  - destruct (op_eq_flush o) as [-> | Hnf].
    + (* Flush: the relation becomes "just flushed" *)
      cbn [step] in Est. split; [reflexivity|].
      rewrite Hxs. apply IH; [| exact Hpt].
      right. exists m, s. split; [exact S|]. rewrite Est. split; reflexivity.
    + destruct S as [S W].
      pose proof (stepC_dispatch m s o S (sw_cur s W) Hwf Hpo Hnf) as SO. unfold stepC_ok in SO. rewrite Est in SO.
      pose proof (spec_step_wf e s o x W) as W1.
      destruct (spec_step e s o x) as [s1 ex] eqn:Esp. destruct SO as [S1 Hm1].
      cbn [fst snd] in *. split; [exact Hm1|]. rewrite Hxs. apply IH; [left; split; assumption | exact Hpt].
  - (* after a flush only the commit of the next height is inside the domain *)
    destruct S0 as [[S0 [K0 Hnd0]] W0].
    destruct (spec_flush_pend s0 (snd (do_flush e m0))) as [Hpend Hmax]. rewrite <- Hs in Hpend, Hmax.
    unfold wf_thm_b, wf_op_b in Hwf. rewrite Hpend in Hwf.
    destruct o; try (rewrite ?andb_false_r in Hwf; cbn [andb read_only] in Hwf; discriminate).
    rewrite !andb_true_iff in Hwf. destruct Hwf as [[[Hh _] _] _]. apply N.eqb_eq in Hh. rewrite Hmax in Hh.
    destruct (ftc_fields e m0 h (sim_inv e m0 s0 S0)) as [_ [_ [_ [_ [_ [_ [_ [_ [_ [_ [_ [_ [_ [_ [_ [Hco Hfo]]]]]]]]]]]]]]]].
    pose proof (flush_commit_sim e kec_ne kec_inj m0 s0 h S0 Hh) as S2.
    pose proof (flush_commit_chain e kec_ne kec_inj m0 s0 h S0 K0 Hh) as K2.
    cbn [step] in Est. rewrite Hm in Est.
    assert (Hx : x = ORes R_ok) by (rewrite <- Hco, Est; reflexivity).
    assert (Hm1 : m1 = flush_then_commit e m0 h) by (unfold flush_then_commit; rewrite Est; reflexivity).
    subst x. rewrite Hs, Hfo.
    change (fst (spec_step e (fst (spec_step e s0 Flush (OFlush (root_of e m0) (isort n_leb (map fst (dirty_objs m0))))))
                           (Commit h) (ORes R_ok)))
      with (spec_flush_commit e s0 (root_of e m0) (isort n_leb (map fst (dirty_objs m0))) h).
    split.
    + cbn [spec_step fst sp_pend snd]. reflexivity.
    + rewrite Hxs. apply IH; [| exact Hpt]. left. rewrite Hm1. split.
      * split; [exact S2 | split; [exact K2|]].
        unfold spec_flush_commit. cbn [spec_step fst sp_pend sp_hist]. apply aset_keys_NoDup. exact Hnd0.
      * unfold spec_flush_commit. apply spec_step_wf. apply spec_step_wf. exact W0.
Qed.

(** from the initial (empty) ledger *)
Corollary refine_from_empty : forall ops,
  spec_agree_P wf_thm_b false e spec0 ops (snd (run e cfg_fixed st0 ops)).
Proof.
  intros ops. apply refine_run; [left; split; [apply SimC0 | apply spec_wf0]|].
  induction ops as [|o t IH]; [reflexivity | exact IH].
Qed.
End Main.
