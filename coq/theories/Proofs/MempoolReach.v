(** Every operation other than a move of the ledger oracle preserves the invariant: the invariant
    holds in every state reachable by any sequence of operations (repaired configuration). *)
From BX Require Import Base.Prelude Model.Mempool Proofs.MempoolLib Proofs.MempoolInv Proofs.MempoolInvOps
  Proofs.MempoolCommit Proofs.MempoolGen.
From Coq Require Import ZifyBool ZifyN ZifyNat.
Local Open Scope N_scope.

Lemma InvW_congr Dp Dc s s' :
  hashmap s' = hashmap s -> items s' = items s -> index s' = index s -> pnonce s' = pnonce s ->
  arrival s' = arrival s -> parking s' = parking s -> priority s' = priority s -> batched s' = batched s ->
  pnbs s' = pnbs s -> (forall a, get_cn s' a = get_cn s a) ->
  InvW Dp Dc s -> InvW Dp Dc s'.
Proof.
  intros E1 E2 E3 E5 E7 E8 E9 E10 E11 Hcn I.
  assert (Hit : forall x, item_at s' x = item_at s x) by (intro; unfold item_at; rewrite E2; reflexivity).
  assert (Hpn : forall a, get_pn s' a = get_pn s a) by (intro; unfold get_pn; rewrite E5, Hcn; reflexivity).
  constructor.
  - rewrite E1. exact (I_hm_nodup _ _ _ I).
  - intros h sl. rewrite E1, Hit. apply (I_hm_wf _ _ _ I).
  - intros sl t. rewrite Hit. apply (I_it_slot _ _ _ I).
  - intros a n t. rewrite Hit, E1, Hcn. apply (I_it_hash _ _ _ I).
  - intros sl. rewrite E3, Hit. apply (I_idx _ _ _ I).
  - intros a. rewrite Hcn, Hpn. apply (I_cn_pn _ _ _ I).
  - intros a n. rewrite Hit, Hcn. apply (I_it_cn _ _ _ I).
  - intros a n. rewrite Hit, Hcn, Hpn. apply (I_run _ _ _ I).
  - intros a. rewrite Hit, Hpn. apply (I_next _ _ _ I).
  - intros a n. rewrite Hit, E5. apply (I_pn_entry _ _ _ I).
  - intros ts a n. rewrite E9, Hpn. setoid_rewrite Hit. apply (I_prio _ _ _ I).
  - rewrite E9. exact (I_prio_sorted _ _ _ I).
  - intros a n. rewrite Hit, Hpn, E8. apply (I_park _ _ _ I).
  - intros a n. rewrite E10, Hpn. apply (I_b_hi _ _ _ I).
  - intros a n. rewrite E10, Hcn. apply (I_b_lo _ _ _ I).
  - intros a n. rewrite E10, Hcn. apply (I_b_down _ _ _ I).
  - intros sl. rewrite E10, Hit. apply (I_b_item _ _ _ I).
  - rewrite E11. eapply N.le_trans; [|exact (I_pnbs _ _ _ I)]. unfold live_unbatched. rewrite E9.
    apply filter_len_mono'. intros k _. unfold ub_pred. rewrite E10, Hcn. auto.
  - intros sl. rewrite E7, Hit. apply (I_arr _ _ _ I).
Qed.

Lemma touch_cn s a b : get_cn (touch s a) b = get_cn s b.
Proof.
  unfold touch. destruct (alookup N.eqb a (cnonce s)) eqn:E; [reflexivity|].
  unfold get_cn. cbn [cnonce set_cnonce ledger alookup].
  destruct (NP b a) as [->|Hne]; [rewrite E|]; reflexivity.
Qed.

Lemma touch_fields s a :
  hashmap (touch s a) = hashmap s /\ items (touch s a) = items s /\ index (touch s a) = index s /\
  pnonce (touch s a) = pnonce s /\ arrival (touch s a) = arrival s /\ parking (touch s a) = parking s /\
  priority (touch s a) = priority s /\ batched (touch s a) = batched s /\ pnbs (touch s a) = pnbs s /\
  seqno (touch s a) = seqno s /\ ledger (touch s a) = ledger s.
Proof. unfold touch. destruct (alookup N.eqb a (cnonce s)); cbn; repeat split. Qed.

Lemma touch_inv s a : Inv s -> Inv (touch s a).
Proof.
  destruct (touch_fields s a) as [E1 [E2 [E3 [E4 [E5 [E6 [E7 [E8 [E9 _]]]]]]]]].
  apply InvW_congr; auto. apply touch_cn.
Qed.

Lemma fold_touch_inv accts : forall s, Inv s -> Inv (fold_left touch accts s).
Proof. induction accts as [|a r IH]; intros s I; cbn [fold_left]; [exact I | apply IH, touch_inv, I]. Qed.

Lemma fold_touch_cn accts : forall s b, get_cn (fold_left touch accts s) b = get_cn s b.
Proof. induction accts as [|a r IH]; intros s b; cbn [fold_left]; [reflexivity|]. rewrite IH. apply touch_cn. Qed.

Lemma fold_touch_fields accts : forall s,
  let s' := fold_left touch accts s in
  hashmap s' = hashmap s /\ items s' = items s /\ index s' = index s /\
  pnonce s' = pnonce s /\ arrival s' = arrival s /\ parking s' = parking s /\
  priority s' = priority s /\ batched s' = batched s /\ pnbs s' = pnbs s /\
  seqno s' = seqno s /\ ledger s' = ledger s.
Proof.
  induction accts as [|a r IH]; intros s; cbn zeta; cbn [fold_left]; [repeat split|].
  destruct (IH (touch s a)) as [E1 [E2 [E3 [E4 [E5 [E6 [E7 [E8 [E9 [E10 E11]]]]]]]]]].
  destruct (touch_fields s a) as [F1 [F2 [F3 [F4 [F5 [F6 [F7 [F8 [F9 [F10 F11]]]]]]]]]].
  cbn zeta in *. repeat split; congruence.
Qed.

Section Ops.
  Variable p : params.

  Lemma generate_block_inv s : Inv s -> Inv (fst (generate_block p s)).
  Proof.
    intro I. unfold generate_block. destruct (negb (p_timed p) && (pnbs s =? 0)); [exact I|].
    apply generate_inv. exact I.
  Qed.

  Lemma process_txs_eq s leader now txs :
    process_txs p s leader now txs =
    let s2 := process_pre s now txs in
    if leader && (batch_size p <=? pnbs s2) && negb (p_timed p) then generate p s2 else (s2, None).
  Proof. reflexivity. Qed.

  Lemma process_txs_inv s leader now txs : Inv s -> Inv (fst (process_txs p s leader now txs)).
  Proof.
    intro I. rewrite process_txs_eq. cbn zeta.
    pose proof (process_pre_inv s now txs I) as J.
    destruct (leader && (batch_size p <=? pnbs (process_pre s now txs)) && negb (p_timed p)); [|exact J].
    apply generate_inv. exact J.
  Qed.

  Lemma set_seqno_inv s n : Inv s -> Inv (set_seqno s n).
  Proof. apply InvW_congr; reflexivity. Qed.

  Lemma drain_inv k : forall s, Inv s -> Inv (fst (drain cfg_fixed p k s)).
  Proof.
    induction k as [|k IH]; intros s I; cbn [drain]; [exact I|].
    pose proof (generate_block_inv s I) as J.
    destruct (generate_block p s) as [s1 [b|]]; cbn [fst] in J.
    - pose proof (IH (commit_txs cfg_fixed s1 (snd b)) (commit_inv s1 (snd b) J)) as K.
      destruct (drain cfg_fixed p k (commit_txs cfg_fixed s1 (snd b))) as [s2 bs]. exact K.
    - apply IH. exact J.
  Qed.

  Definition static_op (o : op) : bool := match o with OSetLedger _ _ => false | _ => true end.

  Lemma apply_op_inv s o : static_op o = true -> Inv s -> Inv (fst (fst (apply_op cfg_fixed p s o))).
  Proof.
    intros Hs I. destruct o; cbn [apply_op]; try discriminate.
    - pose proof (process_txs_inv s leader now txs I) as J.
      destruct (process_txs p s leader now txs) as [s' b]. exact J.
    - pose proof (generate_block_inv s I) as J. destruct (generate_block p s) as [s' b]. exact J.
    - apply commit_inv. exact I.
    - pose proof (remove_old_inv s now dur I) as J. destruct (remove_old cfg_fixed s now dur) as [s' n]. exact J.
    - apply set_seqno_inv. exact I.
    - apply Inv_init.
    - pose proof (drain_inv rounds s I) as J. destruct (drain cfg_fixed p rounds s) as [s' bs]. exact J.
  Qed.

  Variable accts : list N.
  Variable univ : list tx.

  Lemma step_inv s o : static_op o = true -> Inv s -> Inv (fst (step cfg_fixed p accts univ s o)).
  Proof.
    intros Hs I. unfold step. pose proof (apply_op_inv s o Hs I) as J.
    destruct (apply_op cfg_fixed p s o) as [[s' bs] r]. cbn [fst] in *. apply fold_touch_inv. exact J.
  Qed.

  (** the invariant holds in every reachable state *)
  Theorem reachable_inv ops : forallb static_op ops = true ->
    forall s, Inv s -> Inv (run_state cfg_fixed p accts univ s ops).
  Proof.
    induction ops as [|o r IH]; intros Hs s I; cbn [run_state]; [exact I|].
    cbn [forallb] in Hs. apply andb_true_iff in Hs. destruct Hs as [H1 H2].
    apply IH; [exact H2|]. apply step_inv; assumption.
  Qed.
End Ops.
