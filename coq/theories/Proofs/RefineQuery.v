(** QueryByPrefix (repaired): exactly the sorted non-empty values of the keys with the prefix. *)
From BX Require Import Base.Prelude Model.JsonAcct Model.Merkle Model.StateLedger Model.LedgerSpec
  Proofs.LedgerLemmas Proofs.RootProofs Proofs.RefineBase Proofs.RefineBlock Proofs.RefineUndo Proofs.RefineSim
  Proofs.RefineStep.
From Coq Require Import Sorting.Permutation Sorting.Sorted.
Local Open Scope N_scope.

(** * the specification's maps have duplicate-free keys *)
Definition smap_wf (S : smap) : Prop := NoDup (map fst (sm_st S)).
Record spec_wf (s : spec) : Prop := {
  sw_cur : smap_wf (sp_cur s);
  sw_fl : smap_wf (sp_fl s);
  sw_hist : Forall (fun x : N * (smap * bytes) => smap_wf (fst (snd x))) (sp_hist s);
  sw_snaps : Forall (fun x : N * (smap * bool) => smap_wf (fst (snd x))) (sp_snaps s)
}.

Lemma smap_wf_st_set S a k b : smap_wf S -> smap_wf (sm_st_set S a k b).
Proof. unfold smap_wf, sm_st_set. cbn [sm_st]. intro H. exact (aset_NoDup sk_eqb sk_eqb_spec (a, k) b _ H). Qed.
Lemma smap_wf_acct_set S a x : smap_wf S -> smap_wf (sm_acct_set S a x).
Proof. unfold smap_wf, sm_acct_set. simpl. tauto. Qed.
Lemma smap_wf0 : smap_wf sm0.
Proof. constructor. Qed.

Lemma Forall_taint l : Forall (fun x : N * (smap * bool) => smap_wf (fst (snd x))) l ->
  Forall (fun x : N * (smap * bool) => smap_wf (fst (snd x))) (taint l).
Proof. unfold taint. intro H. apply Forall_map. eapply Forall_impl; [| exact H]. intros [i [S t]] Hx. exact Hx. Qed.

Lemma Forall_filter' {A} (P : A -> Prop) (p : A -> bool) l : Forall P l -> Forall P (filter p l).
Proof. intro H. apply Forall_forall. intros x Hx. apply filter_In in Hx. rewrite Forall_forall in H. apply H, Hx. Qed.

Lemma Forall_aremove {V} (P : N * V -> Prop) (k : N) l : Forall P l -> Forall P (aremove N.eqb k l).
Proof.
  induction l as [|[x v] t IH]; simpl; intro H; [constructor|]. inversion H; subst.
  destruct (k =? x); [apply IH; assumption | constructor; [assumption | apply IH; assumption]].
Qed.

Ltac wf_simple W1 W4 :=
  constructor; cbn [sp_cur sp_fl sp_hist sp_snaps sp_touch sp_set_cur sp_set_snaps sp_clear];
  try assumption; try (apply smap_wf_st_set; exact W1); try (apply Forall_taint; exact W4);
  try (constructor; assumption); try constructor.

Lemma spec_step_wf e s o x : spec_wf s -> spec_wf (fst (spec_step e s o x)).
Proof.
  intros [W1 W2 W3 W4].
  destruct o; cbn [spec_step fst]; try (constructor; assumption); try (wf_simple W1 W4; fail).
  - (* AddBal *) destruct (z =? 0)%Z; cbn [fst]; constructor; assumption.
  - (* Revert *)
    destruct (alookup N.eqb id (sp_snaps s)) as [[saved t]|] eqn:E; cbn [fst]; [| constructor; assumption].
    constructor; cbn [sp_cur sp_fl sp_hist sp_snaps sp_set_snaps sp_set_cur]; try assumption.
    + apply (alookup_In N.eqb N_eqb_spec) in E. rewrite Forall_forall in W4. exact (W4 _ E).
    + apply Forall_filter'. exact W4.
  - (* Commit *)
    destruct (sp_pend s); cbn [fst]; [| constructor; assumption].
    constructor; cbn [sp_cur sp_fl sp_hist sp_snaps]; try assumption.
    unfold aset. constructor; [exact W2 | apply Forall_aremove; exact W3].
  - (* Rollback *)
    destruct (sp_max s <? h); [constructor; assumption|].
    destruct ((h <? sp_min s) && negb ((sp_min s =? 1) && (h =? 0))); [constructor; assumption|].
    destruct (sp_max s =? h); cbn [fst].
    { wf_simple W1 W4. }
    destruct (hist_get s h) as [[mS root]|] eqn:E; cbn [fst]; [| constructor; assumption].
    assert (Hm : smap_wf mS).
    { unfold hist_get in E. destruct (h =? 0); [inversion E; apply smap_wf0|].
      apply (alookup_In N.eqb N_eqb_spec) in E. rewrite Forall_forall in W3. exact (W3 _ E). }
    constructor; cbn [sp_cur sp_fl sp_hist sp_snaps]; try assumption.
    + apply Forall_filter'. exact W3.
    + apply Forall_taint; exact W4.
Qed.

Lemma spec_wf0 : spec_wf spec0.
Proof. constructor; simpl; try constructor. Qed.

(** * list facts *)
Lemma alookup_app {K V} (keqb : K -> K -> bool) (k : K) (l1 l2 : list (K * V)) :
  alookup keqb k (l1 ++ l2) = match alookup keqb k l1 with Some v => Some v | None => alookup keqb k l2 end.
Proof. induction l1 as [|[x v] t IH]; simpl; [reflexivity|]. destruct (keqb k x); [reflexivity | exact IH]. Qed.

(** filtering on the key alone commutes with lookup (no duplicate-freeness needed) *)
Lemma kget_filter_key {V} (P : bytes -> bool) (k : bytes) (l : list (bytes * V)) :
  kget k (filter (fun kv => P (fst kv)) l) = if P k then kget k l else None.
Proof.
  unfold kget. induction l as [|[x v] t IH]; simpl; [destruct (P k); reflexivity|].
  destruct (P x) eqn:Ex; simpl.
  - destruct (bytes_eqb k x) eqn:E; [apply bytes_eqb_spec in E; subst; rewrite Ex; reflexivity | exact IH].
  - destruct (bytes_eqb k x) eqn:E; [| exact IH].
    apply bytes_eqb_spec in E. subst x. rewrite Ex in *. exact IH.
Qed.

Lemma kget_from_db (a : N) (p k : bytes) (l : list ((N * bytes) * bytes)) :
  kget k (flat_map (fun kv : (N * bytes) * bytes =>
                      let '((a', k'), v) := kv in
                      if (a' =? a) && is_prefix p k' then [(k', Some v)] else []) l) =
  if is_prefix p k then match sget (a, k) l with Some v => Some (Some v) | None => None end else None.
Proof.
  unfold kget, sget. induction l as [|[[a' k'] v] t IH]; simpl; [destruct (is_prefix p k); reflexivity|].
  destruct ((a' =? a) && is_prefix p k') eqn:E; simpl.
  - apply andb_true_iff in E. destruct E as [E1 E2]. apply N.eqb_eq in E1. subst a'.
    unfold sk_eqb. simpl. rewrite N.eqb_refl. simpl.
    destruct (bytes_eqb k k') eqn:Ek; [apply bytes_eqb_spec in Ek; subst; rewrite E2; reflexivity | exact IH].
  - rewrite IH. unfold sk_eqb. simpl. destruct (a =? a') eqn:Ea; simpl; [| reflexivity].
    destruct (bytes_eqb k k') eqn:Ek; [| reflexivity].
    apply N.eqb_eq in Ea. apply bytes_eqb_spec in Ek. subst. rewrite N.eqb_refl in E. simpl in E. rewrite E. reflexivity.
Qed.

Lemma fold_kput_NoDup {V} (l : list (bytes * V)) :
  NoDup (map fst (fold_right (fun (kv : bytes * V) acc => kput (fst kv) (snd kv) acc) [] l)).
Proof.
  induction l as [|[k v] t IH]; simpl; [constructor|].
  exact (aset_NoDup bytes_eqb bytes_eqb_spec k v _ IH).
Qed.

Lemma filter_nonempty_nonnil (l : list val) :
  filter nonempty (map nb (filter (fun v => negb (is_nil v)) l)) = filter nonempty (map nb l).
Proof.
  induction l as [|[b|] t IH]; simpl; [reflexivity | |].
  - destruct (nonempty b); [f_equal|]; exact IH.
  - exact IH.
Qed.

Lemma Permutation_filter' {A} (p : A -> bool) l1 l2 : Permutation l1 l2 -> Permutation (filter p l1) (filter p l2).
Proof.
  induction 1; simpl.
  - constructor.
  - destruct (p x); [constructor|]; assumption.
  - destruct (p x), (p y); try apply perm_swap; try apply Permutation_refl.
  - eapply Permutation_trans; eassumption.
Qed.

Lemma val_leb_bytes x y : val_leb x y = true -> bytes_leb (nb x) (nb y) = true.
Proof.
  unfold val_leb. destruct (bytes_eqb (nb x) (nb y)) eqn:E.
  - apply bytes_eqb_spec in E. rewrite E. intros _. unfold bytes_leb. rewrite bytes_ltb_irrefl. reflexivity.
  - intro H. unfold bytes_leb. rewrite (bytes_ltb_asym _ _ H). reflexivity.
Qed.

Lemma val_leb_total x y : val_leb x y = true \/ val_leb y x = true.
Proof.
  unfold val_leb. destruct (bytes_eqb (nb x) (nb y)) eqn:E.
  - assert (E' : bytes_eqb (nb y) (nb x) = true) by (apply bytes_eqb_spec; apply bytes_eqb_spec in E; congruence).
    rewrite E'. destruct x, y; simpl; auto.
  - assert (E' : bytes_eqb (nb y) (nb x) = false).
    { apply bytes_eqb_false. apply bytes_eqb_false in E. congruence. }
    rewrite E'. apply bytes_eqb_false in E. destruct (bytes_ltb_total (nb x) (nb y)) as [H | [H | H]]; auto.
Qed.

Lemma val_leb_trans x y z : val_leb x y = true -> val_leb y z = true -> val_leb x z = true.
Proof.
  unfold val_leb.
  destruct (bytes_eqb (nb x) (nb y)) eqn:E1; destruct (bytes_eqb (nb y) (nb z)) eqn:E2.
  - apply bytes_eqb_spec in E1, E2. assert (E3 : bytes_eqb (nb x) (nb z) = true) by (apply bytes_eqb_spec; congruence).
    rewrite E3. destruct x, y, z; simpl; auto.
  - apply bytes_eqb_spec in E1. rewrite E1, E2. intros _ H. exact H.
  - apply bytes_eqb_spec in E2. rewrite <- E2, E1. intros H _. exact H.
  - intros H1 H2. pose proof (bytes_ltb_trans _ _ _ H1 H2) as H3.
    destruct (bytes_eqb (nb x) (nb z)) eqn:E3; [| exact H3].
    apply bytes_eqb_spec in E3. rewrite E3 in H3. rewrite bytes_ltb_irrefl in H3. discriminate.
Qed.

Lemma sorted_map_nb l : StronglySorted (lebP val_leb) l -> StronglySorted (lebP bytes_leb) (map nb l).
Proof.
  induction 1 as [|x t Hs IH Hf]; simpl; constructor; [exact IH|].
  apply Forall_map. eapply Forall_impl; [| exact Hf]. intros y Hy. apply val_leb_bytes. exact Hy.
Qed.

Lemma map_snd_filter_pairs {A} (f : A -> bytes * bytes) (l : list A) (p : bytes -> bool) :
  filter p (map (fun x => snd (f x)) l) = map snd (filter (fun kb : bytes * bytes => p (snd kb)) (map f l)).
Proof.
  induction l as [|x t IH]; simpl; [reflexivity|]. destruct (p (snd (f x))); simpl; [f_equal|]; exact IH.
Qed.

(** * the merged view Query builds *)
Section QueryStep.
Variable e : env.

Definition q_from_db (m : st) (a : N) (p : bytes) : list (bytes * val) :=
  flat_map (fun kv : (N * bytes) * bytes =>
              let '((a', k), v) := kv in
              if (a' =? a) && is_prefix p k then [(k, Some v)] else []) (d_st (s_db m)).
Definition q_from_cache (m : st) (a : N) (p : bytes) : list (bytes * val) :=
  match aget a (c_st (s_cache m)) with
  | Some cm => filter (fun kv : bytes * val => is_prefix p (fst kv)) cm
  | None => []
  end.
Definition q_merged (m : st) (o : obj) (a : N) (p : bytes) : list (bytes * val) :=
  fold_right (fun (kv : bytes * val) acc => kput (fst kv) (snd kv) acc) []
             (filter (fun kv : bytes * val => is_prefix p (fst kv)) (o_dst o) ++ q_from_cache m a p ++ q_from_db m a p).

Lemma do_query_fixed m a p :
  do_query e cfg_fixed m a p =
  (let '(m1, o) := get_obj m a in
   let sorted := isort val_leb (filter (fun v => negb (is_nil v)) (map snd (q_merged m1 o a p))) in
   (m1, OQuery (negb (Nat.eqb (List.length sorted) 0)) sorted)).
Proof. unfold do_query. cbn [d_query_dupkey d_query_cache d_query_nil cfg_fixed]. destruct (get_obj m a) as [m1 o]. reflexivity. Qed.

Lemma q_merged_lookup m o a p k : ObjOk m a o ->
  nb (match kget k (q_merged m o a p) with Some v => v | None => None end) =
  if is_prefix p k then obj_st m a o k else [].
Proof.
  intro Ok. unfold q_merged. rewrite kget_fold_kput. cbn [kget alookup].
  unfold kget at 1. rewrite !alookup_app.
  change (alookup bytes_eqb k (filter (fun kv : bytes * val => is_prefix p (fst kv)) (o_dst o)))
    with (kget k (filter (fun kv : bytes * val => is_prefix p (fst kv)) (o_dst o))).
  rewrite (kget_filter_key (is_prefix p) k (o_dst o)).
  change (alookup bytes_eqb k (q_from_cache m a p)) with (kget k (q_from_cache m a p)).
  change (alookup bytes_eqb k (q_from_db m a p)) with (kget k (q_from_db m a p)).
  unfold q_from_db. rewrite kget_from_db.
  assert (Hc : kget k (q_from_cache m a p) =
               if is_prefix p k then match aget a (c_st (s_cache m)) with Some cm => kget k cm | None => None end else None).
  { unfold q_from_cache. destruct (aget a (c_st (s_cache m))) as [cm|]; [apply kget_filter_key|].
    destruct (is_prefix p k); reflexivity. }
  rewrite Hc. destruct (is_prefix p k); [| reflexivity].
  unfold obj_st. destruct (kget k (o_dst o)) as [v|]; [reflexivity|].
  assert (Hr : match kget k (o_ost o) with Some vo => nb vo | None => fl_st m a k end = fl_st m a k).
  { destruct (kget k (o_ost o)) as [vo|] eqn:Eo; [exact (ok_org m a o Ok k vo Eo) | reflexivity]. }
  rewrite Hr. unfold fl_st, cached_state.
  destruct (aget a (c_st (s_cache m))) as [cm|].
  - destruct (kget k cm); [reflexivity|]. destruct (sget (a, k) (d_st (s_db m))); reflexivity.
  - destruct (sget (a, k) (d_st (s_db m))); reflexivity.
Qed.

Lemma q_merged_NoDup m o a p : NoDup (map fst (q_merged m o a p)).
Proof. unfold q_merged. apply fold_kput_NoDup. Qed.

Lemma In_kget {V} (k : bytes) (v : V) l : NoDup (map fst l) -> In (k, v) l -> kget k l = Some v.
Proof.
  intros Hn Hin. unfold kget. destruct (alookup bytes_eqb k l) as [v'|] eqn:E.
  - apply (alookup_In bytes_eqb bytes_eqb_spec) in E. f_equal. eapply NoDup_keys_inj; eassumption.
  - apply (alookup_None_notin bytes_eqb bytes_eqb_spec) in E. exfalso. apply E. eapply In_map_fst; eassumption.
Qed.

(** the live pairs on both sides *)
Definition live_pairs_model (M : list (bytes * val)) : list (bytes * bytes) :=
  filter (fun kb : bytes * bytes => nonempty (snd kb)) (map (fun kv : bytes * val => (fst kv, nb (snd kv))) M).
Definition live_pairs_spec (S : smap) (a : N) (p : bytes) : list (bytes * bytes) :=
  flat_map (fun kv : (N * bytes) * bytes =>
              if (fst (fst kv) =? a) && is_prefix p (snd (fst kv)) && nonempty (snd kv) then [(snd (fst kv), snd kv)] else [])
           (sm_st S).

Lemma live_values_pairs S a p : live_values S a p = isort bytes_leb (map snd (live_pairs_spec S a p)).
Proof.
  unfold live_values, live_pairs_spec. f_equal.
  induction (sm_st S) as [|[[a' k] b] t IH]; simpl; [reflexivity|].
  destruct ((a' =? a) && is_prefix p k && nonempty b); simpl; rewrite IH; reflexivity.
Qed.

Lemma In_live_pairs_spec S a p k b : smap_wf S ->
  (In (k, b) (live_pairs_spec S a p) <-> is_prefix p k = true /\ nonempty b = true /\ sm_st_get S a k = b).
Proof.
  intro W. unfold live_pairs_spec. rewrite in_flat_map. split.
  - intros [[[a' k'] b'] [Hin H]]. simpl in H.
    destruct ((a' =? a) && is_prefix p k' && nonempty b') eqn:E; [| contradiction].
    destruct H as [H | []]. inversion H; subst k' b'.
    apply andb_true_iff in E. destruct E as [E E3]. apply andb_true_iff in E. destruct E as [E1 E2].
    apply N.eqb_eq in E1. subst a'. split; [exact E2|]. split; [exact E3|].
    unfold sm_st_get, sget.
    destruct (alookup sk_eqb (a, k) (sm_st S)) as [b''|] eqn:El.
    + apply (alookup_In sk_eqb sk_eqb_spec) in El. eapply NoDup_keys_inj; eassumption.
    + apply (alookup_None_notin sk_eqb sk_eqb_spec) in El. exfalso. apply El. eapply In_map_fst; eassumption.
  - intros [H1 [H2 H3]]. unfold sm_st_get, sget in H3.
    destruct (alookup sk_eqb (a, k) (sm_st S)) as [b'|] eqn:El.
    + subst b'. apply (alookup_In sk_eqb sk_eqb_spec) in El. exists ((a, k), b). split; [exact El|].
      simpl. rewrite N.eqb_refl, H1, H2. left. reflexivity.
    + subst b. discriminate.
Qed.

Lemma live_pairs_spec_NoDup S a p : smap_wf S -> NoDup (map fst (live_pairs_spec S a p)).
Proof.
  unfold smap_wf, live_pairs_spec. induction (sm_st S) as [|[[a' k] b] t IH]; simpl; intro H; [constructor|].
  inversion H as [|? ? Hni Hn]; subst.
  destruct ((a' =? a) && is_prefix p k && nonempty b) eqn:E; simpl; [| apply IH; exact Hn].
  constructor; [| apply IH; exact Hn].
  intro Hin. apply Hni. apply in_map_iff in Hin. destruct Hin as [[k' b'] [Ek Hin]]. simpl in Ek. subst k'.
  apply in_flat_map in Hin. destruct Hin as [[[a'' k''] b''] [Hin2 H2]]. simpl in H2.
  destruct ((a'' =? a) && is_prefix p k'' && nonempty b'') eqn:E2; [| contradiction].
  destruct H2 as [H2 | []]. inversion H2; subst.
  apply andb_true_iff in E. destruct E as [E _]. apply andb_true_iff in E. destruct E as [E _]. apply N.eqb_eq in E.
  apply andb_true_iff in E2. destruct E2 as [E2 _]. apply andb_true_iff in E2. destruct E2 as [E2 _]. apply N.eqb_eq in E2.
  subst. apply in_map_iff. exists ((a, k), b'). split; [reflexivity | exact Hin2].
Qed.

Lemma In_live_pairs_model M k b : NoDup (map fst M) ->
  (In (k, b) (live_pairs_model M) <->
   nonempty b = true /\ nb (match kget k M with Some v => v | None => None end) = b).
Proof.
  intro Hn. unfold live_pairs_model. rewrite filter_In, in_map_iff. simpl. split.
  - intros [[[k' v] [E Hin]] Hne]. simpl in E. inversion E; subst k' b. split; [exact Hne|].
    rewrite (In_kget k v M Hn Hin). reflexivity.
  - intros [Hne Hb]. split; [| exact Hne].
    destruct (kget k M) as [v|] eqn:Ek; [| subst b; discriminate].
    exists (k, v). split; [simpl; rewrite Hb; reflexivity | apply (alookup_In bytes_eqb bytes_eqb_spec); exact Ek].
Qed.
End QueryStep.

Section QueryStep2.
Variable e : env.

Lemma live_model_values M :
  filter nonempty (map nb (map snd M)) = map snd (live_pairs_model M).
Proof.
  unfold live_pairs_model. induction M as [|[k v] t IH]; simpl; [reflexivity|].
  destruct (nonempty (nb v)); simpl; [f_equal|]; exact IH.
Qed.

Lemma live_pairs_model_NoDup M : NoDup (map fst M) -> NoDup (live_pairs_model M).
Proof.
  intro Hn. apply NoDup_pairs_of_keys. unfold live_pairs_model. apply filter_keys_NoDup.
  rewrite map_map. simpl. exact Hn.
Qed.

Lemma step_query m s a p : Sim e m s -> smap_wf (sp_cur s) ->
  let '(m', x) := step e cfg_fixed m (Query a p) in
  let '(s', ex) := spec_step e s (Query a p) x in
  Sim e m' s' /\ sexp_match false ex x = true /\ s_db m' = s_db m.
Proof.
  intros S W. cbn [step spec_step]. rewrite do_query_fixed.
  pose proof (get_obj_ok m a (sim_inv e m s S)) as GO. pose proof (get_obj_got m a) as G.
  destruct (get_obj m a) as [m1 o]. cbn [fst snd] in GO, G.
  destruct (got_ok_pushed e m a m1 o (sim_inv e m s S) G GO) as [ext0 [P _]].
  assert (S1 : Sim e m1 s).
  { apply (Sim_same_views e m m1 s ext0 S); [apply (got_ok_same_views m a m1 o GO) | exact P]. }
  split; [exact S1|]. split; [| apply GO].
  pose proof (inv_objs m1 (go_inv _ _ _ _ GO) a o (go_obj _ _ _ _ GO)) as Ok.
  set (M := q_merged m1 o a p).
  cbn [sexp_match]. apply (list_eqb_spec bytes_eqb bytes_eqb_spec).
  rewrite live_values_pairs.
  (* both sides are sorted lists with the same elements *)
  apply (sorted_perm_eq bytes_leb).
  - intros x y. apply bytes_leb_antisym.
  - apply isort_sorted; [intros x y; apply bytes_leb_total | intros x y z; apply bytes_leb_trans].
  - apply sorted_filter. apply sorted_map_nb.
    apply isort_sorted; [intros x y; apply val_leb_total | intros x y z; apply val_leb_trans].
  - rewrite isort_perm.
    apply Permutation_sym.
    eapply Permutation_trans.
    { apply Permutation_filter'. apply Permutation_map. apply isort_perm. }
    rewrite filter_nonempty_nonnil, live_model_values.
    apply Permutation_map.
    apply NoDup_Permutation.
    + apply live_pairs_model_NoDup. apply q_merged_NoDup.
    + apply NoDup_pairs_of_keys. apply live_pairs_spec_NoDup. exact W.
    + intros [k b]. rewrite (In_live_pairs_model M k b (q_merged_NoDup m1 o a p)), (In_live_pairs_spec _ a p k b W).
      unfold M. rewrite (q_merged_lookup e m1 o a p k Ok).
      destruct (sim_cur e m1 s S1) as [M1 _]. rewrite <- M1, (cur_st_at m1 a o k (go_obj _ _ _ _ GO)).
      destruct (is_prefix p k).
      * tauto.
      * split; [intros [H1 H2]; subst b; discriminate | intros [H _]; discriminate].
Qed.
End QueryStep2.
