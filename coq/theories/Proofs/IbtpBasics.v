(** Basic facts used by the IBTP proofs: decidable equalities, point updates, child lists,
    timeout token lists. *)
From BX Require Import Base.Prelude Base.Fsm Model.TxFsm Model.TxMgr Model.Interchain Model.IbtpExec
     Proofs.TxFsmProofs.
From Coq Require Import String ZifyBool ZifyN ZifyNat.
Local Open Scope N_scope.

(** * equalities *)
Lemma txid_eqb_eq a b : txid_eqb a b = true <-> a = b.
Proof.
  destruct a as [[a1 a2] a3], b as [[b1 b2] b3]. unfold txid_eqb.
  rewrite !andb_true_iff, !N.eqb_eq. split; [intros [[-> ->] ->]; reflexivity | intro H; inversion H; auto].
Qed.
Lemma txid_eqb_refl a : txid_eqb a a = true.
Proof. apply txid_eqb_eq. reflexivity. Qed.
Lemma txid_eqb_neq a b : txid_eqb a b = false <-> a <> b.
Proof.
  split; intro H.
  - intro E. apply txid_eqb_eq in E. congruence.
  - destruct (txid_eqb a b) eqn:E; [apply txid_eqb_eq in E; contradiction | reflexivity].
Qed.
Lemma txid_eqb_sym a b : txid_eqb a b = txid_eqb b a.
Proof.
  destruct (txid_eqb a b) eqn:E.
  - apply txid_eqb_eq in E. subst. symmetry. apply txid_eqb_refl.
  - symmetry. apply txid_eqb_neq. apply txid_eqb_neq in E. congruence.
Qed.
Lemma gid_eqb_eq a b : gid_eqb a b = true <-> a = b.
Proof.
  destruct a as [[a1 a2] a3], b as [[b1 b2] b3]. unfold gid_eqb.
  rewrite !andb_true_iff, !N.eqb_eq. split; [intros [[-> ->] ->]; reflexivity | intro H; inversion H; auto].
Qed.
Lemma gid_eqb_refl a : gid_eqb a a = true.
Proof. apply gid_eqb_eq. reflexivity. Qed.
Lemma gid_eqb_neq a b : gid_eqb a b = false <-> a <> b.
Proof.
  split; intro H.
  - intro E. apply gid_eqb_eq in E. congruence.
  - destruct (gid_eqb a b) eqn:E; [apply gid_eqb_eq in E; contradiction | reflexivity].
Qed.
Lemma tok_eqb_eq a b : tok_eqb a b = true <-> a = b.
Proof.
  destruct a, b; simpl; try (split; [discriminate | intro H; discriminate H]); try tauto.
  - rewrite txid_eqb_eq. split; [intros ->; reflexivity | intro H; inversion H; reflexivity].
  - rewrite gid_eqb_eq. split; [intros ->; reflexivity | intro H; inversion H; reflexivity].
Qed.
Lemma tok_eqb_refl a : tok_eqb a a = true.
Proof. apply tok_eqb_eq. reflexivity. Qed.
Lemma tok_eqb_neq a b : tok_eqb a b = false <-> a <> b.
Proof.
  split; intro H.
  - intro E. apply tok_eqb_eq in E. congruence.
  - destruct (tok_eqb a b) eqn:E; [apply tok_eqb_eq in E; contradiction | reflexivity].
Qed.

(** * point updates *)
Lemma upd_same {K V} (eqb : K -> K -> bool) (f : K -> V) k v :
  eqb k k = true -> upd eqb f k v k = v.
Proof. intro H. unfold upd. rewrite H. reflexivity. Qed.
Lemma upd_other {K V} (eqb : K -> K -> bool) (f : K -> V) k v x :
  eqb x k = false -> upd eqb f k v x = f x.
Proof. intro H. unfold upd. rewrite H. reflexivity. Qed.
Lemma updN_same {V} (f : N -> V) k v : upd N.eqb f k v k = v.
Proof. apply upd_same. apply N.eqb_refl. Qed.
Lemma updN_other {V} (f : N -> V) k v x : x <> k -> upd N.eqb f k v x = f x.
Proof. intro H. apply upd_other. apply N.eqb_neq. exact H. Qed.
Lemma updT_same {V} (f : txid -> V) k v : upd txid_eqb f k v k = v.
Proof. apply upd_same. apply txid_eqb_refl. Qed.
Lemma updT_other {V} (f : txid -> V) k v x : x <> k -> upd txid_eqb f k v x = f x.
Proof. intro H. apply upd_other. apply txid_eqb_neq. exact H. Qed.
Lemma updG_same {V} (f : gid -> V) k v : upd gid_eqb f k v k = v.
Proof. apply upd_same. apply gid_eqb_refl. Qed.
Lemma updG_other {V} (f : gid -> V) k v x : x <> k -> upd gid_eqb f k v x = f x.
Proof. intro H. apply upd_other. apply gid_eqb_neq. exact H. Qed.

(** * statuses *)
Lemma is_final_cases s : is_final s = true <-> s = ST_SUCCESS \/ s = ST_FAILURE \/ s = ST_ROLLBACK.
Proof. unfold is_final. rewrite !orb_true_iff, !N.eqb_eq. tauto. Qed.

(** every successful fsm step lands on one of the six statuses and follows an allowed triple *)
Lemma set_fsm_receipt_nonfinal s r s' :
  set_fsm s (event_of_receipt r) = Some s' -> is_final s = false.
Proof.
  intro H. destruct (is_final s) eqn:E; [|reflexivity].
  rewrite (set_fsm_final s _ E) in H. discriminate.
Qed.
Lemma set_fsm_nonfinal s ev s' : set_fsm s ev = Some s' -> is_final s = false.
Proof.
  intro H. destruct (is_final s) eqn:E; [|reflexivity].
  rewrite (set_fsm_final s _ E) in H. discriminate.
Qed.

(** the inter-hub notices: computed on the generated table *)
Lemma set_fsm_txstatus_edges s x s' :
  set_fsm s (event_of_txstatus x) = Some s' ->
  s = ST_BEGIN /\ ((x = 1 /\ s' = ST_FAILURE) \/ (x = 2 /\ s' = ST_ROLLBACK)).
Proof.
  unfold set_fsm. intro H.
  destruct (fsm_fire Gen_TxFsm.tx_fsm_events (status_name s) (event_of_txstatus x)) as [d|] eqn:E; [|discriminate].
  inversion H; subst; clear H.
  assert (Hs : s = 0 \/ s = 1 \/ s = 2 \/ s = 3 \/ s = 4 \/ s = 5 \/ status_name s = ""%string).
  { unfold status_name.
    destruct (find (fun p : string * N => (snd p =? s)) Gen_TxFsm.tx_status_values) as [p|] eqn:F.
    - apply find_some in F. destruct F as [Fin Feq]. apply N.eqb_eq in Feq. subst s.
      vm_compute in Fin.
      repeat match goal with H : _ \/ _ |- _ => destruct H end; try contradiction; subst p; simpl; tauto.
    - tauto. }
  assert (Hx : x = 1 \/ x = 2 \/ event_of_txstatus x = ""%string).
  { unfold event_of_txstatus.
    destruct (alookup N.eqb x Gen_TxFsm.txstatus2event) as [e|] eqn:F; [|tauto].
    apply alookup_N_in_keys in F. vm_compute in F.
    repeat match goal with H : _ \/ _ |- _ => destruct H end; try contradiction; subst x; tauto. }
  unfold ST_BEGIN, ST_FAILURE, ST_ROLLBACK.
  destruct Hs as [->|[->|[->|[->|[->|[->|Hs]]]]]];
    destruct Hx as [->|[->|Hx]];
    try (vm_compute in E; try discriminate E; inversion E; subst d; vm_compute; tauto);
    try (rewrite Hx in E; vm_compute in E; discriminate E);
    try (rewrite Hs in E; vm_compute in E; discriminate E).
  all: rewrite ?Hs, ?Hx in E; vm_compute in E; discriminate E.
Qed.

(** * children lists *)
Lemma child_lookup_set_same i s l : child_lookup i (child_set i s l) = Some s.
Proof.
  induction l as [|[j s0] r IH]; simpl.
  - rewrite txid_eqb_refl. reflexivity.
  - destruct (txid_eqb i j) eqn:E; simpl; rewrite E; [reflexivity | exact IH].
Qed.
Lemma child_lookup_set_other i j s l : j <> i -> child_lookup j (child_set i s l) = child_lookup j l.
Proof.
  intro Hn. induction l as [|[k s0] r IH]; simpl.
  - apply txid_eqb_neq in Hn. rewrite Hn. reflexivity.
  - destruct (txid_eqb i k) eqn:E; simpl.
    + apply txid_eqb_eq in E. subst k. apply txid_eqb_neq in Hn. rewrite Hn. reflexivity.
    + destruct (txid_eqb j k); [reflexivity | exact IH].
Qed.
Lemma child_lookup_all j s l :
  child_lookup j (children_all s l) = match child_lookup j l with Some _ => Some s | None => None end.
Proof.
  induction l as [|[k s0] r IH]; simpl; [reflexivity|].
  destruct (txid_eqb j k); [reflexivity | exact IH].
Qed.
Lemma child_lookup_in j s l : child_lookup j l = Some s -> In (j, s) l.
Proof.
  induction l as [|[k s0] r IH]; simpl; [discriminate|].
  destruct (txid_eqb j k) eqn:E.
  - apply txid_eqb_eq in E. subst. intro H. inversion H. left. reflexivity.
  - intro H. right. apply IH. exact H.
Qed.
Lemma child_lookup_none_notin j l : child_lookup j l = None -> ~ In j (map fst l).
Proof.
  induction l as [|[k s0] r IH]; simpl; [tauto|].
  destruct (txid_eqb j k) eqn:E; [discriminate|].
  intros H [Hk | Hin]; [subst; rewrite txid_eqb_refl in E; discriminate | exact (IH H Hin)].
Qed.
Lemma in_child_lookup j l : In j (map fst l) -> exists s, child_lookup j l = Some s.
Proof.
  induction l as [|[k s0] r IH]; simpl; [tauto|].
  destruct (txid_eqb j k) eqn:E; [eexists; reflexivity|].
  intros [Hk | Hin]; [subst; rewrite txid_eqb_refl in E; discriminate | exact (IH Hin)].
Qed.
Lemma child_set_keys_existing i s l :
  In i (map fst l) -> map fst (child_set i s l) = map fst l.
Proof.
  induction l as [|[k s0] r IH]; simpl; [tauto|].
  destruct (txid_eqb i k) eqn:E; simpl; [reflexivity|].
  intros [Hk | Hin]; [subst; rewrite txid_eqb_refl in E; discriminate | rewrite (IH Hin); reflexivity].
Qed.
Lemma child_set_keys_new i s l :
  ~ In i (map fst l) -> map fst (child_set i s l) = map fst l ++ [i].
Proof.
  induction l as [|[k s0] r IH]; simpl; [reflexivity|].
  intro Hn. destruct (txid_eqb i k) eqn:E.
  - apply txid_eqb_eq in E. subst. tauto.
  - simpl. rewrite IH; [reflexivity | tauto].
Qed.
Lemma children_all_keys s l : map fst (children_all s l) = map fst l.
Proof. unfold children_all. rewrite map_map. reflexivity. Qed.
Lemma children_all_vals s l p : In p (children_all s l) -> snd p = s.
Proof.
  unfold children_all. rewrite in_map_iff. intros [q [Hq _]]. subst p. reflexivity.
Qed.
Lemma child_set_In i s l p :
  NoDup (map fst l) ->
  (In p (child_set i s l) <-> p = (i, s) \/ (In p l /\ fst p <> i)).
Proof.
  induction l as [|[k s0] r IH]; simpl; intro Hnd.
  - split; [intros [H | []]; left; congruence | intros [H | [[] _]]; left; congruence].
  - inversion Hnd as [|? ? Hnotin Hnd']; subst.
    destruct (txid_eqb i k) eqn:E.
    + apply txid_eqb_eq in E. subst k. simpl. split.
      * intros [H | H]; [left; congruence|].
        right. split; [right; exact H|]. intro Hf. apply Hnotin. rewrite <- Hf.
        apply in_map. exact H.
      * intros [H | [[H | H] Hne]]; [left; congruence | subst p; simpl in Hne; congruence | right; exact H].
    + simpl. rewrite (IH Hnd'). apply txid_eqb_neq in E. split.
      * intros [H | [H | [H1 H2]]]; [right; split; [left; exact H | subst p; simpl; congruence] | left; exact H | right; split; [right; exact H1 | exact H2]].
      * intros [H | [[H | H] Hne]]; [right; left; exact H | left; exact H | right; right; split; assumption].
Qed.
Lemma txid_dec (a b : txid) : {a = b} + {a <> b}.
Proof. repeat decide equality. Defined.
Lemma gid_dec (a b : gid) : {a = b} + {a <> b}.
Proof. repeat decide equality. Defined.
Lemma tok_dec (a b : tok) : {a = b} + {a <> b}.
Proof. repeat decide equality. Defined.

Lemma NoDup_app_end {A} (l : list A) x : NoDup l -> ~ In x l -> NoDup (l ++ [x]).
Proof.
  induction l as [|y t IH]; simpl; intros Hnd Hn.
  - constructor; [tauto | constructor].
  - inversion Hnd; subst. constructor.
    + rewrite in_app_iff. simpl. intros [H | [H | []]]; [contradiction | subst; tauto].
    + apply IH; [assumption | tauto].
Qed.

Lemma child_set_nodup i s l : NoDup (map fst l) -> NoDup (map fst (child_set i s l)).
Proof.
  intro Hnd. destruct (in_dec txid_dec i (map fst l)) as [Hin | Hn].
  - rewrite child_set_keys_existing by exact Hin. exact Hnd.
  - rewrite child_set_keys_new by exact Hn. apply NoDup_app_end; assumption.
Qed.
