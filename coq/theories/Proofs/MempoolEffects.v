(** What each pool operation does to the observables (held transactions, commit nonces, batched
    set, hash keys, arrival clocks), for the repaired configuration.  Used by the trace proofs. *)
From BX Require Import Base.Prelude Model.Mempool.
From BX Require Import Proofs.MempoolLib Proofs.MempoolInv Proofs.MempoolInvOps Proofs.MempoolCommit
  Proofs.MempoolGen Proofs.MempoolReach.
From Coq Require Import ZifyBool ZifyN ZifyNat.
Local Open Scope N_scope.

(* ------------------------------------------------------------------------- insert / promote / process_pre *)

Section InsertFx.
  Variable now : N.

  Lemma fi_same l : forall s,
    let s' := fold_left (insert_tx now) l s in
    cnonce s' = cnonce s /\ pnonce s' = pnonce s /\ ledger s' = ledger s /\ batched s' = batched s /\
    seqno s' = seqno s /\ priority s' = priority s /\ pnbs s' = pnbs s.
  Proof.
    induction l as [|t r IH]; intros s; cbn zeta; cbn [fold_left]; [repeat split|].
    destruct (IH (insert_tx now s t)) as [H1 [H2 [H3 [H4 [H5 [H6 H7]]]]]]. cbn zeta in *.
    repeat split; etransitivity; eauto.
  Qed.

  Lemma fi_item_out l : forall s sl, (forall t, In t l -> slot_of t <> sl) ->
    item_at (fold_left (insert_tx now) l s) sl = item_at s sl.
  Proof.
    induction l as [|t r IH]; intros s sl H; cbn [fold_left]; [reflexivity|].
    rewrite IH by (intros; apply H; right; assumption). rewrite item_at_insert.
    destruct (slotP sl (slot_of t)) as [E|]; [|reflexivity]. exfalso. apply (H t); [left; reflexivity | auto].
  Qed.

  Lemma fi_item_in l : forall s t, NoDup (map slot_of l) -> In t l ->
    item_at (fold_left (insert_tx now) l s) (slot_of t) = Some t.
  Proof.
    induction l as [|x r IH]; intros s t Hnd Hin; [destruct Hin|]. cbn [fold_left].
    cbn [map] in Hnd. inversion Hnd as [|? ? Hx Hr]; subst. destruct Hin as [->|Hin].
    - rewrite fi_item_out.
      + rewrite item_at_insert, (eqb_refl slot_eqb slot_eqb_spec). reflexivity.
      + intros t' Ht' E. apply Hx. rewrite <- E. apply in_map. exact Ht'.
    - apply IH; assumption.
  Qed.

  Lemma fi_arr_out l : forall s sl, (forall t, In t l -> slot_of t <> sl) ->
    alookup slot_eqb sl (arrival (fold_left (insert_tx now) l s)) = alookup slot_eqb sl (arrival s).
  Proof.
    induction l as [|t r IH]; intros s sl H; cbn [fold_left]; [reflexivity|].
    rewrite IH by (intros; apply H; right; assumption).
    unfold insert_tx. scbn. rewrite (alookup_aset slot_eqb slot_eqb_spec).
    destruct (slotP sl (slot_of t)) as [E|]; [|reflexivity]. exfalso. apply (H t); [left; reflexivity | auto].
  Qed.

  Lemma fi_arr_in l : forall s t, NoDup (map slot_of l) -> In t l ->
    alookup slot_eqb (slot_of t) (arrival (fold_left (insert_tx now) l s)) = Some now.
  Proof.
    induction l as [|x r IH]; intros s t Hnd Hin; [destruct Hin|]. cbn [fold_left].
    cbn [map] in Hnd. inversion Hnd as [|? ? Hx Hr]; subst. destruct Hin as [->|Hin].
    - rewrite fi_arr_out.
      + unfold insert_tx. scbn. rewrite (alookup_aset slot_eqb slot_eqb_spec), (eqb_refl slot_eqb slot_eqb_spec). reflexivity.
      + intros t' Ht' E. apply Hx. rewrite <- E. apply in_map. exact Ht'.
    - apply IH; assumption.
  Qed.

  Lemma fi_arr_nd l : forall s, NoDup (map fst (arrival s)) -> NoDup (map fst (arrival (fold_left (insert_tx now) l s))).
  Proof.
    induction l as [|t r IH]; intros s H; cbn [fold_left]; [exact H|]. apply IH.
    unfold insert_tx. scbn. apply (NoDup_aset slot_eqb slot_eqb_spec). exact H.
  Qed.

  Lemma fi_keys l : forall s h, In h (map fst (hashmap (fold_left (insert_tx now) l s))) <-> In h l \/ In h (map fst (hashmap s)).
  Proof.
    induction l as [|t r IH]; intros s h; cbn [fold_left]; [cbn; tauto|].
    rewrite IH. unfold insert_tx at 1. scbn. rewrite (aset_keys tx_eqb tx_eqb_spec). cbn [In]. split; intros; intuition congruence.
  Qed.
End InsertFx.

Lemma fp_same D : forall s,
  let s' := fold_left promote_acct D s in
  hashmap s' = hashmap s /\ items s' = items s /\ cnonce s' = cnonce s /\ ledger s' = ledger s /\
  arrival s' = arrival s /\ batched s' = batched s /\ seqno s' = seqno s.
Proof.
  induction D as [|a r IH]; intros s; cbn zeta; cbn [fold_left]; [repeat split|].
  destruct (IH (promote_acct s a)) as [H1 [H2 [H3 [H4 [H5 [H6 H7]]]]]]. cbn zeta in *.
  repeat split; etransitivity; eauto.
Qed.

Section ProcessFx.
  Variables (s : state) (now : N) (txs : list tx).
  Let valid := filter_valid s [] txs.
  Let s2 := process_pre s now txs.

  Lemma pp_valid_nodup : NoDup (map slot_of valid).
  Proof. apply (filter_valid_for s txs). Qed.

  Lemma pp_valid_in t : In t valid -> In t txs /\ get_pn s (t_acct t) <= t_nonce t /\ alookup tx_eqb t (hashmap s) = None.
  Proof. intro H. destruct (filter_valid_spec s txs []) as [_ H2]. destruct (H2 t H) as [H3 [_ H4]]. tauto. Qed.

  Lemma pp_cn a : get_cn s2 a = get_cn s a.
  Proof.
    unfold s2, process_pre. fold valid.
    destruct (fp_same (dedup N.eqb (map t_acct valid)) (fold_left (insert_tx now) valid s)) as [_ [_ [H3 [H4 _]]]].
    destruct (fi_same now valid s) as [F1 [_ [F3 _]]]. cbn zeta in *.
    unfold get_cn. rewrite H3, H4, F1, F3. reflexivity.
  Qed.

  Lemma pp_batched : batched s2 = batched s.
  Proof.
    unfold s2, process_pre. fold valid.
    destruct (fp_same (dedup N.eqb (map t_acct valid)) (fold_left (insert_tx now) valid s)) as [_ [_ [_ [_ [_ [H6 _]]]]]].
    destruct (fi_same now valid s) as [_ [_ [_ [F4 _]]]]. cbn zeta in *. congruence.
  Qed.

  Lemma pp_seqno : seqno s2 = seqno s.
  Proof.
    unfold s2, process_pre. fold valid.
    destruct (fp_same (dedup N.eqb (map t_acct valid)) (fold_left (insert_tx now) valid s)) as [_ [_ [_ [_ [_ [_ H7]]]]]].
    destruct (fi_same now valid s) as [_ [_ [_ [_ [F5 _]]]]]. cbn zeta in *. congruence.
  Qed.

  Lemma pp_item x : item_at s2 x = item_at (fold_left (insert_tx now) valid s) x.
  Proof.
    unfold s2, process_pre, item_at. fold valid.
    destruct (fp_same (dedup N.eqb (map t_acct valid)) (fold_left (insert_tx now) valid s)) as [_ [H2 _]]. cbn zeta in *.
    rewrite H2. reflexivity.
  Qed.

  Lemma pp_item_in t : In t valid -> item_at s2 (slot_of t) = Some t.
  Proof. intro H. rewrite pp_item. apply fi_item_in; [apply pp_valid_nodup | exact H]. Qed.

  Lemma pp_item_out sl : (forall t, In t valid -> slot_of t <> sl) -> item_at s2 sl = item_at s sl.
  Proof. intro H. rewrite pp_item. apply fi_item_out. exact H. Qed.

  Lemma pp_arrival x : alookup slot_eqb x (arrival s2) = alookup slot_eqb x (arrival (fold_left (insert_tx now) valid s)).
  Proof.
    unfold s2, process_pre. fold valid.
    destruct (fp_same (dedup N.eqb (map t_acct valid)) (fold_left (insert_tx now) valid s)) as [_ [_ [_ [_ [H5 _]]]]]. cbn zeta in *.
    rewrite H5. reflexivity.
  Qed.

  Lemma pp_arr_nd : NoDup (map fst (arrival s)) -> NoDup (map fst (arrival s2)).
  Proof.
    intro H. unfold s2, process_pre. fold valid.
    destruct (fp_same (dedup N.eqb (map t_acct valid)) (fold_left (insert_tx now) valid s)) as [_ [_ [_ [_ [H5 _]]]]]. cbn zeta in *.
    rewrite H5. apply fi_arr_nd. exact H.
  Qed.

  Lemma pp_keys h : In h (map fst (hashmap s2)) <-> In h valid \/ In h (map fst (hashmap s)).
  Proof.
    unfold s2, process_pre. fold valid.
    destruct (fp_same (dedup N.eqb (map t_acct valid)) (fold_left (insert_tx now) valid s)) as [H1 _]. cbn zeta in *.
    rewrite H1. apply fi_keys.
  Qed.
End ProcessFx.

(* ------------------------------------------------------------------------- commit *)

Notation drop := (drop_slot cfg_fixed).

Lemma drop_keys t sl h : In h (map fst (hashmap (drop t sl))) -> In h (map fst (hashmap t)).
Proof.
  unfold drop_slot. destruct (item_at t sl); scbn; [|auto].
  intro H. apply in_map_iff in H. destruct H as [e [E Hin]]. apply filter_In in Hin. apply in_map_iff. exists e. tauto.
Qed.

Lemma drop_arrival t sl x : alookup slot_eqb x (arrival (drop t sl)) =
  match item_at t sl with Some _ => if slot_eqb x sl then None else alookup slot_eqb x (arrival t) | None => alookup slot_eqb x (arrival t) end.
Proof.
  unfold drop_slot. destruct (item_at t sl); scbn; [|reflexivity]. apply (alookup_aremove slot_eqb slot_eqb_spec).
Qed.

Lemma drop_arr_nd t sl : NoDup (map fst (arrival t)) -> NoDup (map fst (arrival (drop t sl))).
Proof. unfold drop_slot. destruct (item_at t sl); scbn; [apply (NoDup_aremove slot_eqb slot_eqb_spec) | auto]. Qed.

Lemma fold_drop_keys gone : forall t h, In h (map fst (hashmap (fold_left drop gone t))) -> In h (map fst (hashmap t)).
Proof. induction gone as [|y r IH]; intros t h; cbn [fold_left]; [auto|]. intro H. apply IH in H. eapply drop_keys; eauto. Qed.

Lemma fold_drop_arr_nd gone : forall t, NoDup (map fst (arrival t)) -> NoDup (map fst (arrival (fold_left drop gone t))).
Proof. induction gone as [|y r IH]; intros t H; cbn [fold_left]; [auto|]. apply IH, drop_arr_nd, H. Qed.

Lemma fold_drop_arrival gone : forall t x, ~ In x gone ->
  alookup slot_eqb x (arrival (fold_left drop gone t)) = alookup slot_eqb x (arrival t).
Proof.
  induction gone as [|y r IH]; intros t x H; cbn [fold_left]; [reflexivity|].
  rewrite IH by (intro; apply H; right; assumption). rewrite drop_arrival.
  destruct (item_at t y); [|reflexivity]. destruct (slotP x y) as [->|]; [exfalso; apply H; left; reflexivity | reflexivity].
Qed.

Lemma fold_drop_batched_sub gone : forall t x, In x (batched (fold_left drop gone t)) -> In x (batched t).
Proof.
  induction gone as [|y r IH]; intros t x; cbn [fold_left]; [auto|]. intro H. apply IH in H.
  apply drop_batched in H. tauto.
Qed.

Lemma fold_drop_batched_keep gone : forall t x, In x (batched t) -> ~ In x gone -> In x (batched (fold_left drop gone t)).
Proof.
  induction gone as [|y r IH]; intros t x H Hn; cbn [fold_left]; [auto|].
  apply IH; [|intro; apply Hn; right; assumption]. apply drop_batched. split; [exact H|].
  intros _ ->. apply Hn. left. reflexivity.
Qed.

Lemma drop_hm_nodup t sl : NoDup (map fst (hashmap t)) -> NoDup (map fst (hashmap (drop t sl))).
Proof. unfold drop_slot. destruct (item_at t sl); scbn; [apply NoDup_map_filter | auto]. Qed.

Lemma drop_hm_keep t sl h x : NoDup (map fst (hashmap t)) -> alookup tx_eqb h (hashmap t) = Some x -> x <> sl ->
  alookup tx_eqb h (hashmap (drop t sl)) = Some x.
Proof.
  intros Hnd E Hne. rewrite (drop_hashmap t sl h Hnd), E. destruct (slotP x sl); [contradiction | reflexivity].
Qed.

Lemma fold_drop_hm_nodup gone : forall t, NoDup (map fst (hashmap t)) -> NoDup (map fst (hashmap (fold_left drop gone t))).
Proof. induction gone as [|y r IH]; intros t H; cbn [fold_left]; [auto|]. apply IH, drop_hm_nodup, H. Qed.

Lemma fold_drop_hm_keep gone : forall t h x, NoDup (map fst (hashmap t)) -> alookup tx_eqb h (hashmap t) = Some x -> ~ In x gone ->
  alookup tx_eqb h (hashmap (fold_left drop gone t)) = Some x.
Proof.
  induction gone as [|y r IH]; intros t h x Hnd E Hn; cbn [fold_left]; [exact E|].
  apply IH; [apply drop_hm_nodup; exact Hnd | apply drop_hm_keep; auto; intros ->; apply Hn; left; reflexivity | intro; apply Hn; right; assumption].
Qed.

(** one forwarded account *)
Section ForwardFx.
  Variables (a : N) (t : state).
  Let c := get_cn t a.
  Let gone := filter (fun sl => (fst sl =? a) && (snd sl <? c)) (index t).
  Let t' := forward_acct cfg_fixed t a.
  Let t1 := fold_left drop gone t.

  Lemma fwd_shape : t' = t1 \/ t' = promote_acct (set_pnonce t1 (aset N.eqb a c (pnonce t1))) a.
  Proof.
    unfold t', forward_acct. scbn. fold c. fold gone. fold t1. destruct (get_pn t1 a <? c); [right | left]; reflexivity.
  Qed.

  Lemma fwd_same :
    items t' = items t1 /\ hashmap t' = hashmap t1 /\ batched t' = batched t1 /\ arrival t' = arrival t1 /\
    cnonce t' = cnonce t1 /\ ledger t' = ledger t1 /\ seqno t' = seqno t1.
  Proof. destruct fwd_shape as [-> | ->]; repeat split. Qed.

  Lemma fwd_cn b : get_cn t' b = get_cn t b.
  Proof.
    destruct fwd_same as [_ [_ [_ [_ [H5 [H6 _]]]]]]. unfold get_cn at 1. rewrite H5, H6.
    change (match alookup N.eqb b (cnonce t1) with Some n => n | None => lookup0 b (ledger t1) end) with (get_cn t1 b).
    apply fold_drop_cn.
  Qed.

  Lemma fwd_seqno : seqno t' = seqno t.
  Proof. destruct fwd_same as [_ [_ [_ [_ [_ [_ H7]]]]]]. rewrite H7. apply fold_drop_seqno. Qed.

  Lemma gone_in x : In x gone -> fst x = a /\ snd x < c.
  Proof. unfold gone. rewrite filter_In, andb_true_iff, N.eqb_eq, N.ltb_lt. tauto. Qed.

  Lemma fwd_item x : item_at t' x = if mem slot_eqb x gone then None else item_at t x.
  Proof.
    destruct fwd_same as [H1 _]. unfold item_at at 1. rewrite H1. apply fold_drop_item.
  Qed.

  Lemma fwd_item_sub x v : item_at t' x = Some v -> item_at t x = Some v.
  Proof. rewrite fwd_item. destruct (mem slot_eqb x gone); [discriminate | auto]. Qed.

  Lemma fwd_item_keep x v : item_at t x = Some v -> ~ (fst x = a /\ snd x < c) -> item_at t' x = Some v.
  Proof.
    intros H Hn. rewrite fwd_item. destruct (mem slot_eqb x gone) eqn:E; [|exact H].
    apply (mem_In slot_eqb slot_eqb_spec) in E. apply gone_in in E. contradiction.
  Qed.

  Lemma fwd_batched_sub x : In x (batched t') -> In x (batched t).
  Proof. destruct fwd_same as [_ [_ [H3 _]]]. rewrite H3. apply fold_drop_batched_sub. Qed.

  Lemma fwd_batched_keep x : In x (batched t) -> ~ (fst x = a /\ snd x < c) -> In x (batched t').
  Proof.
    intros H Hn. destruct fwd_same as [_ [_ [H3 _]]]. rewrite H3. apply fold_drop_batched_keep; [exact H|].
    intro Hg. apply gone_in in Hg. contradiction.
  Qed.

  Lemma fwd_keys h : In h (map fst (hashmap t')) -> In h (map fst (hashmap t)).
  Proof. destruct fwd_same as [_ [H2 _]]. rewrite H2. apply fold_drop_keys. Qed.

  Lemma fwd_arr_nd : NoDup (map fst (arrival t)) -> NoDup (map fst (arrival t')).
  Proof. destruct fwd_same as [_ [_ [_ [H4 _]]]]. rewrite H4. apply fold_drop_arr_nd. Qed.

  Lemma fwd_arrival x : ~ (fst x = a /\ snd x < c) -> alookup slot_eqb x (arrival t') = alookup slot_eqb x (arrival t).
  Proof.
    intro Hn. destruct fwd_same as [_ [_ [_ [H4 _]]]]. rewrite H4. apply fold_drop_arrival.
    intro Hg. apply gone_in in Hg. contradiction.
  Qed.
  Lemma fwd_hm_nodup : NoDup (map fst (hashmap t)) -> NoDup (map fst (hashmap t')).
  Proof. destruct fwd_same as [_ [H2 _]]. rewrite H2. apply fold_drop_hm_nodup. Qed.

  Lemma fwd_hm_keep h x : NoDup (map fst (hashmap t)) -> alookup tx_eqb h (hashmap t) = Some x ->
    ~ (fst x = a /\ snd x < c) -> alookup tx_eqb h (hashmap t') = Some x.
  Proof.
    intros Hnd E Hn. destruct fwd_same as [_ [H2 _]]. rewrite H2. apply fold_drop_hm_keep; auto.
    intro Hg. apply gone_in in Hg. contradiction.
  Qed.
End ForwardFx.

Lemma fold_fwd_fx D : forall t,
  let t' := fold_left (forward_acct cfg_fixed) D t in
  (forall b, get_cn t' b = get_cn t b) /\ seqno t' = seqno t /\
  (forall x v, item_at t' x = Some v -> item_at t x = Some v) /\
  (forall x v, item_at t x = Some v -> get_cn t (fst x) <= snd x -> item_at t' x = Some v) /\
  (forall x, In x (batched t') -> In x (batched t)) /\
  (forall x, In x (batched t) -> get_cn t (fst x) <= snd x -> In x (batched t')) /\
  (forall h, In h (map fst (hashmap t')) -> In h (map fst (hashmap t))) /\
  (NoDup (map fst (arrival t)) -> NoDup (map fst (arrival t'))) /\
  (forall x, get_cn t (fst x) <= snd x -> alookup slot_eqb x (arrival t') = alookup slot_eqb x (arrival t)).
Proof.
  induction D as [|a r IH]; intros t; cbn zeta; cbn [fold_left].
  - repeat split; auto.
  - destruct (IH (forward_acct cfg_fixed t a)) as [H1 [H2 [H3 [H4 [H5 [H6 [H7 [H8 H9]]]]]]]]. cbn zeta in *.
    assert (Hc : forall b, get_cn (forward_acct cfg_fixed t a) b = get_cn t b) by (intro; apply fwd_cn).
    repeat split.
    + intro b. rewrite H1. apply Hc.
    + rewrite H2. apply fwd_seqno.
    + intros x v H. eapply fwd_item_sub. apply H3. exact H.
    + intros x v H Hge. apply H4; [|rewrite Hc; exact Hge]. apply fwd_item_keep; [exact H | intros [E Hlt]; rewrite E in Hge; lia].
    + intros x H. eapply fwd_batched_sub. apply H5. exact H.
    + intros x H Hge. apply H6; [|rewrite Hc; exact Hge]. apply fwd_batched_keep; [exact H | intros [E Hlt]; rewrite E in Hge; lia].
    + intros h H. eapply fwd_keys. apply H7. exact H.
    + intro H. apply H8. apply fwd_arr_nd. exact H.
    + intros x Hge. rewrite H9 by (rewrite Hc; exact Hge). apply fwd_arrival. intros [E Hlt]; rewrite E in Hge; lia.
Qed.

Lemma fold_fwd_hm D : forall t, NoDup (map fst (hashmap t)) ->
  NoDup (map fst (hashmap (fold_left (forward_acct cfg_fixed) D t))) /\
  forall h x, alookup tx_eqb h (hashmap t) = Some x -> get_cn t (fst x) <= snd x ->
    alookup tx_eqb h (hashmap (fold_left (forward_acct cfg_fixed) D t)) = Some x.
Proof.
  induction D as [|a r IH]; intros t Hnd; cbn [fold_left]; [split; auto|].
  destruct (IH (forward_acct cfg_fixed t a) (fwd_hm_nodup a t Hnd)) as [H1 H2]. split; [exact H1|].
  intros h x E Hge. apply H2; [|rewrite fwd_cn; exact Hge].
  apply fwd_hm_keep; auto. intros [Ea Hlt]. rewrite Ea in Hge. lia.
Qed.

Lemma c_step_gone s acc x h : alookup tx_eqb h (c_hm acc) = None -> alookup tx_eqb h (c_hm (c_step s acc x)) = None.
Proof.
  intro H. unfold c_step. destruct (alookup tx_eqb x (c_hm acc)); [|exact H]. cbn [c_hm].
  rewrite (alookup_aremove tx_eqb tx_eqb_spec). destruct (tx_eqb h x); [reflexivity | exact H].
Qed.

Lemma c_step_self s acc h : alookup tx_eqb h (c_hm (c_step s acc h)) = None.
Proof.
  unfold c_step. destruct (alookup tx_eqb h (c_hm acc)) eqn:E; [|exact E]. cbn [c_hm].
  rewrite (alookup_aremove tx_eqb tx_eqb_spec), (eqb_refl tx_eqb tx_eqb_spec). reflexivity.
Qed.

Lemma c_fold_gone s hs : forall acc h, In h hs \/ alookup tx_eqb h (c_hm acc) = None ->
  alookup tx_eqb h (c_hm (fold_left (c_step s) hs acc)) = None.
Proof.
  induction hs as [|x r IH]; intros acc h H; cbn [fold_left]; [destruct H as [[]|H]; exact H|].
  apply IH. destruct H as [[->|H]|H]; [right; apply c_step_self | left; exact H | right; apply c_step_gone; exact H].
Qed.

Section CommitFx.
  Variables (s : state) (hs : list tx).
  Hypothesis I : Inv s.
  Let acc := fold_left (c_step s) hs (mkC [] [] (hashmap s) (batched s)).
  Let s' := commit_txs cfg_fixed s hs.
  Definition cn_after (a : N) : N := cnew s acc a.

  Let s2 := set_cnonce (set_batched (set_hashmap s (c_hm acc)) (c_b acc))
              (fold_left (fun cn e => aset N.eqb (fst e) (snd e) cn) (c_upd acc) (cnonce s)).
  Let s3 := fold_left (forward_acct cfg_fixed) (c_dirty acc) s2.

  Lemma commit_shape : s' = s3 \/ s' = set_pnbs s3 (len (priority s3)).
  Proof.
    unfold s', commit_txs.
    match goal with |- context [if ?c then _ else _] => destruct c end; [right | left]; reflexivity.
  Qed.

  Lemma commit_same_s3 : items s' = items s3 /\ hashmap s' = hashmap s3 /\ batched s' = batched s3 /\
    arrival s' = arrival s3 /\ cnonce s' = cnonce s3 /\ ledger s' = ledger s3 /\ seqno s' = seqno s3.
  Proof. destruct commit_shape as [-> | ->]; repeat split. Qed.

  Lemma CA : CAcc s hs acc.
  Proof. apply commit_acc. exact I. Qed.

  Lemma commit_cn a : get_cn s' a = cn_after a.
  Proof.
    destruct commit_same_s3 as [_ [_ [_ [_ [H5 [H6 _]]]]]]. unfold get_cn at 1. rewrite H5, H6.
    change (match alookup N.eqb a (cnonce s3) with Some n => n | None => lookup0 a (ledger s3) end) with (get_cn s3 a).
    destruct (fold_fwd_fx (c_dirty acc) s2) as [H1 _]. cbn zeta in H1. fold s3 in H1. rewrite H1.
    apply (mid_cn s hs I).
  Qed.

  Lemma commit_cn_ge a : get_cn s a <= cn_after a.
  Proof. apply (cnew_ge s hs acc a CA). Qed.

  Lemma commit_cn_why a : get_cn s a < cn_after a -> exists h, In h hs /\ t_acct h = a /\ t_nonce h + 1 = cn_after a.
  Proof.
    unfold cn_after, cnew. destruct (alookup N.eqb a (c_upd acc)) as [v|] eqn:E; [|lia]. intros _.
    destruct (CA_upd _ _ _ CA a v E) as [_ [_ H]]. exact H.
  Qed.

  Lemma commit_seqno : seqno s' = seqno s.
  Proof.
    destruct commit_same_s3 as [_ [_ [_ [_ [_ [_ H7]]]]]]. rewrite H7.
    destruct (fold_fwd_fx (c_dirty acc) s2) as [_ [H2 _]]. cbn zeta in H2. fold s3 in H2. rewrite H2. reflexivity.
  Qed.

  Lemma commit_inv' : Inv s'.
  Proof. apply commit_inv. exact I. Qed.

  Lemma s2_cn b : get_cn s2 b = cn_after b.
  Proof. apply (mid_cn s hs I). Qed.

  Lemma commit_item x v : item_at s' x = Some v <-> item_at s x = Some v /\ cn_after (fst x) <= snd x.
  Proof.
    destruct commit_same_s3 as [H1 _]. unfold item_at at 1. rewrite H1.
    change (alookup slot_eqb x (items s3)) with (item_at s3 x).
    destruct (fold_fwd_fx (c_dirty acc) s2) as [_ [_ [H3 [H4 _]]]]. cbn zeta in *. fold s3 in H3, H4. split.
    - intro H. split; [apply (H3 x v H)|].
      destruct x as [a n]. cbn [fst snd]. rewrite <- commit_cn. apply (I_it_cn _ _ _ commit_inv' a n); [intros []|].
      unfold item_at. rewrite H1. change (alookup slot_eqb (a, n) (items s3)) with (item_at s3 (a, n)). congruence.
    - intros [H Hge]. apply H4; [exact H | rewrite s2_cn; exact Hge].
  Qed.

  Lemma commit_batched x : In x (batched s') <-> In x (batched s) /\ cn_after (fst x) <= snd x.
  Proof.
    destruct commit_same_s3 as [_ [_ [H3 _]]]. rewrite H3.
    destruct (fold_fwd_fx (c_dirty acc) s2) as [_ [_ [_ [_ [H5 [H6 _]]]]]]. cbn zeta in *. fold s3 in H5, H6. split.
    - intro H. split; [apply (CA_bsub _ _ _ CA); apply (H5 x H)|].
      destruct x as [a n]. cbn [fst snd]. rewrite <- commit_cn. apply (I_b_lo _ _ _ commit_inv' a n); [intros []|].
      rewrite H3. exact H.
    - intros [H Hge]. apply H6; [|rewrite s2_cn; exact Hge].
      destruct (CA_b _ _ _ CA x H) as [Hc|[_ Hlt]]; [exact Hc|]. fold acc in Hlt. unfold cn_after in Hge. lia.
  Qed.

  Lemma commit_keys h : In h (map fst (hashmap s')) -> In h (map fst (hashmap s)).
  Proof.
    destruct commit_same_s3 as [_ [H2 _]]. rewrite H2.
    destruct (fold_fwd_fx (c_dirty acc) s2) as [_ [_ [_ [_ [_ [_ [H7 _]]]]]]]. cbn zeta in *. fold s3 in H7.
    intro H. apply H7 in H. change (hashmap s2) with (c_hm acc) in H.
    apply in_map_iff in H. destruct H as [[k v] [E Hin]]. cbn in E. subst k.
    assert (Hl : alookup tx_eqb h (c_hm acc) = Some v) by (apply (In_alookup tx_eqb tx_eqb_spec); [exact (CA_nodup _ _ _ CA) | exact Hin]).
    eapply (alookup_Some_key tx_eqb tx_eqb_spec). apply (CA_sub _ _ _ CA). exact Hl.
  Qed.

  Lemma commit_arr_nd : NoDup (map fst (arrival s)) -> NoDup (map fst (arrival s')).
  Proof.
    destruct commit_same_s3 as [_ [_ [_ [H4 _]]]]. rewrite H4.
    destruct (fold_fwd_fx (c_dirty acc) s2) as [_ [_ [_ [_ [_ [_ [_ [H8 _]]]]]]]]. cbn zeta in *. fold s3 in H8. exact H8.
  Qed.

  Lemma commit_arrival x : cn_after (fst x) <= snd x -> alookup slot_eqb x (arrival s') = alookup slot_eqb x (arrival s).
  Proof.
    intro Hge. destruct commit_same_s3 as [_ [_ [_ [H4 _]]]]. rewrite H4.
    destruct (fold_fwd_fx (c_dirty acc) s2) as [_ [_ [_ [_ [_ [_ [_ [_ H9]]]]]]]]. cbn zeta in *. fold s3 in H9.
    rewrite H9 by (rewrite s2_cn; exact Hge). reflexivity.
  Qed.
  (** a commit report naming a transaction the pool tracks moves the commit nonce past its nonce *)
  Lemma commit_recognised h sl : In h hs -> alookup tx_eqb h (hashmap s) = Some sl -> snd sl < cn_after (fst sl).
  Proof.
    intros Hin E. destruct (CA_hm _ _ _ CA h sl E) as [H|[_ H]]; [|exact H].
    fold acc in H. unfold acc in H. rewrite (c_fold_gone s hs _ h (or_introl Hin)) in H. discriminate.
  Qed.

  (** the record of a transaction whose slot stays at or above the commit nonce survives the commit *)
  Lemma commit_key_keep h sl : alookup tx_eqb h (hashmap s) = Some sl -> cn_after (fst sl) <= snd sl ->
    alookup tx_eqb h (hashmap s') = Some sl.
  Proof.
    intros E Hge. destruct commit_same_s3 as [_ [H2 _]]. rewrite H2.
    destruct (fold_fwd_hm (c_dirty acc) s2 (CA_nodup _ _ _ CA)) as [_ Hk]. fold s3 in Hk.
    apply Hk; [|rewrite s2_cn; exact Hge]. change (hashmap s2) with (c_hm acc).
    destruct (CA_hm _ _ _ CA h sl E) as [H|[_ H]]; [exact H|]. fold acc in H. unfold cn_after in Hge. lia.
  Qed.
End CommitFx.
