(** Proofs about [Model/ChainLedger.v]: the live chain ledger refines the stack of surviving
    entries, for every history of persist / rollback / reopen (defect flags off). *)
From BX Require Import Base.Prelude Model.ChainLedger.
From Coq Require Import ZifyBool ZifyN ZifyNat.
Local Open Scope N_scope.

(** * Association lists over [N] *)
Lemma nlookup_nremove {V} k k' (m : list (N * V)) :
  nlookup k (nremove k' m) = if k =? k' then None else nlookup k m.
Proof.
  unfold nlookup, nremove. induction m as [|[a v] t IH]; simpl.
  - destruct (k =? k'); reflexivity.
  - destruct (k' =? a) eqn:E1.
    + rewrite IH. destruct (k =? k') eqn:E2; [reflexivity|].
      destruct (k =? a) eqn:E3; [lia|reflexivity].
    + simpl. rewrite IH. destruct (k =? a) eqn:E3.
      * destruct (k =? k') eqn:E2; [lia|reflexivity].
      * reflexivity.
Qed.

Lemma nlookup_nset {V} k k' (v : V) (m : list (N * V)) :
  nlookup k (nset k' v m) = if k =? k' then Some v else nlookup k m.
Proof.
  pose proof (nlookup_nremove k k' m) as H. unfold nlookup, nremove, nset, aset in *.
  cbn [alookup]. rewrite H. destruct (k =? k'); reflexivity.
Qed.

(** * Tables *)
Lemma tlen_app {A} (l : list A) x : tlen (l ++ [x]) = tlen l + 1.
Proof. unfold tlen. rewrite app_length. simpl. lia. Qed.

Lemma tget_map {A B} (f : A -> B) l h : tget (map f l) h = option_map f (tget l h).
Proof. unfold tget. destruct (h =? 0); [reflexivity|]. apply nth_error_map. Qed.

Lemma tget_none {A} (l : list A) h : tlen l < h -> tget l h = None.
Proof.
  unfold tget, tlen. intro H. destruct (h =? 0) eqn:E; [reflexivity|].
  apply nth_error_None. lia.
Qed.

Lemma tget_nil {A} h : tget (@nil A) h = None.
Proof. unfold tget. destruct (h =? 0); [reflexivity|]. destruct (N.to_nat (h - 1)); reflexivity. Qed.

Lemma tget_zero {A} (l : list A) : tget l 0 = None.
Proof. reflexivity. Qed.

Lemma tget_some {A} (l : list A) h : 1 <= h -> h <= tlen l -> exists x, tget l h = Some x.
Proof.
  unfold tget, tlen. intros H1 H2. destruct (h =? 0) eqn:E; [lia|].
  destruct (nth_error l (N.to_nat (h - 1))) eqn:E2; [eauto|].
  apply nth_error_None in E2. lia.
Qed.

Lemma tget_bound {A} (l : list A) h x : tget l h = Some x -> 1 <= h /\ h <= tlen l.
Proof.
  unfold tget, tlen. destruct (h =? 0) eqn:E; [discriminate|]. intro H.
  assert (nth_error l (N.to_nat (h - 1)) <> None) by congruence.
  apply nth_error_Some in H0. lia.
Qed.

Lemma tget_snoc {A} (l : list A) x h :
  tget (l ++ [x]) h = if h =? tlen l + 1 then Some x else tget l h.
Proof.
  unfold tget, tlen. destruct (h =? 0) eqn:E0.
  - destruct (h =? N.of_nat (length l) + 1) eqn:E; [lia|reflexivity].
  - destruct (h =? N.of_nat (length l) + 1) eqn:E.
    + rewrite nth_error_app2 by lia.
      replace (N.to_nat (h - 1) - length l)%nat with 0%nat by lia. reflexivity.
    + destruct (N.to_nat (h - 1) <? length l)%nat eqn:E2.
      * rewrite nth_error_app1 by lia. reflexivity.
      * assert (nth_error l (N.to_nat (h - 1)) = None) as -> by (apply nth_error_None; lia).
        apply nth_error_None. rewrite app_length. simpl. lia.
Qed.

Lemma nth_error_firstn_lt {A} (l : list A) : forall n i, (i < n)%nat ->
  nth_error (firstn n l) i = nth_error l i.
Proof.
  induction l as [|x r IH]; intros n i H.
  - rewrite firstn_nil. reflexivity.
  - destruct n; [lia|]. destruct i; simpl; [reflexivity|]. apply IH. lia.
Qed.

Lemma tget_firstn {A} (l : list A) t h :
  tget (ttrunc t l) h = if h <=? t then tget l h else None.
Proof.
  unfold tget, ttrunc. destruct (h =? 0) eqn:E0.
  - destruct (h <=? t); reflexivity.
  - destruct (h <=? t) eqn:E.
    + apply nth_error_firstn_lt. lia.
    + apply nth_error_None. rewrite firstn_length. lia.
Qed.

Lemma tlen_firstn {A} (l : list A) t : t <= tlen l -> tlen (ttrunc t l) = t.
Proof. unfold tlen, ttrunc. intro H. rewrite firstn_length. lia. Qed.

Lemma ttrunc_all {A} (l : list A) t : tlen l <= t -> ttrunc t l = l.
Proof. unfold tlen, ttrunc. intro H. apply firstn_all2. lia. Qed.

Lemma ttrunc_map {A B} (f : A -> B) l t : ttrunc t (map f l) = map f (ttrunc t l).
Proof. unfold ttrunc. apply firstn_map. Qed.

Lemma ttrunc_snoc {A} (l : list A) x : ttrunc (tlen l) (l ++ [x]) = l.
Proof.
  unfold ttrunc, tlen. rewrite Nat2N.id. rewrite firstn_app.
  replace (length l - length l)%nat with 0%nat by lia. simpl.
  rewrite firstn_all, app_nil_r. reflexivity.
Qed.

Lemma ttrunc_ttrunc {A} (l : list A) a b : a <= b -> ttrunc a (ttrunc b l) = ttrunc a l.
Proof.
  unfold ttrunc. intro H. rewrite firstn_firstn. f_equal. lia.
Qed.

(** * The blockfile image of a spec *)
Definition bf_of (sp : spec) : bfile :=
  mkBF (map (fun e => b_hash (e_blk e)) sp)
       (map (fun e => (b_hdr (e_blk e), b_hash (e_blk e))) sp)
       (map (fun e => b_txs (e_blk e)) sp)
       (map e_rcpts sp) (map e_im sp).

Lemma bf_min_of sp : bf_min (bf_of sp) = tlen sp.
Proof. unfold bf_min, bf_of, tlen. simpl. rewrite !map_length. lia. Qed.

Lemma bf_append_of sp e : bf_append e (bf_of sp) = bf_of (sp ++ [e]).
Proof. unfold bf_append, bf_of. simpl. rewrite !map_app. reflexivity. Qed.

Lemma bf_trunc_of sp t : bf_trunc t (bf_of sp) = bf_of (ttrunc t sp).
Proof. unfold bf_trunc, bf_of. simpl. rewrite !ttrunc_map. reflexivity. Qed.

Lemma bf_repair_of sp : bf_repair (bf_of sp) = bf_of sp.
Proof.
  unfold bf_repair. rewrite bf_min_of, bf_trunc_of, ttrunc_all by lia. reflexivity.
Qed.

Lemma bf_truncate_blocks_of sp t : bf_truncate_blocks t (bf_of sp) = bf_of (ttrunc t sp).
Proof.
  unfold bf_truncate_blocks, bf_blocks. rewrite bf_min_of.
  destruct (tlen sp <=? t) eqn:E.
  - rewrite ttrunc_all by lia. reflexivity.
  - apply bf_trunc_of.
Qed.

(** * Spec-level helpers *)
Definition count_of (sp : spec) : N := fold_right (fun e acc => im_count (e_im e) + acc) 0 sp.
Lemma count_of_app sp e : count_of (sp ++ [e]) = count_of sp + im_count (e_im e).
Proof. unfold count_of. induction sp as [|a t IH]; simpl; [lia|]. rewrite IH. lia. Qed.

Lemma spec_meta_snoc sp e :
  spec_meta (sp ++ [e]) = mkMeta (tlen sp + 1) (b_hash (e_blk e)) (count_of sp + im_count (e_im e)).
Proof.
  unfold spec_meta. rewrite rev_app_distr. simpl. rewrite tlen_app.
  change (fold_right (fun e acc => im_count (e_im e) + acc) 0 (sp ++ [e])) with (count_of (sp ++ [e])).
  rewrite count_of_app. reflexivity.
Qed.

Lemma spec_meta_height sp : cm_height (spec_meta sp) = tlen sp.
Proof.
  destruct sp as [|a t] using rev_ind; [reflexivity|]. rewrite spec_meta_snoc, tlen_app. reflexivity.
Qed.
Lemma spec_meta_count sp : cm_count (spec_meta sp) = count_of sp.
Proof.
  destruct sp as [|a t] using rev_ind; [reflexivity|]. rewrite spec_meta_snoc, count_of_app. reflexivity.
Qed.

(** 1-based position of the first entry with block hash [x] *)
Fixpoint hpos (sp : spec) (x : N) (k : N) : option N :=
  match sp with
  | [] => None
  | e :: r => if b_hash (e_blk e) =? x then Some k else hpos r x (k + 1)
  end.

Lemma hpos_app sp e x k :
  hpos (sp ++ [e]) x k =
  match hpos sp x k with
  | Some h => Some h
  | None => if b_hash (e_blk e) =? x then Some (k + tlen sp) else None
  end.
Proof.
  revert k. induction sp as [|a t IH]; intro k; simpl.
  - unfold tlen. simpl. rewrite N.add_0_r. reflexivity.
  - destruct (b_hash (e_blk a) =? x); [reflexivity|]. rewrite IH.
    destruct (hpos t x (k + 1)); [reflexivity|].
    destruct (b_hash (e_blk e) =? x); [|reflexivity]. f_equal. unfold tlen. simpl length. lia.
Qed.

Lemma hpos_find sp x : forall k,
  match hpos sp x k with
  | Some h => k <= h /\ tget sp (h - k + 1) = find_by_hash sp x /\ find_by_hash sp x <> None
  | None => find_by_hash sp x = None
  end.
Proof.
  unfold find_by_hash. induction sp as [|a t IH]; intro k; simpl; [reflexivity|].
  destruct (b_hash (e_blk a) =? x) eqn:E.
  - split; [lia|]. replace (k - k + 1) with 1 by lia. split; [reflexivity|discriminate].
  - specialize (IH (k + 1)). destruct (hpos t x (k + 1)) as [h|]; [|exact IH].
    destruct IH as [H1 [H2 H3]]. split; [lia|]. split; [|exact H3].
    rewrite <- H2. unfold tget.
    destruct (h - k + 1 =? 0) eqn:E1; [lia|]. destruct (h - (k + 1) + 1 =? 0) eqn:E2; [lia|].
    replace (N.to_nat (h - k + 1 - 1)) with (S (N.to_nat (h - (k + 1) + 1 - 1))) by lia. reflexivity.
Qed.

(** positions of transactions *)
Lemma index_of_bound t l : forall i j, index_of t l i = Some j ->
  i <= j /\ nth_error l (N.to_nat (j - i)) = Some t.
Proof.
  induction l as [|x r IH]; intros i j; simpl; [discriminate|].
  destruct (x =? t) eqn:E.
  - intro H. inversion H; subst. split; [lia|]. replace (N.to_nat (j - j)) with 0%nat by lia.
    simpl. f_equal. lia.
  - intro H. apply IH in H. destruct H as [H1 H2]. split; [lia|].
    replace (N.to_nat (j - i)) with (S (N.to_nat (j - (i + 1)))) by lia. exact H2.
Qed.

Lemma index_of_none t l : forall i, index_of t l i = None <-> ~ In t l.
Proof.
  induction l as [|x r IH]; intro i; simpl.
  - split; [tauto|reflexivity].
  - destruct (x =? t) eqn:E.
    + split; [discriminate|]. intro H. exfalso. apply H. left. lia.
    + rewrite IH. split; intro H.
      * intros [H1|H1]; [lia|tauto].
      * tauto.
Qed.

Lemma existsb_eqb_In t l : existsb (N.eqb t) l = true <-> In t l.
Proof.
  rewrite existsb_exists. split.
  - intros [x [H1 H2]]. apply N.eqb_eq in H2. subst. exact H1.
  - intro H. exists t. split; [exact H|apply N.eqb_refl].
Qed.

Lemma tx_occurs_false sp t :
  tx_occurs sp t = false <-> forall e, In e sp -> ~ In t (b_txs (e_blk e)).
Proof.
  unfold tx_occurs. split.
  - intros H e He Ht.
    assert (existsb (fun e => existsb (N.eqb t) (b_txs (e_blk e))) sp = true); [|congruence].
    apply existsb_exists. exists e. split; [exact He|]. apply existsb_eqb_In. exact Ht.
  - intro H. destruct (existsb _ sp) eqn:E; [|reflexivity].
    apply existsb_exists in E. destruct E as [e [He Ht]]. apply existsb_eqb_In in Ht.
    exfalso. exact (H e He Ht).
Qed.

Lemma tx_occurs_app sp e t :
  tx_occurs (sp ++ [e]) t = tx_occurs sp t || existsb (N.eqb t) (b_txs (e_blk e)).
Proof. unfold tx_occurs. rewrite existsb_app. simpl. rewrite orb_false_r. reflexivity. Qed.

Lemma find_tx_none t sp : forall k, find_tx t sp k = None <-> tx_occurs sp t = false.
Proof.
  induction sp as [|e r IH]; intro k; simpl.
  - unfold tx_occurs. simpl. tauto.
  - unfold tx_occurs in *. simpl. destruct (index_of t (b_txs (e_blk e)) 0) eqn:E.
    + split; [discriminate|]. intro H. apply orb_false_iff in H. destruct H as [H _].
      assert (~ In t (b_txs (e_blk e))).
      { intro Hin. apply existsb_eqb_In in Hin. congruence. }
      apply (index_of_none t _ 0) in H0. congruence.
    + rewrite IH. apply (index_of_none t _ 0) in E.
      destruct (existsb (N.eqb t) (b_txs (e_blk e))) eqn:E2.
      * apply existsb_eqb_In in E2. tauto.
      * simpl. tauto.
Qed.

Lemma find_tx_app t sp e : forall k,
  find_tx t (sp ++ [e]) k =
  match find_tx t sp k with
  | Some r => Some r
  | None => match index_of t (b_txs (e_blk e)) 0 with
            | Some i => Some (k + tlen sp, e, i)
            | None => None
            end
  end.
Proof.
  induction sp as [|a r IH]; intro k; simpl.
  - unfold tlen. simpl. rewrite N.add_0_r. reflexivity.
  - destruct (index_of t (b_txs (e_blk a)) 0); [reflexivity|]. rewrite IH.
    destruct (find_tx t r (k + 1)); [reflexivity|].
    destruct (index_of t (b_txs (e_blk e)) 0); [|reflexivity].
    f_equal. f_equal. f_equal. unfold tlen. simpl length. lia.
Qed.

Lemma find_tx_some t sp : forall k h e i, find_tx t sp k = Some (h, e, i) ->
  k <= h /\ tget sp (h - k + 1) = Some e /\ nth_error (b_txs (e_blk e)) (N.to_nat i) = Some t.
Proof.
  induction sp as [|a r IH]; intros k h e i; simpl; [discriminate|].
  destruct (index_of t (b_txs (e_blk a)) 0) eqn:E.
  - intro H. inversion H; subst. apply index_of_bound in E. destruct E as [_ E].
    rewrite N.sub_0_r in E. split; [lia|]. replace (h - h + 1) with 1 by lia. split; [reflexivity|exact E].
  - intro H. apply IH in H. destruct H as [H1 [H2 H3]]. split; [lia|]. split; [|exact H3].
    rewrite <- H2. unfold tget.
    destruct (h - k + 1 =? 0) eqn:E1; [lia|]. destruct (h - (k + 1) + 1 =? 0) eqn:E2; [lia|].
    replace (N.to_nat (h - k + 1 - 1)) with (S (N.to_nat (h - (k + 1) + 1 - 1))) by lia. reflexivity.
Qed.

Lemma nlookup_put_txmetas num bh txs : NoDup txs -> forall i m t,
  nlookup t (put_txmetas num bh i txs m) =
  match index_of t txs i with Some j => Some (num, bh, j) | None => nlookup t m end.
Proof.
  induction txs as [|t0 r IH]; intros Hnd i m t; simpl; [reflexivity|].
  inversion Hnd as [|? ? Hnotin Hnd']; subst. rewrite (IH Hnd').
  destruct (t0 =? t) eqn:E.
  - assert (t0 = t) by lia. subst.
    assert (index_of t r (i + 1) = None) as -> by (apply index_of_none; exact Hnotin).
    rewrite nlookup_nset, N.eqb_refl. reflexivity.
  - destruct (index_of t r (i + 1)); [reflexivity|].
    rewrite nlookup_nset. destruct (t =? t0) eqn:E2; [lia|reflexivity].
Qed.

Lemma nlookup_del_txmetas txs : forall m t,
  nlookup t (del_txmetas txs m) = if existsb (N.eqb t) txs then None else nlookup t m.
Proof.
  induction txs as [|t0 r IH]; intros m t; simpl; [reflexivity|].
  rewrite IH, nlookup_nremove. destruct (t =? t0); simpl; [|reflexivity].
  destruct (existsb (N.eqb t) r); reflexivity.
Qed.

Lemma blk_eta b : mkBlk (b_hdr b) (b_hash b) (b_txs b) = b.
Proof. destruct b; reflexivity. Qed.

Lemma spec_meta_last sp e : tget sp (tlen sp) = Some e ->
  spec_meta sp = mkMeta (tlen sp) (b_hash (e_blk e)) (count_of sp).
Proof.
  destruct sp as [|a t _] using rev_ind.
  - discriminate.
  - rewrite tget_snoc, tlen_app, N.eqb_refl. intro H. inversion H; subst.
    rewrite spec_meta_snoc, count_of_app. reflexivity.
Qed.

(** the chain-meta key of a rollback batch: one operation, so the store kind does not matter *)
Lemma meta_after_del cfg cur : meta_after cfg [KDel 0] cur = None.
Proof. unfold meta_after, apply_kind. destruct (c_ordered cfg), cur; reflexivity. Qed.
Lemma meta_after_put cfg m cur : meta_after cfg [KPut 0 m] cur = Some m.
Proof. unfold meta_after, apply_kind. destruct (c_ordered cfg), cur; reflexivity. Qed.

Section Refinement.
  Variable hash_hdr : header -> N.
  Variable root : list N -> N.
  Hypothesis hash_inj : forall a b, hash_hdr a = hash_hdr b -> a = b.
  Hypothesis hash_nz : forall a, hash_hdr a <> 0.

  (** every entry was well-formed and brought new transaction hashes when it was persisted *)
  Inductive wf_spec : spec -> Prop :=
  | wf_nil : wf_spec []
  | wf_snoc sp e : wf_spec sp -> wf_entry hash_hdr root sp e -> fresh_txs sp e -> wf_spec (sp ++ [e]).

  Lemma wf_spec_inv sp e : wf_spec (sp ++ [e]) ->
    wf_spec sp /\ wf_entry hash_hdr root sp e /\ fresh_txs sp e.
  Proof.
    intro H. inversion H as [Hnil | sp' e' H1 H2 H3 Heq].
    - destruct sp; discriminate.
    - apply app_inj_tail in Heq. destruct Heq; subst. auto.
  Qed.

  Lemma wf_spec_entry sp : wf_spec sp -> forall h e, tget sp h = Some e ->
    wf_entry hash_hdr root (ttrunc (h - 1) sp) e.
  Proof.
    induction 1 as [|sp e Hwf IH He Hf]; intros h e0 Hg.
    - unfold tget in Hg. destruct (h =? 0); [discriminate|]. destruct (N.to_nat (h - 1)); discriminate.
    - rewrite tget_snoc in Hg. destruct (h =? tlen sp + 1) eqn:E.
      + inversion Hg; subst. replace (h - 1) with (tlen sp) by lia. rewrite ttrunc_snoc. exact He.
      + pose proof (tget_bound _ _ _ Hg) as [Hb1 Hb2].
        replace (ttrunc (h - 1) (sp ++ [e])) with (ttrunc (h - 1) sp).
        * apply IH. exact Hg.
        * unfold ttrunc. rewrite firstn_app.
          replace (N.to_nat (h - 1) - length sp)%nat with 0%nat by (unfold tlen in *; lia).
          simpl. rewrite app_nil_r. reflexivity.
  Qed.

  Lemma wf_spec_number sp h e : wf_spec sp -> tget sp h = Some e ->
    h_number (b_hdr (e_blk e)) = h /\ b_hash (e_blk e) = hash_hdr (b_hdr (e_blk e)).
  Proof.
    intros Hwf Hg. pose proof (wf_spec_entry sp Hwf h e Hg) as [H1 [_ [H3 _]]].
    pose proof (tget_bound _ _ _ Hg) as [Hb1 Hb2].
    rewrite tlen_firstn in H1 by lia. split; [lia|exact H3].
  Qed.

  Lemma wf_spec_parent sp h e : wf_spec sp -> tget sp h = Some e ->
    h_parent (b_hdr (e_blk e)) = match tget sp (h - 1) with Some e' => b_hash (e_blk e') | None => 0 end.
  Proof.
    intros Hwf Hg. pose proof (wf_spec_entry sp Hwf h e Hg) as [_ [H2 _]].
    pose proof (tget_bound _ _ _ Hg) as [Hb1 Hb2].
    rewrite H2. destruct (h - 1 =? 0) eqn:E.
    - replace (h - 1) with 0 by lia. reflexivity.
    - destruct (tget_some sp (h - 1)) as [e' He']; [lia|lia|]. rewrite He'.
      assert (Hl : tget (ttrunc (h - 1) sp) (tlen (ttrunc (h - 1) sp)) = Some e').
      { rewrite tlen_firstn by lia. rewrite tget_firstn, N.leb_refl. exact He'. }
      rewrite (spec_meta_last _ _ Hl). reflexivity.
  Qed.

  Lemma wf_spec_hash_unique sp h1 h2 e1 e2 : wf_spec sp ->
    tget sp h1 = Some e1 -> tget sp h2 = Some e2 -> b_hash (e_blk e1) = b_hash (e_blk e2) -> h1 = h2.
  Proof.
    intros Hwf H1 H2 Heq.
    destruct (wf_spec_number _ _ _ Hwf H1) as [N1 E1]. destruct (wf_spec_number _ _ _ Hwf H2) as [N2 E2].
    rewrite E1, E2 in Heq. apply hash_inj in Heq. congruence.
  Qed.

  Lemma find_by_hash_some sp x e : find_by_hash sp x = Some e -> b_hash (e_blk e) = x /\ In e sp.
  Proof. unfold find_by_hash. intro H. apply find_some in H. destruct H. split; [lia|assumption]. Qed.

  Lemma In_tget {A} (l : list A) x : In x l -> exists h, tget l h = Some x.
  Proof.
    intro H. apply In_nth_error in H. destruct H as [n Hn]. exists (N.of_nat n + 1).
    unfold tget. destruct (N.of_nat n + 1 =? 0) eqn:E; [lia|].
    replace (N.to_nat (N.of_nat n + 1 - 1)) with n by lia. exact Hn.
  Qed.

  (** the hash of a new well-formed entry is not yet indexed *)
  Lemma hpos_new sp e : wf_spec (sp ++ [e]) -> hpos sp (b_hash (e_blk e)) 1 = None.
  Proof.
    intro Hwf. pose proof (hpos_find sp (b_hash (e_blk e)) 1) as H.
    destruct (hpos sp (b_hash (e_blk e)) 1) as [h|]; [|reflexivity]. exfalso.
    destruct H as [H1 [H2 H3]]. destruct (find_by_hash sp (b_hash (e_blk e))) as [e'|] eqn:Ef; [|congruence].
    apply find_by_hash_some in Ef. destruct Ef as [Eh Ein].
    replace (h - 1 + 1) with h in H2 by lia.
    pose proof (tget_bound _ _ _ H2) as [Hb1 Hb2].
    assert (G1 : tget (sp ++ [e]) h = Some e').
    { rewrite tget_snoc. destruct (h =? tlen sp + 1) eqn:E; [lia|exact H2]. }
    assert (G2 : tget (sp ++ [e]) (tlen sp + 1) = Some e).
    { rewrite tget_snoc, N.eqb_refl. reflexivity. }
    pose proof (wf_spec_hash_unique _ _ _ _ _ Hwf G1 G2 Eh). lia.
  Qed.

  Lemma wf_spec_trunc sp : wf_spec sp -> forall t, wf_spec (ttrunc t sp).
  Proof.
    induction 1 as [|sp e Hwf IH He Hf]; intro t.
    - unfold ttrunc. rewrite firstn_nil. constructor.
    - destruct (t <=? tlen sp) eqn:E.
      + replace (ttrunc t (sp ++ [e])) with (ttrunc t sp); [apply IH|].
        unfold ttrunc. rewrite firstn_app.
        replace (N.to_nat t - length sp)%nat with 0%nat by (unfold tlen in *; lia).
        simpl. rewrite app_nil_r. reflexivity.
      + rewrite ttrunc_all by (rewrite tlen_app; lia). constructor; assumption.
  Qed.

  (** * The refinement relation *)
  Record ix_refines (ix : index) (sp : spec) : Prop := mkIxRef {
    rf_bhash : forall x, nlookup x (ix_bhash ix) = hpos sp x 1;
    rf_height : forall h, nlookup h (ix_height ix) = option_map (fun e => b_hash (e_blk e)) (tget sp h);
    rf_txset : forall h, nlookup h (ix_txset ix) = option_map (fun e => b_txs (e_blk e)) (tget sp h);
    rf_txmeta : forall t, nlookup t (ix_txmeta ix) =
                          option_map (fun '(h, e, i) => (h, b_hash (e_blk e), i)) (find_tx t sp 1) }.

  Record refines (s : cledger) (sp : spec) : Prop := mkRef {
    rf_bf : cl_bf s = bf_of sp;
    rf_mem : cl_mem s = spec_meta sp;
    rf_meta : load_meta (cl_ix s) = spec_meta sp;
    rf_ix : ix_refines (cl_ix s) sp }.

  Lemma refines_empty : refines cl_empty [].
  Proof. constructor; try reflexivity. constructor; intros; cbn; rewrite ?tget_nil; reflexivity. Qed.

  (** ** persist *)
  Lemma persist_index_refines ix sp e c :
    ix_refines ix sp -> wf_spec (sp ++ [e]) -> ix_refines (persist_index c e ix) (sp ++ [e]).
  Proof.
    intros [R1 R2 R3 R4] Hwf. destruct (wf_spec_inv _ _ Hwf) as [Hwf0 [[Hn _] [Hnd Hfr]]].
    constructor; unfold persist_index; cbn [ix_bhash ix_height ix_txset ix_txmeta].
    - intro x. rewrite nlookup_nset, hpos_app, R1.
      destruct (x =? b_hash (e_blk e)) eqn:E.
      + assert (x = b_hash (e_blk e)) by lia. subst. rewrite (hpos_new _ _ Hwf), N.eqb_refl.
        f_equal. lia.
      + destruct (hpos sp x 1); [reflexivity|].
        destruct (b_hash (e_blk e) =? x) eqn:E2; [lia|reflexivity].
    - intro h. rewrite nlookup_nset, tget_snoc, R2, Hn. destruct (h =? tlen sp + 1); reflexivity.
    - intro h. rewrite nlookup_nset, tget_snoc, R3, Hn. destruct (h =? tlen sp + 1); reflexivity.
    - intro t. rewrite (nlookup_put_txmetas _ _ _ Hnd), find_tx_app, R4.
      destruct (find_tx t sp 1) as [[[h e'] i]|] eqn:Ef.
      + assert (index_of t (b_txs (e_blk e)) 0 = None) as ->; [|reflexivity].
        apply index_of_none. intro Hin. apply Hfr in Hin. apply (find_tx_none t sp 1) in Hin. congruence.
      + destruct (index_of t (b_txs (e_blk e)) 0); [|reflexivity]. cbn [option_map]. rewrite Hn.
        replace (1 + tlen sp) with (tlen sp + 1) by lia. reflexivity.
  Qed.

  Lemma persist_refines s sp e :
    refines s sp -> wf_spec (sp ++ [e]) ->
    exists s', persist_chain e s = Some s' /\ refines s' (sp ++ [e]) /\ cl_jw s' = cl_jw s.
  Proof.
    intros [B M L I] Hwf. destruct (wf_spec_inv _ _ Hwf) as [Hwf0 [[Hn _] _]].
    unfold persist_chain. rewrite B, M. unfold bf_blocks. rewrite bf_min_of, spec_meta_height, N.eqb_refl.
    eexists. split; [reflexivity|]. split; [|reflexivity].
    constructor; cbn [cl_bf cl_ix cl_mem].
    - apply bf_append_of.
    - unfold new_meta. rewrite spec_meta_snoc, Hn, spec_meta_count. f_equal. lia.
    - unfold load_meta, persist_index. cbn [ix_meta]. unfold new_meta.
      rewrite spec_meta_snoc, Hn, spec_meta_count. f_equal. lia.
    - apply persist_index_refines; assumption.
  Qed.

  (** ** rollback *)
  Lemma remove_on_block_ok ix0 ixb sp e :
    wf_spec (sp ++ [e]) ->
    nlookup (tlen sp + 1) (ix_txset ix0) = Some (b_txs (e_blk e)) ->
    ix_refines ixb (sp ++ [e]) ->
    exists ixb', remove_on_block cfg_fixed ix0 (tlen sp + 1) (bf_of (sp ++ [e]), ixb, count_of (sp ++ [e]))
                 = Some (bf_of sp, ixb', count_of sp)
                 /\ ix_refines ixb' sp /\ ix_meta ixb' = ix_meta ixb.
  Proof.
    intros Hwf Htx [R1 R2 R3 R4]. destruct (wf_spec_inv _ _ Hwf) as [Hwf0 [_ [Hnd Hfr]]].
    unfold remove_on_block. unfold bf_of at 1 2. cbn [bf_bodies bf_ics].
    rewrite !tget_map, !tget_snoc, N.eqb_refl, Htx. cbn [option_map].
    eexists. split; [|split].
    - f_equal. f_equal; [f_equal|].
      + rewrite bf_truncate_blocks_of. replace (tlen sp + 1 - 1) with (tlen sp) by lia.
        rewrite ttrunc_snoc. reflexivity.
      + rewrite count_of_app. unfold usub64.
        destruct (im_count (e_im e) <=? count_of sp + im_count (e_im e)) eqn:E; lia.
    - constructor; cbn [ix_bhash ix_height ix_txset ix_txmeta d_rb_heightkey cfg_fixed].
      + intro x. rewrite nlookup_nremove, R1, hpos_app.
        destruct (x =? b_hash (e_blk e)) eqn:E.
        * assert (x = b_hash (e_blk e)) by lia. subst. rewrite (hpos_new _ _ Hwf). reflexivity.
        * destruct (hpos sp x 1); [reflexivity|].
          destruct (b_hash (e_blk e) =? x) eqn:E2; [lia|reflexivity].
      + intro h. rewrite nlookup_nremove, R2, tget_snoc.
        destruct (h =? tlen sp + 1) eqn:E; [|reflexivity].
        rewrite tget_none by lia. reflexivity.
      + intro h. rewrite nlookup_nremove, R3, tget_snoc.
        destruct (h =? tlen sp + 1) eqn:E; [|reflexivity].
        rewrite tget_none by lia. reflexivity.
      + intro t. rewrite nlookup_del_txmetas, R4, find_tx_app.
        destruct (existsb (N.eqb t) (b_txs (e_blk e))) eqn:E.
        * apply existsb_eqb_In in E. apply Hfr in E. apply (find_tx_none t sp 1) in E. rewrite E. reflexivity.
        * destruct (find_tx t sp 1); [reflexivity|].
          assert (index_of t (b_txs (e_blk e)) 0 = None) as ->; [|reflexivity].
          apply index_of_none. intro Hin. apply existsb_eqb_In in Hin. congruence.
    - reflexivity.
  Qed.

  Lemma rb_loop_ok ix0 : forall k sp ixb,
    (k <= length sp)%nat -> wf_spec sp ->
    (forall h e, tget sp h = Some e -> nlookup h (ix_txset ix0) = Some (b_txs (e_blk e))) ->
    ix_refines ixb sp ->
    exists ixb',
      rb_loop cfg_fixed ix0 (heights_down k (tlen sp)) (bf_of sp, ixb, count_of sp)
      = ((bf_of (firstn (length sp - k) sp), ixb', count_of (firstn (length sp - k) sp)), true)
      /\ ix_refines ixb' (firstn (length sp - k) sp) /\ ix_meta ixb' = ix_meta ixb.
  Proof.
    induction k as [|k IH]; intros sp ixb Hk Hwf Htx Hix.
    - simpl. exists ixb. rewrite Nat.sub_0_r, firstn_all. auto.
    - destruct sp as [|e sp0 _] using rev_ind; [simpl in Hk; lia|].
      rewrite app_length in Hk. simpl in Hk.
      cbn [heights_down rb_loop]. rewrite tlen_app.
      destruct (remove_on_block_ok ix0 ixb sp0 e Hwf) as [ixb1 [E1 [R1 M1]]]; [|exact Hix|].
      { apply Htx. rewrite tget_snoc, N.eqb_refl. reflexivity. }
      rewrite E1. replace (tlen sp0 + 1 - 1) with (tlen sp0) by lia.
      destruct (wf_spec_inv _ _ Hwf) as [Hwf0 _].
      destruct (IH sp0 ixb1) as [ixb2 [E2 [R2 M2]]]; [lia|exact Hwf0| |exact R1|].
      { intros h e0 Hg. apply Htx. rewrite tget_snoc.
        pose proof (tget_bound _ _ _ Hg). destruct (h =? tlen sp0 + 1) eqn:E; [lia|exact Hg]. }
      exists ixb2. rewrite E2.
      assert (Hf : firstn (length (sp0 ++ [e]) - S k) (sp0 ++ [e]) = firstn (length sp0 - k) sp0).
      { rewrite app_length. simpl. rewrite firstn_app.
        replace (length sp0 + 1 - S k - length sp0)%nat with 0%nat by lia.
        replace (length sp0 + 1 - S k)%nat with (length sp0 - k)%nat by lia.
        simpl. rewrite app_nil_r. reflexivity. }
      rewrite Hf. split; [reflexivity|]. split; [exact R2|congruence].
  Qed.

  Lemma ix_refines_fields ix sp m :
    ix_refines ix sp -> ix_refines (mkIx (ix_bhash ix) (ix_height ix) (ix_txset ix) (ix_txmeta ix) m) sp.
  Proof. intros [R1 R2 R3 R4]. constructor; assumption. Qed.

  Lemma rollback_refines s sp t :
    refines s sp -> wf_spec sp -> t < tlen sp ->
    exists s', rollback_chain cfg_fixed t s = (0, s') /\ refines s' (ttrunc t sp) /\ cl_jw s' = cl_jw s.
  Proof.
    intros [B M L I] Hwf Ht. unfold rollback_chain. rewrite M, spec_meta_height.
    destruct (tlen sp <? t) eqn:E1; [lia|]. destruct (tlen sp =? t) eqn:E2; [lia|].
    rewrite B, spec_meta_count.
    destruct (rb_loop_ok (cl_ix s) (N.to_nat (tlen sp - t)) sp (cl_ix s)) as [ixb [E [R Mx]]];
      [unfold tlen in *; lia|exact Hwf| |exact I|].
    { intros h e Hg. rewrite (rf_txset _ _ I), Hg. reflexivity. }
    rewrite E. assert (Hsp : firstn (length sp - N.to_nat (tlen sp - t)) sp = ttrunc t sp).
    { unfold ttrunc. f_equal. unfold tlen in *. lia. }
    rewrite Hsp in *. clear E.
    unfold meta_ops. cbn [d_meta_del_first cfg_fixed]. destruct (t =? 0) eqn:E0.
    - rewrite meta_after_del. eexists. split; [reflexivity|]. split; [|reflexivity].
      assert (ttrunc t sp = []) as Hnil by (unfold ttrunc; replace (N.to_nat t) with 0%nat by lia; reflexivity).
      rewrite Hnil in *. constructor; cbn [cl_bf cl_ix cl_mem]; try reflexivity.
      apply ix_refines_fields. exact R.
    - destruct (tget_some sp t) as [e He]; [lia|lia|].
      assert (Hg : tget (ttrunc t sp) t = Some e) by (rewrite tget_firstn, N.leb_refl; exact He).
      unfold bf_of at 1. cbn [bf_bodies]. rewrite tget_map, Hg. cbn [option_map].
      rewrite (rf_txset _ _ I), He. cbn [option_map]. rewrite meta_after_put.
      eexists. split; [reflexivity|]. split; [|reflexivity].
      assert (Hl : tlen (ttrunc t sp) = t) by (apply tlen_firstn; lia).
      assert (Hm : mkMeta (h_number (b_hdr (e_blk e))) (b_hash (e_blk e)) (count_of (ttrunc t sp)) = spec_meta (ttrunc t sp)).
      { rewrite (spec_meta_last (ttrunc t sp) e) by (rewrite Hl; exact Hg). rewrite Hl.
        destruct (wf_spec_number _ _ _ Hwf He) as [Hn _]. rewrite Hn. reflexivity. }
      constructor; cbn [cl_bf cl_ix cl_mem].
      + reflexivity.
      + exact Hm.
      + unfold load_meta. cbn [ix_meta]. exact Hm.
      + apply ix_refines_fields. exact R.
  Qed.

  (** ** reopen *)
  Lemma reopen_bf_of sp : reopen_bf (spec_meta sp) (bf_of sp) = bf_of sp.
  Proof.
    unfold reopen_bf. rewrite bf_repair_of. unfold bf_blocks. rewrite bf_min_of, spec_meta_height.
    destruct (tlen sp =? tlen sp + 1) eqn:E; [lia|reflexivity].
  Qed.

  Lemma reopen_refines s sp j : refines s sp ->
    refines (mkCL (reopen_bf (load_meta (cl_ix s)) (cl_bf s)) (cl_ix s) (load_meta (cl_ix s)) j) sp.
  Proof.
    intros [B M L I]. constructor; cbn [cl_bf cl_ix cl_mem].
    - rewrite B, L. apply reopen_bf_of.
    - exact L.
    - exact L.
    - exact I.
  Qed.
End Refinement.

(** * Observations of a refining state are the expected ones *)
Section Observe.
  Variable hash_hdr : header -> N.
  Variable root : list N -> N.
  Hypothesis hash_inj : forall a b, hash_hdr a = hash_hdr b -> a = b.

  Lemma observe_h_expected s sp h : refines s sp -> observe_h cfg_fixed s h = expected_h sp h.
  Proof.
    intros [B M L [R1 R2 R3 R4]]. unfold observe_h, expected_h, get_block, get_block_hash, get_ic,
      get_rcpts_raw, get_block_sign, get_block.
    rewrite B. unfold bf_of. cbn [bf_bodies bf_txs bf_ics bf_rcpts d_bhash_codec cfg_fixed].
    rewrite !tget_map, R2, R3. destruct (tget sp h) as [e|]; cbn [option_map]; [|reflexivity].
    rewrite blk_eta. reflexivity.
  Qed.

  Lemma observe_x_expected s sp x : refines s sp ->
    get_block_by_hash s x true = expected_x sp x.
  Proof.
    intros Href. pose proof Href as [B M L [R1 R2 R3 R4]].
    unfold get_block_by_hash, expected_x. rewrite R1.
    pose proof (hpos_find sp x 1) as H. destruct (hpos sp x 1) as [h|].
    - destruct H as [H1 [H2 H3]]. replace (h - 1 + 1) with h in H2 by lia.
      pose proof (observe_h_expected s sp h Href) as Ho. unfold observe_h in Ho.
      apply (f_equal ho_full) in Ho. cbn [ho_full] in Ho. rewrite Ho. unfold expected_h. rewrite H2.
      destruct (find_by_hash sp x); [reflexivity|congruence].
    - rewrite H. reflexivity.
  Qed.

  Lemma observe_t_expected s sp t : refines s sp -> observe_t s t = expected_t sp t.
  Proof.
    intros [B M L [R1 R2 R3 R4]]. unfold observe_t, expected_t, get_tx, get_tx_meta, get_receipt.
    rewrite R4. destruct (find_tx t sp 1) as [[[h e] i]|] eqn:Ef; cbn [option_map]; [|reflexivity].
    apply find_tx_some in Ef. destruct Ef as [H1 [H2 H3]]. replace (h - 1 + 1) with h in H2 by lia.
    unfold get_from_table. rewrite B. unfold bf_of. cbn [bf_txs bf_rcpts].
    rewrite !tget_map, H2. cbn [option_map]. rewrite H3.
    destruct (nth_error (e_rcpts e) (N.to_nat i)); reflexivity.
  Qed.

  Theorem observe_expected U s sp : refines s sp -> observe cfg_fixed U s = expected U sp.
  Proof.
    intro Href. unfold observe, expected. f_equal.
    - unfold get_chain_meta. apply (rf_mem _ _ Href).
    - apply (rf_meta _ _ Href).
    - apply map_ext. intro h. apply observe_h_expected. exact Href.
    - apply map_ext. intro x. apply observe_x_expected. exact Href.
    - apply map_ext. intro t. apply observe_t_expected. exact Href.
  Qed.
End Observe.

(** * Histories *)
Section Histories.
  Variable hash_hdr : header -> N.
  Variable root : list N -> N.
  Hypothesis hash_inj : forall a b, hash_hdr a = hash_hdr b -> a = b.

  (** run the ledger and the specification side by side *)
  Fixpoint run2 (cfg : Defects) (full : bool) (ops : list op) (s : cledger) (sp : spec) : cledger * spec :=
    match ops with
    | [] => (s, sp)
    | o :: r => let '(c, s') := step cfg full o s in run2 cfg full r s' (spec_step o c sp)
    end.

  (** every persisted entry is well-formed for, and brings new transactions to, the chain as
      it is at that moment; a re-executed block replaces an existing height k and is sealed on
      top of block k-1 *)
  Definition op_wf (sp : spec) (o : op) : Prop :=
    match o with
    | OPersist e => wf_entry hash_hdr root sp e /\ fresh_txs sp e
    | OReexec e =>
        let k := h_number (b_hdr (e_blk e)) in
        1 <= k /\ k <= tlen sp /\ wf_entry hash_hdr root (ttrunc (k - 1) sp) e /\ fresh_txs (ttrunc (k - 1) sp) e
    | _ => True
    end.
  Fixpoint hist_wf (full : bool) (ops : list op) (s : cledger) (sp : spec) : Prop :=
    match ops with
    | [] => True
    | o :: r =>
        op_wf sp o /\
        let '(c, s') := step cfg_fixed full o s in hist_wf full r s' (spec_step o c sp)
    end.

  Definition inv (full : bool) (s : cledger) (sp : spec) : Prop :=
    refines s sp /\ wf_spec hash_hdr root sp /\ (full = true -> jw_max (cl_jw s) = tlen sp).

  Lemma jw_commit_max h j : jw_max (jw_commit h j) = h.
  Proof.
    unfold jw_commit. destruct (jw_mmin j =? 0); destruct (10 <? h); cbn [jw_mmin jw_max];
      try reflexivity; match goal with |- context [if ?c then _ else _] => destruct c end; reflexivity.
  Qed.

  Lemma jw_rollback_cases t j :
    (jw_rollback t j = (1, j) /\ jw_max j < t) \/
    (jw_rollback t j = (2, j) /\ t <= jw_max j) \/
    (exists j', jw_rollback t j = (0, j') /\ t <= jw_max j /\ jw_max j' = t).
  Proof.
    unfold jw_rollback. destruct (jw_max j <? t) eqn:E1; [left; split; [reflexivity|lia]|].
    destruct ((t <? jw_mmin j) && negb ((jw_mmin j =? 1) && (t =? 0))); [right; left; split; [reflexivity|lia]|].
    right. right. destruct (jw_max j =? t) eqn:E2.
    - exists j. split; [reflexivity|lia].
    - eexists. split; [reflexivity|]. cbn [jw_max]. lia.
  Qed.

  Lemma refines_jw s sp j : refines s sp -> refines (mkCL (cl_bf s) (cl_ix s) (cl_mem s) j) sp.
  Proof. intros [B M L I]. constructor; assumption. Qed.

  (** one step preserves the invariant; a refused step changes nothing; the result code is one
      the property allows *)
  Lemma step_base_inv full o s sp :
    inv full s sp ->
    match o with OPersist e => wf_entry hash_hdr root sp e /\ fresh_txs sp e | OReexec _ => False | _ => True end ->
    forall c s', step_base cfg_fixed full o s = (c, s') ->
      inv full s' (spec_step o c sp) /\ code_ok o c sp = true /\
      (c <> 0 -> s' = s) /\
      (match o with ORollback _ => c = 0 \/ c = 1 \/ c = 2 | _ => c = 0 end).
  Proof.
    intros [Href [Hwf Hjw]] Hop c s' Hstep. destruct o as [e|t| |e]; cbn [step_base] in Hstep; [| | |contradiction].
    - (* persist *)
      destruct Hop as [He Hf]. assert (Hwf' : wf_spec hash_hdr root (sp ++ [e])) by (constructor; assumption).
      destruct (persist_refines hash_hdr root hash_inj s sp e Href Hwf') as [s1 [E1 [R1 J1]]].
      rewrite E1 in Hstep. inversion Hstep; subst. cbn [spec_step code_ok].
      split; [|split; [reflexivity|split; [congruence|reflexivity]]].
      split; [|split].
      + destruct full; [apply refines_jw|]; exact R1.
      + exact Hwf'.
      + intro Hfull. subst full. cbn [cl_jw]. rewrite jw_commit_max, tlen_app. destruct He as [Hn _]. exact Hn.
    - (* rollback *)
      assert (Hchain : forall s0, refines s0 sp -> (full = true -> jw_max (cl_jw s0) = t \/ t = tlen sp /\ jw_max (cl_jw s0) = tlen sp) ->
                forall c0 s1, rollback_chain cfg_fixed t s0 = (c0, s1) -> (full = false \/ t <= tlen sp) ->
                inv full s1 (spec_step (ORollback t) c0 sp) /\ code_ok (ORollback t) c0 sp = true /\
                (c0 <> 0 -> s1 = s0) /\ (c0 = 0 \/ c0 = 1)).
      { intros s0 R0 J0 c0 s1 Hrb Hle. destruct (tlen sp <? t) eqn:E1.
        - unfold rollback_chain in Hrb. rewrite (rf_mem _ _ R0), spec_meta_height, E1 in Hrb.
          inversion Hrb; subst. cbn [spec_step code_ok]. rewrite E1. cbn [N.eqb].
          destruct Hle as [Hle|Hle]; [|lia]. subst full.
          split; [|split; [reflexivity|split; [reflexivity|right; reflexivity]]].
          split; [exact R0|]. split; [exact Hwf|]. discriminate.
        - destruct (tlen sp =? t) eqn:E2.
          + unfold rollback_chain in Hrb. rewrite (rf_mem _ _ R0), spec_meta_height, E1, E2 in Hrb.
            inversion Hrb; subst. cbn [spec_step code_ok N.eqb]. change (firstn (N.to_nat t) sp) with (ttrunc t sp).
            rewrite ttrunc_all by lia.
            split; [|split; [cbn; lia|split; [reflexivity|left; reflexivity]]].
            split; [exact R0|]. split; [exact Hwf|].
            intro Hf. destruct (J0 Hf) as [J|[_ J]]; lia.
          + destruct (rollback_refines hash_hdr root hash_inj s0 sp t R0 Hwf) as [s2 [E3 [R3 J3]]]; [lia|].
            rewrite E3 in Hrb. inversion Hrb; subst. cbn [spec_step code_ok N.eqb].
            change (firstn (N.to_nat t) sp) with (ttrunc t sp).
            split; [|split; [cbn; lia|split; [congruence|left; reflexivity]]].
            split; [exact R3|]. split; [apply wf_spec_trunc; exact Hwf|].
            intro Hf. rewrite J3, tlen_firstn by lia. destruct (J0 Hf) as [J|[J _]]; lia. }
      destruct full.
      + destruct (jw_rollback_cases t (cl_jw s)) as [[E H]|[[E H]|[j' [E [H1 H2]]]]]; rewrite E in Hstep.
        * inversion Hstep; subst. cbn [spec_step code_ok N.eqb]. rewrite Hjw in H by reflexivity.
          split; [|split; [cbn; lia|split; [reflexivity|right; left; reflexivity]]].
          split; [exact Href|]. split; [exact Hwf|exact Hjw].
        * inversion Hstep; subst. cbn [spec_step code_ok N.eqb].
          split; [|split; [reflexivity|split; [reflexivity|right; right; reflexivity]]].
          split; [exact Href|]. split; [exact Hwf|exact Hjw].
        * rewrite Hjw in H1 by reflexivity.
          destruct (Hchain (mkCL (cl_bf s) (cl_ix s) (cl_mem s) j')) with (c0 := c) (s1 := s') as [G1 [G2 [G3 G4]]].
          -- apply refines_jw. exact Href.
          -- intros _. left. exact H2.
          -- exact Hstep.
          -- right. exact H1.
          -- split; [exact G1|]. split; [exact G2|].
             destruct G4 as [G4|G4]; subst c.
             ++ split; [congruence|left; reflexivity].
             ++ (* code 1 from the chain side is impossible here: t <= head *)
                cbn [code_ok N.eqb] in G2. cbn in G2. lia.
      + destruct (Hchain s Href) with (c0 := c) (s1 := s') as [G1 [G2 [G3 G4]]].
        * discriminate.
        * exact Hstep.
        * left. reflexivity.
        * split; [exact G1|]. split; [exact G2|]. split; [exact G3|]. destruct G4; auto.
    - (* reopen *)
      inversion Hstep; subst. cbn [spec_step code_ok N.eqb].
      split; [|split; [reflexivity|split; [congruence|reflexivity]]].
      split; [apply reopen_refines; exact Href|]. split; [exact Hwf|].
      intro Hf. subst full. cbn [cl_jw jw_reopen jw_max]. apply Hjw. reflexivity.
  Qed.

  Lemma step_inv full o s sp :
    inv full s sp -> op_wf sp o ->
    forall c s', step cfg_fixed full o s = (c, s') ->
      inv full s' (spec_step o c sp) /\ code_ok o c sp = true /\
      (c <> 0 -> s' = s) /\
      (match o with ORollback _ => c = 0 \/ c = 1 \/ c = 2 | OReexec _ => c = 0 \/ c = 2 | _ => c = 0 end).
  Proof.
    intros Hinv Hop c s' Hstep. destruct o as [e|t| |e].
    - exact (step_base_inv full (OPersist e) s sp Hinv Hop c s' Hstep).
    - exact (step_base_inv full (ORollback t) s sp Hinv I c s' Hstep).
    - exact (step_base_inv full OReopen s sp Hinv I c s' Hstep).
    - (* re-execution = rollback to k-1, then persist *)
      cbn [op_wf] in Hop. destruct Hop as [Hk1 [Hk2 [He Hf]]]. cbn [step] in Hstep.
      set (k := h_number (b_hdr (e_blk e))) in *.
      pose proof Hinv as [Href _]. rewrite (rf_mem _ _ Href), spec_meta_height in Hstep.
      destruct ((k =? 0) || (tlen sp <? k)) eqn:Eg; [apply orb_true_iff in Eg; lia|].
      destruct (step_base cfg_fixed full (ORollback (k - 1)) s) as [c1 s1] eqn:E1.
      destruct (step_base_inv full (ORollback (k - 1)) s sp Hinv I c1 s1 E1) as [Hinv1 [Hok1 [Hfr1 Hc1]]].
      destruct Hc1 as [Hc1|[Hc1|Hc1]]; subst c1.
      + cbn [spec_step] in Hinv1. change (firstn (N.to_nat (k - 1)) sp) with (ttrunc (k - 1) sp) in Hinv1.
        destruct (step_base_inv full (OPersist e) s1 _ Hinv1 (conj He Hf) c s' Hstep) as [Hinv2 [Hok2 [Hfr2 Hc2]]].
        subst c. cbn [spec_step code_ok N.eqb orb]. fold k.
        change (firstn (N.to_nat (k - 1)) sp) with (ttrunc (k - 1) sp).
        split; [exact Hinv2|]. split; [reflexivity|]. split; [congruence|left; reflexivity].
      + cbn [code_ok N.eqb] in Hok1. cbn in Hok1. lia.
      + inversion Hstep; subst. cbn [spec_step code_ok]. split; [exact Hinv|]. split; [reflexivity|].
        split; [reflexivity|right; reflexivity].
  Qed.

  Theorem run2_inv full ops : forall s sp,
    inv full s sp -> hist_wf full ops s sp ->
    inv full (fst (run2 cfg_fixed full ops s sp)) (snd (run2 cfg_fixed full ops s sp)).
  Proof.
    induction ops as [|o r IH]; intros s sp Hinv Hwf; [exact Hinv|].
    cbn [run2 hist_wf] in *. destruct Hwf as [Hop Hrest].
    destruct (step cfg_fixed full o s) as [c s'] eqn:E.
    destruct (step_inv full o s sp Hinv Hop c s' E) as [Hinv' _].
    apply IH; assumption.
  Qed.

  Lemma inv_init full : inv full cl_empty [].
  Proof. split; [apply refines_empty|]. split; [constructor|]. reflexivity. Qed.

  Lemma run2_fst cfg full ops : forall s sp, fst (run2 cfg full ops s sp) = run cfg full ops s.
  Proof.
    induction ops as [|o r IH]; intros s sp; [reflexivity|].
    cbn [run2 run]. destruct (step cfg full o s) as [c s']. apply IH.
  Qed.
End Histories.

(** * What truncating the spec does to the expected observations (no lookup returns
      anything above the rollback target, everything up to it is unchanged) *)
Lemma ttrunc_cons {A} (a : A) l t : 0 < t -> ttrunc t (a :: l) = a :: ttrunc (t - 1) l.
Proof.
  intro H. unfold ttrunc. replace (N.to_nat t) with (S (N.to_nat (t - 1))) by lia. reflexivity.
Qed.
Lemma ttrunc_zero {A} (l : list A) : ttrunc 0 l = [].
Proof. reflexivity. Qed.

Lemma hpos_trunc sp x : forall t k,
  hpos (ttrunc t sp) x k =
  match hpos sp x k with Some h => if h <? k + t then Some h else None | None => None end.
Proof.
  induction sp as [|a r IH]; intros t k.
  - unfold ttrunc. rewrite firstn_nil. reflexivity.
  - destruct (t =? 0) eqn:E0.
    + replace t with 0 by lia. rewrite ttrunc_zero. simpl.
      destruct (b_hash (e_blk a) =? x).
      * destruct (k <? k + 0) eqn:E; [lia|reflexivity].
      * pose proof (hpos_find r x (k + 1)) as H. destruct (hpos r x (k + 1)) as [h|]; [|reflexivity].
        destruct H as [H _]. destruct (h <? k + 0) eqn:E; [lia|reflexivity].
    + rewrite ttrunc_cons by lia. simpl. destruct (b_hash (e_blk a) =? x).
      * destruct (k <? k + t) eqn:E; [reflexivity|lia].
      * rewrite IH. destruct (hpos r x (k + 1)) as [h|]; [|reflexivity].
        replace (k + 1 + (t - 1)) with (k + t) by lia. reflexivity.
Qed.

Lemma find_tx_trunc tx sp : forall t k,
  find_tx tx (ttrunc t sp) k =
  match find_tx tx sp k with Some (h, e, i) => if h <? k + t then Some (h, e, i) else None | None => None end.
Proof.
  induction sp as [|a r IH]; intros t k.
  - unfold ttrunc. rewrite firstn_nil. reflexivity.
  - destruct (t =? 0) eqn:E0.
    + replace t with 0 by lia. rewrite ttrunc_zero. simpl.
      destruct (index_of tx (b_txs (e_blk a)) 0).
      * destruct (k <? k + 0) eqn:E; [lia|reflexivity].
      * destruct (find_tx tx r (k + 1)) as [[[h e] i]|] eqn:Ef; [|reflexivity].
        apply find_tx_some in Ef. destruct Ef as [H _]. destruct (h <? k + 0) eqn:E; [lia|reflexivity].
    + rewrite ttrunc_cons by lia. simpl. destruct (index_of tx (b_txs (e_blk a)) 0).
      * destruct (k <? k + t) eqn:E; [reflexivity|lia].
      * rewrite IH. destruct (find_tx tx r (k + 1)) as [[[h e] i]|]; [|reflexivity].
        replace (k + 1 + (t - 1)) with (k + t) by lia. reflexivity.
Qed.

Definition hobs_none : hobs := mkHobs RFail RFail 0 RFail RFail RFail.
Definition tobs_none : tobs := mkTobs RNotFound RNotFound RNotFound.

Lemma expected_h_trunc sp t h :
  expected_h (ttrunc t sp) h = if h <=? t then expected_h sp h else hobs_none.
Proof. unfold expected_h. rewrite tget_firstn. destruct (h <=? t); reflexivity. Qed.

Lemma expected_x_hpos sp x :
  expected_x sp x = match hpos sp x 1 with
                    | Some h => match tget sp h with Some e => ROk (e_blk e) | None => RNotFound end
                    | None => RNotFound
                    end.
Proof.
  unfold expected_x. pose proof (hpos_find sp x 1) as H. destruct (hpos sp x 1) as [h|].
  - destruct H as [H1 [H2 H3]]. replace (h - 1 + 1) with h in H2 by lia. rewrite H2. reflexivity.
  - rewrite H. reflexivity.
Qed.

Section Clean.
  Variable hash_hdr : header -> N.
  Variable root : list N -> N.
  Hypothesis hash_inj : forall a b, hash_hdr a = hash_hdr b -> a = b.

  Lemma expected_x_trunc sp t x : wf_spec hash_hdr root sp ->
    expected_x (ttrunc t sp) x =
    match expected_x sp x with
    | ROk b => if h_number (b_hdr b) <=? t then ROk b else RNotFound
    | r => r
    end.
  Proof.
    intro Hwf. rewrite !expected_x_hpos, hpos_trunc.
    pose proof (hpos_find sp x 1) as H. destruct (hpos sp x 1) as [h|]; [|reflexivity].
    destruct H as [H1 [H2 H3]]. replace (h - 1 + 1) with h in H2 by lia.
    destruct (tget sp h) as [e|] eqn:Eg; [|congruence].
    destruct (wf_spec_number hash_hdr root sp h e Hwf Eg) as [Hn _]. rewrite Hn.
    destruct (h <? 1 + t) eqn:E1; destruct (h <=? t) eqn:E2; try lia; [|reflexivity].
    rewrite tget_firstn, E2, Eg. reflexivity.
  Qed.

  Lemma expected_t_trunc sp t tx :
    expected_t (ttrunc t sp) tx =
    match to_meta (expected_t sp tx) with
    | ROk (h, _, _) => if h <=? t then expected_t sp tx else tobs_none
    | _ => expected_t sp tx
    end.
  Proof.
    unfold expected_t. rewrite find_tx_trunc.
    destruct (find_tx tx sp 1) as [[[h e] i]|]; cbn [to_meta]; [|reflexivity].
    destruct (h <? 1 + t) eqn:E1; destruct (h <=? t) eqn:E2; try lia; reflexivity.
  Qed.

  (** after an accepted rollback to [t]: the head is [t], every height above [t] answers
      nothing, every height up to [t] answers as before, lookups by block hash / transaction
      hash answer as before when the answer lies at or below [t] and "not found" otherwise *)
  Theorem rollback_clean full s sp t s' :
    inv hash_hdr root full s sp -> step cfg_fixed full (ORollback t) s = (0, s') ->
    t <= tlen sp /\ cm_height (get_chain_meta s') = t /\
    (forall h, observe_h cfg_fixed s' h = if h <=? t then observe_h cfg_fixed s h else hobs_none) /\
    (forall x, get_block_by_hash s' x true =
               match get_block_by_hash s x true with
               | ROk b => if h_number (b_hdr b) <=? t then ROk b else RNotFound
               | r => r
               end) /\
    (forall tx, observe_t s' tx =
                match to_meta (observe_t s tx) with
                | ROk (h, _, _) => if h <=? t then observe_t s tx else tobs_none
                | _ => observe_t s tx
                end).
  Proof.
    intros Hinv Hstep. pose proof Hinv as [Href [Hwf _]].
    destruct (step_inv hash_hdr root hash_inj full (ORollback t) s sp Hinv I 0 s' Hstep) as [[Href' _] [Hc _]].
    cbn [spec_step code_ok N.eqb] in *. change (firstn (N.to_nat t) sp) with (ttrunc t sp) in Href'.
    assert (Ht : t <= tlen sp) by lia. split; [exact Ht|]. split; [|split; [|split]].
    - unfold get_chain_meta. rewrite (rf_mem _ _ Href'), spec_meta_height. apply tlen_firstn. exact Ht.
    - intro h. rewrite (observe_h_expected s' _ h Href'), (observe_h_expected s _ h Href). apply expected_h_trunc.
    - intro x. rewrite (observe_x_expected s' _ x Href'), (observe_x_expected s _ x Href).
      apply expected_x_trunc. exact Hwf.
    - intro tx. rewrite (observe_t_expected s' _ tx Href'), (observe_t_expected s _ tx Href).
      apply expected_t_trunc.
  Qed.

  (** a refused rollback changes nothing at all *)
  Theorem rollback_refused_frame full s sp t c s' :
    inv hash_hdr root full s sp -> step cfg_fixed full (ORollback t) s = (c, s') -> c <> 0 ->
    s' = s /\ (c = 1 \/ c = 2) /\ (full = false -> c = 1 /\ tlen sp < t).
  Proof.
    intros Hinv Hstep Hc.
    destruct (step_inv hash_hdr root hash_inj full (ORollback t) s sp Hinv I c s' Hstep) as [_ [Hok [Hs Hcs]]].
    split; [auto|]. split; [destruct Hcs as [?|[?|?]]; [congruence|auto|auto]|].
    intro Hf. subst full. cbn [step step_base] in Hstep. destruct Hinv as [Href [Hwf _]].
    destruct (tlen sp <? t) eqn:E1.
    - unfold rollback_chain in Hstep. rewrite (rf_mem _ _ Href), spec_meta_height, E1 in Hstep.
      inversion Hstep; subst. split; [reflexivity|lia].
    - exfalso. destruct (tlen sp =? t) eqn:E2.
      + unfold rollback_chain in Hstep. rewrite (rf_mem _ _ Href), spec_meta_height, E1, E2 in Hstep.
        inversion Hstep; subst. congruence.
      + destruct (rollback_refines hash_hdr root hash_inj s sp t Href Hwf) as [s2 [E3 _]]; [lia|].
        rewrite E3 in Hstep. inversion Hstep; subst. congruence.
  Qed.
End Clean.

(** * The chain invariant *)
Lemma firstn_seq_le n : forall a m, (n <= m)%nat -> firstn n (seq a m) = seq a n.
Proof.
  induction n as [|n IH]; intros a m H; [reflexivity|].
  destruct m; [lia|]. simpl. f_equal. apply IH. lia.
Qed.

Section ChainInv.
  Variable hash_hdr : header -> N.
  Variable root : list N -> N.
  Hypothesis hash_inj : forall a b, hash_hdr a = hash_hdr b -> a = b.

  Definition prev_hash (sp : spec) (k : nat) : N :=
    match tget sp (N.of_nat k) with Some e => b_hash (e_blk e) | None => 0 end.

  Lemma links_expected sp : wf_spec hash_hdr root sp -> forall m k, (k + m <= length sp)%nat ->
    links hash_hdr root (prev_hash sp k) (N.of_nat k + 1)
          (map (expected_h sp) (map N.of_nat (seq (S k) m))).
  Proof.
    intro Hwf. induction m as [|m IH]; intros k Hk; [exact I|].
    cbn [seq map links].
    destruct (tget_some sp (N.of_nat (S k))) as [e He]; [lia|unfold tlen; lia|].
    split.
    - unfold link_ok, expected_h. rewrite He. exists (e_blk e), (e_rcpts e). cbn [ho_full ho_rcpts].
      destruct (wf_spec_number _ _ _ _ _ Hwf He) as [Hn Hh].
      pose proof (wf_spec_parent _ _ _ _ _ Hwf He) as Hp.
      pose proof (wf_spec_entry _ _ _ Hwf _ _ He) as [_ [_ [_ [Ht [Hr _]]]]].
      repeat split; auto; try lia.
      rewrite Hp. unfold prev_hash. replace (N.of_nat (S k) - 1) with (N.of_nat k) by lia. reflexivity.
    - replace (hash_of (expected_h sp (N.of_nat (S k)))) with (prev_hash sp (S k)).
      + replace (N.of_nat k + 1 + 1) with (N.of_nat (S k) + 1) by lia. apply IH. lia.
      + unfold prev_hash, hash_of, expected_h. rewrite He. reflexivity.
  Qed.

  Theorem chain_inv_expected U sp : wf_spec hash_hdr root sp -> (length sp <= u_kh U)%nat ->
    chain_inv hash_hdr root (expected U sp).
  Proof.
    intros Hwf Hk. unfold chain_inv, expected. cbn [o_meta o_heights].
    rewrite spec_meta_height. unfold tlen. rewrite Nat2N.id.
    unfold nseq. cbn [seq map tl length]. rewrite map_length, map_length, seq_length.
    rewrite !firstn_map. rewrite firstn_seq_le by exact Hk. rewrite !map_map.
    split; [lia|]. split.
    - pose proof (links_expected sp Hwf (length sp) 0) as H. rewrite map_map in H.
      unfold prev_hash in H. rewrite tget_zero in H. apply H. lia.
    - destruct sp as [|e sp0 _] using rev_ind; [reflexivity|].
      rewrite app_length. cbn [length]. rewrite Nat.add_1_r, seq_S, map_app. cbn [map]. rewrite rev_unit.
      unfold hash_of, expected_h.
      replace (N.of_nat (1 + length sp0)) with (tlen sp0 + 1) by (unfold tlen; lia).
      rewrite tget_snoc, N.eqb_refl. cbn [ho_full]. rewrite spec_meta_snoc. reflexivity.
  Qed.
End ChainInv.

(** * Reflection: the boolean predicates the judge evaluates are the propositions above *)
Lemma hdr_eqb_spec a b : hdr_eqb a b = true <-> a = b.
Proof.
  destruct a, b. unfold hdr_eqb. cbn. rewrite !andb_true_iff, !N.eqb_eq. split.
  - intros [[[[? ?] ?] ?] ?]. subst. reflexivity.
  - intro H. inversion H. auto.
Qed.
Lemma nlist_eqb_spec a b : nlist_eqb a b = true <-> a = b.
Proof. apply list_eqb_spec. intros. apply N.eqb_eq. Qed.
Lemma block_eqb_spec a b : block_eqb a b = true <-> a = b.
Proof.
  destruct a, b. unfold block_eqb. cbn. rewrite !andb_true_iff, hdr_eqb_spec, N.eqb_eq, nlist_eqb_spec. split.
  - intros [[? ?] ?]. subst. reflexivity.
  - intro H. inversion H. auto.
Qed.
Lemma imeta_eqb_spec a b : imeta_eqb a b = true <-> a = b.
Proof.
  destruct a as [a1 a2], b as [b1 b2]. unfold imeta_eqb. cbn. rewrite andb_true_iff, N.eqb_eq.
  rewrite (list_eqb_spec (fun p q : N * list N => (fst p =? fst q) && nlist_eqb (snd p) (snd q))).
  - split; [intros [? ?]; subst; reflexivity|intro H; inversion H; auto].
  - intros [x1 x2] [y1 y2]. cbn. rewrite andb_true_iff, N.eqb_eq, nlist_eqb_spec. split.
    + intros [? ?]. subst. reflexivity.
    + intro H. inversion H. auto.
Qed.
Lemma cmeta_eqb_spec a b : cmeta_eqb a b = true <-> a = b.
Proof.
  destruct a, b. unfold cmeta_eqb. cbn. rewrite !andb_true_iff, !N.eqb_eq. split.
  - intros [[? ?] ?]. subst. reflexivity.
  - intro H. inversion H. auto.
Qed.
Lemma txmeta_eqb_spec a b : txmeta_eqb a b = true <-> a = b.
Proof.
  destruct a as [[a1 a2] a3], b as [[b1 b2] b3]. unfold txmeta_eqb. cbn. rewrite !andb_true_iff, !N.eqb_eq. split.
  - intros [[? ?] ?]. subst. reflexivity.
  - intro H. inversion H. auto.
Qed.
Lemma res_eqb_spec {A} (eqb : A -> A -> bool) :
  (forall x y, eqb x y = true <-> x = y) -> forall a b, res_eqb eqb a b = true <-> a = b.
Proof.
  intros He a b. destruct a, b; cbn; try (split; [discriminate|discriminate]); try tauto.
  rewrite He. split; [intro; subst; reflexivity|intro H; inversion H; reflexivity].
Qed.
Lemma hobs_eqb_spec a b : hobs_eqb a b = true <-> a = b.
Proof.
  destruct a, b. unfold hobs_eqb. cbn.
  rewrite !andb_true_iff, !(res_eqb_spec block_eqb block_eqb_spec), (res_eqb_spec imeta_eqb imeta_eqb_spec),
    (res_eqb_spec nlist_eqb nlist_eqb_spec), (res_eqb_spec N.eqb N.eqb_eq), N.eqb_eq. split.
  - intros [[[[[? ?] ?] ?] ?] ?]. subst. reflexivity.
  - intro H. inversion H. auto 10.
Qed.
Lemma tobs_eqb_spec a b : tobs_eqb a b = true <-> a = b.
Proof.
  destruct a, b. unfold tobs_eqb. cbn.
  rewrite !andb_true_iff, !(res_eqb_spec N.eqb N.eqb_eq), (res_eqb_spec txmeta_eqb txmeta_eqb_spec). split.
  - intros [[? ?] ?]. subst. reflexivity.
  - intro H. inversion H. auto.
Qed.
Lemma obs_eqb_spec a b : obs_eqb a b = true <-> a = b.
Proof.
  destruct a, b. unfold obs_eqb. cbn.
  rewrite !andb_true_iff, !cmeta_eqb_spec, (list_eqb_spec hobs_eqb hobs_eqb_spec),
    (list_eqb_spec _ (res_eqb_spec block_eqb block_eqb_spec)), (list_eqb_spec tobs_eqb tobs_eqb_spec). split.
  - intros [[[[? ?] ?] ?] ?]. subst. reflexivity.
  - intro H. inversion H. auto 10.
Qed.

Lemma forall2b_spec {A B} (f : A -> B -> bool) (P : A -> B -> Prop) :
  (forall a b, f a b = true <-> P a b) -> forall l1 l2, forall2b f l1 l2 = true <-> Forall2 P l1 l2.
Proof.
  intros Hf l1. induction l1 as [|x r IH]; intros [|y r2]; cbn; split; intro H;
    try discriminate; try constructor; try (inversion H; fail).
  - apply andb_true_iff in H. apply Hf. tauto.
  - apply andb_true_iff in H. apply IH. tauto.
  - inversion H; subst. apply andb_true_iff. split; [apply Hf|apply IH]; assumption.
Qed.

Lemma option_eqb_N_spec a b : option_eqb N.eqb a b = true <-> a = b.
Proof.
  destruct a, b; cbn; try (split; discriminate); try tauto.
  rewrite N.eqb_eq. split; [intro; subst; reflexivity|intro H; inversion H; reflexivity].
Qed.

Lemma tx_good_b_spec sp t o : tx_good_b sp t o = true <-> tx_good sp t o.
Proof.
  unfold tx_good_b, tx_good. destruct (to_meta o) as [[[h bh] i]| | |]; try (split; [discriminate|tauto]).
  - destruct (tget sp h) as [e|].
    + rewrite !andb_true_iff, N.eqb_eq, option_eqb_N_spec, !(res_eqb_spec N.eqb N.eqb_eq). split.
      * intros [[[? ?] ?] ?]. exists e. auto.
      * intros [e' [H1 [H2 [H3 [H4 H5]]]]]. inversion H1; subst. auto.
    + split; [discriminate|]. intros [e' [H1 _]]. discriminate.
  - rewrite !andb_true_iff, negb_true_iff, !(res_eqb_spec N.eqb N.eqb_eq). tauto.
Qed.

Theorem agrees_b_spec U sp o : agrees_b U sp o = true <-> agrees U sp o.
Proof.
  unfold agrees_b, agrees.
  rewrite !andb_true_iff, !cmeta_eqb_spec, (list_eqb_spec hobs_eqb hobs_eqb_spec),
    (list_eqb_spec _ (res_eqb_spec block_eqb block_eqb_spec)), (forall2b_spec _ _ (tx_good_b_spec sp)).
  tauto.
Qed.

Section ReflectHash.
  Variable hash_hdr : header -> N.
  Variable root : list N -> N.

  Lemma link_ok_b_spec prev h ho : link_ok_b hash_hdr root prev h ho = true <-> link_ok hash_hdr root prev h ho.
  Proof.
    unfold link_ok_b, link_ok. destruct (ho_full ho) as [b| | |]; try (split; [discriminate|intros [? [? [H _]]]; discriminate]).
    destruct (ho_rcpts ho) as [rc| | |]; try (split; [discriminate|intros [? [? [_ [H _]]]]; discriminate]).
    rewrite !andb_true_iff, !N.eqb_eq. split.
    - intros [[[[? ?] ?] ?] ?]. exists b, rc. auto 10.
    - intros [b' [rc' [H1 [H2 H3]]]]. inversion H1; inversion H2; subst. tauto.
  Qed.

  Lemma links_b_spec hs : forall prev h, links_b hash_hdr root prev h hs = true <-> links hash_hdr root prev h hs.
  Proof.
    induction hs as [|ho r IH]; intros prev h; cbn; [tauto|].
    rewrite andb_true_iff, link_ok_b_spec, IH. tauto.
  Qed.

  Theorem chain_inv_b_spec o : chain_inv_b hash_hdr root o = true <-> chain_inv hash_hdr root o.
  Proof.
    unfold chain_inv_b, chain_inv. cbv zeta. rewrite !andb_true_iff, links_b_spec, N.eqb_eq, Nat.ltb_lt. tauto.
  Qed.

  Lemma wf_entry_b_spec sp e : wf_entry_b hash_hdr root sp e = true <-> wf_entry hash_hdr root sp e.
  Proof.
    unfold wf_entry_b, wf_entry. cbv zeta. rewrite !andb_true_iff, !N.eqb_eq, Nat.eqb_eq. tauto.
  Qed.
End ReflectHash.

Lemma nodup_b_spec l : nodup_b l = true <-> NoDup l.
Proof.
  induction l as [|x r IH]; cbn; [split; [constructor|reflexivity]|].
  rewrite andb_true_iff, negb_true_iff, IH. split.
  - intros [H1 H2]. constructor; [|exact H2]. intro Hin. apply existsb_eqb_In in Hin. congruence.
  - intro H. inversion H; subst. split; [|assumption].
    destruct (existsb (N.eqb x) r) eqn:E; [|reflexivity]. apply existsb_eqb_In in E. tauto.
Qed.
Lemma fresh_txs_b_spec sp e : fresh_txs_b sp e = true <-> fresh_txs sp e.
Proof.
  unfold fresh_txs_b, fresh_txs. rewrite andb_true_iff, nodup_b_spec, forallb_forall.
  split; intros [H1 H2]; (split; [exact H1|]); intros t Ht; specialize (H2 t Ht).
  - apply negb_true_iff in H2. exact H2.
  - rewrite H2. reflexivity.
Qed.

(** the expected observation agrees with its spec (also for duplicated transaction hashes) *)
Lemma agrees_expected U sp : agrees U sp (expected U sp).
Proof.
  unfold agrees, expected. cbn. repeat split.
  induction (u_txs U) as [|t r IH]; cbn; constructor; [|exact IH].
  unfold tx_good, expected_t. destruct (find_tx t sp 1) as [[[h e] i]|] eqn:Ef; cbn.
  - apply find_tx_some in Ef. destruct Ef as [H1 [H2 H3]]. replace (h - 1 + 1) with h in H2 by lia.
    exists e. auto.
  - apply find_tx_none in Ef. auto.
Qed.

(** * The judge's property predicate holds on the fixed model's own trace, for every
      well-formed history *)
Lemma npair_inj a b c d : npair a b = npair c d -> a = c /\ b = d.
Proof.
  unfold npair. intro H.
  assert (a + b = c + d).
  { destruct (N.lt_trichotomy (a + b) (c + d)) as [L|[E|L]]; [exfalso|exact E|exfalso]; nia. }
  nia.
Qed.
Lemma toy_hash_inj a b : toy_hash a = toy_hash b -> a = b.
Proof.
  destruct a, b. unfold toy_hash. cbn. intro H.
  assert (H' : forall x y, 1 + x = 1 + y -> x = y) by (intros; lia). apply H' in H.
  repeat (apply npair_inj in H; destruct H as [? H]). subst. reflexivity.
Qed.
Lemma toy_hash_nz a : toy_hash a <> 0.
Proof. unfold toy_hash. lia. Qed.

Section TraceTheorem.
  Variable hash_hdr : header -> N.
  Variable root : list N -> N.
  Hypothesis hash_inj : forall a b, hash_hdr a = hash_hdr b -> a = b.

  Definition op_wf_b (sp : spec) (o : op) : bool :=
    match o with
    | OPersist e => wf_entry_b hash_hdr root sp e && fresh_txs_b sp e
    | OReexec e =>
        let k := h_number (b_hdr (e_blk e)) in
        (1 <=? k) && (k <=? tlen sp) && wf_entry_b hash_hdr root (ttrunc (k - 1) sp) e && fresh_txs_b (ttrunc (k - 1) sp) e
    | _ => true
    end.
  Lemma op_wf_b_spec sp o : op_wf_b sp o = true <-> op_wf hash_hdr root sp o.
  Proof.
    destruct o; cbn [op_wf_b op_wf]; try tauto.
    - rewrite andb_true_iff, wf_entry_b_spec, fresh_txs_b_spec. tauto.
    - cbv zeta. rewrite !andb_true_iff, wf_entry_b_spec, fresh_txs_b_spec, !N.leb_le. tauto.
  Qed.
  Fixpoint hist_wf_b (full : bool) (ops : list op) (s : cledger) (sp : spec) : bool :=
    match ops with
    | [] => true
    | o :: r =>
        op_wf_b sp o &&
        let '(c, s') := step cfg_fixed full o s in hist_wf_b full r s' (spec_step o c sp)
    end.

  Lemma hist_wf_b_spec full ops : forall s sp,
    hist_wf_b full ops s sp = true <-> hist_wf hash_hdr root full ops s sp.
  Proof.
    induction ops as [|o r IH]; intros s sp; cbn [hist_wf_b hist_wf]; [tauto|].
    rewrite andb_true_iff, op_wf_b_spec. destruct (step cfg_fixed full o s) as [c s']. rewrite IH. tauto.
  Qed.

  Fixpoint persists (ops : list op) : nat :=
    match ops with [] => 0 | OPersist _ :: r | OReexec _ :: r => S (persists r) | _ :: r => persists r end.

  Theorem prop_trace_model strict full U ops : forall s sp i,
    inv hash_hdr root full s sp -> hist_wf hash_hdr root full ops s sp ->
    (length sp + persists ops <= u_kh U)%nat ->
    prop_trace hash_hdr root strict U ops (trace_of cfg_fixed full U ops s) sp true i = V_ok.
  Proof.
    induction ops as [|o r IH]; intros s sp i Hinv Hwf Hk; [reflexivity|].
    cbn [trace_of prop_trace hist_wf] in *. destruct Hwf as [Hop Hrest].
    destruct (step cfg_fixed full o s) as [c s'] eqn:E.
    destruct (step_inv hash_hdr root hash_inj full o s sp Hinv Hop c s' E) as [Hinv' [Hcode _]].
    assert (Hwfb : match o with
                   | OPersist e => true && wf_entry_b hash_hdr root sp e
                   | OReexec e => true && (1 <=? h_number (b_hdr (e_blk e))) && (h_number (b_hdr (e_blk e)) <=? tlen sp)
                                  && wf_entry_b hash_hdr root (firstn (N.to_nat (h_number (b_hdr (e_blk e)) - 1)) sp) e
                   | _ => true end = true).
    { destruct o; try reflexivity.
      - cbn. apply wf_entry_b_spec. cbn [op_wf] in Hop. tauto.
      - cbn [op_wf] in Hop. cbv zeta in *. destruct Hop as [H1 [H2 [H3 _]]].
        rewrite !andb_true_iff, !N.leb_le. repeat split; try assumption. apply wf_entry_b_spec. exact H3. }
    rewrite Hwfb, Hcode. cbn [negb].
    pose proof Hinv' as [Href' [Hwf' _]].
    assert (Hlen : (length (spec_step o c sp) + persists r <= u_kh U)%nat).
    { destruct o; cbn [spec_step persists] in *.
      - destruct (c =? 0) eqn:Ec; [replace c with 0 by lia|]; cbn.
        + rewrite app_length. cbn. lia.
        + destruct c; [lia|lia].
      - destruct c; cbn; [rewrite firstn_length; lia|lia].
      - destruct c; lia.
      - destruct c; [|lia]. rewrite app_length, firstn_length. cbn. lia. }
    rewrite (observe_expected U s' _ Href').
    assert (Ha : agrees_b U (spec_step o c sp) (expected U (spec_step o c sp)) = true)
      by (apply agrees_b_spec, agrees_expected).
    assert (Hc : chain_inv_b hash_hdr root (expected U (spec_step o c sp)) = true).
    { apply chain_inv_b_spec, chain_inv_expected; [exact Hwf'|lia]. }
    rewrite Ha, Hc. cbn [negb]. apply IH; assumption.
  Qed.
End TraceTheorem.

(** * The theorems in their final form: over all well-formed histories from the empty ledger *)
Section Final.
  Variable hash_hdr : header -> N.
  Variable root : list N -> N.
  Hypothesis hash_inj : forall a b, hash_hdr a = hash_hdr b -> a = b.

  Definition spec_of (full : bool) (ops : list op) : spec := snd (run2 cfg_fixed full ops cl_empty []).

  Lemma reach_inv full ops : hist_wf hash_hdr root full ops cl_empty [] ->
    inv hash_hdr root full (run cfg_fixed full ops cl_empty) (spec_of full ops).
  Proof.
    intro H. rewrite <- (run2_fst cfg_fixed full ops cl_empty []).
    apply run2_inv; [exact hash_inj|apply inv_init|exact H].
  Qed.

  Theorem lookups_all full ops U : hist_wf hash_hdr root full ops cl_empty [] ->
    observe cfg_fixed U (run cfg_fixed full ops cl_empty) = expected U (spec_of full ops).
  Proof. intro H. apply observe_expected. apply (reach_inv full ops H). Qed.

  Theorem chain_inv_all full ops U : hist_wf hash_hdr root full ops cl_empty [] ->
    (length (spec_of full ops) <= u_kh U)%nat ->
    chain_inv hash_hdr root (observe cfg_fixed U (run cfg_fixed full ops cl_empty)).
  Proof.
    intros H Hk. rewrite (lookups_all full ops U H). apply chain_inv_expected; [|exact Hk].
    apply (reach_inv full ops H).
  Qed.

  Theorem rollback_clean_all full ops t s' : hist_wf hash_hdr root full ops cl_empty [] ->
    let s := run cfg_fixed full ops cl_empty in
    step cfg_fixed full (ORollback t) s = (0, s') ->
    t <= tlen (spec_of full ops) /\ cm_height (get_chain_meta s') = t /\
    (forall h, observe_h cfg_fixed s' h = if h <=? t then observe_h cfg_fixed s h else hobs_none) /\
    (forall x, get_block_by_hash s' x true =
               match get_block_by_hash s x true with
               | ROk b => if h_number (b_hdr b) <=? t then ROk b else RNotFound
               | r => r
               end) /\
    (forall tx, observe_t s' tx =
                match to_meta (observe_t s tx) with
                | ROk (h, _, _) => if h <=? t then observe_t s tx else tobs_none
                | _ => observe_t s tx
                end).
  Proof. intros H s Hs. exact (rollback_clean hash_hdr root hash_inj full s _ t s' (reach_inv full ops H) Hs). Qed.

  Theorem rollback_refused_all full ops t c s' : hist_wf hash_hdr root full ops cl_empty [] ->
    let s := run cfg_fixed full ops cl_empty in
    step cfg_fixed full (ORollback t) s = (c, s') -> c <> 0 ->
    s' = s /\ (c = 1 \/ c = 2) /\ (full = false -> c = 1 /\ tlen (spec_of full ops) < t).
  Proof. intros H s Hs Hc. exact (rollback_refused_frame hash_hdr root hash_inj full s _ t c s' (reach_inv full ops H) Hs Hc). Qed.

  (** a well-formed entry is always accepted (the blockfile and the chain meta never drift) *)
  Theorem persist_accepted_all full ops e : hist_wf hash_hdr root full ops cl_empty [] ->
    wf_entry hash_hdr root (spec_of full ops) e -> fresh_txs (spec_of full ops) e ->
    fst (step cfg_fixed full (OPersist e) (run cfg_fixed full ops cl_empty)) = 0.
  Proof.
    intros H He Hf. destruct (step cfg_fixed full (OPersist e) (run cfg_fixed full ops cl_empty)) as [c s'] eqn:E.
    destruct (step_inv hash_hdr root hash_inj full (OPersist e) _ _ (reach_inv full ops H) (conj He Hf) c s' E) as [_ [_ [_ Hc]]].
    exact Hc.
  Qed.

  Theorem judge_predicate_all strict full ops U : hist_wf hash_hdr root full ops cl_empty [] ->
    (persists ops <= u_kh U)%nat ->
    prop_trace hash_hdr root strict U ops (trace_of cfg_fixed full U ops cl_empty) [] true 0 = V_ok.
  Proof.
    intros H Hk. apply prop_trace_model; [exact hash_inj|apply inv_init|exact H|exact Hk].
  Qed.
End Final.

(** * Storage batches and the two store kinds *)
Section Batches.
  Context {V : Type}.

  (** the last operation of the batch that touches key [k] *)
  Fixpoint last_op (k : N) (ops : list (kvop V)) : option (kvop V) :=
    match ops with
    | [] => None
    | o :: r => match last_op k r with
                | Some x => Some x
                | None => if op_key o =? k then Some o else None
                end
    end.

  Lemma nlookup_apply_seq k ops : forall m,
    nlookup k (apply_seq ops m) =
    match last_op k ops with
    | Some (KPut _ v) => Some v
    | Some (KDel _) => None
    | None => nlookup k m
    end.
  Proof.
    induction ops as [|o r IH]; intro m; [reflexivity|].
    destruct o as [k' v|k']; cbn [apply_seq last_op op_key]; rewrite IH;
      destruct (last_op k r) as [x|]; try reflexivity.
    - rewrite nlookup_nset. destruct (k' =? k) eqn:E1; destruct (k =? k') eqn:E2; try lia; reflexivity.
    - rewrite nlookup_nremove. destruct (k' =? k) eqn:E1; destruct (k =? k') eqn:E2; try lia; reflexivity.
  Qed.

  Lemma last_op_filter_keep (p : kvop V -> bool) k ops :
    (forall o, In o ops -> op_key o = k -> p o = true) -> last_op k (filter p ops) = last_op k ops.
  Proof.
    induction ops as [|o r IH]; intro H; [reflexivity|]. cbn [filter last_op].
    assert (Hr : forall o', In o' r -> op_key o' = k -> p o' = true) by (intros; apply H; [right|]; assumption).
    destruct (p o) eqn:Ep; cbn [last_op]; rewrite (IH Hr); [reflexivity|].
    destruct (last_op k r); [reflexivity|]. destruct (op_key o =? k) eqn:E; [|reflexivity].
    rewrite (H o (or_introl eq_refl)) in Ep by lia. discriminate.
  Qed.

  Lemma last_op_filter_drop (p : kvop V -> bool) k ops :
    (forall o, In o ops -> op_key o = k -> p o = false) -> last_op k (filter p ops) = None.
  Proof.
    induction ops as [|o r IH]; intro H; [reflexivity|]. cbn [filter].
    assert (Hr : forall o', In o' r -> op_key o' = k -> p o' = false) by (intros; apply H; [right|]; assumption).
    destruct (p o) eqn:Ep; [|apply IH; exact Hr]. cbn [last_op]. rewrite (IH Hr).
    destruct (op_key o =? k) eqn:E; [|reflexivity]. rewrite (H o (or_introl eq_refl)) in Ep by lia. discriminate.
  Qed.

  Lemma last_op_in k ops x : last_op k ops = Some x -> In x ops /\ op_key x = k.
  Proof.
    induction ops as [|o r IH]; [discriminate|]. cbn [last_op]. destruct (last_op k r) as [y|].
    - intro H. inversion H; subst. destruct (IH eq_refl). split; [right|]; assumption.
    - destruct (op_key o =? k) eqn:E; [|discriminate]. intro H. inversion H; subst. split; [left; reflexivity|lia].
  Qed.

  (** no key both put and deleted in the batch: both store kinds give the same store *)
  Theorem apply_kind_conflict_free (ops : list (kvop V)) : conflict_free ops ->
    forall m k, nlookup k (apply_kind false ops m) = nlookup k (apply_kind true ops m).
  Proof.
    intros Hcf m k. unfold apply_kind. rewrite !nlookup_apply_seq.
    destruct (last_op k ops) as [x|] eqn:El.
    - destruct (last_op_in _ _ _ El) as [Hin Hk]. destruct x as [k' v|k'].
      + (* a put on k exists: no delete on k *)
        rewrite (last_op_filter_drop is_del); [rewrite (last_op_filter_keep is_put), El; [reflexivity|]|].
        * intros o Ho Hok. destruct o; [reflexivity|]. exfalso.
          exact (Hcf _ _ Hin Ho eq_refl eq_refl (eq_trans Hk (eq_sym Hok))).
        * intros o Ho Hok. destruct o; [reflexivity|]. exfalso.
          exact (Hcf _ _ Hin Ho eq_refl eq_refl (eq_trans Hk (eq_sym Hok))).
      + (* a delete on k exists: no put on k *)
        rewrite (last_op_filter_keep is_del), El; [reflexivity|].
        intros o Ho Hok. destruct o; [|reflexivity]. exfalso.
        exact (Hcf _ _ Ho Hin eq_refl eq_refl (eq_trans Hok (eq_sym Hk))).
    - assert (Hnone : forall o, In o ops -> op_key o <> k).
      { intros o Ho Hok. clear Hcf. induction ops as [|a r IH]; [exact Ho|]. cbn [last_op] in El.
        destruct (last_op k r) eqn:Er; [discriminate|]. destruct (op_key a =? k) eqn:E; [discriminate|].
        destruct Ho as [Ho|Ho]; [subst; lia|]. exact (IH eq_refl Ho). }
      rewrite (last_op_filter_drop is_del) by (intros o Ho Hok; exfalso; exact (Hnone o Ho Hok)).
      rewrite (last_op_filter_drop is_put) by (intros o Ho Hok; exfalso; exact (Hnone o Ho Hok)). reflexivity.
  Qed.

  (** homogeneous batches (only Puts, or only Deletes) are even applied identically *)
  Lemma apply_kind_all_puts ord (ops : list (kvop V)) m :
    forallb is_put ops = true -> apply_kind ord ops m = apply_seq ops m.
  Proof.
    intro H. destruct ord; [reflexivity|]. unfold apply_kind.
    assert (filter is_put ops = ops /\ filter is_del ops = []) as [-> ->]; [|reflexivity].
    induction ops as [|o r IH]; [auto|]. cbn in H. apply andb_true_iff in H. destruct H as [H1 H2].
    destruct (IH H2) as [E1 E2]. unfold is_del in *. cbn [filter]. rewrite H1. cbn. rewrite E1, E2. auto.
  Qed.
  Lemma apply_kind_all_dels ord (ops : list (kvop V)) m :
    forallb is_del ops = true -> apply_kind ord ops m = apply_seq ops m.
  Proof.
    intro H. destruct ord; [reflexivity|]. unfold apply_kind.
    assert (filter is_put ops = [] /\ filter is_del ops = ops) as [-> ->]; [|reflexivity].
    induction ops as [|o r IH]; [auto|]. cbn in H. apply andb_true_iff in H. destruct H as [H1 H2].
    destruct (IH H2) as [E1 E2]. cbn [filter]. rewrite H1. unfold is_del in H1. apply negb_true_iff in H1.
    rewrite H1, E1, E2. auto.
  Qed.
End Batches.

(** ** every batch the (repaired) chain ledger builds is homogeneous per key family: the
    persist batch is all Puts, the rollback batch is all Deletes plus ONE operation on the
    chain-meta key -- so no key is both put and deleted, and the store kind is irrelevant *)
Lemma put_txmetas_as_ops num bh txs : forall i m,
  put_txmetas num bh i txs m = apply_seq (txmeta_puts num bh i txs) m /\ forallb is_put (txmeta_puts num bh i txs) = true.
Proof. induction txs as [|t r IH]; intros i m; cbn; [auto|]. apply IH. Qed.
Lemma del_txmetas_as_ops txs : forall m,
  del_txmetas txs m = apply_seq (txmeta_dels txs) m /\ forallb is_del (txmeta_dels txs) = true.
Proof. induction txs as [|t r IH]; intro m; cbn; [auto|]. apply IH. Qed.

Theorem persist_batch_any_store ord c e ix :
  let b := e_blk e in let num := h_number (b_hdr b) in
  persist_index c e ix =
  mkIx (apply_kind ord [KPut (b_hash b) num] (ix_bhash ix))
       (apply_kind ord [KPut num (b_hash b)] (ix_height ix))
       (apply_kind ord [KPut num (b_txs b)] (ix_txset ix))
       (apply_kind ord (txmeta_puts num (b_hash b) 0 (b_txs b)) (ix_txmeta ix))
       (Some (new_meta c e)).
Proof.
  cbv zeta. unfold persist_index.
  destruct (put_txmetas_as_ops (h_number (b_hdr (e_blk e))) (b_hash (e_blk e)) (b_txs (e_blk e)) 0 (ix_txmeta ix)) as [E H].
  rewrite E, (apply_kind_all_puts ord _ _ H). destruct ord; reflexivity.
Qed.

Theorem rollback_block_batch_any_store ord cfg ix0 i bf ixb cnt bf' ixb' cnt' :
  remove_on_block cfg ix0 i (bf, ixb, cnt) = Some (bf', ixb', cnt') ->
  exists bh txs,
    ixb' = mkIx (apply_kind ord [KDel bh] (ix_bhash ixb))
                (if d_rb_heightkey cfg then ix_height ixb else apply_kind ord [KDel i] (ix_height ixb))
                (apply_kind ord [KDel i] (ix_txset ixb))
                (apply_kind ord (txmeta_dels txs) (ix_txmeta ixb))
                (ix_meta ixb).
Proof.
  unfold remove_on_block. destruct (tget (bf_bodies bf) i) as [[hd bh]|]; [|discriminate].
  destruct (nlookup i (ix_txset ix0)) as [txs|]; [|discriminate].
  destruct (tget (bf_ics bf) i) as [im|]; [|discriminate]. intro H. inversion H; subst.
  exists bh, txs. destruct (del_txmetas_as_ops txs (ix_txmeta ixb)) as [E Hd].
  rewrite E, (apply_kind_all_dels ord _ _ Hd). destruct ord; reflexivity.
Qed.

Lemma meta_ops_conflict_free cfg t m : d_meta_del_first cfg = false -> conflict_free (meta_ops cfg t m).
Proof.
  intro H. unfold meta_ops. rewrite H. destruct (t =? 0); intros a b [Ha|[]] [Hb|[]]; subst; cbn; discriminate.
Qed.

(** the store kind does not change any step of the repaired code *)
Lemma remove_on_block_ext c1 c2 ix0 i st : d_rb_heightkey c1 = d_rb_heightkey c2 ->
  remove_on_block c1 ix0 i st = remove_on_block c2 ix0 i st.
Proof. intro H. unfold remove_on_block. rewrite H. reflexivity. Qed.
Lemma rb_loop_ext c1 c2 ix0 hs : d_rb_heightkey c1 = d_rb_heightkey c2 -> forall st,
  rb_loop c1 ix0 hs st = rb_loop c2 ix0 hs st.
Proof.
  intro H. induction hs as [|i r IH]; intro st; [reflexivity|]. cbn [rb_loop].
  rewrite (remove_on_block_ext c1 c2 ix0 i st H). destruct (remove_on_block c2 ix0 i st); [apply IH|reflexivity].
Qed.

Theorem store_kind_irrelevant cfg full o s : d_meta_del_first cfg = false ->
  step (with_store false cfg) full o s = step (with_store true cfg) full o s.
Proof.
  intro Hm.
  assert (Hrb : forall t s0, rollback_chain (with_store false cfg) t s0 = rollback_chain (with_store true cfg) t s0).
  { intros t s0. unfold rollback_chain.
    rewrite (rb_loop_ext (with_store false cfg) (with_store true cfg)) by reflexivity.
    unfold meta_ops. cbn [with_store d_meta_del_first]. rewrite Hm.
    destruct (cm_height (cl_mem s0) <? t); [reflexivity|]. destruct (cm_height (cl_mem s0) =? t); [reflexivity|].
    destruct (rb_loop _ _ _ _) as [[[bf ixb] cnt] [|]]; [|reflexivity].
    destruct (t =? 0).
    - rewrite !meta_after_del. reflexivity.
    - destruct (tget (bf_bodies bf) t) as [[hd bh]|]; [|reflexivity].
      destruct (nlookup t (ix_txset (cl_ix s0))); [|reflexivity]. rewrite !meta_after_put. reflexivity. }
  assert (Hb : forall o' s0, step_base (with_store false cfg) full o' s0 = step_base (with_store true cfg) full o' s0).
  { intros o' s0. destruct o'; cbn [step_base]; try reflexivity.
    destruct full; [destruct (jw_rollback t (cl_jw s0)) as [[|p] j]|]; try reflexivity; apply Hrb. }
  destruct o; cbn [step]; try apply Hb.
  destruct ((h_number (b_hdr (e_blk e)) =? 0) || (cm_height (cl_mem s) <? h_number (b_hdr (e_blk e)))); [reflexivity|].
  rewrite Hb. destruct (step_base (with_store true cfg) full (ORollback _) s) as [[|p] s1]; [apply Hb|reflexivity].
Qed.

Lemma run_with_store cfg full ops : d_meta_del_first cfg = false -> forall s,
  run (with_store false cfg) full ops s = run (with_store true cfg) full ops s.
Proof.
  intro Hm. induction ops as [|o r IH]; intro s; [reflexivity|]. cbn [run].
  rewrite (store_kind_irrelevant cfg full o s Hm). apply IH.
Qed.
Corollary run_store_kind_irrelevant full ops s :
  run cfg_fixed_multi full ops s = run cfg_fixed full ops s.
Proof. exact (run_with_store cfg_fixed full ops eq_refl s). Qed.
