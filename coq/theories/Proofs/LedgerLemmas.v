(** Generic lemmas used by the state-ledger proofs: boolean equalities, association lists
    ([alookup] / [aset] / [aremove] of Base.Prelude), folds that write into them, insertion sort. *)
From BX Require Import Base.Prelude Model.JsonAcct Model.Merkle Model.StateLedger.
From Coq Require Import Sorting.Permutation Sorting.Sorted.
Local Open Scope N_scope.

(** * boolean equalities *)
Lemma bytes_eqb_spec (x y : bytes) : bytes_eqb x y = true <-> x = y.
Proof. unfold bytes_eqb. apply list_eqb_spec. intros a b. apply N.eqb_eq. Qed.

Lemma bytes_eqb_refl x : bytes_eqb x x = true.
Proof. apply bytes_eqb_spec. reflexivity. Qed.

Lemma bytes_eqb_false (x y : bytes) : bytes_eqb x y = false <-> x <> y.
Proof.
  split.
  - intros H E. apply bytes_eqb_spec in E. congruence.
  - intro H. destruct (bytes_eqb x y) eqn:E; [apply bytes_eqb_spec in E; congruence | reflexivity].
Qed.

Lemma sk_eqb_spec (x y : N * bytes) : sk_eqb x y = true <-> x = y.
Proof.
  destruct x as [a k], y as [b l]. unfold sk_eqb. simpl.
  rewrite andb_true_iff, N.eqb_eq, bytes_eqb_spec. split; [intros [-> ->]; reflexivity | intro H; inversion H; auto].
Qed.

Lemma N_eqb_spec (x y : N) : N.eqb x y = true <-> x = y.
Proof. apply N.eqb_eq. Qed.

(** * association lists *)
Section AssocFacts.
  Context {K V : Type} (keqb : K -> K -> bool).
  Hypothesis keqb_spec : forall x y, keqb x y = true <-> x = y.

  Lemma keqb_refl x : keqb x x = true.
  Proof. apply keqb_spec. reflexivity. Qed.

  Lemma keqb_sym x y : keqb x y = keqb y x.
  Proof.
    destruct (keqb x y) eqn:E1, (keqb y x) eqn:E2; try reflexivity.
    - apply keqb_spec in E1. subst. rewrite keqb_refl in E2. discriminate.
    - apply keqb_spec in E2. subst. rewrite keqb_refl in E1. discriminate.
  Qed.

  Lemma alookup_aremove (k k' : K) (l : list (K * V)) :
    alookup keqb k' (aremove keqb k l) = if keqb k' k then None else alookup keqb k' l.
  Proof.
    induction l as [|[x v] t IH]; simpl.
    - destruct (keqb k' k); reflexivity.
    - destruct (keqb k x) eqn:E.
      + rewrite IH. destruct (keqb k' k) eqn:E2; [reflexivity|].
        apply keqb_spec in E. subst x. rewrite E2. reflexivity.
      + simpl. destruct (keqb k' x) eqn:E3.
        * apply keqb_spec in E3. subst x. rewrite (keqb_sym k' k), E. reflexivity.
        * exact IH.
  Qed.

  Lemma alookup_aset (k k' : K) (v : V) (l : list (K * V)) :
    alookup keqb k' (aset keqb k v l) = if keqb k' k then Some v else alookup keqb k' l.
  Proof.
    unfold aset. simpl. destruct (keqb k' k) eqn:E; [reflexivity|].
    rewrite alookup_aremove, E. reflexivity.
  Qed.

  Lemma aremove_absent (k : K) (l : list (K * V)) :
    alookup keqb k l = None -> aremove keqb k l = l.
  Proof.
    induction l as [|[x v] t IH]; simpl; [reflexivity|].
    destruct (keqb k x) eqn:E; [discriminate|].
    intro H. f_equal. apply IH. exact H.
  Qed.

  Lemma alookup_In (k : K) (v : V) (l : list (K * V)) :
    alookup keqb k l = Some v -> In (k, v) l.
  Proof.
    induction l as [|[x w] t IH]; simpl; [discriminate|].
    destruct (keqb k x) eqn:E.
    - intro H. injection H as ->. apply keqb_spec in E. subst. left. reflexivity.
    - intro H. right. apply IH. exact H.
  Qed.

  Lemma alookup_None_notin (k : K) (l : list (K * V)) :
    alookup keqb k l = None -> ~ In k (map fst l).
  Proof.
    induction l as [|[x w] t IH]; simpl; [tauto|].
    destruct (keqb k x) eqn:E; [discriminate|].
    intros H [Hx | Hin]; [subst; rewrite keqb_refl in E; discriminate | exact (IH H Hin)].
  Qed.

  Lemma notin_alookup_None (k : K) (l : list (K * V)) :
    ~ In k (map fst l) -> alookup keqb k l = None.
  Proof.
    induction l as [|[x w] t IH]; simpl; [reflexivity|].
    intro H. destruct (keqb k x) eqn:E.
    - apply keqb_spec in E. subst. tauto.
    - apply IH. tauto.
  Qed.

  (** keys stay duplicate-free *)
  Lemma aremove_keys_incl (k x : K) (l : list (K * V)) :
    In x (map fst (aremove keqb k l)) -> In x (map fst l) /\ x <> k.
  Proof.
    induction l as [|[y w] t IH]; simpl; [tauto|].
    destruct (keqb k y) eqn:E.
    - intro H. destruct (IH H). tauto.
    - simpl. intros [Hy | H].
      + subst. split; [tauto|]. intro; subst. rewrite keqb_refl in E. discriminate.
      + destruct (IH H). tauto.
  Qed.

  Lemma aremove_NoDup (k : K) (l : list (K * V)) :
    NoDup (map fst l) -> NoDup (map fst (aremove keqb k l)).
  Proof.
    induction l as [|[y w] t IH]; simpl; intro H; [constructor|].
    inversion H as [|? ? Hn Hd]; subst.
    destruct (keqb k y); [apply IH; exact Hd|].
    simpl. constructor; [| apply IH; exact Hd].
    intro Hin. apply aremove_keys_incl in Hin. tauto.
  Qed.

  Lemma aset_NoDup (k : K) (v : V) (l : list (K * V)) :
    NoDup (map fst l) -> NoDup (map fst (aset keqb k v l)).
  Proof.
    intro H. unfold aset. simpl. constructor; [| apply aremove_NoDup; exact H].
    intro Hin. apply aremove_keys_incl in Hin. tauto.
  Qed.

  (** with duplicate-free keys, filtering commutes with lookup *)
  Lemma alookup_filter (P : K * V -> bool) (k : K) (l : list (K * V)) :
    NoDup (map fst l) ->
    alookup keqb k (filter P l) =
    match alookup keqb k l with
    | Some v => if P (k, v) then Some v else None
    | None => None
    end.
  Proof.
    induction l as [|[x w] t IH]; simpl; intro H; [reflexivity|].
    inversion H as [|? ? Hn Hd]; subst.
    destruct (keqb k x) eqn:E.
    - apply keqb_spec in E. subst x.
      destruct (P (k, w)) eqn:EP; simpl.
      + rewrite keqb_refl. reflexivity.
      + rewrite IH by exact Hd. rewrite (notin_alookup_None k t Hn). reflexivity.
    - destruct (P (x, w)); simpl; [rewrite E|]; apply IH; exact Hd.
  Qed.

  Lemma alookup_map_snd {W} (f : K -> V -> W) (k : K) (l : list (K * V)) :
    alookup keqb k (map (fun kv => (fst kv, f (fst kv) (snd kv))) l) =
    match alookup keqb k l with Some v => Some (f k v) | None => None end.
  Proof.
    induction l as [|[x w] t IH]; simpl; [reflexivity|].
    destruct (keqb k x) eqn:E; [apply keqb_spec in E; subst; reflexivity | exact IH].
  Qed.

  Lemma filter_keys_NoDup (P : K * V -> bool) (l : list (K * V)) :
    NoDup (map fst l) -> NoDup (map fst (filter P l)).
  Proof.
    induction l as [|[x w] t IH]; simpl; intro H; [constructor|].
    inversion H as [|? ? Hn Hd]; subst.
    destruct (P (x, w)); simpl; [constructor|]; try (apply IH; exact Hd).
    intro Hin. apply Hn. clear - Hin. induction t as [|[y u] t IH]; simpl in *; [tauto|].
    destruct (P (y, u)); simpl in *; tauto.
  Qed.
End AssocFacts.

(** instances *)
Lemma aget_aput {V} (a a' : N) (v : V) l : aget a' (aput a v l) = if a' =? a then Some v else aget a' l.
Proof. apply (alookup_aset N.eqb N_eqb_spec). Qed.
Lemma aget_adel {V} (a a' : N) (l : list (N * V)) : aget a' (adel a l) = if a' =? a then None else aget a' l.
Proof. apply (alookup_aremove N.eqb N_eqb_spec). Qed.
Lemma kget_kput {V} (k k' : bytes) (v : V) l : kget k' (kput k v l) = if bytes_eqb k' k then Some v else kget k' l.
Proof. apply (alookup_aset bytes_eqb bytes_eqb_spec). Qed.
Lemma kget_kdel {V} (k k' : bytes) (l : list (bytes * V)) : kget k' (kdel k l) = if bytes_eqb k' k then None else kget k' l.
Proof. apply (alookup_aremove bytes_eqb bytes_eqb_spec). Qed.
Lemma sget_sput {V} (k k' : N * bytes) (v : V) l : sget k' (sput k v l) = if sk_eqb k' k then Some v else sget k' l.
Proof. apply (alookup_aset sk_eqb sk_eqb_spec). Qed.
Lemma sget_sdel {V} (k k' : N * bytes) (l : list ((N * bytes) * V)) : sget k' (sdel k l) = if sk_eqb k' k then None else sget k' l.
Proof. apply (alookup_aremove sk_eqb sk_eqb_spec). Qed.

Lemma sk_eqb_pair (a a' : N) (k k' : bytes) : sk_eqb (a', k') (a, k) = (a' =? a) && bytes_eqb k' k.
Proof. reflexivity. Qed.

(** * folds that write a list of bindings into a map: the first binding of a key wins *)
Lemma kget_fold_kput {V} (k : bytes) (l init : list (bytes * V)) :
  kget k (fold_right (fun (kv : bytes * V) acc => kput (fst kv) (snd kv) acc) init l) =
  match kget k l with Some v => Some v | None => kget k init end.
Proof.
  induction l as [|[x v] t IH]; cbn [fold_right fst snd]; [reflexivity|].
  rewrite kget_kput. change (kget k ((x, v) :: t)) with (if bytes_eqb k x then Some v else kget k t).
  destruct (bytes_eqb k x); [reflexivity | exact IH].
Qed.

(** * insertion sort *)
Section SortFacts.
  Context {A : Type} (leb : A -> A -> bool).

  Lemma insert_perm x l : Permutation (insert leb x l) (x :: l).
  Proof.
    induction l as [|y t IH]; simpl; [reflexivity|].
    destruct (leb x y); [reflexivity|].
    rewrite IH. apply perm_swap.
  Qed.

  Lemma isort_perm l : Permutation (isort leb l) l.
  Proof.
    induction l as [|x t IH]; simpl; [reflexivity|].
    rewrite insert_perm. constructor. exact IH.
  Qed.

  Lemma isort_In x l : In x (isort leb l) <-> In x l.
  Proof. split; apply Permutation_in; [| symmetry]; apply isort_perm. Qed.

  Hypothesis leb_total : forall x y, leb x y = true \/ leb y x = true.
  Hypothesis leb_trans : forall x y z, leb x y = true -> leb y z = true -> leb x z = true.

  Definition lebP (x y : A) : Prop := leb x y = true.

  Lemma insert_sorted x l : StronglySorted lebP l -> StronglySorted lebP (insert leb x l).
  Proof.
    induction l as [|y t IH]; simpl; intro H.
    - constructor; [constructor | constructor].
    - inversion H as [|? ? Hs Hf]; subst.
      destruct (leb x y) eqn:E.
      + constructor; [exact H|]. constructor; [exact E|].
        eapply Forall_impl; [| exact Hf]. intros z Hz. eapply leb_trans; eassumption.
      + constructor; [apply IH; exact Hs|].
        assert (Hyx : leb y x = true) by (destruct (leb_total x y); congruence).
        apply Forall_forall. intros z Hz.
        apply (Permutation_in _ (insert_perm x t)) in Hz. destruct Hz as [<- | Hz]; [exact Hyx|].
        rewrite Forall_forall in Hf. apply Hf. exact Hz.
  Qed.

  Lemma isort_sorted l : StronglySorted lebP (isort leb l).
  Proof. induction l as [|x t IH]; simpl; [constructor | apply insert_sorted; exact IH]. Qed.

  (** a sorted list is determined by its elements when the order is antisymmetric *)
  Hypothesis leb_antisym : forall x y, leb x y = true -> leb y x = true -> x = y.

  Lemma sorted_perm_eq l1 : forall l2,
    StronglySorted lebP l1 -> StronglySorted lebP l2 -> Permutation l1 l2 -> l1 = l2.
  Proof.
    induction l1 as [|x t IH]; intros l2 S1 S2 P.
    - apply Permutation_nil in P. subst. reflexivity.
    - destruct l2 as [|y u]; [apply Permutation_sym, Permutation_nil in P; discriminate|].
      inversion S1 as [|? ? S1' F1]; inversion S2 as [|? ? S2' F2]; subst.
      assert (x = y).
      { assert (Hx : In x (y :: u)) by (apply (Permutation_in _ P); left; reflexivity).
        assert (Hy : In y (x :: t)) by (apply (Permutation_in _ (Permutation_sym P)); left; reflexivity).
        rewrite Forall_forall in F1, F2.
        destruct Hx as [-> | Hx]; [reflexivity|]. destruct Hy as [-> | Hy]; [reflexivity|].
        apply leb_antisym; [apply F1; exact Hy | apply F2; exact Hx]. }
      subst y. f_equal. apply IH; try assumption. apply Permutation_cons_inv in P. exact P.
  Qed.

  Lemma isort_perm_eq l1 l2 : Permutation l1 l2 -> isort leb l1 = isort leb l2.
  Proof.
    intro P. apply sorted_perm_eq; try apply isort_sorted.
    rewrite !isort_perm. exact P.
  Qed.
End SortFacts.

(** byte-wise lexicographic order is a total order *)
Lemma bytes_ltb_irrefl a : bytes_ltb a a = false.
Proof. induction a as [|x t IH]; simpl; [reflexivity|]. rewrite N.ltb_irrefl. exact IH. Qed.

Lemma bytes_ltb_trans : forall a b c, bytes_ltb a b = true -> bytes_ltb b c = true -> bytes_ltb a c = true.
Proof.
  induction a as [|x a IH]; intros [|y b] [|z c]; simpl; try discriminate; try reflexivity.
  destruct (x <? y) eqn:E1, (y <? x) eqn:E2, (y <? z) eqn:E3, (z <? y) eqn:E4,
           (x <? z) eqn:E5, (z <? x) eqn:E6; try discriminate; try reflexivity;
    rewrite ?N.ltb_lt, ?N.ltb_ge in *; try lia; try apply IH.
Qed.

Lemma bytes_ltb_total : forall a b, bytes_ltb a b = true \/ bytes_ltb b a = true \/ a = b.
Proof.
  induction a as [|x a IH]; intros [|y b]; simpl; auto.
  destruct (x <? y) eqn:E1, (y <? x) eqn:E2; auto.
  rewrite N.ltb_ge in *. assert (x = y) by lia. subst.
  destruct (IH b) as [H | [H | H]]; auto. subst. auto.
Qed.

Lemma bytes_ltb_asym : forall a b, bytes_ltb a b = true -> bytes_ltb b a = false.
Proof.
  induction a as [|x a IH]; intros [|y b]; simpl; try discriminate; try reflexivity.
  destruct (x <? y) eqn:E1, (y <? x) eqn:E2; try discriminate; try reflexivity;
    rewrite ?N.ltb_lt, ?N.ltb_ge in *; try lia; try apply IH.
Qed.

Lemma bytes_leb_total a b : bytes_leb a b = true \/ bytes_leb b a = true.
Proof.
  unfold bytes_leb. destruct (bytes_ltb_total a b) as [H | [H | H]].
  - left. rewrite (bytes_ltb_asym _ _ H). reflexivity.
  - right. rewrite (bytes_ltb_asym _ _ H). reflexivity.
  - subst. left. rewrite bytes_ltb_irrefl. reflexivity.
Qed.

Lemma bytes_leb_antisym a b : bytes_leb a b = true -> bytes_leb b a = true -> a = b.
Proof.
  unfold bytes_leb. intros H1 H2. apply negb_true_iff in H1, H2.
  destruct (bytes_ltb_total a b) as [H | [H | H]]; congruence.
Qed.

Lemma bytes_leb_trans a b c : bytes_leb a b = true -> bytes_leb b c = true -> bytes_leb a c = true.
Proof.
  unfold bytes_leb. intros H1 H2. apply negb_true_iff in H1, H2. apply negb_true_iff.
  destruct (bytes_ltb c a) eqn:E; [| reflexivity].
  destruct (bytes_ltb_total a b) as [H | [H | H]].
  - rewrite (bytes_ltb_trans _ _ _ E H) in H2. discriminate.
  - congruence.
  - subst. congruence.
Qed.

(** keep the map operations folded under [simpl] *)
#[global] Arguments aget : simpl never.
#[global] Arguments aput : simpl never.
#[global] Arguments adel : simpl never.
#[global] Arguments kget : simpl never.
#[global] Arguments kput : simpl never.
#[global] Arguments kdel : simpl never.
#[global] Arguments sget : simpl never.
#[global] Arguments sput : simpl never.
#[global] Arguments sdel : simpl never.
