(** Reflection of the four boolean trace predicates: each [c0x_b] is the boolean form of an
    inductively defined trace property (one constructor per kind of history item), so what the judge
    evaluates on implementation traces is exactly the stated property. *)
From BX Require Import Base.Prelude Base.Fsm Model.TxFsm Model.TxMgr Model.Interchain Model.IbtpExec Model.IbtpMon.
Local Open Scope N_scope.

(** * C04 *)
Inductive C04_trace (w : world) (q : query) : N -> c4s -> c6s -> list item -> list bobs -> Prop :=
| c4t_nil h a e : C04_trace w q h a e [] []
| c4t_restart h a e r tr : C04_trace w q h a e r tr -> C04_trace w q h a e (IRestart :: r) tr
| c4t_block h a e ops r ob tr a' :
    (* replaying the accepted events of the block through the table, then the announced expiries, then the
       expiries that are due (registered at this height, no accepted receipt, still BEGIN) succeeds ... *)
    c4_expiries (h + 1) (c6_txs w (h + 1) e ops (o_rc ob)) (c4_timeouts (c4_txs w (Some a) ops (o_rc ob)) ob) = Some a' ->
    (* ... and every queried one-to-one id reports exactly the replayed status *)
    c4_check q a' ob = true ->
    C04_trace w q (h + 1) a' (c6_txs w (h + 1) e ops (o_rc ob)) r tr -> C04_trace w q h a e (IBlock ops :: r) (ob :: tr).

Lemma c04_go_spec w q : forall items h a e tr, c04_go w q h a e items tr = true <-> C04_trace w q h a e items tr.
Proof.
  induction items as [|it r IH]; intros h a e tr.
  - simpl. destruct tr; split; intro H; try discriminate; try constructor; inversion H.
  - destruct it as [ops|]; simpl.
    + destruct tr as [|ob tr']; [split; [discriminate | intro H; inversion H]|].
      destruct (c4_expiries (h + 1) (c6_txs w (h + 1) e ops (o_rc ob)) (c4_timeouts (c4_txs w (Some a) ops (o_rc ob)) ob)) as [a'|] eqn:E.
      * rewrite andb_true_iff, IH. split.
        -- intros [H1 H2]. eapply c4t_block; eauto.
        -- intro H. inversion H; subst. match goal with Hx : c4_expiries _ _ _ = Some _ |- _ => rewrite E in Hx; inversion Hx; subst end. auto.
      * split; [discriminate|]. intro H. inversion H; subst. match goal with Hx : c4_expiries _ _ _ = Some _ |- _ => rewrite E in Hx; discriminate end.
    + rewrite IH. split; [intro H; constructor; exact H | intro H; inversion H; assumption].
Qed.
Theorem c04_b_spec w q items tr : c04_b w q items tr = true <-> C04_trace w q 2 c4_init c6_init items tr.
Proof. apply c04_go_spec. Qed.

(** * C02 *)
Inductive C02_trace (w : world) (q : query) : N -> c2s -> option bobs -> list item -> list bobs -> Prop :=
| c2t_nil h a p : C02_trace w q h a p [] []
| c2t_restart h a p r tr : C02_trace w q h a p r tr -> C02_trace w q h a p (IRestart :: r) tr
| c2t_block h a p ops r ob tr a' n :
    (* every accepted request carries the next index of its pair and is listed for its destination in
       this block's Counter, every accepted receipt belongs to an accepted, not yet finalised request,
       no rejected transaction is listed *)
    c2_txs w (h + 1) p ob (Some (a, 0)) ops (o_rc ob) = Some (a', n) ->
    (* the counters read back equal the accepted requests, are mirrored, and the index maps hold
       exactly the accepted ids *)
    c2_check w q a' p ob = true ->
    C02_trace w q (h + 1) a' (Some ob) r tr -> C02_trace w q h a p (IBlock ops :: r) (ob :: tr).

Lemma c02_go_spec w q : forall items h a p tr, c02_go w q h a p items tr = true <-> C02_trace w q h a p items tr.
Proof.
  induction items as [|it r IH]; intros h a p tr.
  - simpl. destruct tr; split; intro H; try discriminate; try constructor; inversion H.
  - destruct it as [ops|]; simpl.
    + destruct tr as [|ob tr']; [split; [discriminate | intro H; inversion H]|].
      destruct (c2_txs w (h + 1) p ob (Some (a, 0)) ops (o_rc ob)) as [[a' n]|] eqn:E.
      * rewrite andb_true_iff, IH. split.
        -- intros [H1 H2]. eapply c2t_block; eauto.
        -- intro H. inversion H; subst. match goal with Hx : c2_txs _ _ _ _ _ _ _ = Some _ |- _ => rewrite E in Hx; inversion Hx; subst end. auto.
      * split; [discriminate|]. intro H. inversion H; subst. match goal with Hx : c2_txs _ _ _ _ _ _ _ = Some _ |- _ => rewrite E in Hx; discriminate end.
    + rewrite IH. split; [intro H; constructor; exact H | intro H; inversion H; assumption].
Qed.
Theorem c02_b_spec w q items tr : c02_b w q items tr = true <-> C02_trace w q 2 c2_init None items tr.
Proof. apply c02_go_spec. Qed.

(** * C05 *)
Inductive C05_trace (w : world) (q : query) (all : list item) : N -> option bobs -> list item -> list bobs -> Prop :=
| c5t_nil h p : C05_trace w q all h p [] []
| c5t_restart h p r tr : C05_trace w q all h p r tr -> C05_trace w q all h p (IRestart :: r) tr
| c5t_block h p ops r ob tr :
    (* for every queried group: its record holds only requests of the history [all] that carry this group;
       SUCCESS only with all declared children SUCCESS; failure family => every child in it; never SUCCESS after
       a failure; not BEGIN from the block of its timeout height on; in the failing block the notifications are
       complete *)
    (forall g, In g (q_gids q) -> c5_check w q all (h + 1) ops p ob g = true) ->
    C05_trace w q all (h + 1) (Some ob) r tr -> C05_trace w q all h p (IBlock ops :: r) (ob :: tr).

Lemma c05_go_spec w q all : forall items h p tr, c05_go w q all h p items tr = true <-> C05_trace w q all h p items tr.
Proof.
  induction items as [|it r IH]; intros h p tr.
  - simpl. destruct tr; split; intro H; try discriminate; try constructor; inversion H.
  - destruct it as [ops|]; simpl.
    + destruct tr as [|ob tr']; [split; [discriminate | intro H; inversion H]|].
      rewrite andb_true_iff, IH, forallb_forall. split.
      * intros [H1 H2]. constructor; assumption.
      * intro H. inversion H; subst. auto.
    + rewrite IH. split; [intro H; constructor; exact H | intro H; inversion H; assumption].
Qed.
Theorem c05_b_spec w q items tr : c05_b w q items tr = true <-> C05_trace w q items 2 None items tr.
Proof. apply c05_go_spec. Qed.

(** * C06 *)
Inductive C06_trace (w : world) (q : query) : N -> c6s -> option bobs -> list item -> list bobs -> Prop :=
| c6t_nil h a p : C06_trace w q h a p [] []
| c6t_restart h a p r tr : C06_trace w q h a p r tr -> C06_trace w q h a p (IRestart :: r) tr
| c6t_block h a p ops r ob tr :
    (* with the registrations / receipts of this block taken into account: a registered id is listed
       (once, under its source chain, status BEGIN_ROLLBACK) iff this block is its H+T and no receipt was
       accepted; ids that must never time out are not listed; nothing unknown is listed; group children
       only at the group's height, and a group at its height does not stay BEGIN *)
    c6_check w q (h + 1) (c6_txs w (h + 1) a ops (o_rc ob)) p ob = true ->
    C06_trace w q (h + 1) (c6_txs w (h + 1) a ops (o_rc ob)) (Some ob) r tr ->
    C06_trace w q h a p (IBlock ops :: r) (ob :: tr).

Lemma c06_go_spec w q : forall items h a p tr, c06_go w q h a p items tr = true <-> C06_trace w q h a p items tr.
Proof.
  induction items as [|it r IH]; intros h a p tr.
  - simpl. destruct tr; split; intro H; try discriminate; try constructor; inversion H.
  - destruct it as [ops|]; simpl.
    + destruct tr as [|ob tr']; [split; [discriminate | intro H; inversion H]|].
      rewrite andb_true_iff, IH. split.
      * intros [H1 H2]. constructor; assumption.
      * intro H. inversion H; subst. auto.
    + rewrite IH. split; [intro H; constructor; exact H | intro H; inversion H; assumption].
Qed.
Theorem c06_b_spec w q items tr : c06_b w q items tr = true <-> C06_trace w q 2 c6_init None items tr.
Proof. apply c06_go_spec. Qed.
