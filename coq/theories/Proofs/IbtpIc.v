(** Effect of [notify_src_dst] / [process_ibtp] on the interchain-contract state. *)
From BX Require Import Base.Prelude Base.Fsm Model.TxFsm Model.TxMgr Model.Interchain Model.IbtpExec
     Proofs.TxFsmProofs Proofs.IbtpBasics Proofs.IbtpStep.
From Coq Require Import String ZifyBool ZifyN ZifyNat.
Local Open Scope N_scope.

Lemma get_rec_put_same c k r : get_rec (put_rec c k r) k = r.
Proof. unfold get_rec, put_rec. simpl. rewrite updN_same. reflexivity. Qed.
Lemma get_rec_put_other c k r x : x <> k -> get_rec (put_rec c k r) x = get_rec c x.
Proof. intro H. unfold get_rec, put_rec. simpl. rewrite updN_other by exact H. reflexivity. Qed.
Lemma i_rec_put c k r x : i_rec (put_rec c k r) x = if x =? k then Some r else i_rec c x.
Proof. reflexivity. Qed.

(** the four counters as functions of the state *)
Definition IC (c : ichain) (f t : svc) : N := ic_IC (get_rec c f) t.
Definition RC (c : ichain) (f t : svc) : N := ic_RC (get_rec c f) t.
Definition SIC (c : ichain) (t f : svc) : N := ic_SIC (get_rec c t) f.
Definition SRC (c : ichain) (t f : svc) : N := ic_SRC (get_rec c t) f.

(** ** [add_multi] and [notify_src_dst] only touch the multi-tx notify map *)
Lemma add_multi_fields cfg w c h ids toSrc :
  i_rec (add_multi cfg w c h ids toSrc) = i_rec c /\
  i_req (add_multi cfg w c h ids toSrc) = i_req c /\
  i_rcpt (add_multi cfg w c h ids toSrc) = i_rcpt c.
Proof. unfold add_multi. destruct ids; simpl; auto. Qed.

Definition same_core (c c' : ichain) : Prop :=
  i_rec c' = i_rec c /\ i_req c' = i_req c /\ i_rcpt c' = i_rcpt c.
Lemma same_core_add cfg w c c0 h ids toSrc : same_core c c0 -> same_core c (add_multi cfg w c0 h ids toSrc).
Proof.
  intros [A [B C]]. destruct (add_multi_fields cfg w c0 h ids toSrc) as [A' [B' C']].
  unfold same_core. rewrite A', B', C'. auto.
Qed.
Lemma same_core_refl c : same_core c c.
Proof. unfold same_core. auto. Qed.

Lemma notify_fields cfg w c h sf sd ch :
  same_core c (fst (notify_src_dst cfg w c h sf sd ch)).
Proof.
  unfold notify_src_dst. destruct (notify_flags ch) as [ns nd].
  destruct ns, nd; destruct (is_local sf), (is_local sd); cbn [fst snd];
    repeat apply same_core_add; apply same_core_refl.
Qed.

Lemma get_rec_ext c c' : i_rec c' = i_rec c -> forall k, get_rec c' k = get_rec c k.
Proof. intros H k. unfold get_rec. rewrite H. reflexivity. Qed.

(** ** [set_dest] *)
Lemma set_dest_IC c f t x rf f' t' :
  ic_IC rf = ic_IC (get_rec c f) ->
  IC (set_dest c f t x rf) f' t' = IC c f' t'.
Proof.
  intro Hrf. unfold IC, set_dest.
  destruct (N.eq_dec f' t) as [->|Hn1].
  - rewrite get_rec_put_same. simpl.
    destruct (N.eq_dec t f) as [->|Hn2].
    + rewrite get_rec_put_same. simpl. rewrite Hrf. reflexivity.
    + rewrite get_rec_put_other by exact Hn2. reflexivity.
  - rewrite get_rec_put_other by exact Hn1.
    destruct (N.eq_dec f' f) as [->|Hn2].
    + rewrite get_rec_put_same. simpl. rewrite Hrf. reflexivity.
    + rewrite get_rec_put_other by exact Hn2. reflexivity.
Qed.

Lemma set_dest_RC c f t x rf f' t' :
  ic_RC rf = ic_RC (get_rec c f) ->
  RC (set_dest c f t x rf) f' t' = if (f' =? f) && (t' =? t) then x else RC c f' t'.
Proof.
  intro Hrf. unfold RC, set_dest.
  destruct (N.eq_dec f' t) as [->|Hn1].
  - rewrite get_rec_put_same. simpl.
    destruct (N.eq_dec t f) as [->|Hn2].
    + rewrite get_rec_put_same. simpl. rewrite N.eqb_refl. simpl.
      unfold upd. destruct (t' =? f); [reflexivity | rewrite Hrf; reflexivity].
    + rewrite get_rec_put_other by exact Hn2.
      apply N.eqb_neq in Hn2. rewrite Hn2. reflexivity.
  - rewrite get_rec_put_other by exact Hn1.
    destruct (N.eq_dec f' f) as [->|Hn2].
    + rewrite get_rec_put_same. simpl. rewrite N.eqb_refl. simpl.
      unfold upd. destruct (t' =? t); [reflexivity | rewrite Hrf; reflexivity].
    + rewrite get_rec_put_other by exact Hn2. apply N.eqb_neq in Hn2. rewrite Hn2. reflexivity.
Qed.

Lemma set_dest_SIC c f t x rf t' f' :
  ic_SIC rf = ic_SIC (get_rec c f) ->
  SIC (set_dest c f t x rf) t' f' = SIC c t' f'.
Proof.
  intro Hrf. unfold SIC, set_dest.
  destruct (N.eq_dec t' t) as [->|Hn1].
  - rewrite get_rec_put_same. simpl.
    destruct (N.eq_dec t f) as [->|Hn2].
    + rewrite get_rec_put_same. simpl. rewrite Hrf. reflexivity.
    + rewrite get_rec_put_other by exact Hn2. reflexivity.
  - rewrite get_rec_put_other by exact Hn1.
    destruct (N.eq_dec t' f) as [->|Hn2].
    + rewrite get_rec_put_same. simpl. rewrite Hrf. reflexivity.
    + rewrite get_rec_put_other by exact Hn2. reflexivity.
Qed.

Lemma set_dest_SRC c f t x rf t' f' :
  ic_SRC rf = ic_SRC (get_rec c f) ->
  SRC (set_dest c f t x rf) t' f' = if (t' =? t) && (f' =? f) then x else SRC c t' f'.
Proof.
  intro Hrf. unfold SRC, set_dest.
  destruct (N.eq_dec t' t) as [->|Hn1].
  - rewrite get_rec_put_same. simpl. rewrite N.eqb_refl. simpl.
    unfold upd. destruct (f' =? f) eqn:E; [reflexivity|].
    destruct (N.eq_dec t f) as [->|Hn2].
    + rewrite get_rec_put_same. simpl. rewrite Hrf. reflexivity.
    + rewrite get_rec_put_other by exact Hn2. reflexivity.
  - rewrite get_rec_put_other by exact Hn1. apply N.eqb_neq in Hn1. rewrite Hn1. simpl.
    destruct (N.eq_dec t' f) as [->|Hn2].
    + rewrite get_rec_put_same. simpl. rewrite Hrf. reflexivity.
    + rewrite get_rec_put_other by exact Hn2. reflexivity.
Qed.

Lemma set_dest_fields c f t x rf :
  i_req (set_dest c f t x rf) = i_req c /\ i_rcpt (set_dest c f t x rf) = i_rcpt c /\
  i_multi (set_dest c f t x rf) = i_multi c.
Proof. unfold set_dest. simpl. auto. Qed.

Lemma set_dest_rec_mono c f t x rf k : i_rec c k <> None -> i_rec (set_dest c f t x rf) k <> None.
Proof.
  unfold set_dest. simpl. unfold upd. intro H.
  destruct (k =? t); [discriminate|]. destruct (k =? f); [discriminate | exact H].
Qed.
Lemma set_dest_rec_new c f t x rf :
  i_rec (set_dest c f t x rf) f <> None /\ i_rec (set_dest c f t x rf) t <> None.
Proof.
  unfold set_dest. simpl. unfold upd. rewrite !N.eqb_refl.
  split; [destruct (f =? t); discriminate | discriminate].
Qed.

(** ** the request branch of [process_ibtp] *)
Definition req_step (c : ichain) (b : ibtp) (rec : icrec) (serial : N) : ichain :=
  let rf := Build_icrec (upd N.eqb (ic_IC rec) (b_to b) (wrap64 (ic_IC rec (b_to b) + 1)))
                        (ic_RC rec) (ic_SIC rec) (ic_SRC rec) in
  let c1 := put_req (put_rec c (b_from b) rf) (b_id b) serial in
  let rt := get_rec c1 (b_to b) in
  put_rec c1 (b_to b) (Build_icrec (ic_IC rt) (ic_RC rt) (upd N.eqb (ic_SIC rt) (b_from b) (b_idx b)) (ic_SRC rt)).

Lemma get_rec_put_req c i s k : get_rec (put_req c i s) k = get_rec c k.
Proof. reflexivity. Qed.

Lemma req_step_IC c b serial f' t' :
  IC (req_step c b (get_rec c (b_from b)) serial) f' t' =
  if (f' =? b_from b) && (t' =? b_to b) then wrap64 (IC c (b_from b) (b_to b) + 1) else IC c f' t'.
Proof.
  unfold IC, req_step. cbv zeta.
  destruct (N.eq_dec f' (b_to b)) as [->|Hn1].
  - rewrite get_rec_put_same. simpl. rewrite get_rec_put_req.
    destruct (N.eq_dec (b_to b) (b_from b)) as [E|Hn2].
    + rewrite E. rewrite get_rec_put_same. simpl. rewrite N.eqb_refl. simpl.
      unfold upd. rewrite <- E. destruct (t' =? b_to b); reflexivity.
    + rewrite get_rec_put_other by exact Hn2. apply N.eqb_neq in Hn2. rewrite Hn2. reflexivity.
  - rewrite get_rec_put_other by exact Hn1. rewrite get_rec_put_req.
    destruct (N.eq_dec f' (b_from b)) as [->|Hn2].
    + rewrite get_rec_put_same. simpl. rewrite N.eqb_refl. simpl. unfold upd.
      destruct (t' =? b_to b); reflexivity.
    + rewrite get_rec_put_other by exact Hn2. apply N.eqb_neq in Hn2. rewrite Hn2. reflexivity.
Qed.

Lemma req_step_RC c b serial f' t' :
  RC (req_step c b (get_rec c (b_from b)) serial) f' t' = RC c f' t'.
Proof.
  unfold RC, req_step. cbv zeta.
  destruct (N.eq_dec f' (b_to b)) as [->|Hn1].
  - rewrite get_rec_put_same. simpl. rewrite get_rec_put_req.
    destruct (N.eq_dec (b_to b) (b_from b)) as [E|Hn2].
    + rewrite E. rewrite get_rec_put_same. reflexivity.
    + rewrite get_rec_put_other by exact Hn2. reflexivity.
  - rewrite get_rec_put_other by exact Hn1. rewrite get_rec_put_req.
    destruct (N.eq_dec f' (b_from b)) as [->|Hn2].
    + rewrite get_rec_put_same. reflexivity.
    + rewrite get_rec_put_other by exact Hn2. reflexivity.
Qed.

Lemma req_step_SIC c b serial t' f' :
  SIC (req_step c b (get_rec c (b_from b)) serial) t' f' =
  if (t' =? b_to b) && (f' =? b_from b) then b_idx b else SIC c t' f'.
Proof.
  unfold SIC, req_step. cbv zeta.
  destruct (N.eq_dec t' (b_to b)) as [->|Hn1].
  - rewrite get_rec_put_same. simpl. rewrite N.eqb_refl. simpl. unfold upd.
    destruct (f' =? b_from b); [reflexivity|]. rewrite get_rec_put_req.
    destruct (N.eq_dec (b_to b) (b_from b)) as [E|Hn2].
    + rewrite E. rewrite get_rec_put_same. reflexivity.
    + rewrite get_rec_put_other by exact Hn2. reflexivity.
  - rewrite get_rec_put_other by exact Hn1. rewrite get_rec_put_req.
    apply N.eqb_neq in Hn1. rewrite Hn1. simpl. apply N.eqb_neq in Hn1.
    destruct (N.eq_dec t' (b_from b)) as [->|Hn2].
    + rewrite get_rec_put_same. reflexivity.
    + rewrite get_rec_put_other by exact Hn2. reflexivity.
Qed.

Lemma req_step_SRC c b serial t' f' :
  SRC (req_step c b (get_rec c (b_from b)) serial) t' f' = SRC c t' f'.
Proof.
  unfold SRC, req_step. cbv zeta.
  destruct (N.eq_dec t' (b_to b)) as [->|Hn1].
  - rewrite get_rec_put_same. simpl. rewrite get_rec_put_req.
    destruct (N.eq_dec (b_to b) (b_from b)) as [E|Hn2].
    + rewrite E. rewrite get_rec_put_same. reflexivity.
    + rewrite get_rec_put_other by exact Hn2. reflexivity.
  - rewrite get_rec_put_other by exact Hn1. rewrite get_rec_put_req.
    destruct (N.eq_dec t' (b_from b)) as [->|Hn2].
    + rewrite get_rec_put_same. reflexivity.
    + rewrite get_rec_put_other by exact Hn2. reflexivity.
Qed.

Lemma req_step_fields c b rec serial :
  i_req (req_step c b rec serial) = upd txid_eqb (i_req c) (b_id b) (Some serial) /\
  i_rcpt (req_step c b rec serial) = i_rcpt c /\ i_multi (req_step c b rec serial) = i_multi c.
Proof. unfold req_step. simpl. auto. Qed.

Lemma req_step_rec_new c b rec serial :
  i_rec (req_step c b rec serial) (b_from b) <> None /\ i_rec (req_step c b rec serial) (b_to b) <> None.
Proof.
  unfold req_step. simpl. unfold upd. rewrite !N.eqb_refl.
  split; [destruct (b_from b =? b_to b); discriminate | discriminate].
Qed.
Lemma req_step_rec_mono c b rec serial k : i_rec c k <> None -> i_rec (req_step c b rec serial) k <> None.
Proof.
  unfold req_step. simpl. unfold upd. intro H.
  destruct (k =? b_to b); [discriminate|]. destruct (k =? b_from b); [discriminate | exact H].
Qed.
