(** Restart invariance (C06): a node restart at any point of a history changes nothing observable.

    A restart only forgets timeout keys that lived in the node's account cache with the empty value
    ([s_ph]).  Two states that agree on everything except "key absent" versus "key present with the
    empty string" — and only at keys whose committed view is absent — are related by [sim]; every
    block maps related states to related states and produces the same block metadata and the same
    observation.  This is a relational (two-run) argument through the whole block function; it holds
    for every configuration in which [addToTimeoutList] treats the empty string like a missing key
    ([d_tl_empty_head] off — the repaired code). *)
From BX Require Import Base.Prelude Model.TxFsm Model.TxMgr Model.Interchain Model.IbtpExec.
Local Open Scope N_scope.

Ltac csplit := repeat match goal with |- _ /\ _ => split end.

Definition emp (o : option (list tok)) : Prop := o = None \/ o = Some [TEmpty].
Definition tleq (P : N -> Prop) (x : N) (o1 o2 : option (list tok)) : Prop :=
  o1 = o2 \/ (P x /\ emp o1 /\ emp o2).

Definition treq (P : N -> Prop) (t1 t2 : txm) : Prop :=
  tm_rec t1 = tm_rec t2 /\ tm_glob t1 = tm_glob t2 /\ tm_child t1 = tm_child t2 /\
  forall x, tleq P x (tm_tl t1 x) (tm_tl t2 x).

Lemma treq_refl P t : treq P t t.
Proof. unfold treq, tleq. csplit; auto. Qed.

Lemma treq_set_rec P t1 t2 i r : treq P t1 t2 -> treq P (set_rec t1 i r) (set_rec t2 i r).
Proof. intros (Hr & Hg & Hc & Hl). unfold treq, set_rec. cbn [tm_rec tm_glob tm_child tm_tl]. rewrite Hr. csplit; auto. Qed.
Lemma treq_set_glob P t1 t2 g gi : treq P t1 t2 -> treq P (set_glob t1 g gi) (set_glob t2 g gi).
Proof. intros (Hr & Hg & Hc & Hl). unfold treq, set_glob. cbn [tm_rec tm_glob tm_child tm_tl]. rewrite Hg. csplit; auto. Qed.
Lemma treq_set_child P t1 t2 i g : treq P t1 t2 -> treq P (set_child t1 i g) (set_child t2 i g).
Proof. intros (Hr & Hg & Hc & Hl). unfold treq, set_child. cbn [tm_rec tm_glob tm_child tm_tl]. rewrite Hc. csplit; auto. Qed.

Lemma treq_set_tl P t1 t2 h l : treq P t1 t2 -> treq P (set_tl t1 h l) (set_tl t2 h l).
Proof.
  intros (Hr & Hg & Hc & Hl). unfold treq, set_tl. cbn [tm_rec tm_glob tm_child tm_tl]. csplit; auto.
  intro x. unfold upd. destruct (N.eqb x h); [left; reflexivity | apply Hl].
Qed.

(** the timeout-list primitives do not distinguish a missing key from the empty string *)
Lemma emp_cases o : emp o -> o = None \/ o = Some [TEmpty].
Proof. exact (fun H => H). Qed.

Lemma treq_add_timeout cfg P t1 t2 h x : d_tl_empty_head cfg = false ->
  treq P t1 t2 -> treq P (tm_add_timeout cfg t1 h x) (tm_add_timeout cfg t2 h x).
Proof.
  intros Hc T. pose proof T as (Hr & Hg & Hch & Hl).
  unfold tm_add_timeout. rewrite Hc. destruct (Hl h) as [E | (_ & E1 & E2)].
  - rewrite E. destruct (tm_tl t2 h) as [l|]; [destruct (tl_is_empty_str l && negb false)|]; apply treq_set_tl; exact T.
  - destruct E1 as [E1 | E1], E2 as [E2 | E2]; rewrite E1, E2; cbn; apply treq_set_tl; exact T.
Qed.

Definition orel {A} (R : A -> A -> Prop) (o1 o2 : option A) : Prop :=
  match o1, o2 with
  | Some a, Some b => R a b
  | None, None => True
  | _, _ => False
  end.

Lemma treq_remove_timeout P t1 t2 h x :
  treq P t1 t2 -> orel (treq P) (tm_remove_timeout t1 h x) (tm_remove_timeout t2 h x).
Proof.
  intros T. pose proof T as (Hr & Hg & Hch & Hl).
  unfold tm_remove_timeout. destruct (Hl h) as [E | (Px & E1 & E2)].
  - rewrite E. destruct (tm_tl t2 h) as [l|]; [|exact T].
    destruct (tl_remove x l); cbn; [apply treq_set_tl; exact T | exact I].
  - assert (R : tl_remove x [TEmpty] = Some [TEmpty]).
    { unfold tl_remove. cbn. destruct (tok_eqb x TEmpty); reflexivity. }
    assert (K : forall t, treq P t1 t -> tm_tl t h = Some [TEmpty] \/ tm_tl t h = None -> True) by auto.
    clear K.
    destruct E1 as [E1 | E1], E2 as [E2 | E2]; rewrite E1, E2; try rewrite R; cbn.
    + exact T.
    + (* t1 absent, t2 empty string: t2 gets the empty string written again *)
      destruct T as (A & B & C & D). unfold treq, set_tl. cbn [tm_rec tm_glob tm_child tm_tl]. csplit; auto.
      intro y. unfold upd. destruct (N.eqb y h) eqn:Ey.
      * apply N.eqb_eq in Ey. subst y. right. rewrite E1. unfold emp. csplit; auto.
      * apply D.
    + destruct T as (A & B & C & D). unfold treq, set_tl. cbn [tm_rec tm_glob tm_child tm_tl]. csplit; auto.
      intro y. unfold upd. destruct (N.eqb y h) eqn:Ey.
      * apply N.eqb_eq in Ey. subst y. right. rewrite E2. unfold emp. csplit; auto.
      * apply D.
    + apply treq_set_tl. exact T.
Qed.

(** * transaction manager entry points *)
Definition tmrel (P : N -> Prop) (r1 r2 : tmres) : Prop :=
  match r1, r2 with
  | TmOk t1 c1, TmOk t2 c2 => treq P t1 t2 /\ c1 = c2
  | TmErr e1, TmErr e2 => e1 = e2
  | _, _ => False
  end.

Lemma tmrel_begin P t1 t2 cur i T f : treq P t1 t2 -> tmrel P (tm_begin t1 cur i T f) (tm_begin t2 cur i T f).
Proof. intro H. unfold tm_begin. cbn. split; [apply treq_set_rec; exact H | reflexivity]. Qed.

Lemma tmrel_begin_interbxh cfg P t1 t2 cur i T x f :
  treq P t1 t2 -> tmrel P (tm_begin_interbxh cfg t1 cur i T x f) (tm_begin_interbxh cfg t2 cur i T x f).
Proof.
  intro H. pose proof H as (Hr & _). unfold tm_begin_interbxh. rewrite Hr.
  destruct (tm_rec t2 i) as [[hh st0]|].
  - destruct (set_fsm _ _); cbn; [split; [apply treq_set_rec; exact H | reflexivity] | reflexivity].
  - cbn. split; [apply treq_set_rec; exact H | reflexivity].
Qed.

Lemma tmrel_begin_multi cfg P sorted t1 t2 cur g i T f n : d_tl_empty_head cfg = false ->
  treq P t1 t2 ->
  orel (tmrel P) (tm_begin_multi cfg sorted t1 cur g i T f n) (tm_begin_multi cfg sorted t2 cur g i T f n).
Proof.
  intros Hc H. pose proof H as (Hr & Hg & Hch & Hl). unfold tm_begin_multi. rewrite Hg.
  destruct (tm_glob t2 g) as [gi|].
  - destruct (child_lookup i (g_children gi)); [cbn; reflexivity|].
    destruct (negb (g_state gi =? ST_BEGIN)).
    + destruct (is_final (g_state gi) && negb (d_late_child cfg)); cbn; [reflexivity|].
      split; [apply treq_set_child, treq_set_glob; exact H | reflexivity].
    + destruct f.
      * pose proof (treq_remove_timeout P t1 t2 (g_height gi) (TGid g) H) as R.
        destruct (tm_remove_timeout t1 (g_height gi) (TGid g)), (tm_remove_timeout t2 (g_height gi) (TGid g)); cbn in R |- *; try contradiction; auto.
        split; [apply treq_set_child, treq_set_glob; exact R | reflexivity].
      * cbn. split; [apply treq_set_child, treq_set_glob; exact H | reflexivity].
  - cbn. split; [|reflexivity]. apply treq_set_child, treq_set_glob.
    destruct f; [exact H | apply treq_add_timeout; assumption].
Qed.

Lemma tmrel_report cfg P sorted t1 t2 i r :
  treq P t1 t2 -> orel (tmrel P) (tm_report cfg sorted t1 i r) (tm_report cfg sorted t2 i r).
Proof.
  intro H. pose proof H as (Hr & Hg & Hch & Hl). unfold tm_report. rewrite Hr, Hch.
  destruct (tm_rec t2 i) as [[hh st]|].
  - destruct (set_fsm st _); cbn; [split; [apply treq_set_rec; exact H | reflexivity] | reflexivity].
  - destruct (tm_child t2 i) as [g|]; [|cbn; reflexivity]. rewrite Hg.
    destruct (tm_glob t2 g) as [gi|]; [|cbn; reflexivity].
    destruct (child_lookup i (g_children gi)); [|cbn; reflexivity].
    destruct (change_multi cfg gi i r) as [[gi' rm]|]; [|cbn; reflexivity].
    destruct rm.
    + pose proof (treq_remove_timeout P t1 t2 (g_height gi) (TGid g) H) as R.
      destruct (tm_remove_timeout t1 (g_height gi) (TGid g)), (tm_remove_timeout t2 (g_height gi) (TGid g)); cbn in R |- *; try contradiction; auto.
      split; [apply treq_set_glob; exact R | reflexivity].
    + cbn. split; [apply treq_set_glob; exact H | reflexivity].
Qed.

Lemma tmrel_step cfg P w h b sf sd terr t1 t2 : d_tl_empty_head cfg = false ->
  treq P t1 t2 -> orel (tmrel P) (tm_step cfg w h b sf sd terr t1) (tm_step cfg w h b sf sd terr t2).
Proof.
  intros Hc H. unfold tm_step.
  destruct (is_request b).
  - destruct (negb (sv_hub sf =? sv_hub sd)).
    + cbn. apply tmrel_begin_interbxh. exact H.
    + destruct (group_gid b).
      * apply tmrel_begin_multi; assumption.
      * cbn. apply tmrel_begin. exact H.
  - apply tmrel_report. exact H.
Qed.

Definition hrel (P : N -> Prop) (a b : txm * ichain * txres) : Prop :=
  treq P (fst (fst a)) (fst (fst b)) /\ snd (fst a) = snd (fst b) /\ snd a = snd b.

Lemma hrel_handle cfg P w h serial b t1 t2 c : d_tl_empty_head cfg = false ->
  treq P t1 t2 -> orel (hrel P) (handle_ibtp cfg w h serial b t1 c) (handle_ibtp cfg w h serial b t2 c).
Proof.
  intros Hc H. unfold handle_ibtp.
  destruct (check_ibtp cfg w c b) as [batch terr notif | e].
  2:{ cbn. unfold hrel. cbn. auto. }
  destruct (svc_lookup w (b_from b)) as [sf|]; [|exact I].
  destruct (svc_lookup w (b_to b)) as [sd|]; [|exact I].
  pose proof (tmrel_step cfg P w h b sf sd terr t1 t2 Hc H) as R.
  destruct (tm_step cfg w h b sf sd terr t1) as [[ta ca | ea]|], (tm_step cfg w h b sf sd terr t2) as [[tb cb | eb]|];
    cbn in R; try contradiction; try exact I.
  - destruct R as [R ->].
    destruct (w_audit w && _); cbn; unfold hrel; cbn; auto.
  - subst eb. cbn. unfold hrel. cbn. auto.
Qed.

(** * blocks *)
(** [sreq]: the states differ at most in the representation of empty timeout lists *)
Definition sreq (P : N -> Prop) (s1 s2 : state) : Prop :=
  treq P (s_tm s1) (s_tm s2) /\ s_ic s1 = s_ic s2 /\ s_h s1 = s_h s2.

Lemma status_tx_eq P t1 t2 i : treq P t1 t2 -> tm_status_tx t1 i = tm_status_tx t2 i.
Proof. intros (Hr & Hg & Hc & _). unfold tm_status_tx. rewrite Hr, Hc, Hg. reflexivity. Qed.

Lemma sreq_call cfg P w s1 s2 touched m a b c d :
  sreq P s1 s2 ->
  sreq P (fst (apply_call cfg w s1 touched m a b c d)) (fst (apply_call cfg w s2 touched m a b c d)) /\
  snd (apply_call cfg w s1 touched m a b c d) = snd (apply_call cfg w s2 touched m a b c d).
Proof.
  intros (T & Ic & Hh). unfold apply_call. rewrite <- Ic.
  rewrite (status_tx_eq P _ _ (a, b, c) T).
  repeat match goal with
         | |- context [if ?x then _ else _] =>
             match x with
             | context [apply_call] => fail 1
             | _ => destruct x
             end
         end;
    try (split; [unfold sreq; csplit; assumption | reflexivity]).
  all: try (destruct (call_delete cfg w (s_ic s1) a touched) as [ic' e]; cbn; split; [unfold sreq; cbn; csplit; auto | reflexivity]).
  all: try (destruct (call_register w (s_ic s1) a) as [ic' e]; cbn; split; [unfold sreq; cbn; csplit; auto | reflexivity]).
Qed.

Lemma sreq_op cfg P w h i touched s1 s2 o : d_tl_empty_head cfg = false ->
  sreq P s1 s2 ->
  orel (fun a b => sreq P (fst a) (fst b) /\ snd a = snd b)
       (apply_op cfg w h i touched s1 o) (apply_op cfg w h i touched s2 o).
Proof.
  intros Hc S. pose proof S as (T & Ic & Hh). destruct o as [b pok | | m a b c d]; cbn [apply_op].
  - set (ser := 1000 * h + i). clearbody ser.
    destruct (negb pok); [cbn [orel fst snd]; split; [exact S | reflexivity]|].
    rewrite <- Ic.
    pose proof (hrel_handle cfg P w h ser b _ _ (s_ic s1) Hc T) as R.
    destruct (handle_ibtp cfg w h ser b (s_tm s1) (s_ic s1)) as [[[ta ca] ra]|],
             (handle_ibtp cfg w h ser b (s_tm s2) (s_ic s1)) as [[[tb cb] rb]|]; cbn [orel] in R |- *; try contradiction; try exact I.
    unfold hrel in R. cbn [fst snd] in R. destruct R as (R1 & R2 & R3). subst cb rb. cbn [fst snd]. split; [|reflexivity].
    unfold sreq. cbn [s_tm s_ic s_h]. csplit; auto.
  - cbn. split; [exact S | reflexivity].
  - cbn. apply sreq_call. exact S.
Qed.

Lemma sreq_ops cfg P w h : d_tl_empty_head cfg = false ->
  forall ops i touched s1 s2, sreq P s1 s2 ->
  orel (fun a b => sreq P (fst a) (fst b) /\ snd a = snd b)
       (apply_ops cfg w h i touched s1 ops) (apply_ops cfg w h i touched s2 ops).
Proof.
  intros Hc. induction ops as [|o r IH]; intros i touched s1 s2 S; cbn [apply_ops].
  - cbn. split; [exact S | reflexivity].
  - pose proof (sreq_op cfg P w h i touched s1 s2 o Hc S) as R.
    destruct (apply_op cfg w h i touched s1 o) as [[sa ra]|], (apply_op cfg w h i touched s2 o) as [[sb rb]|];
      cbn in R; try contradiction; try exact I.
    destruct R as [R ->]. cbn in R.
    specialize (IH (i + 1) (touched || touches_ic w o)%bool sa sb R).
    destruct (apply_ops cfg w h (i + 1) (touched || touches_ic w o) sa r) as [[sa2 rsa]|],
             (apply_ops cfg w h (i + 1) (touched || touches_ic w o) sb r) as [[sb2 rsb]|];
      cbn in IH; try contradiction; try exact I.
    destruct IH as [IH ->]. cbn. split; [exact IH | reflexivity].
Qed.

(** [setTimeoutList] reads only records and child links of the final state *)
Lemma stl_step_eq cfg P w t1 t2 h acc o r : treq P t1 t2 -> stl_step cfg w t1 h acc o r = stl_step cfg w t2 h acc o r.
Proof. intros (Hr & Hg & Hc & _). unfold stl_step. rewrite Hr, Hc. reflexivity. Qed.

Lemma stl_fold_eq2 cfg P w t1 t2 h : treq P t1 t2 ->
  forall ops rs acc, stl_fold cfg w t1 h acc ops rs = stl_fold cfg w t2 h acc ops rs.
Proof.
  intros T. induction ops as [|o ops IH]; intros rs acc; [reflexivity|].
  destruct rs as [|r rs]; [reflexivity|]. cbn [stl_fold]. rewrite (stl_step_eq cfg P w t1 t2 h acc o r T). apply IH.
Qed.

Lemma treq_apply_adds P adds : forall t1 t2, treq P t1 t2 -> treq P (apply_adds t1 adds) (apply_adds t2 adds).
Proof.
  unfold apply_adds. induction adds as [|[k ids] r IH]; intros t1 t2 T; [exact T|].
  cbn [fold_left fst snd]. apply IH.
  assert (E : tl_write (tm_tl t1 k) ids = tl_write (tm_tl t2 k) ids).
  { destruct T as (_ & _ & _ & Hl). destruct (Hl k) as [E | (_ & E1 & E2)]; [rewrite E; reflexivity|].
    destruct E1 as [E1 | E1], E2 as [E2 | E2]; rewrite E1, E2; reflexivity. }
  rewrite E. apply treq_set_tl. exact T.
Qed.

Lemma treq_apply_removes P rems : forall t1 t2, treq P t1 t2 ->
  orel (treq P) (apply_removes t1 rems) (apply_removes t2 rems).
Proof.
  unfold apply_removes.
  assert (G : forall rems o1 o2, orel (treq P) o1 o2 ->
              orel (treq P)
                (fold_left (fun ot p => match ot with
                                        | None => None
                                        | Some t => let cur := match tm_tl t (fst p) with Some l => l | None => [TEmpty] end in
                                                    match remove_all (snd p) cur with
                                                    | Some l => Some (set_tl t (fst p) (tl_norm l))
                                                    | None => None
                                                    end
                                        end) rems o1)
                (fold_left (fun ot p => match ot with
                                        | None => None
                                        | Some t => let cur := match tm_tl t (fst p) with Some l => l | None => [TEmpty] end in
                                                    match remove_all (snd p) cur with
                                                    | Some l => Some (set_tl t (fst p) (tl_norm l))
                                                    | None => None
                                                    end
                                        end) rems o2)).
  { clear rems. induction rems as [|[k ids] r IH]; intros o1 o2 R; [exact R|].
    cbn [fold_left]. apply IH.
    destruct o1 as [t1|], o2 as [t2|]; cbn in R; try contradiction; [|exact I].
    cbn [fst snd].
    assert (E : match tm_tl t1 k with Some l => l | None => [TEmpty] end = match tm_tl t2 k with Some l => l | None => [TEmpty] end).
    { destruct R as (_ & _ & _ & Hl). destruct (Hl k) as [E | (_ & E1 & E2)]; [rewrite E; reflexivity|].
      destruct E1 as [E1 | E1], E2 as [E2 | E2]; rewrite E1, E2; reflexivity. }
    cbv zeta. rewrite E. destruct (remove_all ids _); cbn; [apply treq_set_tl; exact R | exact I]. }
  intros t1 t2 T. apply G. exact T.
Qed.

Lemma get_timeout_list_eq P t1 t2 h : treq P t1 t2 -> get_timeout_list t1 h = get_timeout_list t2 h.
Proof.
  intros (_ & _ & _ & Hl). unfold get_timeout_list. destruct (Hl h) as [E | (_ & E1 & E2)]; [rewrite E; reflexivity|].
  destruct E1 as [E1 | E1], E2 as [E2 | E2]; rewrite E1, E2; reflexivity.
Qed.

Lemma timeout_map_eq P w t1 t2 : treq P t1 t2 -> forall l m, timeout_map w t1 l m = timeout_map w t2 l m.
Proof.
  intros (_ & Hg & _ & _). induction l as [|x l IH]; intro m; [reflexivity|].
  destruct x as [| i | g]; cbn [timeout_map]; [reflexivity | apply IH |].
  rewrite Hg. destruct (tm_glob t2 g); [apply IH | reflexivity].
Qed.

Lemma treq_rollback P h : forall l t1 t2, treq P t1 t2 ->
  orel (treq P) (timeout_rollback t1 h l) (timeout_rollback t2 h l).
Proof.
  induction l as [|x l IH]; intros t1 t2 T; [exact T|].
  destruct x as [| i | g]; cbn [timeout_rollback]; [exact I | apply IH, treq_set_rec; exact T |].
  pose proof T as (_ & Hg & _ & _). rewrite Hg. destruct (tm_glob t2 g) as [gi|]; [|exact I].
  apply IH, treq_set_glob. exact T.
Qed.

(** * the simulation *)
Definition view (st : state) (x : N) : option (list tok) := if s_ph st x then None else tm_tl (s_tm st) x.
Definition phc (st : state) : Prop := forall x, s_ph st x = true -> emp (tm_tl (s_tm st) x).

Record sim (s1 s2 : state) : Prop := {
  sim_rec : tm_rec (s_tm s1) = tm_rec (s_tm s2);
  sim_glob : tm_glob (s_tm s1) = tm_glob (s_tm s2);
  sim_child : tm_child (s_tm s1) = tm_child (s_tm s2);
  sim_ic : s_ic s1 = s_ic s2;
  sim_h : s_h s1 = s_h s2;
  sim_view : forall x, view s1 x = view s2 x;
  sim_phc1 : phc s1;
  sim_phc2 : phc s2
}.

Lemma sim_sreq s1 s2 : sim s1 s2 -> sreq (fun x => view s1 x = None) s1 s2.
Proof.
  intros [Hr Hg Hc Hi Hh Hv P1 P2]. unfold sreq, treq. csplit; auto.
  intro x. specialize (Hv x). unfold view in Hv. unfold tleq.
  destruct (s_ph s1 x) eqn:A, (s_ph s2 x) eqn:B.
  - right. csplit; [unfold view; rewrite A; reflexivity | apply P1; exact A | apply P2; exact B].
  - right. csplit; [unfold view; rewrite A; reflexivity | apply P1; exact A | left; symmetry; exact Hv].
  - right. csplit; [unfold view; rewrite A; exact Hv | left; exact Hv | apply P2; exact B].
  - left. exact Hv.
Qed.

Lemma emp_is_empty o : emp o -> tl_is_empty_str (match o with Some l => l | None => [] end) = true \/ o = None.
Proof. intros [-> | ->]; [right; reflexivity | left; reflexivity]. Qed.

Lemma is_empty_emp o : tl_is_empty_str (match o with Some l => l | None => [] end) = true -> emp o.
Proof.
  destruct o as [l|]; [|discriminate]. destruct l as [|[| |] [|]]; try discriminate. intros _. right. reflexivity.
Qed.

Lemma view_none_iff st x : phc st ->
  (match tm_tl (s_tm st) x with None => true | Some _ => false end || s_ph st x)%bool = true <-> (view st x = None).
Proof.
  intro Pc. unfold view. destruct (s_ph st x) eqn:A.
  - rewrite Bool.orb_true_r. tauto.
  - rewrite Bool.orb_false_r. destruct (tm_tl (s_tm st) x); split; intro; try discriminate; reflexivity.
Qed.

Theorem sim_block cfg w s1 s2 ops : d_tl_empty_head cfg = false -> sim s1 s2 ->
  match exec_block cfg w s1 ops, exec_block cfg w s2 ops with
  | Some (s1', b1), Some (s2', b2) => sim s1' s2' /\ b1 = b2
  | None, None => True
  | _, _ => False
  end.
Proof.
  intros Hc S. pose proof (sim_sreq _ _ S) as R0. set (P := fun x => view s1 x = None) in *.
  destruct S as [Hr Hg Hch Hi Hh Hv P1 P2].
  unfold exec_block. rewrite <- Hh.
  set (h := wrap64 (s_h s1 + 1)).
  pose proof (sreq_ops cfg P w h Hc ops 0 false s1 s2 R0) as R1.
  destruct (apply_ops cfg w h 0 false s1 ops) as [[sa rs]|], (apply_ops cfg w h 0 false s2 ops) as [[sb rs']|];
    cbn in R1; try contradiction; try exact I.
  destruct R1 as [(Ta & Ia & Ha) <-]. cbn in Ta, Ia, Ha.
  unfold set_timeout_list. rewrite <- (stl_fold_eq2 cfg P w _ _ h Ta ops rs (StlMaps [] [])).
  assert (R2 : orel (treq P)
                 (match stl_fold cfg w (s_tm sa) h (StlMaps [] []) ops rs with
                  | StlAbort => Some (s_tm sa) | StlMaps adds rems => apply_removes (apply_adds (s_tm sa) adds) rems end)
                 (match stl_fold cfg w (s_tm sa) h (StlMaps [] []) ops rs with
                  | StlAbort => Some (s_tm sb) | StlMaps adds rems => apply_removes (apply_adds (s_tm sb) adds) rems end)).
  { destruct (stl_fold cfg w (s_tm sa) h (StlMaps [] []) ops rs) as [|adds rems]; [exact Ta|].
    apply treq_apply_removes, treq_apply_adds. exact Ta. }
  destruct (match stl_fold cfg w (s_tm sa) h (StlMaps [] []) ops rs with
            | StlAbort => Some (s_tm sa) | StlMaps adds rems => apply_removes (apply_adds (s_tm sa) adds) rems end) as [ta|],
           (match stl_fold cfg w (s_tm sa) h (StlMaps [] []) ops rs with
            | StlAbort => Some (s_tm sb) | StlMaps adds rems => apply_removes (apply_adds (s_tm sb) adds) rems end) as [tb|];
    cbn in R2; try contradiction; try exact I.
  rewrite <- (get_timeout_list_eq P ta tb h R2).
  rewrite <- (timeout_map_eq P w ta tb R2).
  destruct (timeout_map w ta (get_timeout_list ta h) (fun _ => [])) as [tmap|]; [|exact I].
  pose proof (treq_rollback P h (get_timeout_list ta h) ta tb R2) as R3.
  destruct (timeout_rollback ta h (get_timeout_list ta h)) as [t3a|], (timeout_rollback tb h (get_timeout_list ta h)) as [t3b|];
    cbn in R3; try contradiction; try exact I.
  rewrite <- Ia. split; [|reflexivity].
  destruct R3 as (Er & Eg & Ec & El).
  assert (PH : forall (s : state) t3, phc s -> forall x,
             (tl_is_empty_str (match tm_tl t3 x with Some l => l | None => [] end)
              && (match tm_tl (s_tm s) x with None => true | Some _ => false end || s_ph s x))%bool = true ->
             emp (tm_tl t3 x) /\ view s x = None).
  { intros s t3 Pc x E. apply Bool.andb_true_iff in E. destruct E as [E1 E2]. split; [apply is_empty_emp; exact E1|].
    apply (view_none_iff s x Pc). exact E2. }
  constructor; cbn [s_tm s_ic s_h s_ph]; auto.
  - (* views *)
    intro x. unfold view. cbn [s_tm s_ph].
    set (A1 := (match tm_tl (s_tm s1) x with None => true | Some _ => false end || s_ph s1 x)%bool).
    set (A2 := (match tm_tl (s_tm s2) x with None => true | Some _ => false end || s_ph s2 x)%bool).
    assert (EA : A1 = A2).
    { apply Bool.eq_true_iff_eq. unfold A1, A2. rewrite (view_none_iff s1 x P1), (view_none_iff s2 x P2), (Hv x). tauto. }
    assert (EP : P x -> A1 = true). { intro Px. apply (view_none_iff s1 x P1). exact Px. }
    rewrite <- EA. destruct (El x) as [E | (Px & E1 & E2)].
    + rewrite E. reflexivity.
    + rewrite (EP Px). destruct E1 as [E1 | E1], E2 as [E2 | E2]; rewrite E1, E2; reflexivity.
  - intros x E. cbn [s_ph s_tm] in *. apply (PH s1 t3a P1 x E).
  - intros x E. cbn [s_ph s_tm] in *. apply (PH s2 t3b P2 x E).
Qed.

Lemma sim_restart_both s1 s2 : sim s1 s2 -> sim (restart s1) (restart s2).
Proof.
  intros [Hr Hg Hc Hi Hh Hv P1 P2]. constructor.
  - exact Hr.
  - exact Hg.
  - exact Hc.
  - exact Hi.
  - exact Hh.
  - intro x. specialize (Hv x). unfold view in *. cbn. exact Hv.
  - intros x E. discriminate E.
  - intros x E. discriminate E.
Qed.

Lemma sim_restart s : phc s -> sim s (restart s).
Proof.
  intro Pc. constructor.
  - reflexivity.
  - reflexivity.
  - reflexivity.
  - reflexivity.
  - reflexivity.
  - intro x. unfold view. cbn. destruct (s_ph s x); reflexivity.
  - exact Pc.
  - intros x E. discriminate E.
Qed.

Lemma sim_refl s : phc s -> sim s s.
Proof. intro Pc. constructor; auto. Qed.

Lemma sim_sym s1 s2 : sim s1 s2 -> sim s2 s1.
Proof. intros [Hr Hg Hc Hi Hh Hv P1 P2]. constructor; auto. Qed.

Lemma sim_observe w q s1 s2 bm : sim s1 s2 -> observe w q s1 bm = observe w q s2 bm.
Proof.
  intros [Hr Hg Hc Hi Hh Hv P1 P2]. unfold observe.
  assert (E1 : map (tm_status_tx (s_tm s1)) (q_ids q) = map (tm_status_tx (s_tm s2)) (q_ids q)).
  { apply map_ext. intro i. unfold tm_status_tx. rewrite Hr, Hc, Hg. reflexivity. }
  assert (E2 : map (tm_status_gid (s_tm s1)) (q_gids q) = map (tm_status_gid (s_tm s2)) (q_gids q)).
  { apply map_ext. intro g. unfold tm_status_gid. rewrite Hg. reflexivity. }
  assert (E3 : map (fun x => if s_ph s1 x then None else tm_tl (s_tm s1) x) (q_hs q)
               = map (fun x => if s_ph s2 x then None else tm_tl (s_tm s2) x) (q_hs q)).
  { apply map_ext. intro x. exact (Hv x). }
  rewrite E1, E2, E3, Hi, Hg. reflexivity.
Qed.

(** the whole rest of the history *)
Theorem sim_run cfg w q : d_tl_empty_head cfg = false ->
  forall items s1 s2, sim s1 s2 -> run cfg w q s1 items = run cfg w q s2 items.
Proof.
  intro Hc. induction items as [|it items IH]; intros s1 s2 S; [reflexivity|].
  destruct it as [ops|]; cbn [run].
  - pose proof (sim_block cfg w s1 s2 ops Hc S) as B.
    destruct (exec_block cfg w s1 ops) as [[s1' b1]|], (exec_block cfg w s2 ops) as [[s2' b2]|]; try contradiction; [|reflexivity].
    destruct B as [S' <-]. rewrite (IH s1' s2' S'). rewrite (sim_observe w q s1' s2' b1 S'). reflexivity.
  - apply IH. apply sim_restart_both. exact S.
Qed.

(** [phc] holds in every state produced by the block function *)
Lemma phc_init : phc state_init.
Proof. intros x E. discriminate. Qed.

Lemma phc_block cfg w st ops st' bm : exec_block cfg w st ops = Some (st', bm) -> phc st'.
Proof.
  unfold exec_block. intro E.
  destruct (apply_ops _ _ _ _ _ _ _) as [[st1 rs]|]; [|discriminate].
  destruct (set_timeout_list _ _ _ _ _ _) as [t2|]; [|discriminate].
  destruct (timeout_map _ _ _ _); [|discriminate].
  destruct (timeout_rollback _ _ _) as [t3|]; [|discriminate].
  inversion E; subst. intros x Hx. cbn [s_ph s_tm] in *.
  apply Bool.andb_true_iff in Hx. destruct Hx as [Hx _]. apply is_empty_emp. exact Hx.
Qed.

Lemma phc_restart st : phc (restart st).
Proof. intros x E. discriminate. Qed.

(** remove every restart from a history *)
Fixpoint strip (items : list item) : list item :=
  match items with
  | [] => []
  | IRestart :: r => strip r
  | IBlock ops :: r => IBlock ops :: strip r
  end.

Theorem run_strip cfg w q : d_tl_empty_head cfg = false ->
  forall items st, phc st -> run cfg w q st items = run cfg w q st (strip items).
Proof.
  intro Hc. induction items as [|it items IH]; intros st Pc; [reflexivity|].
  destruct it as [ops|]; cbn [run strip].
  - destruct (exec_block cfg w st ops) as [[st' bm]|] eqn:E; [|reflexivity].
    rewrite (IH st' (phc_block _ _ _ _ _ _ E)). reflexivity.
  - rewrite (IH (restart st) (phc_restart st)).
    symmetry. apply sim_run; [exact Hc|]. apply sim_restart. exact Pc.
Qed.

(** * on reachable states (fixed configuration) *)
From BX Require Import Proofs.IbtpBlock Proofs.IbtpProps.

Lemma reach_phc w st : reach w st -> phc st.
Proof.
  induction 1.
  - exact phc_init.
  - eapply phc_block; eassumption.
  - apply phc_restart.
Qed.

Theorem restart_invariant w q st items :
  reach w st -> run cfg_fixed w q (restart st) items = run cfg_fixed w q st items.
Proof.
  intro R. symmetry. apply sim_run; [reflexivity|]. apply sim_restart. exact (reach_phc _ _ R).
Qed.

Theorem restart_invariant_history cfg w q items :
  d_tl_empty_head cfg = false -> run cfg w q state_init items = run cfg w q state_init (strip items).
Proof. intro Hc. apply run_strip; [exact Hc | exact phc_init]. Qed.
