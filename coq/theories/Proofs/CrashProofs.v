(** Proofs about [Model/Crash.v]: which crash states of one block commit a restart recovers
    from.  The invariant ([sane]) says: the live ledger is exactly what committing the blocks
    [bs] produces, up to the journal window (which a crash may leave one step off). *)
From BX Require Import Base.Prelude Model.ChainLedger Model.Crash Proofs.ChainLedgerProofs.
From Coq Require Import ZifyBool ZifyN ZifyNat.
Local Open Scope N_scope.

(** * Small facts *)
Lemma tlen_map {A B} (f : A -> B) l : tlen (map f l) = tlen l.
Proof. unfold tlen. rewrite map_length. reflexivity. Qed.

Lemma nlookup_filter {V} (p : N -> bool) (l : list (N * V)) k :
  nlookup k (filter (fun kv => p (fst kv)) l) = if p k then nlookup k l else None.
Proof.
  unfold nlookup. induction l as [|[a v] t IH]; simpl.
  - destruct (p k); reflexivity.
  - destruct (p a) eqn:Ea; simpl.
    + destruct (k =? a) eqn:E.
      * assert (k = a) by lia. subst. rewrite Ea. reflexivity.
      * exact IH.
    + destruct (k =? a) eqn:E.
      * assert (k = a) by lia. subst. rewrite Ea in *. exact IH.
      * exact IH.
Qed.

Lemma ttrunc_app_le {A} (l : list A) x t : t <= tlen l -> ttrunc t (l ++ [x]) = ttrunc t l.
Proof.
  unfold ttrunc, tlen. intro H. rewrite firstn_app.
  replace (N.to_nat t - length l)%nat with 0%nat by lia. simpl. apply app_nil_r.
Qed.

Lemma NoDup_app_l {A} (l1 l2 : list A) : NoDup (l1 ++ l2) -> NoDup l1.
Proof.
  induction l1 as [|a r IH]; intro H; [constructor|]. simpl in H. inversion H; subst.
  constructor; [|apply IH; assumption]. intro Hin. apply H2. apply in_or_app. left. exact Hin.
Qed.
Lemma NoDup_app_r {A} (l1 l2 : list A) : NoDup (l1 ++ l2) -> NoDup l2.
Proof. induction l1 as [|a r IH]; intro H; [exact H|]. simpl in H. inversion H; subst. apply IH. assumption. Qed.

(** * The blockfile after a partial append, repaired *)
Lemma bf_repair_partial (S : uset) (e : entry) (sp : spec) :
  bf_repair (apply_bf S e (bf_of sp)) = if bf_complete S then bf_of (sp ++ [e]) else bf_of sp.
Proof.
  unfold bf_complete, apply_bf, bf_of. cbn [bf_hashes bf_bodies bf_txs bf_rcpts bf_ics].
  assert (T : forall {B} (f : entry -> B) (x : B), ttrunc (tlen sp) (map f sp ++ [x]) = map f sp).
  { intros. rewrite <- (tlen_map f sp). apply ttrunc_snoc. }
  assert (T2 : forall {B} (f : entry -> B), ttrunc (tlen sp) (map f sp) = map f sp).
  { intros. apply ttrunc_all. rewrite tlen_map. lia. }
  assert (T3 : forall {B} (f : entry -> B) (x : B), ttrunc (tlen sp + 1) (map f sp ++ [x]) = map f sp ++ [x]).
  { intros. apply ttrunc_all. rewrite tlen_app, tlen_map. lia. }
  destruct (S UBFhash), (S UBFbody), (S UBFtxs), (S UBFrcpts), (S UBFic); cbn [andb];
    unfold bf_repair, bf_min, bf_trunc; cbn [bf_hashes bf_bodies bf_txs bf_rcpts bf_ics];
    rewrite ?tlen_app, ?tlen_map;
    match goal with
    | |- context [ttrunc ?m _] =>
        first [ replace m with (tlen sp) by lia | replace m with (tlen sp + 1) by lia ]
    end;
    rewrite ?T, ?T2, ?T3, ?map_app; reflexivity.
Qed.

(** * The entries a clean run seals, as a function of the blocks *)
Section CrashProofs.
  Variable hash_hdr : header -> N.
  Variable root : list N -> N.
  Variable sroot : N -> N -> N.
  Hypothesis hash_inj : forall a b, hash_hdr a = hash_hdr b -> a = b.

  Definition state_root_of (bs : list bspec) : N := fold_left (fun p b => sroot p (bs_delta b)) bs 0.
  Fixpoint entries_acc (sp : spec) (prev : N) (bs : list bspec) : spec :=
    match bs with
    | [] => sp
    | b :: r => entries_acc (sp ++ [seal_at hash_hdr root sroot (tlen sp + 1) (cm_hash (spec_meta sp)) prev b])
                            (sroot prev (bs_delta b)) r
    end.
  Definition entries_of (bs : list bspec) : spec := entries_acc [] 0 bs.

  Lemma state_root_snoc bs b : state_root_of (bs ++ [b]) = sroot (state_root_of bs) (bs_delta b).
  Proof. unfold state_root_of. rewrite fold_left_app. reflexivity. Qed.

  Lemma entries_acc_snoc bs b : forall sp prev,
    entries_acc sp prev (bs ++ [b]) =
    let sp' := entries_acc sp prev bs in
    sp' ++ [seal_at hash_hdr root sroot (tlen sp' + 1) (cm_hash (spec_meta sp'))
                    (fold_left (fun p b => sroot p (bs_delta b)) bs prev) b].
  Proof. induction bs as [|a r IH]; intros sp prev; cbn; [reflexivity|]. apply IH. Qed.

  Lemma entries_of_snoc bs b :
    entries_of (bs ++ [b]) =
    entries_of bs ++ [seal_at hash_hdr root sroot (tlen (entries_of bs) + 1)
                              (cm_hash (spec_meta (entries_of bs))) (state_root_of bs) b].
  Proof. unfold entries_of. rewrite entries_acc_snoc. reflexivity. Qed.

  Lemma entries_of_len bs : tlen (entries_of bs) = tlen bs.
  Proof.
    induction bs as [|b r IH] using rev_ind; [reflexivity|].
    rewrite entries_of_snoc, !tlen_app, IH. reflexivity.
  Qed.

  (** the transactions of entry k are those of block k *)
  Lemma entries_of_txs bs : map (fun e => b_txs (e_blk e)) (entries_of bs) = map bs_txs bs.
  Proof.
    induction bs as [|b r IH] using rev_ind; [reflexivity|].
    rewrite entries_of_snoc, !map_app, IH. reflexivity.
  Qed.

  (** ** well-formed input: receipts match transactions, transaction hashes are all distinct *)
  Definition wf_blocks (bs : list bspec) : Prop :=
    (forall b, In b bs -> length (bs_rcpts b) = length (bs_txs b)) /\ NoDup (concat (map bs_txs bs)).

  Lemma wf_blocks_app_l a b : wf_blocks (a ++ b) -> wf_blocks a.
  Proof.
    intros [H1 H2]. split.
    - intros x Hx. apply H1. apply in_or_app. left. exact Hx.
    - rewrite map_app, concat_app in H2. apply NoDup_app_l in H2. exact H2.
  Qed.

  Lemma tx_occurs_entries bs t : tx_occurs (entries_of bs) t = true <-> In t (concat (map bs_txs bs)).
  Proof.
    unfold tx_occurs. rewrite existsb_exists, <- entries_of_txs, in_concat. split.
    - intros [e [He Ht]]. apply existsb_eqb_In in Ht. exists (b_txs (e_blk e)). split; [|exact Ht].
      apply in_map_iff. exists e. auto.
    - intros [l [Hl Ht]]. apply in_map_iff in Hl. destruct Hl as [e [He1 He2]]. subst.
      exists e. split; [exact He2|]. apply existsb_eqb_In. exact Ht.
  Qed.

  Lemma NoDup_app_disjoint {A} (l1 l2 : list A) x : NoDup (l1 ++ l2) -> In x l2 -> ~ In x l1.
  Proof.
    induction l1 as [|a r IH]; intros Hnd Hx; [tauto|]. simpl in Hnd. inversion Hnd; subst.
    intros [H|H].
    - subst. apply H1. apply in_or_app. right. exact Hx.
    - exact (IH H2 Hx H).
  Qed.

  Theorem wf_spec_entries bs : wf_blocks bs -> wf_spec hash_hdr root (entries_of bs).
  Proof.
    induction bs as [|b r IH] using rev_ind; intro Hwf; [constructor|].
    rewrite entries_of_snoc. pose proof (IH (wf_blocks_app_l _ _ Hwf)) as Hr.
    destruct Hwf as [Hlen Hnd]. constructor; [exact Hr| |].
    - unfold wf_entry, seal_at. cbn. repeat split; try reflexivity.
      apply Hlen. apply in_or_app. right. left. reflexivity.
    - unfold fresh_txs, seal_at. cbn. rewrite map_app, concat_app in Hnd. cbn in Hnd. rewrite app_nil_r in Hnd.
      split; [apply NoDup_app_r in Hnd; exact Hnd|].
      intros t Ht. destruct (tx_occurs (entries_of r) t) eqn:E; [|reflexivity]. exfalso.
      apply tx_occurs_entries in E. exact (NoDup_app_disjoint _ _ t Hnd Ht E).
  Qed.

  (** * The invariant *)
  Definition root_at (bs : list bspec) (h : N) : N := state_root_of (ttrunc h bs).
  Definition window (n : N) (sd : sdisk) (m : smem) : Prop :=
    (n = 0 /\ ((sd_min sd = 0 /\ sm_min m = 0) \/ (sd_min sd = 1 /\ (sm_min m = 0 \/ sm_min m = 1)))) \/
    (1 <= n /\ 1 <= sd_min sd /\ sd_min sd <= n /\ sm_min m = sd_min sd).
  Record state_sane (bs : list bspec) (sd : sdisk) (m : smem) : Prop := mkSS {
    ss_data : sd_data sd = rev (map bs_delta bs);
    ss_dmax : sd_max sd = tlen bs;
    ss_mmax : sm_max m = tlen bs;
    ss_prev : sm_prev m = state_root_of bs;
    ss_jnl : forall h b, sd_min sd <= h -> tget bs h = Some b ->
                         nlookup h (sd_jnl sd) = Some (root_at bs h, bs_delta b);
    ss_win : window (tlen bs) sd m }.
  Record sane (bs : list bspec) (l : ledger) : Prop := mkSane {
    sn_chain : refines (chain_view l) (entries_of bs);
    sn_state : state_sane bs (dk_state (l_disk l)) (l_smem l) }.

  Lemma sane_empty : sane [] ledger_empty.
  Proof.
    split.
    - apply refines_empty.
    - constructor; try reflexivity.
      + intros h b _ H. rewrite tget_nil in H. discriminate.
      + left. cbn. auto.
  Qed.

  Lemma sane_height bs l : sane bs l -> height l = tlen bs.
  Proof.
    intros [Hc _]. unfold height. pose proof (rf_mem _ _ Hc) as H. cbn in H.
    rewrite H, spec_meta_height. apply entries_of_len.
  Qed.

  Lemma root_at_snoc bs b h : h <= tlen bs -> root_at (bs ++ [b]) h = root_at bs h.
  Proof. intro H. unfold root_at. rewrite ttrunc_app_le by exact H. reflexivity. Qed.
  Lemma root_at_all bs : root_at bs (tlen bs) = state_root_of bs.
  Proof. unfold root_at. rewrite ttrunc_all by lia. reflexivity. Qed.

  (** ** the state side of a commit: first batch, then (maybe) the pruning batch *)
  Lemma state_batch_sane bs sd m b :
    state_sane bs sd m ->
    let h := tlen bs + 1 in
    let rt := sroot (sm_prev m) (bs_delta b) in
    state_sane (bs ++ [b]) (state_batch m h (bs_delta b) rt sd) (smem_commit m h rt).
  Proof.
    intros [D X1 X2 P J W] h rt. subst h rt.
    constructor; unfold state_batch, smem_commit; cbn [sd_data sd_max sd_min sd_jnl sm_min sm_max sm_prev].
    - rewrite D, map_app, rev_app_distr. reflexivity.
    - rewrite tlen_app. reflexivity.
    - rewrite tlen_app. reflexivity.
    - rewrite P, state_root_snoc. reflexivity.
    - intros h b0 Hmin Hg. rewrite nlookup_nset. rewrite tget_snoc in Hg.
      destruct (h =? tlen bs + 1) eqn:E.
      + inversion Hg; subst. replace h with (tlen (bs ++ [b0])) by (rewrite tlen_app; lia).
        rewrite root_at_all, state_root_snoc, P. reflexivity.
      + pose proof (tget_bound _ _ _ Hg) as [Hb1 Hb2].
        rewrite root_at_snoc by lia. apply J; [|exact Hg].
        destruct (sm_min m =? 0) eqn:E0; [|exact Hmin].
        (* sm_min = 0 only at height 0, where no h has a block *)
        destruct W as [[W0 _]|[W1 [W2 [W3 W4]]]]; lia.
    - rewrite tlen_app. right.
      destruct W as [[W0 [[Wa Wb]|[Wa [Wb|Wb]]]]|[W1 [W2 [W3 W4]]]];
        try rewrite Wb; try rewrite Wa; cbn; try lia.
      destruct (sm_min m =? 0) eqn:E0; lia.
  Qed.

  Lemma prune_batch_sane bs sd m :
    state_sane bs sd m -> prune_applies m (tlen bs) = true ->
    state_sane bs (prune_batch m (tlen bs) sd) (mkSM (tlen bs - 10) (sm_max m) (sm_prev m)).
  Proof.
    intros [D X1 X2 P J W] Hp. unfold prune_applies in Hp. apply andb_true_iff in Hp. destruct Hp as [Hp1 Hp2].
    apply negb_true_iff in Hp2.
    constructor; unfold prune_batch; cbn [sd_data sd_max sd_min sd_jnl sm_min sm_max sm_prev]; auto.
    - intros h b Hmin Hg.
      rewrite (nlookup_filter (fun k => negb ((sm_min m <=? k) && (k <? tlen bs - 10)))).
      destruct (h <? tlen bs - 10) eqn:E; [lia|]. rewrite andb_false_r. cbn [negb].
      apply J; [|exact Hg]. destruct W as [[W0 _]|[W1 [W2 [W3 W4]]]]; lia.
    - right. cbn. lia.
  Qed.

  (** the state store after the state units of [S] (with [UState] in [S]) is sane for the new height *)
  Lemma apply_state_sane bs l b (S : uset) :
    sane bs l -> S UState = true ->
    exists m', state_sane (bs ++ [b]) (apply_state sroot S l b) m' /\
               (S UPrune = true -> m' = smem_prune (smem_commit (l_smem l) (height l + 1) (sroot (sm_prev (l_smem l)) (bs_delta b))) (height l + 1)).
  Proof.
    intros Hs HS. pose proof (sane_height _ _ Hs) as Hh. destruct Hs as [_ Hst].
    unfold apply_state. rewrite HS, Hh.
    pose proof (state_batch_sane bs _ _ b Hst) as H1. cbv zeta in H1.
    destruct (S UPrune && prune_applies _ (tlen bs + 1)) eqn:E.
    - apply andb_true_iff in E. destruct E as [E1 E2].
      pose proof (prune_batch_sane (bs ++ [b]) _ _ H1) as H2. rewrite tlen_app in H2. specialize (H2 E2).
      eexists. split; [exact H2|]. intros _. unfold smem_prune. rewrite E2. reflexivity.
    - eexists. split; [exact H1|]. intro HP. rewrite HP in E. cbn in E. unfold smem_prune. rewrite E. reflexivity.
  Qed.

  (** ** an uninterrupted commit preserves the invariant (induction step over the committed history) *)
  Lemma seal_sane bs l b : sane bs l ->
    seal hash_hdr root sroot l b =
    seal_at hash_hdr root sroot (tlen (entries_of bs) + 1) (cm_hash (spec_meta (entries_of bs))) (state_root_of bs) b.
  Proof.
    intro Hs. pose proof (sane_height _ _ Hs) as Hh. destruct Hs as [Hc Hst]. unfold seal.
    rewrite Hh, entries_of_len, (ss_prev _ _ _ Hst). pose proof (rf_mem _ _ Hc) as Hm. cbn in Hm. rewrite Hm. reflexivity.
  Qed.

  Lemma apply_bf_everything e bf : apply_bf everything e bf = bf_append e bf.
  Proof. reflexivity. Qed.

  Lemma chain_commit_sane bs l b : sane bs l -> wf_blocks (bs ++ [b]) ->
    bf_blocks (dk_bf (l_disk l)) = height l /\
    refines (mkCL (bf_append (seal hash_hdr root sroot l b) (dk_bf (l_disk l)))
                  (persist_index (cm_count (l_cmem l)) (seal hash_hdr root sroot l b) (dk_ix (l_disk l)))
                  (new_meta (cm_count (l_cmem l)) (seal hash_hdr root sroot l b)) jw0)
            (entries_of (bs ++ [b])).
  Proof.
    intros Hs Hwf. pose proof (wf_spec_entries _ Hwf) as Hwfs. rewrite entries_of_snoc in Hwfs.
    rewrite <- (seal_sane bs l b Hs) in Hwfs. destruct Hs as [Hc Hst].
    destruct (persist_refines hash_hdr root hash_inj (chain_view l) (entries_of bs) _ Hc Hwfs) as [s' [E [R _]]].
    unfold persist_chain in E. cbn [chain_view cl_bf cl_mem cl_ix cl_jw] in E.
    destruct (bf_blocks (dk_bf (l_disk l)) =? cm_height (l_cmem l)) eqn:Eb; [|discriminate].
    inversion E; subst. split; [unfold height; lia|].
    rewrite entries_of_snoc, <- (seal_sane bs l b (mkSane _ _ Hc Hst)). exact R.
  Qed.

  Theorem commit_sane bs l b : sane bs l -> wf_blocks (bs ++ [b]) ->
    exists l', commit hash_hdr root sroot l b = Some l' /\ sane (bs ++ [b]) l'.
  Proof.
    intros Hs Hwf. destruct (chain_commit_sane bs l b Hs Hwf) as [Hb Hr].
    unfold commit. rewrite Hb, N.eqb_refl. eexists. split; [reflexivity|].
    destruct (apply_state_sane bs l b everything Hs eq_refl) as [m' [Hm1 Hm2]].
    split.
    - unfold chain_view, crash. cbn [l_disk l_cmem dk_bf dk_ix]. exact Hr.
    - unfold crash. cbn [l_disk l_smem dk_state]. rewrite <- (Hm2 eq_refl). exact Hm1.
  Qed.

  Theorem commit_all_sane rest : forall bs l, sane bs l -> wf_blocks (bs ++ rest) ->
    exists l', commit_all hash_hdr root sroot l rest = Some l' /\ sane (bs ++ rest) l'.
  Proof.
    induction rest as [|b r IH]; intros bs l Hs Hwf.
    - exists l. rewrite app_nil_r. auto.
    - cbn [commit_all]. replace (bs ++ b :: r) with ((bs ++ [b]) ++ r) in * by (rewrite <- app_assoc; reflexivity).
      destruct (commit_sane bs l b Hs (wf_blocks_app_l _ _ Hwf)) as [l1 [E1 H1]]. rewrite E1.
      apply IH; assumption.
  Qed.

  (** * Restart *)

  Lemma tlen_zero_nil {A} (l : list A) : tlen l = 0 -> l = [].
  Proof. destruct l; [reflexivity|]. unfold tlen. simpl. lia. Qed.

  (** reopening a sane state store gives a sane memory image *)
  Lemma state_open_sane bs sd m : state_sane bs sd m ->
    exists m0, state_open sd = Some m0 /\ state_sane bs sd m0 /\ sm_min m0 = sd_min sd.
  Proof.
    intros [D X1 X2 P J W]. unfold state_open. rewrite X1.
    destruct (tlen bs =? 0) eqn:E0.
    - assert (bs = []) by (apply tlen_zero_nil; lia). subst bs.
      eexists. split; [reflexivity|]. split; [|reflexivity].
      constructor; cbn [sm_min sm_max sm_prev]; auto.
      left. split; [reflexivity|]. destruct W as [[_ [[Wa _]|[Wa _]]]|[W1 _]]; [left|right|cbn in W1; lia]; auto.
    - destruct (tget_some bs (tlen bs)) as [b Hb]; [lia|lia|].
      assert (Hmin : sd_min sd <= tlen bs) by (destruct W as [[W0 _]|[_ [_ [W3 _]]]]; lia).
      rewrite (J _ _ Hmin Hb). eexists. split; [reflexivity|]. split; [|reflexivity].
      constructor; cbn [sm_min sm_max sm_prev]; auto.
      + apply root_at_all.
      + right. destruct W as [[W0 _]|[W1 [W2 [W3 _]]]]; [lia|auto].
  Qed.

  (** Rollback(meta.Height) when the state store is already at that height: nothing happens *)
  Lemma rollback_same bs sd m0 : state_sane bs sd m0 -> sm_min m0 = sd_min sd ->
    rollback_state (tlen bs) m0 sd = (0, m0, sd).
  Proof.
    intros [D X1 X2 P J W] Hm. unfold rollback_state. rewrite X2.
    destruct (tlen bs <? tlen bs) eqn:E1; [lia|].
    assert (((tlen bs <? sm_min m0) && negb ((sm_min m0 =? 1) && (tlen bs =? 0))) = false) as ->.
    { destruct W as [[W0 [[Wa Wb]|[Wa [Wb|Wb]]]]|[W1 [W2 [W3 W4]]]]; rewrite ?W0, ?Wb in *;
        try reflexivity.
      destruct (tlen bs <? sm_min m0) eqn:E; [lia|reflexivity]. }
    rewrite N.eqb_refl. reflexivity.
  Qed.

  (** the state store is one block ahead of the chain: one journal is reverted *)
  Lemma rollback_one bs b sd m0 :
    state_sane (bs ++ [b]) sd m0 -> sm_min m0 = sd_min sd ->
    ((tlen bs = 0 /\ sd_min sd = 1) \/ (1 <= tlen bs /\ sd_min sd <= tlen bs)) ->
    exists m' sd', rollback_state (tlen bs) m0 sd = (0, m', sd') /\ state_sane bs sd' m'.
  Proof.
    intros [D X1 X2 P J W] Hm Hmin. rewrite tlen_app in *. unfold rollback_state. rewrite X2.
    destruct (tlen bs + 1 <? tlen bs) eqn:E1; [lia|].
    assert (((tlen bs <? sm_min m0) && negb ((sm_min m0 =? 1) && (tlen bs =? 0))) = false) as ->.
    { rewrite Hm. destruct Hmin as [[H0 H1]|[H0 H1]].
      - rewrite H0, H1. reflexivity.
      - destruct (tlen bs <? sd_min sd) eqn:E; [lia|reflexivity]. }
    destruct (tlen bs + 1 =? tlen bs) eqn:E2; [lia|].
    replace (N.to_nat (tlen bs + 1 - tlen bs)) with 1%nat by lia. cbn [heights_down rbs_loop].
    assert (Hg : tget (bs ++ [b]) (tlen bs + 1) = Some b) by (rewrite tget_snoc, N.eqb_refl; reflexivity).
    assert (Hle : sd_min sd <= tlen bs + 1) by (destruct Hmin as [[? ?]|[? ?]]; lia).
    rewrite (J _ _ Hle Hg). rewrite D, map_app, rev_app_distr. cbn [map rev app revert_delta].
    rewrite N.eqb_refl. replace (tlen bs + 1 - 1) with (tlen bs) by lia.
    destruct (tlen bs =? 0) eqn:E0.
    - assert (bs = []) by (apply tlen_zero_nil; lia). subst bs.
      do 2 eexists. split; [reflexivity|].
      constructor; cbn [sd_data sd_max sd_min sd_jnl sm_min sm_max sm_prev]; auto.
      + intros h b0 _ H. rewrite tget_nil in H. discriminate.
      + left. split; [reflexivity|]. right. destruct Hmin as [[_ H1]|[H0 _]]; [auto|cbn in H0; lia].
    - destruct Hmin as [[H0 _]|[H0 H1]]; [lia|].
      destruct (tget_some bs (tlen bs)) as [bn Hbn]; [lia|lia|].
      assert (Hgn : tget (bs ++ [b]) (tlen bs) = Some bn).
      { rewrite tget_snoc. destruct (tlen bs =? tlen bs + 1) eqn:E; [lia|exact Hbn]. }
      cbn [sd_jnl]. rewrite nlookup_nremove. destruct (tlen bs =? tlen bs + 1) eqn:E3; [lia|].
      rewrite (J _ _ H1 Hgn). do 2 eexists. split; [reflexivity|].
      constructor; cbn [sd_data sd_max sd_min sd_jnl sm_min sm_max sm_prev]; auto.
      + rewrite root_at_snoc by lia. apply root_at_all.
      + intros h b0 Hh Hb0. pose proof (tget_bound _ _ _ Hb0) as [Hb1 Hb2].
        rewrite nlookup_nremove. destruct (h =? tlen bs + 1) eqn:E4; [lia|].
        rewrite <- (root_at_snoc bs b h) by lia. apply J; [exact Hh|].
        rewrite tget_snoc, E4. exact Hb0.
      + right. destruct W as [[W0 _]|[W1 [W2 [W3 W4]]]]; [lia|]. cbn [sd_min sm_min]. repeat split; try lia.
  Qed.

  (** where the journal window starts after the state units of a commit *)
  Lemma apply_state_min bs l b (S : uset) : sane bs l -> S UState = true ->
    (tlen bs = 0 /\ sd_min (apply_state sroot S l b) = 1) \/
    (1 <= tlen bs /\ sd_min (apply_state sroot S l b) <= tlen bs).
  Proof.
    intros Hs HS. pose proof (sane_height _ _ Hs) as Hh. destruct Hs as [_ [D X1 X2 P J W]].
    unfold apply_state. rewrite HS, Hh.
    destruct (S UPrune && prune_applies _ (tlen bs + 1)) eqn:E.
    - apply andb_true_iff in E. destruct E as [_ E]. unfold prune_applies in E.
      apply andb_true_iff in E. destruct E as [E _]. right. unfold prune_batch. cbn [sd_min]. lia.
    - unfold state_batch. cbn [sd_min].
      destruct W as [[W0 [[Wa Wb]|[Wa [Wb|Wb]]]]|[W1 [W2 [W3 W4]]]]; rewrite ?Wb, ?W4; cbn.
      + left. split; [exact W0|lia].
      + left. split; [exact W0|lia].
      + left. split; [exact W0|exact Wa].
      + right. destruct (sd_min (dk_state (l_disk l)) =? 0) eqn:E0; [lia|]. split; assumption.
  Qed.

  Definition restart_view (d : disk) : cledger :=
    mkCL (restart_bf true (load_meta (dk_ix d)) (dk_bf d)) (dk_ix d) (load_meta (dk_ix d)) jw0.

  Lemma crash_height bs l b (S : uset) : sane bs l ->
    cm_height (load_meta (dk_ix (crash hash_hdr root sroot S l b))) = if S UIndex then tlen bs + 1 else tlen bs.
  Proof.
    intro Hs. pose proof (sane_height _ _ Hs) as Hh. unfold crash. cbn [dk_ix]. destruct (S UIndex).
    - unfold load_meta, persist_index. cbn [ix_meta new_meta cm_height seal seal_at e_blk b_hdr h_number].
      rewrite Hh. reflexivity.
    - pose proof (rf_meta _ _ (sn_chain _ _ Hs)) as L. cbn in L. rewrite L, spec_meta_height. apply entries_of_len.
  Qed.

  (** the blockfile a restart works with: the new block is there only if it was appended
      completely AND the index knows it; an unindexed complete block is dropped *)
  Lemma crash_bf bs l b (S : uset) : sane bs l ->
    restart_bf true (load_meta (dk_ix (crash hash_hdr root sroot S l b))) (dk_bf (crash hash_hdr root sroot S l b)) =
    if S UIndex && bf_complete S then bf_of (entries_of (bs ++ [b])) else bf_of (entries_of bs).
  Proof.
    intro Hs. unfold restart_bf. rewrite (crash_height bs l b S Hs).
    assert (Hr : bf_repair (dk_bf (crash hash_hdr root sroot S l b)) =
                 if bf_complete S then bf_of (entries_of (bs ++ [b])) else bf_of (entries_of bs)).
    { unfold crash. cbn [dk_bf]. pose proof (rf_bf _ _ (sn_chain _ _ Hs)) as Hb. cbn in Hb.
      rewrite Hb, bf_repair_partial, entries_of_snoc, <- (seal_sane bs l b Hs). reflexivity. }
    rewrite Hr. cbn [andb]. unfold bf_blocks.
    destruct (bf_complete S), (S UIndex); rewrite bf_min_of, entries_of_len, ?tlen_app; cbn [andb].
    - destruct (tlen bs + 1 =? tlen bs + 1 + 1) eqn:E; [lia|reflexivity].
    - rewrite N.eqb_refl, bf_truncate_blocks_of, entries_of_snoc.
      rewrite <- entries_of_len at 1. rewrite ttrunc_snoc. reflexivity.
    - destruct (tlen bs =? tlen bs + 1 + 1) eqn:E; [lia|reflexivity].
    - destruct (tlen bs =? tlen bs + 1) eqn:E; [lia|reflexivity].
  Qed.

  (** the chain side after a restart, in the two good combinations *)
  Lemma restart_chain_new bs l b (S : uset) : sane bs l -> wf_blocks (bs ++ [b]) ->
    S UIndex = true -> bf_complete S = true ->
    refines (restart_view (crash hash_hdr root sroot S l b)) (entries_of (bs ++ [b])).
  Proof.
    intros Hs Hwf Hi Hc. destruct (chain_commit_sane bs l b Hs Hwf) as [_ [B M L I]].
    unfold restart_view. rewrite (crash_bf bs l b S Hs), Hi, Hc. unfold crash. cbn [dk_ix andb]. rewrite Hi.
    cbn [cl_ix] in *. constructor; cbn [cl_bf cl_ix cl_mem]; auto.
  Qed.
  Lemma restart_chain_old bs l b (S : uset) : sane bs l ->
    S UIndex = false ->
    refines (restart_view (crash hash_hdr root sroot S l b)) (entries_of bs).
  Proof.
    intros Hs Hi. pose proof (sn_chain _ _ Hs) as [B M L I].
    unfold restart_view. rewrite (crash_bf bs l b S Hs), Hi. unfold crash. cbn [dk_ix andb]. rewrite Hi.
    cbn [chain_view cl_ix cl_bf cl_mem] in *. constructor; cbn [cl_bf cl_ix cl_mem]; auto.
  Qed.

  (** ** the restart, case by case *)
  Definition sane_state_of (bs : list bspec) (l : ledger) : Prop :=
    state_sane bs (dk_state (l_disk l)) (l_smem l).

  (** state batch durable, chain index at the new height *)
  Lemma recover_new bs l b (S : uset) : sane bs l -> S UState = true -> S UIndex = true ->
    exists l', recover (crash hash_hdr root sroot S l b) = RecOk l' /\
               chain_view l' = restart_view (crash hash_hdr root sroot S l b) /\ sane_state_of (bs ++ [b]) l'.
  Proof.
    intros Hs Hst Hix. destruct (apply_state_sane bs l b S Hs Hst) as [m1 [H1 _]].
    destruct (state_open_sane _ _ _ H1) as [m0 [Ho [H0 Hm]]].
    unfold recover, recover_with. change (dk_state (crash hash_hdr root sroot S l b)) with (apply_state sroot S l b).
    rewrite Ho, (crash_height bs l b S Hs), Hix.
    pose proof (rollback_same _ _ _ H0 Hm) as Hr. rewrite tlen_app in Hr. rewrite Hr.
    eexists. split; [reflexivity|]. split; [reflexivity|exact H0].
  Qed.

  (** chain index at the old height; the state store is rolled back if it is ahead *)
  Lemma recover_old bs l b (S : uset) : sane bs l -> S UIndex = false ->
    exists l', recover (crash hash_hdr root sroot S l b) = RecOk l' /\
               chain_view l' = restart_view (crash hash_hdr root sroot S l b) /\ sane_state_of bs l'.
  Proof.
    intros Hs Hix. unfold recover, recover_with. change (dk_state (crash hash_hdr root sroot S l b)) with (apply_state sroot S l b).
    rewrite (crash_height bs l b S Hs), Hix. destruct (S UState) eqn:Hst.
    - destruct (apply_state_sane bs l b S Hs Hst) as [m1 [H1 _]].
      destruct (state_open_sane _ _ _ H1) as [m0 [Ho [H0 Hm]]]. rewrite Ho.
      destruct (rollback_one bs b _ m0 H0 Hm (apply_state_min bs l b S Hs Hst)) as [m' [sd' [Hr Hs']]].
      rewrite Hr. eexists. split; [reflexivity|]. split; [reflexivity|exact Hs'].
    - assert (Hsd : apply_state sroot S l b = dk_state (l_disk l)) by (unfold apply_state; rewrite Hst; reflexivity).
      rewrite Hsd. destruct (state_open_sane _ _ _ (sn_state _ _ Hs)) as [m0 [Ho [H0 Hm]]]. rewrite Ho.
      rewrite (rollback_same _ _ _ H0 Hm). eexists. split; [reflexivity|]. split; [reflexivity|exact H0].
  Qed.

  (** class A: index batch durable, state batch lost: ledger.New fails
      ("rollback state to height n+1 failed: rollback to higher blockchain height") *)
  Lemma recover_index_without_state bs l b (S : uset) : sane bs l -> S UState = false -> S UIndex = true ->
    recover (crash hash_hdr root sroot S l b) = RecErr 1.
  Proof.
    intros Hs Hst Hix. unfold recover, recover_with. change (dk_state (crash hash_hdr root sroot S l b)) with (apply_state sroot S l b).
    assert (Hsd : apply_state sroot S l b = dk_state (l_disk l)) by (unfold apply_state; rewrite Hst; reflexivity).
    rewrite Hsd, (crash_height bs l b S Hs), Hix.
    destruct (state_open_sane _ _ _ (sn_state _ _ Hs)) as [m0 [Ho [H0 Hm]]]. rewrite Ho.
    unfold rollback_state. rewrite (ss_mmax _ _ _ H0).
    destruct (tlen bs <? tlen bs + 1) eqn:E; [reflexivity|lia].
  Qed.

  (** * The characterisation *)
  Lemma sane_of_view bs l d :
    chain_view l = restart_view d -> refines (restart_view d) (entries_of bs) -> sane_state_of bs l -> sane bs l.
  Proof. intros Hv Hr Hs. split; [rewrite Hv; exact Hr|exact Hs]. Qed.

  Lemma Good_cases (S : uset) :
    (Good S = true /\ S UIndex = true /\ bf_complete S = true /\ S UState = true) \/
    (Good S = true /\ S UIndex = false) \/
    (Good S = false /\ S UIndex = true /\ S UState = false) \/
    (Good S = false /\ S UIndex = true /\ S UState = true /\ bf_complete S = false).
  Proof. unfold Good. destruct (S UIndex), (bf_complete S), (S UState); cbn; tauto. Qed.

  Theorem recover_good bs l b (S : uset) : sane bs l -> wf_blocks (bs ++ [b]) -> Good S = true ->
    exists l', recover (crash hash_hdr root sroot S l b) = RecOk l' /\
               (if S UIndex then sane (bs ++ [b]) l' else sane bs l').
  Proof.
    intros Hs Hwf Hg.
    destruct (Good_cases S) as [[_ [Hi [Hc Hst]]]|[[_ Hi]|[[G _]|[G _]]]]; try congruence.
    - destruct (recover_new bs l b S Hs Hst Hi) as [l' [Hr [Hv Hss]]]. exists l'. split; [exact Hr|].
      rewrite Hi. exact (sane_of_view _ _ _ Hv (restart_chain_new bs l b S Hs Hwf Hi Hc) Hss).
    - destruct (recover_old bs l b S Hs Hi) as [l' [Hr [Hv Hss]]]. exists l'. split; [exact Hr|].
      rewrite Hi. exact (sane_of_view _ _ _ Hv (restart_chain_old bs l b S Hs Hi) Hss).
  Qed.

  Lemma bf_of_len_neq sp e : bf_of sp <> bf_of (sp ++ [e]).
  Proof.
    intro H. apply (f_equal bf_min) in H. rewrite !bf_min_of, tlen_app in H. lia.
  Qed.

  (** outside [Good]: either the restart fails (A), or the index is ahead of the blockfile (C):
      the restarted ledger is neither the ledger of the old height nor of the new one, its head
      block is unreadable and the next AppendBlock is refused ("out-order"), which kills the
      process *)
  Theorem recover_bad bs l b (S : uset) : sane bs l -> wf_blocks (bs ++ [b]) -> Good S = false ->
    (recover (crash hash_hdr root sroot S l b) = RecErr 1 /\ S UIndex = true /\ S UState = false) \/
    (exists l', recover (crash hash_hdr root sroot S l b) = RecOk l' /\
                ~ sane bs l' /\ ~ sane (bs ++ [b]) l' /\
                (forall b', commit hash_hdr root sroot l' b' = None) /\
                S UIndex = true /\ S UState = true /\ bf_complete S = false /\ height l' = tlen bs + 1 /\
                bf_blocks (dk_bf (l_disk l')) = tlen bs /\
                get_block (chain_view l') (height l') true = RFail).
  Proof.
    intros Hs Hwf Hg.
    destruct (Good_cases S) as [[G _]|[[G _]|[[_ [Hi Hst]]|[_ [Hi [Hst Hc]]]]]]; try congruence.
    - left. split; [apply (recover_index_without_state bs l b S Hs Hst Hi)|auto].
    - right. destruct (recover_new bs l b S Hs Hst Hi) as [l' [Hr [Hv Hss]]]. exists l'. split; [exact Hr|].
      assert (Hbf : dk_bf (l_disk l') = bf_of (entries_of bs)).
      { apply (f_equal cl_bf) in Hv. cbn [chain_view restart_view cl_bf] in Hv.
        rewrite Hv, (crash_bf bs l b S Hs), Hc, andb_false_r. reflexivity. }
      assert (Hh : height l' = tlen bs + 1).
      { apply (f_equal cl_mem) in Hv. cbn [chain_view restart_view cl_mem] in Hv. unfold height. rewrite Hv, (crash_height bs l b S Hs), Hi. reflexivity. }
      assert (Hbl : bf_blocks (dk_bf (l_disk l')) = tlen bs).
      { rewrite Hbf. unfold bf_blocks. rewrite bf_min_of, entries_of_len. reflexivity. }
      split; [|split; [|split]].
      + intro Hs'. pose proof (sane_height _ _ Hs') as H. lia.
      + intros [Hc' _]. pose proof (rf_bf _ _ Hc') as B. cbn in B. rewrite Hbf, entries_of_snoc in B.
        exact (bf_of_len_neq _ _ B).
      + intro b'. unfold commit. rewrite Hbl, Hh. destruct (tlen bs =? tlen bs + 1) eqn:E; [lia|reflexivity].
      + repeat split; auto.
        unfold get_block, chain_view. cbn [cl_bf]. rewrite Hbf. unfold bf_of. cbn [bf_bodies].
        rewrite tget_map, Hh, tget_none by (rewrite entries_of_len; lia). reflexivity.
  Qed.

  Lemma skipn_app_exact {A} (l1 l2 : list A) : skipn (length l1) (l1 ++ l2) = l2.
  Proof. induction l1; [reflexivity|assumption]. Qed.

  (** executing the remaining blocks from a ledger that is sane for a prefix reaches the end *)
  Lemma continue_sane pre rest l : sane pre l -> wf_blocks (pre ++ rest) ->
    exists l2, continue_from hash_hdr root sroot l (pre ++ rest) = Some l2 /\ sane (pre ++ rest) l2.
  Proof.
    intros Hs Hwf. unfold continue_from. rewrite (sane_height _ _ Hs). unfold tlen. rewrite Nat2N.id.
    rewrite skipn_app_exact. apply commit_all_sane; assumption.
  Qed.

  (** ** C11: for every set of durable units of the commit of [b] on a ledger that is sane at
      [bs] (any height, genesis and pruning heights included; the invariant [sane] is
      established by induction over the committed history: [sane_empty], [commit_sane], and by
      this theorem itself after a good crash) *)
  Theorem recover_characterisation bs b post l (S : uset) :
    sane bs l -> wf_blocks (bs ++ b :: post) ->
    (Good S = true <->
     exists l', recover (crash hash_hdr root sroot S l b) = RecOk l' /\
                (sane bs l' \/ sane (bs ++ [b]) l') /\
                exists l2, continue_from hash_hdr root sroot l' (bs ++ b :: post) = Some l2 /\
                           sane (bs ++ b :: post) l2).
  Proof.
    intros Hs Hwf.
    assert (Hwf1 : wf_blocks (bs ++ [b])).
    { apply (wf_blocks_app_l _ post). rewrite <- app_assoc. exact Hwf. }
    split.
    - intro Hg. destruct (recover_good bs l b S Hs Hwf1 Hg) as [l' [Hr Hl]]. exists l'. split; [exact Hr|].
      destruct (S UIndex).
      + split; [right; exact Hl|].
        replace (bs ++ b :: post) with ((bs ++ [b]) ++ post) in * by (rewrite <- app_assoc; reflexivity).
        apply continue_sane; assumption.
      + split; [left; exact Hl|]. apply continue_sane; assumption.
    - intros [l' [Hr [Hc _]]]. destruct (Good S) eqn:Hg; [reflexivity|]. exfalso.
      destruct (recover_bad bs l b S Hs Hwf1 Hg) as [[Hr' _]|[l1 [Hr' [N1 [N2 _]]]]]; rewrite Hr' in Hr.
      + discriminate.
      + inversion Hr; subst. destruct Hc; tauto.
  Qed.

  (** ** what [sane] means for an observer *)
  Theorem sane_observe U bs l : sane bs l ->
    observe_ledger U l = mkLobs (expected U (entries_of bs)) (tlen bs) (state_root_of bs) (rev (map bs_delta bs)).
  Proof.
    intros [Hc [D X1 X2 P J W]]. unfold observe_ledger. rewrite (observe_expected U _ _ Hc), X2, P, D. reflexivity.
  Qed.

  Corollary sane_same_observations U bs l l' : sane bs l -> sane bs l' -> observe_ledger U l = observe_ledger U l'.
  Proof. intros H1 H2. rewrite (sane_observe U bs l H1), (sane_observe U bs l' H2). reflexivity. Qed.

  (** ** no block below the head is lost, whatever reached the disk *)
  Lemma observe_h_mixed s spa spb h :
    cl_bf s = bf_of spa -> ix_refines (cl_ix s) spb -> tget spa h = tget spb h ->
    observe_h cfg_fixed s h = expected_h spa h.
  Proof.
    intros B [R1 R2 R3 R4] Hh. unfold observe_h, expected_h, get_block, get_block_hash, get_ic,
      get_rcpts_raw, get_block_sign, get_block.
    rewrite B. unfold bf_of. cbn [bf_bodies bf_txs bf_ics bf_rcpts d_bhash_codec cfg_fixed].
    rewrite !tget_map, R2, R3, <- Hh. destruct (tget spa h) as [e|]; cbn [option_map]; [|reflexivity].
    rewrite blk_eta. reflexivity.
  Qed.

  Theorem no_loss_below_head bs l b (S : uset) h : sane bs l -> wf_blocks (bs ++ [b]) ->
    h <= tlen bs ->
    observe_h cfg_fixed (restart_view (crash hash_hdr root sroot S l b)) h = expected_h (entries_of bs) h /\
    observe_h cfg_fixed (restart_view (crash hash_hdr root sroot S l b)) h = observe_h cfg_fixed (chain_view l) h.
  Proof.
    intros Hs Hwf Hh. rewrite (observe_h_expected (chain_view l) _ h (sn_chain _ _ Hs)).
    assert (G : observe_h cfg_fixed (restart_view (crash hash_hdr root sroot S l b)) h = expected_h (entries_of bs) h);
      [|split; exact G].
    assert (Hsn : forall e, tget (entries_of bs ++ [e]) h = tget (entries_of bs) h).
    { intro e. rewrite tget_snoc, entries_of_len. destruct (h =? tlen bs + 1) eqn:E; [lia|reflexivity]. }
    assert (Hix : ix_refines (dk_ix (crash hash_hdr root sroot S l b))
                             (if S UIndex then entries_of (bs ++ [b]) else entries_of bs)).
    { unfold crash. cbn [dk_ix]. destruct (S UIndex).
      - destruct (chain_commit_sane bs l b Hs Hwf) as [_ R]. exact (rf_ix _ _ R).
      - exact (rf_ix _ _ (sn_chain _ _ Hs)). }
    pose proof (crash_bf bs l b S Hs) as Hbf.
    destruct (S UIndex) eqn:Hi; cbn [andb] in Hbf.
    - destruct (bf_complete S).
      + transitivity (expected_h (entries_of (bs ++ [b])) h).
        * apply (observe_h_mixed (restart_view (crash hash_hdr root sroot S l b)) (entries_of (bs ++ [b])) _ h Hbf Hix).
          reflexivity.
        * unfold expected_h. rewrite entries_of_snoc, Hsn. reflexivity.
      + apply (observe_h_mixed (restart_view (crash hash_hdr root sroot S l b)) (entries_of bs) _ h Hbf Hix).
        rewrite entries_of_snoc. symmetry. apply Hsn.
    - apply (observe_h_mixed (restart_view (crash hash_hdr root sroot S l b)) (entries_of bs) _ h Hbf Hix).
      reflexivity.
  Qed.

  (** the order-ideals of the code's constraints are a special case of "every unit set" *)
  Lemma ideal_b_spec (S : uset) : ideal_b S = true <-> ideal S.
  Proof.
    unfold ideal_b, ideal. split.
    - intros H a b Hab Hb. rewrite forallb_forall in H.
      assert (Ha : In a all_units) by (destruct a; cbn; tauto).
      specialize (H a Ha). rewrite forallb_forall in H.
      assert (Hbb : In b all_units) by (destruct b; cbn; tauto).
      specialize (H b Hbb). rewrite Hab, Hb in H. cbn in H. destruct (S a); [reflexivity|discriminate].
    - intro H. apply forallb_forall. intros a _. apply forallb_forall. intros b _.
      destruct (before a b) eqn:E1; [|reflexivity]. destruct (S b) eqn:E2; [|reflexivity].
      cbn. rewrite (H a b E1 E2). reflexivity.
  Qed.

  (** * Start-ups after the first one: restarting is idempotent *)

  (** a disk whose state store is sane for [hs] and whose chain meta is at height |hs| opens,
      with no rollback at all *)
  Lemma recover_state_sane hs d m : state_sane hs (dk_state d) m ->
    cm_height (load_meta (dk_ix d)) = tlen hs ->
    exists m0, recover d = RecOk (mkL (mkDisk (dk_state d) (dk_ix d) (restart_bf true (load_meta (dk_ix d)) (dk_bf d)))
                                      m0 (load_meta (dk_ix d))) /\
               state_sane hs (dk_state d) m0.
  Proof.
    intros Hs Hh. destruct (state_open_sane _ _ _ Hs) as [m0 [Ho [H0 Hm]]].
    unfold recover, recover_with. rewrite Ho, Hh, (rollback_same _ _ _ H0 Hm). exists m0. auto.
  Qed.

  Lemma restart_bf_sane sp : restart_bf true (spec_meta sp) (bf_of sp) = bf_of sp.
  Proof. apply (reopen_bf_of sp). Qed.

  (** a clean restart of a sane ledger: same disk, sane again; the view ledger opens too *)
  Theorem restart_sane hs l : sane hs l ->
    exists l2, recover (l_disk l) = RecOk l2 /\ sane hs l2 /\ l_disk l2 = l_disk l /\
               state_open (dk_state (l_disk l2)) <> None.
  Proof.
    intros [Hc Hst]. pose proof Hc as [B M L I]. cbn [chain_view cl_bf cl_ix cl_mem] in *.
    assert (Hh : cm_height (load_meta (dk_ix (l_disk l))) = tlen hs) by (rewrite L, spec_meta_height; apply entries_of_len).
    destruct (recover_state_sane hs (l_disk l) _ Hst Hh) as [m0 [Hr H0]].
    rewrite L, B, restart_bf_sane in Hr. eexists. split; [exact Hr|]. split; [|split].
    - split; [|exact H0]. constructor; cbn [chain_view l_disk l_cmem dk_bf dk_ix cl_bf cl_ix cl_mem]; auto.
    - cbn [l_disk]. destruct (l_disk l) as [sd ix bf]. cbn in *. rewrite B. reflexivity.
    - cbn [l_disk dk_state]. destruct (state_open_sane _ _ _ H0) as [m1 [Ho _]]. rewrite Ho. discriminate.
  Qed.

  (** C11_recover_idempotent: after a good crash, the second start-up (and every later one)
      succeeds on the disk the first one left, leaves it unchanged and gives an
      indistinguishable ledger *)
  Theorem recover_idempotent bs l b (S : uset) : sane bs l -> wf_blocks (bs ++ [b]) -> Good S = true ->
    exists l1 l2, recover (crash hash_hdr root sroot S l b) = RecOk l1 /\
                  recover (l_disk l1) = RecOk l2 /\ l_disk l2 = l_disk l1 /\
                  recover (l_disk l2) = RecOk l2 /\
                  (forall U, observe_ledger U l2 = observe_ledger U l1) /\
                  state_open (dk_state (l_disk l1)) <> None.
  Proof.
    intros Hs Hwf Hg. destruct (recover_good bs l b S Hs Hwf Hg) as [l1 [Hr Hl]].
    set (hs := if S UIndex then bs ++ [b] else bs).
    assert (H1 : sane hs l1) by (unfold hs; destruct (S UIndex); exact Hl).
    destruct (restart_sane hs l1 H1) as [l2 [Hr2 [H2 [Hd2 Hv2]]]].
    destruct (restart_sane hs l2 H2) as [l3 [Hr3 [H3 [Hd3 _]]]].
    exists l1, l2. split; [exact Hr|]. split; [exact Hr2|]. split; [exact Hd2|]. split; [|split].
    - (* the third start-up reproduces the second exactly: same disk, same function *)
      rewrite Hd2. exact Hr2.
    - intro U. apply (sane_same_observations U hs); assumption.
    - rewrite <- Hd2. exact Hv2.
  Qed.

  (** * The judge's predicate on the model's own experiment is exactly [Good] *)
  Lemma lobs_eqb_refl x : lobs_eqb x x = true.
  Proof.
    unfold lobs_eqb. rewrite !N.eqb_refl, !andb_true_r.
    apply andb_true_iff. split; [apply obs_eqb_spec; reflexivity|apply nlist_eqb_spec; reflexivity].
  Qed.

  Lemma links_b_last_false hs : forall prev h x, ho_full x = RFail ->
    links_b hash_hdr root prev h (hs ++ [x]) = false.
  Proof.
    induction hs as [|a r IH]; intros prev h x Hx; cbn [app links_b].
    - unfold link_ok_b. rewrite Hx. reflexivity.
    - rewrite (IH _ _ _ Hx). apply andb_false_r.
  Qed.

  Lemma firstn_snoc_nth {A} (l : list A) : forall k x, nth_error l k = Some x -> firstn (S k) l = firstn k l ++ [x].
  Proof.
    induction l as [|a r IH]; intros k x H; [destruct k; discriminate|].
    destruct k; cbn in *; [inversion H; reflexivity|]. f_equal. apply IH. exact H.
  Qed.

  Lemma nth_error_nseq n k : (k < n)%nat -> nth_error (nseq n) k = Some (N.of_nat k).
  Proof.
    intro H. unfold nseq. rewrite nth_error_map.
    assert (nth_error (seq 0 n) k = Some k) as ->; [|reflexivity].
    rewrite (nth_error_nth' _ 0%nat) by (rewrite seq_length; exact H). rewrite seq_nth by exact H. reflexivity.
  Qed.

  Lemma consistent_b_head_unreadable U l :
    (1 <= N.to_nat (height l) <= u_kh U)%nat -> get_block (chain_view l) (height l) true = RFail ->
    consistent_b hash_hdr root (observe_ledger U l) = false.
  Proof.
    intros [H1 H2] Hg. unfold consistent_b, observe_ledger. cbn [lo_chain].
    assert (chain_inv_b hash_hdr root (observe cfg_fixed U (chain_view l)) = false) as ->; [|reflexivity].
    unfold chain_inv_b, observe. cbn [o_meta o_heights get_chain_meta chain_view cl_mem].
    fold (height l). set (n := N.to_nat (height l)) in *.
    assert (Hn : nth_error (tl (map (observe_h cfg_fixed (chain_view l)) (nseq (S (u_kh U))))) (n - 1)
                 = Some (observe_h cfg_fixed (chain_view l) (height l))).
    { unfold nseq. cbn [seq map tl]. rewrite !nth_error_map.
      assert (nth_error (seq 1 (u_kh U)) (n - 1) = Some n) as ->.
      { rewrite (nth_error_nth' _ 0%nat) by (rewrite seq_length; lia). rewrite seq_nth by lia. f_equal. lia. }
      cbn [option_map]. unfold n. rewrite N2Nat.id. reflexivity. }
    replace n with (S (n - 1)) at 2 by lia. rewrite (firstn_snoc_nth _ _ _ Hn).
    rewrite links_b_last_false by (unfold observe_h; cbn [ho_full]; exact Hg).
    rewrite andb_false_r. reflexivity.
  Qed.

  Lemma entries_of_last_state bs b :
    tget (entries_of (bs ++ [b])) (tlen (bs ++ [b])) =
    Some (seal_at hash_hdr root sroot (tlen (entries_of bs) + 1) (cm_hash (spec_meta (entries_of bs))) (state_root_of bs) b).
  Proof. rewrite entries_of_snoc, tget_snoc, tlen_app, entries_of_len, N.eqb_refl. reflexivity. Qed.

  Lemma sane_consistent_b U bs l : sane bs l -> wf_blocks bs -> (length bs <= u_kh U)%nat ->
    consistent_b hash_hdr root (observe_ledger U l) = true.
  Proof.
    intros Hs Hwf Hk. rewrite (sane_observe U bs l Hs). unfold consistent_b. cbn [lo_chain lo_version lo_root lo_data].
    assert (Hlen : length (entries_of bs) = length bs).
    { pose proof (entries_of_len bs) as H. unfold tlen in H. lia. }
    rewrite (proj2 (chain_inv_b_spec hash_hdr root _)) by (apply chain_inv_expected; [apply wf_spec_entries; exact Hwf|lia]).
    unfold expected at 1 2 3 4. cbn [o_meta]. rewrite spec_meta_height, entries_of_len, N.eqb_refl.
    rewrite rev_length, map_length. change (N.of_nat (length bs)) with (tlen bs). rewrite N.eqb_refl, andb_true_r. cbn [andb].
    destruct bs as [|b bs0 _] using rev_ind; [reflexivity|].
    rewrite tlen_app. destruct (tlen bs0 + 1 =? 0) eqn:E; [lia|].
    unfold head_state_root, expected. cbn [o_meta o_heights]. rewrite spec_meta_height, entries_of_len, tlen_app.
    rewrite nth_error_map, nth_error_nseq by (rewrite app_length in Hk; cbn in Hk; unfold tlen; lia).
    cbn [option_map]. rewrite N2Nat.id. unfold expected_h.
    rewrite <- (tlen_app bs0 b), entries_of_last_state. cbn [ho_full e_blk b_hdr h_state seal_at].
    rewrite state_root_snoc. apply N.eqb_refl.
  Qed.

  Lemma firstn_app_exact {A} (l1 l2 : list A) : firstn (length l1) (l1 ++ l2) = l1.
  Proof. rewrite firstn_app, Nat.sub_diag, firstn_all. cbn. apply app_nil_r. Qed.

  Lemma reference_sane U all k : wf_blocks all ->
    exists lk, commit_all hash_hdr root sroot ledger_empty (firstn k all) = Some lk /\ sane (firstn k all) lk /\
               reference hash_hdr root sroot U all k = Some (observe_ledger U lk).
  Proof.
    intro Hwf. assert (Hw : wf_blocks ([] ++ firstn k all)).
    { cbn. apply (wf_blocks_app_l _ (skipn k all)). rewrite firstn_skipn. exact Hwf. }
    destruct (commit_all_sane (firstn k all) [] ledger_empty sane_empty Hw) as [lk [E Hs]].
    exists lk. split; [exact E|]. split; [exact Hs|]. unfold reference. rewrite E. reflexivity.
  Qed.

  Theorem experiment_judge U pre b post (S : uset) :
    let all := pre ++ b :: post in
    wf_blocks all -> (length all <= u_kh U)%nat ->
    exists o, experiment hash_hdr root sroot U pre b post S = Some o /\
              outcome_ok_b hash_hdr root (reference hash_hdr root sroot U all (length pre))
                           (reference hash_hdr root sroot U all (Datatypes.S (length pre)))
                           (reference hash_hdr root sroot U all (length all)) o = Good S.
  Proof.
    intros all Hwf Hk. subst all.
    assert (Hall : pre ++ b :: post = (pre ++ [b]) ++ post) by (rewrite <- app_assoc; reflexivity).
    destruct (reference_sane U (pre ++ b :: post) (length pre) Hwf) as [ln [En [Hsn Rn]]].
    destruct (reference_sane U (pre ++ b :: post) (Datatypes.S (length pre)) Hwf) as [ln1 [En1 [Hsn1 Rn1]]].
    destruct (reference_sane U (pre ++ b :: post) (length (pre ++ b :: post)) Hwf) as [lN [EN [HsN RN]]].
    rewrite firstn_app_exact in *.
    assert (F1 : firstn (Datatypes.S (length pre)) (pre ++ b :: post) = pre ++ [b]).
    { rewrite Hall. replace (Datatypes.S (length pre)) with (length (pre ++ [b])) by (rewrite app_length; cbn; lia).
      apply firstn_app_exact. }
    rewrite F1 in *. rewrite firstn_all in *.
    assert (Hwf1 : wf_blocks (pre ++ [b])) by (apply (wf_blocks_app_l _ post); rewrite <- Hall; exact Hwf).
    assert (Hwfp : wf_blocks pre) by (apply (wf_blocks_app_l _ [b]); exact Hwf1).
    assert (Hlen : (length pre + 1 <= u_kh U)%nat) by (rewrite app_length in Hk; cbn in Hk; lia).
    unfold experiment, experiment_with. rewrite En. unfold startup_twice_with, startup_with. fold recover.
    assert (Hfin : forall l', (sane pre l' \/ sane (pre ++ [b]) l') ->
              exists o, match continue_from hash_hdr root sroot l' (pre ++ b :: post) with
                        | None => Some (mkOut 0 (Some (observe_ledger U l')) 9 None)
                        | Some l2 => Some (mkOut 0 (Some (observe_ledger U l')) 0 (Some (observe_ledger U l2)))
                        end = Some o /\
                        outcome_ok_b hash_hdr root (reference hash_hdr root sroot U (pre ++ b :: post) (length pre))
                          (reference hash_hdr root sroot U (pre ++ b :: post) (Datatypes.S (length pre)))
                          (reference hash_hdr root sroot U (pre ++ b :: post) (length (pre ++ b :: post))) o = true).
    { intros l' Hc'.
      assert (Hcont : exists l2, continue_from hash_hdr root sroot l' (pre ++ b :: post) = Some l2 /\ sane (pre ++ b :: post) l2).
      { destruct Hc' as [Hc'|Hc'].
        - apply continue_sane; assumption.
        - rewrite Hall. apply continue_sane; [exact Hc'|rewrite <- Hall; exact Hwf]. }
      destruct Hcont as [l2 [Hcont Hs2]]. rewrite Hcont. eexists. split; [reflexivity|].
      unfold outcome_ok_b. cbn [oc_rec oc_obs1 oc_cont oc_obs2]. rewrite Rn, Rn1, RN. cbn [N.eqb andb].
      rewrite (sane_same_observations U _ l2 lN Hs2 HsN). cbn [option_lobs_eqb]. rewrite lobs_eqb_refl, andb_true_r.
      destruct Hc' as [Hc'|Hc'].
      - rewrite (sane_consistent_b U pre l' Hc' Hwfp) by lia.
        rewrite (sane_same_observations U _ l' ln Hc' Hsn), lobs_eqb_refl. reflexivity.
      - rewrite (sane_consistent_b U (pre ++ [b]) l' Hc' Hwf1) by (rewrite app_length; cbn; lia).
        rewrite (sane_same_observations U _ l' ln1 Hc' Hsn1), lobs_eqb_refl, orb_true_r. reflexivity. }
    destruct (Good_cases S) as [[Hg [Hi [Hc Hst]]]|[[Hg Hi]|[[Hg [Hi Hst]]|[Hg [Hi [Hst Hc]]]]]]; rewrite Hg.
    1, 2:
      destruct (recover_good pre ln b S Hsn Hwf1 Hg) as [l1 [Hr Hl]]; rewrite Hr;
      set (hs := if S UIndex then pre ++ [b] else pre);
      assert (H1 : sane hs l1) by (unfold hs; destruct (S UIndex); exact Hl);
      destruct (restart_sane hs l1 H1) as [l' [Hr2 [H2 [Hd2 Hv2]]]];
      assert (Hv1 : state_open (dk_state (l_disk l1)) <> None) by (rewrite <- Hd2; exact Hv2);
      destruct (state_open (dk_state (l_disk l1))) as [mv|] eqn:Ev1; [|congruence];
      rewrite Hr2; destruct (state_open (dk_state (l_disk l'))) as [mv2|] eqn:Ev2; [|congruence];
      apply Hfin; unfold hs in H2; rewrite Hi in H2; auto.
    - (* class A *)
      rewrite (recover_index_without_state pre ln b S Hsn Hst Hi). eexists. split; reflexivity.
    - (* class C: both start-ups succeed, the head block stays unreadable *)
      destruct (recover_new pre ln b S Hsn Hst Hi) as [l1 [Hr [Hv Hss]]]. rewrite Hr.
      destruct (state_open_sane _ _ _ Hss) as [mv [Ev1 _]]. rewrite Ev1.
      assert (Hix : dk_ix (l_disk l1) = dk_ix (crash hash_hdr root sroot S ln b))
        by (apply (f_equal cl_ix) in Hv; exact Hv).
      assert (Hcm : l_cmem l1 = load_meta (dk_ix (crash hash_hdr root sroot S ln b)))
        by (apply (f_equal cl_mem) in Hv; exact Hv).
      assert (Hbf : dk_bf (l_disk l1) = bf_of (entries_of pre)).
      { apply (f_equal cl_bf) in Hv. cbn [chain_view restart_view cl_bf] in Hv.
        rewrite Hv, (crash_bf pre ln b S Hsn), Hc, andb_false_r. reflexivity. }
      assert (Hh1 : cm_height (load_meta (dk_ix (l_disk l1))) = tlen (pre ++ [b]))
        by (rewrite Hix, (crash_height pre ln b S Hsn), Hi, tlen_app; reflexivity).
      destruct (recover_state_sane (pre ++ [b]) (l_disk l1) _ Hss Hh1) as [m0 [Hr2 H0]]. rewrite Hr2.
      cbn [l_disk dk_state]. destruct (state_open_sane _ _ _ H0) as [mv2 [Ev2 _]]. rewrite Ev2.
      set (l' := mkL _ m0 _).
      assert (Hh : height l' = tlen pre + 1) by (unfold height, l'; cbn [l_cmem]; rewrite Hh1, tlen_app; reflexivity).
      assert (Hgb : get_block (chain_view l') (height l') true = RFail).
      { rewrite Hh. unfold get_block.
        assert (Hb2 : cl_bf (chain_view l') = bf_of (entries_of pre)).
        { unfold chain_view, l'. cbn [l_disk dk_bf cl_bf]. rewrite Hbf. unfold restart_bf.
          rewrite bf_repair_of. unfold bf_blocks. rewrite bf_min_of, entries_of_len, Hh1, tlen_app.
          destruct (tlen pre =? tlen pre + 1 + 1) eqn:E; [lia|reflexivity]. }
        rewrite Hb2. unfold bf_of. cbn [bf_bodies].
        rewrite tget_map, tget_none by (rewrite entries_of_len; lia). reflexivity. }
      assert (Hcb : consistent_b hash_hdr root (observe_ledger U l') = false).
      { apply consistent_b_head_unreadable; [|exact Hgb]. rewrite Hh. unfold tlen. lia. }
      destruct (continue_from hash_hdr root sroot l' (pre ++ b :: post)); eexists; (split; [reflexivity|]);
        unfold outcome_ok_b; cbn [oc_rec oc_obs1 oc_cont oc_obs2]; rewrite Hcb; reflexivity.
  Qed.
End CrashProofs.
