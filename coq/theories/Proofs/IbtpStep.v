(** What one IBTP transaction does under the repaired configuration [cfg_fixed]:
    inversion lemmas for [check_ibtp], [tm_step] and [handle_ibtp]. *)
From BX Require Import Base.Prelude Base.Fsm Model.TxFsm Model.TxMgr Model.Interchain Model.IbtpExec
     Proofs.TxFsmProofs Proofs.IbtpBasics.
From Coq Require Import String ZifyBool ZifyN ZifyNat.
Local Open Scope N_scope.

Lemma check_index_ok exp cur : check_index exp cur = None <-> cur = exp.
Proof.
  unfold check_index. destruct (cur <? exp) eqn:E1; [split; [discriminate | lia]|].
  destruct (exp <? cur) eqn:E2; [split; [discriminate | lia]|]. split; [lia | reflexivity].
Qed.

(** the index an accepted IBTP must carry *)
Definition expected_index (c : ichain) (b : ibtp) (notif : bool) : N :=
  if is_request b && negb notif
  then wrap64 (ic_IC (get_rec c (b_from b)) (b_to b) + 1)
  else wrap64 (ic_RC (get_rec c (b_from b)) (b_to b) + 1).

Lemma check_target_fixed w src sd : fst (check_target cfg_fixed w src sd) = false.
Proof.
  unfold check_target. cbn [d_unordered cfg_fixed].
  repeat match goal with |- context [if ?x then _ else _] => destruct x end;
    cbn [fst]; rewrite ?andb_false_r; reflexivity.
Qed.

Lemma check_fixed w c b batch terr notif :
  check_ibtp cfg_fixed w c b = ChkOk batch terr notif ->
  batch = false /\ notif = is_notification w c b /\
  (exists sf sd, svc_lookup w (b_from b) = Some sf /\ svc_lookup w (b_to b) = Some sd /\
                 (is_request b && negb notif = true ->
                  terr = snd (check_target cfg_fixed w (b_from b) sd)) /\
                 (is_request b && negb notif = false -> terr = false /\ (is_response b || notif) = true)) /\
  b_idx b = expected_index c b notif.
Proof.
  unfold check_ibtp, expected_index.
  destruct (svc_lookup w (b_from b)) as [sf|] eqn:Ef; [|discriminate].
  destruct (svc_lookup w (b_to b)) as [sd|] eqn:Ed; [|discriminate].
  set (nf := is_notification w c b).
  destruct (is_request b && negb nf) eqn:Erq.
  - pose proof (check_target_fixed w (b_from b) sd) as Hb.
    destruct (check_target cfg_fixed w (b_from b) sd) as [bt te] eqn:Ect. simpl in Hb. subst bt.
    assert (Hgoal : forall x : N, check_index (wrap64 (ic_IC (get_rec c (b_from b)) (b_to b) + 1)) (b_idx b) = None ->
                    ChkOk false te false = ChkOk batch terr notif -> x = x ->
      batch = false /\ notif = nf /\
      (exists sf0 sd0, Some sf = Some sf0 /\ Some sd = Some sd0 /\
         (is_request b && negb notif = true -> terr = snd (check_target cfg_fixed w (b_from b) sd0)) /\
         (is_request b && negb notif = false -> terr = false /\ (is_response b || notif) = true)) /\
      b_idx b = (if is_request b && negb notif then wrap64 (ic_IC (get_rec c (b_from b)) (b_to b) + 1)
                 else wrap64 (ic_RC (get_rec c (b_from b)) (b_to b) + 1))).
    { intros x Eci H _. apply check_index_ok in Eci. inversion H; subst.
      apply andb_true_iff in Erq. destruct Erq as [Hr Hn]. apply negb_true_iff in Hn.
      split; [reflexivity|]. split; [symmetry; exact Hn|]. split.
      - exists sf, sd. split; [reflexivity|]. split; [reflexivity|]. split.
        + intros _. rewrite Ect. reflexivity.
        + rewrite Hr. simpl. discriminate.
      - rewrite Hr. simpl. exact Eci. }
    destruct (is_local sf).
    + destruct (negb (sv_reg sf && sv_avail sf)); [discriminate|].
      destruct (check_index _ _) eqn:Eci; [discriminate|]. intro H. exact (Hgoal 0 eq_refl H eq_refl).
    + destruct (negb (is_local sd)); [discriminate|].
      destruct (negb (hub_avail w (sv_hub sf))); [discriminate|].
      destruct (check_index _ _) eqn:Eci; [discriminate|]. intro H. exact (Hgoal 0 eq_refl H eq_refl).
  - destruct (is_response b || nf) eqn:Ers; [|discriminate].
    assert (Hgoal : forall bb, check_index (wrap64 (ic_RC (get_rec c (b_from b)) (b_to b) + 1)) (b_idx b) = None ->
                    ChkOk bb false nf = ChkOk batch terr notif -> bb = false ->
      batch = false /\ notif = nf /\
      (exists sf0 sd0, Some sf = Some sf0 /\ Some sd = Some sd0 /\
         (is_request b && negb notif = true -> terr = snd (check_target cfg_fixed w (b_from b) sd0)) /\
         (is_request b && negb notif = false -> terr = false /\ (is_response b || notif) = true)) /\
      b_idx b = (if is_request b && negb notif then wrap64 (ic_IC (get_rec c (b_from b)) (b_to b) + 1)
                 else wrap64 (ic_RC (get_rec c (b_from b)) (b_to b) + 1))).
    { intros bb Eci H Hbb. apply check_index_ok in Eci. inversion H; subst.
      split; [reflexivity|]. split; [reflexivity|]. split.
      - exists sf, sd. split; [reflexivity|]. split; [reflexivity|]. split.
        + intro Hc. rewrite Erq in Hc. discriminate.
        + intros _. split; [reflexivity | exact Ers].
      - rewrite Erq. exact Eci. }
    destruct (is_local sf).
    + destruct (negb (sv_reg sf)); [discriminate|].
      destruct (check_index _ _) eqn:Eci; [discriminate|]. intro H. apply (Hgoal _ eq_refl H).
      cbn [d_unordered cfg_fixed]. apply andb_false_r.
    + destruct (negb (is_local sd)); [discriminate|].
      destruct (check_index _ _) eqn:Eci; [discriminate|]. intro H. apply (Hgoal _ eq_refl H). reflexivity.
Qed.

(** outcome of [handle_ibtp] under [cfg_fixed] *)
Inductive hres (w : world) (h serial : N) (b : ibtp) (t : txm) (c : ichain) : txm -> ichain -> txres -> Prop :=
| HRejected e : hres w h serial b t c t c (res_err e)
| HDone sf sd terr notif t' ch (audit_failed : bool) :
    svc_lookup w (b_from b) = Some sf -> svc_lookup w (b_to b) = Some sd ->
    check_ibtp cfg_fixed w c b = ChkOk false terr notif ->
    tm_step cfg_fixed w h b sf sd terr t = Some (TmOk t' ch) ->
    let nc := notify_src_dst cfg_fixed w c h sf sd ch in
    let pc := process_ibtp w (fst nc) b (get_rec c (b_from b)) serial notif terr false (c_cur ch) (c_child ch) in
    audit_failed = w_audit w && (rec_missing (fst pc) (b_from b) || rec_missing (fst pc) (b_to b)) ->
    hres w h serial b t c t' (fst pc)
         (if audit_failed then Build_txres false E_AUDIT 0 (snd nc) false
          else Build_txres true 0 (snd pc) (snd nc) false).

Lemma handle_fixed_inv w h serial b t c t' c' r :
  handle_ibtp cfg_fixed w h serial b t c = Some (t', c', r) -> hres w h serial b t c t' c' r.
Proof.
  unfold handle_ibtp.
  destruct (check_ibtp cfg_fixed w c b) as [batch terr notif | e] eqn:Ec.
  - destruct (check_fixed _ _ _ _ _ _ Ec) as [-> _].
    destruct (svc_lookup w (b_from b)) as [sf|] eqn:Ef; [|discriminate].
    destruct (svc_lookup w (b_to b)) as [sd|] eqn:Ed; [|discriminate].
    destruct (tm_step cfg_fixed w h b sf sd terr t) as [[t1 ch | e]|] eqn:Et; [| |discriminate].
    + set (af := w_audit w && _).
      destruct af eqn:Eaf; intro H; inversion H; subst.
      * pose proof (HDone w h serial b t c sf sd terr notif t' ch true Ef Ed Ec Et) as X.
        cbv zeta in X. apply X. symmetry. exact Eaf.
      * pose proof (HDone w h serial b t c sf sd terr notif t' ch false Ef Ed Ec Et) as X.
        cbv zeta in X. apply X. symmetry. exact Eaf.
    + intro H. inversion H; subst. constructor.
  - intro H. inversion H; subst. constructor.
Qed.
