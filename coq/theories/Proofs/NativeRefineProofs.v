(** The executable ledger model the judges run ([Model/ExecFrame.v]) refines the pure balance
    model the C14 theorems are about ([Model/Fees.v]): on native transactions (transfers, contract
    calls without a balance effect, the admin grant, rejected transactions) the balances computed
    by [apply_tx] / [apply_txs] are exactly those of [apply_ntx] / [apply_block], with the same
    receipts — for every defect configuration of the transfer / fee flags, provided journal
    entries are not lost ([d_stale_changer] off). *)
From BX Require Import Base.Prelude Model.Fees Model.ExecFrame Proofs.FeesProofs Proofs.ExecFrameProofs.
From Coq Require Import ZifyBool ZifyN ZifyNat.
Local Open Scope Z_scope.

Definition to_tx (e : fenv) (t : ntx) (n : N) : tx :=
  {| tx_from := ntx_from t; tx_nonce := n; tx_invalid := false;
     tx_kind := match t with
                | NTransfer _ to amt => KTransfer to amt
                | NCall _ ok => KBvm (fun _ => if ok then Done else Fail false)
                | NGrant _ na ok => KBvm (grant_body e na ok)
                | NInvalid _ => KBad
                end |}.

Definition beq (b b' : bals) : Prop := forall a, b a = b' a.

Lemma beq_refl b : beq b b. Proof. intro; reflexivity. Qed.
Lemma beq_trans a b c : beq a b -> beq b c -> beq a c.
Proof. intros H1 H2 x. rewrite H1. apply H2. Qed.
Lemma beq_sym a b : beq a b -> beq b a.
Proof. intros H x. symmetry. apply H. Qed.

Lemma bset_beq b b' a v : beq b b' -> beq (bset b a v) (bset b' a v).
Proof. intros H x. unfold bset. destruct (x =? a)%N; [reflexivity | apply H]. Qed.

Lemma pay_each_beq adm : forall b b' fee, beq b b' -> beq (pay_each b adm fee) (pay_each b' adm fee).
Proof.
  induction adm as [|x t IH]; intros b b' fee H; simpl; [exact H|].
  apply IH. rewrite (H x). apply bset_beq. exact H.
Qed.

Lemma pay_admins_beq e b b' fees : beq b b' -> beq (pay_admins e b fees) (pay_admins e b' fees).
Proof. intro H. unfold pay_admins. apply pay_each_beq. exact H. Qed.

(** the Fees functions respect pointwise equality of balances *)
Definition obeq (x y : option bals) : Prop :=
  match x, y with Some a, Some b => beq a b | None, None => True | _, _ => False end.

Lemma transfer_beq c b b' f t v : beq b b' -> obeq (transfer c b f t v) (transfer c b' f t v).
Proof.
  intro H. unfold transfer. destruct (v =? 0); [exact H|].
  destruct ((v <? 0) && negb (d_neg_amount c)); [exact I|].
  rewrite (H f). destruct (b' f <? v); [exact I|].
  destruct (d_self_transfer c); simpl.
  - rewrite (H t). apply bset_beq, bset_beq, H.
  - assert (Hb : beq (bset b f (b' f - v)) (bset b' f (b' f - v))) by (apply bset_beq, H).
    rewrite (Hb t). apply bset_beq. exact Hb.
Qed.

Lemma pay_gas_fee_beq e b b' f g : beq b b' -> obeq (pay_gas_fee e b f g) (pay_gas_fee e b' f g).
Proof.
  intro H. unfold pay_gas_fee. rewrite (H f). destruct (b' f <? g * price e); [exact I|].
  simpl. apply pay_admins_beq, bset_beq, H.
Qed.

Lemma pay_left_beq e b b' f : beq b b' -> beq (pay_left e b f) (pay_left e b' f).
Proof. intro H. unfold pay_left. rewrite (H f). apply pay_admins_beq, bset_beq, H. Qed.

Lemma ntx_body_beq c e b b' t : beq b b' ->
  let '(b1, ok, gas, g) := ntx_body c e b t in
  let '(b1', ok', gas', g') := ntx_body c e b' t in
  beq b1 b1' /\ ok = ok' /\ gas = gas' /\ g = g'.
Proof.
  intro H. destruct t as [f to amt|f okc|f na okc|f]; simpl.
  - pose proof (transfer_beq c b b' f to (parse_amount amt) H) as Ht.
    destruct (transfer c b f to (parse_amount amt)), (transfer c b' f to (parse_amount amt)); simpl in Ht; try contradiction; auto.
  - auto.
  - destruct okc; [|auto]. rewrite (H na). repeat split; auto. apply bset_beq, H.
  - auto.
Qed.

Lemma apply_ntx_beq c e b b' t : beq b b' ->
  let '(x, ok, g) := apply_ntx c e b t in
  let '(x', ok', g') := apply_ntx c e b' t in
  beq x x' /\ ok = ok' /\ g = g'.
Proof.
  intro H. unfold apply_ntx. pose proof (ntx_body_beq c e b b' t H) as Hb.
  destruct (ntx_body c e b t) as [[[b1 ok1] gas1] g1], (ntx_body c e b' t) as [[[b1' ok1'] gas1'] g1'].
  destruct Hb as [Hb1 [-> [-> ->]]].
  pose proof (pay_gas_fee_beq e b1 b1' (ntx_from t) gas1' Hb1) as Hp.
  destruct (pay_gas_fee e b1 (ntx_from t) gas1'), (pay_gas_fee e b1' (ntx_from t) gas1'); simpl in Hp; try contradiction; [auto|].
  destruct (d_fee_after_body c).
  - repeat split; auto. apply pay_left_beq, H.
  - pose proof (pay_gas_fee_beq e b b' (ntx_from t) gas1' H) as Hq.
    destruct (pay_gas_fee e b (ntx_from t) gas1'), (pay_gas_fee e b' (ntx_from t) gas1'); simpl in Hq; try contradiction; [auto|].
    repeat split; auto. apply pay_left_beq, H.
Qed.

Section Refine.
Variable c : xcfg.
Hypothesis Hst : d_stale_changer c = false.
Hypothesis Hpm : d_prev_from_memory c = false.
Hypothesis Htb : d_revert_drops_tombstone c = false.

Lemma bal_do_transfer s f t v s' r : do_transfer c s f t v = (s', r) ->
  match transfer (x_fees c) (bal s) f t v with
  | Some b' => r = ROk /\ bal s' = b'
  | None => is_ok r = false
  end.
Proof.
  unfold do_transfer, transfer. destruct (v =? 0); [intro H; inversion H; auto|].
  destruct ((v <? 0) && negb (d_neg_amount (x_fees c))); [intro H; inversion H; reflexivity|].
  rewrite bal_touch. destruct (bal s f <? v).
  - intro H. inversion H. reflexivity.
  - intro H. inversion H; subst; clear H.
    destruct (d_self_transfer (x_fees c)); (split; [reflexivity|]);
      rewrite !(bal_setbal c Hst), !bal_touch; reflexivity.
Qed.

Lemma body_refines e idx t n s0 s1 res : log s0 = [] ->
  tx_body c idx s0 (to_tx e t n) = (s1, res) ->
  let '(b1, ok, gas, g) := ntx_body (x_fees c) e (bal s0) t in
  is_ok res = ok /\ gas_of (to_tx e t n) = gas /\ beq (bal s1) b1 /\
  (forall a, rbal s1 a = bal s0 a) /\ (ok = false -> log s1 = []).
Proof.
  intros Hl0 Hb.
  destruct (tx_body_rrel c Hst Hpm Htb idx (to_tx e t n) s0 s1 res Hb) as [[Hrb _] Hlog].
  assert (Hr : forall a, rbal s1 a = bal s0 a) by (intro a; rewrite Hrb; apply r_nolog_bal; exact Hl0).
  assert (Hfail : is_ok res = false -> log s1 = [] /\ beq (bal s1) (bal s0)).
  { intro Hf. assert (L : log s1 = []) by (apply Hlog; [exact Hf | right; left; destruct t; reflexivity | exact Hl0]).
    split; [exact L|]. intro a. rewrite <- (r_nolog_bal s1 a L). apply Hr. }
  revert Hb. unfold tx_body, to_tx. cbn [tx_invalid tx_kind tx_from].
  destruct t as [f to amt|f okc|f na okc|f]; cbn [ntx_body ntx_from gas_of tx_invalid tx_kind].
  - destruct (do_transfer c s0 f to (parse_amount amt)) as [s' r] eqn:Ed.
    pose proof (bal_do_transfer _ _ _ _ _ _ Ed) as Ht.
    destruct (transfer (x_fees c) (bal s0) f to (parse_amount amt)) as [b'|].
    + destruct Ht as [-> Hbal]. intro H; inversion H; subst.
      split; [reflexivity|]. split; [reflexivity|]. split; [intro a; reflexivity|]. split; [exact Hr | discriminate].
    + intro H; inversion H; subst. destruct res; [discriminate|].
      destruct (Hfail eq_refl) as [L B].
      split; [reflexivity|]. split; [reflexivity|]. split; [exact B|]. split; [exact Hr | intros _; exact L].
  - destruct okc; simpl; intro H; inversion H; subst.
    + split; [reflexivity|]. split; [reflexivity|]. split; [apply beq_refl|]. split; [exact Hr | discriminate].
    + destruct (Hfail eq_refl) as [L B].
      split; [reflexivity|]. split; [reflexivity|]. split; [exact B|]. split; [exact Hr | intros _; exact L].
  - unfold grant_body. destruct okc; simpl; intro H; inversion H; subst.
    + split; [reflexivity|]. split; [reflexivity|].
      split; [intro a; rewrite (bal_setbal c Hst); reflexivity|]. split; [exact Hr | discriminate].
    + destruct (Hfail eq_refl) as [L B].
      split; [reflexivity|]. split; [reflexivity|]. split; [exact B|]. split; [exact Hr | intros _; exact L].
  - intro H; inversion H; subst. destruct (Hfail eq_refl) as [L B].
    split; [reflexivity|]. split; [reflexivity|]. split; [exact B|]. split; [exact Hr | intros _; exact L].
Qed.

Lemma fee_refines e t' s s1 res s2 ok2 b1 gas :
  beq (bal s1) b1 -> (forall a, rbal s1 a = bal s a) -> (is_ok res = false -> log s1 = []) ->
  gas_of t' = gas ->
  fee_phase c e s1 t' res = (s2, ok2) ->
  match pay_gas_fee e b1 (tx_from t') gas with
  | Some b2 => ok2 = is_ok res /\ beq (bal s2) b2
  | None =>
      ok2 = false /\
      match (if d_fee_after_body (x_fees c) then None else pay_gas_fee e (bal s) (tx_from t') gas) with
      | Some b2 => beq (bal s2) b2
      | None => beq (bal s2) (pay_left e (bal s) (tx_from t'))
      end
  end.
Proof.
  intros Hb1 Hr Hlog <-. unfold fee_phase, pay_gas_fee. cbv zeta.
  set (from := tx_from t'). set (fees := gas_of t' * price e).
  rewrite bal_touch. rewrite (Hb1 from).
  remember (revert_all (touch s1 from)) as x eqn:Ex.
  assert (Hx : beq (bal x) (bal s)) by (intro a; subst x; rewrite revert_all_bal, rbal_touch; apply Hr).
  destruct (b1 from <? fees).
  - rewrite (Hx from). destruct (d_fee_after_body (x_fees c)); cbn [negb andb].
    + intro H; inversion H; subst s2 ok2. split; [reflexivity|].
      unfold pay_admins_s. rewrite (bal_pay_each_s c Hst), (bal_setbal c Hst).
      unfold pay_left, pay_admins. apply pay_each_beq, bset_beq, Hx.
    + destruct (bal s from <? fees); cbn [negb]; intro H; inversion H; subst s2 ok2; (split; [reflexivity|]);
        unfold pay_admins_s; rewrite (bal_pay_each_s c Hst), (bal_setbal c Hst).
      * unfold pay_left, pay_admins. apply pay_each_beq, bset_beq, Hx.
      * unfold pay_admins. apply pay_each_beq, bset_beq, Hx.
  - intro H; inversion H; subst s2 ok2. split; [reflexivity|].
    unfold pay_admins_s. rewrite (bal_pay_each_s c Hst), (bal_setbal c Hst), bal_touch.
    unfold pay_admins. apply pay_each_beq, bset_beq, Hb1.
Qed.

(** one native transaction *)
Theorem native_tx_refines e idx s t n :
  let '(s', rc, _) := apply_tx c e idx s (to_tx e t n) in
  let '(b', ok, _) := apply_ntx (x_fees c) e (bal s) t in
  beq (bal s') b' /\ r_ok rc = ok.
Proof.
  unfold apply_tx.
  destruct (tx_body c idx (clear_frame s) (to_tx e t n)) as [s1 res] eqn:Eb.
  pose proof (body_refines e idx t n (clear_frame s) s1 res eq_refl Eb) as Hbody.
  unfold apply_ntx. cbn [bal clear_frame] in Hbody.
  destruct (ntx_body (x_fees c) e (bal s) t) as [[[b1 ok] gas] g].
  destruct Hbody as [Hok [Hgas [Hb1 [Hr Hlog]]]].
  destruct (fee_phase c e s1 (to_tx e t n) res) as [s2 ok2] eqn:Ef.
  pose proof (fee_refines e (to_tx e t n) s s1 res s2 ok2 b1 gas Hb1 Hr
                (fun H => Hlog (eq_trans (eq_sym Hok) H)) Hgas Ef) as Hfee.
  cbn [tx_from to_tx] in Hfee.
  rewrite bal_finalise, (bal_setnonce c Hst). cbn [r_ok].
  destruct (pay_gas_fee e b1 (ntx_from t) gas) as [b2|].
  - destruct Hfee as [-> H2]. split; [exact H2 | exact Hok].
  - destruct Hfee as [-> H2].
    destruct (if d_fee_after_body (x_fees c) then None else pay_gas_fee e (bal s) (ntx_from t) gas); split; auto.
Qed.

(** whole blocks: the transactions carry arbitrary nonces [ns] *)
Fixpoint to_txs (e : fenv) (ts : list ntx) (ns : list N) : list tx :=
  match ts, ns with
  | t :: r, n :: m => to_tx e t n :: to_txs e r m
  | t :: r, [] => to_tx e t 0%N :: to_txs e r []
  | [], _ => []
  end.

Theorem native_block_refines e : forall ts ns idx s b,
  beq (bal s) b ->
  let '(s', rcs, _) := apply_txs c e idx s (to_txs e ts ns) in
  let '(b', oks, _) := apply_block (x_fees c) e b ts in
  beq (bal s') b' /\ map r_ok rcs = oks.
Proof.
  induction ts as [|t r IH]; intros ns idx s b Hb.
  - simpl. split; [exact Hb | reflexivity].
  - assert (Hstep : forall n m,
      let '(s', rcs, _) := apply_txs c e idx s (to_tx e t n :: to_txs e r m) in
      let '(b', oks, _) := apply_block (x_fees c) e b (t :: r) in
      beq (bal s') b' /\ map r_ok rcs = oks).
    { intros n m. simpl.
      pose proof (native_tx_refines e idx s t n) as H1.
      destruct (apply_tx c e idx s (to_tx e t n)) as [[s1 rc] c1].
      pose proof (apply_ntx_beq (x_fees c) e (bal s) b t Hb) as H2.
      destruct (apply_ntx (x_fees c) e (bal s) t) as [[x ok] g].
      destruct (apply_ntx (x_fees c) e b t) as [[x' ok'] g'].
      destruct H1 as [H1a H1b]. destruct H2 as [H2a [-> ->]].
      pose proof (IH m (N.succ idx) s1 x' (beq_trans _ _ _ H1a H2a)) as H3.
      destruct (apply_txs c e (N.succ idx) s1 (to_txs e r m)) as [[s2 rcs2] c2].
      destruct (apply_block (x_fees c) e x' r) as [[b2 oks2] g2].
      destruct H3 as [H3a H3b]. split; [exact H3a | simpl; rewrite H1b, H3b; reflexivity]. }
    destruct ns as [|n m]; [apply (Hstep 0%N []) | apply (Hstep n m)].
Qed.

End Refine.


Lemma bal_fold_touch l : forall s, bal (fold_left touch l s) = bal s.
Proof. induction l as [|a l IH]; intro s; simpl; [reflexivity|]. rewrite IH. apply bal_touch. Qed.

(** hence the C14 theorems about [Fees.apply_block] speak about the balances the judged model
    computes: conservation and receipts-per-transaction for the executable model *)
Corollary exec_block_conservation c e dom ts ns s pre :
  d_stale_changer c = false -> d_prev_from_memory c = false -> d_revert_drops_tombstone c = false ->
  x_fees c = fcfg_fixed ->
  admins e <> [] -> NoDup dom -> covers dom e ts ->
  let '(s', rcs, _) := exec_block c e s pre (to_txs e ts ns) in
  let '(_, _, g) := apply_block fcfg_fixed e (bal s) ts in
  conserve dom (bal s) (bal s') g /\ length rcs = length ts.
Proof.
  intros Hst Hpm Htb Hf Ha Hnd Hcov. unfold exec_block.
  pose proof (native_block_refines c Hst Hpm Htb e ts ns 0%N (new_block s pre) (bal s)) as H.
  assert (Hb : beq (bal (new_block s pre)) (bal s))
    by (intro a; unfold new_block; rewrite bal_fold_touch; reflexivity).
  specialize (H Hb). rewrite Hf in H.
  destruct (apply_txs c e 0%N (new_block s pre) (to_txs e ts ns)) as [[s' rcs] cn].
  destruct (apply_block fcfg_fixed e (bal s) ts) as [[b' oks] g] eqn:Eb.
  destruct H as [H1 H2].
  destruct (block_conservation dom e Ha Hnd ts (bal s) b' oks g Hcov Eb) as [Hc Hl].
  split.
  - unfold conserve in *. rewrite (sumb_ext dom (bal s') b'); [exact Hc | intros a _; apply H1].
  - rewrite <- Hl, <- H2. symmetry. apply map_length.
Qed.

(** ... and the books of a block of the executable model are exact up to the rounding loss *)
Corollary exec_block_loss_bound c e dom ts ns s pre :
  d_stale_changer c = false -> d_prev_from_memory c = false -> d_revert_drops_tombstone c = false ->
  x_fees c = fcfg_fixed ->
  admins e <> [] -> NoDup dom -> covers dom e ts ->
  let '(s', rcs, _) := exec_block c e s pre (to_txs e ts ns) in
  let '(_, _, g) := apply_block fcfg_fixed e (bal s) ts in
  loss_bound dom (bal s) (bal s') g (length (admins e)) (length ts).
Proof.
  intros Hst Hpm Htb Hf Ha Hnd Hcov. unfold exec_block.
  pose proof (native_block_refines c Hst Hpm Htb e ts ns 0%N (new_block s pre) (bal s)) as H.
  assert (Hb : beq (bal (new_block s pre)) (bal s))
    by (intro a; unfold new_block; rewrite bal_fold_touch; reflexivity).
  specialize (H Hb). rewrite Hf in H.
  destruct (apply_txs c e 0%N (new_block s pre) (to_txs e ts ns)) as [[s' rcs] cn].
  destruct (apply_block fcfg_fixed e (bal s) ts) as [[b' oks] g] eqn:Eb.
  destruct H as [H1 H2].
  pose proof (block_loss_bound dom e Ha Hnd ts (bal s) b' oks g Hcov Eb) as Hc.
  unfold loss_bound in *. rewrite (sumb_ext dom (bal s') b'); [exact Hc | intros a _; apply H1].
Qed.
