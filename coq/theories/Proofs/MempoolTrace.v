(** The trace predicates hold on every trace of the repaired model: simulation between the
    walker of [Model/MempoolSpec.v] and the pool state.  Part 1: reading observations, and the
    checks that depend on the post-state only. *)
From BX Require Import Base.Prelude Model.Mempool Model.MempoolSpec.
From BX Require Import Proofs.MempoolLib Proofs.MempoolInv Proofs.MempoolInvOps Proofs.MempoolCommit
  Proofs.MempoolGen Proofs.MempoolReach Proofs.MempoolEffects.
From Coq Require Import ZifyBool ZifyN ZifyNat.
Local Open Scope N_scope.

Lemma alookup_combine_map {B} (f : N -> B) (l : list N) a :
  In a l -> alookup N.eqb a (combine l (map f l)) = Some (f a).
Proof.
  induction l as [|x t IH]; [intros []|]. intros Hin. cbn [map combine alookup].
  destruct (NP a x) as [->|Hne]; [reflexivity|]. apply IH. destruct Hin; [congruence | assumption].
Qed.

Lemma alookup_combine_map_tx {B} (f : tx -> B) (l : list tx) t :
  alookup tx_eqb t (combine l (map f l)) = if mem tx_eqb t l then Some (f t) else None.
Proof.
  induction l as [|x r IH]; [reflexivity|]. cbn [map combine alookup]. rewrite (mem_cons tx_eqb).
  destruct (txP t x) as [->|Hne]; [reflexivity|]. exact IH.
Qed.

Section Frame.
  Variable p : params.
  Variables (accts : list N) (univ : list tx).

  Notation observe := (observe cfg_fixed p accts univ).
  Notation obs_pend := (obs_pend accts).
  Notation obs_cmt := (obs_cmt accts).
  Notation obs_get := (obs_get univ).
  Notation held := (held univ).
  Notation slot_held := (slot_held univ).

  Lemma obs_pend_observe s bs r a : In a accts -> obs_pend (observe s bs r) a = get_pn s a.
  Proof.
    intro H. unfold MempoolSpec.obs_pend, vec_get, lookup0. cbn [o_pend Mempool.observe].
    rewrite alookup_combine_map by exact H. reflexivity.
  Qed.

  Lemma obs_cmt_observe s bs r a : In a accts -> obs_cmt (observe s bs r) a = get_cn s a.
  Proof.
    intro H. unfold MempoolSpec.obs_cmt, vec_get, lookup0. cbn [o_cmt Mempool.observe].
    rewrite alookup_combine_map by exact H. reflexivity.
  Qed.

  Lemma cm_prev_observe s bs r a : In a accts -> lookup0 a (combine accts (o_cmt (observe s bs r))) = get_cn s a.
  Proof. intro H. unfold lookup0. cbn [o_cmt Mempool.observe]. rewrite alookup_combine_map by exact H. reflexivity. Qed.

  Lemma obs_get_observe s bs r t :
    obs_get (observe s bs r) t = if mem tx_eqb t univ then get_tx cfg_fixed s t else None.
  Proof.
    unfold MempoolSpec.obs_get. cbn [o_get Mempool.observe]. rewrite alookup_combine_map_tx.
    destruct (mem tx_eqb t univ); reflexivity.
  Qed.

  (** under the invariant a lookup answers with the transaction itself exactly when it occupies its slot *)
  Lemma get_tx_held s t : Inv s -> (get_tx cfg_fixed s t = Some t <-> item_at s (slot_of t) = Some t).
  Proof.
    intro I. unfold get_tx. cbn [d_lookup_hash cfg_fixed]. split.
    - destruct (alookup tx_eqb t (hashmap s)) as [sl|] eqn:E; [|discriminate].
      destruct (I_hm_wf _ _ _ I t sl E) as [-> _].
      destruct (item_at s (slot_of t)) as [t0|]; [|discriminate].
      destruct (txP t0 t) as [->|]; [reflexivity | discriminate].
    - intro H. destruct t as [a n i ts]. unfold slot_of in H. cbn [t_acct t_nonce] in H.
      rewrite (I_it_hash _ _ _ I a n _ H (fun f => match f with end)). rewrite H.
      rewrite (eqb_refl tx_eqb tx_eqb_spec). reflexivity.
  Qed.

  Lemma get_tx_cases s t : get_tx cfg_fixed s t = Some t \/ get_tx cfg_fixed s t = None.
  Proof.
    unfold get_tx. cbn [d_lookup_hash cfg_fixed]. destruct (alookup tx_eqb t (hashmap s)); [|auto].
    destruct (item_at s p0) as [t0|]; [|auto]. destruct (txP t0 t) as [->|]; auto.
  Qed.

  Lemma held_observe s bs r t : Inv s ->
    (held (observe s bs r) t = true <-> In t univ /\ item_at s (slot_of t) = Some t).
  Proof.
    intro I. unfold MempoolSpec.held. rewrite obs_get_observe.
    destruct (mem tx_eqb t univ) eqn:Eu.
    - apply (mem_In tx_eqb tx_eqb_spec) in Eu. rewrite <- (get_tx_held s t I).
      destruct (get_tx_cases s t) as [H|H]; rewrite H.
      + rewrite (eqb_refl tx_eqb tx_eqb_spec). tauto.
      + split; [discriminate | intros [_ H']; discriminate].
    - apply (mem_false tx_eqb tx_eqb_spec) in Eu. split; [discriminate | tauto].
  Qed.

  (** every held transaction belongs to the frame *)
  Definition closed (s : state) : Prop := forall sl t, item_at s sl = Some t -> In t univ /\ In (t_acct t) accts.

  Lemma slot_held_observe s bs r sl : Inv s -> closed s ->
    (slot_held (observe s bs r) sl = true <-> item_at s sl <> None).
  Proof.
    intros I C. unfold MempoolSpec.slot_held. rewrite existsb_exists. split.
    - intros [t [Hin H]]. apply andb_true_iff in H. destruct H as [H1 H2].
      apply slot_eqb_spec in H1. apply (held_observe s bs r t I) in H2. destruct H2 as [_ H2]. rewrite <- H1, H2. discriminate.
    - intro H. destruct (item_at s sl) as [t|] eqn:E; [|congruence]. exists t.
      destruct (C sl t E) as [Hu _]. split; [exact Hu|].
      pose proof (I_it_slot _ _ _ I sl t E) as Hs. apply andb_true_iff. split.
      + apply slot_eqb_spec. exact Hs.
      + apply (held_observe s bs r t I). split; [exact Hu | rewrite Hs; exact E].
  Qed.

  (* ----------------------------------------------------------------------- E_lookup *)

  Lemma e_lookup_ok s bs r : e_lookup univ (observe s bs r) = [].
  Proof.
    unfold e_lookup, flag. replace (forallb _ univ) with true; [reflexivity|]. symmetry. apply forallb_forall.
    intros t Hin. rewrite obs_get_observe. destruct (mem tx_eqb t univ); [|reflexivity].
    destruct (get_tx_cases s t) as [H|H]; rewrite H; [apply (eqb_refl tx_eqb tx_eqb_spec) | reflexivity].
  Qed.

  (* ----------------------------------------------------------------------- E_pending *)

  Lemma run_held_ok s bs r a : Inv s -> closed s -> forall k c,
    (forall n, c <= n < c + N.of_nat k -> item_at s (a, n) <> None) -> item_at s (a, c + N.of_nat k) = None ->
    run_held univ (observe s bs r) a c k = true.
  Proof.
    intros I C. induction k as [|k IH]; intros c Hall Hnone; cbn [run_held].
    - apply negb_true_iff. destruct (MempoolSpec.slot_held univ (observe s bs r) (a, c)) eqn:E; [|reflexivity].
      apply (slot_held_observe s bs r (a, c) I C) in E. rewrite N.add_0_r in Hnone. contradiction.
    - apply andb_true_iff. split.
      + apply (slot_held_observe s bs r (a, c) I C). apply Hall. lia.
      + apply IH; [intros n Hn; apply Hall; lia|]. replace (c + 1 + N.of_nat k) with (c + N.of_nat (S k)) by lia. exact Hnone.
  Qed.

  Lemma e_pending_ok s bs r : Inv s -> closed s -> e_pending accts univ (observe s bs r) = [].
  Proof.
    intros I C. unfold e_pending, flag. replace (forallb _ accts) with true; [reflexivity|]. symmetry.
    apply forallb_forall. intros a Ha. unfold pending_exact.
    rewrite (obs_cmt_observe s bs r a Ha), (obs_pend_observe s bs r a Ha).
    pose proof (I_cn_pn _ _ _ I a (fun f => f)) as Hcp.
    assert (Hlen : get_pn s a - get_cn s a <= len univ).
    { eapply N.le_trans; [apply (range_in_length (map slot_of univ) a (get_cn s a) (get_pn s a))|].
      - intros n Hn. pose proof (I_run _ _ _ I a n Hn) as Hit.
        destruct (item_at s (a, n)) as [t|] eqn:E; [|congruence].
        apply in_map_iff. exists t. split; [apply (I_it_slot _ _ _ I _ _ E) | apply (C _ _ E)].
      - unfold len. rewrite map_length. lia. }
    apply andb_true_iff. split; [apply andb_true_iff; split; lia|].
    replace (N.min (get_pn s a - get_cn s a) (len univ)) with (get_pn s a - get_cn s a) by lia.
    apply run_held_ok; auto.
    - intros n Hn. apply (I_run _ _ _ I). lia.
    - replace (get_cn s a + N.of_nat (N.to_nat (get_pn s a - get_cn s a))) with (get_pn s a) by lia.
      apply (I_next _ _ _ I). intros [].
  Qed.

  (* ----------------------------------------------------------------------- E_flag *)

  Lemma first_free_spec B a : forall fuel c,
    let r := first_free B a c fuel in
    c <= r /\ (forall n, c <= n < r -> In (a, n) B) /\ (r < c + N.of_nat fuel -> ~ In (a, r) B).
  Proof.
    induction fuel as [|f IH]; intros c; cbn [first_free]; cbn zeta.
    - split; [lia|]. split; [intros; lia | intros; lia].
    - destruct (mem slot_eqb (a, c) B) eqn:E.
      + destruct (IH (c + 1)) as [H1 [H2 H3]]. cbn zeta in *. split; [lia|]. split.
        * intros n Hn. destruct (N.eq_dec n c) as [->|]; [apply (mem_In slot_eqb slot_eqb_spec); exact E | apply H2; lia].
        * intro Hlt. apply H3. lia.
      + split; [lia|]. split; [intros; lia|]. intros _. apply (mem_false slot_eqb slot_eqb_spec). exact E.
  Qed.

  (** the first free nonce of an account, counted from the commit nonce, is not batched *)
  Lemma next_batch_free cm B a : ~ In (a, next_batch cm B a) B /\ cm a <= next_batch cm B a /\
    (forall n, cm a <= n < next_batch cm B a -> In (a, n) B).
  Proof.
    unfold next_batch. destruct (first_free_spec B a (length B) (cm a)) as [H1 [H2 H3]]. cbn zeta in *.
    split; [|split; assumption]. intro Hin.
    set (r := first_free B a (cm a) (length B)) in *.
    assert (Hall : forall n, cm a <= n < r + 1 -> In (a, n) B).
    { intros n Hn. destruct (N.eq_dec n r) as [->|]; [exact Hin | apply H2; lia]. }
    pose proof (range_in_length B a (cm a) (r + 1) Hall) as Hl. unfold len in Hl.
    destruct (N.lt_ge_cases r (cm a + N.of_nat (length B))) as [Hlt|Hge]; [exact (H3 Hlt Hin) | lia].
  Qed.

  Lemma e_flag_ok s bs r B : Inv s -> (forall sl, In sl B <-> In sl (batched s)) ->
    e_flag accts (observe s bs r) B = [].
  Proof.
    intros I HB. unfold e_flag, flag.
    destruct (existsb (fun a => next_batch (MempoolSpec.obs_cmt accts (observe s bs r)) B a <? MempoolSpec.obs_pend accts (observe s bs r) a) accts) eqn:E; [|reflexivity].
    apply existsb_exists in E. destruct E as [a [Ha Hlt]]. apply N.ltb_lt in Hlt.
    rewrite (obs_pend_observe s bs r a Ha) in Hlt.
    destruct (next_batch_free (MempoolSpec.obs_cmt accts (observe s bs r)) B a) as [Hfree [Hge _]].
    set (n := next_batch (MempoolSpec.obs_cmt accts (observe s bs r)) B a) in *.
    rewrite (obs_cmt_observe s bs r a Ha) in Hge.
    assert (Hit : item_at s (a, n) <> None) by (apply (I_run _ _ _ I); lia).
    destruct (item_at s (a, n)) as [t|] eqn:Et; [|congruence].
    assert (Hp : In (t_ts t, (a, n)) (priority s)) by (apply (I_prio _ _ _ I); exists t; auto).
    pose proof (I_pnbs _ _ _ I) as Hc. rewrite live_unbatched_nil in Hc.
    assert (1 <= len (unb s (batched s))).
    { unfold unb. clear Hc. induction (priority s) as [|k l IH]; [destruct Hp|]. cbn [filter].
      destruct Hp as [->|Hp].
      - cbn [snd]. replace (mem slot_eqb (a, n) (batched s)) with false.
        + cbn [negb]. rewrite len_cons. lia.
        + symmetry. apply (mem_false slot_eqb slot_eqb_spec). rewrite <- HB. exact Hfree.
      - specialize (IH Hp). destruct (negb (mem slot_eqb (snd k) (batched s))); rewrite ?len_cons; lia. }
    cbn [o_has Mempool.observe]. unfold has_pending. replace (0 <? pnbs s) with true by lia. reflexivity.
  Qed.

  (* ----------------------------------------------------------------------- E_stale *)

  Lemma e_stale_ok s bs r sub : Inv s -> closed s ->
    (forall h, In h (map fst (hashmap s)) -> In h sub) ->
    len (filter (fun t => MempoolSpec.slot_held univ (observe s bs r) (slot_of t)) (dedup tx_eqb sub)) <? nth 4 (o_dbg (observe s bs r)) 0 = false.
  Proof.
    intros I C Hsub. cbn [o_dbg Mempool.observe nth]. apply N.ltb_ge.
    assert (Hincl : incl (map fst (hashmap s))
                         (filter (fun t => MempoolSpec.slot_held univ (observe s bs r) (slot_of t)) (dedup tx_eqb sub))).
    { intros h Hh. apply filter_In. split.
      - apply (In_dedup tx_eqb tx_eqb_spec). apply Hsub. exact Hh.
      - destruct (alookup tx_eqb h (hashmap s)) as [sl|] eqn:E.
        + destruct (I_hm_wf _ _ _ I h sl E) as [-> Hit]. apply (slot_held_observe s bs r _ I C). exact Hit.
        + apply (alookup_None tx_eqb tx_eqb_spec) in E. contradiction. }
    pose proof (NoDup_incl_length (I_hm_nodup _ _ _ I) Hincl) as Hl.
    rewrite map_length in Hl. unfold len. lia.
  Qed.

  (* ----------------------------------------------------------------------- the simulation *)

  Record Sim (w : wst) (s : state) : Prop := {
    S_B : forall sl, In sl (w_B w) <-> In sl (batched s);
    S_seq : w_seq w = seqno s;
    S_sub : forall h, In h (map fst (hashmap s)) -> In h (w_sub w);
    S_frame : forall t, In t (w_sub w) -> In t univ /\ In (t_acct t) accts;
    S_arr : forall t, item_at s (slot_of t) = Some t ->
              alookup tx_eqb t (w_arr w) = alookup slot_eqb (slot_of t) (arrival s);
    S_arr_nd : NoDup (map fst (arrival s));
    S_led : forall a, lookup0 a (w_led w) <= get_cn s a;
    S_live : forall h, In h (w_live w) -> In h (map fst (hashmap s));
    S_prev : exists bs r, w_prev w = observe s bs r
  }.

  Lemma Sim_closed w s : Inv s -> Sim w s -> closed s.
  Proof.
    intros I S [a n] t E. apply (S_frame _ _ S). apply (S_sub _ _ S).
    eapply (alookup_Some_key tx_eqb tx_eqb_spec). apply (I_it_hash _ _ _ I a n t E). intros [].
  Qed.

  (* ----------------------------------------------------------------------- one generated batch *)

  Lemma tx_at_slot s sl t : Inv s -> item_at s sl = Some t -> tx_at s sl = t /\ slot_of t = sl.
  Proof. intros I E. unfold tx_at. rewrite E. split; [reflexivity | apply (I_it_slot _ _ _ I _ _ E)]. Qed.

  Lemma check_txs_ok s lg cm sub : Inv s ->
    (forall h, In h (map fst (hashmap s)) -> In h sub) ->
    (forall a, lookup0 a lg <= get_cn s a) ->
    forall slots B B',
    (forall sl, In sl B <-> In sl B') ->
    seq_ok s B' slots ->
    (forall sl, In sl slots -> item_at s sl <> None /\ cm (fst sl) = get_cn s (fst sl)) ->
    exists B2, check_txs lg cm sub B (map (tx_at s) slots) = ([], B2) /\
               (forall sl, In sl B2 <-> In sl slots \/ In sl B).
  Proof.
    intros I Hsub Hlg. induction slots as [|[a n] r IH]; intros B B' HB Hseq Hit; cbn [map check_txs].
    - exists B. split; [reflexivity | intros; cbn [In]; tauto].
    - destruct Hseq as [[He1 [He2 He3]] Hseq]. cbn [fst snd] in *.
      destruct (Hit (a, n) (or_introl eq_refl)) as [Hi Hcm]. cbn [fst] in Hcm.
      destruct (item_at s (a, n)) as [t|] eqn:Et; [|congruence].
      destruct (tx_at_slot s (a, n) t I Et) as [Htx Hsl]. rewrite Htx.
      assert (Ha : t_acct t = a) by (destruct t; inversion Hsl; reflexivity).
      assert (Hn : t_nonce t = n) by (destruct t; inversion Hsl; reflexivity).
      rewrite Ha, Hn.
      destruct (IH ((a, n) :: B) ((a, n) :: B')) as [B2 [E2 HB2]].
      + intros sl. specialize (HB sl). cbn [In]. tauto.
      + exact Hseq.
      + intros sl Hin. apply Hit. right. exact Hin.
      + exists B2. rewrite E2. split.
        * assert (F1 : (n <? cm a) = false) by (rewrite Hcm; lia).
          assert (F2 : mem slot_eqb (a, n) B = false) by (apply (mem_false slot_eqb slot_eqb_spec); rewrite HB; exact He2).
          assert (F3 : negb ((n =? cm a) || ((1 <=? n) && mem slot_eqb (a, n - 1) B)) = false).
          { apply negb_false_iff. rewrite Hcm. destruct He3 as [->|He3]; [rewrite N.eqb_refl; reflexivity|].
            apply orb_true_iff. right. apply andb_true_iff. split.
            - destruct (N.eq_dec n 0) as [->|]; [exfalso; apply He2; exact He3 | lia].
            - apply (mem_In slot_eqb slot_eqb_spec). rewrite HB. exact He3. }
          assert (F4 : negb (mem tx_eqb t sub) = false).
          { apply negb_false_iff. apply (mem_In tx_eqb tx_eqb_spec). apply Hsub.
            eapply (alookup_Some_key tx_eqb tx_eqb_spec). apply (I_it_hash _ _ _ I a n t Et). intros []. }
          assert (F5 : (n <? lookup0 a lg) = false) by (specialize (Hlg a); lia).
          rewrite F1, F2, F3, F4, F5. reflexivity.
        * intros sl. specialize (HB2 sl). cbn [In] in *. tauto.
  Qed.

  (* ----------------------------------------------------------------------- touching the cache *)

  Lemma touch_item accs : forall s x, item_at (fold_left touch accs s) x = item_at s x.
  Proof. intros s x. destruct (fold_touch_fields accs s) as [_ [H _]]. cbn zeta in H. unfold item_at. rewrite H. reflexivity. Qed.

  Lemma touch_pn accs s a : get_pn (fold_left touch accs s) a = get_pn s a.
  Proof.
    destruct (fold_touch_fields accs s) as [_ [_ [_ [H _]]]]. cbn zeta in H. unfold get_pn. rewrite H, fold_touch_cn. reflexivity.
  Qed.

  Lemma touch_get_tx accs s t : get_tx cfg_fixed (fold_left touch accs s) t = get_tx cfg_fixed s t.
  Proof.
    destruct (fold_touch_fields accs s) as [H1 [H2 _]]. cbn zeta in *. unfold get_tx, item_at. rewrite H1, H2. reflexivity.
  Qed.

  Lemma observe_touch accs s bs r : observe (fold_left touch accs s) bs r = observe s bs r.
  Proof.
    destruct (fold_touch_fields accs s) as [H1 [H2 [H3 [H4 [H5 [H6 [H7 [H8 [H9 [H10 H11]]]]]]]]]]. cbn zeta in *.
    unfold Mempool.observe. f_equal.
    - apply map_ext. intro a. apply touch_pn.
    - apply map_ext. intro a. apply fold_touch_cn.
    - unfold has_pending. rewrite H9. reflexivity.
    - unfold pool_full. rewrite H1. reflexivity.
    - apply map_ext. intro t. apply touch_get_tx.
    - rewrite H9, H7, H6, H8, H1, H5, H10. reflexivity.
  Qed.

  Lemma Sim_touch accs w s : Sim w s -> Sim w (fold_left touch accs s).
  Proof.
    intro S. destruct (fold_touch_fields accs s) as [H1 [H2 [H3 [H4 [H5 [H6 [H7 [H8 [H9 [H10 H11]]]]]]]]]]. cbn zeta in *.
    constructor.
    - intro sl. rewrite H8. apply (S_B _ _ S).
    - rewrite H10. apply (S_seq _ _ S).
    - rewrite H1. apply (S_sub _ _ S).
    - apply (S_frame _ _ S).
    - intros t. rewrite touch_item, H5. apply (S_arr _ _ S).
    - rewrite H5. apply (S_arr_nd _ _ S).
    - intro a. rewrite fold_touch_cn. apply (S_led _ _ S).
    - rewrite H1. apply (S_live _ _ S).
    - destruct (S_prev _ _ S) as [bs [r E]]. exists bs, r. rewrite observe_touch. exact E.
  Qed.

  (* ----------------------------------------------------------------------- reading the previous observation *)

  Section Prev.
    Variables (w : wst) (s : state).
    Hypothesis I : Inv s.
    Hypothesis S : Sim w s.

    Lemma prev_cmt a : In a accts -> obs_cmt (w_prev w) a = get_cn s a.
    Proof. destruct (S_prev _ _ S) as [bs [r ->]]. apply obs_cmt_observe. Qed.
    Lemma prev_pend a : In a accts -> obs_pend (w_prev w) a = get_pn s a.
    Proof. destruct (S_prev _ _ S) as [bs [r ->]]. apply obs_pend_observe. Qed.
    Lemma prev_cm a : In a accts -> lookup0 a (cm_prev accts w) = get_cn s a.
    Proof. unfold cm_prev. destruct (S_prev _ _ S) as [bs [r ->]]. apply cm_prev_observe. Qed.
    Lemma prev_held t : held (w_prev w) t = true <-> In t univ /\ item_at s (slot_of t) = Some t.
    Proof. destruct (S_prev _ _ S) as [bs [r ->]]. apply held_observe. exact I. Qed.
  End Prev.

  (** the checks that read the post-state only *)
  Lemma post_checks s' o bs r B2 (w : wst) :
    Inv s' -> closed s' ->
    (forall sl, In sl B2 <-> In sl (batched s')) ->
    (forall h, In h (map fst (hashmap s')) -> In h (st_sub w o)) ->
    e_lookup univ (observe s' bs r) = [] /\ e_flag accts (observe s' bs r) B2 = [] /\
    e_pending accts univ (observe s' bs r) = [] /\ e_stale univ w o (observe s' bs r) = [].
  Proof.
    intros I C HB Hsub. split; [apply e_lookup_ok|]. split; [apply e_flag_ok; assumption|].
    split; [apply e_pending_ok; assumption|].
    unfold e_stale, flag. rewrite (e_stale_ok s' bs r (st_sub w o) I C Hsub). reflexivity.
  Qed.
End Frame.
