(** CommitTransactions preserves the pool invariant (repaired configuration), with the facts
    about the resulting state that the trace proofs need. *)
From BX Require Import Base.Prelude Model.Mempool Proofs.MempoolLib Proofs.MempoolInv Proofs.MempoolInvOps.
From Coq Require Import ZifyBool ZifyN ZifyNat.
Local Open Scope N_scope.

Lemma fold_aset_lookup (upd : list (N * N)) : forall cn0 x, NoDup (map fst upd) ->
  alookup N.eqb x (fold_left (fun cn e => aset N.eqb (fst e) (snd e) cn) upd cn0) =
  match alookup N.eqb x upd with Some v => Some v | None => alookup N.eqb x cn0 end.
Proof.
  induction upd as [|[k v] r IH]; intros cn0 x Hnd; cbn [fold_left alookup fst snd]; [reflexivity|].
  inversion Hnd as [|? ? Hk Hr]; subst. rewrite IH by exact Hr.
  rewrite (alookup_aset N.eqb Neqb_spec). destruct (NP x k) as [->|Hne].
  - destruct (alookup N.eqb k r) eqn:E; [|reflexivity].
    exfalso. apply Hk. eapply (alookup_Some_key N.eqb Neqb_spec). exact E.
  - reflexivity.
Qed.

Lemma filter_filter_len {A} (f g p : A -> bool) l :
  (forall x, In x l -> p x = true -> f x = true -> g x = true) ->
  len (filter f (filter p l)) <= len (filter g l).
Proof.
  induction l as [|x t IH]; intro H; cbn; [lia|].
  assert (IH' : len (filter f (filter p t)) <= len (filter g t)) by (apply IH; intros; apply H; cbn; auto).
  destruct (p x) eqn:P; cbn.
  - destruct (f x) eqn:F.
    + rewrite (H x (or_introl eq_refl) P F). rewrite !len_cons. lia.
    + destruct (g x); rewrite ?len_cons; lia.
  - destruct (g x); rewrite ?len_cons; lia.
Qed.

Lemma filter_ext_len {A} (f g : A -> bool) l :
  (forall x, In x l -> f x = g x) -> len (filter f l) = len (filter g l).
Proof. intro H. rewrite (filter_ext_in f g l H). reflexivity. Qed.

(* ------------------------------------------------------------------------- the hash loop *)

Section HashLoop.
  Variable s : state.
  Hypothesis I : Inv s.
  Variable hs0 : list tx.

  Definition cnew (acc : cacc) (a : N) : N :=
    match alookup N.eqb a (c_upd acc) with Some v => v | None => get_cn s a end.

  Record CAcc (acc : cacc) : Prop := {
    CA_nodup : NoDup (map fst (c_hm acc));
    CA_sub : forall h sl, alookup tx_eqb h (c_hm acc) = Some sl -> alookup tx_eqb h (hashmap s) = Some sl;
    CA_hm : forall h sl, alookup tx_eqb h (hashmap s) = Some sl ->
              alookup tx_eqb h (c_hm acc) = Some sl \/ (In (fst sl) (c_dirty acc) /\ snd sl < cnew acc (fst sl));
    CA_bsub : forall sl, In sl (c_b acc) -> In sl (batched s);
    CA_b : forall sl, In sl (batched s) ->
              In sl (c_b acc) \/ (In (fst sl) (c_dirty acc) /\ snd sl < cnew acc (fst sl));
    CA_upd_nodup : NoDup (map fst (c_upd acc));
    CA_upd : forall a v, alookup N.eqb a (c_upd acc) = Some v ->
              In a (c_dirty acc) /\ get_cn s a < v /\
              exists h, In h hs0 /\ t_acct h = a /\ t_nonce h + 1 = v;
    CA_dirty : forall a, In a (c_dirty acc) -> exists n, item_at s (a, n) <> None;
    CA_dirty_nodup : NoDup (c_dirty acc)
  }.

  Lemma CAcc_init : CAcc (mkC [] [] (hashmap s) (batched s)).
  Proof.
    constructor; cbn; auto.
    - exact (I_hm_nodup _ _ _ I).
    - constructor.
    - intros; discriminate.
    - intros a [].
    - constructor.
  Qed.

  Lemma cnew_ge acc a : CAcc acc -> get_cn s a <= cnew acc a.
  Proof.
    intro C. unfold cnew. destruct (alookup N.eqb a (c_upd acc)) eqn:E; [|lia].
    destruct (CA_upd _ C a n E) as [_ [H _]]. lia.
  Qed.

  Lemma c_step_ok acc h : In h hs0 -> CAcc acc -> CAcc (c_step s acc h).
  Proof.
    intros Hh C. unfold c_step. destruct (alookup tx_eqb h (c_hm acc)) as [[a n]|] eqn:E; [|exact C].
    cbn [fst snd].
    pose proof (CA_sub _ C h (a, n) E) as Hs.
    destruct (I_hm_wf _ _ _ I h (a, n) Hs) as [Hslot Hitem].
    set (cond := (lookup0 a (c_upd acc) <? n + 1) && (get_cn s a <? n + 1)).
    set (upd' := if cond then aset N.eqb a (n + 1) (c_upd acc) else c_upd acc).
    set (acc' := mkC upd' (sadd N.eqb a (c_dirty acc)) (aremove tx_eqb h (c_hm acc)) (srem slot_eqb (a, n) (c_b acc))).
    assert (Hdirty : forall x, In x (c_dirty acc) -> In x (c_dirty acc')).
    { intros x Hx. cbn. apply (In_sadd N.eqb Neqb_spec). auto. }
    assert (Hmono : forall x, cnew acc x <= cnew acc' x).
    { intro x. unfold cnew. cbn [c_upd acc']. unfold upd'. destruct cond eqn:Ec; [|lia].
      rewrite (alookup_aset N.eqb Neqb_spec). destruct (NP x a) as [->|Hne]; [|lia].
      unfold cond in Ec. unfold lookup0 in Ec. destruct (alookup N.eqb a (c_upd acc)); lia. }
    assert (Hn : n < cnew acc' a).
    { unfold cnew. cbn [c_upd acc']. unfold upd'. destruct cond eqn:Ec.
      - rewrite (alookup_aset N.eqb Neqb_spec), N.eqb_refl. lia.
      - unfold cond, lookup0 in Ec. destruct (alookup N.eqb a (c_upd acc)) as [v|] eqn:Ev.
        + destruct (CA_upd _ C a v Ev) as [_ [Hv _]]. lia.
        + lia. }
    assert (Hain : In a (c_dirty acc')) by (cbn; apply (In_sadd N.eqb Neqb_spec); auto).
    constructor.
    - cbn. apply (NoDup_aremove tx_eqb tx_eqb_spec). exact (CA_nodup _ C).
    - intros h' sl. cbn [c_hm acc']. rewrite (alookup_aremove tx_eqb tx_eqb_spec).
      destruct (tx_eqb h' h); [discriminate | apply (CA_sub _ C)].
    - intros h' sl H. cbn [c_hm acc']. rewrite (alookup_aremove tx_eqb tx_eqb_spec).
      destruct (txP h' h) as [->|Hne].
      + right. rewrite Hs in H. inversion H; subst. cbn [fst snd]. auto.
      + destruct (CA_hm _ C h' sl H) as [H1|[H1 H2]]; [left; exact H1|].
        right. split; [auto|]. specialize (Hmono (fst sl)). lia.
    - intros sl. cbn [c_b acc']. rewrite (In_srem slot_eqb slot_eqb_spec). intros [_ H]. apply (CA_bsub _ C). exact H.
    - intros sl H. cbn [c_b acc']. rewrite (In_srem slot_eqb slot_eqb_spec).
      destruct (slotP sl (a, n)) as [->|Hne].
      + right. cbn [fst snd]. auto.
      + destruct (CA_b _ C sl H) as [H1|[H1 H2]]; [left; auto|].
        right. split; [auto|]. specialize (Hmono (fst sl)). lia.
    - cbn [c_upd acc']. unfold upd'. destruct cond; [apply (NoDup_aset N.eqb Neqb_spec)|]; exact (CA_upd_nodup _ C).
    - intros x v. cbn [c_upd acc']. unfold upd'. destruct cond eqn:Ec.
      + rewrite (alookup_aset N.eqb Neqb_spec). destruct (NP x a) as [->|Hne].
        * intros [= <-]. split; [exact Hain|]. split; [unfold cond in Ec; lia|].
          exists h. split; [exact Hh|]. destruct h as [ha hn hi ht]. cbn in *. inversion Hslot; subst. auto.
        * intro H. destruct (CA_upd _ C x v H) as [H1 H2]. split; auto.
      + intro H. destruct (CA_upd _ C x v H) as [H1 H2]. split; auto.
    - intros x Hx. cbn [c_dirty acc'] in Hx. apply (In_sadd N.eqb Neqb_spec) in Hx. destruct Hx as [->|Hx].
      + exists n. exact Hitem.
      + apply (CA_dirty _ C). exact Hx.
    - cbn [c_dirty acc']. apply (NoDup_sadd N.eqb Neqb_spec). exact (CA_dirty_nodup _ C).
  Qed.

  Lemma c_fold_ok hs : forall acc, incl hs hs0 -> CAcc acc -> CAcc (fold_left (c_step s) hs acc).
  Proof.
    induction hs as [|h r IH]; intros acc Hi C; cbn [fold_left]; [exact C|].
    apply IH; [intros x Hx; apply Hi; right; exact Hx|]. apply c_step_ok; [apply Hi; left; reflexivity | exact C].
  Qed.
End HashLoop.

(* ------------------------------------------------------------------------- forward *)

Notation drop := (drop_slot cfg_fixed).

Lemma drop_fields t sl :
  index (drop t sl) = srem slot_eqb sl (index t) /\ cnonce (drop t sl) = cnonce t /\ pnonce (drop t sl) = pnonce t /\
  ledger (drop t sl) = ledger t /\ pnbs (drop t sl) = pnbs t /\ seqno (drop t sl) = seqno t.
Proof. unfold drop_slot. destruct (item_at t sl); cbn; repeat split. Qed.

Lemma drop_cn t sl a : get_cn (drop t sl) a = get_cn t a.
Proof. unfold drop_slot. destruct (item_at t sl); reflexivity. Qed.
Lemma drop_pn t sl a : get_pn (drop t sl) a = get_pn t a.
Proof. unfold drop_slot. destruct (item_at t sl); reflexivity. Qed.

Lemma drop_item t sl x : item_at (drop t sl) x = if slot_eqb x sl then None else item_at t x.
Proof.
  unfold drop_slot. destruct (item_at t sl) eqn:E.
  - unfold item_at. scbn. apply (alookup_aremove slot_eqb slot_eqb_spec).
  - scbn. change (item_at (set_index t (srem slot_eqb sl (index t))) x) with (item_at t x).
    destruct (slotP x sl) as [->|]; [exact E | reflexivity].
Qed.

Lemma drop_batched t sl x : In x (batched (drop t sl)) <-> In x (batched t) /\ (item_at t sl <> None -> x <> sl).
Proof.
  unfold drop_slot. destruct (item_at t sl) eqn:E; scbn.
  - rewrite (In_srem slot_eqb slot_eqb_spec). split; [intros [H1 H2]; split; auto | intros [H1 H2]; split; [apply H2; discriminate | auto]].
  - split; [intro H; split; [exact H | intro Hn; exfalso; apply Hn; reflexivity] | tauto].
Qed.

Lemma drop_hashmap t sl h : NoDup (map fst (hashmap t)) ->
  alookup tx_eqb h (hashmap (drop t sl)) =
  match alookup tx_eqb h (hashmap t) with
  | Some x => if slot_eqb x sl && match item_at t sl with Some _ => true | None => false end then None else Some x
  | None => None
  end.
Proof.
  intro Hnd. unfold drop_slot. destruct (item_at t sl) eqn:E; scbn.
  - rewrite (alookup_filter tx_eqb tx_eqb_spec) by exact Hnd.
    destruct (alookup tx_eqb h (hashmap t)) as [x|]; [|reflexivity]. cbn [snd].
    rewrite andb_true_r. destruct (slot_eqb x sl); reflexivity.
  - destruct (alookup tx_eqb h (hashmap t)) as [x|]; [|reflexivity]. rewrite andb_false_r. reflexivity.
Qed.

(** dropping a slot below the commit nonce of an account whose commit is in progress keeps the
    in-commit invariant *)
Lemma drop_inv a D t m : InvW [] (a :: D) t -> m < get_cn t a -> InvW [] (a :: D) (drop t (a, m)).
Proof.
  intros I Hm. set (sl := (a, m)).
  assert (Hcn := drop_cn t sl). assert (Hpn := drop_pn t sl). assert (Hit := drop_item t sl).
  destruct (item_at t sl) as [t0|] eqn:E0.
  2:{ (* only the index entry goes *)
    assert (Hst : drop t sl = set_index t (srem slot_eqb sl (index t))) by (unfold drop_slot; rewrite E0; reflexivity).
    rewrite Hst. constructor; try (apply I).
    intros x. cbn [index set_index]. change (item_at (set_index t (srem slot_eqb sl (index t))) x) with (item_at t x).
    rewrite (In_srem slot_eqb slot_eqb_spec), (I_idx _ _ _ I). split; [tauto|]. intro H. split; [|exact H].
    intros ->. apply H. exact E0. }
  assert (Hfields : items (drop t sl) = aremove slot_eqb sl (items t) /\
                    priority (drop t sl) = srem pkey_eqb (t_ts t0, sl) (priority t) /\
                    arrival (drop t sl) = aremove slot_eqb sl (arrival t) /\
                    parking (drop t sl) = srem slot_eqb sl (parking t) /\
                    hashmap (drop t sl) = filter (fun e => negb (slot_eqb (snd e) sl)) (hashmap t) /\
                    batched (drop t sl) = srem slot_eqb sl (batched t) /\
                    pnonce (drop t sl) = pnonce t /\ pnbs (drop t sl) = pnbs t).
  { unfold drop_slot. rewrite E0. scbn. repeat split. }
  destruct Hfields as [F1 [F2 [F3 [F4 [F5 [F6 [F7 F8]]]]]]].
  assert (Hhm : forall h, alookup tx_eqb h (hashmap (drop t sl)) =
                match alookup tx_eqb h (hashmap t) with Some x => if slot_eqb x sl then None else Some x | None => None end).
  { intro h. rewrite drop_hashmap by exact (I_hm_nodup _ _ _ I). rewrite E0.
    destruct (alookup tx_eqb h (hashmap t)); [rewrite andb_true_r|]; reflexivity. }
  constructor.
  - rewrite F5. apply NoDup_map_filter. exact (I_hm_nodup _ _ _ I).
  - intros h x. rewrite Hhm, Hit. destruct (alookup tx_eqb h (hashmap t)) as [y|] eqn:E; [|discriminate].
    destruct (slot_eqb y sl) eqn:E2; [discriminate|]. intros [= <-]. rewrite E2. apply (I_hm_wf _ _ _ I). exact E.
  - intros x t1. rewrite Hit. destruct (slot_eqb x sl); [discriminate | apply (I_it_slot _ _ _ I)].
  - intros b n t1. rewrite Hit, Hhm, Hcn. destruct (slot_eqb (b, n) sl) eqn:E2; [discriminate|].
    intros H1 H2. rewrite (I_it_hash _ _ _ I b n t1 H1 H2). rewrite E2. reflexivity.
  - intros x. destruct (drop_fields t sl) as [Fi _]. rewrite Fi, Hit, (In_srem slot_eqb slot_eqb_spec), (I_idx _ _ _ I).
    destruct (slotP x sl) as [->|Hne]; split; try tauto; try congruence.
  - intros b Hb. rewrite Hcn, Hpn. apply (I_cn_pn _ _ _ I). exact Hb.
  - intros b n Hb. rewrite Hit, Hcn. destruct (slot_eqb (b, n) sl); [congruence | apply (I_it_cn _ _ _ I); exact Hb].
  - intros b n. rewrite Hcn, Hpn, Hit. intro H. destruct (slotP (b, n) sl) as [E|Hne].
    + inversion E; subst. lia.
    + apply (I_run _ _ _ I). exact H.
  - intros b Hb. rewrite Hpn, Hit. destruct (slot_eqb (b, get_pn t b) sl); [reflexivity | apply (I_next _ _ _ I); exact Hb].
  - intros b n Hb. rewrite Hit, F7. destruct (slot_eqb (b, n) sl); [congruence | apply (I_pn_entry _ _ _ I); exact Hb].
  - intros ts b n. rewrite F2, (In_srem pkey_eqb pkey_eqb_spec), (I_prio _ _ _ I), Hpn. setoid_rewrite Hit.
    destruct (slotP (b, n) sl) as [E|Hne].
    + split; [|intros [t1 [H _]]; discriminate]. intros [Hk [t1 [H1 [H2 H3]]]]. exfalso. apply Hk.
      rewrite E in H1. rewrite E0 in H1. inversion H1; subst. rewrite E. reflexivity.
    + split; [intros [_ H]; exact H|]. intro H. split; [|exact H]. intro Hk. apply Hne. exact (f_equal snd Hk).
  - rewrite F2. apply psorted_filter. exact (I_prio_sorted _ _ _ I).
  - intros b n Hb. rewrite Hit, Hpn, F4, (In_srem slot_eqb slot_eqb_spec). destruct (slotP (b, n) sl) as [E|Hne]; [congruence|].
    intros H1 H2. split; [exact Hne | apply (I_park _ _ _ I); auto].
  - intros b n. rewrite F6, Hpn, (In_srem slot_eqb slot_eqb_spec). intros [_ H]. apply (I_b_hi _ _ _ I). exact H.
  - intros b n Hb. rewrite F6, Hcn, (In_srem slot_eqb slot_eqb_spec). intros [_ H]. apply (I_b_lo _ _ _ I); auto.
  - intros b n. rewrite F6, Hcn, !(In_srem slot_eqb slot_eqb_spec). intros [H1 H2] H3. split.
    + intro E. inversion E; subst. lia.
    + apply (I_b_down _ _ _ I); auto.
  - intros x. rewrite F6, Hit, (In_srem slot_eqb slot_eqb_spec). intros [H1 H2].
    destruct (slotP x sl); [congruence | apply (I_b_item _ _ _ I); exact H2].
  - unfold live_unbatched. rewrite F2, F8. unfold srem.
    eapply N.le_trans; [|exact (I_pnbs _ _ _ I)]. unfold live_unbatched.
    apply filter_filter_len. intros k Hk Hp Hu. unfold ub_pred in *. rewrite F6 in Hu.
    rewrite (mem_srem slot_eqb slot_eqb_spec) in Hu.
    destruct k as [ts [b n]]. cbn [fst snd] in *.
    assert (Hne : slot_eqb sl (b, n) = false).
    { destruct (slotP sl (b, n)) as [E|]; [|reflexivity]. exfalso.
      apply (I_prio _ _ _ I) in Hk. destruct Hk as [t1 [H1 [H2 _]]]. rewrite <- E in H1. rewrite E0 in H1.
      inversion H1; subst. rewrite <- E in Hp. rewrite (eqb_refl pkey_eqb pkey_eqb_spec) in Hp. discriminate. }
    rewrite Hne in Hu. cbn [negb andb] in Hu. rewrite Hcn in Hu. exact Hu.
  - intros x. rewrite F3, (alookup_aremove slot_eqb slot_eqb_spec), Hit.
    destruct (slot_eqb x sl); [tauto | apply (I_arr _ _ _ I)].
Qed.

Lemma fold_drop_inv a D gone : forall t,
  InvW [] (a :: D) t -> (forall sl, In sl gone -> fst sl = a /\ snd sl < get_cn t a) ->
  InvW [] (a :: D) (fold_left drop gone t).
Proof.
  induction gone as [|[b m] r IH]; intros t I H; cbn [fold_left]; [exact I|].
  destruct (H (b, m) (or_introl eq_refl)) as [Hb Hm]. cbn in Hb, Hm. subst b.
  apply IH; [apply drop_inv; assumption|].
  intros sl Hin. rewrite drop_cn. apply H. right. exact Hin.
Qed.

Lemma fold_drop_cn gone : forall t a, get_cn (fold_left drop gone t) a = get_cn t a.
Proof. induction gone as [|x r IH]; intros t a; cbn [fold_left]; [reflexivity|]. rewrite IH. apply drop_cn. Qed.
Lemma fold_drop_pn gone : forall t a, get_pn (fold_left drop gone t) a = get_pn t a.
Proof. induction gone as [|x r IH]; intros t a; cbn [fold_left]; [reflexivity|]. rewrite IH. apply drop_pn. Qed.
Lemma fold_drop_pnonce gone : forall t, pnonce (fold_left drop gone t) = pnonce t.
Proof.
  induction gone as [|x r IH]; intros t; cbn [fold_left]; [reflexivity|]. rewrite IH.
  destruct (drop_fields t x) as [_ [_ [H _]]]. exact H.
Qed.
Lemma fold_drop_pnbs gone : forall t, pnbs (fold_left drop gone t) = pnbs t.
Proof.
  induction gone as [|x r IH]; intros t; cbn [fold_left]; [reflexivity|]. rewrite IH.
  destruct (drop_fields t x) as [_ [_ [_ [_ [H _]]]]]. exact H.
Qed.
Lemma fold_drop_seqno gone : forall t, seqno (fold_left drop gone t) = seqno t.
Proof.
  induction gone as [|x r IH]; intros t; cbn [fold_left]; [reflexivity|]. rewrite IH.
  destruct (drop_fields t x) as [_ [_ [_ [_ [_ H]]]]]. exact H.
Qed.

Lemma fold_drop_item gone : forall t x,
  item_at (fold_left drop gone t) x = if mem slot_eqb x gone then None else item_at t x.
Proof.
  induction gone as [|y r IH]; intros t x; cbn [fold_left]; [reflexivity|].
  rewrite IH, drop_item, (mem_cons slot_eqb). destruct (slot_eqb x y), (mem slot_eqb x r); reflexivity.
Qed.

Lemma fold_drop_batched gone : forall t x,
  (forall sl, In sl gone -> item_at t sl <> None) -> NoDup gone ->
  (In x (batched (fold_left drop gone t)) <-> In x (batched t) /\ ~ In x gone).
Proof.
  induction gone as [|y r IH]; intros t x H Hnd; cbn [fold_left]; [cbn; tauto|].
  inversion Hnd as [|? ? Hy Hr]; subst.
  rewrite IH; [|intros sl Hin; rewrite drop_item; destruct (slotP sl y) as [->|]; [tauto | apply H; right; exact Hin] | exact Hr].
  rewrite drop_batched. cbn [In]. split.
  - intros [[H1 H2] H3]. split; [exact H1|]. intros [E|E]; [|auto]. subst. apply H2; [apply H; left|]; reflexivity.
  - intros [H1 H2]. repeat split; auto.
Qed.

Lemma fold_drop_hashmap gone : forall t h,
  InvW [] [] t \/ True -> NoDup (map fst (hashmap t)) ->
  (forall sl, In sl gone -> item_at t sl <> None) -> NoDup gone ->
  alookup tx_eqb h (hashmap (fold_left drop gone t)) =
  match alookup tx_eqb h (hashmap t) with
  | Some x => if mem slot_eqb x gone then None else Some x
  | None => None
  end.
Proof.
  induction gone as [|y r IH]; intros t h _ Hnd H Hg; cbn [fold_left].
  - destruct (alookup tx_eqb h (hashmap t)); reflexivity.
  - inversion Hg as [|? ? Hy Hr]; subst.
    rewrite IH; [| right; exact Logic.I | | | exact Hr].
    + rewrite drop_hashmap by exact Hnd.
      destruct (alookup tx_eqb h (hashmap t)) as [x|]; [|reflexivity].
      rewrite (mem_cons slot_eqb).
      destruct (item_at t y) eqn:E; [|exfalso; apply (H y); [left; reflexivity | exact E]].
      rewrite andb_true_r. destruct (slot_eqb x y); [reflexivity|]. reflexivity.
    + unfold drop_slot. destruct (item_at t y); scbn; [apply NoDup_map_filter|]; exact Hnd.
    + intros sl Hin. rewrite drop_item. destruct (slotP sl y) as [->|]; [tauto | apply H; right; exact Hin].
Qed.

(** forwarding one account *)
Section Forward.
  Variables (a : N) (D : list N) (t : state).
  Hypothesis I : InvW [] (a :: D) t.
  Hypothesis HaD : ~ In a D.
  Let c := get_cn t a.
  Let gone := filter (fun sl => (fst sl =? a) && (snd sl <? c)) (index t).
  Let t1 := fold_left drop gone t.

  Lemma gone_spec sl : In sl gone <-> In sl (index t) /\ fst sl = a /\ snd sl < c.
  Proof. unfold gone. rewrite filter_In, andb_true_iff, N.eqb_eq, N.ltb_lt. tauto. Qed.

  Lemma fwd_t1_inv : InvW [] (a :: D) t1.
  Proof. apply fold_drop_inv; [exact I|]. intros sl H. apply gone_spec in H. tauto. Qed.

  Lemma fwd_t1_item n : item_at t1 (a, n) <> None -> c <= n.
  Proof.
    unfold t1. rewrite fold_drop_item. destruct (mem slot_eqb (a, n) gone) eqn:E; [congruence|].
    intro H. apply (mem_false slot_eqb slot_eqb_spec) in E.
    destruct (N.lt_ge_cases n c) as [Hlt|Hge]; [|exact Hge].
    exfalso. apply E. apply gone_spec. split; [apply (I_idx _ _ _ I); exact H | auto].
  Qed.

  (** after the slots are gone the account no longer needs its waivers, provided the pending
      nonce is not behind the commit nonce *)
  Lemma strengthen (u : state) :
    InvW [] (a :: D) u -> (forall n, item_at u (a, n) <> None -> get_cn u a <= n) ->
    get_cn u a <= get_pn u a -> InvW [] D u.
  Proof.
    intros J Hitem Hcp. constructor; try (apply J).
    - intros b n t0 H1 H2. apply (I_it_hash _ _ _ J b n t0 H1). intros [<-|Hin]; [|auto].
      apply Hitem. rewrite H1. discriminate.
    - intros b Hb. destruct (NP b a) as [->|Hne]; [exact Hcp|]. apply (I_cn_pn _ _ _ J). intros [E|E]; auto.
    - intros b n Hb H. destruct (NP b a) as [->|Hne]; [apply Hitem; exact H|]. apply (I_it_cn _ _ _ J); auto. intros [E|E]; auto.
    - intros b n Hb H. destruct (NP b a) as [->|Hne].
      + apply Hitem. apply (I_b_item _ _ _ J). exact H.
      + apply (I_b_lo _ _ _ J); auto. intros [E|E]; auto.
    - eapply N.le_trans; [|exact (I_pnbs _ _ _ J)]. unfold live_unbatched.
      apply filter_len_mono. intros [ts [b n]] Hk Hu. unfold ub_pred in *. cbn [fst snd] in *.
      apply andb_true_iff in Hu. destruct Hu as [Hu1 Hu2]. rewrite Hu1. cbn [andb].
      rewrite (mem_cons N.eqb). destruct (NP b a) as [->|Hne]; [|exact Hu2].
      apply (I_prio _ _ _ J) in Hk. destruct Hk as [t0 [H1 _]].
      assert (get_cn u a <= n) by (apply Hitem; rewrite H1; discriminate).
      cbn [orb]. replace (n <? get_cn u a) with false by lia. reflexivity.
  Qed.

  Lemma forward_inv : InvW [] D (forward_acct cfg_fixed t a).
  Proof.
    unfold forward_acct. cbn [d_commit_pending cfg_fixed]. fold c. fold gone. fold t1.
    pose proof fwd_t1_inv as J.
    assert (Hc1 : get_cn t1 a = c) by (unfold t1; apply fold_drop_cn).
    destruct (get_pn t1 a <? c) eqn:Ep.
    - (* the pending nonce fell behind: raise it and promote *)
      apply promote_inv; [|exact HaD].
      set (t2 := set_pnonce t1 (aset N.eqb a c (pnonce t1))).
      assert (Hcn2 : forall b, get_cn t2 b = get_cn t1 b) by reflexivity.
      assert (Hpn2 : forall b, get_pn t2 b = if b =? a then c else get_pn t1 b).
      { intro b. unfold get_pn, t2. cbn [pnonce set_pnonce]. rewrite (alookup_aset N.eqb Neqb_spec).
        destruct (b =? a); reflexivity. }
      assert (Hit2 : forall x, item_at t2 x = item_at t1 x) by reflexivity.
      assert (Hlt : get_pn t1 a < c) by lia.
      assert (Hnoitem : forall n, n < c -> item_at t1 (a, n) = None).
      { intros n Hn. destruct (item_at t1 (a, n)) eqn:E; [|reflexivity].
        assert (c <= n) by (apply fwd_t1_item; congruence). lia. }
      constructor.
      + exact (I_hm_nodup _ _ _ J).
      + exact (I_hm_wf _ _ _ J).
      + exact (I_it_slot _ _ _ J).
      + intros b n t0 H1 H2. apply (I_it_hash _ _ _ J b n t0 H1). intros [<-|Hin]; [|auto].
        rewrite Hc1. apply fwd_t1_item. rewrite Hit2 in H1. congruence.
      + exact (I_idx _ _ _ J).
      + intros b Hb. rewrite Hcn2, Hpn2. destruct (NP b a) as [->|Hne]; [lia|].
        apply (I_cn_pn _ _ _ J). intros [E|E]; auto.
      + intros b n Hb H. rewrite Hcn2. destruct (NP b a) as [->|Hne].
        * rewrite Hc1. apply fwd_t1_item. exact H.
        * apply (I_it_cn _ _ _ J); auto. intros [E|E]; auto.
      + intros b n. rewrite Hcn2, Hpn2, Hit2. destruct (NP b a) as [->|Hne]; [lia|]. apply (I_run _ _ _ J).
      + intros b Hb. rewrite Hpn2, Hit2. destruct (NP b a) as [->|Hne]; [exfalso; apply Hb; left; reflexivity|].
        apply (I_next _ _ _ J). intros [].
      + intros b n Hb. rewrite Hit2. unfold t2. cbn [pnonce set_pnonce]. rewrite (alookup_aset N.eqb Neqb_spec).
        destruct (NP b a) as [->|Hne]; [discriminate|]. apply (I_pn_entry _ _ _ J). intros [].
      + intros ts b n. change (priority t2) with (priority t1). rewrite (I_prio _ _ _ J), Hpn2. setoid_rewrite Hit2.
        destruct (NP b a) as [->|Hne]; [|tauto].
        split; intros [t0 [H1 [H2 H3]]]; exfalso.
        * rewrite Hnoitem in H1 by lia. discriminate.
        * rewrite Hnoitem in H1 by lia. discriminate.
      + exact (I_prio_sorted _ _ _ J).
      + intros b n Hb. rewrite Hit2, Hpn2. destruct (NP b a) as [->|Hne]; [exfalso; apply Hb; left; reflexivity|].
        apply (I_park _ _ _ J). intros [].
      + intros b n H. rewrite Hpn2. pose proof (I_b_hi _ _ _ J b n H). destruct (NP b a) as [->|Hne]; lia.
      + intros b n Hb H. rewrite Hcn2. destruct (NP b a) as [->|Hne].
        * rewrite Hc1. apply fwd_t1_item. apply (I_b_item _ _ _ J). exact H.
        * apply (I_b_lo _ _ _ J); auto. intros [E|E]; auto.
      + intros b n. rewrite Hcn2. apply (I_b_down _ _ _ J).
      + exact (I_b_item _ _ _ J).
      + change (pnbs t2) with (pnbs t1). eapply N.le_trans; [|exact (I_pnbs _ _ _ J)].
        unfold live_unbatched. change (priority t2) with (priority t1).
        apply filter_len_mono. intros [ts [b n]] Hk Hu. unfold ub_pred in *. cbn [fst snd] in *.
        change (batched t2) with (batched t1) in Hu. rewrite Hcn2 in Hu.
        apply andb_true_iff in Hu. destruct Hu as [Hu1 Hu2]. rewrite Hu1. cbn [andb].
        rewrite (mem_cons N.eqb). destruct (NP b a) as [->|Hne]; [|exact Hu2].
        apply (I_prio _ _ _ J) in Hk. destruct Hk as [t0 [H1 _]].
        assert (c <= n) by (apply fwd_t1_item; congruence).
        cbn [orb]. rewrite Hc1. replace (n <? c) with false by lia. reflexivity.
      + exact (I_arr _ _ _ J).
    - apply strengthen; [exact J | | lia].
      intros n H. rewrite Hc1. apply fwd_t1_item. exact H.
  Qed.
End Forward.

Lemma fold_forward_inv D : forall t, NoDup D -> InvW [] D t -> Inv (fold_left (forward_acct cfg_fixed) D t).
Proof.
  induction D as [|a r IH]; intros t Hnd I; cbn [fold_left]; [exact I|].
  inversion Hnd; subst. apply IH; [assumption|]. apply forward_inv; assumption.
Qed.

(* ------------------------------------------------------------------------- the whole commit *)

Section CommitInv.
  Variables (s : state) (hs : list tx).
  Hypothesis I : Inv s.
  Let acc := fold_left (c_step s) hs (mkC [] [] (hashmap s) (batched s)).
  Let s1 := set_batched (set_hashmap s (c_hm acc)) (c_b acc).
  Let s2 := set_cnonce s1 (fold_left (fun cn e => aset N.eqb (fst e) (snd e) cn) (c_upd acc) (cnonce s1)).

  Lemma commit_acc : CAcc s hs acc.
  Proof. apply c_fold_ok; [exact I | apply incl_refl | apply CAcc_init; exact I]. Qed.

  Lemma mid_cn a : get_cn s2 a = cnew s acc a.
  Proof.
    unfold get_cn, s2, cnew. scbn. rewrite fold_aset_lookup by exact (CA_upd_nodup _ _ _ commit_acc).
    destruct (alookup N.eqb a (c_upd acc)); reflexivity.
  Qed.

  Lemma mid_pn a : get_pn s2 a = get_pn s a.
  Proof.
    unfold get_pn. change (pnonce s2) with (pnonce s). destruct (alookup N.eqb a (pnonce s)) eqn:E; [reflexivity|].
    rewrite mid_cn. unfold cnew. destruct (alookup N.eqb a (c_upd acc)) as [v|] eqn:Ev; [|reflexivity].
    exfalso. destruct (CA_upd _ _ _ commit_acc a v Ev) as [Hd _].
    destruct (CA_dirty _ _ _ commit_acc a Hd) as [n Hn].
    apply (I_pn_entry _ _ _ I a n (fun f => f) Hn). exact E.
  Qed.

  Lemma mid_item x : item_at s2 x = item_at s x.
  Proof. reflexivity. Qed.

  Lemma mid_cn_clean a : ~ In a (c_dirty acc) -> cnew s acc a = get_cn s a.
  Proof.
    intro H. unfold cnew. destruct (alookup N.eqb a (c_upd acc)) as [v|] eqn:Ev; [|reflexivity].
    exfalso. apply H. destruct (CA_upd _ _ _ commit_acc a v Ev) as [Hd _]. exact Hd.
  Qed.

  Lemma mid_inv : InvW [] (c_dirty acc) s2.
  Proof.
    pose proof commit_acc as C.
    constructor.
    - exact (CA_nodup _ _ _ C).
    - intros h sl H. rewrite mid_item. apply (I_hm_wf _ _ _ I). apply (CA_sub _ _ _ C). exact H.
    - exact (I_it_slot _ _ _ I).
    - intros a n t. rewrite mid_item, mid_cn. intros H1 H2.
      pose proof (I_it_hash _ _ _ I a n t H1 (fun f => match f with end)) as Hh.
      destruct (CA_hm _ _ _ C t (a, n) Hh) as [H|[H3 H4]]; [exact H|]. cbn [fst snd] in *.
      specialize (H2 H3). lia.
    - exact (I_idx _ _ _ I).
    - intros a Ha. rewrite mid_cn, mid_pn, (mid_cn_clean a Ha). apply (I_cn_pn _ _ _ I). intros [].
    - intros a n Ha. rewrite mid_item, mid_cn, (mid_cn_clean a Ha). apply (I_it_cn _ _ _ I). intros [].
    - intros a n. rewrite mid_cn, mid_pn, mid_item. intro H. apply (I_run _ _ _ I).
      pose proof (cnew_ge s hs acc a C). lia.
    - intros a Ha. rewrite mid_pn, mid_item. apply (I_next _ _ _ I). exact Ha.
    - intros a n Ha. rewrite mid_item. change (pnonce s2) with (pnonce s). apply (I_pn_entry _ _ _ I). exact Ha.
    - intros ts a n. change (priority s2) with (priority s). rewrite mid_pn. setoid_rewrite mid_item. apply (I_prio _ _ _ I).
    - exact (I_prio_sorted _ _ _ I).
    - intros a n Ha. rewrite mid_item, mid_pn. apply (I_park _ _ _ I). exact Ha.
    - intros a n H. rewrite mid_pn. apply (I_b_hi _ _ _ I). apply (CA_bsub _ _ _ C). exact H.
    - intros a n Ha H. rewrite mid_cn, (mid_cn_clean a Ha). apply (I_b_lo _ _ _ I); [intros [] | apply (CA_bsub _ _ _ C); exact H].
    - intros a n H Hlt. rewrite mid_cn in Hlt. change (batched s2) with (c_b acc) in *.
      pose proof (cnew_ge s hs acc a C) as Hge.
      assert (Hold : In (a, n - 1) (batched s)).
      { apply (I_b_down _ _ _ I); [apply (CA_bsub _ _ _ C); exact H | lia]. }
      destruct (CA_b _ _ _ C (a, n - 1) Hold) as [H1|[_ H2]]; [exact H1|]. cbn [fst snd] in H2. lia.
    - intros sl H. rewrite mid_item. apply (I_b_item _ _ _ I). apply (CA_bsub _ _ _ C). exact H.
    - change (pnbs s2) with (pnbs s). eapply N.le_trans; [|exact (I_pnbs _ _ _ I)].
      unfold live_unbatched. change (priority s2) with (priority s).
      apply filter_len_mono. intros [ts [a n]] Hk Hu. unfold ub_pred in *. cbn [fst snd] in *.
      change (batched s2) with (c_b acc) in Hu. rewrite mid_cn in Hu.
      apply andb_true_iff in Hu. destruct Hu as [Hu1 Hu2]. cbn [mem existsb andb negb]. rewrite andb_true_r.
      destruct (mem slot_eqb (a, n) (batched s)) eqn:Eb; [|reflexivity]. exfalso.
      apply (mem_In slot_eqb slot_eqb_spec) in Eb.
      destruct (CA_b _ _ _ C (a, n) Eb) as [H1|[H1 H2]].
      + apply (mem_In slot_eqb slot_eqb_spec) in H1. rewrite H1 in Hu1. discriminate.
      + cbn [fst snd] in *. apply (mem_In N.eqb Neqb_spec) in H1. rewrite H1 in Hu2.
        replace (n <? cnew s acc a) with true in Hu2 by lia. discriminate.
    - exact (I_arr _ _ _ I).
  Qed.

  Lemma commit_inv : Inv (commit_txs cfg_fixed s hs).
  Proof.
    unfold commit_txs. fold acc. fold s1. fold s2.
    pose proof (fold_forward_inv (c_dirty acc) s2 (CA_dirty_nodup _ _ _ commit_acc) mid_inv) as J.
    set (s3 := fold_left (forward_acct cfg_fixed) (c_dirty acc) s2) in *.
    destruct (len (priority s3) <? pnbs s3) eqn:E; [|exact J].
    constructor; try (apply J).
    unfold live_unbatched. change (priority (set_pnbs s3 (len (priority s3)))) with (priority s3).
    cbn [pnbs set_pnbs]. unfold len. pose proof (filter_length_le (ub_pred (set_pnbs s3 (N.of_nat (length (priority s3)))) []) (priority s3)). lia.
  Qed.
End CommitInv.
