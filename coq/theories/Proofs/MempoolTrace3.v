(** Trace proofs, part 4: the generate+commit rounds as one step, and the theorem over all
    histories. *)
From BX Require Import Base.Prelude Model.Mempool Model.MempoolSpec.
From BX Require Import Proofs.MempoolLib Proofs.MempoolInv Proofs.MempoolInvOps Proofs.MempoolCommit
  Proofs.MempoolGen Proofs.MempoolReach Proofs.MempoolEffects Proofs.MempoolTrace Proofs.MempoolTrace2 Proofs.MempoolDrain.
From Coq Require Import ZifyBool ZifyN ZifyNat.
Local Open Scope N_scope.

Section DrainStep.
  Variable p : params.
  Variables (accts : list N) (univ : list tx).

  Notation observe := (observe cfg_fixed p accts univ).
  Notation Sim := (Sim p accts univ).
  Notation closed := (closed accts univ).
  Notation check_step := (check_step p accts univ).

  Variables (w : wst) (s : state) (k : nat).
  Hypothesis I : Inv s.
  Hypothesis S : Sim w s.
  Let s' := fst (drain cfg_fixed p k s).
  Let bs := snd (drain cfg_fixed p k s).

  (** the ready unbatched entries of the state are counted by the walker's formula *)
  Lemma mready_le_spec : mready s <= ready_unbatched accts univ (w_prev w) (w_B w).
  Proof.
    pose proof (Sim_closed p accts univ w s I S) as C0.
    unfold mready, ready_unbatched, len.
    enough (Hl : (length (unb s (batched s)) <= length (filter (ready_unbatched_tx accts univ (w_prev w) (w_B w)) univ))%nat) by lia.
    rewrite <- (map_length (fun k0 : N * (N * N) => tx_at s (snd k0)) (unb s (batched s))).
    apply NoDup_incl_length.
    - apply NoDup_map_inj_in; [|apply unb_nodup; exact I].
      intros [ts [a n]] [ts' [a' n']] Hx Hy E. cbn [snd] in E.
      apply unb_In in Hx. apply unb_In in Hy. destruct Hx as [Hx _], Hy as [Hy _].
      pose proof (proj1 (I_prio _ _ _ I ts a n) Hx) as [t [Et [Ets _]]].
      pose proof (proj1 (I_prio _ _ _ I ts' a' n') Hy) as [t' [Et' [Ets' _]]].
      destruct (tx_at_slot s _ _ I Et) as [E1 E2]. destruct (tx_at_slot s _ _ I Et') as [E1' E2'].
      assert (t = t') by congruence. subst t'. assert ((a, n) = (a', n')) by congruence. congruence.
    - intros t Ht. apply in_map_iff in Ht. destruct Ht as [[ts [a n]] [<- Hk]]. cbn [snd].
      apply unb_In in Hk. destruct Hk as [Hp Hnb]. cbn [snd] in Hnb.
      pose proof (proj1 (I_prio _ _ _ I ts a n) Hp) as [t [Et [Ets Hlt]]].
      destruct (tx_at_slot s _ _ I Et) as [-> Hsl]. destruct (C0 _ _ Et) as [Hu Ha].
      assert (Hta : t_acct t = a) by (destruct t; inversion Hsl; reflexivity).
      assert (Htn : t_nonce t = n) by (destruct t; inversion Hsl; reflexivity).
      apply filter_In. split; [exact Hu|]. unfold ready_unbatched_tx.
      rewrite (proj2 (prev_held p accts univ w s I S t)) by (split; [exact Hu | rewrite Hsl; exact Et]).
      rewrite (prev_cmt p accts univ w s S _ Ha), (prev_pend p accts univ w s S _ Ha), Hta, Htn, Hsl.
      assert (get_cn s a <= n) by (apply (I_it_cn _ _ _ I); [intros [] | congruence]).
      replace (get_cn s a <=? n) with true by lia. replace (n <? get_pn s a) with true by lia. cbn [andb].
      apply negb_true_iff. apply (mem_false slot_eqb slot_eqb_spec). rewrite (S_B _ _ _ _ _ S). exact Hnb.
  Qed.

  Lemma drain_ok : fst (check_step w (ODrain k) (observe s' bs 0)) = [] /\
                   Sim (snd (check_step w (ODrain k) (observe s' bs 0))) s'.
  Proof.
    pose proof (Sim_closed p accts univ w s I S) as C0.
    destruct (drain_safe p accts univ (w_led w) (w_sub w) k s (cm_prev accts w) (w_B w) I C0
                (prev_cm p accts univ w s S) (S_B _ _ _ _ _ S) (S_sub _ _ _ _ _ S) (S_led _ _ _ _ _ S) (S_arr_nd _ _ _ _ _ S))
      as [B1 [cme [Ed DP]]].
    fold s' in Ed, DP. fold bs in Ed.
    pose proof (DP_inv _ _ _ _ _ _ DP) as I'. pose proof (DP_closed _ _ _ _ _ _ DP) as C.
    apply (conclude p accts univ w (ODrain k) B1 (seqno s') cme s' bs 0).
    - unfold st_batches. cbn [is_drain o_batches Mempool.observe st_led st_sub st_B0 st_seq0].
      rewrite (S_seq _ _ _ _ _ S). exact Ed.
    - reflexivity.
    - apply e_cn_same. intros a Ha. cbn [cn_ok].
      rewrite (obs_cmt_observe p accts univ s' bs 0 a Ha), (DP_cm _ _ _ _ _ _ DP a Ha). apply N.eqb_refl.
    - reflexivity.
    - apply e_lost_ok. intros t Ht H1 H2.
      apply (prev_held p accts univ w s I S) in H1. destruct H1 as [_ H1].
      destruct (C0 _ _ H1) as [_ Ha].
      cbn [lost_ok]. rewrite (obs_cmt_observe p accts univ s' bs 0 _ Ha).
      apply N.ltb_lt. destruct (N.lt_ge_cases (t_nonce t) (get_cn s' (t_acct t))) as [Hlt|Hge]; [exact Hlt|]. exfalso.
      assert (E : item_at s' (slot_of t) = Some t) by (apply (DP_item _ _ _ _ _ _ DP); split; [exact H1 | exact Hge]).
      assert (held univ (observe s' bs 0) t = true) by (apply (held_observe p accts univ s' bs 0 t I'); auto). congruence.
    - reflexivity.
    - cbn [e_liveness].
      destruct (ready_unbatched accts univ (w_prev w) (w_B w) <=? N.of_nat k * batch_size p) eqn:Er; [|reflexivity].
      apply N.leb_le in Er. unfold flag. replace (forallb _ univ) with true; [reflexivity|]. symmetry.
      apply forallb_forall. intros t Ht.
      destruct (ready_unbatched_tx accts univ (w_prev w) (w_B w) t) eqn:Erut; [|reflexivity]. cbn [negb orb].
      unfold ready_unbatched_tx in Erut. apply andb_true_iff in Erut. destruct Erut as [Erut Enb].
      apply andb_true_iff in Erut. destruct Erut as [Erut Epn]. apply andb_true_iff in Erut. destruct Erut as [Eh Ecn].
      apply (prev_held p accts univ w s I S) in Eh. destruct Eh as [_ Eh].
      destruct (C0 _ _ Eh) as [_ Ha].
      rewrite (prev_pend p accts univ w s S _ Ha) in Epn. apply N.ltb_lt in Epn.
      apply negb_true_iff in Enb. apply (mem_false slot_eqb slot_eqb_spec) in Enb. rewrite (S_B _ _ _ _ _ S) in Enb.
      assert (Hentry : In (t_ts t, slot_of t) (unb s (batched s))).
      { apply unb_In. cbn [snd]. split; [|exact Enb]. destruct t as [a n i ts]. unfold slot_of in *. cbn [t_acct t_nonce t_ts] in *.
        apply (I_prio _ _ _ I). eexists. split; [exact Eh|]. split; [reflexivity | exact Epn]. }
      destruct (drain_live p k s I) with (ts := t_ts t) (sl := slot_of t) as [b [Hb Htb]].
      + pose proof mready_le_spec. lia.
      + exact Hentry.
      + cbn [o_batches Mempool.observe]. apply existsb_exists. exists b. split; [exact Hb|].
        apply (mem_In tx_eqb tx_eqb_spec). destruct (tx_at_slot s _ _ I Eh) as [E1 _]. rewrite <- E1. exact Htb.
    - exact I'.
    - exact C.
    - apply (live_batched p accts univ s' bs 0 B1 I' C). exact (DP_B _ _ _ _ _ _ DP).
    - intros h Hh. apply (S_sub _ _ _ _ _ S). apply (DP_keys _ _ _ _ _ _ DP). exact Hh.
    - reflexivity.
    - apply (S_frame _ _ _ _ _ S).
    - intros t E. cbn [st_arr]. apply (DP_item _ _ _ _ _ _ DP) in E. destruct E as [E Hge].
      rewrite (S_arr _ _ _ _ _ S t E). symmetry. apply (DP_arr _ _ _ _ _ _ DP). exact Hge.
    - exact (DP_arr_nd _ _ _ _ _ _ DP).
    - intro a. cbn [st_led]. pose proof (DP_cn _ _ _ _ _ _ DP a). pose proof (S_led _ _ _ _ _ S a). lia.
    - cbn [st_live]. intros h Hh. apply filter_In in Hh. destruct Hh as [Hh Hs].
      pose proof (S_live _ _ _ _ _ S h Hh) as Hk.
      destruct (alookup tx_eqb h (hashmap s)) as [sl|] eqn:El; [|apply (alookup_None tx_eqb tx_eqb_spec) in El; contradiction].
      destruct (I_hm_wf _ _ _ I h sl El) as [Esl _].
      apply (slot_held_observe p accts univ s' bs 0 _ I' C) in Hs.
      destruct (item_at s' (slot_of h)) as [t|] eqn:Et; [|congruence].
      apply (DP_item _ _ _ _ _ _ DP) in Et. destruct Et as [_ Hge].
      eapply (alookup_Some_key tx_eqb tx_eqb_spec). apply (DP_keep _ _ _ _ _ _ DP h sl El). rewrite Esl. exact Hge.
  Qed.
End DrainStep.

(* ------------------------------------------------------------------------- all histories *)

Section AllHistories.
  Variable p : params.
  Variables (accts : list N) (univ : list tx).

  Notation observe := (observe cfg_fixed p accts univ).
  Notation Sim := (Sim p accts univ).
  Notation check_step := (check_step p accts univ).

  (** the observation frame covers an operation: every submitted transaction is queried *)
  Definition op_in_frame (o : op) : Prop :=
    match o with
    | OProcess _ _ _ txs => forall t, In t txs -> In t univ /\ In (t_acct t) accts
    | _ => True
    end.

  Lemma step_ok w s o : Inv s -> Sim w s -> static_op o = true -> op_in_frame o ->
    let s2 := fst (step cfg_fixed p accts univ s o) in
    let ob := snd (step cfg_fixed p accts univ s o) in
    fst (check_step w o ob) = [] /\ Sim (snd (check_step w o ob)) s2 /\ Inv s2.
  Proof.
    intros I S Hs Hf. cbn zeta.
    assert (HI2 : Inv (fst (step cfg_fixed p accts univ s o))) by (apply step_inv; assumption).
    split; [|split; [|exact HI2]]; unfold step in *;
      destruct (apply_op cfg_fixed p s o) as [[sa bs] r] eqn:Ea; cbn [fst snd]; rewrite observe_touch.
    - destruct o; cbn [apply_op] in Ea; try discriminate.
      + destruct (process_txs p s leader now txs) as [s1 b] eqn:Ep. inversion Ea; subst.
        pose proof (process_ok p accts univ w s leader local now txs I S Hf) as H. rewrite Ep in H. cbn [fst snd] in H. apply H.
      + destruct (generate_block p s) as [s1 b] eqn:Eg. inversion Ea; subst.
        pose proof (generate_ok p accts univ w s I S) as H. rewrite Eg in H. cbn [fst snd] in H. apply H.
      + inversion Ea; subst. apply (commit_ok p accts univ w s hs I S).
      + destruct (remove_old cfg_fixed s now dur) as [s1 n] eqn:Er. inversion Ea; subst.
        pose proof (removeold_ok p accts univ w s now dur I S) as H. rewrite Er in H. cbn [fst snd] in H. apply H.
      + inversion Ea; subst. apply (setseq_ok p accts univ w s n I S).
      + inversion Ea; subst. apply (restart_ok p accts univ w height led).
      + destruct (drain cfg_fixed p rounds s) as [s1 bs1] eqn:Ed. inversion Ea; subst.
        pose proof (drain_ok p accts univ w s rounds I S) as H. rewrite Ed in H. cbn [fst snd] in H. apply H.
    - apply Sim_touch.
      destruct o; cbn [apply_op] in Ea; try discriminate.
      + destruct (process_txs p s leader now txs) as [s1 b] eqn:Ep. inversion Ea; subst.
        pose proof (process_ok p accts univ w s leader local now txs I S Hf) as H. rewrite Ep in H. cbn [fst snd] in H. apply H.
      + destruct (generate_block p s) as [s1 b] eqn:Eg. inversion Ea; subst.
        pose proof (generate_ok p accts univ w s I S) as H. rewrite Eg in H. cbn [fst snd] in H. apply H.
      + inversion Ea; subst. apply (commit_ok p accts univ w s hs I S).
      + destruct (remove_old cfg_fixed s now dur) as [s1 n] eqn:Er. inversion Ea; subst.
        pose proof (removeold_ok p accts univ w s now dur I S) as H. rewrite Er in H. cbn [fst snd] in H. apply H.
      + inversion Ea; subst. apply (setseq_ok p accts univ w s n I S).
      + inversion Ea; subst. apply (restart_ok p accts univ w height led).
      + destruct (drain cfg_fixed p rounds s) as [s1 bs1] eqn:Ed. inversion Ea; subst.
        pose proof (drain_ok p accts univ w s rounds I S) as H. rewrite Ed in H. cbn [fst snd] in H. apply H.
  Qed.

  Lemma trace_ok ops : forall w s i, Inv s -> Sim w s -> forallb static_op ops = true ->
    (forall o, In o ops -> op_in_frame o) ->
    check_trace p accts univ w i (run cfg_fixed p accts univ s ops) = [].
  Proof.
    induction ops as [|o r IH]; intros w s i I S Hs Hf; cbn [run]; [reflexivity|].
    cbn [forallb] in Hs. apply andb_true_iff in Hs. destruct Hs as [Hs1 Hs2].
    destruct (step_ok w s o I S Hs1 (Hf o (or_introl eq_refl))) as [H1 [H2 H3]]. cbn zeta in *.
    destruct (step cfg_fixed p accts univ s o) as [s2 ob]. cbn [fst snd] in *. cbn [check_trace].
    destruct (check_step w o ob) as [es w']. cbn [fst snd] in *. subst es. cbn [map app].
    apply IH; auto. intros o' Ho'. apply Hf. right. exact Ho'.
  Qed.

  Lemma Sim_initial : Sim (w0 accts univ) empty_state.
  Proof.
    constructor; cbn.
    - tauto.
    - reflexivity.
    - intros h [].
    - intros t [].
    - intros t E. discriminate.
    - constructor.
    - intro a. unfold get_cn. cbn. lia.
    - intros h [].
    - exists [], 0. unfold obs0, Mempool.observe.
      assert (Hf : pool_full p empty_state = false).
      { unfold pool_full, pool_size, len. cbn. destruct (p_pool p =? 0) eqn:E; lia. }
      rewrite Hf. f_equal.
  Qed.

  (** C18 + C19 on traces: no failure code on any trace of the repaired model, for every history
      without oracle moves whose submissions are covered by the observation frame *)
  Theorem all_histories_ok ops : forallb static_op ops = true -> (forall o, In o ops -> op_in_frame o) ->
    check_trace p accts univ (w0 accts univ) 0 (run cfg_fixed p accts univ empty_state ops) = [].
  Proof. intros Hs Hf. apply trace_ok; auto; [apply Inv_init | apply Sim_initial]. Qed.

  Corollary all_histories_P codes ops : forallb static_op ops = true -> (forall o, In o ops -> op_in_frame o) ->
    P p accts univ codes (run cfg_fixed p accts univ empty_state ops).
  Proof. intros Hs Hf c i Hin. rewrite (all_histories_ok ops Hs Hf) in Hin. destruct Hin. Qed.
End AllHistories.
