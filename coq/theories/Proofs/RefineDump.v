(** Dump: every getter over a universe of accounts and keys, then Clear. *)
From BX Require Import Base.Prelude Model.JsonAcct Model.Merkle Model.StateLedger Model.LedgerSpec
  Proofs.LedgerLemmas Proofs.RootProofs Proofs.RefineBase Proofs.RefineBlock Proofs.RefineUndo Proofs.RefineSim
  Proofs.RefineStep Proofs.RefineFlush Proofs.RefineRollback.
Local Open Scope N_scope.

Section Dump.
Variable e : env.

Lemma get_obj_db' m a : s_db (fst (get_obj m a)) = s_db m.
Proof. unfold get_obj. destruct (aget a (s_objs m)); [reflexivity|]. destruct (load_obj m a); reflexivity. Qed.

Lemma getbal_sim m s a : Sim e m s ->
  let '(m', x) := do_getbal m a in
  Sim e m' s /\ s_db m' = s_db m /\ sx_match false (XZ (sa_bal (sm_acct_get (sp_cur s) a))) x = true.
Proof.
  intro S. pose proof (step_getbal e m s a S) as H. unfold step_ok in H. cbn [step spec_step] in H.
  pose proof (get_obj_db' m a) as D. unfold do_getbal in *. destruct (get_obj m a) as [m1 o]. cbn [fst] in D.
  destruct H as [H1 H2]. split; [exact H1 | split; [exact D | exact H2]].
Qed.

Lemma getnonce_sim m s a : Sim e m s ->
  let '(m', x) := do_getnonce m a in
  Sim e m' s /\ s_db m' = s_db m /\ sx_match false (XN (sa_nonce (sm_acct_get (sp_cur s) a))) x = true.
Proof.
  intro S. pose proof (step_getnonce e m s a S) as H. unfold step_ok in H. cbn [step spec_step] in H.
  pose proof (get_obj_db' m a) as D. unfold do_getnonce in *. destruct (get_obj m a) as [m1 o]. cbn [fst] in D.
  destruct H as [H1 H2]. split; [exact H1 | split; [exact D | exact H2]].
Qed.

Lemma getcode_sim m s a : Sim e m s ->
  let '(m', x) := do_getcode m a in
  Sim e m' s /\ s_db m' = s_db m /\ sx_match false (XB (sa_code (sm_acct_get (sp_cur s) a))) x = true.
Proof.
  intro S. pose proof (step_getcode e m s a S) as H. unfold step_ok in H. cbn [step spec_step] in H.
  pose proof (get_obj_db' m a) as D. unfold do_getcode in *. destruct (get_obj m a) as [m1 o]. cbn [fst] in D.
  destruct (obj_code m1 a o) as [o1 c]. destruct H as [H1 H2]. split; [exact H1 | split; [exact D | exact H2]].
Qed.

Lemma getst_sim m s a k : Sim e m s ->
  let '(m', x) := do_getst m a k in
  Sim e m' s /\ s_db m' = s_db m /\ sx_match false (XB (sm_st_get (sp_cur s) a k)) x = true.
Proof.
  intro S. pose proof (step_getst e m s a k S) as H. unfold step_ok in H. cbn [step spec_step] in H.
  pose proof (get_obj_db' m a) as D. unfold do_getst in *. destruct (get_obj m a) as [m1 o]. cbn [fst] in D.
  destruct (obj_get_state m1 a o k) as [o1 v]. destruct H as [H1 H2]. split; [exact H1 | split; [exact D | exact H2]].
Qed.

Lemma dump_match_app xs : forall l1 ys l2,
  dump_match false xs l1 = true -> dump_match false ys l2 = true -> dump_match false (xs ++ ys) (l1 ++ l2) = true.
Proof.
  induction xs as [|x t IH]; intros [|y l1] ys l2 H1 H2; simpl in *; try discriminate; [exact H2|].
  apply andb_true_iff in H1. destruct H1 as [A B]. rewrite A. simpl. apply IH; assumption.
Qed.

Lemma dump_keys_ok s a : forall ks m acc, Sim e m s ->
  let '(m', l) := fold_left (fun (acc0 : st * list sout) k =>
                               let '(m0, x) := do_getst (fst acc0) a k in (m0, snd acc0 ++ [x])) ks (m, acc) in
  Sim e m' s /\ s_db m' = s_db m /\
  exists l', l = acc ++ l' /\ dump_match false (map (fun k => XB (sm_st_get (sp_cur s) a k)) ks) l' = true.
Proof.
  induction ks as [|k t IH]; intros m acc S; cbn [fold_left].
  - split; [exact S|]. split; [reflexivity|]. exists []. split; [rewrite app_nil_r; reflexivity | reflexivity].
  - cbn [fst snd]. pose proof (getst_sim m s a k S) as G. destruct (do_getst m a k) as [m1 x].
    destruct G as [S1 [D1 M1]].
    pose proof (IH m1 (acc ++ [x]) S1) as R.
    destruct (fold_left _ t (m1, acc ++ [x])) as [m' l]. destruct R as [S' [D' [l' [El Ml]]]].
    split; [exact S'|]. split; [congruence|]. exists (x :: l'). split; [rewrite El, <- app_assoc; reflexivity|].
    cbn [map dump_match]. rewrite M1, Ml. reflexivity.
Qed.

Lemma dump_acct_ok m s a ks : Sim e m s ->
  let '(m', l) := dump_acct m a ks in
  Sim e m' s /\ s_db m' = s_db m /\
  dump_match false (let x := sm_acct_get (sp_cur s) a in
                    [XZ (sa_bal x); XN (sa_nonce x); XB (sa_code x)] ++ map (fun k => XB (sm_st_get (sp_cur s) a k)) ks) l = true.
Proof.
  intro S. unfold dump_acct.
  pose proof (getbal_sim m s a S) as G1. destruct (do_getbal m a) as [m1 b]. destruct G1 as [S1 [D1 M1]].
  pose proof (getnonce_sim m1 s a S1) as G2. destruct (do_getnonce m1 a) as [m2 n]. destruct G2 as [S2 [D2 M2]].
  pose proof (getcode_sim m2 s a S2) as G3. destruct (do_getcode m2 a) as [m3 c]. destruct G3 as [S3 [D3 M3]].
  pose proof (dump_keys_ok s a ks m3 [b; n; c] S3) as R.
  destruct (fold_left _ ks (m3, [b; n; c])) as [m' l]. destruct R as [S' [D' [l' [El Ml]]]].
  split; [exact S'|]. split; [congruence|]. subst l. cbv zeta.
  apply (dump_match_app [_; _; _] [b; n; c]); [| exact Ml].
  cbn [dump_match]. rewrite M1, M2, M3. reflexivity.
Qed.

Lemma dump_accts_ok s ks : forall accts m acc, Sim e m s ->
  let '(m', l) := fold_left (fun (acc0 : st * list sout) a =>
                               let '(m0, l0) := dump_acct (fst acc0) a ks in (m0, snd acc0 ++ l0)) accts (m, acc) in
  Sim e m' s /\ s_db m' = s_db m /\
  exists l', l = acc ++ l' /\ dump_match false (spec_dump (sp_cur s) accts ks) l' = true.
Proof.
  induction accts as [|a t IH]; intros m acc S; cbn [fold_left].
  - split; [exact S|]. split; [reflexivity|]. exists []. split; [rewrite app_nil_r; reflexivity | reflexivity].
  - cbn [fst snd]. pose proof (dump_acct_ok m s a ks S) as G. destruct (dump_acct m a ks) as [m1 l1].
    destruct G as [S1 [D1 M1]].
    pose proof (IH m1 (acc ++ l1) S1) as R.
    destruct (fold_left _ t (m1, acc ++ l1)) as [m' l]. destruct R as [S' [D' [l' [El Ml]]]].
    split; [exact S'|]. split; [congruence|]. exists (l1 ++ l'). split; [rewrite El, <- app_assoc; reflexivity|].
    unfold spec_dump. cbn [flat_map]. apply dump_match_app; [exact M1 | exact Ml].
Qed.

Lemma step_dump m s accts ks : Sim e m s ->
  let '(m', x) := step e cfg_fixed m (Dump accts ks) in
  let '(s', ex) := spec_step e s (Dump accts ks) x in
  Sim e m' s' /\ sexp_match false ex x = true /\ s_db m' = s_db m.
Proof.
  intro S. cbn [step spec_step]. unfold do_dump.
  pose proof (dump_accts_ok s ks accts m [] S) as R.
  destruct (fold_left _ accts (m, [])) as [m1 l]. destruct R as [S1 [D1 [l' [El Ml]]]].
  split; [apply Sim_clear; exact S1|]. split; [| exact D1].
  cbn [sexp_match]. subst l. exact Ml.
Qed.
End Dump.
