(** In-block operations: effect of every getter / writer of the repaired model on the views and
    on the invariants; reverting undo-log entries. *)
From BX Require Import Base.Prelude Model.JsonAcct Model.Merkle Model.StateLedger Model.LedgerSpec
  Proofs.LedgerLemmas Proofs.RefineBase.
Local Open Scope N_scope.

Section Block.
Context {e : env}.

(** * object-level facts *)
(** [Code()] returns the dirty code and leaves the object as it is (a lazy load finds nothing new) *)
Lemma obj_code_spec m a o : ObjOk m a o ->
  obj_code m a o = (o, o_dcode o) /\ (o_dcode o = None -> cached_code m a = None).
Proof.
  intros [_ _ _ _ Hoc Hcd].
  assert (Hn : o_dcode o = None -> o_ocode o = None /\ cached_code m a = None).
  { intro Hd. destruct Hcd as [[Heq _] | [d [_ [_ Hc]]]].
    - rewrite Hd in Heq. split; [congruence | rewrite <- Hoc; congruence].
    - split; [rewrite Hoc; apply Hc, Hd | apply Hc, Hd]. }
  split; [| intro Hd; apply Hn, Hd].
  unfold obj_code. destruct (o_dcode o) as [c|] eqn:Ed; [reflexivity|].
  destruct (Hn eq_refl) as [Ho Hc]. rewrite Ho.
  destruct (negb (ch_nonempty (obj_ch o))); [reflexivity|].
  cbv zeta. rewrite Hc. clear Hoc Hcd Hn Hc. destruct o; simpl in *; subst; reflexivity.
Qed.

Lemma obj_get_state_codes m a o k :
  o_dcode (fst (obj_get_state m a o k)) = o_dcode o /\ o_ocode (fst (obj_get_state m a o k)) = o_ocode o.
Proof.
  unfold obj_get_state. destruct (kget k (o_dst o)); [split; reflexivity|].
  destruct (kget k (o_ost o)); split; reflexivity.
Qed.

(** [obj_get_state]: the value read is the current view; the object afterwards has the origin *)
Lemma obj_get_state_spec m a o k :
  ObjOk m a o ->
  let '(o1, v) := obj_get_state m a o k in
  ObjOk m a o1 /\ nb v = obj_st m a o k /\ kget k (o_ost o1) <> None /\
  o_dst o1 = o_dst o /\ o_orig o1 = o_orig o /\ o_dirty o1 = o_dirty o /\
  (forall k', obj_st m a o1 k' = obj_st m a o k').
Proof.
  intro Ok. unfold obj_get_state.
  destruct (kget k (o_dst o)) as [v|] eqn:Ed.
  - cbv beta iota zeta. split; [exact Ok|]. split; [unfold obj_st; rewrite Ed; reflexivity|].
    split; [eapply ok_dho; eassumption|]. repeat (split; [reflexivity|]). reflexivity.
  - destruct (kget k (o_ost o)) as [v|] eqn:Eo.
    + cbv beta iota zeta. split; [exact Ok|]. split; [unfold obj_st; rewrite Ed, Eo; reflexivity|].
      split; [rewrite Eo; discriminate|]. repeat (split; [reflexivity|]). reflexivity.
    + cbv beta iota zeta. set (v := cached_state m a k).
      assert (Hview : forall k', obj_st m a (set_ost o (kput k v (o_ost o))) k' = obj_st m a o k').
      { intro k'. unfold obj_st. simpl. destruct (kget k' (o_dst o)); [reflexivity|].
        rewrite kget_kput. destruct (bytes_eqb k' k) eqn:E; [| reflexivity].
        apply bytes_eqb_spec in E. subst k'. rewrite Eo. reflexivity. }
      split.
      { destruct Ok as [H1 H2 H3 H4 H5 H6]. constructor; simpl; try assumption.
        - intros k' v'. rewrite kget_kput. destruct (bytes_eqb k' k) eqn:E.
          + apply bytes_eqb_spec in E. subst k'. intro H. inversion H. reflexivity.
          + apply H2.
        - intros k' v' Hk. rewrite kget_kput. destruct (bytes_eqb k' k); [discriminate | eapply H3; exact Hk]. }
      split; [unfold obj_st; rewrite Ed, Eo; reflexivity|].
      split; [simpl; rewrite kget_kput, bytes_eqb_refl; discriminate|].
      repeat (split; [reflexivity|]). exact Hview.
Qed.

(** * getters *)
Lemma obj_bal_view o : obj_bal o = snd (fst (acct_view (cur_acct o))).
Proof. unfold obj_bal. destruct (cur_acct o); reflexivity. Qed.
Lemma obj_nonce_view o : obj_nonce o = fst (fst (acct_view (cur_acct o))).
Proof. unfold obj_nonce. destruct (cur_acct o); reflexivity. Qed.

Lemma cur_oacct_at m a o : aget a (s_objs m) = Some o -> cur_oacct m a = cur_acct o.
Proof. intro H. unfold cur_oacct. rewrite H. reflexivity. Qed.
Lemma cur_st_at m a o k : aget a (s_objs m) = Some o -> cur_st m a k = obj_st m a o k.
Proof. intro H. unfold cur_st. rewrite H. reflexivity. Qed.
Lemma cur_code_at m a o : aget a (s_objs m) = Some o -> cur_code m a = nb (o_dcode o).
Proof. intro H. unfold cur_code. rewrite H. reflexivity. Qed.

(** a step that leaves every view and the invariant alone *)
Record same_views (m m' : st) : Prop := {
  sv_inv : Inv m';
  sv_db : s_db m' = s_db m;
  sv_cache : s_cache m' = s_cache m;
  sv_st : forall a k, cur_st m' a k = cur_st m a k;
  sv_ac : forall a, cur_oacct m' a = cur_oacct m a;
  sv_code : forall a, cur_code m' a = cur_code m a;
  sv_rest : s_pend m' = s_pend m /\ s_prev m' = s_prev m /\ s_min m' = s_min m /\ s_max m' = s_max m /\
            s_next m' = s_next m /\ s_revs m' = s_revs m /\ s_gen m' = s_gen m
}.

Lemma do_getbal_spec m a : Inv m ->
  let '(m1, x) := do_getbal m a in
  got_ok m a m1 (snd (get_obj m a)) /\ x = SZ (snd (fst (acct_view (cur_oacct m a)))).
Proof.
  intro I. unfold do_getbal. pose proof (get_obj_ok m a I) as G.
  destruct (get_obj m a) as [m1 o]. simpl in *. split; [exact G|].
  rewrite obj_bal_view, <- (go_cur_ac _ _ _ _ G a), (cur_oacct_at m1 a o (go_obj _ _ _ _ G)). reflexivity.
Qed.

Lemma do_getnonce_spec m a : Inv m ->
  let '(m1, x) := do_getnonce m a in
  got_ok m a m1 (snd (get_obj m a)) /\ x = SN (fst (fst (acct_view (cur_oacct m a)))).
Proof.
  intro I. unfold do_getnonce. pose proof (get_obj_ok m a I) as G.
  destruct (get_obj m a) as [m1 o]. simpl in *. split; [exact G|].
  rewrite obj_nonce_view, <- (go_cur_ac _ _ _ _ G a), (cur_oacct_at m1 a o (go_obj _ _ _ _ G)). reflexivity.
Qed.

(** rewriting an object in place with an equivalent one *)
Lemma put_same_obj_views m a o o' :
  Inv m -> aget a (s_objs m) = Some o -> ObjOk m a o' ->
  (forall k, obj_st m a o' k = obj_st m a o k) -> cur_acct o' = cur_acct o -> o_dcode o' = o_dcode o ->
  same_views m (put_obj m a o').
Proof.
  intros I Ho Ok Hst Hac Hdc. constructor; try reflexivity.
  - apply Inv_put_obj; assumption.
  - intros a' k. rewrite cur_st_put_obj. destruct (a' =? a) eqn:E; [| reflexivity].
    apply N.eqb_eq in E. subst. rewrite (cur_st_at m a o k Ho). apply Hst.
  - intros a'. rewrite cur_oacct_put_obj. destruct (a' =? a) eqn:E; [| reflexivity].
    apply N.eqb_eq in E. subst. rewrite (cur_oacct_at m a o Ho). exact Hac.
  - intros a'. rewrite cur_code_put_obj. destruct (a' =? a) eqn:E; [| reflexivity].
    apply N.eqb_eq in E. subst. rewrite (cur_code_at m a o Ho), Hdc. reflexivity.
  - repeat split.
Qed.

Lemma do_getcode_spec m a : Inv m ->
  let '(m2, x) := do_getcode m a in
  exists m1 o c, got_ok m a m1 o /\ same_views m1 m2 /\ s_chg m2 = s_chg m1 /\ x = SVal c /\
               nb c = cur_code m a /\ aget a (s_objs m2) <> None.
Proof.
  intro I. unfold do_getcode. pose proof (get_obj_ok m a I) as G.
  destruct (get_obj m a) as [m1 o]. simpl in G.
  pose proof (inv_objs m1 (go_inv _ _ _ _ G) a o (go_obj _ _ _ _ G)) as Ok.
  rewrite (proj1 (obj_code_spec m1 a o Ok)).
  exists m1, o, (o_dcode o). split; [exact G|]. split; [| split; [reflexivity | split; [reflexivity| split]]].
  - apply (put_same_obj_views m1 a o o); try assumption; try reflexivity; apply G.
  - rewrite <- (go_cur_code _ _ _ _ G a). symmetry. apply cur_code_at. apply G.
  - rewrite put_obj_objs, N.eqb_refl. discriminate.
Qed.

Lemma do_getst_spec m a k : Inv m ->
  let '(m2, x) := do_getst m a k in
  exists m1 o v, got_ok m a m1 o /\ same_views m1 m2 /\ s_chg m2 = s_chg m1 /\
                 x = SGet (negb (is_nil v)) v /\ nb v = cur_st m a k /\ aget a (s_objs m2) <> None.
Proof.
  intro I. unfold do_getst. pose proof (get_obj_ok m a I) as G.
  destruct (get_obj m a) as [m1 o]. simpl in G.
  pose proof (inv_objs m1 (go_inv _ _ _ _ G) a o (go_obj _ _ _ _ G)) as Ok.
  pose proof (obj_get_state_spec m1 a o k Ok) as S. pose proof (obj_get_state_codes m1 a o k) as Hcodes.
  destruct (obj_get_state m1 a o k) as [o1 v]. cbn [fst] in Hcodes.
  destruct S as [Ok1 [Hv [_ [Hd [Hor [Hdi Hst]]]]]].
  exists m1, o, v. split; [exact G|]. split; [| split; [reflexivity | split; [reflexivity | split]]].
  - apply (put_same_obj_views m1 a o o1); try assumption; try apply G.
    + unfold cur_acct. rewrite Hdi, Hor. reflexivity.
    + exact (proj1 Hcodes).
  - rewrite Hv, <- (go_cur_st _ _ _ _ G a k). symmetry. apply cur_st_at. apply G.
  - rewrite put_obj_objs, N.eqb_refl. discriminate.
Qed.

(** GetCommittedState (repaired): the origin value, loaded on first use *)
Lemma obj_get_origin_spec m a o k :
  ObjOk m a o ->
  let '(o1, v) := obj_get_origin m a o k in
  ObjOk m a o1 /\ nb v = fl_st m a k /\ cur_acct o1 = cur_acct o /\ o_dcode o1 = o_dcode o /\
  (forall k', obj_st m a o1 k' = obj_st m a o k') /\ (forall k0, kget k0 (o_ost o) <> None -> kget k0 (o_ost o1) <> None).
Proof.
  intro Ok. unfold obj_get_origin.
  destruct (kget k (o_ost o)) as [v|] eqn:Eo.
  - split; [exact Ok|]. split; [eapply ok_org; eassumption|]. repeat (split; [reflexivity|]). intros k' H; exact H.
  - cbv zeta. set (v := cached_state m a k).
    split.
    { destruct Ok as [H1 H2 H3 H4 H5 H6]. constructor; simpl; try assumption.
      - intros k' v'. rewrite kget_kput. destruct (bytes_eqb k' k) eqn:E.
        + apply bytes_eqb_spec in E. subst k'. intro H. inversion H. reflexivity.
        + apply H2.
      - intros k' v' Hk. rewrite kget_kput. destruct (bytes_eqb k' k); [discriminate | eapply H3; exact Hk]. }
    split; [reflexivity|]. split; [reflexivity|]. split; [reflexivity|]. split.
    + intro k'. unfold obj_st. simpl. destruct (kget k' (o_dst o)); [reflexivity|].
      rewrite kget_kput. destruct (bytes_eqb k' k) eqn:E; [| reflexivity].
      apply bytes_eqb_spec in E. subst k'. rewrite Eo. reflexivity.
    + intros k' H. simpl. rewrite kget_kput. destruct (bytes_eqb k' k); [discriminate | exact H].
Qed.

Lemma do_getcommitted_spec m a k : Inv m ->
  let '(m2, x) := do_getcommitted cfg_fixed m a k in
  exists m1 o v, got_ok m a m1 o /\ same_views m1 m2 /\ s_chg m2 = s_chg m1 /\
                 x = SVal (committed_out v) /\ nb v = fl_st m a k /\ aget a (s_objs m2) <> None.
Proof.
  intro I. unfold do_getcommitted. cbn [d_getcommitted cfg_fixed negb]. pose proof (get_obj_ok m a I) as G.
  destruct (get_obj m a) as [m1 o]. simpl in G.
  pose proof (inv_objs m1 (go_inv _ _ _ _ G) a o (go_obj _ _ _ _ G)) as Ok.
  pose proof (obj_get_origin_spec m1 a o k Ok) as S.
  destruct (obj_get_origin m1 a o k) as [o1 v].
  destruct S as [Ok1 [Hv [Hac [Hdc [Hst _]]]]].
  exists m1, o, v. split; [exact G|]. split; [| split; [reflexivity | split; [reflexivity | split]]].
  - apply (put_same_obj_views m1 a o o1); try assumption; apply G.
  - rewrite Hv. apply fl_st_frame; apply G.
  - rewrite put_obj_objs, N.eqb_refl. discriminate.
Qed.

(** * writers *)
Record wrote_st (m m' : st) (a : N) (k : bytes) (b : bytes) : Prop := {
  ws_inv : Inv m';
  ws_db : s_db m' = s_db m;
  ws_cache : s_cache m' = s_cache m;
  ws_st : forall a' k', cur_st m' a' k' = if (a' =? a) && bytes_eqb k' k then b else cur_st m a' k';
  ws_ac : forall a', cur_oacct m' a' = cur_oacct m a';
  ws_code : forall a', cur_code m' a' = cur_code m a';
  ws_rest : s_pend m' = s_pend m /\ s_prev m' = s_prev m /\ s_min m' = s_min m /\ s_max m' = s_max m /\
            s_next m' = s_next m /\ s_revs m' = s_revs m /\ s_gen m' = s_gen m
}.

Lemma write_dst_obj m a o1 k v :
  Inv m -> aget a (s_objs m) = Some o1 -> kget k (o_ost o1) <> None ->
  wrote_st m (put_obj m a (set_dst o1 (kput k v (o_dst o1)))) a k (nb v).
Proof.
  intros I Ho Hk. pose proof (inv_objs m I a o1 Ho) as [H1 H2 H3 H4 H5 H6].
  constructor; try reflexivity.
  - apply Inv_put_obj; [exact I|]. constructor; simpl; try assumption.
    + exact (aset_NoDup bytes_eqb bytes_eqb_spec k v _ H1).
    + intros k' v'. rewrite kget_kput. destruct (bytes_eqb k' k) eqn:E.
      * apply bytes_eqb_spec in E. subst. intros _. exact Hk.
      * apply H3.
  - intros a' k'. rewrite cur_st_put_obj. destruct (a' =? a) eqn:E; simpl; [| reflexivity].
    apply N.eqb_eq in E. subst a'. unfold obj_st. simpl. rewrite kget_kput.
    destruct (bytes_eqb k' k) eqn:E2; [reflexivity|].
    rewrite (cur_st_at m a o1 k' Ho). reflexivity.
  - intros a'. rewrite cur_oacct_put_obj. destruct (a' =? a) eqn:E; [| reflexivity].
    apply N.eqb_eq in E. subst. rewrite (cur_oacct_at m a o1 Ho). reflexivity.
  - intros a'. rewrite cur_code_put_obj. destruct (a' =? a) eqn:E; [| reflexivity].
    apply N.eqb_eq in E. subst. rewrite (cur_code_at m a o1 Ho). reflexivity.
  - repeat split.
Qed.

Lemma wrote_st_frame_chg m m' a k b c : wrote_st m m' a k b -> wrote_st m (set_chg m' c) a k b.
Proof.
  intros [W1 W2 W3 W4 W5 Wc W6]. constructor; try assumption.
  revert W1. apply Inv_frame; reflexivity.
Qed.

(** the object after [get_obj] + [obj_get_state], put back *)
Lemma prepared_obj m a k : Inv m ->
  let '(m1, o) := get_obj m a in
  let '(o1, prev) := obj_get_state m1 a o k in
  got_ok m a m1 o /\ same_views m1 (put_obj m1 a o1) /\ kget k (o_ost o1) <> None /\ nb prev = cur_st m a k.
Proof.
  intro I. pose proof (get_obj_ok m a I) as G. destruct (get_obj m a) as [m1 o]. simpl in G.
  pose proof (inv_objs m1 (go_inv _ _ _ _ G) a o (go_obj _ _ _ _ G)) as Ok.
  pose proof (obj_get_state_spec m1 a o k Ok) as S. pose proof (obj_get_state_codes m1 a o k) as Hcodes.
  destruct (obj_get_state m1 a o k) as [o1 prev]. cbn [fst] in Hcodes.
  destruct S as [Ok1 [Hv [Hk [Hd [Hor [Hdi Hst]]]]]].
  split; [exact G|]. split; [| split; [exact Hk|]].
  - apply (put_same_obj_views m1 a o o1); try assumption; try apply G.
    + unfold cur_acct. rewrite Hdi, Hor. reflexivity.
    + exact (proj1 Hcodes).
  - rewrite Hv, <- (go_cur_st _ _ _ _ G a k). symmetry. apply cur_st_at. apply G.
Qed.

Lemma put_put_obj m a o o' : put_obj (put_obj m a o) a o' = put_obj m a o'.
Proof.
  unfold put_obj, set_objs. cbn [s_db s_cache s_objs s_chg s_gen s_revs s_next s_pend s_prev s_min s_max s_bad].
  f_equal. unfold aput, aset. f_equal. cbn [aremove]. rewrite N.eqb_refl.
  apply (aremove_absent N.eqb). rewrite (alookup_aremove N.eqb N_eqb_spec), N.eqb_refl. reflexivity.
Qed.

Lemma same_views_trans m1 m2 m3 : same_views m1 m2 -> same_views m2 m3 -> same_views m1 m3.
Proof.
  intros [A1 A2 A3 A4 A5 Ac A6] [B1 B2 B3 B4 B5 Bc B6]. apply Build_same_views.
  - exact B1.
  - congruence.
  - congruence.
  - intros a k. rewrite B4. apply A4.
  - intros a. rewrite B5. apply A5.
  - intros a. rewrite Bc. apply Ac.
  - decompose [and] A6. decompose [and] B6. repeat split; congruence.
Qed.

Lemma got_ok_same_views m a m1 o : got_ok m a m1 o -> same_views m m1.
Proof. intros [G1 G2 G3 G4 G5 G6 Gc G7 G8]. constructor; assumption. Qed.

Lemma wrote_st_after_views m0 m m' a k b : same_views m0 m -> wrote_st m m' a k b -> wrote_st m0 m' a k b.
Proof.
  intros [A1 A2 A3 A4 A5 Ac A6] [W1 W2 W3 W4 W5 Wc W6]. apply Build_wrote_st.
  - exact W1.
  - congruence.
  - congruence.
  - intros a' k'. rewrite W4, A4. reflexivity.
  - intros a'. rewrite W5. apply A5.
  - intros a'. rewrite Wc. apply Ac.
  - decompose [and] A6. decompose [and] W6. repeat split; congruence.
Qed.

(** SetState under the repaired configuration: one undo entry holding the previous value *)
Lemma do_setst_spec m a k v : Inv m ->
  let m' := do_setst cfg_fixed m a k v in
  wrote_st m m' a k (nb v) /\
  exists prev m1 o, got_ok m a m1 o /\ nb prev = cur_st m a k /\ s_chg m' = ChState a k prev :: s_chg m1 /\
                    (exists o', aget a (s_objs m') = Some o' /\ kget k (o_ost o') <> None).
Proof.
  intro I. unfold do_setst, chg_append. cbn [d_orphan_changer cfg_fixed andb].
  pose proof (prepared_obj m a k I) as P.
  destruct (get_obj m a) as [m1 o]. destruct (obj_get_state m1 a o k) as [o1 prev].
  destruct P as [G [SV [Hk Hp]]].
  set (m2 := set_chg m1 (ChState a k prev :: s_chg m1)).
  assert (E : put_obj m2 a (set_dst o1 (kput k v (o_dst o1))) =
              set_chg (put_obj (put_obj m1 a o1) a (set_dst o1 (kput k v (o_dst o1)))) (ChState a k prev :: s_chg m1)).
  { rewrite put_put_obj. reflexivity. }
  rewrite E. split.
  - apply wrote_st_frame_chg. apply (wrote_st_after_views m m1).
    + apply (got_ok_same_views m a m1 o G).
    + apply (wrote_st_after_views m1 (put_obj m1 a o1)); [exact SV|].
      apply write_dst_obj; [apply SV | rewrite put_obj_objs, N.eqb_refl; reflexivity | exact Hk].
  - exists prev, m1, o. split; [exact G|]. split; [exact Hp|]. split; [reflexivity|].
    eexists. split.
    + simpl. rewrite aget_aput, N.eqb_refl. reflexivity.
    + simpl. exact Hk.
Qed.

(** AddState under the repaired configuration: origin loaded, no undo entry *)
Lemma do_addst_spec m a k v : Inv m ->
  let m' := do_addst cfg_fixed m a k v in
  wrote_st m m' a k (nb v) /\ exists m1 o, got_ok m a m1 o /\ s_chg m' = s_chg m1.
Proof.
  intro I. unfold do_addst. cbn [d_addstate_origin cfg_fixed].
  pose proof (prepared_obj m a k I) as P.
  destruct (get_obj m a) as [m1 o]. destruct (obj_get_state m1 a o k) as [o1 prev]. cbn [fst].
  destruct P as [G [SV [Hk Hp]]].
  assert (E : put_obj m1 a (set_dst o1 (kput k v (o_dst o1))) =
              put_obj (put_obj m1 a o1) a (set_dst o1 (kput k v (o_dst o1)))) by (rewrite put_put_obj; reflexivity).
  rewrite E. split.
  - apply (wrote_st_after_views m m1); [apply (got_ok_same_views m a m1 o G)|].
    apply (wrote_st_after_views m1 (put_obj m1 a o1)); [exact SV|].
    apply write_dst_obj; [apply SV | rewrite put_obj_objs, N.eqb_refl; reflexivity | exact Hk].
  - exists m1, o. split; [exact G | reflexivity].
Qed.

(** account-field writers *)
Record wrote_ac (m m' : st) (a : N) (x : acct) (b : bytes) : Prop := {
  wa_inv : Inv m';
  wa_db : s_db m' = s_db m;
  wa_cache : s_cache m' = s_cache m;
  wa_st : forall a' k', cur_st m' a' k' = cur_st m a' k';
  wa_ac : forall a', cur_oacct m' a' = if a' =? a then Some x else cur_oacct m a';
  wa_code : forall a', cur_code m' a' = if a' =? a then b else cur_code m a';
  wa_rest : s_pend m' = s_pend m /\ s_prev m' = s_prev m /\ s_min m' = s_min m /\ s_max m' = s_max m /\
            s_next m' = s_next m /\ s_revs m' = s_revs m /\ s_gen m' = s_gen m
}.

(** writing an account record that keeps the current code hash *)
Lemma write_dirty_obj m a o x :
  Inv m -> aget a (s_objs m) = Some o -> ac_ch x = obj_ch o ->
  wrote_ac m (put_obj m a (set_dirty o (Some x))) a x (cur_code m a).
Proof.
  intros I Ho Hx. pose proof (inv_objs m I a o Ho) as [H1 H2 H3 H4 H5 H6].
  constructor; try reflexivity.
  - apply Inv_put_obj; [exact I|]. constructor; simpl; try assumption.
    unfold obj_ch, cur_acct in Hx.
    destruct H6 as [[Heq Hd] | [d [Hd [Hch Hn]]]].
    + left. split; [exact Heq|]. cbn [o_dirty set_dirty]. intros d Hy. inversion Hy; subst d. rewrite Hx.
      destruct (o_dirty o) as [d0|] eqn:E0; [apply Hd; reflexivity | reflexivity].
    + right. exists x. cbn [o_dirty set_dirty o_dcode]. split; [reflexivity|]. split; [| exact Hn].
      rewrite Hx, Hd. exact Hch.
  - intros a' k'. rewrite cur_st_put_obj. destruct (a' =? a) eqn:E; [| reflexivity].
    apply N.eqb_eq in E. subst. rewrite (cur_st_at m a o k' Ho). reflexivity.
  - intros a'. rewrite cur_oacct_put_obj. destruct (a' =? a); reflexivity.
  - intros a'. rewrite cur_code_put_obj. destruct (a' =? a) eqn:E; [| reflexivity].
    apply N.eqb_eq in E. subst. rewrite (cur_code_at m a o Ho). reflexivity.
  - repeat split.
Qed.

(** writing contract code: the dirty record gets the hash of the new code *)
Definition with_ch (x : option acct) (h : bytes) : acct :=
  let d := copy_or_new x in mkAcct (ac_nonce d) (ac_bal d) (Some h).

Lemma write_code_obj m a o c :
  Inv m -> aget a (s_objs m) = Some o -> (c = None -> cached_code m a = None) ->
  wrote_ac m (put_obj m a (obj_set_code e o c)) a (with_ch (cur_acct o) (e_kec e (nb c))) (nb c).
Proof.
  intros I Ho Hc. pose proof (inv_objs m I a o Ho) as [H1 H2 H3 H4 H5 H6].
  constructor; try reflexivity.
  - apply Inv_put_obj; [exact I|]. unfold obj_set_code. constructor; simpl; try assumption.
    right. eexists. split; [reflexivity|]. split; [reflexivity | exact Hc].
  - intros a' k'. rewrite cur_st_put_obj. destruct (a' =? a) eqn:E; [| reflexivity].
    apply N.eqb_eq in E. subst. rewrite (cur_st_at m a o k' Ho). reflexivity.
  - intros a'. rewrite cur_oacct_put_obj. destruct (a' =? a); reflexivity.
  - intros a'. rewrite cur_code_put_obj. destruct (a' =? a); reflexivity.
  - repeat split.
Qed.

Lemma wrote_ac_frame_chg m m' a x b c : wrote_ac m m' a x b -> wrote_ac m (set_chg m' c) a x b.
Proof.
  intros [W1 W2 W3 W4 W5 Wc W6]. constructor; try assumption.
  revert W1. apply Inv_frame; reflexivity.
Qed.

Lemma wrote_ac_after_views m0 m m' a x b : same_views m0 m -> wrote_ac m m' a x b -> wrote_ac m0 m' a x b.
Proof.
  intros [A1 A2 A3 A4 A5 Ac A6] [W1 W2 W3 W4 W5 Wc W6]. apply Build_wrote_ac.
  - exact W1.
  - congruence.
  - congruence.
  - intros a' k'. rewrite W4. apply A4.
  - intros a'. rewrite W5, A5. reflexivity.
  - intros a'. rewrite Wc, Ac. reflexivity.
  - decompose [and] A6. decompose [and] W6. repeat split; congruence.
Qed.


Definition with_bal (x : option acct) (z : Z) : acct :=
  let d := copy_or_new x in mkAcct (ac_nonce d) z (ac_ch d).
Definition with_nonce (x : option acct) (n : N) : acct :=
  let d := copy_or_new x in mkAcct n (ac_bal d) (ac_ch d).

Lemma do_setbal_spec m a z : Inv m ->
  let m' := do_setbal cfg_fixed m a z in
  wrote_ac m m' a (with_bal (cur_oacct m a) z) (cur_code m a) /\
  exists m1 o, got_ok m a m1 o /\ s_chg m' = ChBal a (snd (fst (acct_view (cur_oacct m a)))) :: s_chg m1 /\
               aget a (s_objs m') <> None.
Proof.
  intro I. unfold do_setbal, chg_append. cbn [d_orphan_changer cfg_fixed andb].
  pose proof (get_obj_ok m a I) as G. destruct (get_obj m a) as [m1 o]. simpl in G.
  pose proof (inv_objs m1 (go_inv _ _ _ _ G) a o (go_obj _ _ _ _ G)) as Ok.
  assert (Hc : cur_oacct m a = cur_acct o).
  { rewrite <- (go_cur_ac _ _ _ _ G a). apply cur_oacct_at. apply G. }
  split.
  - rewrite Hc.
    change (wrote_ac m (set_chg (put_obj m1 a (set_dirty o (Some (with_bal (cur_acct o) z)))) (ChBal a (obj_bal o) :: s_chg m1)) a (with_bal (cur_acct o) z) (cur_code m a)).
    apply wrote_ac_frame_chg. apply (wrote_ac_after_views m m1); [apply (got_ok_same_views m a m1 o G)|].
    rewrite <- (go_cur_code _ _ _ _ G a).
    apply write_dirty_obj; [apply G | apply G |].
    unfold with_bal, copy_or_new, obj_ch. simpl. destruct (cur_acct o) as [x|] eqn:E; reflexivity.
  - exists m1, o. split; [exact G|]. split.
    + simpl. rewrite Hc, obj_bal_view. reflexivity.
    + simpl. rewrite aget_aput, N.eqb_refl. discriminate.
Qed.

Lemma do_setnonce_spec m a n : Inv m ->
  let m' := do_setnonce cfg_fixed m a n in
  wrote_ac m m' a (with_nonce (cur_oacct m a) n) (cur_code m a) /\
  exists m1 o, got_ok m a m1 o /\ s_chg m' = ChNonce a (fst (fst (acct_view (cur_oacct m a)))) :: s_chg m1 /\
               aget a (s_objs m') <> None.
Proof.
  intro I. unfold do_setnonce, chg_append. cbn [d_orphan_changer cfg_fixed andb].
  pose proof (get_obj_ok m a I) as G. destruct (get_obj m a) as [m1 o]. simpl in G.
  pose proof (inv_objs m1 (go_inv _ _ _ _ G) a o (go_obj _ _ _ _ G)) as Ok.
  assert (Hc : cur_oacct m a = cur_acct o).
  { rewrite <- (go_cur_ac _ _ _ _ G a). apply cur_oacct_at. apply G. }
  split.
  - rewrite Hc.
    change (wrote_ac m (set_chg (put_obj m1 a (set_dirty o (Some (with_nonce (cur_acct o) n)))) (ChNonce a (obj_nonce o) :: s_chg m1)) a (with_nonce (cur_acct o) n) (cur_code m a)).
    apply wrote_ac_frame_chg. apply (wrote_ac_after_views m m1); [apply (got_ok_same_views m a m1 o G)|].
    rewrite <- (go_cur_code _ _ _ _ G a).
    apply write_dirty_obj; [apply G | apply G |].
    unfold with_nonce, copy_or_new, obj_ch. simpl. destruct (cur_acct o) as [x|] eqn:E; reflexivity.
  - exists m1, o. split; [exact G|]. split.
    + simpl. rewrite Hc, obj_nonce_view. reflexivity.
    + simpl. rewrite aget_aput, N.eqb_refl. discriminate.
Qed.

(** SetCode: one undo entry holding the previous code *)
Lemma do_setcode_spec m a c : Inv m ->
  let m' := do_setcode e cfg_fixed m a c in
  exists prev m1 o,
    got_ok m a m1 o /\ wrote_ac m m' a (with_ch (cur_oacct m a) (e_kec e (nb c))) (nb c) /\
    s_chg m' = ChCode a prev :: s_chg m1 /\ nb prev = cur_code m a /\
    (prev = None -> cached_code m a = None) /\ aget a (s_objs m') <> None.
Proof.
  intro I. unfold do_setcode, chg_append. cbn [d_orphan_changer d_setcode_nil cfg_fixed andb].
  pose proof (get_obj_ok m a I) as G. destruct (get_obj m a) as [m1 o]. simpl in G.
  pose proof (inv_objs m1 (go_inv _ _ _ _ G) a o (go_obj _ _ _ _ G)) as Ok.
  destruct (obj_code_spec m1 a o Ok) as [Hoc Hnone]. rewrite Hoc.
  assert (Hc : cur_oacct m a = cur_acct o).
  { rewrite <- (go_cur_ac _ _ _ _ G a). apply cur_oacct_at. apply G. }
  assert (Hcm : forall a', cached_code m1 a' = cached_code m a').
  { apply cached_code_frame; apply G. }
  exists (o_dcode o), m1, o. split; [exact G|]. split; [| split; [reflexivity | split; [| split]]].
  - rewrite Hc.
    change (wrote_ac m (set_chg (put_obj m1 a (obj_set_code e o (Some (nb c)))) (ChCode a (o_dcode o) :: s_chg m1)) a
                     (with_ch (cur_acct o) (e_kec e (nb (Some (nb c))))) (nb (Some (nb c)))).
    apply wrote_ac_frame_chg. apply (wrote_ac_after_views m m1); [apply (got_ok_same_views m a m1 o G)|].
    apply write_code_obj; [apply G | apply G | intro H; discriminate].
  - rewrite <- (go_cur_code _ _ _ _ G a). symmetry. apply cur_code_at. apply G.
  - intro H. rewrite <- Hcm. apply Hnone, H.
  - simpl. rewrite aget_aput, N.eqb_refl. discriminate.
Qed.

(** * account objects only ever gain origin entries (until a Clear) *)
Definition ost_sub (o o' : obj) : Prop := forall k, kget k (o_ost o) <> None -> kget k (o_ost o') <> None.
Definition objs_mono (m m' : st) : Prop :=
  forall a o, aget a (s_objs m) = Some o -> exists o', aget a (s_objs m') = Some o' /\ ost_sub o o'.

Lemma objs_mono_refl m : objs_mono m m.
Proof. intros a o H. exists o. split; [exact H | intros k Hk; exact Hk]. Qed.

Lemma objs_mono_trans m1 m2 m3 : objs_mono m1 m2 -> objs_mono m2 m3 -> objs_mono m1 m3.
Proof.
  intros H1 H2 a o Ha. destruct (H1 a o Ha) as [o' [Ha' S1]]. destruct (H2 a o' Ha') as [o'' [Ha'' S2]].
  exists o''. split; [exact Ha'' | intros k Hk; apply S2, S1, Hk].
Qed.

Lemma objs_mono_put m a o o' : aget a (s_objs m) = Some o -> ost_sub o o' -> objs_mono m (put_obj m a o').
Proof.
  intros Ha Hs b ob Hb. rewrite put_obj_objs. destruct (b =? a) eqn:E.
  - apply N.eqb_eq in E. subst b. rewrite Ha in Hb. inversion Hb; subst ob. exists o'. split; [reflexivity | exact Hs].
  - exists ob. split; [exact Hb | intros k Hk; exact Hk].
Qed.

Lemma objs_mono_put_new m a o' : aget a (s_objs m) = None -> objs_mono m (put_obj m a o').
Proof.
  intros Ha b ob Hb. rewrite put_obj_objs. destruct (b =? a) eqn:E.
  - apply N.eqb_eq in E. subst b. congruence.
  - exists ob. split; [exact Hb | intros k Hk; exact Hk].
Qed.

Lemma objs_mono_frame m m' m'' : s_objs m'' = s_objs m' -> objs_mono m m' -> objs_mono m m''.
Proof. intros H M a o Ha. rewrite H. apply M. exact Ha. Qed.

Lemma got_objs_mono m a m1 o : got m a m1 o -> objs_mono m m1.
Proof.
  intros [o' Hp | o' Ha Hl | Ha Hl].
  - apply objs_mono_refl.
  - apply objs_mono_put_new. exact Ha.
  - eapply objs_mono_frame; [| apply (objs_mono_put_new m a (new_obj m) Ha)]. reflexivity.
Qed.

Lemma obj_get_state_ost m a o k : ost_sub o (fst (obj_get_state m a o k)).
Proof.
  unfold obj_get_state. destruct (kget k (o_dst o)); [intros k' H; exact H|].
  destruct (kget k (o_ost o)); [intros k' H; exact H|].
  intros k' H. simpl. rewrite kget_kput. destruct (bytes_eqb k' k); [discriminate | exact H].
Qed.

Lemma obj_get_state_ost_only m a o k : o_dst (fst (obj_get_state m a o k)) = o_dst o.
Proof.
  unfold obj_get_state. destruct (kget k (o_dst o)); [reflexivity|].
  destruct (kget k (o_ost o)); reflexivity.
Qed.

Lemma got_obj_at m a m1 o : got m a m1 o -> aget a (s_objs m1) = Some o.
Proof.
  intros [o' Hp | o' Ha Hl | Ha Hl].
  - exact Hp.
  - rewrite put_obj_objs, N.eqb_refl. reflexivity.
  - change (aget a (s_objs (put_obj m a (new_obj m))) = Some (new_obj m)). rewrite put_obj_objs, N.eqb_refl. reflexivity.
Qed.

Lemma do_getbal_mono m a : objs_mono m (fst (do_getbal m a)).
Proof.
  unfold do_getbal. pose proof (get_obj_got m a) as G. destruct (get_obj m a) as [m1 o]. simpl in *.
  eapply got_objs_mono; exact G.
Qed.
Lemma do_getnonce_mono m a : objs_mono m (fst (do_getnonce m a)).
Proof.
  unfold do_getnonce. pose proof (get_obj_got m a) as G. destruct (get_obj m a) as [m1 o]. simpl in *.
  eapply got_objs_mono; exact G.
Qed.

Lemma obj_code_ost m a o : ost_sub o (fst (obj_code m a o)).
Proof.
  unfold obj_code. destruct (o_dcode o); [intros k H; exact H|]. destruct (o_ocode o); [intros k H; exact H|].
  destruct (negb (ch_nonempty (obj_ch o))); intros k H; exact H.
Qed.

Lemma do_getcode_mono m a : objs_mono m (fst (do_getcode m a)).
Proof.
  unfold do_getcode. pose proof (get_obj_got m a) as G. destruct (get_obj m a) as [m1 o]. simpl in G.
  pose proof (obj_code_ost m1 a o) as S. destruct (obj_code m1 a o) as [o1 c]. simpl in *.
  eapply objs_mono_trans; [eapply got_objs_mono; exact G|].
  apply (objs_mono_put m1 a o o1); [eapply got_obj_at; exact G | exact S].
Qed.

Lemma do_getst_mono m a k : objs_mono m (fst (do_getst m a k)).
Proof.
  unfold do_getst. pose proof (get_obj_got m a) as G. destruct (get_obj m a) as [m1 o]. simpl in G.
  pose proof (obj_get_state_ost m1 a o k) as S. destruct (obj_get_state m1 a o k) as [o1 v]. simpl in *.
  eapply objs_mono_trans; [eapply got_objs_mono; exact G|].
  apply (objs_mono_put m1 a o o1); [eapply got_obj_at; exact G | exact S].
Qed.

Lemma do_setst_mono m a k v : objs_mono m (do_setst cfg_fixed m a k v).
Proof.
  unfold do_setst, chg_append. cbn [d_orphan_changer cfg_fixed andb].
  pose proof (get_obj_got m a) as G. destruct (get_obj m a) as [m1 o]. simpl in G.
  pose proof (obj_get_state_ost m1 a o k) as S. destruct (obj_get_state m1 a o k) as [o1 prev]. simpl in S.
  eapply objs_mono_trans; [eapply got_objs_mono; exact G|].
  eapply objs_mono_frame; [| apply (objs_mono_put m1 a o (set_dst o1 (kput k v (o_dst o1))));
                              [eapply got_obj_at; exact G | exact S]].
  reflexivity.
Qed.

Lemma do_addst_mono m a k v : objs_mono m (do_addst cfg_fixed m a k v).
Proof.
  unfold do_addst. cbn [d_addstate_origin cfg_fixed].
  pose proof (get_obj_got m a) as G. destruct (get_obj m a) as [m1 o]. simpl in G.
  pose proof (obj_get_state_ost m1 a o k) as S.
  eapply objs_mono_trans; [eapply got_objs_mono; exact G|].
  apply (objs_mono_put m1 a o); [eapply got_obj_at; exact G | exact S].
Qed.

Lemma do_setbal_mono m a z : objs_mono m (do_setbal cfg_fixed m a z).
Proof.
  unfold do_setbal, chg_append. cbn [d_orphan_changer cfg_fixed andb].
  pose proof (get_obj_got m a) as G. destruct (get_obj m a) as [m1 o]. simpl in G.
  eapply objs_mono_trans; [eapply got_objs_mono; exact G|].
  eapply objs_mono_frame; [| apply (objs_mono_put m1 a o (set_dirty o (Some (with_bal (cur_acct o) z))));
                              [eapply got_obj_at; exact G | intros k H; exact H]].
  reflexivity.
Qed.

Lemma do_setnonce_mono m a n : objs_mono m (do_setnonce cfg_fixed m a n).
Proof.
  unfold do_setnonce, chg_append. cbn [d_orphan_changer cfg_fixed andb].
  pose proof (get_obj_got m a) as G. destruct (get_obj m a) as [m1 o]. simpl in G.
  eapply objs_mono_trans; [eapply got_objs_mono; exact G|].
  eapply objs_mono_frame; [| apply (objs_mono_put m1 a o (set_dirty o (Some (with_nonce (cur_acct o) n))));
                              [eapply got_obj_at; exact G | intros k H; exact H]].
  reflexivity.
Qed.

Lemma do_setcode_mono m a c : objs_mono m (do_setcode e cfg_fixed m a c).
Proof.
  unfold do_setcode, chg_append. cbn [d_orphan_changer d_setcode_nil cfg_fixed andb].
  pose proof (get_obj_got m a) as G. destruct (get_obj m a) as [m1 o]. simpl in G.
  pose proof (obj_code_ost m1 a o) as S. destruct (obj_code m1 a o) as [o1 prev]. simpl in S.
  eapply objs_mono_trans; [eapply got_objs_mono; exact G|].
  eapply objs_mono_frame; [| apply (objs_mono_put m1 a o (obj_set_code e o1 (Some (nb c))));
                              [eapply got_obj_at; exact G | exact S]].
  reflexivity.
Qed.

Lemma do_getcommitted_mono m a k : objs_mono m (fst (do_getcommitted cfg_fixed m a k)).
Proof.
  unfold do_getcommitted. cbn [d_getcommitted cfg_fixed negb].
  pose proof (get_obj_got m a) as G. destruct (get_obj m a) as [m1 o]. simpl in G.
  assert (S : ost_sub o (fst (obj_get_origin m1 a o k))).
  { unfold obj_get_origin. destruct (kget k (o_ost o)); [intros k' H; exact H|].
    intros k' H. simpl. rewrite kget_kput. destruct (bytes_eqb k' k); [discriminate | exact H]. }
  destruct (obj_get_origin m1 a o k) as [o1 v]. simpl in *.
  eapply objs_mono_trans; [eapply got_objs_mono; exact G|].
  apply (objs_mono_put m1 a o o1); [eapply got_obj_at; exact G | exact S].
Qed.

End Block.
