(** Proofs about [Model/Dispatch.v]: totality of the modelled control flow under the repaired
    behaviour and the library hypothesis; reflection facts; crash witnesses per defect flag. *)
From Coq Require Import String.
From BX Require Import Base.Prelude Model.Sites Model.Dispatch.
Local Open Scope N_scope.

Definition invalid_of (t : dtx) : bool :=
  match dt_proof t with
  | PfNotIbtp | PfVerified => negb (dt_sig_ok t)
  | _ => true
  end.

Lemma verify_one_fixed t : lib_ok t -> verify_one dcfg_fixed t = Ret (invalid_of t).
Proof.
  intros [H1 H2]. unfold verify_one, invalid_of. destruct (dt_proof t); simpl; try reflexivity; congruence.
Qed.

Lemma verify_all_fixed ts : (forall t, In t ts -> lib_ok t) ->
  verify_all dcfg_fixed ts = Ret (map invalid_of ts).
Proof.
  induction ts as [|t r IH]; intro H; simpl; [reflexivity|].
  rewrite verify_one_fixed by (apply H; left; reflexivity).
  rewrite IH by (intros x Hx; apply H; right; exact Hx). reflexivity.
Qed.

Lemma bad_event_promoted m : posts_undecodable_event m = true -> is_promoted m = true.
Proof. unfold posts_undecodable_event, is_promoted. destruct (ms_promoted m) as [[]|]; auto; discriminate. Qed.

(** under the repaired behaviour no transaction content makes [apply_dtx] crash or hang *)
Lemma apply_dtx_fixed_total i t : exists x, apply_dtx dcfg_fixed i t = Ret x.
Proof.
  unfold apply_dtx. destruct i; [eauto|].
  destruct (dt_body t) as [| |ok| |ok|ok|bc|beh|evm_ok lg bc| | | |]; try (eexists; reflexivity).
  - cbn [d_code_revert_reenters dcfg_fixed]. rewrite andb_false_r. eauto.
  - (* BBvm *)
    destruct (invoke dcfg_fixed bc) as [ran ok] eqn:Ei.
    assert (Hw : call_wipes dcfg_fixed bc = false) by (destruct bc; reflexivity).
    rewrite Hw, andb_false_r. cbn [andb].
    assert (Hb : ran && call_bad_event bc = false).
    { destruct bc as [| | |m args beh evm]; simpl in *; try (inversion Ei; reflexivity).
      destruct (posts_undecodable_event m) eqn:Ep; [|apply andb_false_r].
      apply bad_event_promoted in Ep. rewrite Ep in Ei. simpl in Ei. inversion Ei. reflexivity. }
    rewrite Hb. eauto.
  - (* BEth *)
    destruct evm_ok; cbn [negb]; [|eauto]. destruct lg; cbn [negb]; [|eauto].
    cbn [d_evm_interchain_norecover dcfg_fixed]. rewrite andb_false_r. eauto.
Qed.

Lemma apply_all_fixed : forall ts, exists rs,
  apply_all dcfg_fixed (map invalid_of ts) ts = Ret rs /\
  rs = map (fun t => match apply_dtx dcfg_fixed (invalid_of t) t with Ret x => x | _ => Some false end) ts.
Proof.
  induction ts as [|t r [rs [IH1 IH2]]]; simpl; [eauto|].
  destruct (apply_dtx_fixed_total (invalid_of t) t) as [x Hx]. rewrite Hx, IH1.
  eexists. split; [reflexivity|]. rewrite IH2. reflexivity.
Qed.

(** C08 (partial): for all blocks, under the library hypothesis, the modelled [exec_block] never
    yields Crash / Hang, returns exactly one receipt per transaction, in block order (the receipt
    at position i is a function of the transaction at position i), and commits height + 1 *)
Theorem total_partial ts h : (forall t, In t ts -> lib_ok t) ->
  exec_block dcfg_fixed h ts = Ret (map receipt_spec ts, h + 1).
Proof.
  intro H. unfold exec_block. rewrite verify_all_fixed by exact H.
  destruct (apply_all_fixed ts) as [rs [H1 H2]]. rewrite H1, H2. reflexivity.
Qed.

Corollary total_partial_length ts h : (forall t, In t ts -> lib_ok t) ->
  exists rs, exec_block dcfg_fixed h ts = Ret (rs, h + 1) /\ List.length rs = List.length ts.
Proof. intro H. eexists. split; [apply total_partial; exact H | apply map_length]. Qed.

(** faithful dispatcher: whatever the call (unknown contract / method, unparsable or mismatching
    arguments, panicking callee, missing result), a BVM transaction that neither reaches
    CrossInvokeEVM nor posts an undecodable event always gets a receipt: every such panic is
    under Run's recover *)
Theorem bvm_panics_recovered c bc fee sig pf :
  call_wipes c bc = false -> call_bad_event bc = false ->
  exists x, apply_dtx c false {| dt_proof := pf; dt_sig_ok := sig; dt_body := BBvm bc; dt_fee_ok := fee |} = Ret x.
Proof.
  intros Hw Hb. unfold apply_dtx. cbn [dt_body dt_fee_ok].
  destruct (invoke c bc) as [ran ok]. rewrite Hw, Hb, !andb_false_r. cbn [andb]. eauto.
Qed.

(** reflection facts *)
Lemma arity_mismatch_fails c m args beh evm ks :
  ms_variadic m = false -> parse_args args = Some ks -> List.length ks <> List.length (ms_params m) ->
  invoke c (BcCall m args beh evm) = (false, Some false).
Proof.
  intros Hv Hp Hl. unfold invoke. destruct (is_promoted m && negb (d_promoted_dispatch c)); [reflexivity|].
  rewrite Hp. unfold call_shape. rewrite Hv.
  assert (H : all2 assignable ks (ms_params m) = false).
  { clear Hp. revert Hl. generalize (ms_params m). induction ks as [|k t IH]; intros [|p ps] Hl; simpl; try reflexivity.
    - exfalso. apply Hl. reflexivity.
    - rewrite (IH ps); [apply andb_false_r|]. intro E. apply Hl. simpl. rewrite E. reflexivity. }
  rewrite H. reflexivity.
Qed.

Lemma unparsable_arg_fails c m args beh evm :
  parse_args args = None -> invoke c (BcCall m args beh evm) = (false, Some false).
Proof.
  intro Hp. unfold invoke. destruct (is_promoted m && negb (d_promoted_dispatch c)); [reflexivity|].
  rewrite Hp. reflexivity.
Qed.

(** a method without a Response result RUNS and then fails (InitServiceCache, every promoted
    Stub method except CrossInvoke / CrossInvokeEVM) *)
Lemma no_response_runs_then_fails c m args beh evm ks :
  (is_promoted m = false \/ d_promoted_dispatch c = true) ->
  parse_args args = Some ks -> call_shape m ks = true -> ms_response m = false ->
  invoke c (BcCall m args beh evm) = (true, Some false).
Proof.
  intros Hpr Hp Hs Hr. unfold invoke.
  assert (H : is_promoted m && negb (d_promoted_dispatch c) = false)
    by (destruct Hpr as [->| ->]; [reflexivity | apply andb_false_r]).
  rewrite H, Hp, Hs, Hr. reflexivity.
Qed.

Lemma promoted_refused_fixed m args beh evm :
  is_promoted m = true -> invoke dcfg_fixed (BcCall m args beh evm) = (false, Some false).
Proof. intro H. unfold invoke. rewrite H. reflexivity. Qed.

(** ------------------------------------------------------------------------------------ *)
(** crash witnesses, one per flag (all other flags off) *)

Definition with_promoted := {| d_promoted_dispatch := true; d_evm_wipes_revisions := false; d_checkproof_nil_err := false;
                              d_nil_validator := false; d_evm_interchain_norecover := false; d_nil_to := false; d_nil_from := false; d_code_revert_reenters := false |}.
Definition with_wipe := {| d_promoted_dispatch := false; d_evm_wipes_revisions := true; d_checkproof_nil_err := false;
                          d_nil_validator := false; d_evm_interchain_norecover := false; d_nil_to := false; d_nil_from := false; d_code_revert_reenters := false |}.
Definition with_nilerr := {| d_promoted_dispatch := false; d_evm_wipes_revisions := false; d_checkproof_nil_err := true;
                            d_nil_validator := false; d_evm_interchain_norecover := false; d_nil_to := false; d_nil_from := false; d_code_revert_reenters := false |}.
Definition with_nilval := {| d_promoted_dispatch := false; d_evm_wipes_revisions := false; d_checkproof_nil_err := false;
                            d_nil_validator := true; d_evm_interchain_norecover := false; d_nil_to := false; d_nil_from := false; d_code_revert_reenters := false |}.
Definition with_evmic := {| d_promoted_dispatch := false; d_evm_wipes_revisions := false; d_checkproof_nil_err := false;
                           d_nil_validator := false; d_evm_interchain_norecover := true; d_nil_to := false; d_nil_from := false; d_code_revert_reenters := false |}.

Definition with_niladdr := {| d_promoted_dispatch := false; d_evm_wipes_revisions := false; d_checkproof_nil_err := false;
                             d_nil_validator := false; d_evm_interchain_norecover := false; d_nil_to := true; d_nil_from := true; d_code_revert_reenters := false |}.

Definition sig_post_interchain : msig :=
  {| ms_params := [KIface]; ms_variadic := false; ms_response := false; ms_promoted := Some SeEvent |}.
Definition sig_invoke_interchain : msig :=     (* InterBroker.InvokeInterchain(input []byte) *Response *)
  {| ms_params := [KBytes]; ms_variadic := false; ms_response := true; ms_promoted := None |}.
Definition sig_init_cache : msig :=
  {| ms_params := []; ms_variadic := false; ms_response := false; ms_promoted := None |}.
Definition plain (b : body) (fee : bool) : dtx := {| dt_proof := PfNotIbtp; dt_sig_ok := true; dt_body := b; dt_fee_ok := fee |}.

Theorem promoted_event_refuted :
  exec_block with_promoted 7 [plain (BBvm (BcCall sig_post_interchain [AStr] BOk false)) true] = Crash.
Proof. reflexivity. Qed.

Theorem evm_wipes_refuted :
  exec_block with_wipe 7 [plain (BBvm (BcCall sig_invoke_interchain [ABytes] BOk true)) false] = Crash /\
  exec_block with_wipe 7 [plain (BBvm (BcCall sig_invoke_interchain [ABytes] BErr true)) true] = Crash.
Proof. split; reflexivity. Qed.

Theorem checkproof_nil_err_refuted :
  exec_block with_nilerr 7 [{| dt_proof := PfRejectedFalse; dt_sig_ok := true; dt_body := BIbtp BOk; dt_fee_ok := true |}] = Crash.
Proof. reflexivity. Qed.

Theorem nil_validator_refuted :
  exec_block with_nilval 7 [{| dt_proof := PfValidatorNil; dt_sig_ok := true; dt_body := BIbtp BOk; dt_fee_ok := true |}] = Crash.
Proof. reflexivity. Qed.

Theorem evm_interchain_refuted :
  exec_block with_evmic 7 [plain (BEth true true (BcCall sig_init_cache [] BOk false)) true] = Crash.
Proof. reflexivity. Qed.

Definition with_coderevert := {| d_promoted_dispatch := false; d_evm_wipes_revisions := false; d_checkproof_nil_err := false;
                                d_nil_validator := false; d_evm_interchain_norecover := false; d_nil_to := false; d_nil_from := false;
                                d_code_revert_reenters := true |}.

(** a deployment that succeeds but whose fee cannot be paid wedges the executor *)
Theorem code_revert_refuted :
  exec_block with_coderevert 7 [plain (BXvmDeploy true) false] = Hang /\
  exec_block with_coderevert 7 [plain (BXvmDeploy true) true] = Ret ([Some true], 8) /\
  exec_block dcfg_fixed 7 [plain (BXvmDeploy true) false] = Ret ([Some false], 8).
Proof. repeat split; reflexivity. Qed.

Theorem nil_address_refuted :
  exec_block with_niladdr 7 [plain BNilTo true] = Crash /\ exec_block with_niladdr 7 [plain BNilFrom true] = Crash.
Proof. split; reflexivity. Qed.

(** non-vacuity: a hostile block under the repaired behaviour *)
Example total_example :
  exec_block dcfg_fixed 7
    [ plain BNilPayload true; plain BBadTxData false; plain (BBvm BcUnknownContract) true;
      plain (BBvm (BcCall sig_post_interchain [AStr] BOk false)) true;
      plain (BBvm (BcCall sig_invoke_interchain [AU64 false] BOk true)) true;
      plain (BBvm (BcCall sig_invoke_interchain [ABytes; AStr] BPanic true)) true;
      plain (BBvm (BcCall sig_init_cache [] BOk false)) true;
      {| dt_proof := PfRejectedFalse; dt_sig_ok := true; dt_body := BIbtp BOk; dt_fee_ok := true |};
      {| dt_proof := PfVerified; dt_sig_ok := true; dt_body := BIbtp BPanic; dt_fee_ok := true |};
      plain (BTransfer (Some true)) true ]
  = Ret ([Some false; Some false; Some false; Some false; Some false; Some false; Some false; Some false; Some false; Some true], 8).
Proof. reflexivity. Qed.

Lemma total_b_spec k : total_b k = true <->
  exists o, dc_obs k = OReceipts o true true /\ List.length o = List.length (dc_txs k).
Proof.
  unfold total_b. destruct (dc_obs k) as [| |o hp ord]; split; try discriminate; try (intros [o' [H _]]; discriminate).
  - rewrite !andb_true_iff, Nat.eqb_eq. intros [[H1 ->] ->]. exists o. auto.
  - intros [o' [H1 H2]]. inversion H1; subst. rewrite H2, Nat.eqb_refl. reflexivity.
Qed.
