(** C05_notify_complete at the level of one transaction: when an accepted IBTP takes a group from
    BEGIN to BEGIN_FAILURE (a child fails at begin, or a failure receipt arrives), the multi-tx notify
    map of the current height lists every other child for the source chain and every other
    already-succeeded child for its own destination chain. *)
From BX Require Import Base.Prelude Base.Fsm Model.TxFsm Model.TxMgr Model.Interchain Model.IbtpExec
     Proofs.TxFsmProofs Proofs.IbtpBasics Proofs.IbtpStep Proofs.IbtpTm Proofs.IbtpIc Proofs.IbtpInv
     Proofs.IbtpTl Proofs.IbtpTimeout Proofs.IbtpBlock Proofs.IbtpGroup Proofs.IbtpProps.
From Coq Require Import String ZifyBool ZifyN ZifyNat.
Local Open Scope N_scope.

(** children carry the source service of their group *)
Definition FInv (t : txm) : Prop := forall i g, tm_child t i = Some g -> fst (fst i) = fst (fst g).

Lemma finv_handle w h serial b t c t' c' r :
  FInv t -> handle_ibtp cfg_fixed w h serial b t c = Some (t', c', r) -> FInv t'.
Proof.
  intros F H. apply handle_fixed_inv in H. inversion H; subst; [exact F|].
  match goal with Ht : tm_step _ _ _ _ _ _ _ _ = Some _ |- _ => apply tm_step_inv in Ht; inversion Ht; subst end;
    try (intros i g Hi; apply F; exact Hi).
  - match goal with Hb : bm_change _ _ _ _ _ _ _ _ _ _ |- _ => apply bm_fields in Hb; destruct Hb as [_ C] end.
    intros i g0 Hi. rewrite C in Hi. unfold upd in Hi. destruct (txid_eqb i (b_id b)) eqn:E.
    + apply txid_eqb_eq in E. subst i. inversion Hi; subst g0.
      match goal with Hg : group_gid b = Some _ |- _ => unfold group_gid in Hg; destruct (b_grp b) as [[gg n]|]; inversion Hg; subst end.
      reflexivity.
    + apply F. exact Hi.
  - match goal with Hr : rp_change _ _ _ _ _ _ |- _ => apply rp_fields in Hr; destruct Hr as [C _] end.
    intros i g0 Hi. rewrite C in Hi. apply F. exact Hi.
Qed.

Lemma reach_finv w st : reach w st -> FInv (s_tm st).
Proof.
  induction 1.
  - intros i g Hi. discriminate.
  - pose proof (reach_sinv _ _ H) as S.
    destruct (exec_block_fixed w st ops S H0 H1) as [st2 [bm2 [mid [t2 [E2 [_ F]]]]]].
    rewrite H2 in E2. inversion E2; subst st2 bm2.
    assert (Fmid : FInv (s_tm mid)).
    { eapply (apply_ops_tm_pres FInv w (s_h st + 1)); [|exact (bf_ops _ _ _ _ _ _ _ F) | exact IHreach].
      intros. eapply finv_handle; eauto. }
    intros i g Hi. rewrite (bf_child _ _ _ _ _ _ _ F) in Hi. apply Fmid. exact Hi.
  - intros i g Hi. apply IHreach. exact Hi.
Qed.

(** ** [add_multi] *)
Lemma get_multi_put c h m : get_multi (put_multi c h m) h = m.
Proof. unfold get_multi, put_multi. simpl. rewrite updN_same. reflexivity. Qed.

Lemma add_multi_src_in w c h ids i :
  In i ids -> exists first, nth_error ids 0 = Some first /\
                            In i (get_multi (add_multi cfg_fixed w c h ids true) h (notify_chain_src w first)).
Proof.
  intro Hin. destruct ids as [|first r]; [contradiction|]. exists first. split; [reflexivity|].
  unfold add_multi. rewrite get_multi_put. rewrite updN_same. apply in_or_app. right. exact Hin.
Qed.

Lemma add_multi_mono cfg w c h ids toSrc k i :
  In i (get_multi c h k) -> In i (get_multi (add_multi cfg w c h ids toSrc) h k).
Proof.
  intro Hin. unfold add_multi. destruct ids as [|first r]; [exact Hin|]. rewrite get_multi_put.
  destruct toSrc.
  - unfold upd. destruct (k =? notify_chain_src w first) eqn:E; [|exact Hin].
    apply N.eqb_eq in E. subst. apply in_or_app. left. exact Hin.
  - generalize (first :: r). intro l. revert Hin. generalize (get_multi c h). induction l as [|x t IH]; intros m Hin; [exact Hin|].
    simpl. apply IH. unfold upd. destruct (k =? _) eqn:E; [|exact Hin].
    apply N.eqb_eq in E. subst. apply in_or_app. left. exact Hin.
Qed.

Lemma add_multi_dst_in w c h ids i :
  In i ids -> In i (get_multi (add_multi cfg_fixed w c h ids false) h (notify_chain_dst w i)).
Proof.
  intro Hin. unfold add_multi. destruct ids as [|first r]; [contradiction|]. rewrite get_multi_put.
  cbn [d_multitx_dst_first cfg_fixed].
  generalize dependent (first :: r). intro l. generalize (get_multi c h).
  induction l as [|x t IH]; intros m Hin; [contradiction|].
  simpl. destruct Hin as [-> | Hin].
  - (* added now; later additions only append *)
    assert (Hnow : In i (upd N.eqb m (notify_chain_dst w i) (m (notify_chain_dst w i) ++ [i]) (notify_chain_dst w i))).
    { rewrite updN_same. apply in_or_app. right. left. reflexivity. }
    revert Hnow. generalize (upd N.eqb m (notify_chain_dst w i) (m (notify_chain_dst w i) ++ [i])).
    clear IH. induction t as [|y t IH]; intros m0 Hnow; [exact Hnow|].
    simpl. apply IH. unfold upd. destruct (notify_chain_dst w i =? notify_chain_dst w y) eqn:E; [|exact Hnow].
    apply N.eqb_eq in E. rewrite <- E. apply in_or_app. left. exact Hnow.
  - apply IH. exact Hin.
Qed.

(** ** the theorem *)
Lemma process_multi_same w c b rec serial notif terr cur kids :
  i_multi (fst (process_ibtp w c b rec serial notif terr false cur kids)) = i_multi c.
Proof.
  unfold process_ibtp. destruct (is_request b && negb notif); [reflexivity|].
  destruct (is_final cur); [|reflexivity].
  destruct kids as [|k0 kr].
  - simpl. destruct (set_dest_fields c (b_from b) (b_to b) (b_idx b) rec) as [_ [_ F]]. exact F.
  - destruct (handle_multi c (k0 :: kr)) as [c1 ok] eqn:E.
    assert (Hm : i_multi c1 = i_multi c).
    { clear -E. revert c c1 ok E. induction (k0 :: kr) as [|x t IH]; intros c c1 ok E; simpl in E.
      - inversion E; subst. reflexivity.
      - destruct (atoi_ok x); [|inversion E; subst; reflexivity]. destruct x as [[f t0] y].
        rewrite (IH _ _ _ E). destruct (set_dest_fields c f t0 y (get_rec c f)) as [_ [_ F]]. exact F. }
    destruct ok; simpl; exact Hm.
Qed.

Lemma process_get_multi w c b rec serial notif terr cur kids h :
  get_multi (fst (process_ibtp w c b rec serial notif terr false cur kids)) h = get_multi c h.
Proof. unfold get_multi. rewrite process_multi_same. reflexivity. Qed.

Theorem c05_notify_step w st h serial b t' c' r g gi :
  reach w st -> ibtp_wf w b ->
  handle_ibtp cfg_fixed w h serial b (s_tm st) (s_ic st) = Some (t', c', r) ->
  tm_glob (s_tm st) g = Some gi -> g_state gi = ST_BEGIN -> gstate t' g = Some ST_BEGIN_FAILURE ->
  (forall k, In k (map fst (g_children gi)) -> k <> b_id b ->
             In k (get_multi c' h (match svc_lookup w (fst (fst g)) with Some s => sv_chain s | None => 0 end))) /\
  (forall k, In (k, ST_SUCCESS) (g_children gi) -> k <> b_id b ->
             In k (get_multi c' h (notify_chain_dst w k))).
Proof.
  intros R Hwf Hh Hg Hbeg Hfail.
  destruct (reach_sinv _ _ R) as [I _]. pose proof (reach_finv _ _ R) as FI.
  destruct Hwf as [Hsmall [_ Hloc]].
  destruct (binv_handle _ _ _ _ _ _ _ _ _ I Hsmall Hh) as [_ K].
  inversion K; subst.
  { unfold gstate in Hfail. rewrite Hg, Hbeg in Hfail. discriminate. }
  rename H into Esf. rename H0 into Esd. rename H2 into Et.
  pose proof (Hloc sf Esf) as Hsfl.
  (* every child of g: begun, source = source of g, index below 2^63 *)
  assert (Hkid : forall k, In k (map fst (g_children gi)) ->
                           fst (fst k) = fst (fst g) /\ atoi_ok k = true /\ tm_child (s_tm st) k = Some g).
  { intros k Hk. assert (Hc : tm_child (s_tm st) k = Some g).
    { apply (g_glob_child _ _ _ I g gi k Hg). apply child_lookup_keys. exact Hk. }
    split; [apply FI; exact Hc|]. split; [|exact Hc].
    destruct k as [[kf kt] kx]. assert (Hb : begun (s_tm st) (kf, kt, kx)) by (right; congruence).
    pose proof (b_begun_le _ _ _ I _ _ _ Hb) as Hle. pose proof (b_small _ _ _ I kf kt) as Hs.
    unfold atoi_ok, B63 in *. simpl. apply N.ltb_lt. lia. }
  assert (Hsrcchain : forall first, In first (map fst (g_children gi)) ->
            notify_chain_src w first = match svc_lookup w (fst (fst g)) with Some s => sv_chain s | None => 0 end).
  { intros first Hf. destruct (Hkid first Hf) as [E1 [E2 _]]. unfold notify_chain_src. rewrite E2, E1. reflexivity. }
  subst pc. rewrite !process_get_multi. subst nc.
  (* which call made the group fail *)
  apply tm_step_inv in Et. unfold gstate in Hfail.
  inversion Et; subst; simpl in Hfail; try (rewrite Hg, Hbeg in Hfail; discriminate).
  - (* a child failing at begin *)
    assert (Hsdl : is_local sd = true).
    { unfold is_local in *. apply N.eqb_eq in Hsfl. match goal with Hx : (sv_hub sf =? sv_hub sd) = true |- _ => apply N.eqb_eq in Hx end.
      apply N.eqb_eq. congruence. }
    match goal with Hb : bm_change _ _ ?G _ _ _ _ _ _ _ |- _ => rename G into g0; inversion Hb; subst; simpl in Hfail; unfold upd in Hfail end.
    + destruct (gid_eqb g g0) eqn:Eg.
      * apply gid_eqb_eq in Eg. subst g0. congruence.
      * subst t1. destruct terr; [rewrite Hg, Hbeg in Hfail; discriminate|].
        destruct (tm_add_timeout_fields cfg_fixed (s_tm st) hh (TGid g0)) as [_ [A _]]. rewrite A, Hg, Hbeg in Hfail. discriminate.
    + destruct (gid_eqb g g0) eqn:Eg; [|rewrite Hg, Hbeg in Hfail; discriminate].
      apply gid_eqb_eq in Eg. subst g0.
      match goal with Hx : tm_glob (s_tm st) g = Some ?x |- _ => tryif constr_eq x gi then fail else (assert (x = gi) by congruence; subst x) end. congruence.
    + destruct (gid_eqb g g0) eqn:Eg.
      2:{ match goal with Hx : tm_remove_timeout _ _ _ = Some _ |- _ => apply tm_remove_timeout_fields in Hx; destruct Hx as [_ [A _]] end.
          rewrite A, Hg, Hbeg in Hfail. discriminate. }
      apply gid_eqb_eq in Eg. subst g0.
      match goal with Hx : tm_glob (s_tm st) g = Some ?x |- _ => tryif constr_eq x gi then fail else (assert (x = gi) by congruence; subst x) end.
      (* the change: nsrc = all children, ndst = the SUCCESS ones *)
      unfold notify_src_dst, notify_flags. simpl. rewrite Hsfl, Hsdl. cbn [fst snd]. split.
      * intros k Hk _. apply add_multi_mono.
        assert (Hin : In k (id_sort w (map fst (g_children gi)))) by (apply id_sort_in; exact Hk).
        destruct (add_multi_src_in w (s_ic st) h _ k Hin) as [first [Hfirst Hres]].
        rewrite Hsrcchain in Hres; [exact Hres|].
        apply nth_error_In in Hfirst. apply id_sort_in in Hfirst. exact Hfirst.
      * intros k Hk _. apply add_multi_dst_in. apply id_sort_in. apply in_map_iff. exists (k, ST_SUCCESS).
        split; [reflexivity|]. apply filter_In. split; [exact Hk | apply N.eqb_refl].
    + destruct (gid_eqb g g0) eqn:Eg; [|rewrite Hg, Hbeg in Hfail; discriminate].
      apply gid_eqb_eq in Eg. subst g0.
      match goal with Hx : tm_glob (s_tm st) g = Some ?x |- _ => tryif constr_eq x gi then fail else (assert (x = gi) by congruence; subst x) end.
      simpl in Hfail. rewrite Hbeg in Hfail. discriminate.
  - (* a failure receipt *)
    match goal with Hr : rp_change _ _ _ _ _ _ |- _ => inversion Hr; subst; simpl in Hfail end.
    { rewrite Hg, Hbeg in Hfail. discriminate. }
    assert (Eg1 : tm_glob t1 = tm_glob (s_tm st)).
    { destruct rm.
      - match goal with Hx : tm_remove_timeout _ _ _ = Some _ |- _ => apply tm_remove_timeout_fields in Hx; destruct Hx as [_ [A _]] end. exact A.
      - match goal with Hx : Some _ = Some _ |- _ => inversion Hx; subst end. reflexivity. }
    unfold upd in Hfail. destruct (gid_eqb g g0) eqn:Eg; [|rewrite Eg1, Hg, Hbeg in Hfail; discriminate].
    apply gid_eqb_eq in Eg. subst g0.
    match goal with Hx : tm_glob (s_tm st) g = Some ?x |- _ => tryif constr_eq x gi then fail else (assert (x = gi) by congruence; subst x) end.
    match goal with Hc : cm_change _ _ _ _ _ |- _ => inversion Hc; subst; simpl in Hfail end.
    + (* CmFail *)
      assert (Hsame : sv_hub sf = sv_hub sd).
      { match goal with Hc : tm_child (s_tm st) (b_id b) = Some g |- _ =>
          apply (g_samehub _ _ _ I (b_id b) g sf sd Hc); unfold b_id; simpl; assumption end. }
      assert (Hsdl : is_local sd = true).
      { unfold is_local in *. apply N.eqb_eq in Hsfl. apply N.eqb_eq. congruence. }
      repeat match goal with x := _ |- _ => subst x end.
      unfold notify_src_dst, notify_flags. cbn [c_prev c_cur c_nsrc c_ndst c_failchild].
      rewrite Hbeg. cbn [option_eqb g_state]. unfold ST_BEGIN, ST_BEGIN_FAILURE. simpl N.eqb. cbn [negb andb].
      rewrite Hsfl, Hsdl. cbn [fst snd].
      set (kids' := child_set (b_id b) ST_FAILURE (children_all ST_BEGIN_FAILURE (g_children gi))).
      assert (Hkeys : map fst kids' = map fst (g_children gi)).
      { unfold kids'. rewrite child_set_keys, child_lookup_all.
        destruct (child_lookup (b_id b) (g_children gi)) eqn:E; [apply children_all_keys | contradiction]. }
      split.
      * intros k Hk Hne. apply add_multi_mono.
        set (others := filter (fun p : txid * N => negb (txid_eqb (fst p) (b_id b))) kids').
        assert (Hin : In k (id_sort w (map fst others))).
        { apply id_sort_in. rewrite <- Hkeys in Hk. apply in_map_iff in Hk. destruct Hk as [[k0 s0] [E0 Hk]]. simpl in E0. subst k0.
          apply in_map_iff. exists (k, s0). split; [reflexivity|]. apply filter_In. split; [exact Hk|].
          simpl. apply negb_true_iff. apply txid_eqb_neq. exact Hne. }
        destruct (add_multi_src_in w (s_ic st) h _ k Hin) as [first [Hfirst Hres]].
        rewrite Hsrcchain in Hres; [exact Hres|].
        apply nth_error_In in Hfirst. apply id_sort_in in Hfirst. apply in_map_iff in Hfirst.
        destruct Hfirst as [[f0 s0] [E0 Hf0]]. simpl in E0. subst f0. apply filter_In in Hf0. destruct Hf0 as [Hf0 _].
        rewrite <- Hkeys. apply in_map_iff. exists (first, s0). auto.
      * intros k Hk Hne. apply add_multi_dst_in. apply id_sort_in. apply in_map_iff. exists (k, ST_SUCCESS).
        split; [reflexivity|]. apply filter_In. split; [|apply N.eqb_refl].
        apply filter_In. split; [exact Hk|]. simpl. apply negb_true_iff. apply txid_eqb_neq. exact Hne.
    + rewrite Hbeg in Hfail. discriminate.
    + (* CmFinish from BEGIN lands on SUCCESS, not BEGIN_FAILURE *)
      match goal with Hf : set_fsm (g_state gi) _ = Some _ |- _ => pose proof (set_fsm_receipt_edges _ _ _ Hf) as Hedge end.
      unfold ST_BEGIN, ST_SUCCESS, ST_FAILURE, ST_ROLLBACK, ST_BEGIN_FAILURE, ST_BEGIN_ROLLBACK in *.
      destruct Hedge as [[E1 [_ ->]] | [[E1 [_ ->]] | [[E1 [_ ->]] | [[E1 [_ ->]] | [E1 [_ ->]]]]]]; inversion Hfail.
Qed.

(** ** the timeout branch: [getTimeoutIBTPsMap] lists every child of an expiring group for its source
    chain and every child that had already reached a final status for its destination chain *)
Lemma sort_kids_in w p l : In p (sort_kids w l) <-> In p l.
Proof.
  induction l as [|x r IH]; simpl; [tauto|].
  assert (Hins : forall s, In p ((fix ins (x0 : txid * N) (s0 : list (txid * N)) : list (txid * N) :=
                                    match s0 with
                                    | [] => [x0]
                                    | y :: t => if id_leb w (fst x0) (fst y) then x0 :: s0 else y :: ins x0 t
                                    end) x s) <-> p = x \/ In p s).
  { induction s as [|y t IHs]; simpl; [intuition congruence|].
    destruct (id_leb w (fst x) (fst y)); simpl; [intuition congruence|]. rewrite IHs. intuition congruence. }
  rewrite Hins, IH. intuition congruence.
Qed.

Lemma kids_fold_in w kids : forall m k s, In (k, s) kids ->
  In k (fold_left (kid_step w) kids m (chain_of w (fst (fst k)))) /\
  (is_final s = true -> In k (fold_left (kid_step w) kids m (chain_of w (snd (fst k))))).
Proof.
  induction kids as [|p r IH]; intros m k s Hin; [contradiction|].
  simpl. destruct Hin as [-> | Hin]; [|apply IH; exact Hin].
  split.
  - apply kids_fold_mono. unfold kid_step. cbn [fst snd]. destruct (is_final s).
    + apply cmap_add_in. left. apply cmap_add_in. right. auto.
    + apply cmap_add_in. right. auto.
  - intro Hf. apply kids_fold_mono. unfold kid_step. cbn [fst snd]. rewrite Hf. apply cmap_add_in. right. auto.
Qed.

Lemma timeout_map_children w t : forall l m m' g gi k s,
  timeout_map w t l m = Some m' -> In (TGid g) l -> tm_glob t g = Some gi -> In (k, s) (g_children gi) ->
  In k (m' (chain_of w (fst (fst k)))) /\ (is_final s = true -> In k (m' (chain_of w (snd (fst k))))).
Proof.
  induction l as [|x r IH]; intros m m' g gi k s H Hin Hg Hk; [contradiction|].
  destruct x as [|i0|g0].
  - simpl in H. discriminate.
  - simpl in H. destruct Hin as [E | Hin]; [discriminate|]. eapply IH; eauto.
  - rewrite timeout_map_gid in H. destruct (tm_glob t g0) as [gi0|] eqn:E0; [|discriminate].
    destruct Hin as [E | Hin]; [|eapply IH; eauto].
    inversion E; subst g0. rewrite Hg in E0. inversion E0; subst gi0.
    assert (Hk' : In (k, s) (sort_kids w (g_children gi))) by (apply sort_kids_in; exact Hk).
    destruct (kids_fold_in w _ m k s Hk') as [A B]. split.
    + eapply timeout_map_mono; [exact H | exact A].
    + intro Hf. eapply timeout_map_mono; [exact H | exact (B Hf)].
Qed.

Theorem c05_notify_timeout w st ops st' bm mid t2 g gi k s :
  reach w st -> block_facts w st ops st' bm mid t2 ->
  In (TGid g) (get_timeout_list t2 (s_h st + 1)) -> tm_glob (s_tm mid) g = Some gi -> In (k, s) (g_children gi) ->
  In k (m_timeout bm (chain_of w (fst (fst k)))) /\
  (s = ST_SUCCESS -> In k (m_timeout bm (chain_of w (snd (fst k))))) /\
  gstate (s_tm st') g = Some ST_BEGIN_ROLLBACK.
Proof.
  intros R F Hin Hg Hk.
  assert (Hg2 : tm_glob t2 g = Some gi) by (rewrite (bf_t2_glob _ _ _ _ _ _ _ F); exact Hg).
  destruct (timeout_map_children w t2 _ _ _ g gi k s (bf_tmap _ _ _ _ _ _ _ F) Hin Hg2 Hk) as [A B].
  split; [exact A|]. split.
  - intros ->. apply B. reflexivity.
  - unfold gstate. rewrite (bf_glob _ _ _ _ _ _ _ F). apply in_l_spec in Hin. rewrite Hin, Hg. reflexivity.
Qed.
