(** C03 - the packing signed by the validators is injective (fixed-width integers); the
    minimal-length packing is not. *)
From BX Require Import Base.Prelude Model.Packed.
Local Open Scope N_scope.

Lemma be_length n : forall x, length (be n x) = n.
Proof. induction n as [|k IH]; intro x; simpl; [reflexivity|]. rewrite app_length, IH. simpl. lia. Qed.

Lemma be_inj n : forall x y, be n x = be n y -> x mod 256 ^ N.of_nat n = y mod 256 ^ N.of_nat n.
Proof.
  induction n as [|k IH]; intros x y H.
  - simpl. rewrite !N.mod_1_r. reflexivity.
  - simpl in H. apply app_inj_tail in H. destruct H as [H1 H2]. apply IH in H1.
    rewrite Nat2N.inj_succ, N.pow_succ_r'.
    rewrite !N.mod_mul_r by (try apply N.pow_nonzero; lia). rewrite H1, H2. reflexivity.
Qed.

Lemma w8_length x : length (w8 x) = 8%nat.
Proof. apply be_length. Qed.

Lemma w8_inj x y : word64 x -> word64 y -> w8 x = w8 y -> x = y.
Proof.
  unfold word64, w8. intros Hx Hy H. apply be_inj in H.
  change (256 ^ N.of_nat 8) with (2 ^ 64) in H.
  rewrite !N.mod_small in H by assumption. exact H.
Qed.

Lemma app_inj_len {A} : forall (l1 l2 r1 r2 : list A),
  length l1 = length l2 -> l1 ++ r1 = l2 ++ r2 -> l1 = l2 /\ r1 = r2.
Proof.
  induction l1 as [|a t IH]; intros [|b u] r1 r2 Hl H; simpl in *; try discriminate.
  - split; [reflexivity | exact H].
  - inversion H; subst. destruct (IH u r1 r2) as [-> ->]; [lia | assumption | split; reflexivity].
Qed.

(** distinct well-formed field tuples with From++To and hash of the same lengths have distinct
    pre-images *)
Theorem encode_inj f g : pf_ok f -> pf_ok g ->
  length (pf_fromto f) = length (pf_fromto g) -> length (pf_hash f) = length (pf_hash g) ->
  encode f = encode g -> f = g.
Proof.
  intros [Fi [Ft Fs]] [Gi [Gt Gs]] Hl Hh. unfold encode. intro H.
  apply app_inj_len in H; [|exact Hl]. destruct H as [E1 H].
  apply app_inj_len in H; [|rewrite !w8_length; reflexivity]. destruct H as [E2 H].
  apply app_inj_len in H; [|rewrite !w8_length; reflexivity]. destruct H as [E3 H].
  apply app_inj_len in H; [|exact Hh]. destruct H as [E4 E5].
  apply w8_inj in E2; [|assumption|assumption]. apply w8_inj in E3; [|assumption|assumption].
  apply w8_inj in E5; [|assumption|assumption].
  destruct f, g. simpl in *. subst. reflexivity.
Qed.

(** ... hence so have their digests, for any collision-free hash *)
Corollary packed_digest_inj (hash : list N -> N) :
  (forall a b, hash a = hash b -> a = b) ->
  forall f g, pf_ok f -> pf_ok g ->
  length (pf_fromto f) = length (pf_fromto g) -> length (pf_hash f) = length (pf_hash g) ->
  hash (encode f) = hash (encode g) -> f = g.
Proof. intros Hi f g Hf Hg Hl Hh H. apply encode_inj; auto. Qed.

(** a signature over the packed digest of (IBTP i, status s) says nothing about any other
    (IBTP, status): equal digests mean equal fields and equal status *)
Corollary packed_digest_binds (hash : list N -> N) (fields_of : N -> pfields) :
  (forall a b, hash a = hash b -> a = b) ->
  forall i s i' s', pf_ok (with_status (fields_of i) s) -> pf_ok (with_status (fields_of i') s') ->
  length (pf_fromto (fields_of i)) = length (pf_fromto (fields_of i')) ->
  length (pf_hash (fields_of i)) = length (pf_hash (fields_of i')) ->
  packed_digest hash fields_of i s = packed_digest hash fields_of i' s' ->
  with_status (fields_of i) s = with_status (fields_of i') s'.
Proof. intros Hi i s i' s' Hf Hg Hl Hh H. apply (packed_digest_inj hash Hi); assumption. Qed.

Lemma pf_eqb_eq a b : pf_eqb a b = true <-> a = b.
Proof.
  unfold pf_eqb. rewrite !andb_true_iff, !N.eqb_eq.
  rewrite !(list_eqb_spec N.eqb (fun x y => conj (proj1 (N.eqb_eq x y)) (proj2 (N.eqb_eq x y)))).
  split.
  - intros [[[[H1 H2] H3] H4] H5]. destruct a, b. simpl in *. subst. reflexivity.
  - intros ->. repeat split; reflexivity.
Qed.

(** minimal-length integers: request 257 of type 0 (INTERCHAIN) and a RECEIPT of type 1 for request
    1 have the same pre-image - a signature over the first verifies the second *)
Definition f_req257 : pfields := {| pf_fromto := [49; 50]; pf_index := 257; pf_type := 0; pf_hash := [7; 7]; pf_status := 1 |}.
Definition f_rcpt1 : pfields := {| pf_fromto := [49; 50]; pf_index := 1; pf_type := 1; pf_hash := [7; 7]; pf_status := 1 |}.

Theorem encode_min_refuted :
  encode_min f_req257 = encode_min f_rcpt1 /\ f_req257 <> f_rcpt1 /\ encode f_req257 <> encode f_rcpt1.
Proof. split; [reflexivity|]. split; intro H; discriminate H. Qed.

Example encode_example :
  encode f_rcpt1 = [49; 50; 0; 0; 0; 0; 0; 0; 0; 1; 0; 0; 0; 0; 0; 0; 0; 1; 7; 7; 0; 0; 0; 0; 0; 0; 0; 1].
Proof. reflexivity. Qed.
