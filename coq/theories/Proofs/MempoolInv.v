(** The state invariant of the repaired pool model ([cfg_fixed]) and its preservation by
    promotion (processDirtyAccount).  Other operations: MempoolInvOps.v. *)
From BX Require Import Base.Prelude Model.Mempool Proofs.MempoolLib.
From Coq Require Import ZifyBool ZifyN ZifyNat.
Local Open Scope N_scope.

(** the priority entries that count as "ready and not yet batched": not in batchedTxs and not a
    leftover below the commit nonce of an account whose commit is still being processed *)
Definition ub_pred (s : state) (Dc : list N) (k : pkey) : bool :=
  negb (mem slot_eqb (snd k) (batched s))
  && negb (mem N.eqb (fst (snd k)) Dc && (snd (snd k) <? get_cn s (fst (snd k)))).
Definition live_unbatched (s : state) (Dc : list N) : list pkey := filter (ub_pred s Dc) (priority s).

(** [Dp]: accounts that received transactions which are not promoted yet (inside
    ProcessTransactions, and inside a commit that raised the commit nonce past the pending nonce);
    [Dc]: accounts that had hashes committed and are not forwarded yet (inside a commit). *)
Record InvW (Dp Dc : list N) (s : state) : Prop := {
  I_hm_nodup : NoDup (map fst (hashmap s));
  I_hm_wf : forall h sl, alookup tx_eqb h (hashmap s) = Some sl -> sl = slot_of h /\ item_at s sl <> None;
  I_it_slot : forall sl t, item_at s sl = Some t -> slot_of t = sl;
  I_it_hash : forall a n t, item_at s (a, n) = Some t -> (In a Dc -> get_cn s a <= n) ->
              alookup tx_eqb t (hashmap s) = Some (a, n);
  I_idx : forall sl, In sl (index s) <-> item_at s sl <> None;
  I_cn_pn : forall a, ~ In a Dc -> get_cn s a <= get_pn s a;
  I_it_cn : forall a n, ~ In a Dc -> item_at s (a, n) <> None -> get_cn s a <= n;
  I_run : forall a n, get_cn s a <= n < get_pn s a -> item_at s (a, n) <> None;
  I_next : forall a, ~ In a Dp -> item_at s (a, get_pn s a) = None;
  I_pn_entry : forall a n, ~ In a Dp -> item_at s (a, n) <> None -> alookup N.eqb a (pnonce s) <> None;
  I_prio : forall ts a n, In (ts, (a, n)) (priority s) <->
             exists t, item_at s (a, n) = Some t /\ t_ts t = ts /\ n < get_pn s a;
  I_prio_sorted : psorted (priority s);
  I_park : forall a n, ~ In a Dp -> item_at s (a, n) <> None -> get_pn s a <= n -> In (a, n) (parking s);
  I_b_hi : forall a n, In (a, n) (batched s) -> n < get_pn s a;
  I_b_lo : forall a n, ~ In a Dc -> In (a, n) (batched s) -> get_cn s a <= n;
  I_b_down : forall a n, In (a, n) (batched s) -> get_cn s a < n -> In (a, n - 1) (batched s);
  I_b_item : forall sl, In sl (batched s) -> item_at s sl <> None;
  I_pnbs : len (live_unbatched s Dc) <= pnbs s;
  I_arr : forall sl, alookup slot_eqb sl (arrival s) <> None <-> item_at s sl <> None
}.

Definition Inv (s : state) : Prop := InvW [] [] s.

Lemma Inv_init h led : Inv (init_state h led).
Proof.
  constructor; unfold item_at, get_pn, get_cn; cbn.
  - constructor.
  - intros; discriminate.
  - intros; discriminate.
  - intros; discriminate.
  - intros. split; [tauto | intro H; exfalso; apply H; reflexivity].
  - intros. lia.
  - intros a n _ H. exfalso. apply H. reflexivity.
  - intros. lia.
  - reflexivity.
  - intros a n _ H. exfalso. apply H. reflexivity.
  - intros. split; [tauto|]. intros [t [H _]]. discriminate.
  - exact I.
  - intros a n _ H. exfalso. apply H. reflexivity.
  - tauto.
  - tauto.
  - tauto.
  - tauto.
  - unfold len; cbn. lia.
  - intros. tauto.
Qed.

(* ------------------------------------------------------------------------- ready_run *)

Lemma ready_run_spec idx a : forall fuel n,
  let r := ready_run idx a n fuel in
  (forall i, In i r <-> n <= i < n + len r) /\
  (forall i, n <= i < n + len r -> In (a, i) idx) /\
  ((length r < fuel)%nat -> ~ In (a, n + len r) idx).
Proof.
  induction fuel as [|f IH]; intros n; cbn.
  - split; [|split]; intros; unfold len in *; cbn in *; lia.
  - destruct (mem slot_eqb (a, n) idx) eqn:E.
    + destruct (IH (n + 1)) as [H1 [H2 H3]]. cbn zeta in *.
      set (r := ready_run idx a (n + 1) f) in *.
      rewrite len_cons. split; [|split].
      * intros i. cbn. rewrite H1. lia.
      * intros i Hi. destruct (N.eq_dec i n) as [->|Hn].
        -- apply (mem_In slot_eqb slot_eqb_spec). exact E.
        -- apply H2. lia.
      * intros Hl. cbn in Hl. replace (n + (len r + 1)) with (n + 1 + len r) by lia. apply H3. lia.
    + split; [|split]; cbn.
      * intros i. unfold len; cbn. lia.
      * intros i. unfold len; cbn. lia.
      * intros _. unfold len; cbn. rewrite N.add_0_r.
        apply (mem_false slot_eqb slot_eqb_spec). exact E.
Qed.

(** with fuel beyond the size of the index the run stops at a nonce that is not indexed *)
Lemma ready_run_full idx a n :
  let r := ready_run idx a n (S (length idx)) in
  (forall i, In i r <-> n <= i < n + len r) /\
  (forall i, n <= i < n + len r -> In (a, i) idx) /\
  ~ In (a, n + len r) idx.
Proof.
  cbn zeta. destruct (ready_run_spec idx a (S (length idx)) n) as [H1 [H2 H3]]. cbn zeta in *.
  split; [exact H1|]. split; [exact H2|]. apply H3.
  pose proof (range_in_length idx a n (n + len (ready_run idx a n (S (length idx)))) H2) as Hl.
  unfold len in *. lia.
Qed.

(* ------------------------------------------------------------------------- promote_acct *)

Lemma fold_promote_In s a run pr k :
  In k (fold_left (promote_one s a) run pr) <->
  In k pr \/ exists n t, In n run /\ item_at s (a, n) = Some t /\ k = (t_ts t, (a, n)).
Proof.
  revert pr. induction run as [|n r IH]; intros pr; cbn.
  - split; [auto|]. intros [H|[n [t [[] _]]]]. exact H.
  - rewrite IH. unfold promote_one. destruct (item_at s (a, n)) as [t|] eqn:E.
    + rewrite In_pinsert. split.
      * intros [[->|H]|[m [t' [H1 [H2 H3]]]]]; auto.
        -- right. exists n, t. auto.
        -- right. exists m, t'. auto.
      * intros [H|[m [t' [[<-|H1] [H2 H3]]]]]; auto.
        -- left. left. congruence.
        -- right. exists m, t'. auto.
    + split.
      * intros [H|[m [t' [H1 [H2 H3]]]]]; auto. right. exists m, t'. auto.
      * intros [H|[m [t' [[<-|H1] [H2 H3]]]]]; auto; [congruence|]. right. exists m, t'. auto.
Qed.

Lemma fold_promote_sorted s a run pr : psorted pr -> psorted (fold_left (promote_one s a) run pr).
Proof.
  revert pr. induction run as [|n r IH]; intros pr H; cbn; [exact H|].
  apply IH. unfold promote_one. destruct (item_at s (a, n)); [apply psorted_pinsert|]; exact H.
Qed.

(** inserting one key raises the number of keys satisfying a predicate by at most one *)
Lemma filter_pinsert (f : pkey -> bool) k pr : len (filter f (pinsert k pr)) <= len (filter f pr) + 1.
Proof.
  induction pr as [|h t IH]; cbn.
  - destruct (f k); unfold len; cbn; lia.
  - destruct (pkey_ltb k h).
    + cbn. destruct (f k), (f h); unfold len in *; cbn; lia.
    + destruct (pkey_eqb k h).
      * cbn. destruct (f h); unfold len in *; cbn; lia.
      * cbn. destruct (f h); unfold len in *; cbn in *; lia.
Qed.

Lemma fold_promote_filter (f : pkey -> bool) s a run pr :
  len (filter f (fold_left (promote_one s a) run pr)) <= len (filter f pr) + len run.
Proof.
  revert pr. induction run as [|n r IH]; intros pr; cbn [fold_left].
  - unfold len at 3; cbn. lia.
  - specialize (IH (promote_one s a pr n)). rewrite len_cons.
    assert (len (filter f (promote_one s a pr n)) <= len (filter f pr) + 1).
    { unfold promote_one. destruct (item_at s (a, n)); [apply filter_pinsert | lia]. }
    lia.
Qed.

Section Promote.
  Variable p : params.
  Notation promote := (promote_acct).

  Lemma promote_fields s a :
    let pn := get_pn s a in
    let run := ready_run (index s) a pn (S (length (index s))) in
    let s' := promote_acct s a in
    hashmap s' = hashmap s /\ items s' = items s /\ index s' = index s /\ cnonce s' = cnonce s /\
    ledger s' = ledger s /\ arrival s' = arrival s /\ batched s' = batched s /\ seqno s' = seqno s /\
    pnonce s' = aset N.eqb a (pn + len run) (pnonce s) /\
    pnbs s' = pnbs s + len run /\
    priority s' = fold_left (promote_one s a) run (priority s).
  Proof. cbn. repeat split. Qed.

  Lemma get_cn_promote s a b : get_cn (promote_acct s a) b = get_cn s b.
  Proof. reflexivity. Qed.

  Lemma item_at_promote s a sl : item_at (promote_acct s a) sl = item_at s sl.
  Proof. reflexivity. Qed.

  Lemma get_pn_promote s a b :
    get_pn (promote_acct s a) b =
    if b =? a then get_pn s a + len (ready_run (index s) a (get_pn s a) (S (length (index s)))) else get_pn s b.
  Proof.
    unfold get_pn at 1. cbn [pnonce promote_acct set_pnonce set_parking set_pnbs set_priority].
    rewrite (alookup_aset N.eqb Neqb_spec). destruct (b =? a); reflexivity.
  Qed.

  (** promotion re-establishes the invariant for the promoted account *)
  Lemma promote_inv (Dp Dc : list N) s a :
    InvW (a :: Dp) Dc s -> ~ In a Dc -> InvW Dp Dc (promote_acct s a).
  Proof.
    intros I HWc.
    pose proof (ready_run_full (index s) a (get_pn s a)) as [R1 [R2 R3]]. cbn zeta in *.
    set (run := ready_run (index s) a (get_pn s a) (S (length (index s)))) in *.
    assert (Hpn : forall b, get_pn (promote_acct s a) b = if b =? a then get_pn s a + len run else get_pn s b)
      by (intro b; apply get_pn_promote).
    assert (Hpn_le : forall b, get_pn s b <= get_pn (promote_acct s a) b).
    { intro b. rewrite Hpn. destruct (b =? a) eqn:E; [apply N.eqb_eq in E; subst|]; lia. }
    constructor.
    - exact (I_hm_nodup _ _ _ I).
    - exact (I_hm_wf _ _ _ I).
    - exact (I_it_slot _ _ _ I).
    - exact (I_it_hash _ _ _ I).
    - exact (I_idx _ _ _ I).
    - intros b Hb. rewrite get_cn_promote. pose proof (I_cn_pn _ _ _ I b Hb). specialize (Hpn_le b). lia.
    - exact (I_it_cn _ _ _ I).
    - intros b n Hn. rewrite get_cn_promote, Hpn in Hn. rewrite item_at_promote.
      destruct (NP b a) as [->|Hne].
      + try rewrite N.eqb_refl in Hn.
        destruct (N.lt_ge_cases n (get_pn s a)) as [Hlt|Hge].
        * apply (I_run _ _ _ I). lia.
        * apply (I_idx _ _ _ I). apply R2. lia.
      + try rewrite (proj2 (N.eqb_neq b a) Hne) in Hn. apply (I_run _ _ _ I). exact Hn.
    - intros b Hb. rewrite Hpn, item_at_promote. destruct (NP b a) as [->|Hne].
      + try rewrite N.eqb_refl. destruct (item_at s (a, get_pn s a + len run)) eqn:E; [|reflexivity].
        exfalso. apply R3. apply (I_idx _ _ _ I). congruence.
      + try rewrite (proj2 (N.eqb_neq b a) Hne). apply (I_next _ _ _ I). intros [H|H]; auto; congruence.
    - intros b n Hb Hit. rewrite item_at_promote in Hit.
      cbn [pnonce promote_acct set_pnonce set_parking set_pnbs set_priority].
      rewrite (alookup_aset N.eqb Neqb_spec). destruct (NP b a) as [->|Hne]; [discriminate|].
      apply (I_pn_entry _ _ _ I b n); auto. intros [H|H]; auto; congruence.
    - intros ts b n. cbn [priority promote_acct set_pnonce set_parking set_pnbs set_priority].
      fold run. rewrite fold_promote_In, Hpn. setoid_rewrite item_at_promote. split.
      + intros [H|[m [t [H1 [H2 H3]]]]].
        * apply (I_prio _ _ _ I) in H. destruct H as [t [H1 [H2 H3]]]. exists t. repeat split; auto.
          specialize (Hpn_le b). rewrite Hpn in Hpn_le. lia.
        * inversion H3; subst. exists t. repeat split; auto. try rewrite N.eqb_refl. apply R1 in H1. lia.
      + intros [t [H1 [H2 H3]]]. destruct (NP b a) as [->|Hne].
        * try rewrite N.eqb_refl in H3. destruct (N.lt_ge_cases n (get_pn s a)) as [Hlt|Hge].
          -- left. apply (I_prio _ _ _ I). exists t. auto.
          -- right. exists n, t. repeat split; auto; [apply R1; lia | congruence].
        * try rewrite (proj2 (N.eqb_neq b a) Hne) in H3. left. apply (I_prio _ _ _ I). exists t. auto.
    - cbn [priority promote_acct set_pnonce set_parking set_pnbs set_priority].
      apply fold_promote_sorted. exact (I_prio_sorted _ _ _ I).
    - intros b n Hb Hit Hge. rewrite item_at_promote in Hit. rewrite Hpn in Hge.
      cbn [parking promote_acct set_pnonce set_parking set_pnbs set_priority].
      apply (fold_sadd_In slot_eqb slot_eqb_spec). destruct (NP b a) as [->|Hne].
      + try rewrite N.eqb_refl in Hge. left. apply filter_In. split.
        * apply (I_idx _ _ _ I). exact Hit.
        * cbn [fst snd]. rewrite N.eqb_refl. cbn [andb]. fold run. apply N.ltb_lt.
          destruct (N.eq_dec n (get_pn s a + len run)) as [->|Hn]; [|lia].
          exfalso. apply R3. apply (I_idx _ _ _ I). exact Hit.
      + try rewrite (proj2 (N.eqb_neq b a) Hne) in Hge. right. apply (I_park _ _ _ I); auto. intros [H|H]; auto; congruence.
    - intros b n Hin. specialize (Hpn_le b). pose proof (I_b_hi _ _ _ I b n Hin). lia.
    - exact (I_b_lo _ _ _ I).
    - exact (I_b_down _ _ _ I).
    - exact (I_b_item _ _ _ I).
    - unfold live_unbatched.
      cbn [pnbs priority promote_acct set_pnonce set_parking set_pnbs set_priority].
      fold run. pose proof (fold_promote_filter (ub_pred s Dc) s a run (priority s)) as Hf.
      pose proof (I_pnbs _ _ _ I) as Hp. unfold live_unbatched in Hp.
      replace (ub_pred (promote_acct s a) Dc) with (ub_pred s Dc) by reflexivity. lia.
    - exact (I_arr _ _ _ I).
  Qed.
End Promote.
