(** Refinement of the reference specification by the model of SimpleLedger (repaired
    configuration): views of a model state, invariants, and the basic lemmas about account objects. *)
From BX Require Import Base.Prelude Model.JsonAcct Model.Merkle Model.StateLedger Model.LedgerSpec
  Proofs.LedgerLemmas.
Local Open Scope N_scope.

(** * views (normalised: nil = empty) *)
Definition db_st (d : db) (a : N) (k : bytes) : bytes := nb (sget (a, k) (d_st d)).
Definition fl_st (m : st) (a : N) (k : bytes) : bytes := nb (cached_state m a k).
Definition obj_st (m : st) (a : N) (o : obj) (k : bytes) : bytes :=
  match kget k (o_dst o) with
  | Some v => nb v
  | None => match kget k (o_ost o) with
            | Some v => nb v
            | None => fl_st m a k
            end
  end.
Definition cur_st (m : st) (a : N) (k : bytes) : bytes :=
  match aget a (s_objs m) with Some o => obj_st m a o k | None => fl_st m a k end.

Definition fl_acct (m : st) (a : N) : option acct :=
  match aget a (c_acct (s_cache m)) with Some x => Some x | None => aget a (d_acct (s_db m)) end.
Definition cur_oacct (m : st) (a : N) : option acct :=
  match aget a (s_objs m) with Some o => cur_acct o | None => fl_acct m a end.
Definition acct_view (x : option acct) : N * Z * val :=
  match x with Some y => (ac_nonce y, ac_bal y, ac_ch y) | None => (0, 0%Z, None) end.

(** contract code: the code hash of the flushed record, the code a load yields, the current code *)
Definition och (o : obj) : val := match o_orig o with Some x => ac_ch x | None => None end.
Definition fl_ch (m : st) (a : N) : val := match fl_acct m a with Some x => ac_ch x | None => None end.
Definition load_code (m : st) (a : N) : val := match load_obj m a with Some o => o_dcode o | None => None end.
Definition cur_code (m : st) (a : N) : bytes :=
  nb (match aget a (s_objs m) with Some o => o_dcode o | None => load_code m a end).

(* the environment (hash functions) is an implicit argument resolved from the context *)
Existing Class env.
Section WithEnv.
Context {e : env}.

(** * structural invariants of the in-block layer and of the cache *)
Record ObjOk (m : st) (a : N) (o : obj) : Prop := {
  ok_nd : NoDup (map fst (o_dst o));
  ok_org : forall k v, kget k (o_ost o) = Some v -> nb v = fl_st m a k;     (* origin = flushed value *)
  ok_dho : forall k v, kget k (o_dst o) = Some v -> kget k (o_ost o) <> None;   (* dirty => origin loaded *)
  ok_oa : o_orig o = fl_acct m a;
  ok_oc : o_ocode o = cached_code m a;                       (* the loaded code is the flushed code *)
  (* either no code was written (the dirty record carries the loaded hash), or the dirty record
     carries the hash of the dirty code *)
  ok_cd : (o_dcode o = o_ocode o /\ forall d, o_dirty o = Some d -> ac_ch d = och o) \/
          (exists d, o_dirty o = Some d /\ ac_ch d = Some (e_kec e (nb (o_dcode o))) /\
                     (o_dcode o = None -> cached_code m a = None))
}.

Record Inv (m : st) : Prop := {
  inv_nd_objs : NoDup (map fst (s_objs m));
  inv_objs : forall a o, aget a (s_objs m) = Some o -> ObjOk m a o;
  (* an account without a code hash has no code; a code hash is the hash of the stored code *)
  inv_t1 : forall a, ch_nonempty (fl_ch m a) = false -> cached_code m a = None;
  inv_k1 : forall a, ch_nonempty (fl_ch m a) = true -> fl_ch m a = Some (e_kec e (nb (cached_code m a)));
  inv_cc : forall a v, aget a (c_code (s_cache m)) = Some v -> v = db_code m a
}.

(** the cache agrees with the store (no flush pending) *)
Record Coh (m : st) : Prop := {
  coh_st : forall a cm k v, aget a (c_st (s_cache m)) = Some cm -> kget k cm = Some v -> nb v = db_st (s_db m) a k;
  coh_acct : forall a x, aget a (c_acct (s_cache m)) = Some x -> aget a (d_acct (s_db m)) = Some x;
  coh_pend : s_pend m = None
}.

(** * basic facts *)
Lemma fl_st_coh m a k : Coh m -> fl_st m a k = db_st (s_db m) a k.
Proof.
  intro C. unfold fl_st, cached_state, db_st.
  destruct (aget a (c_st (s_cache m))) as [cm|] eqn:E; [| reflexivity].
  destruct (kget k cm) as [v|] eqn:Ek; [| reflexivity].
  exact (coh_st m C a cm k v E Ek).
Qed.

Lemma fl_acct_coh m a : Coh m -> fl_acct m a = aget a (d_acct (s_db m)).
Proof.
  intro C. unfold fl_acct. destruct (aget a (c_acct (s_cache m))) as [x|] eqn:E; [| reflexivity].
  symmetry. exact (coh_acct m C a x E).
Qed.

(** views only depend on some fields *)
Lemma fl_st_frame m m' : s_db m' = s_db m -> s_cache m' = s_cache m -> forall a k, fl_st m' a k = fl_st m a k.
Proof. intros Hd Hc a k. unfold fl_st, cached_state. rewrite Hd, Hc. reflexivity. Qed.
Lemma fl_acct_frame m m' : s_db m' = s_db m -> s_cache m' = s_cache m -> forall a, fl_acct m' a = fl_acct m a.
Proof. intros Hd Hc a. unfold fl_acct. rewrite Hd, Hc. reflexivity. Qed.
Lemma obj_st_frame m m' : s_db m' = s_db m -> s_cache m' = s_cache m -> forall a o k, obj_st m' a o k = obj_st m a o k.
Proof. intros Hd Hc a o k. unfold obj_st. rewrite (fl_st_frame m m' Hd Hc). reflexivity. Qed.

(** ** put_obj *)
Lemma put_obj_db m a o : s_db (put_obj m a o) = s_db m. Proof. reflexivity. Qed.
Lemma put_obj_cache m a o : s_cache (put_obj m a o) = s_cache m. Proof. reflexivity. Qed.
Lemma put_obj_objs m a o a' : aget a' (s_objs (put_obj m a o)) = if a' =? a then Some o else aget a' (s_objs m).
Proof. unfold put_obj. simpl. apply aget_aput. Qed.

Lemma cur_st_put_obj m a o a' k :
  cur_st (put_obj m a o) a' k = if a' =? a then obj_st m a o k else cur_st m a' k.
Proof.
  unfold cur_st. rewrite put_obj_objs. destruct (a' =? a) eqn:E.
  - apply N.eqb_eq in E. subst. apply (obj_st_frame m (put_obj m a o)); reflexivity.
  - destruct (aget a' (s_objs m)); [apply (obj_st_frame m (put_obj m a o)); reflexivity | apply (fl_st_frame m (put_obj m a o)); reflexivity].
Qed.

Lemma cur_oacct_put_obj m a o a' :
  cur_oacct (put_obj m a o) a' = if a' =? a then cur_acct o else cur_oacct m a'.
Proof.
  unfold cur_oacct. rewrite put_obj_objs. destruct (a' =? a); [reflexivity|].
  destruct (aget a' (s_objs m)); reflexivity.
Qed.

Lemma load_code_frame m m' : s_db m' = s_db m -> s_cache m' = s_cache m -> forall a, load_code m' a = load_code m a.
Proof.
  intros Hd Hc a. unfold load_code, load_obj, cached_code, db_code. rewrite Hd, Hc.
  destruct (aget a (c_acct (s_cache m))) as [x|]; [reflexivity|].
  destruct (aget a (d_acct (s_db m))); reflexivity.
Qed.

Lemma cur_code_put_obj m a o a' :
  cur_code (put_obj m a o) a' = if a' =? a then nb (o_dcode o) else cur_code m a'.
Proof.
  unfold cur_code. rewrite put_obj_objs. destruct (a' =? a); [reflexivity|].
  destruct (aget a' (s_objs m)); [reflexivity|].
  rewrite (load_code_frame m (put_obj m a o)); reflexivity.
Qed.

Lemma put_obj_NoDup m a o : NoDup (map fst (s_objs m)) -> NoDup (map fst (s_objs (put_obj m a o))).
Proof. intro H. unfold put_obj, set_objs. cbn [s_objs]. exact (aset_NoDup N.eqb N_eqb_spec a o _ H). Qed.

(** ** get_obj: the object a call works on *)
Inductive got (m : st) (a : N) : st -> obj -> Prop :=
| got_present o : aget a (s_objs m) = Some o -> got m a m o
| got_loaded o : aget a (s_objs m) = None -> load_obj m a = Some o -> got m a (put_obj m a o) o
| got_created : aget a (s_objs m) = None -> load_obj m a = None ->
                got m a (set_chg (put_obj m a (new_obj m)) (ChCreate a :: s_chg m)) (new_obj m).

Lemma get_obj_got m a : got m a (fst (get_obj m a)) (snd (get_obj m a)).
Proof.
  unfold get_obj. destruct (aget a (s_objs m)) as [o|] eqn:E; [apply got_present; exact E|].
  destruct (load_obj m a) as [o|] eqn:L; simpl.
  - apply got_loaded; assumption.
  - apply got_created; assumption.
Qed.

(** a freshly loaded object: its code is the flushed code *)
Lemma load_obj_shape m a o : Inv m -> load_obj m a = Some o ->
  o = mkObj (fl_acct m a) None [] [] (cached_code m a) (cached_code m a) (s_gen m) /\ fl_acct m a <> None.
Proof.
  intros I. pose proof (inv_t1 m I a) as T1. unfold fl_ch, fl_acct in T1. unfold load_obj, fl_acct.
  destruct (aget a (c_acct (s_cache m))) as [x|] eqn:Ec.
  - destruct (ch_nonempty (ac_ch x)) eqn:Ech.
    + intro H. inversion H. split; [reflexivity | discriminate].
    + rewrite (T1 eq_refl). intro H. inversion H. split; [reflexivity | discriminate].
  - destruct (aget a (d_acct (s_db m))) as [x|] eqn:Ed; [| discriminate].
    assert (Hdb : cached_code m a = db_code m a).
    { unfold cached_code. destruct (aget a (c_code (s_cache m))) as [v|] eqn:Ev; [| reflexivity].
      exact (inv_cc m I a v Ev). }
    destruct (ch_nonempty (ac_ch x)) eqn:Ech.
    + rewrite Hdb. intro H. inversion H. split; [reflexivity | discriminate].
    + rewrite (T1 eq_refl). intro H. inversion H. split; [reflexivity | discriminate].
Qed.

Lemma load_obj_none m a : load_obj m a = None -> fl_acct m a = None.
Proof.
  unfold load_obj, fl_acct. destruct (aget a (c_acct (s_cache m))); [discriminate|].
  destruct (aget a (d_acct (s_db m))); [discriminate | reflexivity].
Qed.

Lemma load_code_cached m a : Inv m -> load_code m a = cached_code m a.
Proof.
  intro I. unfold load_code. destruct (load_obj m a) as [o|] eqn:L.
  - destruct (load_obj_shape m a o I L) as [-> _]. reflexivity.
  - pose proof (load_obj_none m a L) as Hn. symmetry. apply (inv_t1 m I a). unfold fl_ch. rewrite Hn. reflexivity.
Qed.

Lemma cached_code_frame m m' : s_db m' = s_db m -> s_cache m' = s_cache m -> forall a, cached_code m' a = cached_code m a.
Proof. intros Hd Hc a. unfold cached_code, db_code. rewrite Hd, Hc. reflexivity. Qed.

Lemma ObjOk_frame m m' a o : s_db m' = s_db m -> s_cache m' = s_cache m -> ObjOk m a o -> ObjOk m' a o.
Proof.
  intros Hd Hc [H1 H2 H3 H4 H5 H6]. constructor; try assumption.
  - intros k v Hk. rewrite (fl_st_frame m m' Hd Hc). apply H2. exact Hk.
  - rewrite (fl_acct_frame m m' Hd Hc). exact H4.
  - rewrite (cached_code_frame m m' Hd Hc). exact H5.
  - rewrite (cached_code_frame m m' Hd Hc). exact H6.
Qed.

Lemma Inv_put_obj m a o : Inv m -> ObjOk m a o -> Inv (put_obj m a o).
Proof.
  intros I Ho. constructor; try (apply I).
  - apply put_obj_NoDup. apply I.
  - intros a' o' Hg. rewrite put_obj_objs in Hg. destruct (a' =? a) eqn:E.
    + apply N.eqb_eq in E. subst a'. inversion Hg; subst o'. apply (ObjOk_frame m); [reflexivity | reflexivity | exact Ho].
    + apply (ObjOk_frame m); [reflexivity | reflexivity |]. apply (inv_objs m I). exact Hg.
Qed.

Lemma ObjOk_fresh m a : ObjOk m a (mkObj (fl_acct m a) None [] [] (cached_code m a) (cached_code m a) (s_gen m)).
Proof.
  constructor; simpl; try (intros; discriminate); try constructor; try reflexivity.
  split; [reflexivity | intros; discriminate].
Qed.

(** [Inv] only looks at the store, the cache and the account objects *)
Lemma Inv_frame m m' : s_db m' = s_db m -> s_cache m' = s_cache m -> s_objs m' = s_objs m -> Inv m -> Inv m'.
Proof.
  intros Hd Hc Ho [J1 J2 J3 J4 J5].
  assert (Hfc : forall a, fl_ch m' a = fl_ch m a) by (intro a; unfold fl_ch; rewrite (fl_acct_frame m m' Hd Hc); reflexivity).
  constructor.
  - rewrite Ho. exact J1.
  - intros a o Hg. rewrite Ho in Hg. apply (ObjOk_frame m m' a o Hd Hc). apply J2. exact Hg.
  - intros a. rewrite Hfc, (cached_code_frame m m' Hd Hc). apply J3.
  - intros a. rewrite Hfc, (cached_code_frame m m' Hd Hc). apply J4.
  - intros a v. unfold db_code. rewrite Hc, Hd. apply J5.
Qed.

(** what [get_obj] guarantees *)
Record got_ok (m : st) (a : N) (m1 : st) (o : obj) : Prop := {
  go_inv : Inv m1;
  go_obj : aget a (s_objs m1) = Some o;
  go_db : s_db m1 = s_db m;
  go_cache : s_cache m1 = s_cache m;
  go_cur_st : forall a' k, cur_st m1 a' k = cur_st m a' k;
  go_cur_ac : forall a', cur_oacct m1 a' = cur_oacct m a';
  go_cur_code : forall a', cur_code m1 a' = cur_code m a';
  go_rest : s_pend m1 = s_pend m /\ s_prev m1 = s_prev m /\ s_min m1 = s_min m /\ s_max m1 = s_max m /\
            s_next m1 = s_next m /\ s_revs m1 = s_revs m /\ s_gen m1 = s_gen m;
  go_chg : s_chg m1 = s_chg m \/ (s_chg m1 = ChCreate a :: s_chg m /\ aget a (s_objs m) = None /\ fl_acct m a = None)
}.

Lemma got_got_ok m a m1 o : Inv m -> got m a m1 o -> got_ok m a m1 o.
Proof.
  intros I G. destruct G as [o Hp | o Ha Hl | Ha Hl].
  - apply Build_got_ok; try reflexivity; try assumption.
    + repeat split.
    + left. reflexivity.
  - pose proof Hl as Hl0. destruct (load_obj_shape m a o I Hl) as [-> Hne].
    apply Build_got_ok.
    + apply Inv_put_obj; [exact I|]. apply ObjOk_fresh.
    + rewrite put_obj_objs, N.eqb_refl. reflexivity.
    + reflexivity.
    + reflexivity.
    + intros a' k. rewrite cur_st_put_obj. destruct (a' =? a) eqn:E; [| reflexivity].
      apply N.eqb_eq in E. subst. unfold cur_st. rewrite Ha. reflexivity.
    + intros a'. rewrite cur_oacct_put_obj. destruct (a' =? a) eqn:E; [| reflexivity].
      apply N.eqb_eq in E. subst. unfold cur_oacct. rewrite Ha. reflexivity.
    + intros a'. rewrite cur_code_put_obj. destruct (a' =? a) eqn:E; [| reflexivity].
      apply N.eqb_eq in E. subst. unfold cur_code, load_code. rewrite Ha, Hl0. reflexivity.
    + repeat split.
    + left. reflexivity.
  - pose proof (load_obj_none m a Hl) as Hn.
    assert (Hcn : cached_code m a = None).
    { apply (inv_t1 m I a). unfold fl_ch. rewrite Hn. reflexivity. }
    assert (Hnew : new_obj m = mkObj (fl_acct m a) None [] [] (cached_code m a) (cached_code m a) (s_gen m)) by (rewrite Hn, Hcn; reflexivity).
    apply Build_got_ok.
    + assert (I2 : Inv (put_obj m a (new_obj m))).
      { apply Inv_put_obj; [exact I|]. rewrite Hnew. apply ObjOk_fresh. }
      revert I2. apply Inv_frame; reflexivity.
    + change (aget a (s_objs (put_obj m a (new_obj m))) = Some (new_obj m)). rewrite put_obj_objs, N.eqb_refl. reflexivity.
    + reflexivity.
    + reflexivity.
    + intros a' k. change (cur_st (put_obj m a (new_obj m)) a' k = cur_st m a' k).
      rewrite cur_st_put_obj. destruct (a' =? a) eqn:E; [| reflexivity].
      apply N.eqb_eq in E. subst. unfold cur_st. rewrite Ha. reflexivity.
    + intros a'. change (cur_oacct (put_obj m a (new_obj m)) a' = cur_oacct m a').
      rewrite cur_oacct_put_obj. destruct (a' =? a) eqn:E; [| reflexivity].
      apply N.eqb_eq in E. subst. unfold cur_oacct. rewrite Ha. simpl. symmetry. exact Hn.
    + intros a'. change (cur_code (put_obj m a (new_obj m)) a' = cur_code m a').
      rewrite cur_code_put_obj. destruct (a' =? a) eqn:E; [| reflexivity].
      apply N.eqb_eq in E. subst. unfold cur_code, load_code. rewrite Ha, Hl. reflexivity.
    + repeat split.
    + right. repeat split; assumption.
Qed.

Lemma get_obj_ok m a : Inv m -> got_ok m a (fst (get_obj m a)) (snd (get_obj m a)).
Proof. intro I. apply got_got_ok; [exact I | apply get_obj_got]. Qed.

End WithEnv.
