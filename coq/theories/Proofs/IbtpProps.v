(** Property-level lemmas for C02 / C04 / C06 over all reachable states of the repaired model. *)
From BX Require Import Base.Prelude Base.Fsm Model.TxFsm Model.TxMgr Model.Interchain Model.IbtpExec
     Proofs.TxFsmProofs Proofs.IbtpBasics Proofs.IbtpStep Proofs.IbtpTm Proofs.IbtpIc Proofs.IbtpInv
     Proofs.IbtpTl Proofs.IbtpTimeout Proofs.IbtpBlock Proofs.IbtpGroup.
From Coq Require Import String ZifyBool ZifyN ZifyNat.
Local Open Scope N_scope.

(** * reachable states: every history of well-formed blocks and restarts *)
Definition items_wf (w : world) (items : list item) : Prop :=
  Forall (fun it => match it with IBlock ops => Forall (op_wf w) ops | IRestart => True end) items.

Inductive reach (w : world) : state -> Prop :=
| reach_init : reach w state_init
| reach_block st ops st' bm :
    reach w st -> Forall (op_wf w) ops -> s_h st + 1 < W64 ->
    exec_block cfg_fixed w st ops = Some (st', bm) -> reach w st'
| reach_restart st : reach w st -> reach w (restart st).

Lemma sinv_restart w st : SInv w st -> SInv w (restart st).
Proof.
  intros [I T]. constructor.
  { unfold restart. cbn [s_tm s_ic]. apply (binv_tm_ext w (s_tm st) _ _ I); simpl; try tauto; try reflexivity.
    intro g. destruct (tm_glob (s_tm st) g) as [gi|]; [exists gi; auto | reflexivity]. }
  unfold restart. cbn [s_tm s_h].
  destruct T as [M1 M2 M3 M4 M5 M6].
  assert (L : forall hh x, listed (Build_txm (tm_rec (s_tm st)) (tm_glob (s_tm st)) (tm_child (s_tm st))
                                      (fun x0 => if s_ph st x0 then None else tm_tl (s_tm st) x0)) hh x ->
                           listed (s_tm st) hh x).
  { intros hh x [l [E Hin]]. simpl in E. destruct (s_ph st hh); [discriminate|]. exists l. auto. }
  constructor; simpl.
  - intros hh l E. destruct (s_ph st hh); [discriminate|]. eapply M1; eauto.
  - intros hh i Hlt Hl. apply L in Hl. exact (M2 hh i Hlt Hl).
  - intros hh i [].
  - constructor.
  - intros hh g Hlt Hl. apply L in Hl. exact (M5 hh g Hlt Hl).
  - intros hh i [[Hlt Hl] | []]. apply L in Hl. apply (M6 hh i). left. auto.
Qed.

Lemma reach_sinv w st : reach w st -> SInv w st.
Proof.
  induction 1.
  - apply sinv_init.
  - destruct (exec_block_fixed w st ops IHreach H0 H1) as [st2 [bm2 [mid [t2 [E [S _]]]]]].
    rewrite E in H2. inversion H2; subst. exact S.
  - apply sinv_restart. exact IHreach.
Qed.

Lemma kinv_restart st : KInv (s_tm st) -> KInv (s_tm (restart st)).
Proof. intros K g gi E. apply (K g gi E). Qed.

Lemma reach_kinv w st : reach w st -> KInv (s_tm st).
Proof.
  induction 1.
  - apply kinv_init.
  - eapply kinv_block; eauto. apply reach_sinv. assumption.
  - apply kinv_restart. exact IHreach.
Qed.

(** the block function is total on reachable states and well-formed blocks *)
Theorem exec_block_total w st ops :
  reach w st -> Forall (op_wf w) ops -> s_h st + 1 < W64 ->
  exists st' bm, exec_block cfg_fixed w st ops = Some (st', bm).
Proof.
  intros R Hwf Hh. destruct (exec_block_fixed w st ops (reach_sinv _ _ R) Hwf Hh) as [st' [bm [_ [_ [E _]]]]].
  eauto.
Qed.

(** * C02 *)

(** accepted request indices per pair are exactly 1..InterchainCounter, mirrored at the destination,
    receipts never run ahead of requests *)
Theorem c02_counters w st : reach w st ->
  let c := s_ic st in
  (forall f t x, i_req c (f, t, x) <> None <-> 1 <= x <= IC c f t) /\
  (forall f t, SIC c t f = IC c f t) /\ (forall f t, SRC c t f = RC c f t) /\
  (forall f t, RC c f t <= IC c f t) /\
  (forall i, i_rcpt c i <> None -> i_req c i <> None).
Proof.
  intro R. destruct (reach_sinv _ _ R) as [I _]. cbv zeta.
  split; [apply (b_req_iff _ _ _ I)|]. split; [apply (b_mirror_ic _ _ _ I)|].
  split; [apply (b_mirror_rc _ _ _ I)|]. split; [apply (b_rc_le _ _ _ I)|].
  intros [[f t] x] Hi. apply (b_req_iff _ _ _ I). apply (b_begun_le _ _ _ I). apply (b_rcpt _ _ _ I). exact Hi.
Qed.

(** one IBTP transaction from a reachable state: what acceptance means for the counters *)
Theorem c02_request_step w st h serial b t' c' r :
  reach w st -> ibtp_wf w b ->
  handle_ibtp cfg_fixed w h serial b (s_tm st) (s_ic st) = Some (t', c', r) ->
  r_ok r = true -> is_request b = true -> is_notification w (s_ic st) b = false ->
  b_idx b = IC (s_ic st) (b_from b) (b_to b) + 1 /\
  IC c' (b_from b) (b_to b) = b_idx b /\
  (forall f t, (f, t) <> (b_from b, b_to b) -> IC c' f t = IC (s_ic st) f t) /\
  (forall f t, RC c' f t = RC (s_ic st) f t) /\
  i_req c' (b_id b) = Some serial.
Proof.
  intros R [Hsmall _] Hh Hok Hrq Hnn. destruct (reach_sinv _ _ R) as [I _].
  destruct (binv_handle _ _ _ _ _ _ _ _ _ I Hsmall Hh) as [_ K].
  inversion K; subst; [discriminate|].
  destruct (check_fixed _ _ _ _ _ _ H1) as [_ [Hnotif [_ Hidx]]]. rewrite Hnn in Hnotif. subst notif.
  unfold expected_index in Hidx. rewrite Hrq in Hidx. simpl in Hidx.
  fold (IC (s_ic st) (b_from b) (b_to b)) in Hidx.
  pose proof (b_small _ _ _ I (b_from b) (b_to b)) as Hs.
  rewrite wrap64_small in Hidx by (unfold B63, W64 in *; lia).
  pose proof (notify_fields cfg_fixed w (s_ic st) h sf sd ch) as Hsc. fold nc in Hsc.
  destruct (same_core_counters _ _ Hsc) as [EIC [ERC [_ [_ EG]]]].
  assert (Epc : fst pc = req_step (fst nc) b (get_rec (fst nc) (b_from b)) serial).
  { unfold pc, process_ibtp. rewrite Hrq. simpl. rewrite EG. reflexivity. }
  rewrite Epc. split; [exact Hidx|]. split; [|split; [|split]].
  - rewrite req_step_IC, !N.eqb_refl. simpl. rewrite EIC.
    rewrite wrap64_small by (unfold B63, W64 in *; lia). lia.
  - intros f t Hne. rewrite req_step_IC.
    destruct ((f =? b_from b) && (t =? b_to b)) eqn:E; [|apply EIC].
    apply andb_true_iff in E. destruct E as [E1 E2]. apply N.eqb_eq in E1, E2. subst. contradiction.
  - intros f t. rewrite req_step_RC. apply ERC.
  - destruct (req_step_fields (fst nc) b (get_rec (fst nc) (b_from b)) serial) as [F _]. rewrite F.
    apply updT_same.
Qed.

Theorem c02_receipt_step w st h serial b t' c' r :
  reach w st -> ibtp_wf w b ->
  handle_ibtp cfg_fixed w h serial b (s_tm st) (s_ic st) = Some (t', c', r) ->
  r_ok r = true -> is_request b = false ->
  b_idx b = RC (s_ic st) (b_from b) (b_to b) + 1 /\
  b_idx b <= IC (s_ic st) (b_from b) (b_to b) /\
  i_req (s_ic st) (b_id b) <> None /\
  (tm_rec (s_tm st) (b_id b) <> None \/ tm_child (s_tm st) (b_id b) <> None) /\
  (forall f t, IC c' f t = IC (s_ic st) f t) /\
  i_rcpt c' (b_id b) = Some serial.
Proof.
  intros R [Hsmall _] Hh Hok Hrq. destruct (reach_sinv _ _ R) as [I _].
  destruct (binv_handle _ _ _ _ _ _ _ _ _ I Hsmall Hh) as [I' K].
  inversion K; subst; [discriminate|].
  destruct (check_fixed _ _ _ _ _ _ H1) as [_ [Hnotif [_ Hidx]]].
  unfold expected_index in Hidx. rewrite Hrq in Hidx. simpl in Hidx.
  fold (RC (s_ic st) (b_from b) (b_to b)) in Hidx.
  pose proof (b_small _ _ _ I (b_from b) (b_to b)) as Hs.
  pose proof (b_rc_le _ _ _ I (b_from b) (b_to b)) as Hle.
  rewrite wrap64_small in Hidx by (unfold B63, W64 in *; lia).
  destruct (begun_evolution _ _ _ _ _ _ _ _ _ H2) as [_ [_ [_ Hbg]]]. specialize (Hbg Hrq).
  assert (Hb2 : 1 <= b_idx b <= IC (s_ic st) (b_from b) (b_to b)).
  { destruct b as [bf bt bi bty bT bg bx]. unfold b_id in Hbg. simpl in *. apply (b_begun_le _ _ _ I). exact Hbg. }
  split; [exact Hidx|]. split; [lia|]. split.
  { destruct b as [bf bt bi bty bT bg bx]. unfold b_id. simpl in *. apply (b_req_iff _ _ _ I). exact Hb2. }
  split; [exact Hbg|].
  (* the counters of requests are untouched by the receipt branch *)
  pose proof (notify_fields cfg_fixed w (s_ic st) h sf sd ch) as Hsc. fold nc in Hsc.
  destruct (same_core_counters _ _ Hsc) as [EIC _].
  assert (Hproc : (forall f t, IC (fst pc) f t = IC (fst nc) f t) /\ i_rcpt (fst pc) (b_id b) = Some serial).
  { unfold pc, process_ibtp. rewrite Hrq. simpl.
    destruct (is_final (c_cur ch)).
    - destruct (c_child ch) as [|k0 kr] eqn:Ek.
      + simpl. split; [|apply updT_same]. intros f t.
        change (IC (set_dest (fst nc) (b_from b) (b_to b) (b_idx b) (get_rec (s_ic st) (b_from b))) f t = IC (fst nc) f t).
        apply set_dest_IC. destruct Hsc as [Erec _]. unfold get_rec. rewrite Erec. reflexivity.
      + destruct (handle_multi (fst nc) (k0 :: kr)) as [c2 ok] eqn:Ehm.
        (* the run was accepted with all invariants kept: the children parse *)
        assert (Hatoi : forall k, In k (k0 :: kr) -> atoi_ok k = true).
        { intros [[kf kt] kx] Hk. rewrite <- Ek in Hk.
          apply tm_step_inv in H2. inversion H2; subst; try congruence.
          match goal with Hr : rp_change _ _ _ _ _ _ |- _ => inversion Hr; subst; simpl in Hk; try contradiction end.
          apply id_sort_in in Hk.
          match goal with Hc : cm_change _ _ _ _ _ |- _ =>
            pose proof (cm_keys _ _ _ _ _ ltac:(eassumption) Hc) as [Hkk _] end.
          rewrite Hkk in Hk.
          assert (Hbk : begun (s_tm st) (kf, kt, kx)).
          { right. rewrite (g_glob_child _ _ _ I g gi (kf, kt, kx) ltac:(assumption)); [discriminate|].
            apply child_lookup_keys. exact Hk. }
          pose proof (b_begun_le _ _ _ I _ _ _ Hbk) as Hle2. pose proof (b_small _ _ _ I kf kt) as Hs2.
          unfold atoi_ok, B63 in *. simpl. apply N.ltb_lt. lia. }
        destruct (handle_multi_spec (k0 :: kr) (fst nc) Hatoi) as [c2' [E2 [HIC [_ [_ [Hrc _]]]]]].
        rewrite Ehm in E2. inversion E2; subst c2' ok. simpl. split; [|apply updT_same].
        intros f t. apply HIC.
    - simpl. split; [reflexivity | apply updT_same]. }
  destruct Hproc as [P1 P2]. split; [|exact P2]. intros f t. rewrite P1. apply EIC.
Qed.

(** an accepted request is announced to its destination (the destination appchain, or the union
    pier for a remote hub) in this very transaction's event, and a rejected transaction announces
    nothing *)
Lemma add_chain_in k l : In k (add_chain k l).
Proof.
  unfold add_chain. destruct (existsb (N.eqb k) l) eqn:E.
  - apply existsb_exists in E. destruct E as [x [Hx E]]. apply N.eqb_eq in E. subst. exact Hx.
  - apply in_or_app. right. left. reflexivity.
Qed.
Lemma add_chain_mono k l x : In x l -> In x (add_chain k l).
Proof. unfold add_chain. destruct (existsb (N.eqb k) l); [auto | intro; apply in_or_app; left; assumption]. Qed.

Lemma notify_dst_delivered w c h sf sd ch :
  snd (notify_flags ch) = true -> c_failchild ch = false ->
  In (if is_local sd then sv_chain sd else UNION_PIER) (snd (notify_src_dst cfg_fixed w c h sf sd ch)).
Proof.
  intros Hd Hf. unfold notify_src_dst. destruct (notify_flags ch) as [ns nd]. simpl in Hd. subst nd.
  destruct ns; destruct (is_local sf), (is_local sd); cbn [fst snd]; rewrite ?Hf; apply add_chain_in.
Qed.

Theorem c02_delivery w st h serial b t' c' r sd :
  reach w st -> ibtp_wf w b ->
  handle_ibtp cfg_fixed w h serial b (s_tm st) (s_ic st) = Some (t', c', r) ->
  svc_lookup w (b_to b) = Some sd ->
  (r_ok r = false -> r_chains r = []) /\
  (r_ok r = true -> is_request b = true -> is_notification w (s_ic st) b = false ->
   In (chain_of w (b_to b)) (r_chains r)).
Proof.
  intros R [Hsmall _] Hh Esd0. destruct (reach_sinv _ _ R) as [I _]. pose proof (reach_kinv _ _ R) as K0.
  destruct (binv_handle _ _ _ _ _ _ _ _ _ I Hsmall Hh) as [_ K].
  inversion K; subst; [split; [reflexivity | discriminate]|].
  split; [discriminate|]. intros _ Hrq Hnn. simpl.
  rewrite H0 in Esd0. inversion Esd0; subst sd0.
  unfold chain_of. rewrite H0. unfold is_local.
  apply notify_dst_delivered.
  - (* every way a request can begin announces to the destination *)
    apply tm_step_inv in H2. inversion H2; subst; try congruence; simpl.
    + destruct terr; reflexivity.
    + (* an inter-hub notice is not a plain request: excluded by the index check *)
      exfalso. destruct (check_fixed _ _ _ _ _ _ H1) as [_ [Hnotif [_ Hidx]]]. rewrite Hnn in Hnotif. subst notif.
      unfold expected_index in Hidx. rewrite Hrq in Hidx. simpl in Hidx.
      fold (IC (s_ic st) (b_from b) (b_to b)) in Hidx.
      assert (Hb : begun (s_tm st) (b_id b)) by (left; congruence).
      destruct b as [bf bt bi bty bT bg bx]. unfold b_id in Hb. simpl in *.
      pose proof (b_begun_le _ _ _ I _ _ _ Hb) as Hle. pose proof (b_small _ _ _ I bf bt) as Hs.
      rewrite wrap64_small in Hidx by (unfold B63, W64 in *; lia). lia.
    + destruct terr; reflexivity.
    + match goal with Hb : bm_change _ _ _ _ _ _ _ _ _ _ |- _ => inversion Hb; subst; simpl end.
      * destruct terr; reflexivity.
      * destruct (K0 g gi ltac:(assumption)) as [Hs _].
        unfold shape, ST_BEGIN, ST_SUCCESS, ST_FAILURE, ST_ROLLBACK, ST_BEGIN_FAILURE, ST_BEGIN_ROLLBACK in *.
        destruct Hs as [[E _] | [[E _] | [[E _] | [[E _] | [[E _] | [E _]]]]]];
          try (exfalso; congruence);
          try (exfalso; match goal with Hf : is_final _ = false |- _ => rewrite E in Hf; discriminate end);
          unfold notify_flags; simpl; rewrite E; reflexivity.
      * reflexivity.
      * reflexivity.
  - apply tm_step_inv in H2. inversion H2; subst; try congruence; try reflexivity.
    match goal with Hb : bm_change _ _ _ _ _ _ _ _ _ _ |- _ => inversion Hb; subst; reflexivity end.
Qed.

(** * a generic induction over the transaction loop *)
Lemma apply_call_ic w st touched m a b c d st' r :
  apply_call cfg_fixed w st touched m a b c d = (st', r) ->
  s_ic st' = s_ic st \/ exists k, i_rec (s_ic st) k = None /\ s_ic st' = put_rec (s_ic st) k icrec_zero.
Proof.
  unfold apply_call. cbv zeta.
  assert (Hsame : forall r0 : txres, (st, r0) = (st', r) -> s_ic st' = s_ic st \/ exists k, i_rec (s_ic st) k = None /\ s_ic st' = put_rec (s_ic st) k icrec_zero).
  { intros r0 H. inversion H; subst. left. reflexivity. }
  destruct (m =? 1); [apply Hsame|].
  destruct (m =? 2).
  { unfold call_delete. cbn [d_delete_interchain cfg_fixed]. intro H. inversion H; subst. left. reflexivity. }
  destruct (m =? 3).
  { unfold call_register. destruct (svc_lookup w a) as [s|].
    - destruct (is_local s).
      + destruct (i_rec (s_ic st) a) eqn:E; intro H; inversion H; subst; simpl; [left; reflexivity|].
        right. exists a. auto.
      + intro H. inversion H; subst. left. reflexivity.
    - destruct (w_audit w); intro H; inversion H; subst; left; reflexivity. }
  destruct (m =? 4); [apply Hsame|]. destruct (m =? 5); [apply Hsame|].
  destruct ((m =? 6) || (m =? 7)); [apply Hsame|]. destruct (m =? 8); [apply Hsame|].
  destruct (m =? 9); apply Hsame.
Qed.

Lemma apply_ops_pres2 (P : txm -> ichain -> Prop) w h :
  (forall serial b t c t' c' r, ibtp_wf w b -> P t c -> handle_ibtp cfg_fixed w h serial b t c = Some (t', c', r) -> P t' c') ->
  (forall t c k, P t c -> i_rec c k = None -> P t (put_rec c k icrec_zero)) ->
  forall ops, Forall (op_wf w) ops ->
  forall i touched st st' rs,
  apply_ops cfg_fixed w h i touched st ops = Some (st', rs) -> P (s_tm st) (s_ic st) -> P (s_tm st') (s_ic st').
Proof.
  intros Hstep Hreg. induction ops as [|o ops IH]; intros Hwf i touched st st' rs H HP.
  - simpl in H. inversion H; subst. exact HP.
  - inversion Hwf as [|? ? Ho Hops]; subst.
    cbn [apply_ops] in H. destruct (apply_op cfg_fixed w h i touched st o) as [[st1 r1]|] eqn:E1; [|discriminate].
    destruct (apply_ops cfg_fixed w h (i + 1) (touched || touches_ic w o) st1 ops) as [[st2 rs2]|] eqn:E2; [|discriminate].
    inversion H; subst. eapply (IH Hops); [exact E2|].
    destruct o as [b p | | m a b0 c d0]; cbn [apply_op] in E1.
    + destruct (negb p); [inversion E1; subst; exact HP|].
      destruct (handle_ibtp cfg_fixed w h (1000 * h + i) b (s_tm st) (s_ic st)) as [[[t' c'] r]|] eqn:Eh; [|discriminate].
      inversion E1; subst. simpl. eapply Hstep; eauto.
    + inversion E1; subst. exact HP.
    + inversion E1 as [E1']. destruct (apply_call_inv _ _ _ _ _ _ _ _ _ _ E1') as [Et _].
      rewrite Et. destruct (apply_call_ic _ _ _ _ _ _ _ _ _ _ E1') as [Ec | [k [Hk Ec]]]; rewrite Ec; [exact HP|].
      apply Hreg; assumption.
Qed.

(** * C04 *)
Definition st_of (t : txm) (i : txid) : option N :=
  match tm_rec t i with Some (_, s) => Some s | None => None end.

(** one protocol step of a one-to-one transaction: it begins, or an event of the generated table fires *)
Inductive st_step : option N -> option N -> Prop :=
| ss_begin s : s = ST_BEGIN \/ s = ST_BEGIN_FAILURE -> st_step None (Some s)
| ss_event s ev s' : set_fsm s ev = Some s' -> st_step (Some s) (Some s').

Inductive st_path : option N -> option N -> Prop :=
| sp_refl a : st_path a a
| sp_step a b c : st_path a b -> st_step b c -> st_path a c.

Lemma st_path_trans a b c : st_path a b -> st_path b c -> st_path a c.
Proof. intros H1 H2. induction H2; [exact H1|]. eapply sp_step; [apply IHst_path; exact H1 | exact H]. Qed.

Lemma timeout_event : set_fsm ST_BEGIN "timeout"%string = Some ST_BEGIN_ROLLBACK.
Proof. vm_compute. reflexivity. Qed.

(** what one IBTP transaction does to the status of any one-to-one transaction *)
Theorem c04_tx_step w t c h serial b t' c' r i :
  BInv w t c -> ibtp_wf w b ->
  handle_ibtp cfg_fixed w h serial b t c = Some (t', c', r) ->
  st_of t' i = st_of t i \/
  (i = b_id b /\ r_ok r = true /\ st_step (st_of t i) (st_of t' i)).
Proof.
  intros I [Hsmall _] Hh.
  destruct (binv_handle _ _ _ _ _ _ _ _ _ I Hsmall Hh) as [_ K].
  inversion K; subst; [left; reflexivity|].
  destruct (txid_dec i (b_id b)) as [->|Hne].
  2:{ left. destruct (tm_step_rec _ _ _ _ _ _ _ _ _ H2) as [Hfr _]. unfold st_of. rewrite Hfr by exact Hne. reflexivity. }
  assert (Hfresh : is_request b = true -> (sv_hub sf =? sv_hub sd) = true -> tm_rec t (b_id b) = None).
  { intros Hrq Hhub. destruct (tm_rec t (b_id b)) eqn:Er; [|reflexivity]. exfalso.
    destruct (check_fixed _ _ _ _ _ _ H1) as [_ [Hnotif [_ Hidx]]].
    assert (Hn : notif = false).
    { rewrite Hnotif. unfold is_notification. rewrite H, H0, Hhub. reflexivity. }
    unfold expected_index in Hidx. rewrite Hrq, Hn in Hidx. simpl in Hidx.
    assert (Hb : begun t (b_id b)) by (left; congruence).
    destruct b as [bf bt bi bty bT bg bx]. unfold b_id in Hb. simpl in *.
    pose proof (b_begun_le _ _ _ I _ _ _ Hb) as Hle. pose proof (b_small _ _ _ I bf bt) as Hs.
    fold (IC c bf bt) in Hidx. rewrite wrap64_small in Hidx by (unfold B63, W64 in *; lia). lia. }
  apply tm_step_inv in H2. inversion H2; subst; unfold st_of; simpl.
  - right. split; [reflexivity|]. split; [reflexivity|]. rewrite updT_same.
    match goal with Hn : tm_rec t (b_id b) = None |- _ => rewrite Hn end.
    apply ss_begin. subst st. destruct terr; auto.
  - right. split; [reflexivity|]. split; [reflexivity|]. rewrite updT_same.
    match goal with Hn : tm_rec t (b_id b) = Some _ |- _ => rewrite Hn end.
    eapply ss_event; eauto.
  - right. split; [reflexivity|]. split; [reflexivity|]. rewrite updT_same.
    rewrite (Hfresh ltac:(assumption) ltac:(assumption)).
    apply ss_begin. subst st. destruct terr; auto.
  - left. match goal with Hb : bm_change _ _ _ _ _ _ _ _ _ _ |- _ => apply bm_fields in Hb; destruct Hb as [Rr _] end.
    rewrite Rr. reflexivity.
  - match goal with Hr : rp_change _ _ _ _ _ _ |- _ => inversion Hr; subst end.
    + right. split; [reflexivity|]. split; [reflexivity|]. simpl. rewrite updT_same.
      match goal with Hn : tm_rec t (b_id b) = Some _ |- _ => rewrite Hn end.
      eapply ss_event; eauto.
    + left. simpl.
      assert (tm_rec t1 = tm_rec t) as ->; [|reflexivity].
      destruct rm.
      * match goal with Hr : tm_remove_timeout _ _ _ = Some _ |- _ => apply tm_remove_timeout_fields in Hr; destruct Hr as [R1 _] end. exact R1.
      * match goal with Hr : Some _ = Some _ |- _ => inversion Hr; subst end. reflexivity.
Qed.

(** a receipt that needs a transition the table does not have is rejected without effect *)
Theorem c04_reject_frame w st h serial b t' c' r hh s :
  reach w st -> ibtp_wf w b ->
  tm_rec (s_tm st) (b_id b) = Some (hh, s) -> is_request b = false ->
  set_fsm s (event_of_receipt (b_typ b)) = None ->
  handle_ibtp cfg_fixed w h serial b (s_tm st) (s_ic st) = Some (t', c', r) ->
  r_ok r = false /\ t' = s_tm st /\ c' = s_ic st /\ r_chains r = [].
Proof.
  intros R [Hsmall _] Hr Hrq Hf Hh. destruct (reach_sinv _ _ R) as [I _].
  destruct (binv_handle _ _ _ _ _ _ _ _ _ I Hsmall Hh) as [_ K].
  inversion K; subst; [repeat split; reflexivity|].
  exfalso. unfold tm_step in H2. rewrite Hrq in H2. unfold tm_report in H2. rewrite Hr, Hf in H2. discriminate.
Qed.

(** over a whole block every one-to-one status moves along a path of the table *)
Theorem c04_block w st ops st' bm i :
  reach w st -> Forall (op_wf w) ops -> s_h st + 1 < W64 ->
  exec_block cfg_fixed w st ops = Some (st', bm) ->
  st_path (st_of (s_tm st) i) (st_of (s_tm st') i).
Proof.
  intros R Hwf Hh E. pose proof (reach_sinv _ _ R) as S.
  destruct (exec_block_fixed w st ops S Hwf Hh) as [st2 [bm2 [mid [t2 [E2 [_ F]]]]]].
  rewrite E in E2. inversion E2; subst st2 bm2.
  assert (Pmid : BInv w (s_tm mid) (s_ic mid) /\ st_path (st_of (s_tm st) i) (st_of (s_tm mid) i)).
  { apply (apply_ops_pres2 (fun t c => BInv w t c /\ st_path (st_of (s_tm st) i) (st_of t i)) w (s_h st + 1))
      with (ops := ops) (i := 0) (touched := false) (st := st) (rs := m_res bm).
    - intros serial b t c t' c' r Hb [I P] Hh0. split.
      + destruct Hb as [Hs _]. exact (proj1 (binv_handle _ _ _ _ _ _ _ _ _ I Hs Hh0)).
      + destruct (c04_tx_step w t c _ _ b t' c' r i I Hb Hh0) as [Eq | [_ [_ Hst]]].
        * rewrite Eq. exact P.
        * eapply sp_step; eauto.
    - intros t c k [I P] Hk. split; [apply binv_put_zero; assumption | exact P].
    - exact Hwf.
    - exact (bf_ops _ _ _ _ _ _ _ F).
    - split; [exact (si_b _ _ S) | apply sp_refl]. }
  destruct Pmid as [_ Pmid].
  unfold st_of at 2. rewrite (bf_rec _ _ _ _ _ _ _ F).
  destruct (in_l (TTx i) (get_timeout_list t2 (s_h st + 1))) eqn:Ei; [|exact Pmid].
  (* listed at this height: the record was (h, BEGIN) *)
  apply in_l_spec in Ei.
  destruct (get_timeout_list_spec w t2 (s_h st) (bf_t2_inv _ _ _ _ _ _ _ F)) as [_ [_ Lin]].
  apply Lin in Ei. destruct Ei as [_ Hl].
  destruct (m_tx _ _ _ _ _ (bf_t2_inv _ _ _ _ _ _ _ F) (s_h st + 1) i ltac:(lia) Hl) as [s [Es [Hs | []]]]. subst s.
  rewrite (bf_t2_rec _ _ _ _ _ _ _ F) in Es.
  eapply sp_step; [exact Pmid|]. unfold st_of. rewrite Es. eapply ss_event. exact timeout_event.
Qed.

Lemma st_step_some s x : st_step (Some s) x -> exists ev s', set_fsm s ev = Some s' /\ x = Some s'.
Proof. intro H. inversion H; subst. eauto. Qed.

(** final statuses are absorbing along any path *)
Lemma st_path_final s x : is_final s = true -> st_path (Some s) x -> x = Some s.
Proof.
  intros Hf P. remember (Some s) as a eqn:Ea. induction P; [reflexivity|].
  specialize (IHP Ea). rewrite IHP, Ea in H.
  destruct (st_step_some _ _ H) as [ev0 [s1 [Hfsm _]]].
  rewrite (set_fsm_final s ev0 Hf) in Hfsm. discriminate.
Qed.

Theorem c04_final_forever w st ops st' bm i s :
  reach w st -> Forall (op_wf w) ops -> s_h st + 1 < W64 ->
  exec_block cfg_fixed w st ops = Some (st', bm) ->
  st_of (s_tm st) i = Some s -> is_final s = true -> st_of (s_tm st') i = Some s.
Proof.
  intros R Hwf Hh E Hs Hf. pose proof (c04_block w st ops st' bm i R Hwf Hh E) as P.
  rewrite Hs in P. apply (st_path_final s _ Hf P).
Qed.

(** the status query reports the record *)
Theorem c04_query_agrees t i hh s : tm_rec t i = Some (hh, s) -> tm_status_tx t i = Some s.
Proof. intro H. unfold tm_status_tx. rewrite H. reflexivity. Qed.

(** * C06 *)

(** transaction-manager calls never touch the transaction ids stored in timeout lists *)
Lemma ttx_add t hh g h0 i : listed (tm_add_timeout cfg_fixed t hh (TGid g)) h0 (TTx i) <-> listed t h0 (TTx i).
Proof.
  unfold listed, tm_add_timeout. cbn [d_tl_empty_head cfg_fixed negb].
  destruct (tm_tl t hh) as [l|] eqn:El.
  - rewrite andb_true_r. destruct (tl_is_empty_str l) eqn:E; simpl; unfold upd; destruct (h0 =? hh) eqn:Eh.
    + apply N.eqb_eq in Eh. subst h0. apply tl_is_empty_str_spec in E. subst l. rewrite El. split.
      * intros [l0 [E0 H0]]. inversion E0; subst. simpl in H0. destruct H0 as [H0 | []]. discriminate.
      * intros [l0 [E0 H0]]. inversion E0; subst. simpl in H0. destruct H0 as [H0 | []]. discriminate.
    + tauto.
    + apply N.eqb_eq in Eh. subst h0. rewrite El. split.
      * intros [l0 [E0 H0]]. inversion E0; subst. apply in_app_or in H0. destruct H0 as [H0 | H0]; [eauto|].
        simpl in H0. destruct H0 as [H0 | []]. discriminate.
      * intros [l0 [E0 H0]]. inversion E0; subst. eexists. split; [reflexivity | apply in_or_app; left; exact H0].
    + tauto.
  - simpl. unfold upd. destruct (h0 =? hh) eqn:Eh; [|tauto].
    apply N.eqb_eq in Eh. subst h0. rewrite El. split.
    + intros [l0 [E0 H0]]. inversion E0; subst. simpl in H0. destruct H0 as [H0 | []]. discriminate.
    + intros [l0 [E0 _]]. discriminate.
Qed.

Lemma remove_first_other x y l : y <> x -> (In y (remove_first x l) <-> In y l).
Proof.
  intro Hne. induction l as [|z t IH]; simpl; [tauto|].
  destruct (tok_eqb x z) eqn:E.
  - apply tok_eqb_eq in E. subst z. split; [auto | intros [H | H]; [congruence | exact H]].
  - simpl. rewrite IH. tauto.
Qed.

Lemma ttx_remove t hh g t1 h0 i :
  tm_remove_timeout t hh (TGid g) = Some t1 -> (listed t1 h0 (TTx i) <-> listed t h0 (TTx i)).
Proof.
  unfold tm_remove_timeout, listed. destruct (tm_tl t hh) as [l|] eqn:El.
  - unfold tl_remove. destruct (count_tok (TGid g) l <=? 1)%nat; [|discriminate].
    intro H. inversion H; subst. simpl. unfold upd. destruct (h0 =? hh) eqn:Eh; [|tauto].
    apply N.eqb_eq in Eh. subst h0. rewrite El. split.
    + intros [l0 [E0 H0]]. inversion E0; subst. exists l. split; [reflexivity|].
      apply (proj1 (tl_norm_in _ (TTx i) (tok_tx_ne_empty i))) in H0.
      apply (proj1 (remove_first_other (TGid g) (TTx i) l ltac:(discriminate))) in H0. exact H0.
    + intros [l0 [E0 H0]]. inversion E0; subst. eexists. split; [reflexivity|].
      apply (proj2 (tl_norm_in _ (TTx i) (tok_tx_ne_empty i))).
      apply (proj2 (remove_first_other (TGid g) (TTx i) l0 ltac:(discriminate))). exact H0.
  - intro H. inversion H; subst. tauto.
Qed.

Lemma tm_step_ttx w h b sf sd terr t t' ch h0 i :
  tm_step cfg_fixed w h b sf sd terr t = Some (TmOk t' ch) ->
  (listed t' h0 (TTx i) <-> listed t h0 (TTx i)).
Proof.
  intro H. apply tm_step_inv in H. inversion H; subst; try (apply listed_ext; reflexivity).
  - match goal with Hb : bm_change _ _ _ _ _ _ _ _ _ _ |- _ => inversion Hb; subst end.
    + rewrite (listed_ext t1 (set_child (set_glob t1 g _) (b_id b) g) eq_refl). subst t1.
      destruct terr; [tauto | apply ttx_add].
    + apply listed_ext. reflexivity.
    + rewrite (listed_ext t1 (set_child (set_glob t1 g _) (b_id b) g) eq_refl). eapply ttx_remove; eauto.
    + apply listed_ext. reflexivity.
  - match goal with Hr : rp_change _ _ _ _ _ _ |- _ => inversion Hr; subst end.
    + apply listed_ext. reflexivity.
    + rewrite (listed_ext t1 (set_glob t1 g gi') eq_refl). destruct rm.
      * eapply ttx_remove; eauto.
      * match goal with Hx : Some _ = Some _ |- _ => inversion Hx; subst end. tauto.
Qed.

Lemma apply_ops_ttx w h ops i touched st st' rs h0 j :
  Forall (op_wf w) ops ->
  apply_ops cfg_fixed w h i touched st ops = Some (st', rs) ->
  (listed (s_tm st') h0 (TTx j) <-> listed (s_tm st) h0 (TTx j)).
Proof.
  intros Hwf H.
  apply (apply_ops_pres2 (fun t c => listed t h0 (TTx j) <-> listed (s_tm st) h0 (TTx j)) w h) with (ops := ops) (i := i) (touched := touched) (st := st) (rs := rs); auto; try tauto.
  intros serial b t c t' c' r _ P Hh. apply handle_fixed_inv in Hh. inversion Hh; subst; [exact P|].
  match goal with Ht : tm_step _ _ _ _ _ _ _ _ = Some _ |- _ => rewrite (tm_step_ttx _ _ _ _ _ _ _ _ _ h0 j Ht) end. exact P.
Qed.

(** a pending timeout: the record waits at its timeout height and the id is in that list *)
Definition armed (t : txm) (H : N) (i : txid) (hh : N) : Prop :=
  H < hh /\ tm_rec t i = Some (hh, ST_BEGIN) /\ listed t hh (TTx i).

(** a receipt for [i] accepted among the transactions of the block *)
Definition receipt_in (ops : list op) (rs : list txres) (i : txid) : Prop := rcv_of (combine ops rs) i.

Lemma rems_rcv fin d hh i : In (hh, i) (rems_of fin d) -> rcv_of d i.
Proof.
  unfold rems_of. rewrite in_flat_map. intros [[o r] [Hin Hr]]. unfold rem_of in Hr. cbn [fst snd] in Hr.
  destruct o as [b p| |]; try contradiction.
  destruct ((match b_grp b with Some _ => true | None => false end) && is_request b); [contradiction|].
  destruct (tx_skipped r) eqn:Esk; [contradiction|].
  destruct (is_request b) eqn:Erq; [contradiction|].
  destruct (is_response b) eqn:Ers; [|contradiction].
  destruct (tm_rec fin (b_id b)) as [[h1 s1]|]; [|contradiction].
  destruct Hr as [E | []]. inversion E; subst. exists b, p, r. auto.
Qed.

(** timeout notifications *)
Lemma cmap_add_in m k i k' j : In j (cmap_add m k i k') <-> In j (m k') \/ (k' = k /\ j = i).
Proof.
  unfold cmap_add, upd. destruct (k' =? k) eqn:E.
  - apply N.eqb_eq in E. subst. rewrite in_app_iff. simpl. intuition congruence.
  - apply N.eqb_neq in E. intuition congruence.
Qed.

Definition kid_step (w : world) (m : cmap) (p : txid * N) : cmap :=
  let i := fst p in
  let m1 := cmap_add m (chain_of w (fst (fst i))) i in
  if is_final (snd p) then cmap_add m1 (chain_of w (snd (fst i))) i else m1.

Lemma timeout_map_gid w t g r m :
  timeout_map w t (TGid g :: r) m =
  match tm_glob t g with
  | None => None
  | Some gi => timeout_map w t r (fold_left (kid_step w) (sort_kids w (g_children gi)) m)
  end.
Proof. reflexivity. Qed.

Lemma kid_step_mono w m p k j : In j (m k) -> In j (kid_step w m p k).
Proof.
  intro Hj. unfold kid_step. cbv zeta. destruct (is_final (snd p)).
  - apply cmap_add_in. left. apply cmap_add_in. left. exact Hj.
  - apply cmap_add_in. left. exact Hj.
Qed.
Lemma kids_fold_mono w kids : forall m k j, In j (m k) -> In j (fold_left (kid_step w) kids m k).
Proof.
  induction kids as [|p kids IH]; intros m k j Hj; [exact Hj|]. simpl. apply IH. apply kid_step_mono. exact Hj.
Qed.

Lemma timeout_map_mono w t : forall l m m', timeout_map w t l m = Some m' -> forall k j, In j (m k) -> In j (m' k).
Proof.
  induction l as [|x r IH]; intros m m' H k j Hj.
  - simpl in H. inversion H; subst. exact Hj.
  - destruct x as [|i|g].
    + simpl in H. discriminate.
    + simpl in H. eapply IH; [exact H|]. apply cmap_add_in. left. exact Hj.
    + rewrite timeout_map_gid in H. destruct (tm_glob t g) as [gi|]; [|discriminate].
      eapply IH; [exact H|]. apply kids_fold_mono. exact Hj.
Qed.

Lemma timeout_map_tx w t : forall l m m' i, timeout_map w t l m = Some m' -> In (TTx i) l ->
  In i (m' (chain_of w (fst (fst i)))).
Proof.
  induction l as [|x r IH]; intros m m' i H Hin; [contradiction|].
  destruct x as [|i0|g].
  - simpl in H. discriminate.
  - simpl in H. destruct Hin as [E | Hin].
    + inversion E; subst i0. eapply timeout_map_mono; [exact H|]. apply cmap_add_in. right. auto.
    + eapply IH; eauto.
  - rewrite timeout_map_gid in H. destruct (tm_glob t g) as [gi|]; [|discriminate].
    destruct Hin as [E | Hin]; [discriminate|]. eapply IH; eauto.
Qed.

Theorem c06_block w st ops st' bm mid t2 i hh :
  reach w st -> block_facts w st ops st' bm mid t2 ->
  Forall (op_wf w) ops ->
  ~ receipt_in ops (m_res bm) i ->
  (armed (s_tm st) (s_h st) i hh \/ In (hh, i) (pend_of w (s_h st + 1) (combine ops (m_res bm)))) ->
  (s_h st + 1 < hh -> armed (s_tm st') (s_h st') i hh) /\
  (s_h st + 1 = hh -> In i (m_timeout bm (chain_of w (fst (fst i)))) /\
                      tm_rec (s_tm st') i = Some (hh, ST_BEGIN_ROLLBACK)).
Proof.
  intros R F Hwf Hnr Hsrc.
  pose proof (bf_mid_tm _ _ _ _ _ _ _ F) as M.
  set (d := combine ops (m_res bm)) in *. set (h := s_h st + 1) in *.
  (* after the transactions: the record still waits *)
  assert (Hmid : tm_rec (s_tm mid) i = Some (hh, ST_BEGIN) /\ s_h st < hh /\
                 (listed (s_tm mid) hh (TTx i) \/ In (hh, i) (pend_of w h d))).
  { destruct Hsrc as [[Hlt [Hrec Hl]] | Hp].
    - assert (Hl' : listed (s_tm mid) hh (TTx i)).
      { apply (apply_ops_ttx w h ops 0 false st mid (m_res bm) hh i Hwf (bf_ops _ _ _ _ _ _ _ F)). exact Hl. }
      destruct (m_tx _ _ _ _ _ M hh i Hlt Hl') as [s [Es [Hs | Hr]]]; [subst s | contradiction].
      split; [exact Es|]. split; [exact Hlt | left; exact Hl'].
    - destruct (m_pend _ _ _ _ _ M hh i Hp) as [Hlt [[s [Es [Hs | Hr]]] _]]; [subst s | contradiction].
      split; [exact Es|]. split; [lia | right; exact Hp]. }
  destruct Hmid as [Hrec [Hlt Hsrc']].
  (* after setTimeoutList: listed at hh *)
  assert (Hl2 : listed t2 hh (TTx i)).
  { apply (bf_t2_mem _ _ _ _ _ _ _ F hh (TTx i) (tok_tx_ne_empty i)). split.
    - destruct Hsrc' as [Hl | Hp]; [left; exact Hl | right; exists i; auto].
    - intros [i0 [E Hin]]. inversion E; subst i0. apply Hnr. eapply rems_rcv; eauto. }
  destruct (get_timeout_list_spec w t2 (s_h st) (bf_t2_inv _ _ _ _ _ _ _ F)) as [_ [_ Lin]]. fold h in Lin.
  split.
  - intro Hgt. unfold armed. rewrite (bf_h _ _ _ _ _ _ _ F). split; [exact Hgt|]. split.
    + rewrite (bf_rec _ _ _ _ _ _ _ F). fold h.
      destruct (in_l (TTx i) (get_timeout_list t2 h)) eqn:Ei; [|exact Hrec].
      apply in_l_spec in Ei. apply Lin in Ei. destruct Ei as [_ Hl].
      destruct (m_tx _ _ _ _ _ (bf_t2_inv _ _ _ _ _ _ _ F) h i ltac:(unfold h; lia) Hl) as [s [Es _]].
      rewrite (bf_t2_rec _ _ _ _ _ _ _ F), Hrec in Es. inversion Es. lia.
    + apply (listed_ext t2 (s_tm st') (bf_tl _ _ _ _ _ _ _ F)). exact Hl2.
  - intro Heq. fold h in Heq. subst hh.
    assert (Hin : In (TTx i) (get_timeout_list t2 h)) by (apply Lin; split; [discriminate | exact Hl2]).
    split.
    + eapply timeout_map_tx; [exact (bf_tmap _ _ _ _ _ _ _ F) | exact Hin].
    + rewrite (bf_rec _ _ _ _ _ _ _ F). fold h. apply in_l_spec in Hin. rewrite Hin. reflexivity.
Qed.

(** listed as timed out only when the record, after all transactions of the block, is still BEGIN
    and its timeout height is this very block *)
Theorem c06_only w st ops st' bm mid t2 i :
  reach w st -> block_facts w st ops st' bm mid t2 ->
  In (TTx i) (get_timeout_list t2 (s_h st + 1)) ->
  tm_rec (s_tm mid) i = Some (s_h st + 1, ST_BEGIN) /\ ~ receipt_in ops (m_res bm) i.
Proof.
  intros R F Hin.
  destruct (get_timeout_list_spec w t2 (s_h st) (bf_t2_inv _ _ _ _ _ _ _ F)) as [_ [_ Lin]].
  apply Lin in Hin. destruct Hin as [_ Hl].
  destruct (m_tx _ _ _ _ _ (bf_t2_inv _ _ _ _ _ _ _ F) (s_h st + 1) i ltac:(lia) Hl) as [s [Es [Hs | []]]]. subst s.
  rewrite (bf_t2_rec _ _ _ _ _ _ _ F) in Es. split; [exact Es|].
  intros [b [p [r [Hd [Hrq [Hid [Hrs Hsk]]]]]]].
  apply (bf_t2_mem _ _ _ _ _ _ _ F (s_h st + 1) (TTx i) (tok_tx_ne_empty i)) in Hl. destruct Hl as [_ Hnr].
  apply Hnr. exists i. split; [reflexivity|]. unfold rems_of. apply in_flat_map. exists (OIbtp b p, r).
  split; [exact Hd|]. unfold rem_of. cbn [fst snd]. rewrite Hrq, andb_false_r, Hsk, Hrs, Hid, Es. left. reflexivity.
Qed.

(** ids enter timeout lists only through a registration, and a registration needs 0 < T < 2^64-1-H *)
Theorem c06_provenance w st ops st' bm mid t2 hh i :
  reach w st -> block_facts w st ops st' bm mid t2 -> Forall (op_wf w) ops ->
  listed (s_tm st') hh (TTx i) ->
  listed (s_tm st) hh (TTx i) \/ In (hh, i) (pend_of w (s_h st + 1) (combine ops (m_res bm))).
Proof.
  intros R F Hwf Hl. apply (listed_ext t2 (s_tm st') (bf_tl _ _ _ _ _ _ _ F)) in Hl.
  apply (bf_t2_mem _ _ _ _ _ _ _ F hh (TTx i) (tok_tx_ne_empty i)) in Hl. destruct Hl as [[Hl | [i0 [E Hin]]] _].
  - left. apply (apply_ops_ttx w (s_h st + 1) ops 0 false st mid (m_res bm) hh i Hwf (bf_ops _ _ _ _ _ _ _ F)). exact Hl.
  - inversion E; subst. right. exact Hin.
Qed.

Theorem c06_registration_guard w h o r hh i :
  In (hh, i) (add_of w h (o, r)) ->
  exists b p, o = OIbtp b p /\ i = b_id b /\ is_request b = true /\ b_grp b = None /\ tx_skipped r = false /\
              (0 < b_T b)%Z /\ u64_of_Z (b_T b) < MAXU64 - h /\ hh = h + u64_of_Z (b_T b) /\ to_remote_hub w b = false.
Proof.
  unfold add_of. cbn [fst snd]. destruct o as [b p| |]; try contradiction.
  destruct (b_grp b) as [[g n]|] eqn:Eg; cbn [andb].
  - destruct (is_request b) eqn:Erq; [contradiction|]. destruct (tx_skipped r); [contradiction|]. contradiction.
  - destruct (tx_skipped r) eqn:Esk; [contradiction|]. destruct (is_request b) eqn:Erq; [|contradiction].
    destruct ((b_T b <=? 0)%Z || (MAXU64 - h <=? u64_of_Z (b_T b))) eqn:Ev; [contradiction|].
    destruct (to_remote_hub w b) eqn:Er; [contradiction|].
    intros [E | []]. inversion E; subst. apply orb_false_iff in Ev. destruct Ev as [Ev1 Ev2].
    apply Z.leb_gt in Ev1. apply N.leb_gt in Ev2. exists b, p. repeat split; auto.
Qed.

(** * C05 *)

(** global SUCCESS needs every declared child to have succeeded *)
Theorem c05_success_needs_all w st g gi :
  reach w st -> tm_glob (s_tm st) g = Some gi -> g_state gi = ST_SUCCESS ->
  N.of_nat (List.length (g_children gi)) = g_count gi /\ forall p, In p (g_children gi) -> snd p = ST_SUCCESS.
Proof.
  intros R Hg Hs. destruct (reach_kinv _ _ R g gi Hg) as [Sh _].
  unfold shape, ST_BEGIN, ST_SUCCESS, ST_FAILURE, ST_ROLLBACK, ST_BEGIN_FAILURE, ST_BEGIN_ROLLBACK in *.
  destruct Sh as [[E _] | [[E [Hk Hf]] | [[E _] | [[E _] | [[E _] | [E _]]]]]]; try (rewrite Hs in E; discriminate).
  split; [exact Hf|]. intros p Hp. specialize (Hk p Hp). simpl in Hk. destruct Hk as [Hk | []]. symmetry. exact Hk.
Qed.

(** after a failure or a timeout every child is in a failure / rollback status *)
Theorem c05_fail_children w st g gi :
  reach w st -> tm_glob (s_tm st) g = Some gi ->
  g_state gi <> ST_BEGIN -> g_state gi <> ST_SUCCESS ->
  forall p, In p (g_children gi) ->
            snd p = ST_BEGIN_FAILURE \/ snd p = ST_FAILURE \/ snd p = ST_BEGIN_ROLLBACK \/ snd p = ST_ROLLBACK.
Proof.
  intros R Hg Hn1 Hn2 p Hp. destruct (reach_kinv _ _ R g gi Hg) as [Sh _].
  unfold shape in Sh.
  destruct Sh as [[E _] | [[E _] | [[E Hk] | [[E [Hk _]] | [[E Hk] | [E [Hk _]]]]]]]; try contradiction;
    specialize (Hk p Hp); simpl in Hk; intuition.
Qed.

(** the global status can only become SUCCESS from BEGIN: once failed or timed out, never SUCCESS *)
Definition gstate (t : txm) (g : gid) : option N :=
  match tm_glob t g with Some gi => Some (g_state gi) | None => None end.
Definition g_ok (a b : option N) : Prop :=
  b = a \/ (a = None) \/ (a = Some ST_BEGIN) \/
  (a = Some ST_BEGIN_FAILURE /\ b = Some ST_FAILURE) \/ (a = Some ST_BEGIN_ROLLBACK /\ b = Some ST_ROLLBACK).

Lemma g_ok_step w h b sf sd terr t t' ch g :
  KInv t -> tm_step cfg_fixed w h b sf sd terr t = Some (TmOk t' ch) -> g_ok (gstate t g) (gstate t' g).
Proof.
  intros K H. apply tm_step_inv in H. unfold g_ok, gstate.
  inversion H; subst; try (left; reflexivity).
  - match goal with Hb : bm_change _ _ _ _ _ _ _ _ _ _ |- _ => inversion Hb; subst; simpl; unfold upd end.
    + destruct (gid_eqb g g0) eqn:E.
      * apply gid_eqb_eq in E. subst g0. right. left. match goal with Hn : tm_glob t g = None |- _ => rewrite Hn end. reflexivity.
      * left. subst t1. destruct terr; [reflexivity|].
        destruct (tm_add_timeout_fields cfg_fixed t hh (TGid g0)) as [_ [A _]]. rewrite A. reflexivity.
    + destruct (gid_eqb g g0) eqn:E; [|left; reflexivity].
      apply gid_eqb_eq in E. subst g0. left. match goal with Hn : tm_glob t g = Some _ |- _ => rewrite Hn end. reflexivity.
    + destruct (gid_eqb g g0) eqn:E.
      * apply gid_eqb_eq in E. subst g0. right. right. left.
        match goal with Hn : tm_glob t g = Some _ |- _ => rewrite Hn end. congruence.
      * left. match goal with Hr : tm_remove_timeout _ _ _ = Some _ |- _ => apply tm_remove_timeout_fields in Hr; destruct Hr as [_ [A _]] end.
        rewrite A. reflexivity.
    + destruct (gid_eqb g g0) eqn:E; [|left; reflexivity].
      apply gid_eqb_eq in E. subst g0. left. match goal with Hn : tm_glob t g = Some _ |- _ => rewrite Hn end. reflexivity.
  - match goal with Hr : rp_change _ _ _ _ _ _ |- _ => inversion Hr; subst; simpl end; [left; reflexivity|].
    assert (Eg : tm_glob t1 = tm_glob t).
    { destruct rm.
      - match goal with Hr : tm_remove_timeout _ _ _ = Some _ |- _ => apply tm_remove_timeout_fields in Hr; destruct Hr as [_ [R2 _]] end. exact R2.
      - match goal with Hr : Some _ = Some _ |- _ => inversion Hr; subst end. reflexivity. }
    unfold upd. destruct (gid_eqb g g0) eqn:E; [|left; rewrite Eg; reflexivity].
    apply gid_eqb_eq in E. subst g0.
    match goal with Hn : tm_glob t g = Some _ |- _ => rewrite Hn end.
    match goal with Hc : cm_change _ _ _ _ _ |- _ => inversion Hc; subst; simpl end.
    + right. right. left. congruence.
    + left. reflexivity.
    + match goal with Hf : set_fsm (g_state gi) _ = Some _ |- _ => pose proof (set_fsm_receipt_edges _ _ _ Hf) as Hedge end.
      unfold ST_BEGIN, ST_SUCCESS, ST_FAILURE, ST_ROLLBACK, ST_BEGIN_FAILURE, ST_BEGIN_ROLLBACK in *.
      destruct Hedge as [[E1 [_ ->]] | [[E1 [_ ->]] | [[E1 [_ ->]] | [[E1 [_ ->]] | [E1 [_ ->]]]]]]; rewrite E1; auto 10.
Qed.

Lemma g_ok_trans a b c : g_ok a b -> g_ok b c -> g_ok a c.
Proof.
  unfold g_ok, ST_BEGIN, ST_FAILURE, ST_ROLLBACK, ST_BEGIN_FAILURE, ST_BEGIN_ROLLBACK.
  intros [-> | [-> | [-> | [[-> ->] | [-> ->]]]]] H; auto 10;
    destruct H as [-> | [H | [H | [[H _] | [H _]]]]]; auto 10; try discriminate.
Qed.

Theorem c05_fail_sticky w st ops st' bm g :
  reach w st -> Forall (op_wf w) ops -> s_h st + 1 < W64 ->
  exec_block cfg_fixed w st ops = Some (st', bm) ->
  gstate (s_tm st) g <> None -> gstate (s_tm st) g <> Some ST_BEGIN -> gstate (s_tm st) g <> Some ST_SUCCESS ->
  gstate (s_tm st') g <> Some ST_SUCCESS.
Proof.
  intros R Hwf Hh E Hex Hnb Hns. pose proof (reach_sinv _ _ R) as S.
  destruct (exec_block_fixed w st ops S Hwf Hh) as [st2 [bm2 [mid [t2 [E2 [_ F]]]]]].
  rewrite E in E2. inversion E2; subst st2 bm2.
  assert (Pmid : KInv (s_tm mid) /\ g_ok (gstate (s_tm st) g) (gstate (s_tm mid) g)).
  { apply (apply_ops_tm_pres (fun t => KInv t /\ g_ok (gstate (s_tm st) g) (gstate t g)) w (s_h st + 1))
      with (ops := ops) (i := 0) (touched := false) (st := st) (rs := m_res bm).
    - intros serial b t c t' c' r [K P] Hh0. split; [eapply kinv_handle; eauto|].
      apply handle_fixed_inv in Hh0. inversion Hh0; subst; [exact P|].
      eapply g_ok_trans; [exact P|]. eapply (g_ok_step w); eauto.
    - exact (bf_ops _ _ _ _ _ _ _ F).
    - split; [apply (reach_kinv w); exact R | left; reflexivity]. }
  destruct Pmid as [_ P].
  unfold gstate at 1. rewrite (bf_glob _ _ _ _ _ _ _ F).
  destruct (in_l (TGid g) (get_timeout_list t2 (s_h st + 1))).
  - destruct (tm_glob (s_tm mid) g); simpl; discriminate.
  - fold (gstate (s_tm mid) g). unfold g_ok, ST_BEGIN, ST_SUCCESS, ST_FAILURE, ST_ROLLBACK, ST_BEGIN_FAILURE, ST_BEGIN_ROLLBACK in *.
    destruct P as [-> | [P | [P | [[_ ->] | [_ ->]]]]]; try assumption; try contradiction; try discriminate.
Qed.

(** * the block's Counter only points at transactions of the block (what the router needs) *)
Lemma seqN_in from n x : In x (seqN from n) -> from <= x /\ x < from + N.of_nat n.
Proof.
  revert from. induction n as [|k IH]; intros from H; [contradiction|].
  simpl in H. destruct H as [<- | H]; [lia|]. apply IH in H. lia.
Qed.

Theorem counter_indices_in_block rs k l e :
  In (k, l) (counter_obs rs) -> In e l -> (N.to_nat (fst (fst e)) < List.length rs)%nat.
Proof.
  unfold counter_obs. rewrite in_flat_map. intros [k0 [_ Hk]] He.
  set (ll := flat_map _ (combine (seqN 0 (List.length rs)) rs)) in Hk.
  assert (Hl : l = ll).
  { destruct ll eqn:E; [contradiction|]. destruct Hk as [Hk | []]. inversion Hk. reflexivity. }
  subst l. unfold ll in He. apply in_flat_map in He. destruct He as [[i r] [Hin Hx]].
  apply in_combine_l in Hin. apply seqN_in in Hin. simpl in Hx.
  destruct (r_ok r && existsb (N.eqb k0) (r_chains r)); [|contradiction].
  destruct Hx as [<- | []]. simpl. lia.
Qed.
