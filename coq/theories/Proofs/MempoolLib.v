(** Generic lemmas used by the mempool proofs: boolean equalities, lists as sets,
    association lists, the priority-index insertion, a pigeonhole lemma. *)
From BX Require Import Base.Prelude Model.Mempool.
From Coq Require Import ZifyBool ZifyN ZifyNat FinFun.
Local Open Scope N_scope.

(* ------------------------------------------------------------------------- equalities *)

Lemma tx_eqb_spec x y : tx_eqb x y = true <-> x = y.
Proof.
  destruct x, y; unfold tx_eqb; cbn. rewrite !andb_true_iff, !N.eqb_eq. split.
  - intros [[[-> ->] ->] ->]. reflexivity.
  - intro H; inversion H; auto.
Qed.

Lemma slot_eqb_spec (x y : slot) : slot_eqb x y = true <-> x = y.
Proof.
  destruct x, y; unfold slot_eqb; cbn. rewrite andb_true_iff, !N.eqb_eq. split.
  - intros [-> ->]. reflexivity.
  - intro H; inversion H; auto.
Qed.

Lemma pkey_eqb_spec (x y : pkey) : pkey_eqb x y = true <-> x = y.
Proof.
  destruct x as [a b], y as [c d]; unfold pkey_eqb; cbn. rewrite andb_true_iff, N.eqb_eq, slot_eqb_spec. split.
  - intros [-> ->]. reflexivity.
  - intro H; inversion H; auto.
Qed.

Lemma Neqb_spec (x y : N) : N.eqb x y = true <-> x = y.
Proof. apply N.eqb_eq. Qed.

Section Gen.
  Context {A : Type} (eqb : A -> A -> bool) (Heqb : forall x y, eqb x y = true <-> x = y).

  Lemma eqb_refl x : eqb x x = true.
  Proof. apply Heqb. reflexivity. Qed.

  Lemma eqbP x y : reflect (x = y) (eqb x y).
  Proof.
    destruct (eqb x y) eqn:E; constructor.
    - apply Heqb; exact E.
    - intro H. apply Heqb in H. congruence.
  Qed.

  Lemma eqb_sym x y : eqb x y = eqb y x.
  Proof. destruct (eqbP x y), (eqbP y x); congruence. Qed.

  Lemma eqb_neq x y : x <> y -> eqb x y = false.
  Proof. intro H. destruct (eqbP x y); congruence. Qed.

  (* sets *)
  Lemma mem_In x l : mem eqb x l = true <-> In x l.
  Proof.
    unfold mem. rewrite existsb_exists. split.
    - intros [y [Hy E]]. apply Heqb in E. subst. exact Hy.
    - intro H. exists x. split; [exact H | apply eqb_refl].
  Qed.

  Lemma mem_false x l : mem eqb x l = false <-> ~ In x l.
  Proof. rewrite <- mem_In. destruct (mem eqb x l); split; congruence. Qed.

  Lemma mem_cons x y l : mem eqb x (y :: l) = eqb x y || mem eqb x l.
  Proof. reflexivity. Qed.

  Lemma mem_app x l1 l2 : mem eqb x (l1 ++ l2) = mem eqb x l1 || mem eqb x l2.
  Proof. unfold mem. apply existsb_app. Qed.

  Lemma mem_sadd x y l : mem eqb x (sadd eqb y l) = eqb x y || mem eqb x l.
  Proof.
    unfold sadd. destruct (mem eqb y l) eqn:E; [|reflexivity].
    destruct (eqbP x y) as [->|]; [rewrite E|]; reflexivity.
  Qed.

  Lemma mem_filter f x l : mem eqb x (filter f l) = f x && mem eqb x l.
  Proof.
    unfold mem. induction l as [|y t IH]; cbn [filter existsb].
    - rewrite andb_false_r. reflexivity.
    - destruct (f y) eqn:F; cbn [existsb]; rewrite IH.
      + destruct (eqbP x y) as [->|]; cbn; [rewrite F|]; reflexivity.
      + destruct (eqbP x y) as [->|]; cbn; [rewrite F|]; reflexivity.
  Qed.

  Lemma mem_srem x y l : mem eqb x (srem eqb y l) = negb (eqb y x) && mem eqb x l.
  Proof. unfold srem. apply mem_filter. Qed.

  Lemma In_sadd x y l : In x (sadd eqb y l) <-> x = y \/ In x l.
  Proof.
    rewrite <- !mem_In, mem_sadd, orb_true_iff, Heqb. tauto.
  Qed.

  Lemma In_srem x y l : In x (srem eqb y l) <-> x <> y /\ In x l.
  Proof.
    rewrite <- !mem_In, mem_srem, andb_true_iff, negb_true_iff.
    destruct (eqbP y x); split; intros [H1 H2]; split; congruence.
  Qed.

  Lemma NoDup_sadd y l : NoDup l -> NoDup (sadd eqb y l).
  Proof.
    intro H. unfold sadd. destruct (mem eqb y l) eqn:E; [exact H|].
    constructor; [apply mem_false; exact E | exact H].
  Qed.

  Lemma NoDup_filter (f : A -> bool) l : NoDup l -> NoDup (filter f l).
  Proof.
    induction 1 as [|x l Hx Hl IH]; cbn; [constructor|].
    destruct (f x); [constructor|]; auto.
    rewrite filter_In. tauto.
  Qed.

  Lemma NoDup_srem y l : NoDup l -> NoDup (srem eqb y l).
  Proof. apply NoDup_filter. Qed.

  Lemma In_dedup x l : In x (dedup eqb l) <-> In x l.
  Proof.
    induction l as [|y t IH]; cbn; [tauto|].
    destruct (mem eqb y t) eqn:E.
    - rewrite IH. apply mem_In in E. split; [tauto|]. intros [->|H]; auto.
    - cbn. rewrite IH. tauto.
  Qed.

  Lemma NoDup_dedup l : NoDup (dedup eqb l).
  Proof.
    induction l as [|y t IH]; cbn; [constructor|].
    destruct (mem eqb y t) eqn:E; [exact IH|].
    constructor; [|exact IH]. rewrite In_dedup. apply mem_false. exact E.
  Qed.

  Lemma fold_sadd_In (l : list A) acc x :
    In x (fold_left (fun pk sl => sadd eqb sl pk) l acc) <-> In x l \/ In x acc.
  Proof.
    revert acc. induction l as [|y t IH]; intros acc; cbn; [tauto|].
    rewrite IH, In_sadd. split; intros [H|H]; auto; destruct H; auto.
  Qed.

  Lemma fold_srem_In (l : list A) acc x :
    In x (fold_left (fun ix sl => srem eqb sl ix) l acc) <-> ~ In x l /\ In x acc.
  Proof.
    revert acc. induction l as [|y t IH]; intros acc; cbn; [tauto|].
    rewrite IH, In_srem. split.
    - intros [H1 [H2 H3]]. split; [|exact H3]. intros [->|H]; auto.
    - intros [H1 H2]. split; [|split]; [intro; apply H1; auto | intros ->; apply H1; auto | exact H2].
  Qed.

  Lemma fold_srem_NoDup (l : list A) acc : NoDup acc -> NoDup (fold_left (fun ix sl => srem eqb sl ix) l acc).
  Proof.
    revert acc. induction l as [|y t IH]; intros acc H; cbn; [exact H|]. apply IH, NoDup_srem, H.
  Qed.

  (* association lists keyed by A *)
  Context {V : Type}.
  Implicit Types l : list (A * V).

  Lemma alookup_aremove k k' l :
    alookup eqb k' (aremove eqb k l) = if eqb k' k then None else alookup eqb k' l.
  Proof.
    induction l as [|[k0 v0] t IH]; cbn.
    - destruct (eqb k' k); reflexivity.
    - destruct (eqbP k k0) as [->|Hn].
      + rewrite IH. destruct (eqbP k' k0); reflexivity.
      + cbn. rewrite IH. destruct (eqbP k' k0) as [->|]; [|reflexivity].
        rewrite (eqb_neq k0 k); [reflexivity | congruence].
  Qed.

  Lemma alookup_aset k k' v l :
    alookup eqb k' (aset eqb k v l) = if eqb k' k then Some v else alookup eqb k' l.
  Proof.
    unfold aset. cbn. destruct (eqb k' k) eqn:E; [reflexivity|].
    rewrite alookup_aremove, E. reflexivity.
  Qed.

  Lemma alookup_In k v l : alookup eqb k l = Some v -> In (k, v) l.
  Proof.
    induction l as [|[k0 v0] t IH]; cbn; [discriminate|].
    destruct (eqbP k k0) as [->|]; [intros [= ->]; auto | auto].
  Qed.

  Lemma alookup_None k l : alookup eqb k l = None <-> ~ In k (map fst l).
  Proof.
    induction l as [|[k0 v0] t IH]; cbn; [tauto|].
    destruct (eqbP k k0) as [->|Hn].
    - split; [discriminate | intro H; exfalso; apply H; auto].
    - rewrite IH. split; intro H; [intros [E|E]; [congruence | auto] | auto].
  Qed.

  Lemma alookup_Some_key k v l : alookup eqb k l = Some v -> In k (map fst l).
  Proof. intro H. apply alookup_In in H. apply in_map_iff. exists (k, v). auto. Qed.

  Lemma In_alookup k v l : NoDup (map fst l) -> In (k, v) l -> alookup eqb k l = Some v.
  Proof.
    induction l as [|[k0 v0] t IH]; cbn; [tauto|]. intros Hnd [E|Hin].
    - inversion E; subst. rewrite eqb_refl. reflexivity.
    - inversion Hnd as [|? ? Hx Hl]; subst.
      destruct (eqbP k k0) as [->|]; [|auto].
      exfalso. apply Hx. apply in_map_iff. exists (k0, v). auto.
  Qed.

  Lemma aremove_keys k l x : In x (map fst (aremove eqb k l)) <-> x <> k /\ In x (map fst l).
  Proof.
    induction l as [|[k0 v0] t IH]; cbn; [tauto|].
    destruct (eqbP k k0) as [->|Hn].
    - rewrite IH. split; [tauto|]. intros [H1 [H2|H2]]; [congruence | auto].
    - cbn. rewrite IH. split; [intros [->|[H1 H2]]; auto | intros [H1 [H2|H2]]; auto].
  Qed.

  Lemma NoDup_aremove k l : NoDup (map fst l) -> NoDup (map fst (aremove eqb k l)).
  Proof.
    induction l as [|[k0 v0] t IH]; cbn; [auto|]. intro H. inversion H; subst.
    destruct (eqb k k0); [auto|]. cbn. constructor; [|auto].
    rewrite aremove_keys. tauto.
  Qed.

  Lemma NoDup_aset k v l : NoDup (map fst l) -> NoDup (map fst (aset eqb k v l)).
  Proof.
    intro H. unfold aset. cbn. constructor; [|apply NoDup_aremove; exact H].
    rewrite aremove_keys. tauto.
  Qed.

  Lemma aset_keys k v l x : In x (map fst (aset eqb k v l)) <-> x = k \/ In x (map fst l).
  Proof.
    unfold aset. cbn. rewrite aremove_keys. destruct (eqbP x k) as [->|Hn]; split.
    - auto.
    - auto.
    - intros [H|[_ H]]; [left; congruence | auto].
    - intros [H|H]; [congruence | auto].
  Qed.

  Lemma NoDup_map_filter (f : A * V -> bool) l : NoDup (map fst l) -> NoDup (map fst (filter f l)).
  Proof.
    induction l as [|[k0 v0] t IH]; cbn; [auto|]. intro H. inversion H as [|? ? Hx Hl]; subst.
    destruct (f (k0, v0)); [|auto]. cbn. constructor; [|auto].
    intro Hin. apply Hx. apply in_map_iff in Hin. destruct Hin as [[k1 v1] [E Hin]].
    apply filter_In in Hin. apply in_map_iff. exists (k1, v1). tauto.
  Qed.

  Lemma alookup_filter (f : A * V -> bool) k l : NoDup (map fst l) ->
    alookup eqb k (filter f l) =
    match alookup eqb k l with Some v => if f (k, v) then Some v else None | None => None end.
  Proof.
    induction l as [|[k0 v0] t IH]; cbn; [reflexivity|]. intro H. inversion H as [|? ? Hx Hl]; subst.
    destruct (eqbP k k0) as [->|Hn].
    - destruct (f (k0, v0)) eqn:F; cbn.
      + rewrite eqb_refl. reflexivity.
      + rewrite IH by assumption.
        destruct (alookup eqb k0 t) eqn:E; [|reflexivity].
        exfalso. apply Hx. eapply alookup_Some_key. exact E.
    - destruct (f (k0, v0)); cbn; [rewrite (eqb_neq k k0) by assumption|]; apply IH; assumption.
  Qed.

  Lemma fold_aremove_lookup (ks : list A) l k :
    alookup eqb k (fold_left (fun it sl => aremove eqb sl it) ks l) =
    if mem eqb k ks then None else alookup eqb k l.
  Proof.
    revert l. induction ks as [|k0 t IH]; intros l; [reflexivity|].
    cbn [fold_left]. rewrite IH, alookup_aremove, mem_cons. destruct (eqb k k0), (mem eqb k t); reflexivity.
  Qed.

  Lemma fold_aremove_NoDup (ks : list A) l : NoDup (map fst l) ->
    NoDup (map fst (fold_left (fun it sl => aremove eqb sl it) ks l)).
  Proof.
    revert l. induction ks as [|k0 t IH]; intros l H; cbn; [exact H|]. apply IH, NoDup_aremove, H.
  Qed.
End Gen.

Arguments eqbP {A} eqb Heqb x y.

Definition slotP := eqbP slot_eqb slot_eqb_spec.
Definition txP := eqbP tx_eqb tx_eqb_spec.
Definition pkeyP := eqbP pkey_eqb pkey_eqb_spec.
Definition NP := eqbP N.eqb Neqb_spec.

(* ------------------------------------------------------------------------- priority index *)

Lemma In_pinsert k x l : In x (pinsert k l) <-> x = k \/ In x l.
Proof.
  induction l as [|h t IH]; cbn; [intuition congruence|].
  destruct (pkey_ltb k h); cbn; [intuition congruence|].
  destruct (pkeyP k h) as [->|]; cbn; [intuition congruence|].
  rewrite IH. intuition congruence.
Qed.

Lemma mem_pinsert k x l : mem pkey_eqb x (pinsert k l) = pkey_eqb x k || mem pkey_eqb x l.
Proof.
  apply eq_true_iff_eq. rewrite orb_true_iff, !(mem_In pkey_eqb pkey_eqb_spec), In_pinsert, pkey_eqb_spec. tauto.
Qed.


(** [pinsert] is only ever applied to keys that are not yet present or are present (then it is the
    identity) in a list sorted by [pkey_ltb]; rather than carrying sortedness we use the guarded
    form below, which is what the proofs need: membership and NoDup. *)
Definition pkey_lt (x y : pkey) : Prop := pkey_ltb x y = true.

Lemma pkey_ltb_irrefl x : pkey_ltb x x = false.
Proof. destruct x as [a [b c]]; unfold pkey_ltb; cbn. lia. Qed.

Lemma pkey_ltb_trans x y z : pkey_ltb x y = true -> pkey_ltb y z = true -> pkey_ltb x z = true.
Proof. destruct x as [a [b c]], y as [d [e f]], z as [g [h i]]; unfold pkey_ltb; cbn. lia. Qed.

Lemma pkey_ltb_total x y : pkey_ltb x y = false -> pkey_eqb x y = false -> pkey_ltb y x = true.
Proof. destruct x as [a [b c]], y as [d [e f]]; unfold pkey_ltb, pkey_eqb, slot_eqb; cbn. lia. Qed.

Fixpoint psorted (l : list pkey) : Prop :=
  match l with
  | [] => True
  | h :: t => (forall x, In x t -> pkey_ltb h x = true) /\ psorted t
  end.

Lemma psorted_NoDup l : psorted l -> NoDup l.
Proof.
  induction l as [|h t IH]; cbn; [constructor|]. intros [H1 H2]. constructor; [|auto].
  intro Hin. apply H1 in Hin. rewrite pkey_ltb_irrefl in Hin. discriminate.
Qed.

Lemma psorted_pinsert k l : psorted l -> psorted (pinsert k l).
Proof.
  induction l as [|h t IH]; cbn; [tauto|]. intros [H1 H2].
  destruct (pkey_ltb k h) eqn:L.
  - cbn. repeat split; auto. intros x [<-|Hin]; [exact L|].
    eapply pkey_ltb_trans; [exact L | auto].
  - destruct (pkey_eqb k h) eqn:E; [cbn; auto|].
    cbn. split; [|auto]. intros x Hin. apply In_pinsert in Hin. destruct Hin as [->|Hin]; [|auto].
    apply pkey_ltb_total; assumption.
Qed.

Lemma psorted_filter f l : psorted l -> psorted (filter f l).
Proof.
  induction l as [|h t IH]; cbn; [tauto|]. intros [H1 H2].
  destruct (f h); cbn; [split|]; auto. intros x Hin. apply filter_In in Hin. apply H1. tauto.
Qed.

(* ------------------------------------------------------------------------- counting *)

Lemma len_app {A} (l1 l2 : list A) : len (l1 ++ l2) = len l1 + len l2.
Proof. unfold len. rewrite app_length. lia. Qed.

Lemma len_cons {A} (x : A) l : len (x :: l) = len l + 1.
Proof. unfold len. cbn [length]. lia. Qed.

(** pigeonhole: a list that contains (a, lo), ..., (a, hi - 1) has at least hi - lo elements *)
Lemma range_in_length (l : list slot) a lo hi :
  (forall n, lo <= n < hi -> In (a, n) l) -> hi - lo <= len l.
Proof.
  intro H.
  pose (l1 := map (fun i => (a, lo + N.of_nat i)) (seq 0 (N.to_nat (hi - lo)))).
  assert (Hnd : NoDup l1).
  { apply Injective_map_NoDup; [|apply seq_NoDup].
    intros i j E. inversion E. lia. }
  assert (Hincl : incl l1 l).
  { intros x Hx. apply in_map_iff in Hx. destruct Hx as [i [<- Hi]].
    apply in_seq in Hi. apply H. lia. }
  pose proof (NoDup_incl_length Hnd Hincl) as Hlen.
  assert (Hl1 : length l1 = N.to_nat (hi - lo)) by (unfold l1; rewrite map_length, seq_length; reflexivity).
  rewrite Hl1 in Hlen. clear - Hlen. unfold len. rewrite <- (N2Nat.id (hi - lo)).
  generalize dependent (N.to_nat (hi - lo)). intros n Hn. lia.
Qed.

Lemma filter_length_le {A} (f : A -> bool) l : (length (filter f l) <= length l)%nat.
Proof. induction l as [|x t IH]; cbn; [lia|]. destruct (f x); cbn; lia. Qed.

(** reduce record projections over the setters and the flags of [cfg_fixed], nothing else *)
Ltac scbn :=
  cbn [hashmap items index cnonce pnonce arrival parking priority batched pnbs seqno ledger
       set_hashmap set_items set_index set_cnonce set_pnonce set_arrival set_parking set_priority
       set_batched set_pnbs set_seqno set_ledger
       d_stale_entries d_commit_pending d_xacct_index d_lookup_hash cfg_fixed].
Ltac scbn_in H :=
  cbn [hashmap items index cnonce pnonce arrival parking priority batched pnbs seqno ledger
       set_hashmap set_items set_index set_cnonce set_pnonce set_arrival set_parking set_priority
       set_batched set_pnbs set_seqno set_ledger
       d_stale_entries d_commit_pending d_xacct_index d_lookup_hash cfg_fixed] in H.
