(** The simulation relation between the model (repaired configuration) and the specification,
    and its preservation by the in-block operations. *)
From BX Require Import Base.Prelude Model.JsonAcct Model.Merkle Model.StateLedger Model.LedgerSpec
  Proofs.LedgerLemmas Proofs.RefineBase Proofs.RefineBlock Proofs.RefineUndo.
From Coq Require Import Sorting.Sorted.
Local Open Scope N_scope.

(** * specification-side lookups *)
Lemma sm_st_get_set S a k b a' k' :
  sm_st_get (sm_st_set S a k b) a' k' = if (a' =? a) && bytes_eqb k' k then b else sm_st_get S a' k'.
Proof.
  unfold sm_st_get, sm_st_set. simpl. rewrite sget_sput, sk_eqb_pair.
  destruct ((a' =? a) && bytes_eqb k' k); reflexivity.
Qed.
Lemma sm_acct_get_set S a x a' :
  sm_acct_get (sm_acct_set S a x) a' = if a' =? a then x else sm_acct_get S a'.
Proof. unfold sm_acct_get, sm_acct_set. simpl. rewrite aget_aput. destruct (a' =? a); reflexivity. Qed.
Lemma sm_st_get_acct_set S a x a' k' : sm_st_get (sm_acct_set S a x) a' k' = sm_st_get S a' k'.
Proof. reflexivity. Qed.
Lemma sm_acct_get_st_set S a k b a' : sm_acct_get (sm_st_set S a k b) a' = sm_acct_get S a'.
Proof. reflexivity. Qed.

(** * the relation *)
Definition acct_rel (v : N * Z * val) (y : sacct) : Prop :=
  fst (fst v) = sa_nonce y /\ snd (fst v) = sa_bal y.

Definition matches (m : st) (S : smap) : Prop :=
  (forall a k, cur_st m a k = sm_st_get S a k) /\ (forall a, acct_rel (acct_view (cur_oacct m a)) (sm_acct_get S a)) /\
  (forall a, cur_code m a = sa_code (sm_acct_get S a)).
Definition fl_matches (m : st) (S : smap) : Prop :=
  (forall a k, fl_st m a k = sm_st_get S a k) /\ (forall a, acct_rel (acct_view (fl_acct m a)) (sm_acct_get S a)) /\
  (forall a, nb (cached_code m a) = sa_code (sm_acct_get S a)).

Lemma matches_view_eq m1 m2 S : view_eq m1 m2 -> matches m2 S -> matches m1 S.
Proof.
  intros V [M1 [M2 M3]]. split; [| split].
  - intros a k. rewrite (ve_st m1 m2 V). apply M1.
  - intros a. unfold acct_rel. rewrite (ve_ac m1 m2 V). apply M2.
  - intros a. rewrite (ve_code m1 m2 V). apply M3.
Qed.

Section WithEnv.
Variable e : env.

(** revisions: newest first, ids and changer lengths decreasing towards the tail *)
Definition rev_order (x y : N * nat) : Prop := fst y < fst x /\ (snd y <= snd x)%nat.

Record snap_ok (m : st) (s : spec) : Prop := {
  so_ids : map fst (sp_snaps s) = map fst (s_revs m);
  so_lt : forall id len, In (id, len) (s_revs m) -> id < s_next m /\ (len <= List.length (s_chg m))%nat;
  so_sorted : StronglySorted rev_order (s_revs m);
  so_live : forall id len S,
      alookup N.eqb id (s_revs m) = Some len -> alookup N.eqb id (sp_snaps s) = Some (S, false) ->
      live_ok m (firstn (List.length (s_chg m) - len) (s_chg m)) /\
      matches (revert_n e (List.length (s_chg m) - len) m) S
}.

(** model min vs specification min: equal, except after Rollback(0) followed by a reopen, where
    the store still holds minHeight = 1 (no decision differs: max = 0) *)
Definition min_rel (m : st) (s : spec) : Prop :=
  s_min m = sp_min s \/ (sp_max s = 0 /\ sp_min s = 0 /\ s_min m = 1).

Record nums (m : st) (s : spec) : Prop := {
  nu_pend : sp_pend s = false;
  nu_next : s_next m = sp_next s;
  nu_max : s_max m = sp_max s;
  nu_dmax : d_max (s_db m) = s_max m;
  nu_min : min_rel m s;
  nu_prev : s_prev m = sp_prev s;
  (* the store's minHeight lags the memory only after a rollback to 0 *)
  nu_dmin : d_min (s_db m) = s_min m \/ (s_min m = 0 /\ s_max m = 0 /\ d_min (s_db m) <= 1);
  (* the journal of the current height carries the running root *)
  nu_root : (s_max m = 0 /\ s_prev m = zero32) \/
            (s_max m <> 0 /\ exists jn, aget (s_max m) (d_jnl (s_db m)) = Some jn /\ j_root jn = s_prev m)
}.

Record Sim (m : st) (s : spec) : Prop := {
  sim_inv : Inv m;
  sim_coh : Coh m;
  sim_cur : matches m (sp_cur s);
  sim_fl : fl_matches m (sp_fl s);
  sim_snap : snap_ok m s;
  sim_num : nums m s
}.

(** * frames *)
Lemma Coh_frame m m' : s_db m' = s_db m -> s_cache m' = s_cache m -> s_pend m' = s_pend m -> Coh m -> Coh m'.
Proof. intros Hd Hc Hp [C1 C2 C3]. constructor; rewrite ?Hd, ?Hc, ?Hp; assumption. Qed.

Lemma fl_matches_frame m m' S : s_db m' = s_db m -> s_cache m' = s_cache m -> fl_matches m S -> fl_matches m' S.
Proof.
  intros Hd Hc [F1 [F2 F3]]. split; [| split].
  - intros a k. rewrite (fl_st_frame m m' Hd Hc). apply F1.
  - intros a. rewrite (fl_acct_frame m m' Hd Hc). apply F2.
  - intros a. rewrite (cached_code_frame m m' Hd Hc). apply F3.
Qed.

Lemma nums_transfer m m' s s' :
  s_next m' = sp_next s' -> s_max m' = s_max m -> s_db m' = s_db m -> s_min m' = s_min m -> s_prev m' = s_prev m ->
  sp_pend s' = sp_pend s -> sp_max s' = sp_max s -> sp_min s' = sp_min s -> sp_prev s' = sp_prev s ->
  nums m s -> nums m' s'.
Proof.
  intros H1 H2 H3 H4 H5 P1 P2 P3 P4 [N1 N2 N3 N4 N5 N6 N7 N8]. apply Build_nums.
  - congruence.
  - exact H1.
  - congruence.
  - congruence.
  - unfold min_rel in *. rewrite H4, P2, P3. exact N5.
  - congruence.
  - rewrite H3, H4, H2. exact N7.
  - rewrite H2, H3, H5. exact N8.
Qed.

Lemma nums_frame m m' s :
  s_next m' = s_next m -> s_max m' = s_max m -> s_db m' = s_db m -> s_min m' = s_min m -> s_prev m' = s_prev m ->
  nums m s -> nums m' s.
Proof.
  intros H1 H2 H3 H4 H5 Nu. apply (nums_transfer m m' s s); try assumption; try reflexivity.
  rewrite H1. apply Nu.
Qed.

(** * snapshots under a step that pushes undo entries *)

(** keys of two aligned lists *)
Lemma alookup_aligned {A B} (l1 : list (N * A)) (l2 : list (N * B)) id :
  map fst l1 = map fst l2 -> (alookup N.eqb id l1 = None <-> alookup N.eqb id l2 = None).
Proof.
  revert l2. induction l1 as [|[x a] t IH]; intros [|[y b] u] H; simpl in *; try discriminate; [tauto|].
  injection H as -> H. destruct (id =? y); [split; discriminate | apply IH; exact H].
Qed.

Lemma firstn_app_len {A} (l1 l2 : list A) n : firstn (List.length l1 + n) (l1 ++ l2) = l1 ++ firstn n l2.
Proof. induction l1 as [|x t IH]; simpl; [reflexivity | rewrite IH; reflexivity]. Qed.

Lemma live_ok_app m l1 l2 : live_ok m (l1 ++ l2) <->
  (forall pre c post, l1 = pre ++ c :: post -> entry_ok m c (post ++ l2)) /\ live_ok m l2.
Proof.
  induction l1 as [|c t IH]; simpl.
  - split; [intro H; split; [intros [|? ?] ? ? E; discriminate | exact H] | tauto].
  - rewrite IH. split.
    + intros [H1 [H2 H3]]. split; [| exact H3].
      intros [|x pre] c' post E; simpl in E; inversion E; subst; [exact H1 | eapply H2; reflexivity].
    + intros [H1 H2]. split; [apply (H1 [] c t); reflexivity|]. split; [| exact H2].
      intros pre c' post E. apply (H1 (c :: pre) c' post). rewrite E. reflexivity.
Qed.

(** A step from [m] to [m'] that leaves revisions alone and pushes the entries [ext]:
    undoing [ext] gives back the views of [m]; the pushed entries are revertible *)
Record pushed (m m' : st) (ext : list change) : Prop := {
  pu_chg : s_chg m' = ext ++ s_chg m;
  pu_revs : s_revs m' = s_revs m;
  pu_next : s_next m' = s_next m;
  pu_inv : Inv m';
  pu_undo : view_eq (revert_n e (List.length ext) m') m;
  pu_mono_fl : forall a, fl_acct m' a = fl_acct m a;
  pu_mono_obj : forall a o, aget a (s_objs m) = Some o ->
      exists o', aget a (s_objs m') = Some o' /\ forall k, kget k (o_ost o) <> None -> kget k (o_ost o') <> None;
  pu_ext_ok : forall l, live_ok m l -> live_ok m' (ext ++ l);
  pu_mono_cc : forall a, cached_code m' a = cached_code m a
}.

Lemma snap_ok_pushed m m' s ext : snap_ok m s -> pushed m m' ext -> snap_ok m' s.
Proof.
  intros [S1 S2 S3 S4] P. constructor.
  - rewrite (pu_revs m m' ext P). exact S1.
  - intros id len Hin. rewrite (pu_revs m m' ext P) in Hin. destruct (S2 id len Hin) as [H1 H2].
    rewrite (pu_next m m' ext P), (pu_chg m m' ext P), app_length. split; [exact H1 | lia].
  - rewrite (pu_revs m m' ext P). exact S3.
  - intros id len S Hr Hs. rewrite (pu_revs m m' ext P) in Hr.
    destruct (S4 id len S Hr Hs) as [L M].
    assert (Hlen : (len <= List.length (s_chg m))%nat).
    { apply (S2 id len). apply (alookup_In N.eqb N_eqb_spec). exact Hr. }
    rewrite (pu_chg m m' ext P), app_length.
    replace (List.length ext + List.length (s_chg m) - len)%nat
      with (List.length ext + (List.length (s_chg m) - len))%nat by lia.
    split.
    + rewrite firstn_app_len. apply (pu_ext_ok m m' ext P). exact L.
    + rewrite revert_n_add. eapply matches_view_eq; [| exact M].
      apply revert_n_view_eq. apply (pu_undo m m' ext P).
Qed.

Lemma pushed_nil m m' :
  s_chg m' = s_chg m -> s_revs m' = s_revs m -> s_next m' = s_next m -> same_views m m' ->
  (forall a o, aget a (s_objs m) = Some o ->
      exists o', aget a (s_objs m') = Some o' /\ forall k, kget k (o_ost o) <> None -> kget k (o_ost o') <> None) ->
  pushed m m' [].
Proof.
  intros Hc Hr Hn SV Ho. constructor; try assumption.
  - apply SV.
  - cbn [List.length revert_n]. constructor; try (apply SV); try assumption.
    intro a. rewrite (sv_ac m m' SV). reflexivity.
  - intro a. apply fl_acct_frame; apply SV.
  - intros l L. cbn [app]. eapply live_ok_mono; [| | exact Ho | exact L].
    + intro a. apply fl_acct_frame; apply SV.
    + intro a. apply cached_code_frame; apply SV.
  - intro a. apply cached_code_frame; apply SV.
Qed.

(** ** building [pushed] *)

(** the optional creation entry a call to GetOrCreateAccount leaves *)
Definition create_ext (m : st) (a : N) (ext0 : list change) : Prop :=
  ext0 = [] \/ (ext0 = [ChCreate a] /\ aget a (s_objs m) = None /\ fl_acct m a = None).

Lemma got_ok_create_ext m a m1 o : got_ok m a m1 o -> exists ext0, s_chg m1 = ext0 ++ s_chg m /\ create_ext m a ext0.
Proof.
  intro G. destruct (go_chg m a m1 o G) as [H | [H1 [H2 H3]]].
  - exists []. split; [exact H | left; reflexivity].
  - exists [ChCreate a]. split; [exact H1 | right; repeat split; assumption].
Qed.

Lemma fl_acct_none_db m a : fl_acct m a = None -> aget a (d_acct (s_db m)) = None.
Proof. unfold fl_acct. destruct (aget a (c_acct (s_cache m))); [discriminate | tauto]. Qed.

(** undoing the creation entry *)
Lemma undo_create_view m m2 a :
  s_db m2 = s_db m -> s_cache m2 = s_cache m -> s_chg m2 = ChCreate a :: s_chg m ->
  (forall a' k, cur_st m2 a' k = cur_st m a' k) ->
  (forall a', fst (acct_view (cur_oacct m2 a')) = fst (acct_view (cur_oacct m a'))) ->
  (forall a', cur_code m2 a' = cur_code m a') ->
  aget a (s_objs m) = None -> fl_acct m a = None ->
  view_eq (revert_n e 1 m2) m.
Proof.
  intros Hd Hc Hg Hst Hac Hco Ha Hf. cbn [revert_n]. rewrite Hg.
  assert (Hcache : undo_cache (set_chg m2 (s_chg m)) (ChCreate a) = s_cache m).
  { unfold undo_cache. cbn [s_cache set_chg]. rewrite Hc.
    unfold adel. rewrite (aremove_absent N.eqb a _ (fl_acct_none_cache m a Hf)). destruct (s_cache m); reflexivity. }
  destruct (revert_change_views e (set_chg m2 (s_chg m)) (ChCreate a)) as [D [C [G [S [A _]]]]].
  constructor.
  - rewrite D. exact Hd.
  - rewrite C. exact Hcache.
  - rewrite G. reflexivity.
  - intros a' k. rewrite S. unfold undo_st. destruct (a' =? a) eqn:E.
    + apply N.eqb_eq in E. subst a'. rewrite (fl_st_of_db_cache (set_chg m2 (s_chg m)) m Hd Hc).
      unfold cur_st. rewrite Ha. reflexivity.
    + change (cur_st (set_chg m2 (s_chg m)) a' k) with (cur_st m2 a' k). apply Hst.
  - intros a'. rewrite A. unfold undo_ac. destruct (a' =? a) eqn:E.
    + apply N.eqb_eq in E. subst a'. cbn [s_db set_chg]. rewrite Hd, (fl_acct_none_db m a Hf).
      unfold cur_oacct. rewrite Ha, Hf. reflexivity.
    + change (cur_oacct (set_chg m2 (s_chg m)) a') with (cur_oacct m2 a'). apply Hac.
  - intros a'. rewrite revert_change_code. unfold undo_code. destruct (a' =? a) eqn:E.
    + apply N.eqb_eq in E. subst a'. unfold cur_code at 1. rewrite Ha. f_equal.
      apply load_code_frame; [exact Hd|]. cbn [s_cache set_cache]. exact Hcache.
    + change (cur_code (set_chg m2 (s_chg m)) a') with (cur_code m2 a'). apply Hco.
Qed.

Lemma create_ext_len m a ext0 : create_ext m a ext0 -> ext0 = [] \/ ext0 = [ChCreate a].
Proof. intros [H | [H _]]; auto. Qed.

(** reads and other steps that keep every view *)
Lemma pushed_same_views m m' a ext0 :
  Inv m -> same_views m m' -> s_chg m' = ext0 ++ s_chg m -> create_ext m a ext0 ->
  objs_mono m m' -> aget a (s_objs m') <> None ->
  pushed m m' ext0.
Proof.
  intros I SV Hg CE Mo Hp. destruct SV as [V1 V2 V3 V4 V5 Vc V6]. decompose [and] V6.
  assert (Hfl : forall b, fl_acct m' b = fl_acct m b) by (intro b; apply fl_acct_frame; assumption).
  assert (Hcc : forall b, cached_code m' b = cached_code m b) by (intro b; apply cached_code_frame; assumption).
  constructor; try assumption.
  - destruct CE as [-> | [-> [Ha Hf]]].
    + cbn [List.length revert_n]. constructor; try assumption. intro b. rewrite V5. reflexivity.
    + apply (undo_create_view m m' a); try assumption. intro b. rewrite V5. reflexivity.
  - intros l L. destruct CE as [-> | [-> [Ha Hf]]]; cbn [app].
    + eapply live_ok_mono; [exact Hfl | exact Hcc | exact Mo | exact L].
    + cbn [live_ok entry_ok]. split.
      * rewrite Hfl. split; [exact Hf|]. split; [eapply live_ok_absent; eassumption | exact Hp].
      * eapply live_ok_mono; [exact Hfl | exact Hcc | exact Mo | exact L].
Qed.

(** a journaled storage write *)
Lemma pushed_write_st m m' a k b prev ext0 :
  Inv m -> wrote_st m m' a k b -> s_chg m' = ChState a k prev :: ext0 ++ s_chg m -> create_ext m a ext0 ->
  nb prev = cur_st m a k -> objs_mono m m' ->
  (exists o', aget a (s_objs m') = Some o' /\ kget k (o_ost o') <> None) ->
  pushed m m' (ChState a k prev :: ext0).
Proof.
  intros I W Hg CE Hprev Mo [o' [Ho' Hk']]. destruct W as [W1 W2 W3 W4 W5 Wc W6]. decompose [and] W6.
  assert (Hfl : forall b0, fl_acct m' b0 = fl_acct m b0) by (intro b0; apply fl_acct_frame; assumption).
  assert (Hcc : forall b0, cached_code m' b0 = cached_code m b0) by (intro b0; apply cached_code_frame; assumption).
  constructor; try assumption.
  - (* undo *)
    cbn [List.length]. change (S (List.length ext0)) with (1 + List.length ext0)%nat. rewrite revert_n_add.
    set (m2 := revert_n e 1 m').
    assert (V2 : s_db m2 = s_db m /\ s_cache m2 = s_cache m /\ s_chg m2 = ext0 ++ s_chg m /\
                 (forall a' k', cur_st m2 a' k' = cur_st m a' k') /\
                 (forall a', fst (acct_view (cur_oacct m2 a')) = fst (acct_view (cur_oacct m a'))) /\
                 (forall a', cur_code m2 a' = cur_code m a')).
    { unfold m2. cbn [revert_n]. rewrite Hg.
      destruct (revert_change_views e (set_chg m' (ext0 ++ s_chg m)) (ChState a k prev)) as [D [C [G [S [A _]]]]].
      split; [rewrite D; exact W2|]. split; [rewrite C; exact W3|]. split; [rewrite G; reflexivity|]. split.
      - intros a' k'. rewrite S. unfold undo_st.
        change (cur_st (set_chg m' (ext0 ++ s_chg m)) a' k') with (cur_st m' a' k'). rewrite W4.
        destruct ((a' =? a) && bytes_eqb k' k) eqn:E; [| reflexivity].
        apply andb_true_iff in E. destruct E as [E1 E2]. apply N.eqb_eq in E1. apply bytes_eqb_spec in E2. subst. exact Hprev.
      - split.
        + intros a'. rewrite A. unfold undo_ac.
          change (cur_oacct (set_chg m' (ext0 ++ s_chg m)) a') with (cur_oacct m' a'). rewrite W5. reflexivity.
        + intros a'. rewrite revert_change_code. unfold undo_code.
          change (cur_code (set_chg m' (ext0 ++ s_chg m)) a') with (cur_code m' a'). apply Wc. }
    destruct V2 as [D2 [C2 [G2 [S2 [A2 K2]]]]].
    destruct CE as [-> | [-> [Ha Hf]]].
    + cbn [List.length revert_n]. constructor; assumption.
    + apply (undo_create_view m m2 a); assumption.
  - intros l L. cbn [app live_ok entry_ok]. split; [exists o'; split; assumption|].
    destruct CE as [-> | [-> [Ha Hf]]]; cbn [app].
    + eapply live_ok_mono; [exact Hfl | exact Hcc | exact Mo | exact L].
    + cbn [live_ok entry_ok]. split.
      * rewrite Hfl. split; [exact Hf|]. split; [eapply live_ok_absent; eassumption | congruence].
      * eapply live_ok_mono; [exact Hfl | exact Hcc | exact Mo | exact L].
Qed.

(** a journaled account-field write: [c] is ChBal / ChNonce / ChCode holding the previous value *)
Lemma pushed_write_ac m m' a x b c ext0 :
  Inv m -> wrote_ac m m' a x b -> s_chg m' = c :: ext0 ++ s_chg m -> create_ext m a ext0 ->
  (c = ChBal a (snd (fst (acct_view (cur_oacct m a)))) /\
   fst (fst (acct_view (Some x))) = fst (fst (acct_view (cur_oacct m a))) /\ b = cur_code m a
   \/
   c = ChNonce a (fst (fst (acct_view (cur_oacct m a)))) /\
   snd (fst (acct_view (Some x))) = snd (fst (acct_view (cur_oacct m a))) /\ b = cur_code m a
   \/
   exists p, c = ChCode a p /\ fst (acct_view (Some x)) = fst (acct_view (cur_oacct m a)) /\ nb p = cur_code m a /\
             (p = None -> cached_code m a = None)) ->
  objs_mono m m' -> aget a (s_objs m') <> None ->
  pushed m m' (c :: ext0).
Proof.
  intros I W Hg CE Hc Mo Hp. destruct W as [W1 W2 W3 W4 W5 Wc W6]. decompose [and] W6.
  assert (Hfl : forall b0, fl_acct m' b0 = fl_acct m b0) by (intro b0; apply fl_acct_frame; assumption).
  assert (Hcc : forall b0, cached_code m' b0 = cached_code m b0) by (intro b0; apply cached_code_frame; assumption).
  constructor; try assumption.
  - cbn [List.length]. change (S (List.length ext0)) with (1 + List.length ext0)%nat. rewrite revert_n_add.
    set (m2 := revert_n e 1 m').
    assert (V2 : s_db m2 = s_db m /\ s_cache m2 = s_cache m /\ s_chg m2 = ext0 ++ s_chg m /\
                 (forall a' k', cur_st m2 a' k' = cur_st m a' k') /\
                 (forall a', fst (acct_view (cur_oacct m2 a')) = fst (acct_view (cur_oacct m a'))) /\
                 (forall a', cur_code m2 a' = cur_code m a')).
    { unfold m2. cbn [revert_n]. rewrite Hg.
      destruct (revert_change_views e (set_chg m' (ext0 ++ s_chg m)) c) as [D [C [G [S [A _]]]]].
      assert (Hcache : undo_cache (set_chg m' (ext0 ++ s_chg m)) c = s_cache m).
      { destruct Hc as [[-> _] | [[-> _] | [p [-> _]]]]; simpl; exact W3. }
      split; [rewrite D; exact W2|]. split; [rewrite C; exact Hcache|]. split; [rewrite G; reflexivity|]. split; [| split].
      - intros a' k'. rewrite S. destruct Hc as [[-> _] | [[-> _] | [p [-> _]]]]; unfold undo_st;
          change (cur_st (set_chg m' (ext0 ++ s_chg m)) a' k') with (cur_st m' a' k'); apply W4.
      - intros a'. rewrite A. unfold undo_ac.
        change (cur_oacct (set_chg m' (ext0 ++ s_chg m)) a') with (cur_oacct m' a'). rewrite W5.
        destruct Hc as [[-> [Q1 Q2]] | [[-> [Q1 Q2]] | [p [-> [Q1 Q2]]]]]; destruct (a' =? a) eqn:E; try reflexivity;
          apply N.eqb_eq in E; subst a'; cbn [fst snd]; try rewrite Q1;
          destruct (acct_view (cur_oacct m a)) as [[? ?] ?]; reflexivity.
      - intros a'. rewrite revert_change_code. unfold undo_code.
        change (cur_code (set_chg m' (ext0 ++ s_chg m)) a') with (cur_code m' a'). rewrite Wc.
        destruct Hc as [[-> [Q1 Q2]] | [[-> [Q1 Q2]] | [p [-> [Q1 [Q2 Q3]]]]]]; destruct (a' =? a) eqn:E; try reflexivity;
          apply N.eqb_eq in E; subst a'; assumption. }
    destruct V2 as [D2 [C2 [G2 [S2 [A2 K2]]]]].
    destruct CE as [-> | [-> [Ha Hf]]].
    + cbn [List.length revert_n]. constructor; assumption.
    + apply (undo_create_view m m2 a); assumption.
  - intros l L. cbn [app live_ok]. split.
    { destruct Hc as [[-> _] | [[-> _] | [p [-> [_ [_ Q3]]]]]]; simpl; try exact Hp.
      split; [exact Hp | rewrite Hcc; exact Q3]. }
    destruct CE as [-> | [-> [Ha Hf]]]; cbn [app].
    + eapply live_ok_mono; [exact Hfl | exact Hcc | exact Mo | exact L].
    + cbn [live_ok entry_ok]. split.
      * rewrite Hfl. split; [exact Hf|]. split; [eapply live_ok_absent; eassumption | exact Hp].
      * eapply live_ok_mono; [exact Hfl | exact Hcc | exact Mo | exact L].
Qed.
End WithEnv.
