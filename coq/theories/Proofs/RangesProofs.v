(** Proofs about [Model/Ranges.v]. *)
From BX Require Import Base.Prelude Model.Ranges.
From Coq Require Import ZifyBool ZifyN ZifyNat.
Local Open Scope N_scope.

Lemma chain_b_spec rs : forall b e, chain_b b e rs = true <-> chain b e rs.
Proof.
  induction rs as [|[x y] t IH]; intros b e; simpl.
  - rewrite N.eqb_eq. tauto.
  - rewrite !andb_true_iff, N.eqb_eq, !N.leb_le, IH. tauto.
Qed.

Lemma range_end_nowrap fetch e startNo begin :
  0 < fetch -> e + fetch < W64 -> begin <= e ->
  startNo * fetch <= begin -> begin <= (startNo + 1) * fetch ->
  range_end fetch e startNo = N.min e ((startNo + 1) * fetch).
Proof.
  intros Hf Hw Hbe Hlo Hhi.
  assert (Hs : startNo <= startNo * fetch) by nia.
  assert (Hm : (startNo + 1) * fetch = startNo * fetch + fetch) by nia.
  unfold range_end.
  rewrite (wrap64_small (startNo + 1)) by (unfold W64 in *; lia).
  rewrite wrap64_small by lia.
  destruct (e <? (startNo + 1) * fetch) eqn:E; lia.
Qed.

Lemma loop_ok fetch e : 0 < fetch -> e + fetch < W64 ->
  forall fuel begin startNo,
  (begin <= e -> startNo * fetch <= begin /\ begin <= (startNo + 1) * fetch) ->
  begin <= e + 1 -> (N.to_nat (e + 1 - begin) <= fuel)%nat ->
  exists rs, ranges_loop fuel fetch begin e startNo = Some rs /\ chain begin e rs.
Proof.
  intros Hf Hw fuel. induction fuel as [|k IH]; intros begin startNo Hinv Hb Hfuel.
  - simpl. destruct (e <? begin) eqn:E.
    + exists []. split; [reflexivity|]. simpl. lia.
    + lia.
  - simpl. destruct (e <? begin) eqn:E.
    + exists []. split; [reflexivity|]. simpl. lia.
    + assert (Hbe : begin <= e) by lia.
      destruct (Hinv Hbe) as [Hlo Hhi].
      rewrite (range_end_nowrap fetch e startNo begin Hf Hw Hbe Hlo Hhi).
      set (re := N.min e ((startNo + 1) * fetch)).
      assert (Hre1 : begin <= re) by (unfold re; lia).
      assert (Hre2 : re <= e) by (unfold re; lia).
      assert (Hs : startNo <= startNo * fetch) by nia.
      rewrite (wrap64_small (re + 1)) by (unfold W64 in *; lia).
      rewrite (wrap64_small (startNo + 1)) by (unfold W64 in *; lia).
      destruct (IH (re + 1) (startNo + 1)) as [rs [Hrs Hch]].
      * intro Hle. unfold re in *. split; nia.
      * lia.
      * lia.
      * rewrite Hrs. exists ((begin, re) :: rs). split; [reflexivity|].
        simpl. repeat split; try lia. exact Hch.
Qed.

(** The partition theorem: for every admissible (begin, end, fetch) the Go loop terminates
    and its result is a chain of non-empty, ascending, disjoint ranges covering exactly
    [begin..end].  The guard [e + fetch < 2^64] is exactly "no uint64 overflow". *)
Theorem ranges_partition fetch b e :
  0 < fetch -> b <= e -> e + fetch < W64 ->
  exists rs, calc_ranges (N.to_nat (e - b) + 1) fetch b e = ROk rs /\ chain b e rs.
Proof.
  intros Hf Hbe Hw. unfold calc_ranges.
  destruct (e <? b) eqn:E; [lia|].
  destruct (loop_ok fetch e Hf Hw (N.to_nat (e - b) + 1) b (b / fetch)) as [rs [H1 H2]].
  - intros _. pose proof (N.div_mod b fetch ltac:(lia)) as Hdm.
    pose proof (N.mod_lt b fetch ltac:(lia)) as Hml. split; nia.
  - lia.
  - lia.
  - rewrite H1. exists rs. split; [reflexivity | exact H2].
Qed.

(** more fuel never changes a finished result, so the harness's choice of fuel is immaterial *)
Lemma loop_fuel_mono fetch e fuel : forall begin startNo rs,
  ranges_loop fuel fetch begin e startNo = Some rs ->
  ranges_loop (S fuel) fetch begin e startNo = Some rs.
Proof.
  induction fuel as [|k IH]; intros begin startNo rs H.
  - simpl in *. destruct (e <? begin); [exact H | discriminate].
  - remember (S k) as sk. simpl. simpl in H. rewrite Heqsk in H. simpl in H. subst sk.
    destruct (e <? begin); [exact H|].
    destruct (ranges_loop k fetch _ e _) eqn:E; [|discriminate].
    apply IH in E. rewrite E. exact H.
Qed.

(** begin > end is refused *)
Lemma ranges_refused fuel fetch b e : e < b -> calc_ranges fuel fetch b e = RErr.
Proof. intro H. unfold calc_ranges. destruct (e <? b) eqn:E; [reflexivity|lia]. Qed.

(** a chain covers each height of [b..e] exactly once and nothing outside *)
Lemma chain_cover rs : forall b e h, chain b e rs ->
  cover_count h rs = if (b <=? h) && (h <=? e) then 1%nat else 0%nat.
Proof.
  induction rs as [|[x y] t IH]; intros b e h Hc; simpl in Hc.
  - unfold cover_count. simpl. destruct (b <=? h) eqn:E1, (h <=? e) eqn:E2; simpl; try reflexivity; lia.
  - destruct Hc as [Hx [Hby [Hye Ht]]]. subst x.
    pose proof (IH _ _ h Ht) as IHh.
    unfold cover_count in *. cbn [filter].
    unfold in_range at 1. cbn [fst snd].
    destruct (b <=? h) eqn:E1, (h <=? y) eqn:E2, (y + 1 <=? h) eqn:E3, (h <=? e) eqn:E4;
      cbn [andb length] in *; rewrite IHh; try reflexivity; lia.
Qed.

(** The overflow corner is real: with end near 2^64 the first range produced is descending. *)
Lemma ranges_overflow_refuted :
  exists fetch b e, 0 < fetch /\ b <= e /\ e < W64 /\
    ranges_loop 6 fetch b e (b / fetch) = None /\
    range_end fetch e (b / fetch) < b.
Proof.
  exists 4, (W64 - 3), (W64 - 2).
  split; [reflexivity|]. split; [discriminate|]. split; [reflexivity|].
  split; vm_compute; reflexivity.
Qed.

(** * The repaired loop: no overflow guard is needed any more *)

Lemma mul_overflow_test n f : 0 < f -> (wrap64 (n * f) / f =? n) = (n * f <? W64).
Proof.
  intro Hf. destruct (n * f <? W64) eqn:E.
  - apply N.ltb_lt in E. rewrite wrap64_small by exact E. apply N.eqb_eq. apply N.div_mul. lia.
  - apply N.ltb_ge in E. apply N.eqb_neq. intro H.
    assert (Hlt : wrap64 (n * f) < n * f).
    { pose proof (wrap64_lt (n * f)). lia. }
    assert (wrap64 (n * f) / f < n).
    { apply N.div_lt_upper_bound; [lia|]. lia. }
    lia.
Qed.

Lemma range_end_fx_spec fetch e startNo begin :
  0 < fetch -> e < W64 -> begin <= e ->
  startNo * fetch <= begin -> begin <= (startNo + 1) * fetch ->
  let re := range_end_fx fetch e startNo in
  begin <= re /\ re <= e /\ (re = e \/ (re = (startNo + 1) * fetch /\ re < e /\ wrap64 (startNo + 1) = startNo + 1)).
Proof.
  intros Hf He Hbe Hlo Hhi. cbv zeta. unfold range_end_fx.
  assert (Hs : startNo <= startNo * fetch) by nia.
  assert (Hs2 : startNo + 1 <= W64) by lia.
  destruct (wrap64 (startNo + 1) =? 0) eqn:E0; [lia|].
  assert (Hn : wrap64 (startNo + 1) = startNo + 1).
  { destruct (N.eq_dec (startNo + 1) W64) as [Eq|Ne].
    - rewrite Eq in E0. unfold wrap64 in E0. rewrite N.mod_same in E0 by (unfold W64; lia). discriminate.
    - apply wrap64_small. lia. }
  rewrite Hn, (mul_overflow_test _ _ Hf).
  destruct ((startNo + 1) * fetch <? W64) eqn:E1; cbn [andb]; [|lia].
  apply N.ltb_lt in E1. rewrite wrap64_small by exact E1.
  destruct ((startNo + 1) * fetch <? e) eqn:E2; [|lia].
  apply N.ltb_lt in E2. split; [lia|]. split; [lia|]. right. repeat split; lia.
Qed.

Lemma loop_ok_fx fetch e : 0 < fetch -> e < W64 ->
  forall fuel begin startNo,
  (begin <= e -> startNo * fetch <= begin /\ begin <= (startNo + 1) * fetch) ->
  begin <= e + 1 -> (N.to_nat (e + 1 - begin) <= fuel)%nat ->
  exists rs, ranges_loop_fx fuel fetch begin e startNo = Some rs /\ chain begin e rs.
Proof.
  intros Hf Hw fuel. induction fuel as [|k IH]; intros begin startNo Hinv Hb Hfuel.
  - simpl. destruct (e <? begin) eqn:E.
    + exists []. split; [reflexivity|]. simpl. lia.
    + lia.
  - simpl. destruct (e <? begin) eqn:E.
    + exists []. split; [reflexivity|]. simpl. lia.
    + assert (Hbe : begin <= e) by lia.
      destruct (Hinv Hbe) as [Hlo Hhi].
      pose proof (range_end_fx_spec fetch e startNo begin Hf Hw Hbe Hlo Hhi) as Hspec. cbv zeta in Hspec.
      set (re := range_end_fx fetch e startNo) in *.
      destruct Hspec as [Hre1 [Hre2 Hcase]].
      destruct (re =? e) eqn:Ee.
      * apply N.eqb_eq in Ee. exists [(begin, re)]. split; [reflexivity|].
        simpl. repeat split; try lia.
      * apply N.eqb_neq in Ee. destruct Hcase as [Hc|[Hc1 [Hc2 Hc3]]]; [contradiction|].
        rewrite (wrap64_small (re + 1)) by lia. rewrite Hc3.
        destruct (IH (re + 1) (startNo + 1)) as [rs [Hrs Hch]].
        -- intro Hle. split; nia.
        -- lia.
        -- lia.
        -- rewrite Hrs. exists ((begin, re) :: rs). split; [reflexivity|].
           simpl. repeat split; try lia. exact Hch.
Qed.

(** Partition theorem for the repaired loop: for EVERY request with begin <= end that uint64 can
    express (end <= 2^64-1) and every fetch > 0 the loop terminates and the ranges are non-empty,
    ascending, disjoint and cover [begin..end] exactly. *)
Theorem ranges_partition_fx fetch b e :
  0 < fetch -> b <= e -> e < W64 ->
  exists rs, calc_ranges_fx (N.to_nat (e - b) + 1) fetch b e = ROk rs /\ chain b e rs.
Proof.
  intros Hf Hbe Hw. unfold calc_ranges_fx.
  destruct (e <? b) eqn:E; [lia|].
  destruct (loop_ok_fx fetch e Hf Hw (N.to_nat (e - b) + 1) b (b / fetch)) as [rs [H1 H2]].
  - intros _. pose proof (N.div_mod b fetch ltac:(lia)) as Hdm.
    pose proof (N.mod_lt b fetch ltac:(lia)) as Hml. split; nia.
  - lia.
  - lia.
  - rewrite H1. exists rs. split; [reflexivity | exact H2].
Qed.

Lemma ranges_refused_fx fuel fetch b e : e < b -> calc_ranges_fx fuel fetch b e = RErr.
Proof. intro H. unfold calc_ranges_fx. destruct (e <? b) eqn:E; [reflexivity|lia]. Qed.

(** inside the old guard the repaired loop computes exactly what the old loop computed *)
Lemma range_end_fx_same fetch e startNo begin :
  0 < fetch -> e + fetch < W64 -> begin <= e ->
  startNo * fetch <= begin -> begin <= (startNo + 1) * fetch ->
  range_end_fx fetch e startNo = range_end fetch e startNo.
Proof.
  intros Hf Hw Hbe Hlo Hhi.
  rewrite (range_end_nowrap fetch e startNo begin Hf Hw Hbe Hlo Hhi).
  assert (Hs : startNo <= startNo * fetch) by nia.
  unfold range_end_fx. rewrite (wrap64_small (startNo + 1)) by (unfold W64 in *; lia).
  destruct (startNo + 1 =? 0) eqn:E0; [lia|].
  rewrite (mul_overflow_test _ _ Hf).
  assert (Hm : (startNo + 1) * fetch = startNo * fetch + fetch) by nia.
  assert (E1 : ((startNo + 1) * fetch <? W64) = true) by (apply N.ltb_lt; lia).
  rewrite E1, wrap64_small by lia. cbn [andb].
  destruct ((startNo + 1) * fetch <? e) eqn:E2; lia.
Qed.

(** * What SyncCFTBlocks emits with honest peers: every height of [b..e] exactly once, ascending *)
Lemma nseq_app x n m : nseq x (n + m) = nseq x n ++ nseq (x + N.of_nat n) m.
Proof.
  revert x. induction n as [|n IH]; intro x; cbn [nseq Nat.add app].
  - cbn [N.of_nat]. rewrite N.add_0_r. reflexivity.
  - rewrite IH. f_equal. f_equal. f_equal. rewrite Nat2N.inj_succ. lia.
Qed.

Theorem sync_emit_interval rs : forall b e, chain b e rs -> sync_emit rs = nseq b (N.to_nat (e + 1 - b)).
Proof.
  induction rs as [|[x y] t IH]; intros b e Hc; cbn [chain] in Hc.
  - subst b. replace (e + 1 - (e + 1)) with 0 by lia. reflexivity.
  - destruct Hc as [Hx [Hby [Hye Ht]]]. subst x. unfold sync_emit in *. cbn [flat_map]. rewrite (IH _ _ Ht).
    unfold expand. cbn [fst snd].
    replace (N.to_nat (e + 1 - b)) with (N.to_nat (y + 1 - b) + N.to_nat (e + 1 - (y + 1)))%nat by lia.
    rewrite nseq_app. do 2 f_equal. lia.
Qed.

Lemma covers_once_b_spec b e l : covers_once_b b e l = true <-> covers_once b e l.
Proof. unfold covers_once_b, covers_once. apply list_eqb_spec. intros x y. apply N.eqb_eq. Qed.
