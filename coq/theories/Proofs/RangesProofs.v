(** Proofs about [Model/Ranges.v]. *)
From BX Require Import Base.Prelude Model.Ranges.
From Coq Require Import ZifyBool ZifyN ZifyNat.
Local Open Scope N_scope.

Lemma chain_b_spec rs : forall b e, chain_b b e rs = true <-> chain b e rs.
Proof.
  induction rs as [|[x y] t IH]; intros b e; simpl.
  - rewrite N.eqb_eq. tauto.
  - rewrite !andb_true_iff, N.eqb_eq, !N.leb_le, IH. tauto.
Qed.

Lemma range_end_nowrap fetch e startNo begin :
  0 < fetch -> e + fetch < W64 -> begin <= e ->
  startNo * fetch <= begin -> begin <= (startNo + 1) * fetch ->
  range_end fetch e startNo = N.min e ((startNo + 1) * fetch).
Proof.
  intros Hf Hw Hbe Hlo Hhi.
  assert (Hs : startNo <= startNo * fetch) by nia.
  assert (Hm : (startNo + 1) * fetch = startNo * fetch + fetch) by nia.
  unfold range_end.
  rewrite (wrap64_small (startNo + 1)) by (unfold W64 in *; lia).
  rewrite wrap64_small by lia.
  destruct (e <? (startNo + 1) * fetch) eqn:E; lia.
Qed.

Lemma loop_ok fetch e : 0 < fetch -> e + fetch < W64 ->
  forall fuel begin startNo,
  (begin <= e -> startNo * fetch <= begin /\ begin <= (startNo + 1) * fetch) ->
  begin <= e + 1 -> (N.to_nat (e + 1 - begin) <= fuel)%nat ->
  exists rs, ranges_loop fuel fetch begin e startNo = Some rs /\ chain begin e rs.
Proof.
  intros Hf Hw fuel. induction fuel as [|k IH]; intros begin startNo Hinv Hb Hfuel.
  - simpl. destruct (e <? begin) eqn:E.
    + exists []. split; [reflexivity|]. simpl. lia.
    + lia.
  - simpl. destruct (e <? begin) eqn:E.
    + exists []. split; [reflexivity|]. simpl. lia.
    + assert (Hbe : begin <= e) by lia.
      destruct (Hinv Hbe) as [Hlo Hhi].
      rewrite (range_end_nowrap fetch e startNo begin Hf Hw Hbe Hlo Hhi).
      set (re := N.min e ((startNo + 1) * fetch)).
      assert (Hre1 : begin <= re) by (unfold re; lia).
      assert (Hre2 : re <= e) by (unfold re; lia).
      assert (Hs : startNo <= startNo * fetch) by nia.
      rewrite (wrap64_small (re + 1)) by (unfold W64 in *; lia).
      rewrite (wrap64_small (startNo + 1)) by (unfold W64 in *; lia).
      destruct (IH (re + 1) (startNo + 1)) as [rs [Hrs Hch]].
      * intro Hle. unfold re in *. split; nia.
      * lia.
      * lia.
      * rewrite Hrs. exists ((begin, re) :: rs). split; [reflexivity|].
        simpl. repeat split; try lia. exact Hch.
Qed.

(** The partition theorem: for every admissible (begin, end, fetch) the Go loop terminates
    and its result is a chain of non-empty, ascending, disjoint ranges covering exactly
    [begin..end].  The guard [e + fetch < 2^64] is exactly "no uint64 overflow". *)
Theorem ranges_partition fetch b e :
  0 < fetch -> b <= e -> e + fetch < W64 ->
  exists rs, calc_ranges (N.to_nat (e - b) + 1) fetch b e = ROk rs /\ chain b e rs.
Proof.
  intros Hf Hbe Hw. unfold calc_ranges.
  destruct (e <? b) eqn:E; [lia|].
  destruct (loop_ok fetch e Hf Hw (N.to_nat (e - b) + 1) b (b / fetch)) as [rs [H1 H2]].
  - intros _. pose proof (N.div_mod b fetch ltac:(lia)) as Hdm.
    pose proof (N.mod_lt b fetch ltac:(lia)) as Hml. split; nia.
  - lia.
  - lia.
  - rewrite H1. exists rs. split; [reflexivity | exact H2].
Qed.

(** more fuel never changes a finished result, so the harness's choice of fuel is immaterial *)
Lemma loop_fuel_mono fetch e fuel : forall begin startNo rs,
  ranges_loop fuel fetch begin e startNo = Some rs ->
  ranges_loop (S fuel) fetch begin e startNo = Some rs.
Proof.
  induction fuel as [|k IH]; intros begin startNo rs H.
  - simpl in *. destruct (e <? begin); [exact H | discriminate].
  - remember (S k) as sk. simpl. simpl in H. rewrite Heqsk in H. simpl in H. subst sk.
    destruct (e <? begin); [exact H|].
    destruct (ranges_loop k fetch _ e _) eqn:E; [|discriminate].
    apply IH in E. rewrite E. exact H.
Qed.

(** begin > end is refused *)
Lemma ranges_refused fuel fetch b e : e < b -> calc_ranges fuel fetch b e = RErr.
Proof. intro H. unfold calc_ranges. destruct (e <? b) eqn:E; [reflexivity|lia]. Qed.

(** a chain covers each height of [b..e] exactly once and nothing outside *)
Lemma chain_cover rs : forall b e h, chain b e rs ->
  cover_count h rs = if (b <=? h) && (h <=? e) then 1%nat else 0%nat.
Proof.
  induction rs as [|[x y] t IH]; intros b e h Hc; simpl in Hc.
  - unfold cover_count. simpl. destruct (b <=? h) eqn:E1, (h <=? e) eqn:E2; simpl; try reflexivity; lia.
  - destruct Hc as [Hx [Hby [Hye Ht]]]. subst x.
    pose proof (IH _ _ h Ht) as IHh.
    unfold cover_count in *. cbn [filter].
    unfold in_range at 1. cbn [fst snd].
    destruct (b <=? h) eqn:E1, (h <=? y) eqn:E2, (y + 1 <=? h) eqn:E3, (h <=? e) eqn:E4;
      cbn [andb length] in *; rewrite IHh; try reflexivity; lia.
Qed.

(** The overflow corner is real: with end near 2^64 the first range produced is descending. *)
Lemma ranges_overflow_refuted :
  exists fetch b e, 0 < fetch /\ b <= e /\ e < W64 /\
    ranges_loop 6 fetch b e (b / fetch) = None /\
    range_end fetch e (b / fetch) < b.
Proof.
  exists 4, (W64 - 3), (W64 - 2).
  split; [reflexivity|]. split; [discriminate|]. split; [reflexivity|].
  split; vm_compute; reflexivity.
Qed.
