(** Proofs for C16.  Part 1: facts about the generated state-machine tables (re-checked against
    the sources on every run).  Part 2: invariants of the lifecycle model over all histories. *)
From BX Require Import Base.Prelude Base.Fsm Model.Gate Model.Lifecycle.
From BXGen Require Import Gen_ObjFsm.
From Coq Require Import String.
Local Open Scope string_scope.

(** * Part 1: the generated tables *)

(** no entry of any table, for any value of lastStatus, has [forbidden] as a source ... *)
Definition no_exit_b (k : okind) : bool :=
  forallb (fun e : string * list string * string => negb (mem_s St_Forbidden (snd (fst e)))) (table k "").

Lemma forbidden_no_source_chain : no_exit_b KChain = true. Proof. vm_compute. reflexivity. Qed.
Lemma forbidden_no_source_svc : no_exit_b KSvc = true. Proof. vm_compute. reflexivity. Qed.
Lemma forbidden_no_source_role : no_exit_b KRole = true. Proof. vm_compute. reflexivity. Qed.
Lemma forbidden_no_source_node : no_exit_b KNode = true. Proof. vm_compute. reflexivity. Qed.
