(** Proofs for C16.
    Part 1: facts about the generated state-machine tables (re-checked against the sources on
            every run: a changed table makes them fail).
    Part 2: properties of the interpreter of the command language, by induction on programs;
            they hold for every program, hence for every operation.
    Part 3: the property over all histories. *)
From BX Require Import Base.Prelude Base.Fsm Model.Gate Model.Lifecycle.
From BXGen Require Import Gen_ObjFsm.
From Coq Require Import String.
From Coq Require Import ZifyBool ZifyN ZifyNat.
Local Open Scope string_scope.

(** * Part 1: the generated tables *)

Definition srcs_of (evs : fsm_events) : list string := flat_map (fun e : string * list string * string => snd (fst e)) evs.

Lemma in_table_src evs k d : In (k, d) (fsm_table evs) -> In (snd k) (srcs_of evs).
Proof.
  unfold fsm_table, srcs_of. intro H. apply in_flat_map in H. destruct H as [x [Hin Hm]]. destruct x as [[name srcs] dst].
  apply in_map_iff in Hm. destruct Hm as [s [Heq Hs]]. injection Heq as Hk Hd. rewrite <- Hk. simpl.
  apply in_flat_map. exists (name, srcs, dst). split; [exact Hin | exact Hs].
Qed.

(** an event can fire only from a status that some entry lists as a source *)
Lemma fire_src_listed evs cur ev d : fsm_fire evs cur ev = Some d -> In cur (srcs_of evs).
Proof.
  unfold fsm_fire, fsm_lookup. destruct (alookup_last fsm_key_eqb (ev, cur) (fsm_table evs)) as [x|] eqn:E; [|discriminate].
  intros _. apply alookup_last_in in E. apply in_table_src in E. exact E.
Qed.

Lemma mem_s_in s l : mem_s s l = true <-> In s l.
Proof.
  unfold mem_s. rewrite existsb_exists. split.
  - intros [x [Hx He]]. apply String.eqb_eq in He. subst. exact Hx.
  - intro H. exists s. split; [exact H | apply String.eqb_refl].
Qed.

(** whatever lastStatus is, the sources of a table are the same list *)
Lemma srcs_indep k last : srcs_of (table k last) = srcs_of (table k "").
Proof. destruct k; reflexivity. Qed.

(** [forbidden] is terminal for appchains, services, roles and nodes: no entry of the table, for any
    lastStatus, leaves it *)
Definition terminal_kind (k : okind) : bool := match k with KRule => false | _ => true end.

Lemma forbidden_not_source k : terminal_kind k = true -> mem_s St_Forbidden (srcs_of (table k "")) = false.
Proof. destruct k; intro H; try discriminate H; vm_compute; reflexivity. Qed.

Lemma forbidden_terminal k last ev : terminal_kind k = true -> fire k last St_Forbidden ev = None.
Proof.
  intro Hk. unfold fire. destruct (fsm_fire (table k last) St_Forbidden ev) as [d|] eqn:E; [|reflexivity].
  apply fire_src_listed in E. rewrite srcs_indep in E. apply mem_s_in in E.
  rewrite (forbidden_not_source k Hk) in E. discriminate E.
Qed.

(** a rule leaves [forbidden] only through the appchain's clear, to [unavailable] *)
Lemma in_edge_row (a ev d s e : string) (o : option string) :
  In (a, ev, d) (match o with Some dst => [(s, e, dst)] | None => [] end) -> a = s /\ ev = e /\ o = Some d.
Proof.
  destruct o as [x|]; simpl; [|tauto]. intros [H|[]]. inversion H; subst. tauto.
Qed.

Lemma rule_forbidden_exit last ev d : fire KRule last St_Forbidden ev = Some d -> ev = Ev_CLear /\ d = St_Unavailable.
Proof.
  unfold fire. intro H. apply fsm_fire_in_edges in H.
  unfold fsm_edges in H. apply in_flat_map in H. destruct H as [[[e s] x] [Hin Hm]].
  apply in_edge_row in Hm. destruct Hm as [Hs [He Hf]]. subst s e.
  cbn in Hin.
  repeat match goal with
         | H : _ \/ _ |- _ => destruct H
         | H : False |- _ => contradiction
         | H : (_, _, _) = (_, _, _) |- _ => inversion H; clear H
         end; subst; try discriminate.
  cbv in Hf. inversion Hf. split; reflexivity.
Qed.

(** the available sets: exactly available and freezing for appchains, services and roles; every
    available service status can be paused, pausing leads to [pause], which is not available *)
Lemma available_sets :
  appchain_available = [St_Available; St_Freezing] /\ service_available = [St_Available; St_Freezing] /\ role_available = [St_Available; St_Freezing].
Proof. repeat split; reflexivity. Qed.

Lemma pause_covers_available :
  forallb (fun s => pre_ok KSvc Ev_Pause s && option_eqb String.eqb (fire KSvc "" s Ev_Pause) (Some St_Pause)) service_available = true.
Proof. vm_compute. reflexivity. Qed.

Lemma pause_not_available : mem_s St_Pause service_available = false /\ mem_s St_Forbidden service_available = false.
Proof. split; vm_compute; reflexivity. Qed.

Lemma pre_ok_in k ev s : pre_ok k ev s = true -> exists l, alookup String.eqb ev (pre_map k) = Some l /\ In s l.
Proof.
  unfold pre_ok. destruct (alookup String.eqb ev (pre_map k)) as [l|]; [|discriminate].
  intro H. exists l. split; [reflexivity | apply mem_s_in; exact H].
Qed.

(** every status the pre-check map lets be paused goes to [pause] (for any lastStatus: the pause entry does not mention it) *)
Lemma pause_fires last s : pre_ok KSvc Ev_Pause s = true -> fire KSvc last s Ev_Pause = Some St_Pause.
Proof.
  intro H. apply pre_ok_in in H. destruct H as [l [Hl Hin]]. vm_compute in Hl. inversion Hl; subst l. simpl in Hin.
  repeat match goal with H : _ \/ _ |- _ => destruct H | H : False |- _ => contradiction end; subst; reflexivity.
Qed.

(** clear sends pause and logouting to forbidden *)
Lemma clear_fires last s : pre_ok KSvc Ev_CLear s = true -> fire KSvc last s Ev_CLear = Some St_Forbidden.
Proof.
  intro H. apply pre_ok_in in H. destruct H as [l [Hl Hin]]. vm_compute in Hl. inversion Hl; subst l. simpl in Hin.
  repeat match goal with H : _ \/ _ |- _ => destruct H | H : False |- _ => contradiction end; subst; reflexivity.
Qed.

(** the closure of the status graph: from [forbidden] only [forbidden] is reachable (appchain, service, role, node) *)
Lemma reach_forbidden_closed :
  forallb (fun k => forallb (fun b => negb (reach k St_Forbidden b) || String.eqb b St_Forbidden) ("" :: status_universe))
          [KChain; KSvc; KRole; KNode] = true.
Proof. vm_compute. reflexivity. Qed.

(** every edge of every table (for every lastStatus among the status constants) is in the closure that
    the judge uses: the closure is at least as large as the declared machine *)
Lemma reach_contains_edges :
  forallb (fun k => forallb (fun e : string * string => reach k (fst e) (snd e)) (kind_edges k ++ extra_edges k)) [KChain; KSvc; KRule; KRole; KNode] = true.
Proof. vm_compute. reflexivity. Qed.

(** * Part 2: the interpreter *)

(** ** association lists *)
Lemma aremove_other {V} (j i : N) (m : list (N * V)) : (j =? i)%N = false -> alookup N.eqb j (aremove N.eqb i m) = alookup N.eqb j m.
Proof.
  intro H. induction m as [|[k v] t IH]; [reflexivity|]. simpl.
  destruct (i =? k)%N eqn:E.
  - apply N.eqb_eq in E. subst k. rewrite H. exact IH.
  - simpl. destruct (j =? k)%N; [reflexivity | exact IH].
Qed.

Lemma nget_nset_same {V} (i : N) (v : V) m : nget i (nset i v m) = Some v.
Proof. unfold nget, nset, aset. simpl. rewrite N.eqb_refl. reflexivity. Qed.

Lemma nget_nset_other {V} (j i : N) (v : V) m : (j =? i)%N = false -> nget j (nset i v m) = nget j m.
Proof. intro H. unfold nget, nset, aset. simpl. rewrite H. apply aremove_other. exact H. Qed.

Lemma sget_sset_same i r m : sget i (sset i r m) = Some r.
Proof. apply nget_nset_same. Qed.
Lemma sget_sset_other j i r m : (j =? i)%N = false -> sget j (sset i r m) = sget j m.
Proof. apply nget_nset_other. Qed.

(** ** a relation closed under the primitive state changes is closed under [run] *)
Section RunRel.
  Variable R : state -> state -> Prop.
  Hypothesis R_refl : forall s, R s s.
  Hypothesis R_trans : forall a b c, R a b -> R b c -> R a c.
  Hypothesis R_fire_chain : forall s c a ev last b cause,
      nget c (chains s) = Some a -> fire KChain last a ev = Some b ->
      R s (add_log (mk_log KChain c c a ev last b cause) (upd_chains (nset c b) s)).
  Hypothesis R_fire_role : forall s r a ev last b cause,
      nget r (roles s) = Some a -> fire KRole last a ev = Some b ->
      R s (add_log (mk_log KRole r 0 a ev last b cause) (upd_roles (nset r b) s)).
  Hypothesis R_rules : forall s c l' e, l_kind e = KRule -> R s (add_log e (upd_rules (nset c l') s)).
  Hypothesis R_rules_nolog : forall s c l', R s (upd_rules (nset c l') s).
  Hypothesis R_new_chain : forall s c,
      nget c (chains s) = None ->
      R s (add_log (mk_log KChain c c "" Ev_Register "" St_Available CAUSE_CONCL) (upd_chains (nset c St_Available) s)).
  Hypothesis R_new_role : forall s r,
      nget r (roles s) = None -> R s (add_log (mk_log KRole r 0 "" "" "" St_Unavailable CAUSE_OP) (upd_roles (nset r St_Unavailable) s)).
  Hypothesis R_occ : forall s f, R s (upd_occ f s).
  Hypothesis R_gov : forall s f, R s (upd_props f s).
  Hypothesis R_post : forall s i r, sget i (svcs s) = Some r -> R s (upd_evs (fun e => (e ++ [(i, r)])%list) s).
  Hypothesis R_sfire : forall s i r ev last b cause,
      sget i (svcs s) = Some r -> fire KSvc last (sv_status r) ev = Some b ->
      R s (add_log (mk_log KSvc i (sv_chain r) (sv_status r) ev last b cause)
             (upd_svcs (sset i {| sv_chain := sv_chain r; sv_status := b; sv_black := sv_black r; sv_reg := sv_reg r |}) s)).
  Hypothesis R_snew : forall s i r,
      (match sget i (svcs s) with Some o => sv_status o | None => St_Unavailable end) = St_Unavailable ->
      R s (add_log (mk_log KSvc i (sv_chain r) St_Unavailable Ev_Register St_Unavailable St_Registing CAUSE_OP)
             (upd_svcs (sset i {| sv_chain := sv_chain r; sv_status := St_Registing; sv_black := sv_black r; sv_reg := false |}) s)).
  Hypothesis R_sblack : forall s i r b,
      sget i (svcs s) = Some r ->
      R s (upd_svcs (sset i {| sv_chain := sv_chain r; sv_status := sv_status r; sv_black := b; sv_reg := sv_reg r |}) s).
  Hypothesis R_sreg : forall s i r,
      sget i (svcs s) = Some r ->
      R s (upd_svcs (sset i {| sv_chain := sv_chain r; sv_status := sv_status r; sv_black := sv_black r; sv_reg := true |}) s).
  Hypothesis R_regl : forall s f, R s (upd_regl f s).

  Lemma run_rel : forall p cur s, R s (snd (run p cur s)).
  Proof.
    induction p; intros cur s; simpl; try (apply R_refl); try (apply H).
    - (* FireChain *)
      destruct (nget c (chains s)) as [a|] eqn:E; [|apply R_refl].
      destruct (fire KChain last a ev) as [b|] eqn:F; [|apply R_refl].
      eapply R_trans; [apply (R_fire_chain s c a ev last b cause E F) | apply IHp].
    - (* FireRole *)
      destruct (nget r (roles s)) as [a|] eqn:E; [|apply R_refl].
      destruct (fire KRole last a ev) as [b|] eqn:F; [|apply R_refl].
      eapply R_trans; [apply (R_fire_role s r a ev last b cause E F) | apply IHp].
    - (* FireRule *)
      destruct (nget c (rules s)) as [l|]; [|apply R_refl].
      destruct (negb (existsb (fun x : rule => (ru_id x =? r)%N) l)); [apply R_refl|].
      destruct (map_rule r _ l) as [l'|]; [|apply R_refl].
      eapply R_trans; [|apply IHp]. apply R_rules. reflexivity.
    - (* NewChain *)
      destruct (nget c (chains s)) eqn:E; [apply R_refl|].
      eapply R_trans; [apply (R_new_chain s c E) | apply IHp].
    - (* NewRules *) eapply R_trans; [apply R_rules_nolog | apply IHp].
    - (* AddRule *) eapply R_trans; [apply R_rules_nolog | apply IHp].
    - (* NewRole *)
      destruct (nget r (roles s)) as [a|] eqn:E.
      + destruct (String.eqb a St_Unavailable); [apply IHp | apply R_refl].
      + eapply R_trans; [apply (R_new_role s r E) | apply IHp].
    - (* SetOcc *) eapply R_trans; [apply R_occ | apply IHp].
    - (* Gov *) eapply R_trans; [apply R_gov | apply IHp].
    - (* Scope *)
      destruct (match cur with Some j => negb (j =? i)%N | None => false end); [apply R_refl|].
      pose proof (IHp1 (Some i) s) as H1. destruct (run p1 (Some i) s) as [ok s1]. simpl in H1.
      destruct ok; [|exact H1].
      unfold post. destruct (sget i (svcs s1)) as [r|] eqn:E; [|exact H1].
      eapply R_trans; [exact H1|]. eapply R_trans; [apply (R_post s1 i r E) | apply IHp2].
    - (* SFire *)
      destruct cur as [i|]; [|apply R_refl].
      destruct (sget i (svcs s)) as [r|] eqn:E; [|apply R_refl].
      destruct (fire KSvc last (sv_status r) ev) as [b|] eqn:F; [|apply R_refl].
      eapply R_trans; [apply (R_sfire s i r ev last b cause E F) | apply IHp].
    - (* SNew *)
      destruct cur as [i|]; [|apply R_refl].
      destruct (String.eqb (match sget i (svcs s) with Some o => sv_status o | None => St_Unavailable end) St_Unavailable) eqn:E; simpl; [|apply R_refl].
      apply String.eqb_eq in E. rewrite E.
      eapply R_trans; [apply (R_snew s i r E) | apply IHp].
    - (* SBlack *)
      destruct cur as [i|]; [|apply R_refl].
      destruct (sget i (svcs s)) as [r|] eqn:E; [|apply R_refl].
      eapply R_trans; [apply (R_sblack s i r b E) | apply IHp].
    - (* SReg *)
      destruct cur as [i|]; [|apply R_refl].
      destruct (sget i (svcs s)) as [r|] eqn:E; [|apply R_refl].
      destruct (memN i (reg_of (sv_chain r) s)).
      + eapply R_trans; [apply (R_sreg s i r E) | apply IHp].
      + eapply R_trans; [apply (R_sreg s i r E) |]. eapply R_trans; [apply R_regl | apply IHp].
  Qed.
End RunRel.

Ltac ssimpl := cbn [chains occ svcs regl rules roles props cache evs slog upd_chains upd_occ upd_svcs upd_regl upd_rules upd_roles
                    upd_props set_cache upd_evs add_log clear_tx l_kind l_id l_chain l_from l_ev l_last l_to l_cause mk_log
                    sv_chain sv_status sv_black sv_reg fst snd] in *.

(** ** instance 1: [run] does not touch the executor cache *)
Lemma run_cache p cur s : cache (snd (run p cur s)) = cache s.
Proof.
  apply (run_rel (fun a b => cache b = cache a)); intros; try reflexivity.
  congruence.
Qed.

(** ** instance 2: logged-out appchains, services and roles stay logged out *)
Definition forb_rel (s s' : state) : Prop :=
  (forall c, nget c (chains s) = Some St_Forbidden -> nget c (chains s') = Some St_Forbidden) /\
  (forall i r, sget i (svcs s) = Some r -> sv_status r = St_Forbidden -> exists r', sget i (svcs s') = Some r' /\ sv_status r' = St_Forbidden) /\
  (forall x, nget x (roles s) = Some St_Forbidden -> nget x (roles s') = Some St_Forbidden).

Lemma forb_rel_refl s : forb_rel s s.
Proof. repeat split; auto. intros i r H1 H2. exists r. auto. Qed.

Lemma forb_rel_trans a b c : forb_rel a b -> forb_rel b c -> forb_rel a c.
Proof.
  intros [A1 [A2 A3]] [B1 [B2 B3]]. repeat split; auto.
  intros i r H1 H2. destruct (A2 i r H1 H2) as [r' [H3 H4]]. apply (B2 i r' H3 H4).
Qed.

Lemma eqb_cases (j i : N) : (j =? i)%N = true \/ (j =? i)%N = false.
Proof. destruct (j =? i)%N; auto. Qed.

(** a service-record update that keeps, or does not start from, the forbidden status *)
Lemma forb_svc_update s i r r' :
  sget i (svcs s) = Some r -> (sv_status r = St_Forbidden -> sv_status r' = St_Forbidden) ->
  forall f, (forall t, svcs (f t) = svcs t /\ chains (f t) = chains t /\ roles (f t) = roles t) ->
  forb_rel s (f (upd_svcs (sset i r') s)).
Proof.
  intros E Hst f Hf. destruct (Hf (upd_svcs (sset i r') s)) as [F1 [F2 F3]].
  repeat split.
  - intros c H. rewrite F2. exact H.
  - intros j x H1 H2. rewrite F1. change (svcs (upd_svcs (sset i r') s)) with (sset i r' (svcs s)).
    destruct (eqb_cases j i) as [Hj|Hj].
    + apply N.eqb_eq in Hj. subst j. rewrite E in H1. inversion H1; subst x.
      exists r'. split; [apply sget_sset_same | apply Hst; exact H2].
    + exists x. split; [rewrite sget_sset_other; assumption | exact H2].
  - intros x H. rewrite F3. exact H.
Qed.

Lemma run_forbidden p cur s : forb_rel s (snd (run p cur s)).
Proof.
  apply run_rel.
  - apply forb_rel_refl.
  - apply forb_rel_trans.
  - (* fire chain *) intros s0 c a ev last b cause E F. repeat split; ssimpl; auto.
    + intros c' H. destruct (eqb_cases c' c) as [Hc|Hc].
      * apply N.eqb_eq in Hc. subst c'. rewrite E in H. inversion H; subst a.
        rewrite (forbidden_terminal KChain last ev eq_refl) in F. discriminate F.
      * rewrite nget_nset_other; assumption.
    + intros i r H1 H2. exists r. auto.
  - (* fire role *) intros s0 r a ev last b cause E F. repeat split; ssimpl; auto.
    + intros i x H1 H2. exists x. auto.
    + intros x H. destruct (eqb_cases x r) as [Hc|Hc].
      * apply N.eqb_eq in Hc. subst x. rewrite E in H. inversion H; subst a.
        rewrite (forbidden_terminal KRole last ev eq_refl) in F. discriminate F.
      * rewrite nget_nset_other; assumption.
  - intros. repeat split; ssimpl; auto. intros i r H1 H2. exists r. auto.
  - intros. repeat split; ssimpl; auto. intros i r H1 H2. exists r. auto.
  - (* new chain *) intros s0 c E. repeat split; ssimpl; auto.
    + intros c' H. destruct (eqb_cases c' c) as [Hc|Hc].
      * apply N.eqb_eq in Hc. subst c'. rewrite E in H. discriminate H.
      * rewrite nget_nset_other; assumption.
    + intros i r H1 H2. exists r. auto.
  - (* new role *) intros s0 r E. repeat split; ssimpl; auto.
    + intros i x H1 H2. exists x. auto.
    + intros x H. destruct (eqb_cases x r) as [Hc|Hc].
      * apply N.eqb_eq in Hc. subst x. rewrite E in H. discriminate H.
      * rewrite nget_nset_other; assumption.
  - intros. repeat split; ssimpl; auto. intros i r H1 H2. exists r. auto.
  - intros. repeat split; ssimpl; auto. intros i r H1 H2. exists r. auto.
  - intros. repeat split; ssimpl; auto. intros j x H1 H2. exists x. auto.
  - (* sfire *) intros s0 i r ev last b cause E F.
    apply (forb_svc_update s0 i r _ E); [|intro t; ssimpl; auto].
    ssimpl. intro H. rewrite H in F. rewrite (forbidden_terminal KSvc last ev eq_refl) in F. discriminate F.
  - (* snew *) intros s0 i r E.
    destruct (sget i (svcs s0)) as [o|] eqn:G.
    + apply (forb_svc_update s0 i o _ G); [|intro t; ssimpl; auto].
      intro H. rewrite H in E. discriminate E.
    + repeat split; ssimpl; auto.
      intros j x H1 H2. destruct (eqb_cases j i) as [Hj|Hj].
      * apply N.eqb_eq in Hj. subst j. rewrite G in H1. discriminate H1.
      * exists x. split; [rewrite sget_sset_other; assumption | exact H2].
  - (* sblack *) intros s0 i r b E. eapply (forb_svc_update s0 i r _ E) with (f := fun t => t); [ssimpl; auto | auto].
  - (* sreg *) intros s0 i r E. eapply (forb_svc_update s0 i r _ E) with (f := fun t => t); [ssimpl; auto | auto].
  - intros. repeat split; ssimpl; auto. intros i r H1 H2. exists r. auto.
Qed.

(** ** instance 3: every status change is logged, and every logged change is a firing of the generated table *)
Definition entry_ok (e : lentry) : Prop :=
  l_kind e = KRule \/ l_from e = "" \/ fire (l_kind e) (l_last e) (l_from e) (l_ev e) = Some (l_to e).

Definition chain_logged (ext : list lentry) (s s' : state) : Prop :=
  forall c, nget c (chains s') = nget c (chains s) \/ exists e, In e ext /\ l_kind e = KChain /\ l_id e = c.
Definition svc_logged (ext : list lentry) (s s' : state) : Prop :=
  forall i, option_map sv_status (sget i (svcs s')) = option_map sv_status (sget i (svcs s)) \/ exists e, In e ext /\ l_kind e = KSvc /\ l_id e = i.
Definition role_logged (ext : list lentry) (s s' : state) : Prop :=
  forall x, nget x (roles s') = nget x (roles s) \/ exists e, In e ext /\ l_kind e = KRole /\ l_id e = x.

Definition log_rel (s s' : state) : Prop :=
  exists ext, slog s' = (slog s ++ ext)%list /\ Forall entry_ok ext /\ chain_logged ext s s' /\ svc_logged ext s s' /\ role_logged ext s s'.

Lemma log_rel_refl s : log_rel s s.
Proof. exists []. rewrite app_nil_r. repeat split; auto; intro; left; reflexivity. Qed.

Lemma log_rel_trans a b c : log_rel a b -> log_rel b c -> log_rel a c.
Proof.
  intros [e1 [L1 [F1 [C1 [S1 X1]]]]] [e2 [L2 [F2 [C2 [S2 X2]]]]].
  exists (e1 ++ e2)%list. split; [rewrite L2, L1, app_assoc; reflexivity|].
  split; [apply Forall_app; auto|].
  split; [|split].
  - intro x. destruct (C2 x) as [H2|[e [Hi He]]]; [|right; exists e; split; [apply in_or_app; auto|exact He]].
    destruct (C1 x) as [H1|[e [Hi He]]]; [left; congruence | right; exists e; split; [apply in_or_app; auto|exact He]].
  - intro x. destruct (S2 x) as [H2|[e [Hi He]]]; [|right; exists e; split; [apply in_or_app; auto|exact He]].
    destruct (S1 x) as [H1|[e [Hi He]]]; [left; congruence | right; exists e; split; [apply in_or_app; auto|exact He]].
  - intro x. destruct (X2 x) as [H2|[e [Hi He]]]; [|right; exists e; split; [apply in_or_app; auto|exact He]].
    destruct (X1 x) as [H1|[e [Hi He]]]; [left; congruence | right; exists e; split; [apply in_or_app; auto|exact He]].
Qed.

(** a step that logs nothing and leaves every status alone *)
Lemma log_rel_silent s s' :
  slog s' = slog s -> chains s' = chains s -> roles s' = roles s ->
  (forall i, option_map sv_status (sget i (svcs s')) = option_map sv_status (sget i (svcs s))) -> log_rel s s'.
Proof.
  intros L C X S. exists []. rewrite app_nil_r. repeat split; auto.
  - intro c. left. rewrite C. reflexivity.
  - intro i. left. apply S.
  - intro x. left. rewrite X. reflexivity.
Qed.

(** a step that logs one entry about object (k, id) and changes the status of nothing else *)
Lemma log_rel_one s s' e :
  slog s' = (slog s ++ [e])%list -> entry_ok e ->
  (forall c, (l_kind e = KChain /\ l_id e = c) \/ nget c (chains s') = nget c (chains s)) ->
  (forall i, (l_kind e = KSvc /\ l_id e = i) \/ option_map sv_status (sget i (svcs s')) = option_map sv_status (sget i (svcs s))) ->
  (forall x, (l_kind e = KRole /\ l_id e = x) \/ nget x (roles s') = nget x (roles s)) ->
  log_rel s s'.
Proof.
  intros L Ok C S X. exists [e]. split; [exact L|]. split; [constructor; [exact Ok|constructor]|].
  split; [|split].
  - intro c. destruct (C c) as [[H1 H2]|H]; [right; exists e; split; [left; reflexivity | auto] | left; exact H].
  - intro i. destruct (S i) as [[H1 H2]|H]; [right; exists e; split; [left; reflexivity | auto] | left; exact H].
  - intro x. destruct (X x) as [[H1 H2]|H]; [right; exists e; split; [left; reflexivity | auto] | left; exact H].
Qed.

Lemma sstatus_other j i r m : (j =? i)%N = false -> option_map sv_status (sget j (sset i r m)) = option_map sv_status (sget j m).
Proof. intro H. rewrite sget_sset_other; auto. Qed.

Lemma run_logged p cur s : log_rel s (snd (run p cur s)).
Proof.
  apply run_rel.
  - apply log_rel_refl.
  - apply log_rel_trans.
  - (* fire chain *) intros s0 c a ev last b cause E F.
    apply (log_rel_one _ _ (mk_log KChain c c a ev last b cause)).
    + reflexivity.
    + right. right. exact F.
    + intro c'. ssimpl. destruct (eqb_cases c' c) as [H|H]; [left; apply N.eqb_eq in H; auto | right; apply nget_nset_other; exact H].
    + intro. right. reflexivity.
    + intro. right. reflexivity.
  - (* fire role *) intros s0 r a ev last b cause E F.
    apply (log_rel_one _ _ (mk_log KRole r 0 a ev last b cause)).
    + reflexivity.
    + right. right. exact F.
    + intro. right. reflexivity.
    + intro. right. reflexivity.
    + intro x. ssimpl. destruct (eqb_cases x r) as [H|H]; [left; apply N.eqb_eq in H; auto | right; apply nget_nset_other; exact H].
  - (* rules, logged *) intros s0 c l' e Hk. apply (log_rel_one _ _ e).
    + reflexivity.
    + left. exact Hk.
    + intro. right. reflexivity.
    + intro. right. reflexivity.
    + intro. right. reflexivity.
  - intros. apply log_rel_silent; reflexivity.
  - (* new chain *) intros s0 c E.
    apply (log_rel_one _ _ (mk_log KChain c c "" Ev_Register "" St_Available CAUSE_CONCL)).
    + reflexivity.
    + right. left. reflexivity.
    + intro c'. ssimpl. destruct (eqb_cases c' c) as [H|H]; [left; apply N.eqb_eq in H; auto | right; apply nget_nset_other; exact H].
    + intro. right. reflexivity.
    + intro. right. reflexivity.
  - (* new role *) intros s0 r E.
    apply (log_rel_one _ _ (mk_log KRole r 0 "" "" "" St_Unavailable CAUSE_OP)).
    + reflexivity.
    + right. left. reflexivity.
    + intro. right. reflexivity.
    + intro. right. reflexivity.
    + intro x. ssimpl. destruct (eqb_cases x r) as [H|H]; [left; apply N.eqb_eq in H; auto | right; apply nget_nset_other; exact H].
  - intros. apply log_rel_silent; reflexivity.
  - intros. apply log_rel_silent; reflexivity.
  - intros. apply log_rel_silent; reflexivity.
  - (* sfire *) intros s0 i r ev last b cause E F.
    apply (log_rel_one _ _ (mk_log KSvc i (sv_chain r) (sv_status r) ev last b cause)).
    + reflexivity.
    + right. right. exact F.
    + intro. right. reflexivity.
    + intro j. ssimpl. destruct (eqb_cases j i) as [H|H]; [left; apply N.eqb_eq in H; auto | right; apply sstatus_other; exact H].
    + intro. right. reflexivity.
  - (* snew *) intros s0 i r E.
    apply (log_rel_one _ _ (mk_log KSvc i (sv_chain r) St_Unavailable Ev_Register St_Unavailable St_Registing CAUSE_OP)).
    + reflexivity.
    + right. right. vm_compute. reflexivity.
    + intro. right. reflexivity.
    + intro j. ssimpl. destruct (eqb_cases j i) as [H|H]; [left; apply N.eqb_eq in H; auto | right; apply sstatus_other; exact H].
    + intro. right. reflexivity.
  - (* sblack *) intros s0 i r b E. apply log_rel_silent; try reflexivity.
    intro j. ssimpl. destruct (eqb_cases j i) as [H|H].
    + apply N.eqb_eq in H. subst j. rewrite sget_sset_same, E. reflexivity.
    + apply sstatus_other. exact H.
  - (* sreg *) intros s0 i r E. apply log_rel_silent; try reflexivity.
    intro j. ssimpl. destruct (eqb_cases j i) as [H|H].
    + apply N.eqb_eq in H. subst j. rewrite sget_sset_same, E. reflexivity.
    + apply sstatus_other. exact H.
  - intros. apply log_rel_silent; reflexivity.
Qed.

(** ** service records and the events that follow them
    [synced s0 s i]: the last Event_SERVICE event posted for service i by the running transaction carries
    the record as it is now; if none was posted the record is the one the transaction started with. *)
Definition last_ev (i : N) (E : list (N * svc)) : option svc := alookup_last N.eqb i E.

Lemma last_ev_app_same E i r : last_ev i (E ++ [(i, r)]) = Some r.
Proof.
  unfold last_ev. induction E as [|[k v] t IH]; simpl.
  - rewrite N.eqb_refl. reflexivity.
  - rewrite IH. reflexivity.
Qed.

Lemma last_ev_app_other E j i r : (j =? i)%N = false -> last_ev j (E ++ [(i, r)]) = last_ev j E.
Proof.
  intro H. unfold last_ev. induction E as [|[k v] t IH]; simpl.
  - rewrite H. reflexivity.
  - rewrite IH. reflexivity.
Qed.

Definition synced (s0 s : state) (i : N) : Prop :=
  match last_ev i (evs s) with
  | Some r => sget i (svcs s) = Some r
  | None => sget i (svcs s) = sget i (svcs s0)
  end.
Definition sync_inv (s0 : state) (cur : option N) (s : state) : Prop := forall i, cur <> Some i -> synced s0 s i.

Lemma sync_frame s0 cur s s' : svcs s' = svcs s -> evs s' = evs s -> sync_inv s0 cur s -> sync_inv s0 cur s'.
Proof. intros A B H i Hi. unfold synced. rewrite A, B. apply H. exact Hi. Qed.

(** a change of the record of the service in scope leaves the others as they are *)
Lemma sync_scoped s0 i s r' f :
  (forall t, svcs (f t) = svcs t /\ evs (f t) = evs t) ->
  sync_inv s0 (Some i) s -> sync_inv s0 (Some i) (f (upd_svcs (sset i r') s)).
Proof.
  intros Hf H j Hj. unfold synced. destruct (Hf (upd_svcs (sset i r') s)) as [A B]. rewrite A, B.
  change (svcs (upd_svcs (sset i r') s)) with (sset i r' (svcs s)).
  change (evs (upd_svcs (sset i r') s)) with (evs s).
  assert ((j =? i)%N = false) as Hji.
  { destruct (j =? i)%N eqn:E; [|reflexivity]. apply N.eqb_eq in E. subst j. exfalso. apply Hj. reflexivity. }
  rewrite (sget_sset_other j i r' (svcs s) Hji). apply H. exact Hj.
Qed.

Lemma run_sync s0 : forall p cur s, sync_inv s0 cur s -> fst (run p cur s) = true -> sync_inv s0 cur (snd (run p cur s)).
Proof.
  induction p; intros cur s Hinv Hok; simpl in *; try exact Hinv; try discriminate Hok; try (apply H; assumption).
  - (* FireChain *)
    destruct (nget c (chains s)) as [a|]; [|discriminate Hok].
    destruct (fire KChain last a ev) as [b|]; [|discriminate Hok].
    apply IHp; [|exact Hok]. eapply sync_frame; [| |exact Hinv]; reflexivity.
  - (* FireRole *)
    destruct (nget r (roles s)) as [a|]; [|discriminate Hok].
    destruct (fire KRole last a ev) as [b|]; [|discriminate Hok].
    apply IHp; [|exact Hok]. eapply sync_frame; [| |exact Hinv]; reflexivity.
  - (* FireRule *)
    destruct (nget c (rules s)) as [l|]; [|discriminate Hok].
    destruct (negb (existsb (fun x : rule => (ru_id x =? r)%N) l)); [discriminate Hok|].
    destruct (map_rule r _ l) as [l'|]; [|discriminate Hok].
    apply IHp; [|exact Hok]. eapply sync_frame; [| |exact Hinv]; reflexivity.
  - (* NewChain *)
    destruct (nget c (chains s)); [discriminate Hok|].
    apply IHp; [|exact Hok]. eapply sync_frame; [| |exact Hinv]; reflexivity.
  - apply IHp; [|exact Hok]. eapply sync_frame; [| |exact Hinv]; reflexivity.
  - apply IHp; [|exact Hok]. eapply sync_frame; [| |exact Hinv]; reflexivity.
  - (* NewRole *)
    destruct (nget r (roles s)) as [a|].
    + destruct (String.eqb a St_Unavailable); [apply IHp; assumption | discriminate Hok].
    + apply IHp; [|exact Hok]. eapply sync_frame; [| |exact Hinv]; reflexivity.
  - apply IHp; [|exact Hok]. eapply sync_frame; [| |exact Hinv]; reflexivity.
  - apply IHp; [|exact Hok]. eapply sync_frame; [| |exact Hinv]; reflexivity.
  - (* Scope *)
    destruct (match cur with Some j => negb (j =? i)%N | None => false end) eqn:Hc; [discriminate Hok|].
    assert (Hin : sync_inv s0 (Some i) s).
    { intros j Hj. apply Hinv. destruct cur as [c|]; [|discriminate].
      apply negb_false_iff in Hc. apply N.eqb_eq in Hc. subst c. exact Hj. }
    pose proof (IHp1 (Some i) s Hin) as H1.
    destruct (run p1 (Some i) s) as [ok s1]. simpl in H1.
    destruct ok; [|discriminate Hok]. specialize (H1 eq_refl).
    unfold post in *. destruct (sget i (svcs s1)) as [r|] eqn:E; [|discriminate Hok].
    apply IHp2; [|exact Hok].
    (* after the post every service is in sync *)
    intros j _. unfold synced.
    change (evs (upd_evs (fun e : list (N * svc) => (e ++ [(i, r)])%list) s1)) with (evs s1 ++ [(i, r)])%list.
    change (svcs (upd_evs (fun e : list (N * svc) => (e ++ [(i, r)])%list) s1)) with (svcs s1).
    destruct (eqb_cases j i) as [Hj|Hj].
    + apply N.eqb_eq in Hj. subst j. rewrite last_ev_app_same. exact E.
    + rewrite (last_ev_app_other _ _ _ _ Hj). apply H1. intro Hx. inversion Hx; subst. rewrite N.eqb_refl in Hj. discriminate Hj.
  - (* SFire *)
    destruct cur as [i|]; [|discriminate Hok].
    destruct (sget i (svcs s)) as [r|]; [|discriminate Hok].
    destruct (fire KSvc last (sv_status r) ev) as [b|]; [|discriminate Hok].
    apply IHp; [|exact Hok].
    apply (sync_scoped s0 i s _ (add_log _)); [intro t; split; reflexivity | exact Hinv].
  - (* SNew *)
    destruct cur as [i|]; [|discriminate Hok].
    destruct (negb _); [discriminate Hok|].
    apply IHp; [|exact Hok].
    apply (sync_scoped s0 i s _ (add_log _)); [intro t; split; reflexivity | exact Hinv].
  - (* SBlack *)
    destruct cur as [i|]; [|discriminate Hok].
    destruct (sget i (svcs s)) as [r|]; [|discriminate Hok].
    apply IHp; [|exact Hok].
    apply (sync_scoped s0 i s _ (fun t => t)); [intro t; split; reflexivity | exact Hinv].
  - (* SReg *)
    destruct cur as [i|]; [|discriminate Hok].
    destruct (sget i (svcs s)) as [r|]; [|discriminate Hok].
    apply IHp; [|exact Hok].
    destruct (memN i (reg_of (sv_chain r) s)).
    + apply (sync_scoped s0 i s _ (fun t => t)); [intro t; split; reflexivity | exact Hinv].
    + apply (sync_scoped s0 i s _ (upd_regl _)); [intro t; split; reflexivity | exact Hinv].
Qed.

Lemma apply_events_get ck E : key_inj ck -> forall c i,
  sget (ck i) (apply_events ck E c) = match last_ev i E with Some r => Some r | None => sget (ck i) c end.
Proof.
  intro Hk. unfold apply_events, last_ev. induction E as [|[k v] t IH]; intros c i; simpl; [reflexivity|].
  rewrite IH. destruct (alookup_last N.eqb i t) as [r|]; [reflexivity|].
  destruct (eqb_cases i k) as [H|H]; rewrite H.
  - apply N.eqb_eq in H. subst k. apply sget_sset_same.
  - apply sget_sset_other. apply N.eqb_neq. intro E. apply Hk in E. apply N.eqb_neq in H. congruence.
Qed.

Lemma rekey_get ck : key_inj ck -> forall m i, sget (ck i) (rekey ck m) = sget i m.
Proof.
  intro Hk. unfold sget, rekey. induction m as [|[k v] t IH]; intro i; simpl; [reflexivity|].
  destruct (eqb_cases i k) as [H|H]; rewrite H.
  - apply N.eqb_eq in H. subst k. rewrite N.eqb_refl. reflexivity.
  - assert (E : (ck i =? ck k)%N = false).
    { apply N.eqb_neq. intro E. apply Hk in E. apply N.eqb_neq in H. congruence. }
    rewrite E. apply IH.
Qed.

(** the case-folding key is not injective *)
Lemma fold_key_not_inj : ~ key_inj fold_key.
Proof. intro H. specialize (H 28%N 29%N eq_refl). discriminate H. Qed.

(** * Part 3: over all histories *)

(** the cache never disagrees with the stored record (as long as events of failed transactions are not applied) *)
Definition cache_ok (f : cfg) (s : state) : Prop := forall i r, sget (d_cache_key f i) (cache s) = Some r -> sget i (svcs s) = Some r.
Definition committed (s : state) : Prop := evs s = [] /\ slog s = [].

Lemma commit_keeps f s p :
  d_cache_failed_events f = false -> key_inj (d_cache_key f) -> cache_ok f s -> committed s ->
  let '(ok, w) := run p None s in
  let s' := if ok then clear_tx (set_cache (apply_events (d_cache_key f) (evs w) (cache w)) w)
            else if d_cache_failed_events f then set_cache (apply_events (d_cache_key f) (evs w) (cache s)) s else s in
  cache_ok f s' /\ committed s'.
Proof.
  intros Hf Hk Hc [He Hl].
  pose proof (run_sync s p None s) as HS. pose proof (run_cache p None s) as HC.
  destruct (run p None s) as [ok w]. simpl in HS, HC.
  destruct ok.
  - split; [|split; reflexivity].
    assert (Hinit : sync_inv s None s).
    { intros i _. unfold synced. rewrite He. reflexivity. }
    specialize (HS Hinit eq_refl).
    intros i r. ssimpl. rewrite (apply_events_get _ _ Hk), HC.
    specialize (HS i). unfold synced in HS.
    destruct (last_ev i (evs w)) as [x|].
    + intro H. inversion H; subst x. apply HS. discriminate.
    + intro H. rewrite HS; [apply Hc; exact H | discriminate].
  - rewrite Hf. split; [exact Hc | split; assumption].
Qed.

Lemma step_keeps f s o :
  d_cache_failed_events f = false -> key_inj (d_cache_key f) -> cache_ok f s -> committed s ->
  cache_ok f (r_state (step f s o)) /\ committed (r_state (step f s o)).
Proof.
  intros Hf Hk Hc Hm.
  assert (Hrun : forall p,
             cache_ok f (r_state (let '(ok, w) := run p None s in
                                if ok then {| r_ok := true; r_out := 9; r_log := slog w; r_state := clear_tx (set_cache (apply_events (d_cache_key f) (evs w) (cache w)) w) |}
                                else {| r_ok := false; r_out := 9; r_log := [];
                                        r_state := if d_cache_failed_events f then set_cache (apply_events (d_cache_key f) (evs w) (cache s)) s else s |})) /\
             committed (r_state (let '(ok, w) := run p None s in
                                if ok then {| r_ok := true; r_out := 9; r_log := slog w; r_state := clear_tx (set_cache (apply_events (d_cache_key f) (evs w) (cache w)) w) |}
                                else {| r_ok := false; r_out := 9; r_log := [];
                                        r_state := if d_cache_failed_events f then set_cache (apply_events (d_cache_key f) (evs w) (cache s)) s else s |}))).
  { intro p. pose proof (commit_keeps f s p Hf Hk Hc Hm) as H. destruct (run p None s) as [ok w]. destruct ok; exact H. }
  destruct o; try (apply Hrun).
  - (* request *) simpl. split; assumption.
  - (* restart *) simpl. destruct Hm as [He Hl]. split; [|split; assumption].
    destruct (d_cache_not_reloaded f); intros i r H; ssimpl; [discriminate H | rewrite (rekey_get _ Hk) in H; exact H].
Qed.

Lemma run_ops_keeps f h : forall s,
  d_cache_failed_events f = false -> key_inj (d_cache_key f) -> cache_ok f s -> committed s -> cache_ok f (run_ops f s h) /\ committed (run_ops f s h).
Proof.
  induction h as [|o t IH]; intros s Hf Hk Hc Hm; simpl; [split; assumption|].
  destruct (step_keeps f s o Hf Hk Hc Hm) as [A B]. apply IH; assumption.
Qed.

Lemma st0_ok f : cache_ok f st0 /\ committed st0.
Proof. split; [intros i r H; discriminate H | split; reflexivity]. Qed.

(** the gate decides on the stored records *)
Lemma gate_ext v v' src dst : v src = v' src -> v dst = v' dst -> gate v src dst = gate v' src dst.
Proof. intros A B. unfold gate, src_ok, dst_ok. rewrite A, B. reflexivity. Qed.

Lemma view_ok f s i : cache_ok f s -> view (d_cache_key f) (cache s) (svcs s) i = sget i (svcs s).
Proof.
  intro H. unfold view. destruct (sget (d_cache_key f i) (cache s)) as [r|] eqn:E; [|reflexivity].
  symmetry. apply H. exact E.
Qed.

Lemma gate_sound_gate ledger src dst : gate_sound ledger src dst (gate (fun i => sget i ledger) src dst) = true.
Proof.
  unfold gate, gate_sound.
  destruct (src_ok (fun i : N => sget i ledger) src) eqn:A; cbn [negb]; [|reflexivity].
  destruct (dst_ok (fun i : N => sget i ledger) src dst) eqn:B; reflexivity.
Qed.

Lemma gate_theorem f h src dst :
  d_cache_failed_events f = false -> key_inj (d_cache_key f) ->
  let s := run_ops f st0 h in gate_sound (svcs s) src dst (ibtp_outcome f s src dst) = true.
Proof.
  intros Hf Hk s. destruct (run_ops_keeps f h st0 Hf Hk (proj1 (st0_ok f)) (proj2 (st0_ok f))) as [Hc _]. fold s in Hc.
  unfold ibtp_outcome. destruct (negb (proof_ok s src)); [reflexivity|].
  rewrite (gate_ext _ (fun i => sget i (svcs s)) src dst (view_ok f s src Hc) (view_ok f s dst Hc)).
  apply gate_sound_gate.
Qed.

(** ** logged out forever *)
Lemma forb_rel_tx s w c : forb_rel s w -> forb_rel s (clear_tx (set_cache c w)).
Proof. intros [A [B C]]. repeat split; ssimpl; assumption. Qed.

Lemma step_forbidden f s o : forb_rel s (r_state (step f s o)).
Proof.
  assert (Hrun : forall p,
             forb_rel s (r_state (let '(ok, w) := run p None s in
                                  if ok then {| r_ok := true; r_out := 9; r_log := slog w; r_state := clear_tx (set_cache (apply_events (d_cache_key f) (evs w) (cache w)) w) |}
                                  else {| r_ok := false; r_out := 9; r_log := [];
                                          r_state := if d_cache_failed_events f then set_cache (apply_events (d_cache_key f) (evs w) (cache s)) s else s |}))).
  { intro p. pose proof (run_forbidden p None s) as H. destruct (run p None s) as [ok w]. simpl in H.
    destruct ok; ssimpl.
    - apply forb_rel_tx. exact H.
    - destruct (d_cache_failed_events f); [|apply forb_rel_refl].
      repeat split; ssimpl; auto. intros i r H1 H2. exists r. auto. }
  destruct o; try (apply Hrun).
  - simpl. apply forb_rel_refl.
  - simpl. repeat split; ssimpl; auto. intros i r H1 H2. exists r. auto.
Qed.

Lemma run_ops_forbidden f h : forall s, forb_rel s (run_ops f s h).
Proof.
  induction h as [|o t IH]; intro s; simpl; [apply forb_rel_refl|].
  eapply forb_rel_trans; [apply step_forbidden | apply IH].
Qed.

(** a logged-out service is never let through as a source (flags off) *)
Lemma forbidden_source_refused f h src dst r :
  d_cache_failed_events f = false -> key_inj (d_cache_key f) ->
  let s := run_ops f st0 h in
  sget src (svcs s) = Some r -> sv_status r = St_Forbidden ->
  ibtp_outcome f s src dst = ORejSrc \/ ibtp_outcome f s src dst = OProof.
Proof.
  intros Hf Hk s Hr Hst. destruct (run_ops_keeps f h st0 Hf Hk (proj1 (st0_ok f)) (proj2 (st0_ok f))) as [Hc _]. fold s in Hc.
  unfold ibtp_outcome. destruct (negb (proof_ok s src)); [right; reflexivity|]. left.
  unfold gate, src_ok. rewrite (view_ok f s src Hc), Hr. unfold svc_avail. rewrite Hst. reflexivity.
Qed.

(** ** every status change of a step is logged, every logged change is a firing of the generated table;
    requests and restarts change no status *)
Lemma step_logged f s o :
  committed s ->
  let r := step f s o in
  Forall entry_ok (r_log r) /\ chain_logged (r_log r) s (r_state r) /\ svc_logged (r_log r) s (r_state r) /\ role_logged (r_log r) s (r_state r).
Proof.
  intros [He Hl].
  assert (Hnone : forall s', chains s' = chains s -> svcs s' = svcs s -> roles s' = roles s ->
                             Forall entry_ok [] /\ chain_logged [] s s' /\ svc_logged [] s s' /\ role_logged [] s s').
  { intros s' A B C. split; [constructor|]. split; [|split]; intro x; left; rewrite ?A, ?B, ?C; reflexivity. }
  assert (Hrun : forall p,
             let r := (let '(ok, w) := run p None s in
                       if ok then {| r_ok := true; r_out := 9; r_log := slog w; r_state := clear_tx (set_cache (apply_events (d_cache_key f) (evs w) (cache w)) w) |}
                       else {| r_ok := false; r_out := 9; r_log := [];
                               r_state := if d_cache_failed_events f then set_cache (apply_events (d_cache_key f) (evs w) (cache s)) s else s |}) in
             Forall entry_ok (r_log r) /\ chain_logged (r_log r) s (r_state r) /\ svc_logged (r_log r) s (r_state r) /\ role_logged (r_log r) s (r_state r)).
  { intro p. pose proof (run_logged p None s) as H. destruct (run p None s) as [ok w]. simpl in H.
    destruct ok; ssimpl.
    - destruct H as [ext [L [F [C [S X]]]]]. rewrite Hl in L. simpl in L. rewrite L.
      split; [exact F|]. split; [|split]; intro x; ssimpl; [apply C | apply S | apply X].
    - destruct (d_cache_failed_events f); apply Hnone; reflexivity. }
  destruct o; try (apply Hrun).
  - simpl. apply Hnone; reflexivity.
  - simpl. apply Hnone; reflexivity.
Qed.

(** ** cascade: an approved freeze of an appchain pauses every registered service *)
Definition unav (s : state) (i : N) : Prop :=
  match sget i (svcs s) with Some r => svc_avail r = false | None => True end.

Lemma not_pausable_unavailable st : pre_ok KSvc Ev_Pause st = false -> mem_s st service_available = false.
Proof.
  intro H. destruct (mem_s st service_available) eqn:E; [|reflexivity].
  apply mem_s_in in E. pose proof pause_covers_available as A. rewrite forallb_forall in A.
  specialize (A st E). apply andb_true_iff in A. destruct A as [A _]. rewrite A in H. discriminate H.
Qed.

Lemma run_pause_body i c s :
  exists s1, run (pause_service i c Ret) (Some i) s = (true, s1) /\
             chains s1 = chains s /\ regl s1 = regl s /\
             svcs s1 = match sget i (svcs s) with
                       | Some x => if pre_ok KSvc Ev_Pause (sv_status x)
                                   then sset i {| sv_chain := sv_chain x; sv_status := St_Pause; sv_black := sv_black x; sv_reg := sv_reg x |} (svcs s)
                                   else svcs s
                       | None => svcs s
                       end.
Proof.
  unfold pause_service, lock_svc. cbn [run].
  destruct (sget i (svcs s)) as [x|] eqn:E.
  - destruct (pre_ok KSvc Ev_Pause (sv_status x)) eqn:P.
    + cbn [run]. rewrite E. rewrite (pause_fires "" _ P). cbn [run]. eexists. split; [reflexivity|]. repeat split; reflexivity.
    + cbn [run]. eexists. split; [reflexivity|]. repeat split; reflexivity.
  - cbn [run]. eexists. split; [reflexivity|]. repeat split; reflexivity.
Qed.

Lemma unav_after_pause i j s s1 :
  svcs s1 = match sget i (svcs s) with
            | Some x => if pre_ok KSvc Ev_Pause (sv_status x)
                        then sset i {| sv_chain := sv_chain x; sv_status := St_Pause; sv_black := sv_black x; sv_reg := sv_reg x |} (svcs s)
                        else svcs s
            | None => svcs s
            end ->
  (j = i \/ unav s j) -> unav s1 j.
Proof.
  intros Hs Hj. unfold unav in *. rewrite Hs.
  destruct (sget i (svcs s)) as [x|] eqn:E.
  - destruct (pre_ok KSvc Ev_Pause (sv_status x)) eqn:P.
    + destruct (eqb_cases j i) as [H|H].
      * apply N.eqb_eq in H. subst j. rewrite sget_sset_same. unfold svc_avail. cbn [sv_status]. apply (proj1 pause_not_available).
      * rewrite (sget_sset_other j i _ _ H). destruct Hj as [Hj|Hj]; [subst j; rewrite N.eqb_refl in H; discriminate H | exact Hj].
    + destruct Hj as [Hj|Hj]; [|exact Hj]. subst j. rewrite E. unfold svc_avail. apply not_pausable_unavailable. exact P.
  - destruct Hj as [Hj|Hj]; [subst j; rewrite E; exact I | exact Hj].
Qed.

Lemma each_pause_unav c : forall ids s s',
  run (each_service ids (fun i => pause_service i c) Ret) None s = (true, s') ->
  (forall i, In i ids -> unav s' i) /\ (forall i, unav s i -> unav s' i) /\ chains s' = chains s /\ regl s' = regl s.
Proof.
  induction ids as [|i t IH]; intros s s' H.
  - simpl in H. inversion H; subst. repeat split; auto. intros i [].
  - cbn [each_service run] in H.
    destruct (run_pause_body i c s) as [s1 [R1 [C1 [G1 S1]]]]. rewrite R1 in H.
    unfold post in H. destruct (sget i (svcs s1)) as [r|] eqn:E; [|discriminate H].
    specialize (IH _ _ H). destruct IH as [A [B [C G]]].
    assert (Hsv : forall j, (j = i \/ unav s j) -> unav (upd_evs (fun e : list (N * svc) => (e ++ [(i, r)])%list) s1) j).
    { intros j Hj. unfold unav. change (svcs (upd_evs (fun e : list (N * svc) => (e ++ [(i, r)])%list) s1)) with (svcs s1).
      apply (unav_after_pause i j s s1 S1 Hj). }
    repeat split.
    + intros j [Hj|Hj]; [subst j; apply B; apply Hsv; left; reflexivity | apply A; exact Hj].
    + intros j Hj. apply B. apply Hsv. right. exact Hj.
    + rewrite C. exact C1.
    + rewrite G. exact G1.
Qed.

(** AppchainManager.Manage(freeze, approve): afterwards no registered service of the appchain is available,
    whatever their statuses were *)
Lemma cascade_freeze f last c s s' :
  run (chain_manage f Ev_Freeze Ev_Approve last c Ret) None s = (true, s') ->
  forall i, In i (reg_of c s) -> unav s' i.
Proof.
  unfold chain_manage. cbn [String.eqb Ev_Freeze Ev_Approve Ev_Register Ev_Update Ascii.eqb Bool.eqb].
  change (String.eqb Ev_Freeze Ev_Register) with false. change (String.eqb Ev_Approve Ev_Approve) with true.
  change (String.eqb Ev_Freeze Ev_Update) with false. change (String.eqb Ev_Freeze Ev_Freeze) with true.
  cbn iota. cbn [run].
  destruct (nget c (chains s)) as [a|]; [|discriminate].
  destruct (fire KChain last a Ev_Approve) as [b|]; [|discriminate].
  unfold pause_chain_services. cbn [run].
  intros H i Hi. apply each_pause_unav in H. destruct H as [A _]. apply A.
  unfold reg_of in *. exact Hi.
Qed.

(** the same at the level of a history step: concluding (approving) an appchain freeze proposal *)
Lemma step_cascade_freeze f s k p pid :
  nth_open false k (props s) = Some pid -> nth_error (props s) (N.to_nat pid) = Some p ->
  p_kind p = KChain -> p_event p = Ev_Freeze ->
  r_ok (step f s (OConclude k true)) = true ->
  forall i, In i (reg_of (p_obj p) s) -> unav (r_state (step f s (OConclude k true))) i.
Proof.
  intros Hk Hp Kk Ke. unfold step, prog_of. cbn [run]. rewrite Hk. unfold conclude. cbn [run]. rewrite Hp.
  destruct (negb _); [cbn [run]; intro H; discriminate H|].
  cbn [run].
  assert (Hm : forall s0, chains s0 = chains s -> svcs s0 = svcs s -> regl s0 = regl s ->
                          forall ok w, run (manage f p Ev_Approve Ret) None s0 = (ok, w) -> ok = true ->
                                       forall i, In i (reg_of (p_obj p) s) -> unav w i).
  { intros s0 A B C ok w H Hok i Hi. subst ok. unfold manage in H. rewrite Kk, Ke in H.
    apply (cascade_freeze f (p_last p) (p_obj p) s0 w H). unfold reg_of in *. rewrite C. exact Hi. }
  destruct (p_lock p) as [l|].
  - destruct (nth_error (props s) (N.to_nat l)) as [lp|]; [|cbn [run]; intro H; discriminate H].
    cbn [run].
    destruct (run (manage f p Ev_Approve Ret) None _) as [ok w] eqn:R.
    destruct ok; cbn [r_ok r_state]; [|intro H; discriminate H].
    intros _ i Hi. unfold unav. ssimpl. eapply Hm; [| | | exact R | reflexivity | exact Hi]; reflexivity.
  - destruct (run (manage f p Ev_Approve Ret) None _) as [ok w] eqn:R.
    destruct ok; cbn [r_ok r_state]; [|intro H; discriminate H].
    intros _ i Hi. unfold unav. ssimpl. eapply Hm; [| | | exact R | reflexivity | exact Hi]; reflexivity.
Qed.

(** ** refutations on the faithful model (flags on) and non-vacuity *)
Definition setup : list op :=
  [ORegChain 1; OConclude 0 true; ORegChain 2; OConclude 0 true; ORegSvc 1 10 []; OConclude 0 true; ORegSvc 2 20 []; OConclude 0 true]%N.

(** freeze approved, logout submitted, logout rejected: the appchain is frozen again, its service available, the request passes *)
Definition h_logout_reject : list op := (setup ++ [OChainOp 1 1; OConclude 0 true; OChainOp 3 1; OConclude 0 false; OIbtp 10 20])%list.

Lemma logout_reject_refuted :
  P_b h_logout_reject (model_trace (cfg_of_bits false false true) h_logout_reject) = false.
Proof. vm_compute. reflexivity. Qed.

Lemma logout_reject_fixed : P_b h_logout_reject (model_trace cfg_fixed h_logout_reject) = true.
Proof. vm_compute. reflexivity. Qed.

(** a service with a locked activate proposal makes the approval of the appchain's activation fail after
    the first service's "available" record was posted: with the events of failed transactions applied the
    cache lets the (stored: paused) service through *)
Definition h_stale_cache : list op :=
  (setup ++ [ORegSvc 1 11 []; OConclude 0 true; OSvcOp 1 11 []; OConclude 0 true; OSvcOp 2 11 []; OChainOp 1 1; OConclude 0 true;
             OChainOp 2 1; OConclude 0 true; OIbtp 10 20])%list.

Lemma stale_cache_refuted :
  P_b h_stale_cache (model_trace (cfg_of_bits true true false) h_stale_cache) = false.
Proof. vm_compute. reflexivity. Qed.

Lemma stale_cache_fixed : P_b h_stale_cache (model_trace cfg_fixed h_stale_cache) = true.
Proof. vm_compute. reflexivity. Qed.

(** not reloading the cache at start is harmless for the property on its own: a miss falls back to the store *)
Lemma no_reload_harmless f h src dst :
  d_cache_failed_events f = false -> key_inj (d_cache_key f) ->
  let s := run_ops f st0 h in gate_sound (svcs s) src dst (ibtp_outcome f s src dst) = true.
Proof. exact (gate_theorem f h src dst). Qed.

(** ... but together with a stale entry a restarted node and a running node answer differently *)
Lemma restart_divergence :
  let f := cfg_of_bits true true false in
  let h := firstn 17 h_stale_cache in
  ibtp_outcome f (run_ops f st0 h) 10 20 <> ibtp_outcome f (run_ops f st0 (h ++ [ORestart])) 10 20.
Proof. vm_compute. discriminate. Qed.

(** non-vacuity: requests are accepted, refused at the source, and recorded as begin-failure *)
Example gate_example :
  map r_out (trace cfg_fixed st0 (setup ++ [OIbtp 10 20; OSvcBlack 20 [10]; OIbtp 10 20; OSvcOp 1 10 []; OConclude 0 true; OIbtp 10 20]))%N
  = [9; 9; 9; 9; 9; 9; 9; 9; 0; 9; 1; 9; 9; 2]%N.
Proof. vm_compute. reflexivity. Qed.

Example cascade_example :
  map (fun e : N * svc => (fst e, sv_status (snd e))) (ob_svcs (obs_of (last (trace cfg_fixed st0 (setup ++ [OChainOp 1 1; OConclude 0 true]))
                                                                           {| r_ok := true; r_out := 9; r_log := []; r_state := st0 |})))
  = [(10, St_Pause); (20, St_Available)]%N.
Proof. vm_compute. reflexivity. Qed.

Example forever_example :
  let h := (setup ++ [OSvcOp 3 10 []; OConclude 0 true; OSvcOp 2 10 []; ORegSvc 1 10 []; OIbtp 10 20])%list in
  map (fun r => (r_ok r, r_out r)) (skipn 9 (trace cfg_fixed st0 h)) = [(true, 9); (false, 9); (false, 9); (true, 2)]%N.
Proof. vm_compute. reflexivity. Qed.

(** ** the trace predicate as a proposition *)
Inductive P_from : list (op * bool * bool * bool) -> obs -> list obs -> Prop :=
| P_end_ops prev tr : P_from [] prev tr
| P_end_tr h prev : P_from h prev []
| P_step o chk lst strict h ob tr prev :
    (chk = true -> gate_obs o ob = true) -> declared_step prev ob = true -> forever_step prev ob = true -> cascade_obs ob = true ->
    (strict = true -> logout_step prev ob = true) -> (is_rolevote o = true -> ob_ok ob = false) ->
    P_from h ob tr -> P_from ((o, chk, lst, strict) :: h) prev (ob :: tr).

Lemma P_trace_from_spec : forall h prev tr i, P_trace_from h prev tr i = 0%N <-> P_from h prev tr.
Proof.
  induction h as [|[[[o chk] lst] strict] h IH]; intros prev tr i.
  - cbn [P_trace_from]. split; [intros _; constructor | reflexivity].
  - destruct tr as [|ob tr]; cbn [P_trace_from].
    + split; [intros _; constructor | reflexivity].
    + destruct (chk && negb (gate_obs o ob)) eqn:G.
      { split; [intro H; exfalso; lia | intro H; inversion H; subst].
        apply andb_true_iff in G. destruct G as [G1 G2].
        match goal with Hg : chk = true -> gate_obs o ob = true |- _ => rewrite (Hg G1) in G2 end. discriminate G2. }
      destruct (declared_step prev ob) eqn:D; cbn [negb].
      2:{ split; [intro H; exfalso; lia | intro H; inversion H; subst; congruence]. }
      destruct (forever_step prev ob) eqn:F; cbn [negb].
      2:{ split; [intro H; exfalso; lia | intro H; inversion H; subst; congruence]. }
      destruct (cascade_obs ob) eqn:C; cbn [negb].
      2:{ split; [intro H; exfalso; lia | intro H; inversion H; subst; congruence]. }
      destruct (strict && negb (logout_step prev ob)) eqn:L.
      { split; [intro H; exfalso; lia | intro H; inversion H; subst].
        apply andb_true_iff in L. destruct L as [L1 L2].
        match goal with Hl : strict = true -> logout_step prev ob = true |- _ => rewrite (Hl L1) in L2 end. discriminate L2. }
      destruct (is_rolevote o && ob_ok ob) eqn:V.
      { split; [intro H; exfalso; lia | intro H; inversion H; subst].
        apply andb_true_iff in V. destruct V as [V1 V2].
        match goal with Hv : is_rolevote o = true -> ob_ok ob = false |- _ => rewrite (Hv V1) in V2 end. discriminate V2. }
      rewrite IH. split; [intro H; constructor; try assumption | intro H; inversion H; subst; assumption].
      * intro Hc. subst chk. cbn [andb] in G. destruct (gate_obs o ob); [reflexivity | discriminate G].
      * intro Hc. subst strict. cbn [andb] in L. destruct (logout_step prev ob); [reflexivity | discriminate L].
      * intro Hc. rewrite Hc in V. cbn [andb] in V. exact V.
Qed.

Lemma P_b_spec h tr : P_b h tr = true <-> P_from (flat_mask h) obs0 tr.
Proof. unfold P_b, P_trace. rewrite N.eqb_eq. apply P_trace_from_spec. Qed.

Lemma P_b_blocks_spec bs tr : P_b_blocks bs tr = true <-> P_from (hist_mask bs) obs0 tr.
Proof. unfold P_b_blocks, P_trace_blocks. rewrite N.eqb_eq. apply P_trace_from_spec. Qed.

(** ** blocks *)
Lemma trace_app f : forall a s b, trace f s (a ++ b) = (trace f s a ++ trace f (run_ops f s a) b)%list.
Proof. induction a as [|o a IH]; intros s b; [reflexivity|]. cbn [app trace run_ops]. rewrite IH. reflexivity. Qed.

Lemma run_ops_app f : forall a s b, run_ops f s (a ++ b) = run_ops f (run_ops f s a) b.
Proof. induction a as [|o a IH]; intros s b; [reflexivity|]. cbn [app run_ops]. apply IH. Qed.

Lemma step_at_same f s o : step_at f s s o = step f s o.
Proof. destruct o; try reflexivity. unfold step_at, step, ibtp_outcome. destruct (d_cache_deferred f); reflexivity. Qed.

(** a history whose blocks hold one transaction each is the plain history, whatever the flags *)
Lemma trace_blocks_singletons f : forall h s, trace_blocks f s (map (fun o => [o]) h) = trace f s h.
Proof.
  induction h as [|o t IH]; intro s; [reflexivity|].
  cbn [map trace_blocks trace_block trace]. rewrite step_at_same. cbn [app]. rewrite IH. reflexivity.
Qed.

Lemma trace_block_state f s0 : forall ops s, snd (trace_block f s0 s ops) = run_ops f s ops.
Proof.
  induction ops as [|o t IH]; intro s; [reflexivity|].
  cbn [trace_block run_ops]. specialize (IH (r_state (step_at f s0 s o))).
  destruct (trace_block f s0 (r_state (step_at f s0 s o)) t) as [rs s'] eqn:E. cbn [snd] in *.
  rewrite IH. destruct o; reflexivity.
Qed.

(** the state after a history of blocks is the state after its transactions in a row: blocks matter to requests only *)
Lemma blocks_state f : forall bs s,
  fold_left (fun s b => snd (trace_block f s s b)) bs s = run_ops f s (List.concat bs).
Proof.
  induction bs as [|b t IH]; intro s; [reflexivity|].
  cbn [fold_left List.concat]. rewrite trace_block_state, IH, run_ops_app. reflexivity.
Qed.

(** the gate at a position inside a block: after the blocks [bs] and the transactions [pre] of the current block,
    the request is decided on the records stored at that very position (the proof stage, which may refuse it
    before, looks at the state the block started from) *)
Lemma gate_in_block f bs pre src dst :
  d_cache_failed_events f = false -> key_inj (d_cache_key f) -> d_cache_deferred f = false ->
  let s0 := run_ops f st0 (List.concat bs) in
  let s := run_ops f s0 pre in
  exists oc, r_out (step_at f s0 s (OIbtp src dst)) = outcome_code oc /\ gate_sound (svcs s) src dst oc = true /\
             (proof_ok s0 src = true -> oc = gate (fun i => sget i (svcs s)) src dst).
Proof.
  intros Hf Hk Hd s0 s.
  assert (Hc : cache_ok f s).
  { subst s s0. rewrite <- run_ops_app. exact (proj1 (run_ops_keeps f _ st0 Hf Hk (proj1 (st0_ok f)) (proj2 (st0_ok f)))). }
  exists (if negb (proof_ok s0 src) then OProof else gate (view (d_cache_key f) (cache s) (svcs s)) src dst). split; [|split].
  - cbn [step_at r_out]. rewrite Hd. reflexivity.
  - destruct (negb (proof_ok s0 src)); [reflexivity|].
    rewrite (gate_ext _ (fun i => sget i (svcs s)) src dst (view_ok f s src Hc) (view_ok f s dst Hc)).
    apply gate_sound_gate.
  - intro Hp. rewrite Hp. cbn [negb].
    apply (gate_ext _ (fun i => sget i (svcs s)) src dst (view_ok f s src Hc) (view_ok f s dst Hc)).
Qed.

(** the result string of Manage: a freeze proposal of service 10 is pending, its logout is submitted and locks it,
    the appchain is frozen with approval, the logout is rejected - governance restores the freeze proposal and passes
    "freeze", not "reject".  The manager re-pauses the service for every result but "approve"; were the follow-up
    run for "reject" only, the service would stay usable on the frozen appchain *)
Definition h_restored : list op :=
  (setup ++ [OSvcOp 1 10 []; OSvcOp 3 10 []; OChainOp 1 1; OConclude 0 true; OConclude 0 false; OIbtp 10 20])%list.

Lemma restored_refuted : P_b h_restored (model_trace cfg_reject_only h_restored) = false.
Proof. vm_compute. reflexivity. Qed.
Lemma restored_fixed : P_b h_restored (model_trace (cfg_of_bits false true false) h_restored) = true.
Proof. vm_compute. reflexivity. Qed.
Lemma restored_outcomes :
  let last_of f := last (model_trace f h_restored) obs0 in
  (map (fun e => (fst e, sv_status (snd e))) (ob_svcs (last_of cfg_reject_only)), ob_out (last_of cfg_reject_only),
   map (fun e => (fst e, sv_status (snd e))) (ob_svcs (last_of (cfg_of_bits false true false))), ob_out (last_of (cfg_of_bits false true false)))
  = ([(10, St_Freezing); (20, St_Available)], 0, [(10, St_Pause); (20, St_Available)], 2)%N.
Proof. vm_compute. reflexivity. Qed.

(** the ballot of an account whose live role record does not say "available governance admin" is refused and
    changes nothing (in the model: by definition of the operation; on the implementation: clause 6 of the trace
    predicate, evaluated on every [ORoleVote] step) *)
Lemma rolevote_refused f s r k a :
  d_cache_failed_events f = false ->
  r_ok (step f s (ORoleVote r k a)) = false /\ r_state (step f s (ORoleVote r k a)) = s.
Proof. intro H. unfold step. cbn [prog_of run]. rewrite H. split; reflexivity. Qed.

(** ** a locked proposal restored by the appchain's unpause
    A freeze proposal of service 10 is pending, its logout is submitted and locks it (service logouting); the appchain
    is frozen and activated with approval; UnPauseChainService restores paused proposals of EVERY registered service,
    so the locked freeze proposal is restored and re-triggered from logouting: the service is freezing (usable) with
    its logout still open; approving the logout then fires "approve" from freezing - frozen, not forbidden - and an
    approved activation makes the logged-out service available.  Confirmed on the real code (corpus/C16_w09). *)
Definition h_unpause_locked : list op :=
  (setup ++ [OSvcOp 1 10 []; OSvcOp 3 10 []; OChainOp 1 1; OConclude 0 true; OChainOp 2 1; OConclude 0 true; OIbtp 10 20;
             OConclude 0 true; OSvcOp 2 10 []; OConclude 0 true; OIbtp 10 20])%list.
Definition cfg_code : cfg := cfg_of_bits6 false true false false true true.
Definition cfg_code_no_restore : cfg := cfg_of_bits6 false true false false true false.

Lemma unpause_locked_refuted : P_b h_unpause_locked (model_trace cfg_code h_unpause_locked) = false.
Proof. vm_compute. reflexivity. Qed.
Lemma unpause_locked_fixed : P_b h_unpause_locked (model_trace cfg_code_no_restore h_unpause_locked) = true.
Proof. vm_compute. reflexivity. Qed.
Lemma unpause_locked_outcomes :
  let st f n := map (fun e => sv_status (snd e)) (firstn 1 (ob_svcs (nth n (model_trace f h_unpause_locked) obs0))) in
  (st cfg_code 13, st cfg_code 15, st cfg_code 17, map ob_out (skipn 18 (model_trace cfg_code h_unpause_locked)),
   st cfg_code_no_restore 13, st cfg_code_no_restore 15)%nat
  = ([St_Freezing], [St_Frozen], [St_Available], [0%N], [St_Logouting], [St_Forbidden]).
Proof. vm_compute. reflexivity. Qed.

(** ** why the cascade is not proved "for ever after": withdrawing a LOCKED proposal
    The appchain's freeze is submitted, an update of service 10 is pending, its logout is submitted and locks the
    update (service logouting), the freeze is approved (a logouting service is not pausable and stays logouting),
    and now the service's admin WITHDRAWS the locked update: governance rejects it against the object as it is -
    "reject" fires from logouting with the update's last status - and the service is available on a frozen appchain
    while its logout is still open.  Confirmed on the real code (corpus/C16_w08); with the withdrawal of paused
    proposals refused the history satisfies the property. *)
Definition h_withdraw_locked : list op :=
  (setup ++ [OChainOp 1 1; OSvcOp 0 10 []; OSvcOp 3 10 []; OConclude 1 true; OWithdraw 1; OIbtp 10 20; OIbtp 20 10])%list.

Lemma withdraw_locked_refuted : P_b h_withdraw_locked (model_trace (cfg_of_bits5 false true false false true) h_withdraw_locked) = false.
Proof. vm_compute. reflexivity. Qed.
Lemma withdraw_locked_fixed : P_b h_withdraw_locked (model_trace (cfg_of_bits5 false true false false false) h_withdraw_locked) = true.
Proof. vm_compute. reflexivity. Qed.
Lemma withdraw_locked_outcomes :
  let tr := model_trace (cfg_of_bits5 false true false false true) h_withdraw_locked in
  let o := last tr obs0 in
  (ob_chains o, map (fun e => (fst e, sv_status (snd e))) (ob_svcs o), map ob_out (skipn 13 tr), ob_props o)
  = ([(1, St_Frozen); (2, St_Available)], [(10, St_Available); (20, St_Available)], [0; 0], [2; 2; 2; 2; 2; 3; 0])%N.
Proof. vm_compute. reflexivity. Qed.

(** bounded evidence for the full cascade statement once paused proposals cannot be withdrawn: from a world with one
    appchain and two services, EVERY sequence of at most 5 operations over the alphabet below (all appchain and
    service operations, a permission-only update, a master-rule update, a further registration, decisions on the
    three newest open proposals, withdrawals) keeps: a registered service of an appchain that is not available is
    parked (pause, logouting, forbidden, registering, unavailable) *)
Definition parked (st : string) : bool := mem_s st [St_Pause; St_Logouting; St_Forbidden; St_Registing; St_Unavailable].
Definition cascade_inv_b (s : state) : bool :=
  forallb (fun e : N * svc =>
     negb (sv_reg (snd e)) ||
     match nget (sv_chain (snd e)) (chains s) with
     | Some st => chain_avail st || parked (sv_status (snd e))
     | None => true
     end) (svcs s).
Definition casc_alphabet : list op :=
  [OChainOp 0 1; OChainOp 1 1; OChainOp 2 1; OChainOp 3 1;
   OSvcOp 0 10 []; OSvcOp 1 10 []; OSvcOp 2 10 []; OSvcOp 3 10 []; OSvcOp 3 11 []; OSvcOp 1 11 [];
   OSvcBlack 10 [11]; ORuleUpdate 1 1; ORegSvc 1 12 [];
   OConclude 0 true; OConclude 0 false; OConclude 1 true; OConclude 1 false; OConclude 2 true; OConclude 2 false; OWithdraw 0; OWithdraw 1]%N.
Definition casc_start (f : cfg) : state :=
  run_ops f st0 [ORegChain 1; OConclude 0 true; ORegSvc 1 10 []; OConclude 0 true; ORegSvc 1 11 []; OConclude 0 true]%N.
(** depth-first over all sequences; an operation that fails leaves the state as it was (flags off) and is pruned *)
Fixpoint casc_dfs (f : cfg) (n : nat) (s : state) (path : list op) : option (list op) :=
  if negb (cascade_inv_b s) then Some (rev path)
  else match n with
       | O => None
       | S n' => fold_left (fun acc a => match acc with
                                         | Some p => Some p
                                         | None => let r := step f s a in if r_ok r then casc_dfs f n' (r_state r) (a :: path) else None
                                         end) casc_alphabet None
       end.

Lemma cascade_bounded : casc_dfs (cfg_of_bits5 false true false false false) 5 (casc_start (cfg_of_bits5 false true false false false)) [] = None.
Proof. vm_compute. reflexivity. Qed.
Lemma cascade_bounded_refuted :
  casc_dfs (cfg_of_bits5 false true false false true) 5 (casc_start (cfg_of_bits5 false true false false true)) []
  = Some [OChainOp 1 1; OSvcOp 0 10 []; OSvcOp 3 10 []; OConclude 1 true; OWithdraw 1]%N.
Proof. vm_compute. reflexivity. Qed.

(** a cache keyed by the case-folded id (ids 28 and 29 under one key): with only 28 registered, a request to the
    unregistered 29 finds 28's cached record and is recorded BEGIN; with both registered and 28 frozen, an event of
    29 overwrites the shared entry and 28 is usable again; a restarted node (empty cache) answers by the store *)
Definition h_folded : list op := (setup ++ [ORegSvc 2 28 []; OConclude 0 true; OIbtp 10 29])%list.
Definition h_folded2 : list op :=
  (setup ++ [ORegSvc 2 28 []; OConclude 0 true; ORegSvc 2 29 []; OConclude 0 true; OSvcOp 1 28 []; OConclude 0 true;
             OIbtp 10 28; OSvcBlack 29 []; OIbtp 10 28])%list.
Definition cfg_code_folded : cfg := cfg_folded (cfg_of_bits false true false).

Lemma folded_refuted : P_b h_folded (model_trace cfg_code_folded h_folded) = false.
Proof. vm_compute. reflexivity. Qed.
Lemma folded_fixed : P_b h_folded (model_trace (cfg_of_bits false true false) h_folded) = true.
Proof. vm_compute. reflexivity. Qed.
Lemma folded2_refuted : P_b h_folded2 (model_trace cfg_code_folded h_folded2) = false.
Proof. vm_compute. reflexivity. Qed.
Lemma folded2_fixed : P_b h_folded2 (model_trace (cfg_of_bits false true false) h_folded2) = true.
Proof. vm_compute. reflexivity. Qed.
Lemma folded_outcomes :
  (map r_out (skipn 10 (trace cfg_code_folded st0 (h_folded ++ [ORestart; OIbtp 10 29]))),
   map r_out (skipn 14 (trace cfg_code_folded st0 h_folded2))) = ([0; 9; 1], [1; 9; 0])%N.
Proof. vm_compute. reflexivity. Qed.

(** a cache that takes the records only at the end of the block lets a request through that follows, in the same
    block, the approval of the freeze of its destination *)
Definition b_deferred : list (list op) :=
  (map (fun o => [o]) setup ++ [[OSvcOp 1 20 []]; [OConclude 0 true; OIbtp 10 20]])%list.

Lemma deferred_refuted :
  P_b_blocks b_deferred (model_trace_blocks (cfg_of_bits4 false false false true) b_deferred) = false.
Proof. vm_compute. reflexivity. Qed.

Lemma deferred_fixed : P_b_blocks b_deferred (model_trace_blocks cfg_fixed b_deferred) = true.
Proof. vm_compute. reflexivity. Qed.

Lemma deferred_outcomes :
  (map r_out (skipn 9 (trace_blocks (cfg_of_bits4 false false false true) st0 b_deferred)),
   map r_out (skipn 9 (trace_blocks cfg_fixed st0 b_deferred))) = ([9; 0], [9; 1])%N.
Proof. vm_compute. reflexivity. Qed.

(** submitting the logout (or an update) of an appchain pauses its services at once *)
Lemma cascade_logout_submit c s s' :
  run (chain_op Ev_Logout c) None s = (true, s') -> forall i, In i (reg_of c s) -> unav s' i.
Proof.
  unfold chain_op.
  change (String.eqb Ev_Logout Ev_Activate) with false. change (String.eqb Ev_Logout Ev_Update) with false.
  change (String.eqb Ev_Logout Ev_Logout) with true. cbn iota. cbn [orb run].
  destruct (nget c (chains s)) as [st|]; [|cbn [run]; discriminate].
  destruct (negb (pre_ok KChain Ev_Logout st)); [cbn [run]; discriminate|].
  unfold submit. cbn [run].
  destruct (lock_low KChain c 0 Ev_Logout (props s)) as [ps' lk]. cbn [run].
  match goal with |- context [nget c (chains ?t)] => change (nget c (chains t)) with (nget c (chains s)) end.
  destruct (nget c (chains s)) as [a|]; [|discriminate].
  destruct (fire KChain st a Ev_Logout) as [b|]; [|discriminate].
  unfold pause_chain_services. cbn [run].
  intros H i Hi. apply each_pause_unav in H. destruct H as [A _]. apply A. exact Hi.
Qed.
