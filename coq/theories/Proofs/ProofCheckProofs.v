(** Proofs about [Model/ProofCheck.v]. *)
From BX Require Import Base.Prelude Model.Fees Model.ExecFrame Model.ProofCheck Model.Packed Proofs.ExecFrameProofs.
From Coq Require Import ZifyBool ZifyN ZifyNat.
Local Open Scope N_scope.

Lemma mem_In a l : mem a l = true <-> In a l.
Proof.
  induction l as [|x t IH]; simpl; [split; [discriminate | tauto]|].
  rewrite orb_true_iff, N.eqb_eq, IH. tauto.
Qed.

Lemma In_remove_all a x l : In x (remove_all a l) <-> In x l /\ x <> a.
Proof.
  induction l as [|y t IH]; simpl; [tauto|].
  destruct (N.eqb_spec y a) as [->|Hne]; simpl; rewrite IH; split.
  - intros [H1 H2]. auto.
  - intros [[->|H1] H2]; [contradiction | auto].
  - intros [->|[H1 H2]]; auto.
  - intros [[->|H1] H2]; auto.
Qed.

Section Oracles.
  Variable H : N -> N.
  Variable digest : N -> N -> N.
  Variable rule_validate : N -> N -> N -> N -> N -> option bool.
  Variable recover : N -> N -> option N.

  (** soundness of the counting loop: acceptance exhibits a duplicate-free list of validators of
      the set, each of which signed the digest, long enough to pass the threshold.  Duplicated
      signatures and signatures of outsiders never count. *)
  Lemma ms_loop_sound sigs : forall m d c thr,
    ms_loop recover m sigs d c thr = true ->
    exists l, NoDup l /\ incl l m /\
              (forall a, In a l -> exists s, In s sigs /\ recover s d = Some a) /\
              (c + Z.of_nat (List.length l) > thr)%Z.
  Proof.
    induction sigs as [|s t IH]; intros m d c thr Hl; simpl in Hl; [discriminate|].
    destruct (recover s d) as [a|] eqn:Er.
    - destruct (mem a m) eqn:Em.
      + destruct (Z.gtb_spec (c + 1) thr) as [Hgt|Hle].
        * exists [a]. repeat split.
          -- constructor; [intros [] | constructor].
          -- intros x [<-|[]]. apply mem_In. exact Em.
          -- intros x [<-|[]]. exists s. split; [left; reflexivity | exact Er].
          -- simpl. lia.
        * destruct (IH _ _ _ _ Hl) as [l [Hnd [Hin [Hs Hc]]]].
          exists (a :: l). repeat split.
          -- constructor; [|exact Hnd]. intro Ha. apply Hin in Ha. apply In_remove_all in Ha. destruct Ha as [_ Hne]. congruence.
          -- intros x [<-|Hx]; [apply mem_In; exact Em | apply Hin in Hx; apply In_remove_all in Hx; tauto].
          -- intros x [<-|Hx]; [exists s; split; [left; reflexivity | exact Er]|].
             destruct (Hs x Hx) as [s' [H1 H2]]. exists s'. split; [right; exact H1 | exact H2].
          -- simpl length. lia.
      + destruct (IH _ _ _ _ Hl) as [l [Hnd [Hin [Hs Hc]]]]. exists l. repeat split; auto.
        intros x Hx. destruct (Hs x Hx) as [s' [H1 H2]]. exists s'. split; [right; exact H1 | exact H2].
    - destruct (IH _ _ _ _ Hl) as [l [Hnd [Hin [Hs Hc]]]]. exists l. repeat split; auto.
      intros x Hx. destruct (Hs x Hx) as [s' [H1 H2]]. exists s'. split; [right; exact H1 | exact H2].
  Qed.

  Notation verify := (verify_proof H digest rule_validate recover).

  (** an accepted IBTP relayed from another relay chain carries more than (n-1)/3 signatures by
      distinct registered validators of that relay chain over (ibtp, status) *)
  Theorem multisig_threshold st ib p dec :
    fst (origin ib) <> ps_bxh st ->
    verify st ib (PdBytes p dec) = VOk ->
    exists app vs bp l,
      ps_chains st (fst (origin ib)) = Some app /\ a_validators app = Some vs /\ dec = Some bp /\
      NoDup l /\ incl l vs /\
      (forall a, In a l -> exists s, In s (bp_sigs bp) /\ recover s (digest (ib_id ib) (bp_status bp)) = Some a) /\
      (Z.of_nat (List.length l) > Z.quot (Z.of_nat (List.length vs) - 1) 3)%Z.
  Proof.
    intros Hb. unfold verify_proof. destruct (negb (H p =? ib_proofhash ib)); [discriminate|].
    destruct (origin ib) as [b c] eqn:Eo. simpl in Hb.
    destruct (N.eqb_spec b (ps_bxh st)); [contradiction|]. simpl.
    destruct (ps_chains st b) as [app|] eqn:Ea; [|discriminate].
    unfold verify_multisign. destruct (a_validators app) as [vs|] eqn:Ev; [|discriminate].
    destruct dec as [bp|]; [|discriminate].
    destruct (ms_loop recover vs (bp_sigs bp) (digest (ib_id ib) (bp_status bp)) 0 (threshold vs)) eqn:El; [|discriminate].
    intros _. destruct (ms_loop_sound _ _ _ _ _ El) as [l [Hnd [Hin [Hs Hc]]]].
    exists app, vs, bp, l. unfold threshold in Hc. repeat split; auto; try lia.
  Qed.

  (** a locally originated IBTP is accepted only by the first available rule of the claimed chain
      in the given (= block start) state, and only if that rule answers true on these bytes *)
  Theorem master_rule_current st ib p dec :
    fst (origin ib) = ps_bxh st ->
    verify st ib (PdBytes p dec) = VOk ->
    H p = ib_proofhash ib /\
    exists app r,
      ps_chains st (snd (origin ib)) = Some app /\
      master_rule st (snd (origin ib)) = Some r /\ r_available r = true /\ In r (ps_rules st (snd (origin ib))) /\
      rule_validate (r_addr r) (snd (origin ib)) p (ib_id ib) (a_trust app) = Some true.
  Proof.
    intros Hb. unfold verify_proof. destruct (N.eqb_spec (H p) (ib_proofhash ib)) as [Hh|]; [|discriminate]. simpl.
    destruct (origin ib) as [b c] eqn:Eo. simpl in Hb. subst b. rewrite N.eqb_refl. simpl.
    destruct (ps_chains st c) as [app|] eqn:Ea; [|discriminate].
    destruct (master_rule st c) as [r|] eqn:Er; [|discriminate].
    destruct (rule_validate (r_addr r) c p (ib_id ib) (a_trust app)) as [[|]|] eqn:Ev; try discriminate.
    intros _. split; [exact Hh|]. exists app, r. unfold master_rule in Er.
    pose proof (find_some _ _ Er) as [Hin Hav]. repeat split; auto.
  Qed.

  (** when every available rule of the chain carries the Master flag (the invariant the RuleManager
      flows maintain), the rule the proof pool selects IS the master rule *)
  Theorem selected_is_master st ib p dec :
    fst (origin ib) = ps_bxh st ->
    (forall r, In r (ps_rules st (snd (origin ib))) -> r_available r = true -> r_master r = true) ->
    verify st ib (PdBytes p dec) = VOk ->
    exists app r, ps_chains st (snd (origin ib)) = Some app /\ In r (ps_rules st (snd (origin ib))) /\
                  r_master r = true /\
                  rule_validate (r_addr r) (snd (origin ib)) p (ib_id ib) (a_trust app) = Some true.
  Proof.
    intros Hb Hwf Hv. destruct (master_rule_current st ib p dec Hb Hv) as [_ [app [r [Ha [_ [Hav [Hin Hr]]]]]]].
    exists app, r. repeat split; auto.
  Qed.

  (** the verdict depends on the state only through the records of the origin chain *)
  Theorem verify_depends_on_current st st' ib pd :
    ps_bxh st = ps_bxh st' ->
    ps_chains st (fst (origin ib)) = ps_chains st' (fst (origin ib)) ->
    ps_chains st (snd (origin ib)) = ps_chains st' (snd (origin ib)) ->
    ps_rules st (snd (origin ib)) = ps_rules st' (snd (origin ib)) ->
    verify st ib pd = verify st' ib pd.
  Proof.
    intros Hb H1 H2 H3. unfold verify_proof, master_rule. destruct pd as [|p dec]; [reflexivity|].
    destruct (negb (H p =? ib_proofhash ib)); [reflexivity|].
    destruct (origin ib) as [b c]. simpl in *. rewrite Hb, H1, H2, H3. reflexivity.
  Qed.

  (** ---- the proof pool of a node: which state do the lookups see? ---- *)

  (** a pool that does not memoise its view - or any pool over a ledger whose Copy() is the live
      ledger - answers every question from the state committed by the previous block, whatever the
      node's history of commits, restarts and earlier questions *)
  Theorem pool_is_spec c :
    d_memo_view c = false \/ snapshot_ledger c = false ->
    forall evs n, pool_run H digest rule_validate recover c n evs
                  = pool_spec H digest rule_validate recover (n_committed n) evs.
  Proof.
    intros Hc. assert (Hv : forall n, pool_view c n = n_committed n).
    { intros n. unfold pool_view. destruct Hc as [-> | ->]; [reflexivity|]. rewrite andb_false_r. reflexivity. }
    induction evs as [|e t IH]; intros n; [reflexivity|].
    destruct e as [st| |ib pd]; simpl; rewrite IH; simpl; try reflexivity. rewrite Hv. reflexivity.
  Qed.

  Lemma pool_spec_nth cur evs : forall i ib pd,
    nth_error evs i = Some (PCheck ib pd) ->
    nth_error (pool_spec H digest rule_validate recover cur evs) i
    = Some (Some (committed_at cur evs i, verify (committed_at cur evs i) ib pd)).
  Proof.
    revert cur. induction evs as [|e t IH]; intros cur i ib pd Hn; [destruct i; discriminate|].
    destruct i as [|j].
    - simpl in Hn. inversion Hn; subst e. reflexivity.
    - simpl in Hn. destruct e as [st| |ib' pd']; simpl; apply IH; exact Hn.
  Qed.

  (** C03_master_rule_current over node histories: whenever question [i] about a locally
      originated IBTP is answered OK, the first available rule BOUND IN THE STATE COMMITTED BY
      THE PREVIOUS BLOCK accepted these bytes *)
  Theorem master_rule_current_pool c n evs i ib p dec st :
    d_memo_view c = false \/ snapshot_ledger c = false ->
    nth_error evs i = Some (PCheck ib (PdBytes p dec)) ->
    nth_error (pool_run H digest rule_validate recover c n evs) i = Some (Some (st, VOk)) ->
    st = committed_at (n_committed n) evs i /\
    (fst (origin ib) = ps_bxh st ->
     H p = ib_proofhash ib /\
     exists app r,
       ps_chains st (snd (origin ib)) = Some app /\
       master_rule st (snd (origin ib)) = Some r /\ r_available r = true /\ In r (ps_rules st (snd (origin ib))) /\
       rule_validate (r_addr r) (snd (origin ib)) p (ib_id ib) (a_trust app) = Some true).
  Proof.
    intros Hc Hn Ha. rewrite (pool_is_spec c Hc) in Ha. rewrite (pool_spec_nth _ _ _ _ _ Hn) in Ha.
    inversion Ha as [[Hst Hv]]. split; [reflexivity|]. intros Hb.
    apply (master_rule_current _ ib p dec Hb). exact Hv.
  Qed.

  (** ---- the pipeline: at which stage is the pool asked? ---- *)

  (** asking in the execution stage makes every interleaving of deliveries and executions answer
      exactly like lock-step execution of the same blocks: each block is verified against the
      state committed by the block executed before it *)
  Theorem pipeline_is_lockstep c : d_verify_at_enqueue c = false ->
    forall evs n,
    q_run H digest rule_validate recover c n evs
    = lockstep H digest rule_validate recover (q_committed n) (executed (map fst (q_queue n)) evs).
  Proof.
    intros Hc. induction evs as [|e t IH]; intros n; [reflexivity|].
    destruct e as [b|]; simpl.
    - rewrite IH. simpl. rewrite map_app. reflexivity.
    - destruct (q_queue n) as [|[b early] r] eqn:Eq; simpl.
      + rewrite IH, Eq. reflexivity.
      + rewrite Hc, IH. reflexivity.
  Qed.

  Lemma lockstep_sound cur bs : forall st vs, In (st, vs) (lockstep H digest rule_validate recover cur bs) ->
    exists b, In b bs /\ vs = answers_of H digest rule_validate recover st b.
  Proof.
    revert cur. induction bs as [|b t IH]; intros cur st vs Hin; [destruct Hin|].
    destruct Hin as [E|Hin].
    - inversion E; subst. exists b. split; [left; reflexivity | reflexivity].
    - destruct (IH _ _ _ Hin) as [b' [Hb Hv]]. exists b'. split; [right; exact Hb | exact Hv].
  Qed.

  (** hence: an OK given to a locally originated IBTP of an executed block means that the first
      available rule bound in the state committed by the PREVIOUSLY EXECUTED block accepted -
      however many blocks were queued when this one was delivered *)
  Theorem master_rule_current_pipeline c n evs st vs :
    d_verify_at_enqueue c = false ->
    In (st, vs) (q_run H digest rule_validate recover c n evs) ->
    exists b, vs = answers_of H digest rule_validate recover st b /\
      forall k ib p dec, nth_error (qb_checks b) k = Some (ib, PdBytes p dec) -> nth_error vs k = Some VOk ->
        fst (origin ib) = ps_bxh st ->
        exists app r, ps_chains st (snd (origin ib)) = Some app /\
                      master_rule st (snd (origin ib)) = Some r /\ r_available r = true /\
                      rule_validate (r_addr r) (snd (origin ib)) p (ib_id ib) (a_trust app) = Some true.
  Proof.
    intros Hc Hin. rewrite (pipeline_is_lockstep c Hc) in Hin.
    destruct (lockstep_sound _ _ _ _ Hin) as [b [_ Hv]]. exists b. split; [exact Hv|].
    intros k ib p dec Hk Ha Hb. subst vs. unfold answers_of in Ha. rewrite nth_error_map, Hk in Ha. simpl in Ha.
    inversion Ha as [Hok].
    destruct (master_rule_current st ib p dec Hb Hok) as [_ [app [r [A1 [A2 [A3 [_ A5]]]]]]].
    exists app, r. repeat split; assumption.
  Qed.

  (** the answer of the pool is a function of the committed state, the IBTP and the proof at the
      time of the question - whatever was asked before - as long as no verdict is remembered *)
  Theorem verdict_is_function c : d_verdict_cache c = false ->
    forall evs n, c_run H digest rule_validate recover c n evs = c_spec H digest rule_validate recover (cn_state n) evs.
  Proof.
    intros Hc. induction evs as [|e t IH]; intros n; [reflexivity|].
    destruct e as [st| |ib name pd]; simpl; rewrite ?Hc; simpl; rewrite IH; reflexivity.
  Qed.

  (** no available rule, an unregistered chain, an absent proof or a hash mismatch reject *)
  Theorem rejects st ib :
    verify st ib PdAbsent = VErr 1 /\
    (forall p dec, H p <> ib_proofhash ib -> verify st ib (PdBytes p dec) = VErr 2) /\
    (forall p dec, H p = ib_proofhash ib -> fst (origin ib) = ps_bxh st ->
       ps_chains st (snd (origin ib)) = None -> verify st ib (PdBytes p dec) = VErr 3) /\
    (forall p dec app, H p = ib_proofhash ib -> fst (origin ib) = ps_bxh st ->
       ps_chains st (snd (origin ib)) = Some app ->
       (forall r, In r (ps_rules st (snd (origin ib))) -> r_available r = false) ->
       verify st ib (PdBytes p dec) = VErr 4).
  Proof.
    split; [reflexivity|]. split; [|split].
    - intros p dec Hne. unfold verify_proof. destruct (N.eqb_spec (H p) (ib_proofhash ib)); [contradiction | reflexivity].
    - intros p dec Hh Hb Hc. unfold verify_proof. rewrite Hh, N.eqb_refl. simpl.
      destruct (origin ib) as [b c]. simpl in *. subst b. rewrite N.eqb_refl. simpl. rewrite Hc. reflexivity.
    - intros p dec app Hh Hb Hc Hr. unfold verify_proof. rewrite Hh, N.eqb_refl. simpl.
      destruct (origin ib) as [b c]. simpl in *. subst b. rewrite N.eqb_refl. simpl. rewrite Hc.
      unfold master_rule. destruct (find r_available (ps_rules st c)) as [r|] eqn:Ef; [|reflexivity].
      apply find_some in Ef. destruct Ef as [Hin Hav]. rewrite (Hr r Hin) in Hav. discriminate.
  Qed.

  (** an IBTP transaction whose proof is not verified gets a FAILED receipt and changes nothing
      but the sender's nonce and the fee; nothing is announced (repaired event harvesting) *)
  Theorem unverified_frame c e idx s st ib pd t s' rc cnt :
    d_stale_changer c = false -> d_prev_from_memory c = false -> d_revert_drops_tombstone c = false ->
    d_fee_after_body (x_fees c) = false ->
    verify st ib pd <> VOk ->
    apply_tx c e idx s (checked H digest rule_validate recover st ib pd t) = (s', rc, cnt) ->
    r_ok rc = false /\
    frame_ok e s s' (checked H digest rule_validate recover st ib pd t) /\
    (d_failed_events c = false -> cnt = []).
  Proof.
    intros Hs Hpm Htb Hf Hv Ha.
    assert (Hinv : tx_invalid (checked H digest rule_validate recover st ib pd t) = true).
    { unfold checked. simpl. destruct (verify st ib pd); simpl; try apply orb_true_r. contradiction. }
    destruct (invalid_tx_frame c Hs Hpm Htb e idx s _ s' rc cnt Hf Hinv Ha) as [Hok Hfr].
    split; [exact Hok|]. split; [exact Hfr|].
    intro Hfe. eapply failed_not_delivered; eassumption.
  Qed.
End Oracles.

(** entry points *)
Lemma entry_step_fixed ci op : fst (entry_step ecfg_fixed ci op) = false \/ ci = true.
Proof. destruct op, ci; simpl; auto. Qed.

Lemma entry_run_fixed_ok ops : entries_ok ops (entry_run ecfg_fixed false ops) = true.
Proof.
  induction ops as [|op r IH]; [reflexivity|].
  simpl. destruct op as [v h| h | h | |]; simpl; try exact IH.
  destruct v, h; simpl; exact IH.
Qed.

(** under the repaired behaviour an IBTP is processed only by a proof-verified IBTP transaction,
    for every history of entry-point operations *)
Theorem no_other_entry_fixed ops :
  entries_ok ops (entry_run ecfg_fixed false ops) = true.
Proof. exact (entry_run_fixed_ok ops). Qed.

Theorem handle_data_refuted :
  let ops := [EInitCache; EHandleData true] in
  entry_run ecfg_faithful false ops = [(false, false); (true, true)] /\
  entries_ok ops (entry_run ecfg_faithful false ops) = false.
Proof. split; reflexivity. Qed.

Theorem emit_interchain_refuted :
  let ops := [EInitCache; EEmit true] in
  entries_ok ops (entry_run ecfg_faithful false ops) = false.
Proof. reflexivity. Qed.

(** the protection the unchanged code has is accidental and node-local: without the cache the
    plain invocation dies; a restart loses the cache (replicas diverge) *)
Example handle_data_needs_cache :
  entry_run ecfg_faithful false [EHandleData true; EInitCache; EHandleData true; ERestart; EHandleData true]
  = [(false, false); (false, false); (true, true); (true, false); (false, false)].
Proof. reflexivity. Qed.

(** non-vacuity with the concrete oracles of the judge: 4 validators, threshold 1 *)
Definition relay_app : appchain := {| a_trust := 0; a_validators := Some [10; 11; 12; 13] |}.
Definition st_ex : pstate :=
  {| ps_bxh := 1356;
     ps_chains := fun c => if c =? 1357 then Some relay_app else if c =? 50 then Some {| a_trust := 0; a_validators := None |} else None;
     ps_rules := fun c => if c =? 50 then [{| r_addr := 2; r_available := false; r_master := false |}; {| r_addr := 4; r_available := true; r_master := true |}] else [] |}.
Definition ib_remote : ibtp :=
  {| ib_id := 5; ib_from_bxh := 1357; ib_from_chain := 60; ib_to_bxh := 1356; ib_to_chain := 50; ib_is_req := true; ib_proofhash := 900 |}.
Definition ib_local : ibtp :=
  {| ib_id := 6; ib_from_bxh := 1356; ib_from_chain := 50; ib_to_bxh := 1356; ib_to_chain := 51; ib_is_req := true; ib_proofhash := 901 |}.

Example multisig_examples :
  (* two distinct validators: accepted *)
  c_verify st_ex ib_remote (PdBytes 900 (Some {| bp_status := 0; bp_sigs := [40; 44] |})) = VOk /\
  (* the same validator twice: rejected *)
  c_verify st_ex ib_remote (PdBytes 900 (Some {| bp_status := 0; bp_sigs := [40; 40; 40] |})) = VErr 6 /\
  (* strangers and a signature over another message: rejected *)
  c_verify st_ex ib_remote (PdBytes 900 (Some {| bp_status := 0; bp_sigs := [400; 404; 42; 46] |})) = VErr 6 /\
  (* junk, duplicate, stranger, then a second distinct validator: accepted *)
  c_verify st_ex ib_remote (PdBytes 900 (Some {| bp_status := 0; bp_sigs := [41; 40; 40; 400; 52] |})) = VOk.
Proof. repeat split; reflexivity. Qed.

Example rule_examples :
  c_verify st_ex ib_local (PdBytes 901 None) = VOk /\       (* first AVAILABLE rule (4) says true on an odd proof id *)
  c_verify st_ex ib_local PdAbsent = VErr 1 /\
  c_verify st_ex ib_local (PdBytes 903 None) = VErr 2 /\
  c_verify st_ex {| ib_id := 6; ib_from_bxh := 1356; ib_from_chain := 50; ib_to_bxh := 1356; ib_to_chain := 51; ib_is_req := true; ib_proofhash := 902 |}
           (PdBytes 902 None) = VFalse.
Proof. repeat split; reflexivity. Qed.

(** a memoised view over a snapshot ledger: expected refutation.  Block 1 binds the
    accept-everything rule (1), the node verifies an IBTP, block 2 binds the Fabric rule (2, errors
    on junk); the junk proof is still accepted - until the node restarts *)
Definition st_rule (r : N) : pstate :=
  {| ps_bxh := 1356;
     ps_chains := fun c => if c =? 50 then Some {| a_trust := 0; a_validators := None |} else None;
     ps_rules := fun c => if c =? 50 then [{| r_addr := r; r_available := true; r_master := true |}] else [] |}.
Definition cfg_memo := {| d_memo_view := true; snapshot_ledger := true |}.
Definition pool_hist := [PCommit (st_rule 1); PCheck ib_local (PdBytes 901 None);
                         PCommit (st_rule 2); PCheck ib_local (PdBytes 901 None);
                         PRestart; PCheck ib_local (PdBytes 901 None)].
Definition answers (l : list (option (pstate * vres))) : list (option vres) :=
  map (fun a => match a with Some (_, v) => Some v | None => None end) l.

Theorem memo_view_refuted :
  answers (pool_run c_H c_digest c_rule c_recover cfg_memo {| n_committed := st_rule 0; n_view := None |} pool_hist)
  = [None; Some VOk; None; Some VOk; None; Some (VErr 5)] /\
  c_verify (st_rule 2) ib_local (PdBytes 901 None) = VErr 5 /\
  master_accepts (st_rule 2) ib_local (PdBytes 901 None) = false.
Proof. repeat split; reflexivity. Qed.

(** the same history without the memory, and with the memory over the simple ledger *)
Example pool_fresh_example :
  answers (pool_run c_H c_digest c_rule c_recover {| d_memo_view := false; snapshot_ledger := true |}
             {| n_committed := st_rule 0; n_view := None |} pool_hist)
  = [None; Some VOk; None; Some (VErr 5); None; Some (VErr 5)] /\
  answers (pool_run c_H c_digest c_rule c_recover {| d_memo_view := true; snapshot_ledger := false |}
             {| n_committed := st_rule 0; n_view := None |} pool_hist)
  = [None; Some VOk; None; Some (VErr 5); None; Some (VErr 5)].
Proof. split; reflexivity. Qed.

(** asking when the block enters the pipeline: expected refutation.  The accept-everything rule is
    bound; block 1 binds the Fabric rule, block 2 carries a junk proof; both are delivered before
    block 1 is executed *)
Definition qb1 : qblock := {| qb_checks := []; qb_after := st_rule 2 |}.
Definition qb2 : qblock := {| qb_checks := [(ib_local, PdBytes 901 None)]; qb_after := st_rule 2 |}.
Definition q0 : qnode := {| q_committed := st_rule 1; q_queue := [] |}.
Definition qhist := [QEnqueue qb1; QEnqueue qb2; QExecute; QExecute].

Theorem verify_at_enqueue_refuted :
  map snd (q_run c_H c_digest c_rule c_recover {| d_verify_at_enqueue := true |} q0 qhist) = [[]; [VOk]] /\
  map snd (lockstep c_H c_digest c_rule c_recover (st_rule 1) [qb1; qb2]) = [[]; [VErr 5]] /\
  master_accepts (st_rule 2) ib_local (PdBytes 901 None) = false.
Proof. repeat split; reflexivity. Qed.

Example pipeline_fixed_example :
  map snd (q_run c_H c_digest c_rule c_recover {| d_verify_at_enqueue := false |} q0 qhist) = [[]; [VErr 5]] /\
  map snd (q_run c_H c_digest c_rule c_recover {| d_verify_at_enqueue := true |} q0 [QEnqueue qb1; QExecute; QEnqueue qb2; QExecute])
  = [[]; [VErr 5]].
Proof. split; reflexivity. Qed.

(** a verdict cache keyed by (rule, IBTP name, proof hash): expected refutation.  The SimFabric rule
    (3) is bound; proof 2007001 endorses content 7; IBTP 7000 (content 7) and IBTP 8000 (content 8)
    share the name 55 (same from-to-index); the second one rides on the verdict of the first *)
Definition ib_c (i : N) : ibtp :=
  {| ib_id := i; ib_from_bxh := 1356; ib_from_chain := 50; ib_to_bxh := 1356; ib_to_chain := 51; ib_is_req := true; ib_proofhash := 2007001 |}.
Definition cache_hist := [CCommit (st_rule 3); CCheck (ib_c 7000) 55 (PdBytes 2007001 None); CCheck (ib_c 8000) 55 (PdBytes 2007001 None);
                          CRestart; CCheck (ib_c 8000) 55 (PdBytes 2007001 None)].

Theorem verdict_cache_refuted :
  c_run c_H c_digest c_rule c_recover {| d_verdict_cache := true |} {| cn_state := st_rule 0; cn_cache := [] |} cache_hist
  = [None; Some VOk; Some VOk; None; Some (VErr 5)] /\
  c_verify (st_rule 3) (ib_c 8000) (PdBytes 2007001 None) = VErr 5 /\
  c_run c_H c_digest c_rule c_recover {| d_verdict_cache := false |} {| cn_state := st_rule 0; cn_cache := [] |} cache_hist
  = [None; Some VOk; Some (VErr 5); None; Some (VErr 5)].
Proof. repeat split; reflexivity. Qed.

(** the multi-signature theorem with the digest made concrete: the packed encoding of the IBTP's
    fields and the status, under any hash *)
Theorem multisig_threshold_packed (H : N -> N) (hash : list N -> N) (fields_of : N -> pfields)
        (rule_validate : N -> N -> N -> N -> N -> option bool) (recover : N -> N -> option N) st ib p dec :
  fst (origin ib) <> ps_bxh st ->
  verify_proof H (packed_digest hash fields_of) rule_validate recover st ib (PdBytes p dec) = VOk ->
  exists app vs bp l,
    ps_chains st (fst (origin ib)) = Some app /\ a_validators app = Some vs /\ dec = Some bp /\
    NoDup l /\ incl l vs /\
    (forall a, In a l -> exists s, In s (bp_sigs bp) /\
                         recover s (hash (encode (with_status (fields_of (ib_id ib)) (bp_status bp)))) = Some a) /\
    (Z.of_nat (List.length l) > Z.quot (Z.of_nat (List.length vs) - 1) 3)%Z.
Proof. exact (multisig_threshold H (packed_digest hash fields_of) rule_validate recover st ib p dec). Qed.
