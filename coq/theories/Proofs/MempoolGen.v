(** generateBlock: analysis of the Ascend loop with its "skipped" chain, for a state that
    satisfies the invariant.  Safety (each taken slot is the next one of its account), the batch
    bound, completeness (without the bound every ready slot is taken) and the exact count. *)
From BX Require Import Base.Prelude Model.Mempool Proofs.MempoolLib Proofs.MempoolInv.
From Coq Require Import ZifyBool ZifyN ZifyNat.
Local Open Scope N_scope.

Section Loop.
  Variable s : state.
  Hypothesis I : Inv s.
  Variable bsz : N.
  Let pr := priority s.
  Let B0 := batched s.

  Definition ready_slot (sl : slot) : Prop := exists ts, In (ts, sl) pr.

  Definition eligible (b : list slot) (sl : slot) : Prop :=
    get_cn s (fst sl) <= snd sl /\ ~ In sl b /\
    (snd sl = get_cn s (fst sl) \/ In (fst sl, snd sl - 1) b).

  Fixpoint seq_ok (b : list slot) (r : list slot) : Prop :=
    match r with
    | [] => True
    | sl :: r' => eligible b sl /\ seq_ok (sl :: b) r'
    end.

  Lemma eligible_ext b b' sl : (forall x, In x b <-> In x b') -> eligible b sl -> eligible b' sl.
  Proof. unfold eligible. intros H [H1 [H2 H3]]. rewrite <- !H. auto. Qed.

  Lemma seq_ok_ext r : forall b b', (forall x, In x b <-> In x b') -> seq_ok b r -> seq_ok b' r.
  Proof.
    induction r as [|sl r IH]; intros b b' H; cbn; [auto|]. intros [H1 H2]. split.
    - eapply eligible_ext; eauto.
    - eapply IH; [|exact H2]. intros x. cbn. rewrite H. tauto.
  Qed.

  Lemma seq_ok_app r : forall b sl, seq_ok b r -> eligible (rev r ++ b) sl -> seq_ok b (r ++ [sl]).
  Proof.
    induction r as [|x r IH]; intros b sl H1 H2; cbn in *.
    - split; [exact H2 | exact Logic.I].
    - destruct H1 as [H1 H3]. split; [exact H1|]. apply IH; [exact H3|].
      eapply eligible_ext; [|exact H2]. intros y. rewrite <- app_assoc. cbn. tauto.
  Qed.

  Definition unb (b : list slot) : list pkey := filter (fun k => negb (mem slot_eqb (snd k) b)) pr.

  Lemma ready_slot_facts a n : ready_slot (a, n) ->
    get_cn s a <= n /\ n < get_pn s a /\ item_at s (a, n) <> None.
  Proof.
    intros [ts H]. apply (I_prio _ _ _ I) in H. destruct H as [t [H1 [H2 H3]]].
    assert (Hi : item_at s (a, n) <> None) by congruence.
    split; [apply (I_it_cn _ _ _ I); [intros [] | exact Hi] | split; assumption].
  Qed.

  Lemma slot_ts_unique ts ts' sl : In (ts, sl) pr -> In (ts', sl) pr -> ts = ts'.
  Proof.
    destruct sl as [a n]. intros H1 H2. apply (I_prio _ _ _ I) in H1, H2.
    destruct H1 as [t [E1 [<- _]]], H2 as [t' [E2 [<- _]]]. congruence.
  Qed.

  (** taking one unbatched priority slot lowers the unbatched count by exactly one *)
  Lemma take_count b sl : ready_slot sl -> ~ In sl b ->
    len (unb (sadd slot_eqb sl b)) + 1 = len (unb b).
  Proof.
    intros [ts Hin] Hnb. unfold unb.
    assert (Hnd : NoDup pr) by (apply psorted_NoDup; exact (I_prio_sorted _ _ _ I)).
    assert (Huniq : forall k, In k pr -> snd k = sl -> k = (ts, sl)).
    { intros [ts' sl'] Hk E. cbn in E. subst sl'. f_equal. eapply slot_ts_unique; eauto. }
    clearbody pr. revert Hin Hnd Huniq. induction pr as [|k l IH]; intros Hin Hnd Huniq; [destruct Hin|].
    inversion Hnd as [|? ? Hk Hl]; subst. cbn [filter].
    rewrite (mem_sadd slot_eqb slot_eqb_spec).
    destruct (pkeyP k (ts, sl)) as [->|Hne].
    - cbn [snd]. rewrite (eqb_refl slot_eqb slot_eqb_spec). cbn [orb negb].
      replace (mem slot_eqb sl b) with false by (symmetry; apply (mem_false slot_eqb slot_eqb_spec); exact Hnb).
      cbn [negb]. rewrite len_cons.
      (* no other entry of l has this slot *)
      assert (E : filter (fun k0 => negb (mem slot_eqb (snd k0) (sadd slot_eqb sl b))) l =
                  filter (fun k0 => negb (mem slot_eqb (snd k0) b)) l).
      { apply filter_ext_in. intros k0 Hk0. rewrite (mem_sadd slot_eqb slot_eqb_spec).
        destruct (slotP (snd k0) sl) as [E|]; [|reflexivity].
        exfalso. apply Hk. rewrite <- (Huniq k0 (or_intror Hk0) E). exact Hk0. }
      rewrite E. lia.
    - destruct Hin as [E|Hin]; [congruence|].
      assert (Hsl : slot_eqb (snd k) sl = false).
      { destruct (slotP (snd k) sl) as [E|]; [|reflexivity]. exfalso. apply Hne. apply Huniq; [left; reflexivity | exact E]. }
      rewrite Hsl. cbn [orb].
      specialize (IH Hin Hl (fun k0 Hk0 => Huniq k0 (or_intror Hk0))).
      destruct (negb (mem slot_eqb (snd k) b)); rewrite ?len_cons; lia.
  Qed.

  Record GI (pre : list pkey) (acc : gacc) : Prop := {
    GI_b : forall sl, In sl (g_b acc) <-> In sl B0 \/ In sl (g_r acc);
    GI_seq : seq_ok B0 (g_r acc);
    GI_down : forall a n, In (a, n) (g_b acc) -> get_cn s a < n -> In (a, n - 1) (g_b acc);
    GI_r_ready : forall sl, In sl (g_r acc) -> ready_slot sl;
    GI_sk : forall sl, In sl (g_sk acc) -> (exists ts, In (ts, sl) pre) /\ snd sl <> get_cn s (fst sl);
    GI_vis : g_done acc = false -> forall k, In k pre -> In (snd k) (g_b acc) \/ In (snd k) (g_sk acc);
    GI_size : if g_done acc then len (g_r acc) = bsz else (bsz = 0 \/ len (g_r acc) < bsz);
    GI_cnt : len (g_r acc) + len (unb (g_b acc)) = len (unb B0)
  }.

  (** the K property: a skipped, still unbatched slot has an unbatched predecessor; [ex] is the one
      slot for which it may be violated while a chain is running *)
  Definition Kprop (ex : option slot) (acc : gacc) : Prop :=
    forall a n, In (a, n) (g_sk acc) -> Some (a, n) <> ex -> ~ In (a, n) (g_b acc) -> ~ In (a, n - 1) (g_b acc).

  Lemma GI_init : GI [] (mkG B0 [] [] false).
  Proof.
    constructor; cbn.
    - intros. tauto.
    - exact Logic.I.
    - intros a n. apply (I_b_down _ _ _ I).
    - intros sl [].
    - intros sl [].
    - intros _ k [].
    - unfold len; cbn. destruct bsz; [left; reflexivity | right; lia].
    - unfold len; cbn. lia.
  Qed.

  Lemma GI_lo pre acc a n : GI pre acc -> In (a, n) (g_b acc) -> get_cn s a <= n.
  Proof.
    intros G H. apply (GI_b _ _ G) in H. destruct H as [H|H].
    - apply (I_b_lo _ _ _ I); [intros [] | exact H].
    - apply (GI_r_ready _ _ G) in H. apply ready_slot_facts in H. tauto.
  Qed.

  (** taking the next slot of an account *)
  Lemma take_ok pre acc a n :
    GI pre acc -> g_done acc = false -> ready_slot (a, n) -> ~ In (a, n) (g_b acc) ->
    (n = get_cn s a \/ In (a, n - 1) (g_b acc)) ->
    let acc' := g_take (a, n) acc in
    (forall x, In x (g_b acc') <-> x = (a, n) \/ In x (g_b acc)) /\
    g_sk acc' = g_sk acc /\ g_done acc' = false /\ len (g_r acc') = len (g_r acc) + 1 /\
    (forall pre', incl pre pre' ->
       (g_done acc' = false -> forall k, In k pre' -> In (snd k) (g_b acc') \/ In (snd k) (g_sk acc')) ->
       GI pre' (if len (g_r acc') =? bsz then g_stop acc' else acc')).
  Proof.
    intros G Hd Hr Hnb Hel. cbn zeta. unfold g_take. cbn [g_b g_r g_sk g_done].
    assert (Hb : forall x, In x (sadd slot_eqb (a, n) (g_b acc)) <-> x = (a, n) \/ In x (g_b acc))
      by (intro x; apply (In_sadd slot_eqb slot_eqb_spec)).
    split; [exact Hb|]. split; [reflexivity|]. split; [exact Hd|].
    split; [rewrite len_app; unfold len; cbn; lia|].
    intros pre' Hincl Hvis.
    destruct (ready_slot_facts a n Hr) as [Hcn [Hpn Hit]].
    assert (Hlen : len (g_r acc ++ [(a, n)]) = len (g_r acc) + 1) by (rewrite len_app; unfold len; cbn; lia).
    pose proof (GI_size _ _ G) as Hsz. rewrite Hd in Hsz.
    assert (Hcommon :
      (forall sl, In sl (sadd slot_eqb (a, n) (g_b acc)) <-> In sl B0 \/ In sl (g_r acc ++ [(a, n)])) /\
      seq_ok B0 (g_r acc ++ [(a, n)]) /\
      (forall b m, In (b, m) (sadd slot_eqb (a, n) (g_b acc)) -> get_cn s b < m -> In (b, m - 1) (sadd slot_eqb (a, n) (g_b acc))) /\
      (forall sl, In sl (g_r acc ++ [(a, n)]) -> ready_slot sl) /\
      (forall sl, In sl (g_sk acc) -> (exists ts, In (ts, sl) pre') /\ snd sl <> get_cn s (fst sl)) /\
      len (g_r acc ++ [(a, n)]) + len (unb (sadd slot_eqb (a, n) (g_b acc))) = len (unb B0)).
    { split; [|split; [|split; [|split; [|split]]]].
      - intros sl. rewrite Hb, (GI_b _ _ G), in_app_iff. cbn. intuition congruence.
      - apply seq_ok_app; [exact (GI_seq _ _ G)|].
        eapply eligible_ext with (b := g_b acc).
        + intros x. rewrite (GI_b _ _ G), in_app_iff, <- in_rev. tauto.
        + unfold eligible. cbn [fst snd]. auto.
      - intros b m Hin Hlt. apply Hb in Hin. apply Hb. destruct Hin as [E|Hin].
        + inversion E; subst. destruct Hel as [->|Hel]; [lia | right; exact Hel].
        + right. apply (GI_down _ _ G); assumption.
      - intros sl Hin. apply in_app_iff in Hin. destruct Hin as [Hin|[<-|[]]]; [apply (GI_r_ready _ _ G); exact Hin | exact Hr].
      - intros sl Hin. destruct (GI_sk _ _ G sl Hin) as [[ts H1] H2]. split; [exists ts; apply Hincl; exact H1 | exact H2].
      - rewrite Hlen. pose proof (take_count (g_b acc) (a, n) Hr Hnb). pose proof (GI_cnt _ _ G). lia. }
    destruct Hcommon as [C1 [C2 [C3 [C4 [C5 C6]]]]].
    match goal with |- context [if ?c then _ else _] => destruct c eqn:E end.
    - unfold g_stop. cbn [g_b g_r g_sk g_done].
      constructor; cbn [g_b g_r g_sk g_done]; try assumption; try (intros Hx; discriminate Hx); try lia.
    - constructor; cbn [g_b g_r g_sk g_done]; try assumption.
      rewrite Hd. lia.
  Qed.

  (** the chain: [(a, k - 1)] was just taken, K may be violated at [(a, k)] only *)
  Lemma chain_ok pre a k0 : incl pre pr -> forall fuel k acc,
    GI pre acc -> g_done acc = false -> Kprop (Some (a, k)) acc ->
    (forall k', In k' pre -> In (snd k') (g_b acc) \/ In (snd k') (g_sk acc)) ->
    In (a, k - 1) (g_b acc) -> ~ In (a, k) (g_b acc) -> get_cn s a < k ->
    k0 <= k -> (forall j, k0 <= j < k -> In (a, j) (g_sk acc)) ->
    N.of_nat fuel + (k - k0) = 1 + len (g_sk acc) ->
    let acc' := g_chain bsz a k fuel acc in
    GI pre acc' /\ (g_done acc' = false -> Kprop None acc').
  Proof.
    intro Hpre. induction fuel as [|f IH]; intros k acc G Hd HK Hvis Hprev Hnb Hcn Hk0 Hsk Hfuel; cbn zeta.
    - exfalso. pose proof (range_in_length (g_sk acc) a k0 k Hsk). change (N.of_nat 0) with 0 in Hfuel. lia.
    - cbn [g_chain]. destruct (mem slot_eqb (a, k) (g_sk acc)) eqn:E.
      + apply (mem_In slot_eqb slot_eqb_spec) in E.
        assert (Hr : ready_slot (a, k)).
        { destruct (GI_sk _ _ G (a, k) E) as [[ts H] _]. exists ts.
          apply Hpre. exact H. }
        destruct (take_ok pre acc a k G Hd Hr Hnb (or_intror Hprev)) as [Hb [Hs [Hd' [Hl Hrest]]]].
        cbn zeta in *.
        set (acc1 := g_take (a, k) acc) in *.
        assert (Hvis1 : forall k', In k' pre -> In (snd k') (g_b acc1) \/ In (snd k') (g_sk acc1)).
        { intros k' Hk'. rewrite Hs. destruct (Hvis k' Hk') as [H|H]; [left; apply Hb; right; exact H | right; exact H]. }
        specialize (Hrest pre (incl_refl _) (fun _ => Hvis1)).
        destruct (len (g_r acc1) =? bsz) eqn:Es.
        * split; [exact Hrest | intro Hc; discriminate].
        * assert (HK1 : Kprop (Some (a, k + 1)) acc1).
          { intros b m Hin Hex Hnb1 Hp. rewrite Hs in Hin. apply Hb in Hp.
            assert (Hnb0 : ~ In (b, m) (g_b acc)) by (intro; apply Hnb1; apply Hb; right; assumption).
            destruct Hp as [Ep|Hp].
            - inversion Ep; subst. destruct (N.eq_dec m 0) as [->|Hm0].
              + (* m = 0: (b, m - 1) = (b, m) itself *) apply Hnb1. apply Hb. left. f_equal; lia.
              + apply Hex. f_equal. f_equal; lia.
            - destruct (slotP (b, m) (a, k)) as [Ebm|Hne].
              + apply Hnb1. apply Hb. left. exact Ebm.
              + apply (HK b m Hin); [congruence | exact Hnb0 | exact Hp]. }
          replace (k + 1 - 1) with k in * by lia.
          apply (IH (k + 1) acc1 Hrest Hd' HK1 Hvis1).
          -- replace (k + 1 - 1) with k by lia. apply Hb. left. reflexivity.
          -- intro H. apply Hb in H. destruct H as [H|H]; [inversion H; lia|].
             apply Hnb. replace k with (k + 1 - 1) by lia. apply (GI_down _ _ G); [exact H | lia].
          -- lia.
          -- lia.
          -- intros j Hj. rewrite Hs. destruct (N.eq_dec j k) as [->|Hne]; [exact E | apply Hsk; lia].
          -- rewrite Hs. cbn [Nat.add] in Hfuel. lia.
      + split; [exact G|]. intros _ b m Hin _ Hnb1. apply (HK b m Hin); [|exact Hnb1].
        intro Ex. inversion Ex; subst. apply (mem_false slot_eqb slot_eqb_spec) in E. contradiction.
  Qed.

  Lemma GI_mono pre pre' acc : GI pre acc -> incl pre pre' ->
    (g_done acc = false -> forall k, In k pre' -> In (snd k) (g_b acc) \/ In (snd k) (g_sk acc)) -> GI pre' acc.
  Proof.
    intros G Hi Hv. constructor; try (apply G); [|exact Hv].
    intros sl Hin. destruct (GI_sk _ _ G sl Hin) as [[ts H1] H2]. split; [exists ts; apply Hi; exact H1 | exact H2].
  Qed.

  Lemma K_take acc acc1 a j ex :
    (ex = None \/ ex = Some (a, j)) -> Kprop ex acc ->
    (forall x, In x (g_b acc1) <-> x = (a, j) \/ In x (g_b acc)) -> g_sk acc1 = g_sk acc ->
    Kprop (Some (a, j + 1)) acc1.
  Proof.
    intros Hex HK Hb Hs b m Hin Hne Hnb1 Hp. rewrite Hs in Hin. apply Hb in Hp.
    assert (Hnb0 : ~ In (b, m) (g_b acc)) by (intro; apply Hnb1; apply Hb; right; assumption).
    destruct Hp as [Ep|Hp].
    - inversion Ep; subst. destruct (N.eq_dec m 0) as [->|Hm0].
      + apply Hnb1. apply Hb. left. f_equal; lia.
      + apply Hne. f_equal. f_equal; lia.
    - destruct (slotP (b, m) (a, j)) as [Ebm|Hn].
      + apply Hnb1. apply Hb. left. exact Ebm.
      + apply (HK b m Hin); [destruct Hex as [->| ->]; congruence | exact Hnb0 | exact Hp].
  Qed.

  Lemma step_ok pre acc k :
    incl (pre ++ [k]) pr -> GI pre acc -> (g_done acc = false -> Kprop None acc) ->
    let acc' := g_step s bsz acc k in
    GI (pre ++ [k]) acc' /\ (g_done acc' = false -> Kprop None acc').
  Proof.
    intros Hpre G HK. cbn zeta. unfold g_step.
    assert (Hi : incl pre (pre ++ [k])) by (intros x Hx; apply in_or_app; left; exact Hx).
    destruct (g_done acc) eqn:Hd.
    { split; [|rewrite Hd; discriminate]. apply (GI_mono pre); auto. rewrite Hd. discriminate. }
    specialize (HK eq_refl).
    destruct k as [ts [a n]]. cbn [fst snd].
    assert (Hr : ready_slot (a, n)) by (exists ts; apply Hpre; apply in_or_app; right; left; reflexivity).
    destruct (ready_slot_facts a n Hr) as [Hcn [Hpn Hit]].
    destruct (mem slot_eqb (a, n) (g_b acc)) eqn:Eb.
    { apply (mem_In slot_eqb slot_eqb_spec) in Eb.
      split; [|intros _; exact HK]. apply (GI_mono pre); auto. intros _ k' Hk'.
      apply in_app_iff in Hk'. destruct Hk' as [Hk'|[<-|[]]]; [apply (GI_vis _ _ G Hd); exact Hk' | left; exact Eb]. }
    apply (mem_false slot_eqb slot_eqb_spec) in Eb.
    destruct (((1 <=? n) && mem slot_eqb (a, n - 1) (g_b acc)) || (n =? get_cn s a)) eqn:El.
    - (* taken *)
      assert (Hel : n = get_cn s a \/ In (a, n - 1) (g_b acc)).
      { apply orb_true_iff in El. destruct El as [El|El].
        - apply andb_true_iff in El. right. apply (mem_In slot_eqb slot_eqb_spec). tauto.
        - left. apply N.eqb_eq. exact El. }
      destruct (take_ok pre acc a n G Hd Hr Eb Hel) as [Hb [Hs [Hd' [Hl Hrest]]]]. cbn zeta in *.
      set (acc1 := g_take (a, n) acc) in *.
      assert (Hvis1 : forall k', In k' (pre ++ [(ts, (a, n))]) -> In (snd k') (g_b acc1) \/ In (snd k') (g_sk acc1)).
      { intros k' Hk'. rewrite Hs. apply in_app_iff in Hk'. destruct Hk' as [Hk'|[<-|[]]].
        - destruct (GI_vis _ _ G Hd k' Hk') as [H|H]; [left; apply Hb; right; exact H | right; exact H].
        - left. apply Hb. left. reflexivity. }
      specialize (Hrest (pre ++ [(ts, (a, n))]) Hi (fun _ => Hvis1)).
      destruct (len (g_r acc1) =? bsz) eqn:Es.
      + split; [exact Hrest | intro Hc; discriminate].
      + apply (chain_ok (pre ++ [(ts, (a, n))]) a (n + 1) Hpre (S (length (g_sk acc1))) (n + 1) acc1 Hrest Hd').
        * eapply K_take; [left; reflexivity | exact HK | exact Hb | exact Hs].
        * exact Hvis1.
        * replace (n + 1 - 1) with n by lia. apply Hb. left. reflexivity.
        * intro H. apply Hb in H. destruct H as [H|H]; [inversion H; lia|].
          apply Eb. replace n with (n + 1 - 1) by lia. apply (GI_down _ _ G); [exact H | lia].
        * lia.
        * lia.
        * intros j Hj. lia.
        * unfold len. lia.
    - (* skipped *)
      apply orb_false_iff in El. destruct El as [El1 El2]. apply N.eqb_neq in El2.
      split.
      + constructor; cbn [g_b g_r g_sk g_done]; try (apply G).
        * intros sl Hin. apply (In_sadd slot_eqb slot_eqb_spec) in Hin. destruct Hin as [->|Hin].
          -- split; [exists ts; apply in_or_app; right; left; reflexivity | exact El2].
          -- destruct (GI_sk _ _ G sl Hin) as [[ts' H1] H2]. split; [exists ts'; apply Hi; exact H1 | exact H2].
        * intros _ k' Hk'. apply in_app_iff in Hk'. destruct Hk' as [Hk'|[<-|[]]].
          -- destruct (GI_vis _ _ G Hd k' Hk') as [H|H]; [left; exact H | right; apply (In_sadd slot_eqb slot_eqb_spec); right; exact H].
          -- right. apply (In_sadd slot_eqb slot_eqb_spec). left. reflexivity.
        * pose proof (GI_size _ _ G) as Hz. rewrite Hd in Hz. exact Hz.
      + cbn [g_done]. intros _ b m Hin _ Hnb Hp. cbn [g_sk g_b] in *.
        apply (In_sadd slot_eqb slot_eqb_spec) in Hin. destruct Hin as [E|Hin].
        * inversion E; subst. destruct (N.eq_dec n 0) as [->|Hn0].
          -- apply Hnb. exact Hp.
          -- apply andb_false_iff in El1. destruct El1 as [El1|El1]; [lia|].
             apply (mem_false slot_eqb slot_eqb_spec) in El1. contradiction.
        * apply (HK b m Hin); [discriminate | exact Hnb | exact Hp].
  Qed.

  Lemma loop_ok post : forall pre acc,
    pr = pre ++ post -> GI pre acc -> (g_done acc = false -> Kprop None acc) ->
    let acc' := fold_left (g_step s bsz) post acc in
    GI pr acc' /\ (g_done acc' = false -> Kprop None acc').
  Proof.
    induction post as [|k r IH]; intros pre acc Hpr G HK; cbn zeta; cbn [fold_left].
    - rewrite app_nil_r in Hpr. subst pre. split; assumption.
    - assert (Hpr' : pr = (pre ++ [k]) ++ r) by (rewrite <- app_assoc; exact Hpr).
      destruct (step_ok pre acc k) as [G1 K1]; auto.
      { rewrite Hpr'. intros x Hx. apply in_or_app. left. exact Hx. }
      apply (IH (pre ++ [k])); assumption.
  Qed.

  Definition accF : gacc := fold_left (g_step s bsz) pr (mkG B0 [] [] false).

  Lemma accF_ok : GI pr accF /\ (g_done accF = false -> Kprop None accF).
  Proof.
    apply (loop_ok pr [] (mkG B0 [] [] false)); [reflexivity | exact GI_init |].
    intros _ a n [].
  Qed.

  (** without the size bound every ready slot ends up batched *)
  Lemma gen_complete : g_done accF = false -> forall k, In k pr -> In (snd k) (g_b accF).
  Proof.
    intro Hd. destruct accF_ok as [G K]. specialize (K Hd).
    assert (H : forall n a ts, In (ts, (a, n)) pr -> In (a, n) (g_b accF)).
    { intro n. induction n as [n IHn] using (well_founded_induction N.lt_wf_0). intros a ts Hin.
      destruct (GI_vis _ _ G Hd _ Hin) as [H|H]; [exact H|]. cbn [snd] in H.
      destruct (in_dec (fun x y => match slotP x y with ReflectT _ e => left e | ReflectF _ ne => right ne end) (a, n) (g_b accF)) as [Hy|Hnb]; [exact Hy|].
      exfalso.
      destruct (GI_sk _ _ G _ H) as [_ Hne]. cbn [fst snd] in Hne.
      destruct (ready_slot_facts a n (ex_intro _ ts Hin)) as [Hcn [Hpn _]].
      assert (Hprev : item_at s (a, n - 1) <> None) by (apply (I_run _ _ _ I); lia).
      destruct (item_at s (a, n - 1)) as [t|] eqn:Et; [|congruence].
      assert (Hin' : In (t_ts t, (a, n - 1)) pr).
      { apply (I_prio _ _ _ I). exists t. repeat split; [exact Et | lia]. }
      apply (K a n H); [discriminate | exact Hnb|]. apply (IHn (n - 1)) with (ts := t_ts t); [lia | exact Hin']. }
    intros [ts [a n]] Hk. cbn [snd]. eapply H. exact Hk.
  Qed.

  Lemma gen_unb_done : g_done accF = false -> len (unb (g_b accF)) = 0.
  Proof.
    intro Hd. unfold unb. rewrite (filter_ext_in _ (fun _ => false)).
    - clear. induction pr; cbn; auto.
    - intros k Hk. apply negb_false_iff. apply (mem_In slot_eqb slot_eqb_spec). apply gen_complete; assumption.
  Qed.

  (** the number of transactions taken *)
  Lemma gen_len : len (g_r accF) = if g_done accF then bsz else len (unb B0).
  Proof.
    destruct accF_ok as [G _]. pose proof (GI_size _ _ G) as Hs. pose proof (GI_cnt _ _ G) as Hc.
    destruct (g_done accF) eqn:Hd; [exact Hs|]. rewrite gen_unb_done in Hc by exact Hd. lia.
  Qed.

  Lemma gen_len_le : len (g_r accF) <= len (unb B0).
  Proof. destruct accF_ok as [G _]. pose proof (GI_cnt _ _ G). lia. Qed.
End Loop.

(* ------------------------------------------------------------------------- generate / GenerateBlock *)

Lemma filter_len_mono' {A} (f g : A -> bool) l :
  (forall x, In x l -> f x = true -> g x = true) -> len (filter f l) <= len (filter g l).
Proof.
  induction l as [|x t IH]; intro H; cbn; [lia|].
  assert (IH' : len (filter f t) <= len (filter g t)) by (apply IH; intros; apply H; cbn; auto).
  destruct (f x) eqn:F.
  - rewrite (H x (or_introl eq_refl) F). rewrite !len_cons. lia.
  - destruct (g x); rewrite ?len_cons; lia.
Qed.

Lemma batch_size_pos p : 1 <= batch_size p.
Proof. unfold batch_size. destruct (p_batch p =? 0) eqn:E; lia. Qed.

Lemma live_unbatched_nil s : live_unbatched s [] = unb s (batched s).
Proof.
  unfold live_unbatched, unb. apply filter_ext. intros k. unfold ub_pred. cbn. rewrite andb_true_r. reflexivity.
Qed.

Section Generate.
  Variable p : params.
  Variable s : state.
  Hypothesis I : Inv s.

  Definition gen_bsz : N := if batch_size p <? pnbs s then batch_size p else pnbs s.
  Definition gen_acc : gacc := accF s gen_bsz.
  Definition gen_slots : list slot := g_r gen_acc.

  Lemma gen_GI : GI s gen_bsz (priority s) gen_acc.
  Proof. apply accF_ok. exact I. Qed.

  Lemma unb_le_pnbs : len (unb s (batched s)) <= pnbs s.
  Proof. rewrite <- live_unbatched_nil. exact (I_pnbs _ _ _ I). Qed.

  Lemma gen_slots_le_pnbs : len gen_slots <= pnbs s.
  Proof. pose proof (gen_len_le s I gen_bsz). pose proof unb_le_pnbs. unfold gen_slots, gen_acc. lia. Qed.

  Lemma gen_size_facts :
    len gen_slots <= len (unb s (batched s)) /\ len (unb s (batched s)) <= pnbs s /\ 1 <= batch_size p /\
    (gen_bsz = batch_size p /\ batch_size p < pnbs s \/ gen_bsz = pnbs s /\ pnbs s <= batch_size p) /\
    (g_done gen_acc = true /\ len gen_slots = gen_bsz \/
     g_done gen_acc = false /\ len gen_slots = len (unb s (batched s)) /\ (gen_bsz = 0 \/ len gen_slots < gen_bsz)).
  Proof.
    split; [apply (gen_len_le s I gen_bsz)|]. split; [apply unb_le_pnbs|]. split; [apply batch_size_pos|].
    split.
    - unfold gen_bsz. destruct (batch_size p <? pnbs s) eqn:E; [left | right]; split; auto; lia.
    - pose proof (gen_len s I gen_bsz) as Hl. pose proof (GI_size _ _ _ _ gen_GI) as Hs.
      fold gen_acc in Hl. unfold gen_slots.
      destruct (g_done gen_acc); [left; split; [reflexivity | exact Hs] | right].
      split; [reflexivity|]. split; [exact Hl|]. exact Hs.
  Qed.

  Lemma gen_slots_bound : len gen_slots <= batch_size p.
  Proof. destruct gen_size_facts as [H1 [H2 [H3 [H4 H5]]]]. lia. Qed.

  (** exact size: the batch takes min(ready-unbatched, batch size) slots *)
  Lemma gen_slots_exact :
    len gen_slots = N.min (len (unb s (batched s))) (batch_size p).
  Proof. destruct gen_size_facts as [H1 [H2 [H3 [H4 H5]]]]. lia. Qed.

  Definition gen_err : bool := negb (p_timed p) && (len gen_slots =? 0) && (0 <? pnbs s).

  Lemma generate_eq :
    generate p s =
    if gen_err then (set_pnbs (set_batched s (g_b gen_acc)) 0, None)
    else (set_pnbs (set_seqno (set_batched s (g_b gen_acc)) (seqno s + 1)) (pnbs s - len gen_slots),
          Some (seqno s + 1, map (tx_at s) gen_slots)).
  Proof.
    unfold generate, gen_err, gen_slots, gen_acc, accF, gen_bsz.
    set (acc := fold_left _ _ _).
    destruct (negb (p_timed p) && (len (g_r acc) =? 0) && (0 <? pnbs s)); [reflexivity|].
    assert (Hlen : len (map (tx_at s) (g_r acc)) = len (g_r acc)) by (unfold len; rewrite map_length; reflexivity).
    rewrite Hlen.
    assert (Hle : len (g_r acc) <= pnbs s) by (apply gen_slots_le_pnbs).
    replace (len (g_r acc) <=? pnbs s) with true by lia. reflexivity.
  Qed.

  Lemma gen_b_spec sl : In sl (g_b gen_acc) <-> In sl (batched s) \/ In sl gen_slots.
  Proof. apply (GI_b _ _ _ _ gen_GI). Qed.

  Lemma gen_slot_ready a n : In (a, n) gen_slots ->
    get_cn s a <= n /\ n < get_pn s a /\ item_at s (a, n) <> None /\ ~ In (a, n) (batched s).
  Proof.
    intro H. pose proof (GI_r_ready _ _ _ _ gen_GI _ H) as Hr.
    destruct (ready_slot_facts s I a n Hr) as [H1 [H2 H3]]. repeat split; auto.
    (* not batched before: from seq_ok *)
    pose proof (GI_seq _ _ _ _ gen_GI) as Hs. fold gen_slots in Hs.
    clear - Hs H. revert Hs. generalize (batched s) as b. induction gen_slots as [|x r IH]; [destruct H|].
    intros b [He Hs]. destruct H as [->|H].
    - destruct He as [_ [He _]]. exact He.
    - intro Hb. apply (IH H (x :: b) Hs). right. exact Hb.
  Qed.

  Lemma generate_inv : Inv (fst (generate p s)).
  Proof.
    rewrite generate_eq.
    assert (Hcommon : forall s', hashmap s' = hashmap s -> items s' = items s -> index s' = index s ->
              cnonce s' = cnonce s -> pnonce s' = pnonce s -> ledger s' = ledger s -> arrival s' = arrival s ->
              parking s' = parking s -> priority s' = priority s -> batched s' = g_b gen_acc ->
              len (unb s (g_b gen_acc)) <= pnbs s' -> Inv s').
    { intros s' E1 E2 E3 E4 E5 E6 E7 E8 E9 E10 Hp.
      assert (Hit : forall x, item_at s' x = item_at s x) by (intro; unfold item_at; rewrite E2; reflexivity).
      assert (Hcn : forall a, get_cn s' a = get_cn s a) by (intro; unfold get_cn; rewrite E4, E6; reflexivity).
      assert (Hpn : forall a, get_pn s' a = get_pn s a) by (intro; unfold get_pn; rewrite E5, Hcn; reflexivity).
      constructor.
      - rewrite E1. exact (I_hm_nodup _ _ _ I).
      - intros h sl. rewrite E1, Hit. apply (I_hm_wf _ _ _ I).
      - intros sl t. rewrite Hit. apply (I_it_slot _ _ _ I).
      - intros a n t. rewrite Hit, E1, Hcn. apply (I_it_hash _ _ _ I).
      - intros sl. rewrite E3, Hit. apply (I_idx _ _ _ I).
      - intros a. rewrite Hcn, Hpn. apply (I_cn_pn _ _ _ I).
      - intros a n. rewrite Hit, Hcn. apply (I_it_cn _ _ _ I).
      - intros a n. rewrite Hit, Hcn, Hpn. apply (I_run _ _ _ I).
      - intros a. rewrite Hit, Hpn. apply (I_next _ _ _ I).
      - intros a n. rewrite Hit, E5. apply (I_pn_entry _ _ _ I).
      - intros ts a n. rewrite E9, Hpn. setoid_rewrite Hit. apply (I_prio _ _ _ I).
      - rewrite E9. exact (I_prio_sorted _ _ _ I).
      - intros a n. rewrite Hit, Hpn, E8. apply (I_park _ _ _ I).
      - intros a n. rewrite E10, Hpn, gen_b_spec. intros [H|H]; [apply (I_b_hi _ _ _ I); exact H | apply gen_slot_ready in H; tauto].
      - intros a n _. rewrite E10, Hcn. intro H. eapply GI_lo; [exact I | exact gen_GI | exact H].
      - intros a n. rewrite E10, Hcn. apply (GI_down _ _ _ _ gen_GI).
      - intros [a n]. rewrite E10, Hit, gen_b_spec. intros [H|H]; [apply (I_b_item _ _ _ I); exact H | apply gen_slot_ready in H; tauto].
      - eapply N.le_trans; [|exact Hp]. unfold live_unbatched, unb. rewrite E9.
        apply filter_len_mono'. intros k _. unfold ub_pred. cbn [mem existsb andb]. rewrite E10, andb_true_r. auto.
      - intros sl. rewrite E7, Hit. apply (I_arr _ _ _ I). }
    pose proof (GI_cnt _ _ _ _ gen_GI) as Hc. fold gen_slots in Hc.
    destruct gen_err eqn:Ee; cbn [fst].
    - apply Hcommon; try reflexivity. cbn [pnbs set_pnbs].
      unfold gen_err in Ee. apply andb_true_iff in Ee. destruct Ee as [Ee Epos]. apply andb_true_iff in Ee. destruct Ee as [_ Ez].
      (* nothing was taken although the bound was positive: every ready slot is batched *)
      assert (Hd : g_done gen_acc = false).
      { destruct (g_done gen_acc) eqn:Hd; [|reflexivity]. exfalso.
        pose proof (GI_size _ _ _ _ gen_GI) as Hs. rewrite Hd in Hs. fold gen_slots in Hs.
        pose proof (batch_size_pos p). unfold gen_bsz in Hs. destruct (batch_size p <? pnbs s) eqn:E; lia. }
      pose proof (gen_unb_done s I gen_bsz Hd) as Hz. fold gen_acc in Hz. lia.
    - apply Hcommon; try reflexivity. cbn [pnbs set_pnbs set_seqno set_batched].
      pose proof unb_le_pnbs. lia.
  Qed.
End Generate.
