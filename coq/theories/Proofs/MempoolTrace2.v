(** Trace proofs, part 2: one step of each kind keeps the walker in simulation with the pool and
    raises no failure code. *)
From BX Require Import Base.Prelude Model.Mempool Model.MempoolSpec.
From BX Require Import Proofs.MempoolLib Proofs.MempoolInv Proofs.MempoolInvOps Proofs.MempoolCommit
  Proofs.MempoolGen Proofs.MempoolReach Proofs.MempoolEffects Proofs.MempoolTrace.
From Coq Require Import ZifyBool ZifyN ZifyNat.
Local Open Scope N_scope.

Section Steps.
  Variable p : params.
  Variables (accts : list N) (univ : list tx).

  Notation observe := (observe cfg_fixed p accts univ).
  Notation Sim := (Sim p accts univ).
  Notation closed := (closed accts univ).

  (* ----------------------------------------------------------------------- a batch generation *)

  (** what [generate] / [generate_block] leave unchanged *)
  Lemma generate_same s : Inv s ->
    let s' := fst (generate p s) in
    items s' = items s /\ hashmap s' = hashmap s /\ arrival s' = arrival s /\ cnonce s' = cnonce s /\
    ledger s' = ledger s /\ pnonce s' = pnonce s.
  Proof. intro I. cbn zeta. rewrite (generate_eq p s I). destruct (gen_err p s); cbn; repeat split. Qed.

  Lemma generate_block_same s : Inv s ->
    let s' := fst (generate_block p s) in
    items s' = items s /\ hashmap s' = hashmap s /\ arrival s' = arrival s /\ cnonce s' = cnonce s /\
    ledger s' = ledger s /\ pnonce s' = pnonce s.
  Proof.
    intro I. cbn zeta. unfold generate_block. destruct (negb (p_timed p) && (pnbs s =? 0)); [repeat split|].
    apply generate_same. exact I.
  Qed.

  Lemma gen_check s lg cm sub B :
    Inv s -> closed s ->
    (forall sl, In sl B <-> In sl (batched s)) ->
    (forall h, In h (map fst (hashmap s)) -> In h sub) ->
    (forall a, lookup0 a lg <= get_cn s a) ->
    (forall a, In a accts -> cm a = get_cn s a) ->
    forall s' ob, generate p s = (s', ob) ->
    exists B1, check_batches p lg cm sub B (seqno s) (opt_list ob) = ([], B1, seqno s') /\
      (forall sl, In sl B1 <-> In sl (batched s')) /\
      (forall b t, In b (opt_list ob) -> In t (snd b) -> item_at s (slot_of t) = Some t).
  Proof.
    intros I C HB Hsub Hlg Hcm s' ob E. rewrite (generate_eq p s I) in E.
    destruct (gen_err p s) eqn:Ee; inversion E; subst; clear E; cbn [opt_list check_batches].
    - (* nothing taken *)
      exists B. split; [reflexivity|]. split; [|intros b t []].
      intros sl. scbn. rewrite (gen_b_spec p s I), HB.
      unfold gen_err in Ee. apply andb_true_iff in Ee. destruct Ee as [Ee _]. apply andb_true_iff in Ee. destruct Ee as [_ Ez].
      apply N.eqb_eq in Ez. destruct (gen_slots p s) as [|x l]; [cbn; tauto | unfold len in Ez; cbn in Ez; lia].
    - destruct (check_txs_ok s lg cm sub I Hsub Hlg (gen_slots p s) B (batched s) HB (GI_seq _ _ _ _ (gen_GI p s I))) as [B2 [E2 HB2]].
      + intros [a n] Hin. destruct (gen_slot_ready p s I a n Hin) as [_ [_ [Hit _]]]. split; [exact Hit|].
        cbn [fst]. apply Hcm. destruct (item_at s (a, n)) as [t|] eqn:Et; [|congruence].
        destruct (C _ _ Et) as [_ Ha]. pose proof (I_it_slot _ _ _ I _ _ Et) as Hs. destruct t; inversion Hs; subst. exact Ha.
      + exists B2. unfold check_batch. cbn [fst snd]. rewrite E2. split.
        * assert (Hl : len (map (tx_at s) (gen_slots p s)) = len (gen_slots p s)) by (unfold len; rewrite map_length; reflexivity).
          pose proof (gen_slots_bound p s I) as Hb.
          replace (batch_size p <? len (map (tx_at s) (gen_slots p s))) with false by lia.
          rewrite N.eqb_refl. reflexivity.
        * split.
          -- intros sl. scbn. rewrite HB2, (gen_b_spec p s I), HB. tauto.
          -- intros b t [<-|[]] Hin. cbn [snd] in Hin. apply in_map_iff in Hin. destruct Hin as [[a n] [<- Hin]].
             destruct (gen_slot_ready p s I a n Hin) as [_ [_ [Hit _]]].
             destruct (item_at s (a, n)) as [t|] eqn:Et; [|congruence].
             destruct (tx_at_slot s (a, n) t I Et) as [-> ->]. exact Et.
  Qed.

  Lemma gen_block_check s lg cm sub B :
    Inv s -> closed s ->
    (forall sl, In sl B <-> In sl (batched s)) ->
    (forall h, In h (map fst (hashmap s)) -> In h sub) ->
    (forall a, lookup0 a lg <= get_cn s a) ->
    (forall a, In a accts -> cm a = get_cn s a) ->
    forall s' ob, generate_block p s = (s', ob) ->
    exists B1, check_batches p lg cm sub B (seqno s) (opt_list ob) = ([], B1, seqno s') /\
      (forall sl, In sl B1 <-> In sl (batched s')) /\
      (forall b t, In b (opt_list ob) -> In t (snd b) -> item_at s (slot_of t) = Some t).
  Proof.
    intros I C HB Hsub Hlg Hcm s' ob E. unfold generate_block in E.
    destruct (negb (p_timed p) && (pnbs s =? 0)).
    - inversion E; subst. exists B. cbn. split; [reflexivity|]. split; [exact HB | intros b t []].
    - eapply gen_check; eauto.
  Qed.

  (* ----------------------------------------------------------------------- assembling one step *)

  Notation check_step := (check_step p accts univ).
  Notation st_batches := (st_batches p accts).

  Lemma st_batches_nil w o ob : is_drain o = false -> o_batches ob = [] ->
    st_batches w o ob = ([], st_B0 w o, st_seq0 w o, cm_prev accts w).
  Proof. intros Hd Hb. unfold MempoolSpec.st_batches. rewrite Hd, Hb. reflexivity. Qed.

  Lemma e_current_nil o ob : o_batches ob = [] -> e_current univ o ob = [].
  Proof. intro H. unfold e_current. rewrite H. destruct (is_drain o); reflexivity. Qed.

  Lemma live_spec cm B x : In x (live cm B) <-> In x B /\ cm (fst x) <= snd x.
  Proof. unfold live. rewrite filter_In, N.leb_le. tauto. Qed.

  Lemma assemble w o ob B1 seq1 cme s' bs r :
    ob = observe s' bs r ->
    st_batches w o ob = ([], B1, seq1, cme) ->
    e_current univ o ob = [] -> e_commit_nonce accts w o ob cme = [] -> e_commit_missed accts w o ob = [] ->
    e_lost accts univ w o ob = [] -> e_admitted accts univ w o ob = [] -> e_liveness p accts univ w o ob = [] ->
    Inv s' -> closed s' ->
    (forall sl, In sl (live (obs_cmt accts ob) B1) <-> In sl (batched s')) ->
    (forall h, In h (map fst (hashmap s')) -> In h (st_sub w o)) ->
    check_step w o ob = ([], mkW (live (obs_cmt accts ob) B1) seq1 (st_sub w o) (st_arr univ w o ob) (st_led w o) (st_live univ w o ob) ob).
  Proof.
    intros -> Hb H2 H3 H4 H5 H6 H10 I C HB Hsub. unfold MempoolSpec.check_step. rewrite Hb.
    destruct (post_checks p accts univ s' o bs r _ w I C HB Hsub) as [P1 [P2 [P3 P4]]].
    rewrite H2, H3, H4, H5, H6, H10, P1, P2, P3, P4. reflexivity.
  Qed.

  (** the batched set seen through the live filter with the post-state commit nonces *)
  Lemma live_batched s' bs r B1 : Inv s' -> closed s' ->
    (forall sl, In sl B1 <-> In sl (batched s')) ->
    forall sl, In sl (live (obs_cmt accts (observe s' bs r)) B1) <-> In sl (batched s').
  Proof.
    intros I C HB [a n]. rewrite live_spec, HB. cbn [fst snd]. split; [tauto|]. intro H. split; [exact H|].
    pose proof (I_b_item _ _ _ I _ H) as Hit. destruct (item_at s' (a, n)) as [t|] eqn:Et; [|congruence].
    destruct (C _ _ Et) as [_ Ha]. pose proof (I_it_slot _ _ _ I _ _ Et) as Hs. destruct t; inversion Hs; subst. cbn in Ha.
    rewrite (obs_cmt_observe p accts univ s' bs r _ Ha). apply (I_b_lo _ _ _ I); [intros [] | exact H].
  Qed.

  Lemma conclude w o B1 seq1 cme s' bs r :
    let ob := observe s' bs r in
    st_batches w o ob = ([], B1, seq1, cme) ->
    e_current univ o ob = [] -> e_commit_nonce accts w o ob cme = [] -> e_commit_missed accts w o ob = [] ->
    e_lost accts univ w o ob = [] -> e_admitted accts univ w o ob = [] -> e_liveness p accts univ w o ob = [] ->
    Inv s' -> closed s' ->
    (forall sl, In sl (live (obs_cmt accts ob) B1) <-> In sl (batched s')) ->
    (forall h, In h (map fst (hashmap s')) -> In h (st_sub w o)) ->
    seq1 = seqno s' ->
    (forall t, In t (st_sub w o) -> In t univ /\ In (t_acct t) accts) ->
    (forall t, item_at s' (slot_of t) = Some t ->
       alookup tx_eqb t (st_arr univ w o ob) = alookup slot_eqb (slot_of t) (arrival s')) ->
    NoDup (map fst (arrival s')) ->
    (forall a, lookup0 a (st_led w o) <= get_cn s' a) ->
    (forall h, In h (st_live univ w o ob) -> In h (map fst (hashmap s'))) ->
    fst (check_step w o ob) = [] /\ Sim (snd (check_step w o ob)) s'.
  Proof.
    intros ob Hb H2 H3 H4 H5 H6 H10 I C HB Hsub Hseq Hfr Harr Hnd Hled Hlive.
    rewrite (assemble w o ob B1 seq1 cme s' bs r eq_refl Hb H2 H3 H4 H5 H6 H10 I C HB Hsub).
    split; [reflexivity|]. cbn [snd]. constructor; cbn [w_B w_seq w_sub w_arr w_led w_live w_prev]; auto.
    exists bs, r. reflexivity.
  Qed.

  (* ----------------------------------------------------------------------- SetBatchSeqNo *)

  Lemma e_cn_same w o ob cme : (forall a, In a accts -> cn_ok accts w o ob cme a = true) -> e_commit_nonce accts w o ob cme = [].
  Proof.
    intro H. unfold e_commit_nonce, flag. replace (forallb (cn_ok accts w o ob cme) accts) with true; [reflexivity|].
    symmetry. apply forallb_forall. exact H.
  Qed.

  Lemma e_lost_ok w o ob : (forall t, In t univ -> held univ (w_prev w) t = true -> held univ ob t = false -> lost_ok accts univ w o ob t = true) ->
    e_lost accts univ w o ob = [].
  Proof.
    intro H. unfold e_lost, flag. replace (forallb _ univ) with true; [reflexivity|]. symmetry. apply forallb_forall.
    intros t Ht. destruct (held univ (w_prev w) t) eqn:E1; [|reflexivity]. destruct (held univ ob t) eqn:E2; [reflexivity|].
    cbn. apply H; assumption.
  Qed.

  Lemma held_same s s' bs r bs' r' t : Inv s -> Inv s' -> (forall x, item_at s' x = item_at s x) ->
    held univ (observe s' bs' r') t = held univ (observe s bs r) t.
  Proof.
    intros I I' H. apply eq_true_iff_eq. rewrite (held_observe p accts univ s' bs' r' t I'), (held_observe p accts univ s bs r t I), H. tauto.
  Qed.

  Section SetSeq.
    Variables (w : wst) (s : state) (n : N).
    Hypothesis I : Inv s.
    Hypothesis S : Sim w s.
    Let s' := set_seqno s n.
    Let ob := observe s' [] 0.

    Lemma setseq_ok : fst (check_step w (OSetSeq n) ob) = [] /\ Sim (snd (check_step w (OSetSeq n) ob)) s'.
    Proof.
      assert (I' : Inv s') by (apply set_seqno_inv; exact I).
      assert (C : closed s') by (intros sl t E; apply (Sim_closed p accts univ w s I S sl t E)).
      destruct (S_prev _ _ _ _ _ S) as [pbs [pr Ep]]. unfold ob.
      apply (conclude w (OSetSeq n) (w_B w) n (cm_prev accts w) s' [] 0).
      - reflexivity.
      - reflexivity.
      - apply e_cn_same. intros a Ha. cbn [cn_ok]. rewrite Ep.
        rewrite (obs_cmt_observe p accts univ s' [] 0 a Ha), (obs_cmt_observe p accts univ s pbs pr a Ha). apply N.eqb_refl.
      - reflexivity.
      - apply e_lost_ok. intros t Ht H1 H2. exfalso. rewrite Ep in H1.
        rewrite (held_same s s' pbs pr [] 0 t I I') in H2 by reflexivity. congruence.
      - reflexivity.
      - reflexivity.
      - exact I'.
      - exact C.
      - apply (live_batched s' [] 0 (w_B w) I' C). apply (S_B _ _ _ _ _ S).
      - apply (S_sub _ _ _ _ _ S).
      - reflexivity.
      - apply (S_frame _ _ _ _ _ S).
      - apply (S_arr _ _ _ _ _ S).
      - apply (S_arr_nd _ _ _ _ _ S).
      - apply (S_led _ _ _ _ _ S).
      - cbn [st_live]. intros h Hh. apply filter_In in Hh. apply (S_live _ _ _ _ _ S). tauto.
    Qed.
  End SetSeq.

  (* ----------------------------------------------------------------------- restart *)

  Section Restart.
    Variables (w : wst) (h : N) (led : list (N * N)).
    Let s' := init_state h led.

    Lemma restart_ok : fst (check_step w (ORestart h led) (observe s' [] 0)) = [] /\
                       Sim (snd (check_step w (ORestart h led) (observe s' [] 0))) s'.
    Proof.
      assert (I' : Inv s') by apply Inv_init.
      assert (C : closed s') by (intros sl t E; discriminate).
      apply (conclude w (ORestart h led) [] h (cm_prev accts w) s' [] 0).
      - reflexivity.
      - reflexivity.
      - apply e_cn_same. intros a Ha. cbn [cn_ok].
        rewrite (obs_cmt_observe p accts univ s' [] 0 a Ha), (obs_pend_observe p accts univ s' [] 0 a Ha).
        unfold get_pn, get_cn. cbn. rewrite N.eqb_refl. reflexivity.
      - reflexivity.
      - apply e_lost_ok. intros; reflexivity.
      - reflexivity.
      - reflexivity.
      - exact I'.
      - exact C.
      - intros sl. cbn. tauto.
      - intros x [].
      - reflexivity.
      - intros t [].
      - intros t E. discriminate.
      - constructor.
      - intro a. unfold get_cn. cbn. lia.
      - intros x [].
    Qed.
  End Restart.

  (* ----------------------------------------------------------------------- RemoveAliveTimeoutTxs *)

  Section RemoveOldStep.
    Variables (w : wst) (s : state) (now dur : N).
    Hypothesis I : Inv s.
    Hypothesis S : Sim w s.
    Let s' := fst (remove_old cfg_fixed s now dur).
    Let r := snd (remove_old cfg_fixed s now dur).

    Lemma ro_keys x : In x (map fst (hashmap s')) -> In x (map fst (hashmap s)).
    Proof.
      intro H. destruct (alookup tx_eqb x (hashmap s')) as [sl|] eqn:E.
      - unfold s' in E. rewrite (ro_hashmap s now dur I) in E.
        destruct (mem tx_eqb x (evict_list s now dur)); [discriminate|].
        destruct (alookup tx_eqb x (hashmap s)) eqn:E2; [|discriminate].
        eapply (alookup_Some_key tx_eqb tx_eqb_spec). exact E2.
      - apply (alookup_None tx_eqb tx_eqb_spec) in E. contradiction.
    Qed.

    Lemma removeold_ok : fst (check_step w (ORemoveOld now dur) (observe s' [] r)) = [] /\
                         Sim (snd (check_step w (ORemoveOld now dur) (observe s' [] r))) s'.
    Proof.
      assert (I' : Inv s') by (apply remove_old_inv; exact I).
      pose proof (Sim_closed p accts univ w s I S) as C0.
      assert (Hsub_item : forall x v, item_at s' x = Some v -> item_at s x = Some v).
      { intros x v. unfold s'. rewrite (ro_item s now dur). destruct (mem slot_eqb x _); [discriminate | auto]. }
      assert (C : closed s') by (intros sl t E; apply (C0 sl t); apply Hsub_item; exact E).
      destruct (S_prev _ _ _ _ _ S) as [pbs [pr Ep]].
      assert (Hb : batched s' = batched s) by reflexivity.
      apply (conclude w (ORemoveOld now dur) (w_B w) (w_seq w) (cm_prev accts w) s' [] r).
      - reflexivity.
      - reflexivity.
      - apply e_cn_same. intros a Ha. cbn [cn_ok]. rewrite Ep.
        rewrite (obs_cmt_observe p accts univ s' [] r a Ha), (obs_cmt_observe p accts univ s pbs pr a Ha). apply N.eqb_refl.
      - reflexivity.
      - apply e_lost_ok. intros t Ht H1 H2.
        apply (prev_held p accts univ w s I S) in H1. destruct H1 as [_ H1].
        assert (Hgone : item_at s' (slot_of t) <> Some t).
        { intro E. assert (held univ (observe s' [] r) t = true) by (apply (held_observe p accts univ s' [] r t I'); auto). congruence. }
        unfold s' in Hgone. rewrite (ro_item s now dur) in Hgone.
        destruct (mem slot_eqb (slot_of t) (map slot_of (evict_list s now dur))) eqn:Em; [|contradiction].
        apply (mem_In slot_eqb slot_eqb_spec) in Em. apply in_map_iff in Em. destruct Em as [t' [Es Hin]].
        destruct (evict_list_spec s now dur t' I Hin) as [E1 [E2 [E3 [_ [ta [_ [Hta Hold]]]]]]].
        assert (t' = t) by (rewrite Es, H1 in E1; congruence). subst t'.
        cbn [lost_ok]. rewrite (S_arr _ _ _ _ _ S t H1).
        rewrite (In_alookup slot_eqb slot_eqb_spec (slot_of t) ta (arrival s) (S_arr_nd _ _ _ _ _ S) Hta).
        destruct (C0 _ _ H1) as [_ Ha].
        rewrite (prev_pend p accts univ w s S _ Ha).
        apply andb_true_iff. split; [apply andb_true_iff; split; lia|].
        apply negb_true_iff. apply (mem_false slot_eqb slot_eqb_spec). rewrite (S_B _ _ _ _ _ S). exact E2.
      - reflexivity.
      - reflexivity.
      - exact I'.
      - exact C.
      - apply (live_batched s' [] r (w_B w) I' C). intro sl. rewrite Hb. apply (S_B _ _ _ _ _ S).
      - intros x Hx. apply (S_sub _ _ _ _ _ S). apply ro_keys. exact Hx.
      - apply (S_seq _ _ _ _ _ S).
      - apply (S_frame _ _ _ _ _ S).
      - intros t E. pose proof (Hsub_item _ _ E) as E0. cbn [st_arr]. rewrite (S_arr _ _ _ _ _ S t E0).
        unfold s'. rewrite (ro_arrival s now dur). unfold s' in E. rewrite (ro_item s now dur) in E.
        destruct (mem slot_eqb (slot_of t) _); [discriminate | reflexivity].
      - unfold s', remove_old. scbn. apply (fold_aremove_NoDup slot_eqb slot_eqb_spec). apply (S_arr_nd _ _ _ _ _ S).
      - apply (S_led _ _ _ _ _ S).
      - cbn [st_live]. intros h Hh. apply filter_In in Hh. destruct Hh as [Hh Hs].
        pose proof (S_live _ _ _ _ _ S h Hh) as Hk.
        destruct (alookup tx_eqb h (hashmap s)) as [sl|] eqn:El; [|apply (alookup_None tx_eqb tx_eqb_spec) in El; contradiction].
        destruct (I_hm_wf _ _ _ I h sl El) as [-> _].
        apply (slot_held_observe p accts univ s' [] r _ I' C) in Hs.
        unfold s' in Hs. rewrite (ro_item s now dur) in Hs.
        destruct (mem slot_eqb (slot_of h) (map slot_of (evict_list s now dur))) eqn:Em; [congruence|].
        eapply (alookup_Some_key tx_eqb tx_eqb_spec). unfold s'. rewrite (ro_hashmap s now dur I).
        destruct (mem tx_eqb h (evict_list s now dur)) eqn:Eh; [|rewrite El, Em; reflexivity].
        exfalso. apply (mem_In tx_eqb tx_eqb_spec) in Eh. apply (mem_false slot_eqb slot_eqb_spec) in Em. apply Em. apply in_map. exact Eh.
    Qed.
  End RemoveOldStep.

  (* ----------------------------------------------------------------------- GenerateBlock *)

  Lemma e_current_ok o ob : (forall b t, In b (o_batches ob) -> In t (snd b) -> held univ ob t = true) -> e_current univ o ob = [].
  Proof.
    intro H. unfold e_current. destruct (is_drain o); [reflexivity|]. unfold flag.
    replace (forallb _ (o_batches ob)) with true; [reflexivity|]. symmetry. apply forallb_forall. intros b Hb.
    apply forallb_forall. intros t Ht. eapply H; eauto.
  Qed.

  Lemma get_cn_fields s s' : cnonce s' = cnonce s -> ledger s' = ledger s -> forall a, get_cn s' a = get_cn s a.
  Proof. intros E1 E2 a. unfold get_cn. rewrite E1, E2. reflexivity. Qed.

  Lemma item_fields s s' : items s' = items s -> forall x, item_at s' x = item_at s x.
  Proof. intros E x. unfold item_at. rewrite E. reflexivity. Qed.

  Section GenerateStep.
    Variables (w : wst) (s : state).
    Hypothesis I : Inv s.
    Hypothesis S : Sim w s.
    Let s' := fst (generate_block p s).
    Let bs := opt_list (snd (generate_block p s)).

    Lemma generate_ok : fst (check_step w OGenerate (observe s' bs 0)) = [] /\
                        Sim (snd (check_step w OGenerate (observe s' bs 0))) s'.
    Proof.
      assert (I' : Inv s') by (apply generate_block_inv; exact I).
      pose proof (Sim_closed p accts univ w s I S) as C0.
      destruct (generate_block_same s I) as [F1 [F2 [F3 [F4 [F5 F6]]]]]. cbn zeta in *. fold s' in F1, F2, F3, F4, F5, F6.
      assert (Hit : forall x, item_at s' x = item_at s x) by (apply item_fields; exact F1).
      assert (Hcn : forall a, get_cn s' a = get_cn s a) by (apply get_cn_fields; assumption).
      assert (C : closed s') by (intros sl t E; apply (C0 sl t); rewrite <- Hit; exact E).
      destruct (S_prev _ _ _ _ _ S) as [pbs [pr Ep]].
      destruct (gen_block_check s (w_led w) (obs_cmt accts (w_prev w)) (w_sub w) (w_B w) I C0
                  (S_B _ _ _ _ _ S) (S_sub _ _ _ _ _ S) (S_led _ _ _ _ _ S) (prev_cmt p accts univ w s S)
                  s' (snd (generate_block p s))) as [B1 [Eb [HB1 Hheld]]].
      { unfold s'. destruct (generate_block p s); reflexivity. }
      fold bs in Eb, Hheld. rewrite <- (S_seq _ _ _ _ _ S) in Eb.
      apply (conclude w OGenerate B1 (seqno s') (cm_prev accts w) s' bs 0).
      - unfold MempoolSpec.st_batches. cbn [is_drain o_batches Mempool.observe st_led st_sub st_B0 st_seq0]. rewrite Eb. reflexivity.
      - apply e_current_ok. cbn [o_batches Mempool.observe]. intros b t Hb Ht.
        apply (held_observe p accts univ s' bs 0 t I'). pose proof (Hheld b t Hb Ht) as E.
        split; [apply (C0 _ _ E) | rewrite Hit; exact E].
      - apply e_cn_same. intros a Ha. cbn [cn_ok]. rewrite Ep.
        rewrite (obs_cmt_observe p accts univ s' bs 0 a Ha), (obs_cmt_observe p accts univ s pbs pr a Ha), Hcn. apply N.eqb_refl.
      - reflexivity.
      - apply e_lost_ok. intros t Ht H1 H2. exfalso. rewrite Ep in H1.
        rewrite (held_same s s' pbs pr bs 0 t I I' Hit) in H2. congruence.
      - reflexivity.
      - reflexivity.
      - exact I'.
      - exact C.
      - apply (live_batched s' bs 0 B1 I' C). exact HB1.
      - rewrite F2. apply (S_sub _ _ _ _ _ S).
      - reflexivity.
      - apply (S_frame _ _ _ _ _ S).
      - intros t E. cbn [st_arr]. rewrite F3. rewrite Hit in E. apply (S_arr _ _ _ _ _ S). exact E.
      - rewrite F3. apply (S_arr_nd _ _ _ _ _ S).
      - intro a. rewrite Hcn. apply (S_led _ _ _ _ _ S).
      - cbn [st_live]. intros h Hh. apply filter_In in Hh. rewrite F2. apply (S_live _ _ _ _ _ S). tauto.
    Qed.
  End GenerateStep.

  (* ----------------------------------------------------------------------- ProcessTransactions *)

  Lemma fold_cond_aset (c : tx -> bool) (now : N) (l : list tx) : forall ar t,
    alookup tx_eqb t (fold_left (fun ar x => if c x then aset tx_eqb x now ar else ar) l ar) =
    if existsb (fun x => c x && tx_eqb t x) l then Some now else alookup tx_eqb t ar.
  Proof.
    induction l as [|x r IH]; intros ar t; cbn [fold_left existsb]; [reflexivity|].
    rewrite IH. destruct (c x) eqn:Ec; cbn [andb orb].
    - rewrite (alookup_aset tx_eqb tx_eqb_spec). destruct (tx_eqb t x); cbn [orb].
      + destruct (existsb _ r); reflexivity.
      + reflexivity.
    - reflexivity.
  Qed.

  Lemma fresh_valid_sub s prev sub txs : forall seenw seenf,
    (forall a, In a accts -> obs_pend accts prev a = get_pn s a) ->
    (forall t, In t txs -> In (t_acct t) accts) ->
    (forall h, In h (map fst (hashmap s)) -> In h sub) ->
    incl seenf seenw ->
    forall t, In t (fresh_valid accts prev sub seenw txs) -> In t (filter_valid s seenf txs).
  Proof.
    induction txs as [|x r IH]; intros seenw seenf Hp Hfr Hsub Hincl t Hin; [destruct Hin|].
    cbn [fresh_valid] in Hin. cbn [filter_valid].
    assert (Hfr' : forall t0, In t0 r -> In (t_acct t0) accts) by (intros; apply Hfr; right; assumption).
    assert (Hrec : forall sw sf, incl sf sw -> In t (fresh_valid accts prev sub sw r) -> In t (filter_valid s sf r))
      by (intros sw sf Hi Ht; apply (IH sw sf Hp Hfr' Hsub Hi t Ht)).
    rewrite (Hp (t_acct x) (Hfr x (or_introl eq_refl))) in Hin.
    destruct (t_nonce x <? get_pn s (t_acct x)) eqn:E1.
    - replace (get_pn s (t_acct x) <=? t_nonce x) with false in Hin by lia. cbn [andb] in Hin.
      apply (Hrec (slot_of x :: seenw) seenf); [intros y Hy; right; apply Hincl; exact Hy | exact Hin].
    - replace (get_pn s (t_acct x) <=? t_nonce x) with true in Hin by lia. cbn [andb] in Hin.
      destruct (mem slot_eqb (slot_of x) seenf) eqn:E2.
      + assert (mem slot_eqb (slot_of x) seenw = true).
        { apply (mem_In slot_eqb slot_eqb_spec). apply Hincl. apply (mem_In slot_eqb slot_eqb_spec). exact E2. }
        rewrite H in Hin. cbn [negb andb] in Hin.
        apply (Hrec (slot_of x :: seenw) seenf); [intros y Hy; right; apply Hincl; exact Hy | exact Hin].
      + assert (Hi2 : incl (slot_of x :: seenf) (slot_of x :: seenw)).
        { intros y [->|Hy]; [left; reflexivity | right; apply Hincl; exact Hy]. }
        destruct (mem tx_eqb x (map fst (hashmap s))) eqn:E3.
        * assert (mem tx_eqb x sub = true).
          { apply (mem_In tx_eqb tx_eqb_spec). apply Hsub. apply (mem_In tx_eqb tx_eqb_spec). exact E3. }
          rewrite H in Hin. rewrite andb_false_r in Hin.
          apply (Hrec (slot_of x :: seenw) (slot_of x :: seenf) Hi2 Hin).
        * destruct (negb (mem slot_eqb (slot_of x) seenw) && negb (mem tx_eqb x sub)).
          -- destruct Hin as [->|Hin]; [left; reflexivity | right; apply (Hrec (slot_of x :: seenw) (slot_of x :: seenf) Hi2 Hin)].
          -- right. apply (Hrec (slot_of x :: seenw) (slot_of x :: seenf) Hi2 Hin).
  Qed.

  Section ProcessStep.
    Variables (w : wst) (s : state) (leader local : bool) (now : N) (txs : list tx).
    Hypothesis I : Inv s.
    Hypothesis S : Sim w s.
    Hypothesis Hframe : forall t, In t txs -> In t univ /\ In (t_acct t) accts.
    Let o := OProcess leader local now txs.
    Let s2 := process_pre s now txs.
    Let valid := filter_valid s [] txs.
    Let s' := fst (process_txs p s leader now txs).
    Let bs := opt_list (snd (process_txs p s leader now txs)).

    Lemma pr_I2 : Inv s2.
    Proof. apply process_pre_inv. exact I. Qed.

    Lemma pr_closed2 : closed s2.
    Proof.
      pose proof (Sim_closed p accts univ w s I S) as C0.
      intros sl t E.
      destruct (in_dec (fun x y => match slotP x y with ReflectT _ e => left e | ReflectF _ ne => right ne end) sl (map slot_of valid)) as [Hin|Hnin].
      - apply in_map_iff in Hin. destruct Hin as [t' [<- Hv]]. unfold s2 in E. rewrite (pp_item_in s now txs t' Hv) in E.
        inversion E; subst. apply Hframe. apply (pp_valid_in s txs t Hv).
      - unfold s2 in E. rewrite (pp_item_out s now txs sl) in E; [apply (C0 sl t E)|].
        intros t' Hv Es. apply Hnin. apply in_map_iff. exists t'. auto.
    Qed.

    Lemma pr_keys2 h : In h (map fst (hashmap s2)) -> In h (txs ++ w_sub w).
    Proof.
      intro H. apply (pp_keys s now txs h) in H. apply in_or_app. destruct H as [H|H].
      - left. apply (pp_valid_in s txs h H).
      - right. apply (S_sub _ _ _ _ _ S). exact H.
    Qed.

    (** the state after the optional batch generation differs from [s2] in the batched set, the
        counter and the sequence number only *)
    Lemma pr_after :
      Inv s' /\ items s' = items s2 /\ hashmap s' = hashmap s2 /\ arrival s' = arrival s2 /\
      cnonce s' = cnonce s2 /\ ledger s' = ledger s2 /\
      exists B1, check_batches p (w_led w) (obs_cmt accts (w_prev w)) (txs ++ w_sub w) (w_B w) (w_seq w) bs = ([], B1, seqno s') /\
        (forall sl, In sl B1 <-> In sl (batched s')) /\
        (forall b t, In b bs -> In t (snd b) -> item_at s2 (slot_of t) = Some t).
    Proof.
      unfold s', bs. rewrite process_txs_eq. cbn zeta. fold s2.
      destruct (leader && (batch_size p <=? pnbs s2) && negb (p_timed p)).
      - destruct (generate_same s2 pr_I2) as [F1 [F2 [F3 [F4 [F5 F6]]]]]. cbn zeta in *.
        split; [apply generate_inv; exact pr_I2|]. repeat (split; [assumption|]).
        rewrite (S_seq _ _ _ _ _ S), <- (pp_seqno s now txs). fold s2.
        apply (gen_check s2 (w_led w) (obs_cmt accts (w_prev w)) (txs ++ w_sub w) (w_B w) pr_I2 pr_closed2).
        + intro sl. unfold s2. rewrite (pp_batched s now txs). apply (S_B _ _ _ _ _ S).
        + exact pr_keys2.
        + intro a. unfold s2. rewrite (pp_cn s now txs). apply (S_led _ _ _ _ _ S).
        + intros a Ha. unfold s2. rewrite (pp_cn s now txs). apply (prev_cmt p accts univ w s S a Ha).
        + destruct (generate p s2); reflexivity.
      - cbn [fst snd opt_list check_batches]. split; [exact pr_I2|]. repeat (split; [reflexivity|]).
        exists (w_B w). split; [|split].
        + rewrite (S_seq _ _ _ _ _ S), <- (pp_seqno s now txs). reflexivity.
        + intro sl. unfold s2. rewrite (pp_batched s now txs). apply (S_B _ _ _ _ _ S).
        + intros b t [].
    Qed.

    Lemma process_ok : fst (check_step w o (observe s' bs 0)) = [] /\
                       Sim (snd (check_step w o (observe s' bs 0))) s'.
    Proof.
      pose proof (Sim_closed p accts univ w s I S) as C0.
      destruct pr_after as [I' [F1 [F2 [F3 [F4 [F5 [B1 [Eb [HB1 Hheld]]]]]]]]].
      assert (Hit : forall x, item_at s' x = item_at s2 x) by (apply item_fields; exact F1).
      assert (Hcn : forall a, get_cn s' a = get_cn s a).
      { intro a. rewrite (get_cn_fields s2 s' F4 F5). apply (pp_cn s now txs). }
      assert (C : closed s') by (intros sl t E; apply (pr_closed2 sl t); rewrite <- Hit; exact E).
      destruct (S_prev _ _ _ _ _ S) as [pbs [pr Ep]].
      assert (Hvalid_held : forall t, In t valid -> held univ (observe s' bs 0) t = true).
      { intros t Hv. apply (held_observe p accts univ s' bs 0 t I'). split.
        - apply Hframe. apply (pp_valid_in s txs t Hv).
        - rewrite Hit. apply (pp_item_in s now txs t Hv). }
      apply (conclude w o B1 (seqno s') (cm_prev accts w) s' bs 0).
      - unfold MempoolSpec.st_batches, o. cbn [is_drain o_batches Mempool.observe st_led st_sub st_B0 st_seq0]. rewrite Eb. reflexivity.
      - apply e_current_ok. cbn [o_batches Mempool.observe]. intros b t Hb Ht.
        apply (held_observe p accts univ s' bs 0 t I'). pose proof (Hheld b t Hb Ht) as E.
        split; [apply (pr_closed2 _ _ E) | rewrite Hit; exact E].
      - apply e_cn_same. intros a Ha. unfold o. cbn [cn_ok]. rewrite Ep.
        rewrite (obs_cmt_observe p accts univ s' bs 0 a Ha), (obs_cmt_observe p accts univ s pbs pr a Ha), Hcn. apply N.eqb_refl.
      - reflexivity.
      - apply e_lost_ok. intros t Ht H1 H2.
        apply (prev_held p accts univ w s I S) in H1. destruct H1 as [_ H1].
        assert (Hgone : item_at s2 (slot_of t) <> Some t).
        { intro E. assert (held univ (observe s' bs 0) t = true) by (apply (held_observe p accts univ s' bs 0 t I'); rewrite Hit; auto). congruence. }
        destruct (in_dec (fun x y => match slotP x y with ReflectT _ e => left e | ReflectF _ ne => right ne end) (slot_of t) (map slot_of valid)) as [Hin|Hnin].
        + apply in_map_iff in Hin. destruct Hin as [t' [Es Hv]].
          unfold o. cbn [lost_ok]. apply existsb_exists. exists t'. split; [apply (pp_valid_in s txs t' Hv)|].
          apply andb_true_iff. split; [apply andb_true_iff; split|].
          * apply slot_eqb_spec. exact Es.
          * apply negb_true_iff. destruct (txP t' t) as [->|]; [|reflexivity].
            exfalso. apply Hgone. unfold s2. apply (pp_item_in s now txs t Hv).
          * apply Hvalid_held. exact Hv.
        + exfalso. apply Hgone. unfold s2. rewrite (pp_item_out s now txs (slot_of t)); [exact H1|].
          intros t' Hv Es. apply Hnin. apply in_map_iff. exists t'. auto.
      - unfold e_admitted, o, flag. replace (forallb _ _) with true; [reflexivity|]. symmetry. apply forallb_forall.
        intros t Ht. apply Hvalid_held. unfold valid.
        apply (fresh_valid_sub s (w_prev w) (w_sub w) txs [] []); auto.
        + intros a Ha. apply (prev_pend p accts univ w s S a Ha).
        + intros t0 Ht0. apply Hframe. exact Ht0.
        + apply (S_sub _ _ _ _ _ S).
        + intros x [].
      - reflexivity.
      - exact I'.
      - exact C.
      - apply (live_batched s' bs 0 B1 I' C). exact HB1.
      - rewrite F2. unfold o. cbn [st_sub]. exact pr_keys2.
      - reflexivity.
      - unfold o. cbn [st_sub]. intros t Ht. apply in_app_or in Ht. destruct Ht as [Ht|Ht]; [apply Hframe; exact Ht | apply (S_frame _ _ _ _ _ S); exact Ht].
      - intros t E. unfold o. cbn [st_arr]. rewrite fold_cond_aset, F3. rewrite Hit in E.
        unfold s2. rewrite (pp_arrival s now txs). unfold valid in *.
        destruct (in_dec (fun x y => match txP x y with ReflectT _ e => left e | ReflectF _ ne => right ne end) t valid) as [Hv|Hnv].
        + (* just taken *)
          rewrite (fi_arr_in now (filter_valid s [] txs) s t (pp_valid_nodup s txs) Hv).
          replace (existsb _ txs) with true; [reflexivity|]. symmetry. apply existsb_exists. exists t.
          split; [apply (pp_valid_in s txs t Hv)|]. rewrite (eqb_refl tx_eqb tx_eqb_spec), andb_true_r.
          apply andb_true_iff. split; [|apply Hvalid_held; exact Hv].
          apply negb_true_iff. destruct (held univ (w_prev w) t) eqn:Eh; [|reflexivity]. exfalso.
          apply (prev_held p accts univ w s I S) in Eh. destruct Eh as [_ Eh].
          destruct t as [a n i ts]. unfold slot_of in Eh. cbn [t_acct t_nonce] in Eh.
          pose proof (I_it_hash _ _ _ I a n _ Eh (fun f => match f with end)) as Hh.
          destruct (pp_valid_in s txs _ Hv) as [_ [_ Hn]]. congruence.
        + (* held before and untouched *)
          assert (Hout : forall t', In t' valid -> slot_of t' <> slot_of t).
          { intros t' Hv' Es. apply Hnv. unfold s2 in E. rewrite <- Es in E. rewrite (pp_item_in s now txs t' Hv') in E.
            inversion E; subst. exact Hv'. }
          rewrite (fi_arr_out now (filter_valid s [] txs) s (slot_of t) Hout).
          unfold s2 in E. rewrite (pp_item_out s now txs (slot_of t) Hout) in E.
          replace (existsb _ txs) with false; [apply (S_arr _ _ _ _ _ S); exact E|]. symmetry.
          apply not_true_iff_false. intro Hex. apply existsb_exists in Hex. destruct Hex as [x [Hx Hc]].
          apply andb_true_iff in Hc. destruct Hc as [Hc1 Hc2]. apply tx_eqb_spec in Hc2. subst x.
          apply andb_true_iff in Hc1. destruct Hc1 as [Hc1 _]. apply negb_true_iff in Hc1.
          assert (held univ (w_prev w) t = true) by (apply (prev_held p accts univ w s I S); split; [apply (C0 _ _ E) | exact E]).
          congruence.
      - rewrite F3. apply (pp_arr_nd s now txs). apply (S_arr_nd _ _ _ _ _ S).
      - intro a. unfold o. cbn [st_led]. rewrite Hcn. apply (S_led _ _ _ _ _ S).
      - unfold o. cbn [st_live]. intros h Hh. apply filter_In in Hh. destruct Hh as [Hh _]. rewrite F2.
        apply in_app_or in Hh. destruct Hh as [Hh|Hh].
        + apply filter_In in Hh. destruct Hh as [_ Hc]. apply andb_true_iff in Hc. destruct Hc as [_ Hc].
          apply (held_observe p accts univ s' bs 0 h I') in Hc. destruct Hc as [_ Hc]. rewrite Hit in Hc.
          destruct h as [a n i ts]. unfold slot_of in Hc. cbn [t_acct t_nonce] in Hc.
          eapply (alookup_Some_key tx_eqb tx_eqb_spec). apply (I_it_hash _ _ _ pr_I2 a n _ Hc). intros [].
        + unfold s2. apply (pp_keys s now txs h). right. apply (S_live _ _ _ _ _ S). exact Hh.
    Qed.
  End ProcessStep.

  (* ----------------------------------------------------------------------- CommitTransactions *)

  Section CommitStep.
    Variables (w : wst) (s : state) (hs : list tx).
    Hypothesis I : Inv s.
    Hypothesis S : Sim w s.
    Let s' := commit_txs cfg_fixed s hs.

    Lemma commit_closed : closed s'.
    Proof.
      pose proof (Sim_closed p accts univ w s I S) as C0. intros sl t E.
      apply (commit_item s hs I) in E. apply (C0 sl t). tauto.
    Qed.

    Lemma commit_live_B sl : In sl (live (obs_cmt accts (observe s' [] 0)) (w_B w)) <-> In sl (batched s').
    Proof.
      pose proof (Sim_closed p accts univ w s I S) as C0.
      destruct sl as [a n]. unfold s'. rewrite live_spec, (S_B _ _ _ _ _ S), (commit_batched s hs I). cbn [fst snd]. fold s'.
      split; intros [H1 H2]; (split; [exact H1|]).
      - pose proof (I_b_item _ _ _ I _ H1) as Hit. destruct (item_at s (a, n)) as [t|] eqn:Et; [|congruence].
        destruct (C0 _ _ Et) as [_ Ha]. pose proof (I_it_slot _ _ _ I _ _ Et) as Hs. destruct t; inversion Hs; subst. cbn in Ha.
        rewrite (obs_cmt_observe p accts univ s' [] 0 _ Ha) in H2. unfold s' in H2. rewrite (commit_cn s hs I) in H2. exact H2.
      - pose proof (I_b_item _ _ _ I _ H1) as Hit. destruct (item_at s (a, n)) as [t|] eqn:Et; [|congruence].
        destruct (C0 _ _ Et) as [_ Ha]. pose proof (I_it_slot _ _ _ I _ _ Et) as Hs. destruct t; inversion Hs; subst. cbn in Ha.
        rewrite (obs_cmt_observe p accts univ s' [] 0 _ Ha). unfold s'. rewrite (commit_cn s hs I). exact H2.
    Qed.

    Lemma commit_ok : fst (check_step w (OCommit hs) (observe s' [] 0)) = [] /\
                      Sim (snd (check_step w (OCommit hs) (observe s' [] 0))) s'.
    Proof.
      assert (I' : Inv s') by (apply commit_inv; exact I).
      pose proof (Sim_closed p accts univ w s I S) as C0.
      pose proof commit_closed as C.
      destruct (S_prev _ _ _ _ _ S) as [pbs [pr Ep]].
      apply (conclude w (OCommit hs) (w_B w) (w_seq w) (cm_prev accts w) s' [] 0).
      - reflexivity.
      - reflexivity.
      - apply e_cn_same. intros a Ha. cbn [cn_ok]. rewrite Ep.
        rewrite (obs_cmt_observe p accts univ s' [] 0 a Ha), (obs_cmt_observe p accts univ s pbs pr a Ha).
        unfold s'. rewrite (commit_cn s hs I).
        pose proof (commit_cn_ge s hs I a) as Hge. apply andb_true_iff. split; [lia|].
        destruct (N.eq_dec (cn_after s hs a) (get_cn s a)) as [E|Hne]; [rewrite E, N.eqb_refl; reflexivity|].
        apply orb_true_iff. right. destruct (commit_cn_why s hs I a) as [h [H1 [H2 H3]]]; [lia|].
        apply existsb_exists. exists h. split; [exact H1|]. rewrite H2, H3, !N.eqb_refl. reflexivity.
      - unfold e_commit_missed, flag. replace (forallb _ hs) with true; [reflexivity|]. symmetry. apply forallb_forall.
        intros h Hin. destruct (mem tx_eqb h (w_live w)) eqn:Em; [|reflexivity]. cbn [negb orb].
        apply (mem_In tx_eqb tx_eqb_spec) in Em. pose proof (S_live _ _ _ _ _ S h Em) as Hk.
        destruct (alookup tx_eqb h (hashmap s)) as [sl|] eqn:El; [|apply (alookup_None tx_eqb tx_eqb_spec) in El; contradiction].
        destruct (I_hm_wf _ _ _ I h sl El) as [Esl _].
        destruct (S_frame _ _ _ _ _ S h (S_sub _ _ _ _ _ S h Hk)) as [_ Ha].
        rewrite (obs_cmt_observe p accts univ s' [] 0 _ Ha). unfold s'. rewrite (commit_cn s hs I).
        pose proof (commit_recognised s hs I h sl Hin El) as Hr. rewrite Esl in Hr. cbn [fst snd slot_of] in Hr. apply N.leb_le. lia.
      - apply e_lost_ok. intros t Ht H1 H2.
        apply (prev_held p accts univ w s I S) in H1. destruct H1 as [_ H1].
        destruct (C0 _ _ H1) as [_ Ha].
        cbn [lost_ok]. rewrite (obs_cmt_observe p accts univ s' [] 0 _ Ha). unfold s'. rewrite (commit_cn s hs I).
        apply N.ltb_lt. destruct (N.lt_ge_cases (t_nonce t) (cn_after s hs (t_acct t))) as [Hlt|Hge]; [exact Hlt|]. exfalso.
        assert (E : item_at s' (slot_of t) = Some t) by (apply (commit_item s hs I); split; [exact H1 | exact Hge]).
        assert (held univ (observe s' [] 0) t = true) by (apply (held_observe p accts univ s' [] 0 t I'); auto). congruence.
      - reflexivity.
      - reflexivity.
      - exact I'.
      - exact C.
      - exact commit_live_B.
      - intros h Hh. apply (S_sub _ _ _ _ _ S). apply (commit_keys s hs I). exact Hh.
      - rewrite (S_seq _ _ _ _ _ S). symmetry. apply (commit_seqno s hs).
      - apply (S_frame _ _ _ _ _ S).
      - intros t E. cbn [st_arr]. apply (commit_item s hs I) in E. destruct E as [E Hge].
        rewrite (S_arr _ _ _ _ _ S t E). symmetry. apply (commit_arrival s hs I). exact Hge.
      - apply (commit_arr_nd s hs). apply (S_arr_nd _ _ _ _ _ S).
      - intro a. unfold s'. rewrite (commit_cn s hs I). pose proof (commit_cn_ge s hs I a). pose proof (S_led _ _ _ _ _ S a). cbn [st_led]. lia.
      - cbn [st_live]. intros h Hh. apply filter_In in Hh. destruct Hh as [Hh Hs].
        pose proof (S_live _ _ _ _ _ S h Hh) as Hk.
        destruct (alookup tx_eqb h (hashmap s)) as [sl|] eqn:El; [|apply (alookup_None tx_eqb tx_eqb_spec) in El; contradiction].
        destruct (I_hm_wf _ _ _ I h sl El) as [Esl _].
        apply (slot_held_observe p accts univ s' [] 0 _ I' C) in Hs.
        destruct (item_at s' (slot_of h)) as [t|] eqn:Et; [|congruence].
        apply (commit_item s hs I) in Et. destruct Et as [_ Hge].
        eapply (alookup_Some_key tx_eqb tx_eqb_spec). apply (commit_key_keep s hs I h sl El). rewrite Esl. exact Hge.
    Qed.
  End CommitStep.
End Steps.
