(** Proofs about [Model/Router.v]: the pier of destination [d] is told, for every block,
    exactly the transactions / timeout ids / multi-tx ids the block's metadata lists for [d],
    in order; the router never panics on metadata whose indices lie inside the block. *)
From BX Require Import Base.Prelude Model.Router.
From Coq Require Import ZifyBool ZifyN ZifyNat.
Local Open Scope N_scope.

Definition wrapper_faithful (d : N) (b : block) (m : meta) (w : wrapper) : Prop :=
  w_height w = b_height b /\
  map vtx_proj (w_txs w) = expected_txs d b m /\
  w_timeout w = expected_timeout d m /\
  w_multi w = expected_multi d m.

Lemma trip_eqb_eq a b : trip_eqb a b = true <-> a = b.
Proof.
  destruct a as [[a1 a2] a3], b as [[b1 b2] b3]. unfold trip_eqb.
  rewrite !andb_true_iff, N.eqb_eq, !Bool.eqb_true_iff.
  split; [intros [[-> ->] ->]; reflexivity | intro H; inversion H; auto].
Qed.

Lemma wrapper_faithful_b_spec d b m w :
  wrapper_faithful_b d b m w = true <-> wrapper_faithful d b m w.
Proof.
  unfold wrapper_faithful_b, wrapper_faithful.
  rewrite !andb_true_iff, N.eqb_eq.
  rewrite (list_eqb_spec trip_eqb trip_eqb_eq).
  rewrite !(list_eqb_spec N.eqb N.eqb_eq). tauto.
Qed.

Definition vis_ok (txs : list N) (vs : list vindex) : bool :=
  forallb (fun vi => N.to_nat (vi_index vi) <? length txs)%nat vs.

Lemma verified_txs_some txs vs : vis_ok txs vs = true ->
  exists l, verified_txs txs vs = Some l /\
    map vtx_proj l = map (fun vi => (nth (N.to_nat (vi_index vi)) txs 0, vi_valid vi, vi_batch vi)) vs.
Proof.
  induction vs as [|vi t IH]; simpl; intro H.
  - exists []. split; reflexivity.
  - apply andb_true_iff in H. destruct H as [H1 H2].
    destruct (IH H2) as [l [Hl Hm]].
    apply Nat.ltb_lt in H1.
    destruct (nth_error txs (N.to_nat (vi_index vi))) as [tx|] eqn:E.
    + rewrite Hl. eexists. split; [reflexivity|]. simpl. rewrite Hm.
      unfold vtx_proj at 1. simpl. f_equal. f_equal. f_equal.
      symmetry. apply nth_error_nth. exact E.
    + apply nth_error_None in E. lia.
Qed.

Lemma verified_txs_none txs vs : vis_ok txs vs = false -> verified_txs txs vs = None.
Proof.
  induction vs as [|vi t IH]; simpl; intro H; [discriminate|].
  apply andb_false_iff in H. destruct H as [H|H].
  - apply Nat.ltb_ge in H.
    destruct (nth_error txs (N.to_nat (vi_index vi))) eqn:E; [|reflexivity].
    assert (nth_error txs (N.to_nat (vi_index vi)) <> None) as Hn by (rewrite E; discriminate).
    apply nth_error_Some in Hn. lia.
  - rewrite (IH H). destruct (nth_error txs (N.to_nat (vi_index vi))); reflexivity.
Qed.

Lemma build_txsM_some txs c :
  forallb (fun kv : N * list vindex => vis_ok txs (snd kv)) c = true ->
  exists l, build_txsM txs c = Some l /\
    forall d, option_map (map vtx_proj) (lookupN d l) =
              option_map (map (fun vi => (nth (N.to_nat (vi_index vi)) txs 0, vi_valid vi, vi_batch vi))) (lookupN d c).
Proof.
  induction c as [|[k vs] t IH]; simpl; intro H.
  - exists []. split; [reflexivity|]. intro d. reflexivity.
  - apply andb_true_iff in H. destruct H as [H1 H2]. simpl in H1.
    destruct (verified_txs_some txs vs H1) as [v [Hv Hm]].
    destruct (IH H2) as [l [Hl Hd]].
    rewrite Hv, Hl. eexists. split; [reflexivity|].
    intro d. unfold lookupN in *. simpl.
    destruct (d =? k); simpl; [rewrite Hm; reflexivity | apply Hd].
Qed.

Lemma build_txsM_none txs c :
  forallb (fun kv : N * list vindex => vis_ok txs (snd kv)) c = false -> build_txsM txs c = None.
Proof.
  induction c as [|[k vs] t IH]; simpl; intro H; [discriminate|].
  apply andb_false_iff in H. simpl in H. destruct H as [H|H].
  - rewrite (verified_txs_none _ _ H). reflexivity.
  - rewrite (IH H). destruct (verified_txs txs vs); reflexivity.
Qed.

Lemma indices_ok_unfold b m :
  indices_ok b m = forallb (fun kv : N * list vindex => vis_ok (b_txs b) (snd kv)) (m_counter m).
Proof. reflexivity. Qed.

(** the router panics exactly on metadata that points outside the block *)
Theorem router_crash_iff d b m : deliver_block d b m = Crash <-> indices_ok b m = false.
Proof.
  unfold deliver_block. rewrite indices_ok_unfold.
  destruct (forallb _ (m_counter m)) eqn:E.
  - destruct (build_txsM_some _ _ E) as [l [Hl _]]. rewrite Hl.
    destruct (wrapper_for _ _ _ _ _); split; discriminate.
  - rewrite (build_txsM_none _ _ E). split; reflexivity.
Qed.

(** and otherwise sends a wrapper that is faithful to the block's metadata *)
Theorem router_faithful d b m : indices_ok b m = true ->
  exists w, deliver_block d b m = Ok w /\ wrapper_faithful d b m w.
Proof.
  intro H. unfold deliver_block. rewrite indices_ok_unfold in H.
  destruct (build_txsM_some _ _ H) as [l [Hl Hd]]. rewrite Hl.
  specialize (Hd d).
  unfold wrapper_for, wrapper_faithful, expected_txs, expected_timeout, expected_multi.
  destruct (lookupN d (m_timeout m)) as [tl|] eqn:Et;
    destruct (lookupN d (m_multi m)) as [ml|] eqn:Em;
    destruct (lookupN d l) as [xl|] eqn:Ex;
    destruct (lookupN d (m_counter m)) as [cl|] eqn:Ec;
    simpl in Hd; try discriminate Hd;
    try (inversion Hd as [Hd']; clear Hd);
    eexists; (split; [reflexivity|]); simpl; repeat split; try reflexivity; try assumption.
Qed.

(** [GetInterchainTxWrappers] answers once per stored block, in height order *)
Lemma deliver_range_length d chain : length (deliver_range d chain) = length chain.
Proof. induction chain as [|[b m] t IH]; simpl; [reflexivity | rewrite IH; reflexivity]. Qed.

Lemma deliver_range_nth d chain i b m :
  nth_error chain i = Some (b, m) -> nth_error (deliver_range d chain) i = Some (deliver_block d b m).
Proof.
  revert i. induction chain as [|[b0 m0] t IH]; intros [|i] H; simpl in *; try discriminate.
  - inversion H; subst. reflexivity.
  - apply IH. exact H.
Qed.

(** end-to-end: over a stored chain with in-range metadata, the transactions told to pier [d]
    are exactly, block by block and in order, the ones the blocks' Counter lists for [d] *)
Definition told_txs (d : N) (chain : list (block * meta)) : list (list (N * bool * bool)) :=
  map (fun o => match o with Ok w => map vtx_proj (w_txs w) | Crash => [] end) (deliver_range d chain).
Definition listed_txs (d : N) (chain : list (block * meta)) : list (list (N * bool * bool)) :=
  map (fun bm : block * meta => expected_txs d (fst bm) (snd bm)) chain.

Theorem router_delivery_exact d chain :
  forallb (fun bm : block * meta => indices_ok (fst bm) (snd bm)) chain = true ->
  told_txs d chain = listed_txs d chain.
Proof.
  unfold told_txs, listed_txs.
  induction chain as [|[b m] t IH]; simpl; intro H; [reflexivity|].
  apply andb_true_iff in H. destruct H as [H1 H2]. simpl in H1.
  destruct (router_faithful d b m H1) as [w [Hw [_ [Hx _]]]].
  rewrite Hw, Hx. f_equal. apply IH. exact H2.
Qed.

(** a destination with no entry in any of the three maps is told an empty wrapper *)
Lemma router_silent d b m :
  indices_ok b m = true ->
  lookupN d (m_counter m) = None -> lookupN d (m_timeout m) = None -> lookupN d (m_multi m) = None ->
  deliver_block d b m = Ok (empty_wrapper (b_height b)).
Proof.
  intros H Hc Ht Hm. unfold deliver_block. rewrite indices_ok_unfold in H.
  destruct (build_txsM_some _ _ H) as [l [Hl Hd]]. rewrite Hl.
  specialize (Hd d). rewrite Hc in Hd. simpl in Hd.
  unfold wrapper_for. rewrite Ht, Hm.
  destruct (lookupN d l); [discriminate Hd | reflexivity].
Qed.

(** non-vacuity *)
Example router_example :
  deliver_block 7 {| b_height := 5; b_txs := [50; 51; 52] |}
    {| m_counter := [(7, [{| vi_index := 2; vi_valid := true; vi_batch := false |};
                          {| vi_index := 0; vi_valid := false; vi_batch := true |}]); (8, [])];
       m_timeout := [(7, [900])]; m_multi := [(9, [901])]; m_tl2 := true |}
  = Ok {| w_height := 5;
          w_txs := [{| vt_tx := 52; vt_valid := true; vt_batch := false |};
                    {| vt_tx := 50; vt_valid := false; vt_batch := true |}];
          w_timeout := [900]; w_multi := []; w_tl2 := true |}.
Proof. vm_compute. reflexivity. Qed.
