(** C02: the receipt counter of a pair equals the number of its finalised transactions: an accepted
    index x (1 <= x <= InterchainCounter) is at most ReceiptCounter exactly when the transaction (or,
    for a child, its group) has reached a final status. *)
From BX Require Import Base.Prelude Base.Fsm Model.TxFsm Model.TxMgr Model.Interchain Model.IbtpExec
     Proofs.TxFsmProofs Proofs.IbtpBasics Proofs.IbtpStep Proofs.IbtpTm Proofs.IbtpIc Proofs.IbtpInv
     Proofs.IbtpTl Proofs.IbtpTimeout Proofs.IbtpBlock Proofs.IbtpGroup Proofs.IbtpProps.
From Coq Require Import String ZifyBool ZifyN ZifyNat.
Local Open Scope N_scope.

Definition fin (t : txm) (i : txid) : bool :=
  match tm_status_tx t i with Some s => is_final s | None => false end.

Record FinInv (t : txm) (c : ichain) : Prop := {
  fi_rc : forall f t0 x, 1 <= x <= IC c f t0 -> (x <= RC c f t0 <-> fin t (f, t0, x) = true);
  fi_kid : forall g gi k s, tm_glob t g = Some gi -> is_final (g_state gi) = false ->
                            In (k, s) (g_children gi) -> is_final s = true ->
                            RC c (fst (fst k)) (snd (fst k)) + 1 = snd k
}.

Lemma fininv_init : FinInv txm_init ichain_init.
Proof.
  constructor.
  - intros f t0 x Hx. unfold IC, get_rec in Hx. simpl in Hx. lia.
  - intros g gi k s H. discriminate.
Qed.

(** the receipt edges all land on a final status *)
Lemma receipt_edge_final s r s' : set_fsm s (event_of_receipt r) = Some s' -> is_final s' = true /\ is_final s = false.
Proof.
  intro H. pose proof (set_fsm_receipt_edges _ _ _ H) as E.
  unfold ST_BEGIN, ST_SUCCESS, ST_FAILURE, ST_ROLLBACK, ST_BEGIN_FAILURE, ST_BEGIN_ROLLBACK in *.
  destruct E as [[-> [_ ->]] | [[-> [_ ->]] | [[-> [_ ->]] | [[-> [_ ->]] | [-> [_ ->]]]]]]; split; reflexivity.
Qed.
Lemma notice_edge_final s x s' : set_fsm s (event_of_txstatus x) = Some s' -> is_final s' = true /\ is_final s = false.
Proof.
  intro H. destruct (set_fsm_txstatus_edges _ _ _ H) as [-> [[_ ->] | [_ ->]]]; split; reflexivity.
Qed.

Lemma pair_in_dec (r : list txid) f t : (exists x, In (f, t, x) r) \/ (forall x, ~ In (f, t, x) r).
Proof.
  induction r as [|[[kf kt] kx] r IH]; [right; intros x []|].
  destruct IH as [[x Hx] | Hn]; [left; exists x; right; exact Hx|].
  destruct (N.eq_dec kf f) as [->|Hf]; [destruct (N.eq_dec kt t) as [->|Ht]|].
  - left. exists kx. left. reflexivity.
  - right. intros x [E | Hin]; [inversion E; congruence | exact (Hn x Hin)].
  - right. intros x [E | Hin]; [inversion E; congruence | exact (Hn x Hin)].
Qed.

(** [handle_multi] really sets the counter of every child's pair *)
Lemma handle_multi_hit kids : forall c c',
  (forall k, In k kids -> atoi_ok k = true) -> handle_multi c kids = (c', true) ->
  forall f t, (exists x, In (f, t, x) kids) -> exists x', In (f, t, x') kids /\ RC c' f t = x'.
Proof.
  induction kids as [|[[kf kt] kx] r IH]; intros c c' Hok H f t [x Hin]; [contradiction|].
  simpl in H. rewrite (Hok (kf, kt, kx)) in H by (left; reflexivity).
  set (c1 := set_dest c kf kt kx (get_rec c kf)) in *.
  destruct (pair_in_dec r f t) as [[x' Hx'] | Hnone].
  - destruct (IH c1 c' (fun k Hk => Hok k (or_intror Hk)) H f t (ex_intro _ x' Hx')) as [x2 [A B]].
    exists x2. split; [right; exact A | exact B].
  - (* the pair occurs only at the head *)
    destruct Hin as [E | Hin]; [|exfalso; exact (Hnone x Hin)].
    inversion E; subst kf kt kx.
    destruct (handle_multi_spec r c1 (fun k Hk => Hok k (or_intror Hk))) as [c2 [E2 [_ [_ [_ [_ [_ [_ [_ [_ Hrc2]]]]]]]]]].
    rewrite H in E2. inversion E2; subst c2.
    exists x. split; [left; reflexivity|]. rewrite Hrc2.
    + unfold c1. rewrite set_dest_RC by reflexivity. rewrite !N.eqb_refl. reflexivity.
    + intros y Hy. exact (Hnone y Hy).
Qed.

(** ** how the status query changes *)
Lemma fin_set_rec_other t i v j : j <> i -> fin (set_rec t i v) j = fin t j.
Proof.
  intro Hne. unfold fin, tm_status_tx. simpl. rewrite updT_other by exact Hne. reflexivity.
Qed.
Lemma fin_set_rec_self t i hh s : fin (set_rec t i (hh, s)) i = is_final s.
Proof. unfold fin, tm_status_tx. simpl. rewrite updT_same. reflexivity. Qed.

(** a group update: only the children of that group see a different status *)
Lemma fin_set_glob t t1 g gi' j :
  tm_rec t1 = tm_rec t -> tm_child t1 = tm_child t -> tm_glob t1 = tm_glob t ->
  fin (set_glob t1 g gi') j =
  match tm_rec t j, tm_child t j with
  | None, Some g0 => if gid_eqb g0 g then is_final (g_state gi') else fin t j
  | _, _ => fin t j
  end.
Proof.
  intros R C G. unfold fin, tm_status_tx. simpl. rewrite R, C, G.
  destruct (tm_rec t j) as [[hh s]|]; [reflexivity|].
  destruct (tm_child t j) as [g0|]; [|reflexivity].
  unfold upd. destruct (gid_eqb g0 g); reflexivity.
Qed.

(** the status of a child is its group's status *)
Lemma fin_child w t c k g gi :
  BInv w t c -> tm_child t k = Some g -> tm_glob t g = Some gi -> fin t k = is_final (g_state gi).
Proof.
  intros I Hc Hg. unfold fin, tm_status_tx.
  rewrite (g_excl _ _ _ I k) by (rewrite Hc; discriminate). rewrite Hc, Hg. reflexivity.
Qed.

(** a group with a child whose receipt can still be accepted is not final *)
Lemma group_open gi i st r st' :
  shape gi -> In (i, st) (g_children gi) -> set_fsm st (event_of_receipt r) = Some st' ->
  is_final (g_state gi) = false.
Proof.
  intros Hs Hin Hf. destruct (receipt_edge_final _ _ _ Hf) as [_ Hnf].
  unfold shape in Hs.
  destruct Hs as [[E _] | [[E [Hk _]] | [[E _] | [[E [Hk _]] | [[E _] | [E [Hk _]]]]]]]; try (rewrite E; reflexivity);
    exfalso; specialize (Hk _ Hin); simpl in Hk; destruct Hk as [Hk | []]; rewrite <- Hk in Hnf; discriminate.
Qed.

(** ** requests *)
Lemma fininv_request w h b sf sd terr t t' ch c c1 serial :
  BInv w t c -> KInv t -> FinInv t c -> same_core c c1 ->
  tm_step cfg_fixed w h b sf sd terr t = Some (TmOk t' ch) ->
  is_request b = true -> ~ begun t (b_id b) ->
  b_idx b = IC c (b_from b) (b_to b) + 1 ->
  FinInv t' (req_step c1 b (get_rec c1 (b_from b)) serial).
Proof.
  intros I K [F1 F2] Hsc Et Hrq Hnb Hidx.
  destruct (same_core_counters _ _ Hsc) as [EIC [ERC _]].
  set (c' := req_step c1 b (get_rec c1 (b_from b)) serial).
  assert (HIC : forall f t0, IC c' f t0 = if (f =? b_from b) && (t0 =? b_to b) then b_idx b else IC c f t0).
  { intros f t0. unfold c'. rewrite req_step_IC, !EIC.
    pose proof (b_small _ _ _ I (b_from b) (b_to b)) as Hs.
    rewrite wrap64_small by (unfold B63, W64 in *; lia). rewrite Hidx. reflexivity. }
  assert (HRC : forall f t0, RC c' f t0 = RC c f t0) by (intros; unfold c'; rewrite req_step_RC; apply ERC).
  assert (Hrn : tm_rec t (b_id b) = None).
  { destruct (tm_rec t (b_id b)) eqn:E; [|reflexivity]. exfalso. apply Hnb. left. congruence. }
  assert (Hcn : tm_child t (b_id b) = None).
  { destruct (tm_child t (b_id b)) eqn:E; [|reflexivity]. exfalso. apply Hnb. right. congruence. }
  (* the three facts about the new transaction-manager state *)
  assert (Hfacts : (forall j, j <> b_id b -> fin t' j = fin t j) /\ fin t' (b_id b) = false /\
                   (forall g gi k s, tm_glob t' g = Some gi -> is_final (g_state gi) = false ->
                                     In (k, s) (g_children gi) -> is_final s = true ->
                                     RC c (fst (fst k)) (snd (fst k)) + 1 = snd k)).
  { apply tm_step_inv in Et. inversion Et; subst; try congruence.
    - split; [intros j Hj; apply fin_set_rec_other; exact Hj|]. split.
      + rewrite fin_set_rec_self. subst st. destruct terr; reflexivity.
      + intros g gi k s Hg. simpl in Hg. apply (F2 g gi k s Hg).
    - split; [intros j Hj; apply fin_set_rec_other; exact Hj|]. split.
      + rewrite fin_set_rec_self. subst st. destruct terr; reflexivity.
      + intros g gi k s Hg. simpl in Hg. apply (F2 g gi k s Hg).
    - (* a group child begins *)
      match goal with Hb : bm_change _ _ ?G _ _ _ _ _ _ _ |- _ => rename G into g0; inversion Hb; subst end.
      + (* new group *)
        assert (R : tm_rec t1 = tm_rec t /\ tm_child t1 = tm_child t /\ tm_glob t1 = tm_glob t).
        { subst t1. destruct terr; [auto|]. destruct (tm_add_timeout_fields cfg_fixed t hh (TGid g0)) as [A [B C]]. auto. }
        destruct R as [R1 [R2 R3]].
        assert (Hfj : forall j, fin (set_child (set_glob t1 g0 (Build_ginfo st hh [(b_id b, st)] (snd g0))) (b_id b) g0) j =
                               if txid_eqb j (b_id b) then false else fin t j).
        { intro j. unfold fin, tm_status_tx. simpl. rewrite R1, R2, R3. unfold upd.
          destruct (txid_eqb j (b_id b)) eqn:E.
          - apply txid_eqb_eq in E. subst j. rewrite Hrn, gid_eqb_refl. simpl. subst st. destruct terr; reflexivity.
          - destruct (tm_rec t j) as [[? ?]|]; [reflexivity|]. destruct (tm_child t j) as [g1|] eqn:Ec; [|reflexivity].
            destruct (gid_eqb g1 g0) eqn:Eg; [|reflexivity].
            apply gid_eqb_eq in Eg. subst g1. destruct (g_child_glob _ _ _ I j g0 Ec) as [gi1 [E1 _]]. congruence. }
        split; [intros j Hj; rewrite Hfj; apply txid_eqb_neq in Hj; rewrite Hj; reflexivity|].
        split; [rewrite Hfj, txid_eqb_refl; reflexivity|].
        intros g gi k s Hg Hnf Hin Hfs. simpl in Hg. rewrite R3 in Hg. unfold upd in Hg. destruct (gid_eqb g g0).
        * inversion Hg; subst gi. simpl in Hin. destruct Hin as [E | []]. inversion E; subst k s.
          subst st. destruct terr; discriminate.
        * apply (F2 g gi k s Hg Hnf Hin Hfs).
      + (* joining a group that is not BEGIN (and not final) *)
        match goal with Hg0 : tm_glob t g0 = Some ?x |- _ => rename x into gi0 end.
        assert (Hfj : forall j, fin (set_child (set_glob t g0 (Build_ginfo (g_state gi0) (g_height gi0) kids (g_count gi0))) (b_id b) g0) j =
                               if txid_eqb j (b_id b) then false else fin t j).
        { intro j. unfold fin, tm_status_tx. simpl. unfold upd.
          destruct (txid_eqb j (b_id b)) eqn:E.
          - apply txid_eqb_eq in E. subst j. rewrite Hrn, gid_eqb_refl. simpl. assumption.
          - destruct (tm_rec t j) as [[? ?]|]; [reflexivity|]. destruct (tm_child t j) as [g1|] eqn:Ec; [|reflexivity].
            destruct (gid_eqb g1 g0) eqn:Eg; [|reflexivity].
            apply gid_eqb_eq in Eg. subst g1. simpl.
            match goal with Hg0 : tm_glob t g0 = Some gi0 |- _ => rewrite Hg0 end. reflexivity. }
        split; [intros j Hj; rewrite Hfj; apply txid_eqb_neq in Hj; rewrite Hj; reflexivity|].
        split; [rewrite Hfj, txid_eqb_refl; reflexivity|].
        intros g gi k s Hg Hnf Hin Hfs. simpl in Hg. unfold upd in Hg. destruct (gid_eqb g g0) eqn:Eg.
        * apply gid_eqb_eq in Eg. subst g. inversion Hg; subst gi. simpl in Hin, Hnf. subst kids.
          destruct (K g0 gi0 ltac:(assumption)) as [_ Hnd].
          apply child_set_In in Hin; [|exact Hnd]. destruct Hin as [E | [Hin _]].
          -- inversion E; subst k s. congruence.
          -- apply (F2 g0 gi0 k s ltac:(assumption) Hnf Hin Hfs).
        * apply (F2 g gi k s Hg Hnf Hin Hfs).
      + (* a failing child: everything becomes BEGIN_FAILURE *)
        match goal with Hg0 : tm_glob t g0 = Some ?x |- _ => rename x into gi0 end.
        match goal with Hr : tm_remove_timeout _ _ _ = Some _ |- _ => apply tm_remove_timeout_fields in Hr; destruct Hr as [R1 [R3 R2]] end.
        assert (Hfj : forall j, fin (set_child (set_glob t1 g0 (Build_ginfo ST_BEGIN_FAILURE (g_height gi0) kids (g_count gi0))) (b_id b) g0) j =
                               if txid_eqb j (b_id b) then false else fin t j).
        { intro j. unfold fin, tm_status_tx. simpl. rewrite R1, R2, R3. unfold upd.
          destruct (txid_eqb j (b_id b)) eqn:E.
          - apply txid_eqb_eq in E. subst j. rewrite Hrn, gid_eqb_refl. reflexivity.
          - destruct (tm_rec t j) as [[? ?]|]; [reflexivity|]. destruct (tm_child t j) as [g1|] eqn:Ec; [|reflexivity].
            destruct (gid_eqb g1 g0) eqn:Eg; [|reflexivity].
            apply gid_eqb_eq in Eg. subst g1. simpl.
            match goal with Hg0 : tm_glob t g0 = Some gi0, Hs : g_state gi0 = ST_BEGIN |- _ => rewrite Hg0, Hs end. reflexivity. }
        split; [intros j Hj; rewrite Hfj; apply txid_eqb_neq in Hj; rewrite Hj; reflexivity|].
        split; [rewrite Hfj, txid_eqb_refl; reflexivity|].
        intros g gi k s Hg Hnf Hin Hfs. simpl in Hg. rewrite R3 in Hg. unfold upd in Hg. destruct (gid_eqb g g0) eqn:Eg.
        * inversion Hg; subst gi. simpl in Hin. subst kids. exfalso.
          destruct (K g0 gi0 ltac:(assumption)) as [_ Hnd].
          apply child_set_In in Hin; [|apply children_all_nodup; exact Hnd]. destruct Hin as [E | [Hin _]].
          -- inversion E; subst. discriminate.
          -- apply children_all_vals in Hin. simpl in Hin. subst s. discriminate.
        * apply (F2 g gi k s Hg Hnf Hin Hfs).
      + (* an ordinary further child *)
        match goal with Hg0 : tm_glob t g0 = Some ?x |- _ => rename x into gi0 end.
        assert (Hfj : forall j, fin (set_child (set_glob t g0 (Build_ginfo (g_state gi0) (g_height gi0) kids (g_count gi0))) (b_id b) g0) j =
                               if txid_eqb j (b_id b) then false else fin t j).
        { intro j. unfold fin, tm_status_tx. simpl. unfold upd.
          destruct (txid_eqb j (b_id b)) eqn:E.
          - apply txid_eqb_eq in E. subst j. rewrite Hrn, gid_eqb_refl. simpl.
            match goal with Hs : g_state gi0 = ST_BEGIN |- _ => rewrite Hs end. reflexivity.
          - destruct (tm_rec t j) as [[? ?]|]; [reflexivity|]. destruct (tm_child t j) as [g1|] eqn:Ec; [|reflexivity].
            destruct (gid_eqb g1 g0) eqn:Eg; [|reflexivity].
            apply gid_eqb_eq in Eg. subst g1. simpl.
            match goal with Hg0 : tm_glob t g0 = Some gi0 |- _ => rewrite Hg0 end. reflexivity. }
        split; [intros j Hj; rewrite Hfj; apply txid_eqb_neq in Hj; rewrite Hj; reflexivity|].
        split; [rewrite Hfj, txid_eqb_refl; reflexivity|].
        intros g gi k s Hg Hnf Hin Hfs. simpl in Hg. unfold upd in Hg. destruct (gid_eqb g g0) eqn:Eg.
        * apply gid_eqb_eq in Eg. subst g. inversion Hg; subst gi. simpl in Hin, Hnf. subst kids.
          destruct (K g0 gi0 ltac:(assumption)) as [_ Hnd].
          apply child_set_In in Hin; [|exact Hnd]. destruct Hin as [E | [Hin _]].
          -- inversion E; subst k s. discriminate.
          -- apply (F2 g0 gi0 k s ltac:(assumption) Hnf Hin Hfs).
        * apply (F2 g gi k s Hg Hnf Hin Hfs). }
  destruct Hfacts as [Hoth [Hself Hkid]].
  constructor.
  - intros f t0 x Hx. rewrite HRC. rewrite HIC in Hx.
    destruct (txid_dec (f, t0, x) (b_id b)) as [E | Hne].
    + rewrite E, Hself. unfold b_id in E. inversion E; subst f t0 x.
      pose proof (b_rc_le _ _ _ I (b_from b) (b_to b)). split; [lia | discriminate].
    + rewrite (Hoth _ Hne). apply F1.
      destruct ((f =? b_from b) && (t0 =? b_to b)) eqn:E2; [|exact Hx].
      apply andb_true_iff in E2. destruct E2 as [E3 E4]. apply N.eqb_eq in E3, E4. subst f t0.
      assert (x <> b_idx b) by (intro; subst; apply Hne; reflexivity). lia.
  - intros g gi k s Hg Hnf Hin Hfs. rewrite HRC. eapply Hkid; eauto.
Qed.

(** ** receipts and notices that finish a one-to-one transaction *)
Lemma fininv_single w t c c1 i hh s s' serial :
  BInv w t c -> FinInv t c -> same_core c c1 ->
  tm_rec t i = Some (hh, s) -> is_final s' = true ->
  snd i = RC c (fst (fst i)) (snd (fst i)) + 1 ->
  FinInv (set_rec t i (hh, s')) (put_rcpt (set_dest c1 (fst (fst i)) (snd (fst i)) (snd i) (get_rec c1 (fst (fst i)))) i serial).
Proof.
  intros I [F1 F2] Hsc Hr Hfs Hidx. destruct i as [[fi ti] xi]. simpl in *.
  destruct (same_core_counters _ _ Hsc) as [EIC [ERC _]].
  set (c' := put_rcpt (set_dest c1 fi ti xi (get_rec c1 fi)) (fi, ti, xi) serial).
  assert (HIC : forall f t0, IC c' f t0 = IC c f t0).
  { intros. unfold c', IC. change (IC (set_dest c1 fi ti xi (get_rec c1 fi)) f t0 = IC c f t0).
    rewrite set_dest_IC by reflexivity. apply EIC. }
  assert (HRC : forall f t0, RC c' f t0 = if (f =? fi) && (t0 =? ti) then xi else RC c f t0).
  { intros. unfold c'. change (RC (set_dest c1 fi ti xi (get_rec c1 fi)) f t0 = (if (f =? fi) && (t0 =? ti) then xi else RC c f t0)).
    rewrite set_dest_RC by reflexivity. rewrite ERC. reflexivity. }
  constructor.
  - intros f t0 x Hx. rewrite HIC in Hx. rewrite HRC.
    destruct (txid_dec (f, t0, x) (fi, ti, xi)) as [E | Hne].
    + inversion E; subst. rewrite !N.eqb_refl. simpl. rewrite fin_set_rec_self, Hfs. split; [reflexivity | lia].
    + rewrite fin_set_rec_other by exact Hne. rewrite <- (F1 f t0 x Hx).
      destruct ((f =? fi) && (t0 =? ti)) eqn:E2; [|tauto].
      apply andb_true_iff in E2. destruct E2 as [E3 E4]. apply N.eqb_eq in E3, E4. subst f t0.
      assert (x <> xi) by (intro; subst; apply Hne; reflexivity). lia.
  - intros g gi k st Hg Hnf Hin Hfst. simpl in Hg. rewrite HRC.
    pose proof (F2 g gi k st Hg Hnf Hin Hfst) as Hold.
    destruct k as [[kf kt] kx]. simpl in *.
    destruct ((kf =? fi) && (kt =? ti)) eqn:E2; [|exact Hold].
    apply andb_true_iff in E2. destruct E2 as [E3 E4]. apply N.eqb_eq in E3, E4. subst kf kt.
    (* then k would be the one-to-one transaction itself, which is not a child *)
    exfalso. assert (Hkx : kx = xi) by lia. rewrite Hkx in Hin.
    assert (Hc : tm_child t (fi, ti, xi) = Some g).
    { apply (g_glob_child _ _ _ I g gi _ Hg). apply child_lookup_keys. apply in_map_iff. exists ((fi, ti, xi), st). split; [reflexivity | exact Hin]. }
    pose proof (g_excl _ _ _ I (fi, ti, xi)) as X. rewrite Hc in X. specialize (X ltac:(discriminate)). congruence.
Qed.

(** ** a child's receipt *)
Lemma child_iff w t c g gi j :
  BInv w t c -> tm_glob t g = Some gi ->
  (tm_rec t j = None /\ tm_child t j = Some g) <-> In j (map fst (g_children gi)).
Proof.
  intros I Hg. split.
  - intros [_ Hc]. destruct (g_child_glob _ _ _ I j g Hc) as [gi0 [E Hl]]. rewrite Hg in E. inversion E; subst.
    apply child_lookup_keys. exact Hl.
  - intro Hin. assert (Hc : tm_child t j = Some g) by (apply (g_glob_child _ _ _ I g gi j Hg); apply child_lookup_keys; exact Hin).
    split; [|exact Hc]. apply (g_excl _ _ _ I j). rewrite Hc. discriminate.
Qed.

(** the receipt / notice branch of [process_ibtp] *)
Definition resp_state (c1 : ichain) (b : ibtp) (rec : icrec) (serial cur : N) (kids : list txid) : ichain :=
  if is_final cur then
    match kids with
    | [] => put_rcpt (set_dest c1 (b_from b) (b_to b) (b_idx b) rec) (b_id b) serial
    | _ => let '(c2, ok) := handle_multi c1 kids in if ok then put_rcpt c2 (b_id b) serial else c2
    end
  else put_rcpt c1 (b_id b) serial.

Lemma process_resp w c1 b rec serial notif terr cur kids :
  is_request b && negb notif = false ->
  fst (process_ibtp w c1 b rec serial notif terr false cur kids) = resp_state c1 b rec serial cur kids.
Proof.
  intro H. unfold process_ibtp, resp_state. rewrite H. destruct (is_final cur); [|reflexivity].
  destruct kids as [|k0 kr]; [reflexivity|]. destruct (handle_multi c1 (k0 :: kr)) as [c2 ok]. destruct ok; reflexivity.
Qed.

Lemma fininv_child w t c c1 g gi gi' rm t1 b serial kids :
  BInv w t c -> KInv t -> FinInv t c -> same_core c c1 ->
  tm_rec t (b_id b) = None -> tm_child t (b_id b) = Some g -> tm_glob t g = Some gi ->
  child_lookup (b_id b) (g_children gi) <> None ->
  cm_change gi (b_id b) (b_typ b) gi' rm ->
  tm_rec t1 = tm_rec t -> tm_child t1 = tm_child t -> tm_glob t1 = tm_glob t ->
  b_idx b = RC c (b_from b) (b_to b) + 1 ->
  (forall k, In k kids <-> In k (map fst (g_children gi'))) ->
  FinInv (set_glob t1 g gi') (resp_state c1 b (get_rec c (b_from b)) serial (g_state gi') kids).
Proof.
  intros I K [F1 F2] Hsc Hrn Hcg Hg Hcl Hcm R1 R2 R3 Hidx Hkids.
  destruct (same_core_counters _ _ Hsc) as [EIC [ERC [_ [_ EG]]]].
  destruct (K g gi Hg) as [Hshape Hnd].
  destruct (cm_keys _ _ _ _ _ Hcl Hcm) as [Hkeys _].
  assert (Hfin : forall j, fin (set_glob t1 g gi') j =
                           if existsb (txid_eqb j) (map fst (g_children gi)) then is_final (g_state gi') else fin t j).
  { intro j. rewrite (fin_set_glob t t1 g gi' j R1 R2 R3).
    destruct (existsb (txid_eqb j) (map fst (g_children gi))) eqn:E.
    - apply existsb_exists in E. destruct E as [j0 [Hj0 E]]. apply txid_eqb_eq in E. subst j0.
      destruct (proj2 (child_iff w t c g gi j I Hg) Hj0) as [A B]. rewrite A, B, gid_eqb_refl. reflexivity.
    - destruct (tm_rec t j) eqn:Er; [reflexivity|]. destruct (tm_child t j) as [g0|] eqn:Ec; [|reflexivity].
      destruct (gid_eqb g0 g) eqn:Eg; [|reflexivity]. apply gid_eqb_eq in Eg. subst g0. exfalso.
      pose proof (proj1 (child_iff w t c g gi j I Hg) (conj Er Ec)) as Hin.
      assert (existsb (txid_eqb j) (map fst (g_children gi)) = true) by (apply existsb_exists; exists j; split; [exact Hin | apply txid_eqb_refl]).
      congruence. }
  assert (Hst_old : forall k, In k (map fst (g_children gi)) -> fin t k = is_final (g_state gi)).
  { intros k Hk. destruct (proj2 (child_iff w t c g gi k I Hg) Hk) as [_ B]. apply (fin_child w t c k g gi I B Hg). }
  (* the simple situation: nothing is finalised, counters unchanged *)
  assert (Hopen_case : is_final (g_state gi) = false -> is_final (g_state gi') = false ->
            (forall k s, In (k, s) (g_children gi') -> is_final s = true ->
                         k = b_id b \/ In (k, s) (g_children gi)) ->
            FinInv (set_glob t1 g gi') (put_rcpt c1 (b_id b) serial)).
  { intros Ho Ho' Hkid. constructor.
    - intros f t0 x Hx. change (1 <= x <= IC c1 f t0) in Hx. rewrite EIC in Hx.
      change (x <= RC c1 f t0 <-> fin (set_glob t1 g gi') (f, t0, x) = true). rewrite ERC, Hfin.
      destruct (existsb (txid_eqb (f, t0, x)) (map fst (g_children gi))) eqn:E; [|apply F1; exact Hx].
      apply existsb_exists in E. destruct E as [j0 [Hj0 E]]. apply txid_eqb_eq in E. subst j0.
      rewrite (F1 f t0 x Hx), (Hst_old _ Hj0), Ho, Ho'. tauto.
    - intros g0 gi0 k s Hg0 Hnf Hin Hfs. change (RC c1 (fst (fst k)) (snd (fst k)) + 1 = snd k). rewrite ERC.
      simpl in Hg0. rewrite R3 in Hg0. unfold upd in Hg0. destruct (gid_eqb g0 g) eqn:Eg.
      + inversion Hg0; subst gi0. destruct (Hkid k s Hin Hfs) as [-> | Hold].
        * unfold b_id. simpl. unfold b_id in Hidx. symmetry. exact Hidx.
        * apply (F2 g gi k s Hg Ho Hold Hfs).
      + apply (F2 g0 gi0 k s Hg0 Hnf Hin Hfs). }
  unfold resp_state.
  inversion Hcm; subst.
  - (* the group fails *)
    simpl g_state. cbn [is_final ST_BEGIN_FAILURE]. change (is_final ST_BEGIN_FAILURE) with false. cbv iota.
    apply Hopen_case.
    + match goal with Hx : g_state gi = ST_BEGIN |- _ => rewrite Hx end. reflexivity.
    + reflexivity.
    + intros k s Hin Hfs. simpl in Hin. apply child_set_In in Hin; [|apply children_all_nodup; exact Hnd].
      destruct Hin as [E | [Hin _]]; [left; inversion E; reflexivity|].
      apply children_all_vals in Hin. simpl in Hin. subst s. discriminate.
  - (* a child moves, the group stays open *)
    assert (Hopen : is_final (g_state gi) = false).
    { match goal with Hl : child_lookup (b_id b) (g_children gi) = Some ?s0, Hf : set_fsm ?s0 _ = Some _ |- _ =>
        apply (group_open gi (b_id b) s0 _ _ Hshape (child_lookup_in _ _ _ Hl) Hf) end. }
    simpl g_state. rewrite Hopen. apply Hopen_case; auto.
    intros k s Hin Hfs. simpl in Hin. apply child_set_In in Hin; [|exact Hnd].
    destruct Hin as [E | [Hin _]]; [left; inversion E; reflexivity | right; exact Hin].
  - (* the last child: the group is finalised and every child's pair counter moves *)
    assert (Hopen : is_final (g_state gi) = false).
    { match goal with Hl : child_lookup (b_id b) (g_children gi) = Some ?s0, Hf : set_fsm ?s0 _ = Some _ |- _ =>
        apply (group_open gi (b_id b) s0 _ _ Hshape (child_lookup_in _ _ _ Hl) Hf) end. }
    match goal with Hf : set_fsm (g_state gi) _ = Some ?x |- _ => destruct (receipt_edge_final _ _ _ Hf) as [Hgf _] end.
    simpl g_state. rewrite Hgf.
    match goal with Hf : set_fsm st (event_of_receipt _) = Some ?x |- _ => destruct (receipt_edge_final _ _ _ Hf) as [Hcf _] end.
    match goal with Hm : multi_finished _ _ _ = true |- _ =>
      unfold multi_finished in Hm; apply andb_true_iff in Hm; destruct Hm as [Hall _]; apply forallb_kids in Hall end.
    set (kids' := child_set (b_id b) st' (g_children gi)) in *. cbn [g_children] in Hkeys.
    assert (Hk'nd : NoDup (map fst kids')) by (apply child_set_nodup; exact Hnd).
    (* every child waits exactly at its pair's counter *)
    assert (Hwait : forall k, In k (map fst kids') -> RC c (fst (fst k)) (snd (fst k)) + 1 = snd k).
    { intros k Hk. apply in_map_iff in Hk. destruct Hk as [[k0 s0] [E0 Hin]]. simpl in E0. subst k0.
      pose proof (Hall _ Hin) as Hs0. simpl in Hs0. destruct Hs0 as [Hs0 | []]. subst s0.
      apply child_set_In in Hin; [|exact Hnd]. destruct Hin as [E | [Hin _]].
      - inversion E; subst. unfold b_id. simpl. unfold b_id in Hidx. symmetry. exact Hidx.
      - apply (F2 g gi k st' Hg Hopen Hin Hcf). }
    assert (Hkk : forall k, In k kids <-> In k (map fst kids')) by (intro k; rewrite Hkids; simpl; tauto).
    assert (Hatoi : forall k, In k kids -> atoi_ok k = true).
    { intros [[kf kt] kx] Hk. apply Hkk in Hk. rewrite Hkeys in Hk.
      destruct (proj2 (child_iff w t c g gi _ I Hg) Hk) as [_ B].
      assert (Hb : begun t (kf, kt, kx)) by (right; congruence).
      pose proof (b_begun_le _ _ _ I _ _ _ Hb) as Hle. pose proof (b_small _ _ _ I kf kt) as Hs.
      unfold atoi_ok, B63 in *. simpl. apply N.ltb_lt. lia. }
    destruct kids as [|k0 kr].
    { exfalso. assert (In (b_id b) []) by (apply Hkk; unfold kids'; rewrite child_set_keys;
        destruct (child_lookup (b_id b) (g_children gi)) eqn:E; [apply child_lookup_keys; rewrite E; discriminate | contradiction]).
      contradiction. }
    set (kids := k0 :: kr) in *.
    destruct (handle_multi_spec kids c1 Hatoi) as [c2 [E2 [HIC2 [_ [Hreq2 [Hrcpt2 [_ [_ [_ [_ Hrc2]]]]]]]]]].
    change (FinInv (set_glob t1 g (Build_ginfo gs' (g_height gi) kids' (g_count gi)))
                   (let '(c3, ok) := handle_multi c1 kids in if ok then put_rcpt c3 (b_id b) serial else c3)).
    rewrite E2.
    assert (Hhit : forall f t0, (exists x, In (f, t0, x) kids) -> exists x', In (f, t0, x') kids /\ RC c2 f t0 = x').
    { apply (handle_multi_hit kids c1 c2 Hatoi E2). }
    (* the new counter of a pair that has a child is that child's index *)
    assert (Hnew : forall f t0 x, In (f, t0, x) (map fst kids') -> RC c2 f t0 = x /\ x = RC c f t0 + 1).
    { intros f t0 x Hin. pose proof (Hwait _ Hin) as Hw. simpl in Hw.
      destruct (Hhit f t0 (ex_intro _ x (proj2 (Hkk _) Hin))) as [x' [Hin' E']].
      pose proof (Hwait _ (proj1 (Hkk _) Hin')) as Hw'. simpl in Hw'. split; lia. }
    constructor.
    + intros f t0 x Hx. change (1 <= x <= IC c2 f t0) in Hx. rewrite HIC2, EIC in Hx.
      change (x <= RC c2 f t0 <-> fin (set_glob t1 g (Build_ginfo gs' (g_height gi) kids' (g_count gi))) (f, t0, x) = true).
      rewrite Hfin. simpl g_state. rewrite Hgf.
      destruct (pair_in_dec kids f t0) as [[xc Hc] | Hnone].
      * apply Hkk in Hc. destruct (Hnew f t0 xc Hc) as [Enew Ewait]. rewrite Enew.
        destruct (existsb (txid_eqb (f, t0, x)) (map fst (g_children gi))) eqn:E.
        -- apply existsb_exists in E. destruct E as [j0 [Hj0 E]]. apply txid_eqb_eq in E. subst j0.
           rewrite <- Hkeys in Hj0. destruct (Hnew f t0 x Hj0) as [_ Ew2]. split; [reflexivity | lia].
        -- rewrite <- (F1 f t0 x Hx). split; [|lia]. intro Hle.
           assert (x <> xc).
           { intro; subst x. rewrite Hkeys in Hc.
             assert (existsb (txid_eqb (f, t0, xc)) (map fst (g_children gi)) = true)
               by (apply existsb_exists; exists (f, t0, xc); split; [exact Hc | apply txid_eqb_refl]). congruence. }
           lia.
      * rewrite Hrc2 by exact Hnone. rewrite ERC.
        destruct (existsb (txid_eqb (f, t0, x)) (map fst (g_children gi))) eqn:E; [|apply F1; exact Hx].
        exfalso. apply existsb_exists in E. destruct E as [j0 [Hj0 E]]. apply txid_eqb_eq in E. subst j0.
        rewrite <- Hkeys in Hj0. apply (Hnone x). apply Hkk. exact Hj0.
    + intros g0 gi0 k s Hg0 Hnf Hin Hfs. change (RC c2 (fst (fst k)) (snd (fst k)) + 1 = snd k).
      simpl in Hg0. rewrite R3 in Hg0. unfold upd in Hg0. destruct (gid_eqb g0 g) eqn:Eg.
      * inversion Hg0; subst gi0. simpl in Hnf. congruence.
      * apply gid_eqb_neq in Eg.
        pose proof (F2 g0 gi0 k s Hg0 Hnf Hin Hfs) as Hold.
        destruct k as [[kf kt] kx]. simpl in *.
        destruct (pair_in_dec kids kf kt) as [[xc Hc] | Hnone].
        -- exfalso. apply Hkk in Hc. destruct (Hnew kf kt xc Hc) as [_ Ew]. assert (xc = kx) by lia. subst xc.
           rewrite Hkeys in Hc. destruct (proj2 (child_iff w t c g gi _ I Hg) Hc) as [_ B1].
           assert (B2 : tm_child t (kf, kt, kx) = Some g0).
           { apply (g_glob_child _ _ _ I g0 gi0 _ Hg0). apply child_lookup_keys. apply in_map_iff. exists ((kf, kt, kx), s). split; [reflexivity | exact Hin]. }
           congruence.
        -- rewrite Hrc2 by exact Hnone. rewrite ERC. exact Hold.
Qed.

(** ** one IBTP transaction *)
Lemma fininv_handle w h serial b t c t' c' r :
  BInv w t c -> KInv t -> FinInv t c -> ibtp_wf w b ->
  handle_ibtp cfg_fixed w h serial b t c = Some (t', c', r) -> FinInv t' c'.
Proof.
  intros I K F [Hsmall [_ Hloc]] Hh.
  destruct (binv_handle _ _ _ _ _ _ _ _ _ I Hsmall Hh) as [_ Kk].
  inversion Kk; subst; [exact F|].
  match goal with Hx : svc_lookup w (b_from b) = Some _ |- _ => rename Hx into Esf end.
  match goal with Hx : svc_lookup w (b_to b) = Some _ |- _ => rename Hx into Esd end.
  match goal with Hx : check_ibtp _ _ _ _ = _ |- _ => rename Hx into Ec end.
  match goal with Hx : tm_step _ _ _ _ _ _ _ _ = _ |- _ => rename Hx into Et end.
  destruct (check_fixed _ _ _ _ _ _ Ec) as [_ [Hnotif [[sf0 [sd0 [Ef0 [Ed0 [_ Hterr2]]]]] Hidx]]].
  rewrite Esf in Ef0. rewrite Esd in Ed0. inversion Ef0; inversion Ed0; subst sf0 sd0.
  pose proof (notify_fields cfg_fixed w c h sf sd ch) as Hsc. fold nc in Hsc.
  destruct (same_core_counters _ _ Hsc) as [_ [_ [_ [_ EG]]]].
  pose proof (b_small _ _ _ I (b_from b) (b_to b)) as Hs.
  pose proof (b_rc_le _ _ _ I (b_from b) (b_to b)) as Hrcle.
  destruct (is_request b && negb notif) eqn:EA.
  - (* plain request *)
    apply andb_true_iff in EA. destruct EA as [Hrq Hnn]. apply negb_true_iff in Hnn.
    assert (Epc : fst pc = req_step (fst nc) b (get_rec (fst nc) (b_from b)) serial).
    { unfold pc, process_ibtp. rewrite Hrq, Hnn. simpl. rewrite EG. reflexivity. }
    rewrite Epc.
    unfold expected_index in Hidx. rewrite Hrq, Hnn in Hidx. simpl in Hidx.
    fold (IC c (b_from b) (b_to b)) in Hidx. rewrite wrap64_small in Hidx by (unfold B63, W64 in *; lia).
    eapply fininv_request; eauto.
    intro Hb. destruct b as [bf bt bi bty bT bg bx]. unfold b_id in Hb. simpl in *.
    pose proof (b_begun_le _ _ _ I _ _ _ Hb). lia.
  - (* receipt or notice *)
    unfold pc. rewrite process_resp by exact EA.
    unfold expected_index in Hidx. rewrite EA in Hidx.
    fold (RC c (b_from b) (b_to b)) in Hidx. rewrite wrap64_small in Hidx by (unfold B63, W64 in *; lia).
    destruct (Hterr2 eq_refl) as [Hterr _]. subst terr.
    assert (Hbg : begun t (b_id b)).
    { destruct (is_request b) eqn:Hrq.
      - simpl in EA. apply negb_false_iff in EA. rewrite Hnotif in EA.
        destruct (is_notification_true _ _ _ _ _ Esf Esd EA) as [_ [_ Hreq]].
        destruct b as [bf bt bi bty bT bg bx]. unfold b_id in *. simpl in *.
        apply (b_le_begun _ _ _ I). apply (b_req_iff _ _ _ I). exact Hreq.
      - destruct (begun_evolution _ _ _ _ _ _ _ _ _ Et) as [_ [_ [_ X]]]. apply X. exact Hrq. }
    apply tm_step_inv in Et. inversion Et; subst.
    + (* inter-hub begin on an id without record: impossible for a begun id between hubs *)
      exfalso. destruct Hbg as [Hbg | Hbg]; [congruence|].
      destruct (tm_child t (b_id b)) as [g|] eqn:Ecg; [|congruence].
      pose proof (g_samehub _ _ _ I (b_id b) g sf sd Ecg Esf Esd) as Hh2.
      match goal with Hx : (sv_hub sf =? sv_hub sd) = false |- _ => apply N.eqb_neq in Hx; contradiction end.
    + (* notice *)
      match goal with Hf : set_fsm s (event_of_txstatus _) = Some _ |- _ => destruct (notice_edge_final _ _ _ Hf) as [Hfs _] end.
      unfold resp_state. simpl c_cur. rewrite Hfs. simpl c_child.
      rewrite <- (EG (b_from b)).
      apply (fininv_single w t c (fst nc) (b_id b) hh s s' serial I F Hsc); auto.
    + (* a same-hub begin is a plain request, not this branch *)
      exfalso. match goal with Hq : is_request b = true |- _ => rewrite Hq in EA end. simpl in EA. apply negb_false_iff in EA.
      try rewrite Hnotif in EA. unfold is_notification in EA. rewrite Esf, Esd in EA.
      match goal with Hx : (sv_hub sf =? sv_hub sd) = true |- _ => rewrite Hx in EA end. discriminate.
    + exfalso. match goal with Hq : is_request b = true |- _ => rewrite Hq in EA end. simpl in EA. apply negb_false_iff in EA.
      try rewrite Hnotif in EA. unfold is_notification in EA. rewrite Esf, Esd in EA.
      match goal with Hx : (sv_hub sf =? sv_hub sd) = true |- _ => rewrite Hx in EA end. discriminate.
    + match goal with Hr : rp_change _ _ _ _ _ _ |- _ => inversion Hr; subst end.
      * match goal with Hf : set_fsm st (event_of_receipt _) = Some _ |- _ => destruct (receipt_edge_final _ _ _ Hf) as [Hfs _] end.
        unfold resp_state. simpl c_cur. rewrite Hfs. simpl c_child.
        rewrite <- (EG (b_from b)).
        apply (fininv_single w t c (fst nc) (b_id b) hh st st' serial I F Hsc); auto.
      * assert (R : tm_rec t1 = tm_rec t /\ tm_child t1 = tm_child t /\ tm_glob t1 = tm_glob t).
        { destruct rm.
          - match goal with Hx : tm_remove_timeout _ _ _ = Some _ |- _ => apply tm_remove_timeout_fields in Hx; destruct Hx as [A [B C]] end. auto.
          - match goal with Hx : Some _ = Some _ |- _ => inversion Hx; subst end. auto. }
        destruct R as [R1 [R2 R3]].
        repeat match goal with x := _ |- _ => subst x end. simpl c_cur. simpl c_child.
        match goal with |- FinInv _ (resp_state ?C _ _ _ _ _) => eapply (fininv_child w t c C g gi gi' rm t1 b serial); eauto end.
        intro k. apply id_sort_in.
Qed.

(** ** the block, reachability, and the counting statement *)
Lemma fininv_put_zero t c k : FinInv t c -> i_rec c k = None -> FinInv t (put_rec c k icrec_zero).
Proof.
  intros [F1 F2] Hn. pose proof (get_rec_put_zero c k) as G. specialize (fun x => G x Hn).
  constructor; unfold IC, RC in *; intros; rewrite ?G in *; eauto.
Qed.

Lemma fininv_block w st ops st' bm :
  SInv w st -> KInv (s_tm st) -> Forall (op_wf w) ops -> s_h st + 1 < W64 ->
  exec_block cfg_fixed w st ops = Some (st', bm) -> FinInv (s_tm st) (s_ic st) -> FinInv (s_tm st') (s_ic st').
Proof.
  intros S K Hwf Hh E F.
  destruct (exec_block_fixed w st ops S Hwf Hh) as [st2 [bm2 [mid [t2 [E2 [_ Fb]]]]]].
  rewrite E in E2. inversion E2; subst st2 bm2.
  assert (Pmid : BInv w (s_tm mid) (s_ic mid) /\ KInv (s_tm mid) /\ FinInv (s_tm mid) (s_ic mid)).
  { apply (apply_ops_pres2 (fun t c => BInv w t c /\ KInv t /\ FinInv t c) w (s_h st + 1))
      with (ops := ops) (i := 0) (touched := false) (st := st) (rs := m_res bm).
    - intros serial b t c t' c' r Hb [I [K0 F0]] Hh0. split; [|split].
      + destruct Hb as [Hs _]. exact (proj1 (binv_handle _ _ _ _ _ _ _ _ _ I Hs Hh0)).
      + eapply kinv_handle; eauto.
      + eapply fininv_handle; eauto.
    - intros t c k [I [K0 F0]] Hk. split; [apply binv_put_zero; assumption|]. split; [exact K0 | apply fininv_put_zero; assumption].
    - exact Hwf.
    - exact (bf_ops _ _ _ _ _ _ _ Fb).
    - split; [exact (si_b _ _ S)|]. split; assumption. }
  destruct Pmid as [Im [Km [Fm1 Fm2]]].
  (* the timeout rollback only moves BEGIN records / groups to BEGIN_ROLLBACK: nothing becomes or stops being final *)
  destruct (get_timeout_list_spec w t2 (s_h st) (bf_t2_inv _ _ _ _ _ _ _ Fb)) as [_ [_ Lin]].
  set (l := get_timeout_list t2 (s_h st + 1)) in *.
  assert (Hfin : forall j, fin (s_tm st') j = fin (s_tm mid) j).
  { intro j. unfold fin, tm_status_tx. rewrite (bf_rec _ _ _ _ _ _ _ Fb), (bf_child _ _ _ _ _ _ _ Fb). fold l.
    destruct (in_l (TTx j) l) eqn:Ej.
    - apply in_l_spec in Ej. apply Lin in Ej. destruct Ej as [_ Hl].
      destruct (m_tx _ _ _ _ _ (bf_t2_inv _ _ _ _ _ _ _ Fb) (s_h st + 1) j ltac:(lia) Hl) as [s [Es [Hs | []]]]. subst s.
      rewrite (bf_t2_rec _ _ _ _ _ _ _ Fb) in Es. rewrite Es. reflexivity.
    - destruct (tm_rec (s_tm mid) j) as [[? ?]|]; [reflexivity|].
      destruct (tm_child (s_tm mid) j) as [g|]; [|reflexivity].
      rewrite (bf_glob _ _ _ _ _ _ _ Fb). fold l. destruct (in_l (TGid g) l) eqn:Eg; [|reflexivity].
      apply in_l_spec in Eg. apply Lin in Eg. destruct Eg as [_ Hl].
      destruct (m_gid _ _ _ _ _ (bf_t2_inv _ _ _ _ _ _ _ Fb) (s_h st + 1) g ltac:(lia) Hl) as [gi [Eg [Hs _]]].
      rewrite (bf_t2_glob _ _ _ _ _ _ _ Fb) in Eg. rewrite Eg. simpl. rewrite Hs. reflexivity. }
  rewrite (bf_ic _ _ _ _ _ _ _ Fb). constructor.
  - intros f t0 x Hx. rewrite Hfin. apply Fm1. exact Hx.
  - intros g gi k s Hg Hnf Hin Hfs. rewrite (bf_glob _ _ _ _ _ _ _ Fb) in Hg. fold l in Hg.
    destruct (in_l (TGid g) l).
    + destruct (tm_glob (s_tm mid) g) as [gi0|]; [|discriminate]. inversion Hg; subst gi. simpl in Hin.
      apply children_all_vals in Hin. simpl in Hin. subst s. discriminate.
    + eapply Fm2; eauto.
Qed.

Lemma reach_fininv w st : reach w st -> FinInv (s_tm st) (s_ic st).
Proof.
  induction 1.
  - apply fininv_init.
  - eapply fininv_block; eauto; [apply reach_sinv; assumption | apply (reach_kinv w); assumption].
  - destruct IHreach as [F1 F2]. constructor.
    + intros f t0 x Hx. apply F1. exact Hx.
    + intros g gi k s Hg. apply (F2 g gi k s Hg).
Qed.

(** in every reachable state, among the accepted indices 1..InterchainCounter of a pair exactly the
    first ReceiptCounter ones are finalised: ReceiptCounter is the number of finalised receipts *)
Theorem c02_receipt_count w st f t x :
  reach w st -> 1 <= x <= IC (s_ic st) f t ->
  (x <= RC (s_ic st) f t <-> fin (s_tm st) (f, t, x) = true).
Proof. intros R Hx. apply (fi_rc _ _ (reach_fininv w st R)). exact Hx. Qed.
