(** C18 / C19: the theorems about the pool model that [Properties/C18.v] and [Properties/C19.v]
    state.  Everything is about [cfg_fixed] (all defect flags off) and quantifies over every
    state reachable from the empty pool by any sequence of operations that does not move the
    ledger oracle under the pool ([static_op]); the witnesses at the end refute the properties
    for each defect flag and for a moving oracle. *)
From BX Require Import Base.Prelude Model.Mempool Model.MempoolSpec.
From BX Require Import Proofs.MempoolLib Proofs.MempoolInv Proofs.MempoolInvOps Proofs.MempoolCommit
  Proofs.MempoolGen Proofs.MempoolReach Proofs.MempoolEffects Proofs.MempoolTrace Proofs.MempoolTrace2
  Proofs.MempoolDrain Proofs.MempoolTrace3.
From Coq Require Import ZifyBool ZifyN ZifyNat.
Local Open Scope N_scope.

(* ------------------------------------------------------------------------- the predicates of the judge *)

Lemma P_b_spec p accts univ codes tr : P_b p accts univ codes tr = true <-> P p accts univ codes tr.
Proof.
  unfold P_b, P. rewrite forallb_forall. split.
  - intros H c i Hin Hc. specialize (H (c, i) Hin). cbn [fst] in H.
    apply negb_true_iff in H. apply (mem_false N.eqb Neqb_spec) in H. contradiction.
  - intros H [c i] Hin. cbn [fst]. apply negb_true_iff. apply (mem_false N.eqb Neqb_spec). eapply H. exact Hin.
Qed.

Lemma invariant_all_histories p accts univ ops : forallb static_op ops = true ->
  Inv (run_state cfg_fixed p accts univ empty_state ops).
Proof. intros. apply reachable_inv; [assumption | apply Inv_init]. Qed.

Lemma P_b_spec_C18 p accts univ tr : P_b p accts univ C18_codes tr = true <-> P p accts univ C18_codes tr.
Proof. apply P_b_spec. Qed.
Lemma P_b_spec_C19 p accts univ tr : P_b p accts univ C19_codes tr = true <-> P p accts univ C19_codes tr.
Proof. apply P_b_spec. Qed.

(* ------------------------------------------------------------------------- reachable states *)

Section Reach.
  Variable p : params.
  Variables (accts : list N) (univ : list tx).

  Definition reachable (s : state) : Prop :=
    exists ops, forallb static_op ops = true /\ s = run_state cfg_fixed p accts univ empty_state ops.

  Lemma reachable_Inv s : reachable s -> Inv s.
  Proof. intros [ops [H ->]]. apply reachable_inv; [exact H | apply Inv_init]. Qed.

  (** C18: what is batched and not yet committed is, per account, exactly a gap-free run that
      starts at the commit nonce and stays below the pending nonce *)
  Theorem batched_run s : reachable s -> forall a n, In (a, n) (batched s) ->
    get_cn s a <= n < get_pn s a /\ item_at s (a, n) <> None /\ (get_cn s a < n -> In (a, n - 1) (batched s)).
  Proof.
    intros R a n H. apply reachable_Inv in R. repeat split.
    - apply (I_b_lo _ _ _ R); [intros [] | exact H].
    - apply (I_b_hi _ _ _ R). exact H.
    - apply (I_b_item _ _ _ R). exact H.
    - intro Hlt. apply (I_b_down _ _ _ R); assumption.
  Qed.

  (** C18: one batch generation.  The batch is [map (tx_at s) slots] where every slot, in order, is
      at or above the commit nonce, was not batched before (neither earlier nor in this batch),
      and is the commit nonce itself or the successor of a batched slot ([seq_ok]); every
      transaction is the current occupant of its slot; the batch respects the size bound; the
      height is the previous sequence number plus one. *)
  Theorem generate_safe s s' h txs : reachable s -> generate p s = (s', Some (h, txs)) ->
    h = seqno s + 1 /\ seqno s' = h /\ len txs <= batch_size p /\
    exists slots, txs = map (tx_at s) slots /\ seq_ok s (batched s) slots /\
      (forall sl, In sl slots -> item_at s sl = Some (tx_at s sl) /\ get_tx cfg_fixed s (tx_at s sl) = Some (tx_at s sl)) /\
      (forall sl, In sl (batched s') <-> In sl (batched s) \/ In sl slots) /\
      (forall a, get_cn s' a = get_cn s a) /\ (forall sl, item_at s' sl = item_at s sl).
  Proof.
    intros R E. apply reachable_Inv in R. rewrite (generate_eq p s R) in E.
    destruct (gen_err p s); [discriminate|]. inversion E; subst; clear E.
    split; [reflexivity|]. split; [reflexivity|].
    split. { unfold len. rewrite map_length. apply (gen_slots_bound p s R). }
    exists (gen_slots p s). split; [reflexivity|]. split; [exact (GI_seq _ _ _ _ (gen_GI p s R))|].
    split.
    - intros [a n] Hin. destruct (gen_slot_ready p s R a n Hin) as [_ [_ [Hit _]]].
      unfold tx_at. destruct (item_at s (a, n)) as [t|] eqn:Et; [|congruence]. split; [reflexivity|].
      unfold get_tx. rewrite (I_it_hash _ _ _ R a n t Et (fun f => match f with end)). rewrite Et.
      cbn [d_lookup_hash cfg_fixed]. rewrite (eqb_refl tx_eqb tx_eqb_spec). reflexivity.
    - split; [intro sl; apply (gen_b_spec p s R)|]. split; reflexivity.
  Qed.

  (** the same through the two exported entry points *)
  Corollary generate_block_safe s s' h txs : reachable s -> generate_block p s = (s', Some (h, txs)) ->
    generate p s = (s', Some (h, txs)).
  Proof. intros _. unfold generate_block. destruct (negb (p_timed p) && (pnbs s =? 0)); [discriminate | auto]. Qed.

  Corollary process_batch_safe s leader now txs s' h b : reachable s ->
    process_txs p s leader now txs = (s', Some (h, b)) ->
    Inv (process_pre s now txs) /\ generate p (process_pre s now txs) = (s', Some (h, b)).
  Proof.
    intros R E. rewrite process_txs_eq in E. cbn zeta in E. split; [apply process_pre_inv, reachable_Inv, R|].
    destruct (leader && (batch_size p <=? pnbs (process_pre s now txs)) && negb (p_timed p)); [exact E | discriminate].
  Qed.

  (** C18 after a restart: the fresh pool starts every account at the ledger nonce *)
  Theorem restart_commit_nonce h led a :
    get_cn (init_state h led) a = lookup0 a led /\ get_pn (init_state h led) a = lookup0 a led /\ batched (init_state h led) = [].
  Proof. repeat split. Qed.

  (** C19: the pending nonce is exactly the first missing nonce counted from the commit nonce *)
  Theorem pending_nonce_exact s : reachable s -> forall a,
    get_cn s a <= get_pn s a /\
    (forall n, get_cn s a <= n < get_pn s a -> item_at s (a, n) <> None) /\
    item_at s (a, get_pn s a) = None /\
    (forall n, item_at s (a, n) <> None -> get_cn s a <= n).
  Proof.
    intros R a. apply reachable_Inv in R. repeat split.
    - apply (I_cn_pn _ _ _ R). intros [].
    - intros n Hn. apply (I_run _ _ _ R). exact Hn.
    - apply (I_next _ _ _ R). intros [].
    - intros n Hn. apply (I_it_cn _ _ _ R); [intros [] | exact Hn].
  Qed.

  Lemma filter_len_pos {A} (f : A -> bool) x l : In x l -> f x = true -> 1 <= len (filter f l).
  Proof.
    induction l as [|y t IH]; [intros []|]. intros [->|Hin] Hf; cbn [filter].
    - rewrite Hf. rewrite len_cons. lia.
    - specialize (IH Hin Hf). destruct (f y); rewrite ?len_cons; lia.
  Qed.

  (** C19: a held, ready (below the pending nonce), not yet batched transaction exists => the
      pool reports pending work *)
  Theorem pending_flag s : reachable s -> forall a n,
    item_at s (a, n) <> None -> n < get_pn s a -> ~ In (a, n) (batched s) -> has_pending s = true.
  Proof.
    intros R a n Hit Hn Hb. apply reachable_Inv in R. unfold has_pending. apply N.ltb_lt.
    destruct (item_at s (a, n)) as [t|] eqn:Et; [|congruence].
    assert (Hin : In (t_ts t, (a, n)) (priority s)) by (apply (I_prio _ _ _ R); exists t; auto).
    pose proof (I_pnbs _ _ _ R) as Hp. rewrite live_unbatched_nil in Hp.
    assert (1 <= len (unb s (batched s))).
    { unfold unb. eapply filter_len_pos; [exact Hin|]. cbn [snd]. apply negb_true_iff.
      apply (mem_false slot_eqb slot_eqb_spec). exact Hb. }
    lia.
  Qed.

  (** C19: lookups are truthful and complete *)
  Theorem lookup_truthful s h t : get_tx cfg_fixed s h = Some t -> t = h.
  Proof.
    unfold get_tx. destruct (alookup tx_eqb h (hashmap s)); [|discriminate].
    destruct (item_at s p0) as [t0|]; [|discriminate]. cbn [d_lookup_hash cfg_fixed].
    destruct (txP t0 h) as [->|]; [|discriminate]. intros [= <-]. reflexivity.
  Qed.

  Theorem held_retrievable s : reachable s -> forall sl t, item_at s sl = Some t ->
    slot_of t = sl /\ get_tx cfg_fixed s t = Some t.
  Proof.
    intros R [a n] t Et. apply reachable_Inv in R. split; [apply (I_it_slot _ _ _ R); exact Et|].
    unfold get_tx. rewrite (I_it_hash _ _ _ R a n t Et (fun f => match f with end)). rewrite Et.
    cbn [d_lookup_hash cfg_fixed]. rewrite (eqb_refl tx_eqb tx_eqb_spec). reflexivity.
  Qed.

  (** C19: no hash is counted whose slot has left the pool *)
  Theorem hashmap_live s : reachable s -> forall h sl, alookup tx_eqb h (hashmap s) = Some sl ->
    sl = slot_of h /\ item_at s sl <> None.
  Proof. intros R. apply reachable_Inv in R. apply (I_hm_wf _ _ _ R). Qed.

  (** every tracked hash refers to a slot at or above the commit nonce: the comparison of a committed
      nonce with the cached commit nonce in processCommitTransactions can never fail (the guard is
      redundant once stale entries are gone), and a commit report cannot move the commit nonce back *)
  Theorem tracked_above_commit s : reachable s -> forall h a n,
    alookup tx_eqb h (hashmap s) = Some (a, n) -> get_cn s a < n + 1.
  Proof.
    intros R h a n E. apply reachable_Inv in R. destruct (I_hm_wf _ _ _ R h (a, n) E) as [_ Hit].
    pose proof (I_it_cn _ _ _ R a n (fun f => f) Hit). lia.
  Qed.

  (** every batched mark refers to an entry of the priority index: priorityIndex.size() - len(batchedTxs)
      is exactly the number of ready unbatched transactions, never less *)
  Theorem batched_in_priority s : reachable s -> forall a n, In (a, n) (batched s) ->
    exists ts, In (ts, (a, n)) (priority s).
  Proof.
    intros R a n H. apply reachable_Inv in R. pose proof (I_b_item _ _ _ R _ H) as Hit.
    destruct (item_at s (a, n)) as [t|] eqn:Et; [|congruence]. exists (t_ts t).
    apply (I_prio _ _ _ R). exists t. repeat split; auto. apply (I_b_hi _ _ _ R). exact H.
  Qed.

  (** C19: the counter behind HasPendingRequest never under-counts the ready, unbatched slots *)
  Theorem counter_sound s : reachable s -> len (unb s (batched s)) <= pnbs s.
  Proof. intros R. apply reachable_Inv in R. apply (unb_le_pnbs s R). Qed.

  (** C19 (liveness, one round): a batch generation takes exactly min(ready unbatched, batch size)
      slots, and without reaching the bound it takes every ready slot *)
  Theorem generate_progress s : reachable s ->
    len (gen_slots p s) = N.min (len (unb s (batched s))) (batch_size p) /\
    (len (unb s (batched s)) <= batch_size p -> len (unb s (batched s)) <= pnbs s ->
     forall k, In k (priority s) -> In (snd k) (batched s) \/ In (snd k) (gen_slots p s)).
  Proof.
    intros R. apply reachable_Inv in R. split; [apply (gen_slots_exact p s R)|].
    intros Hle _ k Hk.
    destruct (gen_size_facts p s R) as [H1 [H2 [H3 [H4 H5]]]].
    assert (Hd : g_done (gen_acc p s) = false \/ len (unb s (batched s)) = len (gen_slots p s)).
    { destruct H5 as [[Hd Hl]|[Hd _]]; [right | left; exact Hd]. lia. }
    destruct Hd as [Hd|Hfull].
    - apply (gen_b_spec p s R). apply (gen_complete s R (gen_bsz p s) Hd). exact Hk.
    - (* the bound was reached exactly when everything was taken *)
      pose proof (GI_cnt _ _ _ _ (gen_GI p s R)) as Hc. fold (gen_slots p s) in Hc.
      assert (Hz : len (unb s (g_b (gen_acc p s))) = 0) by lia.
      apply (gen_b_spec p s R).
      destruct (mem slot_eqb (snd k) (g_b (gen_acc p s))) eqn:Em; [apply (mem_In slot_eqb slot_eqb_spec); exact Em|].
      exfalso. assert (1 <= len (unb s (g_b (gen_acc p s)))).
      { unfold unb. eapply filter_len_pos; [exact Hk|]. rewrite Em. reflexivity. }
      lia.
  Qed.
End Reach.

(* ------------------------------------------------------------------------- the trace predicates on all histories *)

(** a history whose submissions are covered by the observation frame and which does not move the
    ledger oracle *)
Definition good_history (accts : list N) (univ : list tx) (ops : list op) : Prop :=
  forallb static_op ops = true /\ (forall o, In o ops -> op_in_frame accts univ o).

Definition model_fails p accts univ ops : list (N * N) :=
  check_trace p accts univ (w0 accts univ) 0 (run cfg_fixed p accts univ empty_state ops).

Theorem no_failure_code p accts univ ops : good_history accts univ ops -> model_fails p accts univ ops = [].
Proof. intros [H1 H2]. apply all_histories_ok; assumption. Qed.

Theorem code_never p accts univ ops c i : good_history accts univ ops -> ~ In (c, i) (model_fails p accts univ ops).
Proof. intros H Hin. rewrite (no_failure_code p accts univ ops H) in Hin. destruct Hin. Qed.

Theorem P_C18_all p accts univ ops : good_history accts univ ops ->
  P p accts univ C18_codes (run cfg_fixed p accts univ empty_state ops).
Proof. intros [H1 H2]. apply all_histories_P; assumption. Qed.

Theorem P_C19_all p accts univ ops : good_history accts univ ops ->
  P p accts univ C19_codes (run cfg_fixed p accts univ empty_state ops).
Proof. intros [H1 H2]. apply all_histories_P; assumption. Qed.

(** state-level liveness: within ceil(ready / batchSize) rounds of (GenerateBlock; commit of that
    batch) every ready, unbatched transaction of a reachable state is handed out *)
Theorem eventually_batched p accts univ s k : reachable p accts univ s ->
  len (unb s (batched s)) <= N.of_nat k * batch_size p ->
  forall a n t, item_at s (a, n) = Some t -> n < get_pn s a -> ~ In (a, n) (batched s) ->
  exists b, In b (snd (drain cfg_fixed p k s)) /\ In t (snd b).
Proof.
  intros R Hm a n t Et Hn Hb. pose proof (reachable_Inv p accts univ s R) as I.
  destruct (drain_live p k s I Hm (t_ts t) (a, n)) as [b [H1 H2]].
  - apply unb_In. cbn [snd]. split; [|exact Hb]. apply (I_prio _ _ _ I). exists t. auto.
  - exists b. split; [exact H1|]. unfold tx_at in H2. rewrite Et in H2. exact H2.
Qed.

(* ------------------------------------------------------------------------- refutations and examples *)

Module Witness.
  Definition P1 := mkParams 2 100 false.
  Definition accts := [0; 1].
  Definition A0 := mkTx 0 0 1 10.
  Definition A1 := mkTx 0 1 2 11.
  Definition A2 := mkTx 0 2 3 12.
  Definition A2b := mkTx 0 2 9 30.
  Definition A3 := mkTx 0 3 4 13.
  Definition B3 := mkTx 1 3 5 14.
  Definition A5 := mkTx 0 5 6 15.
  Definition A5b := mkTx 0 5 7 16.
  Definition Y0 := mkTx 0 0 8 11.
  Definition led0 := [(0, 0); (1, 0)].
  Definition tr cfg h u := run cfg P1 accts u empty_state h.
  Definition fails cfg h u := check_trace P1 accts u (w0 accts u) 0 (tr cfg h u).

  (** A parks nonces 2 (old) and 3 (recent), B parks nonce 3 (old); the age rule evicts (A,2) and
      (B,3); with [d_xacct_index] A's index loses 3 as well, (A,3) stays held but is never promoted *)
  Definition h_xacct := [ORestart 1 led0; OProcess false true 100 [A2; B3]; OProcess false true 200 [A3];
                         ORemoveOld 250 100; OProcess false true 260 [A0; A1; A2b]].
  Definition u_xacct := [A2; B3; A3; A0; A1; A2b].

  (** (A,0) batched, (A,5) parked, the hash of (A,5) is committed: commit nonce 6, pending nonce 1 *)
  Definition h_cpend := [ORestart 1 led0; OProcess false true 100 [A0; A5]; OGenerate; OCommit [A5];
                         OProcess false true 101 [A1]; OGenerate].
  Definition u_cpend := [A0; A5; A1].

  (** two nonces batched, only the upper one committed *)
  Definition h_stale := [ORestart 1 led0; OProcess false true 100 [A0; A1]; OGenerate; OCommit [A1]].
  Definition u_stale := [A0; A1].

  (** a parked transaction is superseded; its old hash is looked up *)
  Definition h_lookup := [ORestart 1 led0; OProcess false true 100 [A5]; OProcess false true 101 [A5b]].
  Definition u_lookup := [A5; A5b].

  (** the chain commits another transaction for (A,0): oracle moves, unknown hash is committed *)
  Definition h_ledger := [ORestart 1 led0; OProcess true true 100 [A0]; OSetLedger 0 1; OCommit [Y0];
                          OProcess true true 101 [A1]; OGenerate].
  Definition u_ledger := [A0; Y0; A1].

  (** a non-trivial history on which every predicate holds: out-of-order arrival, a conflict,
      a duplicate, two batches, a partial commit, an eviction *)
  Definition h_good := [ORestart 7 [(0, 0); (1, 3)]; OProcess false true 100 [A1; B3; A0];
                        OProcess true false 101 [A0; A2; A5]; OProcess false true 102 [A5b];
                        OGenerate; OCommit [A1]; ORemoveOld 400 50; ODrain 2].
  Definition u_good := [A1; B3; A0; A2; A5; A5b].
End Witness.

Import Witness.

Lemma xacct_index_refuted :
  In (E_pending, 4) (fails (mkDefects true false false false) h_xacct u_xacct) /\ fails cfg_fixed h_xacct u_xacct = [].
Proof. vm_compute. split; [tauto | reflexivity]. Qed.

Lemma commit_pending_refuted :
  In (E_pending, 3) (fails (mkDefects false true false false) h_cpend u_cpend) /\ fails cfg_fixed h_cpend u_cpend = [].
Proof. vm_compute. split; [tauto | reflexivity]. Qed.

(** with stale batchedTxs entries on top, the same history batches below the commit nonce *)
Lemma commit_pending_below_commit_refuted :
  In (E_below_commit, 5) (fails (mkDefects false true true false) h_cpend u_cpend).
Proof. vm_compute. tauto. Qed.

Lemma stale_entries_refuted :
  In (E_stale, 3) (fails (mkDefects false false true false) h_stale u_stale) /\ fails cfg_fixed h_stale u_stale = [].
Proof. vm_compute. split; [tauto | reflexivity]. Qed.

Lemma lookup_hash_refuted :
  In (E_lookup, 2) (fails (mkDefects false false false true) h_lookup u_lookup) /\ fails cfg_fixed h_lookup u_lookup = [].
Proof. vm_compute. split; [tauto | reflexivity]. Qed.

(** the commit-nonce cache is never refreshed: with a moving oracle the repaired model, too,
    batches below the nonce the ledger reports *)
Lemma stale_commit_cache_refuted : In (E_below_ledger, 4) (fails cfg_fixed h_ledger u_ledger).
Proof. vm_compute. tauto. Qed.

Lemma good_history_is_good : good_history accts u_good h_good.
Proof.
  split; [reflexivity|]. intros o Ho. repeat (destruct Ho as [<-|Ho]; [cbn; try exact Logic.I; intros t Ht; repeat (destruct Ht as [<-|Ht]; [vm_compute; tauto|]); destruct Ht|]). destruct Ho.
Qed.

(** a reachable state in which two ready transactions wait (hypotheses of the state-level theorems) *)
Definition s_mid : state := run_state cfg_fixed P1 accts u_good empty_state (firstn 4 h_good).

Lemma s_mid_reachable : reachable P1 accts u_good s_mid.
Proof. exists (firstn 4 h_good). split; reflexivity. Qed.

Lemma s_mid_example :
  snd (generate P1 s_mid) = Some (9, [A2; B3]) /\ len (unb s_mid (batched s_mid)) = 2 /\
  batched s_mid = [(0, 1); (0, 0)] /\ get_cn s_mid 0 = 0 /\ get_pn s_mid 0 = 3 /\
  item_at s_mid (0, 2) = Some A2 /\ map snd (snd (drain cfg_fixed P1 1 s_mid)) = [[A2; B3]].
Proof. vm_compute. repeat split; reflexivity. Qed.

Lemma good_history_example :
  fails cfg_fixed h_good u_good = [] /\
  map (fun x => o_batches (snd x)) (tr cfg_fixed h_good u_good) =
  [[]; []; [(8, [A0; A1])]; []; [(9, [A2; B3])]; []; []; []].
Proof. vm_compute. split; reflexivity. Qed.
