(** The undo log: what reverting one entry does to the views (unconditionally), when it preserves
    the invariants, and [revert_n]. *)
From BX Require Import Base.Prelude Model.JsonAcct Model.Merkle Model.StateLedger Model.LedgerSpec
  Proofs.LedgerLemmas Proofs.RefineBase Proofs.RefineBlock.
Local Open Scope N_scope.

Definition ch_acct (c : change) : N :=
  match c with ChCreate a | ChBal a _ | ChNonce a _ | ChState a _ _ | ChCode a _ => a end.

(** * the object a revert works on *)
Lemma load_obj_orig m a o : load_obj m a = Some o ->
  o_orig o = fl_acct m a /\ o_dirty o = None /\ o_dst o = [] /\ o_ost o = [].
Proof.
  unfold load_obj, fl_acct. destruct (aget a (c_acct (s_cache m))) as [x|].
  - intro H. inversion H. simpl. repeat split.
  - destruct (aget a (d_acct (s_db m))) as [x|]; [| discriminate].
    intro H. inversion H. simpl. repeat split.
Qed.

(** [get_obj_revert]: state with the object in place, object, and what it looks like *)
Lemma get_obj_revert_spec m a :
  let '(m1, o) := get_obj_revert m a in
  aget a (s_objs m1) = Some o /\ s_db m1 = s_db m /\ s_cache m1 = s_cache m /\ s_chg m1 = s_chg m /\
  (forall a' k, cur_st m1 a' k = cur_st m a' k) /\ (forall a', cur_oacct m1 a' = cur_oacct m a') /\
  (forall a', a' <> a -> aget a' (s_objs m1) = aget a' (s_objs m)) /\
  (aget a (s_objs m) = Some o \/
   (aget a (s_objs m) = None /\ o_orig o = fl_acct m a /\ o_dirty o = None /\ o_dst o = [] /\ o_ost o = [] /\
    o_ocode o = o_dcode o)) /\
  s_revs m1 = s_revs m /\ s_next m1 = s_next m /\ s_pend m1 = s_pend m /\ s_prev m1 = s_prev m /\
  s_min m1 = s_min m /\ s_max m1 = s_max m /\ s_gen m1 = s_gen m.
Proof.
  unfold get_obj_revert. destruct (aget a (s_objs m)) as [o|] eqn:Ea.
  - repeat split; try reflexivity; try assumption. left. reflexivity.
  - assert (Hgen : forall o : obj,
              o_orig o = fl_acct m a -> o_dirty o = None -> o_dst o = [] -> o_ost o = [] ->
              (forall a' k, cur_st (put_obj m a o) a' k = cur_st m a' k) /\
              (forall a', cur_oacct (put_obj m a o) a' = cur_oacct m a')).
    { intros o H1 H2 H3 H4. split.
      - intros a' k. rewrite cur_st_put_obj. destruct (a' =? a) eqn:E; [| reflexivity].
        apply N.eqb_eq in E. subst a'. unfold cur_st, obj_st. rewrite Ea, H3, H4. reflexivity.
      - intros a'. rewrite cur_oacct_put_obj. destruct (a' =? a) eqn:E; [| reflexivity].
        apply N.eqb_eq in E. subst a'. unfold cur_oacct, cur_acct. rewrite Ea, H2. exact H1. }
    destruct (load_obj m a) as [o|] eqn:El.
    + destruct (load_obj_orig m a o El) as [H1 [H2 [H3 H4]]].
      destruct (Hgen o H1 H2 H3 H4) as [G1 G2].
      assert (Hcodes : o_ocode o = o_dcode o).
      { revert El. unfold load_obj. destruct (aget a (c_acct (s_cache m))); [intro H; inversion H; reflexivity|].
        destruct (aget a (d_acct (s_db m))); [intro H; inversion H; reflexivity | discriminate]. }
      repeat split; try reflexivity; try assumption.
      * rewrite put_obj_objs, N.eqb_refl. reflexivity.
      * intros a' Hne. rewrite put_obj_objs. destruct (a' =? a) eqn:E; [apply N.eqb_eq in E; contradiction | reflexivity].
      * right. repeat split; assumption.
    + pose proof (load_obj_none m a El) as Hn.
      destruct (Hgen (new_obj m)) as [G1 G2]; try reflexivity; [simpl; symmetry; exact Hn|].
      repeat split; try reflexivity; try assumption.
      * simpl. rewrite aget_aput, N.eqb_refl. reflexivity.
      * intros a' Hne. simpl. rewrite aget_aput. destruct (a' =? a) eqn:E; [apply N.eqb_eq in E; contradiction | reflexivity].
      * right. repeat split; try reflexivity. simpl. symmetry. exact Hn.
Qed.

Lemma cur_code_frame m m' : s_db m' = s_db m -> s_cache m' = s_cache m -> s_objs m' = s_objs m ->
  forall a, cur_code m' a = cur_code m a.
Proof. intros Hd Hc Ho a. unfold cur_code. rewrite Ho, (load_code_frame m m' Hd Hc). reflexivity. Qed.

Lemma get_obj_revert_code m a a' : cur_code (fst (get_obj_revert m a)) a' = cur_code m a'.
Proof.
  unfold get_obj_revert. destruct (aget a (s_objs m)) as [o|] eqn:Ea; [reflexivity|].
  destruct (load_obj m a) as [o|] eqn:El; cbn [fst].
  - rewrite cur_code_put_obj. destruct (a' =? a) eqn:E; [| reflexivity].
    apply N.eqb_eq in E. subst a'. unfold cur_code, load_code. rewrite Ea, El. reflexivity.
  - rewrite (cur_code_frame (put_obj m a (new_obj m)) (set_bad (put_obj m a (new_obj m)))); try reflexivity.
    rewrite cur_code_put_obj. destruct (a' =? a) eqn:E; [| reflexivity].
    apply N.eqb_eq in E. subst a'. unfold cur_code, load_code. rewrite Ea, El. reflexivity.
Qed.

(** * the views after reverting one entry (no invariant needed) *)
Definition undo_st (m : st) (c : change) (a' : N) (k' : bytes) : bytes :=
  match c with
  | ChState a k p => if (a' =? a) && bytes_eqb k' k then nb p else cur_st m a' k'
  | ChCreate a => if a' =? a then fl_st m a' k' else cur_st m a' k'
  | _ => cur_st m a' k'
  end.

Definition undo_ac (e : env) (m : st) (c : change) (a' : N) : N * Z * val :=
  let v := acct_view (cur_oacct m a') in
  match c with
  | ChBal a p => if a' =? a then (fst (fst v), p, snd v) else v
  | ChNonce a p => if a' =? a then (p, snd (fst v), snd v) else v
  | ChCode a p => if a' =? a then (fst (fst v), snd (fst v), Some (e_kec e (nb p))) else v
  | ChCreate a => if a' =? a then acct_view (aget a (d_acct (s_db m))) else v
  | ChState _ _ _ => v
  end.

Definition undo_cache (m : st) (c : change) : cache :=
  match c with
  | ChCreate a => mkCache (adel a (c_acct (s_cache m))) (c_st (s_cache m)) (c_code (s_cache m))
  | _ => s_cache m
  end.

Definition undo_code (m : st) (c : change) (a' : N) : bytes :=
  match c with
  | ChCode a p => if a' =? a then nb p else cur_code m a'
  | ChCreate a => if a' =? a then nb (load_code (set_cache m (undo_cache m c)) a') else cur_code m a'
  | _ => cur_code m a'
  end.

Lemma copy_or_new_view x : acct_view (Some (copy_or_new x)) = acct_view x.
Proof. destruct x; reflexivity. Qed.

Lemma fl_st_cache_acct m c' : c_st c' = c_st (s_cache m) -> forall a k, fl_st (set_cache m c') a k = fl_st m a k.
Proof. intros H a k. unfold fl_st, cached_state. simpl. rewrite H. reflexivity. Qed.

Lemma revert_change_views e m c :
  let m' := revert_change e m c in
  s_db m' = s_db m /\ s_cache m' = undo_cache m c /\ s_chg m' = s_chg m /\
  (forall a' k', cur_st m' a' k' = undo_st m c a' k') /\
  (forall a', acct_view (cur_oacct m' a') = undo_ac e m c a') /\
  s_revs m' = s_revs m /\ s_next m' = s_next m /\ s_pend m' = s_pend m /\ s_prev m' = s_prev m /\
  s_min m' = s_min m /\ s_max m' = s_max m /\ s_gen m' = s_gen m.
Proof.
  destruct c as [a | a p | a p | a k p | a p]; cbn [revert_change].
  - (* ChCreate *)
    cbv zeta. repeat split; try reflexivity.
    + intros a' k'. unfold undo_st, cur_st. simpl. rewrite aget_adel.
      destruct (a' =? a); [reflexivity|]. destruct (aget a' (s_objs m)); reflexivity.
    + intros a'. unfold undo_ac, cur_oacct. simpl. rewrite aget_adel. destruct (a' =? a) eqn:E.
      * apply N.eqb_eq in E. subst a'. unfold fl_acct. simpl. rewrite aget_adel, N.eqb_refl. reflexivity.
      * destruct (aget a' (s_objs m)) as [o|]; [reflexivity|].
        unfold fl_acct. simpl. rewrite aget_adel, E. reflexivity.
  - (* ChBal *)
    pose proof (get_obj_revert_spec m a) as S. destruct (get_obj_revert m a) as [m1 o].
    destruct S as [Ho [Hd [Hc [Hg [Hst [Hac [Hoth [Hcase [R1 [R2 [R3 [R4 [R5 [R6 R7]]]]]]]]]]]]]].
    cbv zeta. repeat split; try assumption.
    + intros a' k'. rewrite cur_st_put_obj. unfold undo_st. destruct (a' =? a) eqn:E; [| apply Hst].
      apply N.eqb_eq in E. subst a'. rewrite <- Hst, (cur_st_at m1 a o k' Ho). reflexivity.
    + intros a'. rewrite cur_oacct_put_obj. unfold undo_ac. rewrite <- Hac.
      destruct (a' =? a) eqn:E.
      * apply N.eqb_eq in E. subst a'. rewrite (cur_oacct_at m1 a o Ho). cbn [cur_acct set_dirty o_dirty].
        destruct (cur_acct o) as [x|]; reflexivity.
      * reflexivity.
  - (* ChNonce *)
    pose proof (get_obj_revert_spec m a) as S. destruct (get_obj_revert m a) as [m1 o].
    destruct S as [Ho [Hd [Hc [Hg [Hst [Hac [Hoth [Hcase [R1 [R2 [R3 [R4 [R5 [R6 R7]]]]]]]]]]]]]].
    cbv zeta. repeat split; try assumption.
    + intros a' k'. rewrite cur_st_put_obj. unfold undo_st. destruct (a' =? a) eqn:E; [| apply Hst].
      apply N.eqb_eq in E. subst a'. rewrite <- Hst, (cur_st_at m1 a o k' Ho). reflexivity.
    + intros a'. rewrite cur_oacct_put_obj. unfold undo_ac. rewrite <- Hac.
      destruct (a' =? a) eqn:E.
      * apply N.eqb_eq in E. subst a'. rewrite (cur_oacct_at m1 a o Ho). cbn [cur_acct set_dirty o_dirty].
        destruct (cur_acct o) as [x|]; reflexivity.
      * reflexivity.
  - (* ChState *)
    pose proof (get_obj_revert_spec m a) as S. destruct (get_obj_revert m a) as [m1 o].
    destruct S as [Ho [Hd [Hc [Hg [Hst [Hac [Hoth [Hcase [R1 [R2 [R3 [R4 [R5 [R6 R7]]]]]]]]]]]]]].
    cbv zeta. repeat split; try assumption.
    + intros a' k'. rewrite cur_st_put_obj. unfold undo_st. destruct (a' =? a) eqn:E; cbn [andb]; [| apply Hst].
      apply N.eqb_eq in E. subst a'. unfold obj_st. cbn [set_dst o_dst o_ost]. rewrite kget_kput.
      destruct (bytes_eqb k' k) eqn:E2; [reflexivity|].
      rewrite <- Hst, (cur_st_at m1 a o k' Ho). reflexivity.
    + intros a'. rewrite cur_oacct_put_obj. unfold undo_ac. rewrite <- Hac.
      destruct (a' =? a) eqn:E.
      * apply N.eqb_eq in E. subst a'. rewrite (cur_oacct_at m1 a o Ho). reflexivity.
      * reflexivity.
  - (* ChCode *)
    pose proof (get_obj_revert_spec m a) as S. destruct (get_obj_revert m a) as [m1 o].
    destruct S as [Ho [Hd [Hc [Hg [Hst [Hac [Hoth [Hcase [R1 [R2 [R3 [R4 [R5 [R6 R7]]]]]]]]]]]]]].
    cbv zeta. repeat split; try assumption.
    + intros a' k'. rewrite cur_st_put_obj. unfold undo_st. destruct (a' =? a) eqn:E; [| apply Hst].
      apply N.eqb_eq in E. subst a'. rewrite <- Hst, (cur_st_at m1 a o k' Ho). reflexivity.
    + intros a'. rewrite cur_oacct_put_obj. unfold undo_ac. rewrite <- Hac.
      destruct (a' =? a) eqn:E.
      * apply N.eqb_eq in E. subst a'. rewrite (cur_oacct_at m1 a o Ho).
        unfold obj_set_code. cbn [cur_acct set_codes set_dirty o_dirty].
        destruct (cur_acct o) as [x|]; reflexivity.
      * reflexivity.
Qed.

Lemma load_code_del_other m a a' c' : a' <> a ->
  c' = mkCache (adel a (c_acct (s_cache m))) (c_st (s_cache m)) (c_code (s_cache m)) ->
  load_code (set_cache m c') a' = load_code m a'.
Proof.
  intros Hne ->. unfold load_code, load_obj, cached_code, db_code. cbn [s_cache set_cache s_db c_acct c_code].
  rewrite aget_adel. destruct (a' =? a) eqn:E; [apply N.eqb_eq in E; contradiction|].
  destruct (aget a' (c_acct (s_cache m))); [reflexivity|]. destruct (aget a' (d_acct (s_db m))); reflexivity.
Qed.

Lemma revert_change_code e m c a' : cur_code (revert_change e m c) a' = undo_code m c a'.
Proof.
  destruct c as [a | a p | a p | a k p | a p]; cbn [revert_change].
  - cbv zeta. unfold undo_code, cur_code. cbn [s_objs set_cache set_objs]. rewrite aget_adel.
    destruct (a' =? a) eqn:E.
    + reflexivity.
    + destruct (aget a' (s_objs m)) as [o|]; [reflexivity|]. f_equal.
      rewrite <- (load_code_del_other m a a' _ (proj1 (N.eqb_neq _ _) E) eq_refl).
      apply load_code_frame; reflexivity.
  - pose proof (get_obj_revert_spec m a) as S. pose proof (get_obj_revert_code m a) as Hcc.
    destruct (get_obj_revert m a) as [m1 o]. cbn [fst] in Hcc. destruct S as [Ho _].
    cbv zeta. rewrite cur_code_put_obj. unfold undo_code. destruct (a' =? a) eqn:E; [| apply Hcc].
    apply N.eqb_eq in E. subst a'. rewrite <- Hcc, (cur_code_at m1 a o Ho). reflexivity.
  - pose proof (get_obj_revert_spec m a) as S. pose proof (get_obj_revert_code m a) as Hcc.
    destruct (get_obj_revert m a) as [m1 o]. cbn [fst] in Hcc. destruct S as [Ho _].
    cbv zeta. rewrite cur_code_put_obj. unfold undo_code. destruct (a' =? a) eqn:E; [| apply Hcc].
    apply N.eqb_eq in E. subst a'. rewrite <- Hcc, (cur_code_at m1 a o Ho). reflexivity.
  - pose proof (get_obj_revert_spec m a) as S. pose proof (get_obj_revert_code m a) as Hcc.
    destruct (get_obj_revert m a) as [m1 o]. cbn [fst] in Hcc. destruct S as [Ho _].
    cbv zeta. rewrite cur_code_put_obj. unfold undo_code. destruct (a' =? a) eqn:E; [| apply Hcc].
    apply N.eqb_eq in E. subst a'. rewrite <- Hcc, (cur_code_at m1 a o Ho). reflexivity.
  - pose proof (get_obj_revert_spec m a) as S. pose proof (get_obj_revert_code m a) as Hcc.
    destruct (get_obj_revert m a) as [m1 o]. cbn [fst] in Hcc. destruct S as [Ho _].
    cbv zeta. rewrite cur_code_put_obj. unfold undo_code. destruct (a' =? a) eqn:E; [reflexivity | apply Hcc].
Qed.

(** * states with the same views *)
Record view_eq (m1 m2 : st) : Prop := {
  ve_db : s_db m1 = s_db m2;
  ve_cache : s_cache m1 = s_cache m2;
  ve_chg : s_chg m1 = s_chg m2;
  ve_st : forall a k, cur_st m1 a k = cur_st m2 a k;
  (* nonce and balance; the code hash is not a view: a reverted SetCode leaves the hash of the restored code *)
  ve_ac : forall a, fst (acct_view (cur_oacct m1 a)) = fst (acct_view (cur_oacct m2 a));
  ve_code : forall a, cur_code m1 a = cur_code m2 a
}.

Lemma view_eq_refl m : view_eq m m.
Proof. constructor; reflexivity. Qed.

Lemma fl_st_of_db_cache m1 m2 : s_db m1 = s_db m2 -> s_cache m1 = s_cache m2 -> forall a k, fl_st m1 a k = fl_st m2 a k.
Proof. intros Hd Hc a k. unfold fl_st, cached_state. rewrite Hd, Hc. reflexivity. Qed.

Lemma revert_change_view_eq e m1 m2 c :
  view_eq m1 m2 -> view_eq (revert_change e m1 c) (revert_change e m2 c).
Proof.
  intros [Vd Vc Vg Vs Va Vco].
  destruct (revert_change_views e m1 c) as [D1 [C1 [G1 [S1 [A1 _]]]]].
  destruct (revert_change_views e m2 c) as [D2 [C2 [G2 [S2 [A2 _]]]]].
  constructor.
  - congruence.
  - rewrite C1, C2. unfold undo_cache. rewrite Vc. reflexivity.
  - congruence.
  - intros a k. rewrite S1, S2. unfold undo_st. rewrite !Vs.
    rewrite (fl_st_of_db_cache m1 m2 Vd Vc). reflexivity.
  - intros a0. rewrite A1, A2. unfold undo_ac. pose proof (Va a0) as Hv. rewrite Vd.
    destruct (acct_view (cur_oacct m1 a0)) as [[n1 b1] c1]. destruct (acct_view (cur_oacct m2 a0)) as [[n2 b2] c2].
    cbn in Hv. inversion Hv; subst.
    destruct c as [a | a p | a p | a k p | a p]; try destruct (a0 =? a); reflexivity.
  - intros a. rewrite !revert_change_code. unfold undo_code. rewrite !Vco.
    destruct c; try reflexivity. destruct (a =? a0); [| reflexivity]. f_equal.
    apply load_code_frame; [exact Vd|]. cbn [s_cache set_cache undo_cache]. rewrite Vc. reflexivity.
Qed.

Lemma set_chg_view_eq m1 m2 l : view_eq m1 m2 -> view_eq (set_chg m1 l) (set_chg m2 l).
Proof.
  intros [Vd Vc Vg Vs Va Vco]. constructor; try assumption. reflexivity.
Qed.

Lemma revert_n_view_eq e n : forall m1 m2, view_eq m1 m2 -> view_eq (revert_n e n m1) (revert_n e n m2).
Proof.
  induction n as [|n IH]; intros m1 m2 V; [exact V|].
  cbn [revert_n]. rewrite (ve_chg m1 m2 V). destruct (s_chg m2) as [|c t]; [exact V|].
  apply IH. apply revert_change_view_eq. apply set_chg_view_eq. exact V.
Qed.

Lemma revert_n_add e n1 : forall n2 m, revert_n e (n1 + n2) m = revert_n e n2 (revert_n e n1 m).
Proof.
  induction n1 as [|n1 IH]; intros n2 m; [reflexivity|].
  cbn [Nat.add revert_n]. destruct (s_chg m) as [|c t] eqn:E.
  - destruct n2; [reflexivity|]. cbn [revert_n]. rewrite E. reflexivity.
  - apply IH.
Qed.

(** * when reverting preserves the invariants *)
Definition entry_ok (m : st) (c : change) (t : list change) : Prop :=
  match c with
  | ChCreate a => fl_acct m a = None /\ Forall (fun c' => ch_acct c' <> a) t /\ aget a (s_objs m) <> None
  | ChState a k _ => exists o, aget a (s_objs m) = Some o /\ kget k (o_ost o) <> None
  | ChBal a _ | ChNonce a _ => aget a (s_objs m) <> None
  | ChCode a p => aget a (s_objs m) <> None /\ (p = None -> cached_code m a = None)
  end.

Fixpoint live_ok (m : st) (l : list change) : Prop :=
  match l with
  | [] => True
  | c :: t => entry_ok m c t /\ live_ok m t
  end.

(** [entry_ok] only looks at the flushed accounts and at the objects' presence and origins *)
Lemma entry_ok_mono m m' c t :
  (forall a, fl_acct m' a = fl_acct m a) -> (forall a, cached_code m' a = cached_code m a) ->
  (forall a o, aget a (s_objs m) = Some o ->
     exists o', aget a (s_objs m') = Some o' /\ forall k, kget k (o_ost o) <> None -> kget k (o_ost o') <> None) ->
  entry_ok m c t -> entry_ok m' c t.
Proof.
  intros Hf Hcc Ho. destruct c as [a | a p | a p | a k p | a p]; simpl; try tauto.
  - intros [H1 [H2 H3]]. rewrite Hf. split; [exact H1|]. split; [exact H2|].
    destruct (aget a (s_objs m)) as [o|] eqn:E; [| congruence].
    destruct (Ho a o E) as [o' [E' _]]. congruence.
  - intro H. destruct (aget a (s_objs m)) as [o|] eqn:E; [| congruence].
    destruct (Ho a o E) as [o' [E' _]]. congruence.
  - intro H. destruct (aget a (s_objs m)) as [o|] eqn:E; [| congruence].
    destruct (Ho a o E) as [o' [E' _]]. congruence.
  - intros [o [E Hk]]. destruct (Ho a o E) as [o' [E' Hm]]. exists o'. split; [exact E' | apply Hm; exact Hk].
  - intros [H Hp]. rewrite Hcc. split; [| exact Hp]. destruct (aget a (s_objs m)) as [o|] eqn:E; [| congruence].
    destruct (Ho a o E) as [o' [E' _]]. congruence.
Qed.

Lemma live_ok_mono m m' l :
  (forall a, fl_acct m' a = fl_acct m a) -> (forall a, cached_code m' a = cached_code m a) ->
  (forall a o, aget a (s_objs m) = Some o ->
     exists o', aget a (s_objs m') = Some o' /\ forall k, kget k (o_ost o) <> None -> kget k (o_ost o') <> None) ->
  live_ok m l -> live_ok m' l.
Proof.
  intros Hf Hcc Ho. induction l as [|c t IH]; simpl; [tauto|].
  intros [H1 H2]. split; [eapply entry_ok_mono; eassumption | apply IH; exact H2].
Qed.

(** entries that do not mention an account survive the removal of its object *)
Lemma live_ok_remove m m' a l :
  (forall b, fl_acct m' b = fl_acct m b) -> (forall b, cached_code m' b = cached_code m b) ->
  (forall b, b <> a -> aget b (s_objs m') = aget b (s_objs m)) ->
  Forall (fun c' => ch_acct c' <> a) l -> live_ok m l -> live_ok m' l.
Proof.
  intros Hf Hcc Ho. induction l as [|c t IH]; simpl; [tauto|].
  intros F [H1 H2]. inversion F as [|? ? Hc Ft]; subst. split; [| apply IH; assumption].
  destruct c as [b | b p | b p | b k p | b p]; simpl in *; try tauto.
  - destruct H1 as [G1 [G2 G3]]. rewrite Hf, (Ho b Hc). tauto.
  - rewrite (Ho b Hc). exact H1.
  - rewrite (Ho b Hc). exact H1.
  - rewrite (Ho b Hc). exact H1.
  - rewrite (Ho b Hc), Hcc. exact H1.
Qed.

Lemma Inv_remove_obj e m a : Inv m -> aget a (c_acct (s_cache m)) = None ->
  Inv (revert_change e m (ChCreate a)).
Proof.
  intros I Hc. cbn [revert_change]. cbv zeta.
  change (s_cache (set_objs m (adel a (s_objs m)))) with (s_cache m).
  assert (Hcache : mkCache (adel a (c_acct (s_cache m))) (c_st (s_cache m)) (c_code (s_cache m)) = s_cache m).
  { unfold adel. rewrite (aremove_absent N.eqb a _ Hc). destruct (s_cache m); reflexivity. }
  rewrite Hcache. set (m' := set_cache (set_objs m (adel a (s_objs m))) (s_cache m)).
  assert (Hfc : forall b, fl_ch m' b = fl_ch m b) by (intro b; unfold fl_ch; rewrite (fl_acct_frame m m'); reflexivity).
  destruct I as [J1 J2 J3 J4 J5]. constructor.
  - apply (aremove_NoDup N.eqb N_eqb_spec). exact J1.
  - intros a' o Hg. cbn [m' s_objs set_cache set_objs] in Hg. rewrite aget_adel in Hg. destruct (a' =? a); [discriminate|].
    apply (ObjOk_frame m); [reflexivity | reflexivity | apply J2; exact Hg].
  - intro b. rewrite Hfc, (cached_code_frame m m'); [apply J3 | reflexivity | reflexivity].
  - intro b. rewrite Hfc, (cached_code_frame m m'); [apply J4 | reflexivity | reflexivity].
  - exact J5.
Qed.

Lemma fl_acct_none_cache m a : fl_acct m a = None -> aget a (c_acct (s_cache m)) = None.
Proof. unfold fl_acct. destruct (aget a (c_acct (s_cache m))); [discriminate | reflexivity]. Qed.

Lemma revert_change_ok e m c t :
  Inv m -> entry_ok m c t -> live_ok m t ->
  let m' := revert_change e m c in
  Inv m' /\ live_ok m' t /\ s_cache m' = s_cache m /\ s_bad m' = s_bad m.
Proof.
  intros I E L. destruct c as [a | a p | a p | a k p | a p]; cbn [revert_change]; cbv zeta.
  - (* ChCreate *)
    destruct E as [Hf [Ft Hp]]. pose proof (fl_acct_none_cache m a Hf) as Hc.
    assert (Hcache : mkCache (adel a (c_acct (s_cache m))) (c_st (s_cache m)) (c_code (s_cache m)) = s_cache m).
    { unfold adel. rewrite (aremove_absent N.eqb a _ Hc). destruct (s_cache m); reflexivity. }
    split; [apply (Inv_remove_obj e m a I Hc)|]. split; [| split; [simpl; exact Hcache | reflexivity]].
    apply (live_ok_remove m _ a); try assumption.
    + intro b. unfold fl_acct. simpl. rewrite aget_adel. destruct (b =? a) eqn:Eb; [| reflexivity].
      apply N.eqb_eq in Eb. subst b. rewrite Hc. reflexivity.
    + intro b. reflexivity.
    + intros b Hb. simpl. rewrite aget_adel. destruct (b =? a) eqn:Eb; [apply N.eqb_eq in Eb; contradiction | reflexivity].
  - (* ChBal *)
    simpl in E. destruct (aget a (s_objs m)) as [o|] eqn:Ea; [| congruence].
    unfold get_obj_revert. rewrite Ea.
    pose proof (write_dirty_obj m a o (mkAcct (ac_nonce (copy_or_new (cur_acct o))) p (ac_ch (copy_or_new (cur_acct o)))) I Ea) as W.
    assert (Hch : ac_ch (copy_or_new (cur_acct o)) = obj_ch o).
    { unfold copy_or_new, obj_ch. destruct (cur_acct o) as [x|] eqn:Ec; reflexivity. }
    specialize (W Hch). split; [apply W|]. split; [| split; reflexivity].
    apply (live_ok_mono m); try assumption.
    + intro b. apply fl_acct_frame; reflexivity.
    + intro b. reflexivity.
    + intros b ob Hb. rewrite put_obj_objs. destruct (b =? a) eqn:Eb.
      * apply N.eqb_eq in Eb. subst b. rewrite Ea in Hb. inversion Hb; subst ob. eexists. split; [reflexivity|]. simpl. tauto.
      * exists ob. split; [exact Hb | tauto].
  - (* ChNonce *)
    simpl in E. destruct (aget a (s_objs m)) as [o|] eqn:Ea; [| congruence].
    unfold get_obj_revert. rewrite Ea.
    pose proof (write_dirty_obj m a o (mkAcct p (ac_bal (copy_or_new (cur_acct o))) (ac_ch (copy_or_new (cur_acct o)))) I Ea) as W.
    assert (Hch : ac_ch (copy_or_new (cur_acct o)) = obj_ch o).
    { unfold copy_or_new, obj_ch. destruct (cur_acct o) as [x|] eqn:Ec; reflexivity. }
    specialize (W Hch). split; [apply W|]. split; [| split; reflexivity].
    apply (live_ok_mono m); try assumption.
    + intro b. apply fl_acct_frame; reflexivity.
    + intro b. reflexivity.
    + intros b ob Hb. rewrite put_obj_objs. destruct (b =? a) eqn:Eb.
      * apply N.eqb_eq in Eb. subst b. rewrite Ea in Hb. inversion Hb; subst ob. eexists. split; [reflexivity|]. simpl. tauto.
      * exists ob. split; [exact Hb | tauto].
  - (* ChState *)
    destruct E as [o [Ea Hk]]. unfold get_obj_revert. rewrite Ea.
    pose proof (write_dst_obj m a o k p I Ea Hk) as W.
    split; [apply W|]. split; [| split; reflexivity].
    apply (live_ok_mono m); try assumption.
    + intro b. apply fl_acct_frame; reflexivity.
    + intro b. reflexivity.
    + intros b ob Hb. rewrite put_obj_objs. destruct (b =? a) eqn:Eb.
      * apply N.eqb_eq in Eb. subst b. rewrite Ea in Hb. inversion Hb; subst ob. eexists. split; [reflexivity|]. simpl. tauto.
      * exists ob. split; [exact Hb | tauto].
  - (* ChCode *)
    destruct E as [Hp Hnone]. destruct (aget a (s_objs m)) as [o|] eqn:Ea; [| congruence].
    unfold get_obj_revert. rewrite Ea.
    pose proof (write_code_obj m a o p I Ea Hnone) as W.
    split; [apply W|]. split; [| split; reflexivity].
    apply (live_ok_mono m); try assumption.
    + intro b. apply fl_acct_frame; reflexivity.
    + intro b. reflexivity.
    + intros b ob Hb. rewrite put_obj_objs. destruct (b =? a) eqn:Eb.
      * apply N.eqb_eq in Eb. subst b. rewrite Ea in Hb. inversion Hb; subst ob. eexists. split; [reflexivity|]. simpl. tauto.
      * exists ob. split; [exact Hb | tauto].
Qed.

Lemma Inv_set_chg {e : env} m l : Inv m -> Inv (set_chg m l).
Proof. apply Inv_frame; reflexivity. Qed.

Lemma live_ok_set_chg m l t : live_ok m t -> live_ok (set_chg m l) t.
Proof. apply live_ok_mono; [reflexivity | reflexivity |]. intros a o H. exists o. split; [exact H | tauto]. Qed.

Lemma entry_ok_set_chg m l c t : entry_ok m c t -> entry_ok (set_chg m l) c t.
Proof. apply entry_ok_mono; [reflexivity | reflexivity |]. intros a o H. exists o. split; [exact H | tauto]. Qed.

(** reverting the [n] newest entries; the next [j] entries stay revertible *)
Lemma revert_n_ok e n j : forall m,
  Inv m -> (n <= List.length (s_chg m))%nat -> live_ok m (firstn (n + j) (s_chg m)) ->
  let m' := revert_n e n m in
  Inv m' /\ live_ok m' (firstn j (s_chg m')) /\
  s_db m' = s_db m /\ s_cache m' = s_cache m /\ s_chg m' = skipn n (s_chg m) /\ s_bad m' = s_bad m /\
  s_revs m' = s_revs m /\ s_next m' = s_next m /\ s_pend m' = s_pend m /\ s_prev m' = s_prev m /\
  s_min m' = s_min m /\ s_max m' = s_max m /\ s_gen m' = s_gen m.
Proof.
  induction n as [|n IH]; intros m I Hn L.
  - cbn [revert_n skipn]. split; [exact I|]. split; [exact L|]. repeat split; reflexivity.
  - cbn [revert_n]. destruct (s_chg m) as [|c t] eqn:Ec; [simpl in Hn; lia|].
    cbn [Nat.add firstn] in L. destruct L as [Le Lt]. cbn [skipn].
    set (m0 := set_chg m t).
    destruct (revert_change_ok e m0 c (firstn (n + j) t) (Inv_set_chg m t I) (entry_ok_set_chg m t c _ Le)
                               (live_ok_set_chg m t _ Lt)) as [I1 [L1 [C1 B1]]].
    destruct (revert_change_views e m0 c) as [D1 [_ [G1 [_ [_ [R1 [R2 [R3 [R4 [R5 [R6 R7]]]]]]]]]]].
    assert (Hlen : (n <= List.length (s_chg (revert_change e m0 c)))%nat) by (rewrite G1; simpl in *; lia).
    assert (Hl : live_ok (revert_change e m0 c) (firstn (n + j) (s_chg (revert_change e m0 c)))) by (rewrite G1; exact L1).
    destruct (IH (revert_change e m0 c) I1 Hlen Hl) as [I2 [L2 [D2 [C2 [G2 [B2 [S1 [S2 [S3 [S4 [S5 [S6 S7]]]]]]]]]]]].
    split; [exact I2|]. split; [exact L2|].
    rewrite D2, D1, C2, C1, G2, G1, B2, B1, S1, R1, S2, R2, S3, R3, S4, R4, S5, R5, S6, R6, S7, R7.
    repeat split; reflexivity.
Qed.

(** every live entry's account has its object loaded *)
Lemma entry_ok_present m c t : entry_ok m c t -> aget (ch_acct c) (s_objs m) <> None.
Proof.
  destruct c as [a | a p | a p | a k p | a p]; simpl; try tauto.
  intros [o [E _]]. congruence.
Qed.

Lemma live_ok_absent m l a : live_ok m l -> aget a (s_objs m) = None -> Forall (fun c' => ch_acct c' <> a) l.
Proof.
  induction l as [|c t IH]; simpl; intros H Ha; [constructor|].
  destruct H as [H1 H2]. constructor; [| apply IH; assumption].
  intro E. apply (entry_ok_present m c t H1). rewrite E. exact Ha.
Qed.

Lemma view_eq_trans m1 m2 m3 : view_eq m1 m2 -> view_eq m2 m3 -> view_eq m1 m3.
Proof.
  intros [A1 A2 A3 A4 A5 A6] [B1 B2 B3 B4 B5 B6]. apply Build_view_eq; [| | | | | intro a; rewrite A6; apply B6].
  - congruence.
  - congruence.
  - congruence.
  - intros a k. rewrite A4. apply B4.
  - intros a. rewrite A5. apply B5.
Qed.
