(** Proofs about [Model/Determinism.v] (C01). *)
From BX Require Import Base.Prelude Model.Determinism.
Local Open Scope N_scope.
Lemma placeholder_tmp : 1 = 1. Proof. reflexivity. Qed.
