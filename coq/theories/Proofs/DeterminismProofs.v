(** Proofs about [Model/Determinism.v] (C01): permutation-invariance of every oracle consumer of
    the repaired model, refinement of the caches, independence of the block results from oracle
    families and restart placements; refutation witnesses for the faithful flags; coverage of the
    generated site inventory. *)
From BX Require Import Base.Prelude Model.Determinism Model.DeterminismSites.
From BXGen Require Import Gen_MapRanges.
From Coq Require Import String Permutation.
Local Open Scope N_scope.

(* ------------------------------------------------------------------------------------- *)
(** * Sorting is a function of the multiset *)
Lemma ins_comm x y l : ins x (ins y l) = ins y (ins x l).
Proof.
  induction l as [|z t IH]; cbn [ins].
  - destruct (x <=? y) eqn:A, (y <=? x) eqn:B; try reflexivity.
    + assert (x = y) by lia. subst. reflexivity.
    + lia.
  - destruct (y <=? z) eqn:A, (x <=? z) eqn:B; cbn [ins]; rewrite ?A, ?B.
    + destruct (x <=? y) eqn:C, (y <=? x) eqn:D; try reflexivity.
      * assert (x = y) by lia. subst. reflexivity.
      * lia.
    + destruct (x <=? y) eqn:C; [lia|]. reflexivity.
    + destruct (y <=? x) eqn:C; [lia|]. reflexivity.
    + rewrite IH. reflexivity.
Qed.

Lemma fold_perm_comm {A S} (f : A -> S -> S) :
  (forall a b s, f a (f b s) = f b (f a s)) ->
  forall l l', Permutation l l' -> forall s, fold_right f s l = fold_right f s l'.
Proof.
  intros Hc l l' Hp. induction Hp; intro s; cbn [fold_right].
  - reflexivity.
  - rewrite IHHp. reflexivity.
  - apply Hc.
  - rewrite IHHp1. apply IHHp2.
Qed.

(** [fold_perm_sorted]: whatever order the map was visited in, the sorted list is the same *)
Lemma fold_perm_sorted l l' : Permutation l l' -> isort l = isort l'.
Proof. intro Hp. unfold isort. apply fold_perm_comm; [|exact Hp]. intros. apply ins_comm. Qed.

Lemma fold_perm_forallb {A} (p : A -> bool) l l' : Permutation l l' -> forallb p l = forallb p l'.
Proof.
  intro Hp. induction Hp; cbn [forallb].
  - reflexivity.
  - rewrite IHHp. reflexivity.
  - destruct (p x), (p y); reflexivity.
  - rewrite IHHp1. exact IHHp2.
Qed.

Lemma fold_perm_existsb {A} (p : A -> bool) l l' : Permutation l l' -> existsb p l = existsb p l'.
Proof.
  intro Hp. induction Hp; cbn [existsb].
  - reflexivity.
  - rewrite IHHp. reflexivity.
  - destruct (p x), (p y); reflexivity.
  - rewrite IHHp1. exact IHHp2.
Qed.

(* ------------------------------------------------------------------------------------- *)
(** * Sorted association lists *)
Section SMapFacts.
  Context {V : Type}.
  Implicit Types m : smap V.

  Lemma sget_sset_same k v m : sget k (sset k v m) = Some v.
  Proof.
    induction m as [|[k' v'] t IH]; cbn [sset sget].
    - rewrite N.eqb_refl. reflexivity.
    - destruct (k <? k') eqn:A; cbn [sget].
      + rewrite N.eqb_refl. reflexivity.
      + destruct (k =? k') eqn:B; cbn [sget].
        * rewrite N.eqb_refl. reflexivity.
        * rewrite B. exact IH.
  Qed.

  Lemma sget_sset_other k k' v m : k <> k' -> sget k (sset k' v m) = sget k m.
  Proof.
    intro Hn. induction m as [|[k2 v2] t IH]; cbn [sset sget].
    - destruct (k =? k') eqn:A; [lia|reflexivity].
    - destruct (k' <? k2) eqn:A; cbn [sget].
      + destruct (k =? k') eqn:B; [lia|reflexivity].
      + destruct (k' =? k2) eqn:B; cbn [sget].
        * assert (k' = k2) by lia. subst k2.
          destruct (k =? k') eqn:C; [lia|reflexivity].
        * destruct (k =? k2); [reflexivity|exact IH].
  Qed.

  Lemma sset_comm k1 k2 v1 v2 m : k1 <> k2 -> sset k1 v1 (sset k2 v2 m) = sset k2 v2 (sset k1 v1 m).
  Proof.
    intro Hn. induction m as [|[k v] t IH]; cbn [sset].
    all: repeat (match goal with
                 | |- context [?a <? ?b] => let E := fresh "E" in destruct (a <? b) eqn:E
                 | |- context [?a =? ?b] => let E := fresh "E" in destruct (a =? b) eqn:E
                 end; cbn [sset]).
    all: try reflexivity; try (exfalso; lia).
    all: try (rewrite IH; reflexivity).
    all: repeat match goal with H : (?a =? ?b) = true |- _ => apply N.eqb_eq in H; subst end.
    all: try reflexivity; try (exfalso; lia).
  Qed.

  (** a keyed write whose value is a function of the key commutes with itself *)
  Lemma keyed_write_comm (g : N -> V) a b m : sset a (g a) (sset b (g b) m) = sset b (g b) (sset a (g a) m).
  Proof. destruct (N.eq_dec a b) as [->|Hn]; [reflexivity|apply sset_comm; exact Hn]. Qed.

  (** strictly ascending keys *)
  Fixpoint ssorted m : Prop :=
    match m with
    | [] => True
    | (k, _) :: t => (forall k', In k' (skeys t) -> k < k') /\ ssorted t
    end.

  Lemma skeys_sset k v m k' : In k' (skeys (sset k v m)) -> k' = k \/ In k' (skeys m).
  Proof.
    induction m as [|[k2 v2] t IH]; cbn [sset skeys map fst In].
    - intros [H|[]]. left. symmetry. exact H.
    - destruct (k <? k2) eqn:A; cbn [skeys map fst In].
      + intros [H|H]; [left; symmetry; exact H|right; exact H].
      + destruct (k =? k2) eqn:B; cbn [skeys map fst In].
        * intros [H|H]; [left; symmetry; exact H|right; right; exact H].
        * intros [H|H]; [right; left; exact H|].
          destruct (IH H) as [E|E]; [left; exact E|right; right; exact E].
  Qed.

  Lemma ssorted_sset k v m : ssorted m -> ssorted (sset k v m).
  Proof.
    induction m as [|[k2 v2] t IH]; cbn [sset ssorted].
    - intros _. split; [intros k' []|exact I].
    - intros [Hlt Hs]. destruct (k <? k2) eqn:A; cbn [ssorted].
      + split; [|split; assumption].
        intros k' Hin. cbn [skeys map fst In] in Hin. destruct Hin as [<-|Hin]; [lia|].
        specialize (Hlt _ Hin). lia.
      + destruct (k =? k2) eqn:B; cbn [ssorted].
        * assert (k = k2) by lia. subst k2. split; assumption.
        * split; [|apply IH; exact Hs].
          intros k' Hin. destruct (skeys_sset _ _ _ _ Hin) as [->|Hin2]; [lia|apply Hlt; exact Hin2].
  Qed.

  Lemma sget_none_lt k m : (forall k', In k' (skeys m) -> k < k') -> sget k m = None.
  Proof.
    induction m as [|[k2 v2] t IH]; cbn [sget]; intro H; [reflexivity|].
    assert (k < k2) by (apply H; left; reflexivity).
    destruct (k =? k2) eqn:A; [lia|]. apply IH. intros k' Hin. apply H. right. exact Hin.
  Qed.

  (** writing what is already there changes nothing (canonical representation) *)
  Lemma sset_same k v m : ssorted m -> sget k m = Some v -> sset k v m = m.
  Proof.
    induction m as [|[k2 v2] t IH]; cbn [sget sset ssorted]; [discriminate|].
    intros [Hlt Hs] Hg. destruct (k =? k2) eqn:A.
    - assert (k = k2) by lia. subst k2. inversion Hg; subst. rewrite N.ltb_irrefl. reflexivity.
    - destruct (k <? k2) eqn:B.
      + (* k below the head: it cannot be further down *)
        rewrite sget_none_lt in Hg; [discriminate|].
        intros k' Hin. specialize (Hlt _ Hin). lia.
      + rewrite IH; [reflexivity|exact Hs|exact Hg].
  Qed.

  (** extensionality of sorted maps *)
  Lemma smap_ext m1 : forall m2, ssorted m1 -> ssorted m2 -> (forall k, sget k m1 = sget k m2) -> m1 = m2.
  Proof.
    induction m1 as [|[k1 v1] t1 IH]; intros [|[k2 v2] t2] S1 S2 H.
    - reflexivity.
    - specialize (H k2). cbn [sget] in H. rewrite N.eqb_refl in H. discriminate.
    - specialize (H k1). cbn [sget] in H. rewrite N.eqb_refl in H. discriminate.
    - cbn [ssorted] in S1, S2. destruct S1 as [L1 S1], S2 as [L2 S2].
      assert (k1 = k2) as ->.
      { pose proof (H k1) as H1. pose proof (H k2) as H2. cbn [sget] in H1, H2.
        rewrite N.eqb_refl in H1, H2.
        destruct (k1 =? k2) eqn:A; [lia|].
        destruct (k2 =? k1) eqn:B; [lia|].
        (* k1 occurs in t2, k2 occurs in t1: contradiction with both heads being minimal *)
        assert (In k1 (skeys t2)) as I1.
        { clear - H1. induction t2 as [|[k v] t IHt]; cbn [sget] in H1; [discriminate|].
          destruct (k1 =? k) eqn:E; [left; cbn; lia|right; apply IHt; exact H1]. }
        assert (In k2 (skeys t1)) as I2.
        { clear - H2. symmetry in H2. induction t1 as [|[k v] t IHt]; cbn [sget] in H2; [discriminate|].
          destruct (k2 =? k) eqn:E; [left; cbn; lia|right; apply IHt; exact H2]. }
        specialize (L1 _ I2). specialize (L2 _ I1). lia. }
      assert (v1 = v2) as ->.
      { specialize (H k2). cbn [sget] in H. rewrite N.eqb_refl in H. inversion H. reflexivity. }
      f_equal. apply IH; [exact S1|exact S2|].
      intro k. specialize (H k). cbn [sget] in H. destruct (k =? k2) eqn:A; [|exact H].
      assert (k = k2) by lia. subst k.
      rewrite (sget_none_lt k2 t1 L1), (sget_none_lt k2 t2 L2). reflexivity.
  Qed.
End SMapFacts.

(* ------------------------------------------------------------------------------------- *)
(** * Every oracle consumer of the repaired model is permutation-invariant:
      execution under any admissible oracle equals execution under the identity oracle *)
Section OneOracle.
  Variable cfg : Defects.
  Hypothesis Hclean : c01_clean cfg.
  Variable o : oracle.
  Hypothesis Hok : oracle_ok o.
  Variable base : smap val.
  Variable h : N.

  Lemma visit_perm s i l : Permutation (visit o h s i l) l.
  Proof. destruct Hok as [H _]. apply H. Qed.
  Lemma visit_id s i l : visit o_id h s i l = l.
  Proof. reflexivity. Qed.

  Lemma visit_isort s i l : isort (visit o h s i l) = isort l.
  Proof. apply fold_perm_sorted, visit_perm. Qed.
  Lemma pick_false s i l : pick o h false s i l = isort l.
  Proof. unfold pick. apply visit_isort. Qed.
  Lemma pick_false_id s i l : pick o_id h false s i l = isort l.
  Proof. reflexivity. Qed.

  Lemma visit_fold {S} (f : N -> S -> S) s i l x :
    (forall a b y, f a (f b y) = f b (f a y)) ->
    fold_right f x (visit o h s i l) = fold_right f x l.
  Proof. intro Hc. apply fold_perm_comm; [exact Hc|apply visit_perm]. Qed.

  Lemma visit_set_all st s i l c : set_all st (visit o h s i l) c = set_all st l c.
  Proof. unfold set_all. apply visit_fold. intros a b y. apply (keyed_write_comm (fun _ => st)). Qed.

  Lemma visit_forallb (p : N -> bool) s i l : forallb p (visit o h s i l) = forallb p l.
  Proof. apply fold_perm_forallb, visit_perm. Qed.

  Lemma copy_step_comm {A} (m : smap A) a b y : copy_step m a (copy_step m b y) = copy_step m b (copy_step m a y).
  Proof.
    unfold copy_step. destruct (sget a m) eqn:Ea, (sget b m) eqn:Eb; try reflexivity.
    destruct (N.eq_dec a b) as [->|Hn]; [congruence|apply sset_comm; exact Hn].
  Qed.

  Lemma keyed_copy_id {A} site (m : smap A) : keyed_copy o h site m = keyed_copy o_id h site m.
  Proof. unfold keyed_copy. rewrite visit_fold; [reflexivity|apply copy_step_comm]. Qed.

  Lemma commit_id w st : commit o h w st = commit o_id h w st.
  Proof. unfold commit. rewrite visit_fold; [reflexivity|apply copy_step_comm]. Qed.

  Lemma l2_roots_id m : l2_roots o h m = l2_roots o_id h m.
  Proof. unfold l2_roots. rewrite visit_isort. reflexivity. Qed.

  Lemma counter_step_comm m a b y : counter_step m a (counter_step m b y) = counter_step m b (counter_step m a y).
  Proof.
    destruct (N.eq_dec a b) as [->|Hn]; [reflexivity|].
    unfold counter_step.
    destruct (sget a m) as [[ia xa]|] eqn:Ea, (sget b m) as [[ib xb]|] eqn:Eb; try reflexivity.
    rewrite (sget_sset_other a b) by exact Hn.
    rewrite (sget_sset_other b a) by (intro E; apply Hn; symmetry; exact E).
    apply sset_comm. exact Hn.
  Qed.

  Lemma add_counter_id i r c : add_counter o h i r c = add_counter o_id h i r c.
  Proof.
    unfold add_counter. destruct (rc_interchain r); [|reflexivity].
    rewrite visit_fold; [reflexivity|apply counter_step_comm].
  Qed.

  Lemma counters_id rs : forall i c, counters o h i rs c = counters o_id h i rs c.
  Proof.
    induction rs as [|r t IH]; intros i c; cbn [counters]; [reflexivity|].
    rewrite add_counter_id. apply IH.
  Qed.

  Lemma acct_entries_id a w : acct_entries o h a w = acct_entries o_id h a w.
  Proof. unfold acct_entries. rewrite visit_isort. reflexivity. Qed.

  (** the hashed part of FlushDirtyData (the journal order, first component, is not a result) *)
  Lemma flush_dirty_id w : snd (flush o h w) = snd (flush o_id h w).
  Proof.
    unfold flush. cbn [snd]. rewrite visit_isort. rewrite visit_id.
    apply map_ext. intro a. rewrite acct_entries_id. reflexivity.
  Qed.

  Lemma multi_finished_id i st count ch : multi_finished o h i st count ch = multi_finished o_id h i st count ch.
  Proof. unfold multi_finished. rewrite visit_forallb. reflexivity. Qed.
End OneOracle.

Section OneOracle2.
  Variable cfg : Defects.
  Hypothesis Hclean : c01_clean cfg.
  Variable o : oracle.
  Hypothesis Hok : oracle_ok o.
  Variable base : smap val.
  Variable h : N.

  Let Hn : d_notify_unsorted cfg = false. Proof. destruct Hclean as (H & _). exact H. Qed.
  Let Ht : d_timeout_child_order cfg = false. Proof. destruct Hclean as (_ & H & _). exact H. Qed.
  Let Hf : d_first_error_order cfg = false. Proof. destruct Hclean as (_ & _ & H & _). exact H. Qed.
  Let Hpp' : d_proofs_prestage cfg = false. Proof. destruct Hclean as (_ & _ & _ & _ & _ & _ & _ & _ & H). exact H. Qed.

  Lemma begin_multi_id i w b g count f :
    begin_multi cfg o base h i w b g count f = begin_multi cfg o_id base h i w b g count f.
  Proof.
    unfold begin_multi. rewrite Hn.
    destruct (rdw base w (K_glob g)) as [[| | |gs gh gc ch| |]|].
    4: { destruct (sget (ib_id b) ch); [reflexivity|].
         destruct (is_final gs); [reflexivity|].
         destruct (negb (gs =? ST_BEGIN)); [|destruct f].
         all: rewrite ?(pick_false o Hok), ?pick_false_id, ?(visit_set_all o Hok), ?visit_id; reflexivity. }
    all: rewrite ?(pick_false o Hok), ?pick_false_id; reflexivity.
  Qed.

  Lemma succeeded_comm (ch : smap N) a b (y : smap bool) :
    sset a (match sget a ch with Some 3 => true | _ => false end) (sset b (match sget b ch with Some 3 => true | _ => false end) y)
    = sset b (match sget b ch with Some 3 => true | _ => false end) (sset a (match sget a ch with Some 3 => true | _ => false end) y).
  Proof. apply (keyed_write_comm (fun k => match sget k ch with Some 3 => true | _ => false end)). Qed.

  Lemma report_id i w b : report cfg o base h i w b = report cfg o_id base h i w b.
  Proof.
    unfold report. rewrite Hn.
    destruct (rdw base w (K_tx (ib_id b))) as [[| |st hh| | |]|]; try reflexivity.
    all: destruct (rdw base w (K_child (ib_id b))) as [[|g| | | |]|]; try reflexivity.
    all: destruct (rdw base w (K_glob g)) as [[| | |gs gh gc ch| |]|]; try reflexivity.
    all: destruct (sget (ib_id b) ch) as [cst|]; try reflexivity.
    all: rewrite (visit_fold o Hok) by (intros; apply succeeded_comm).
    all: rewrite (visit_set_all o Hok), !visit_id.
    all: destruct ((gs =? ST_BEGIN) && (ib_typ b =? 2)).
    all: try (rewrite (pick_false o Hok), pick_false_id, (visit_isort o Hok); reflexivity).
    all: destruct (fsm_receipt cst (ib_typ b)) as [cst'|]; try reflexivity.
    all: rewrite (multi_finished_id o Hok).
    all: destruct (multi_finished o_id h i cst' gc (sset (ib_id b) cst' ch)).
    all: try destruct (fsm_receipt gs (ib_typ b)); try reflexivity.
    all: rewrite (pick_false o Hok), pick_false_id, (visit_isort o Hok); reflexivity.
  Qed.

  Lemma handle_ibtp_id i cache w b cur :
    handle_ibtp cfg o base h i cache w b cur = handle_ibtp cfg o_id base h i cache w b cur.
  Proof.
    unfold handle_ibtp.
    destruct (negb ((ib_typ b =? 0) || (ib_typ b =? 1) || (ib_typ b =? 2) || (ib_typ b =? 3))); [reflexivity|].
    lazy zeta.
    match goal with |- context [match ?c with inl _ => _ | inr _ => _ end] => destruct c as [[isBatch tfail]|e] end; [|reflexivity].
    destruct (ib_typ b =? 0).
    - destruct (ib_group b) as [[g count]|]; [rewrite begin_multi_id|]; reflexivity.
    - rewrite report_id. reflexivity.
  Qed.

  Lemma exec_tx_id i inv v t : exec_tx cfg o base h i inv v t = exec_tx cfg o_id base h i inv v t.
  Proof.
    unfold exec_tx, do_ibtp. rewrite Hf, Hpp'. destruct inv; [reflexivity|].
    destruct t; cbn [andb]; try reflexivity.
    - rewrite (pick_false o Hok), pick_false_id. reflexivity.
    - rewrite handle_ibtp_id. reflexivity.
    - rewrite handle_ibtp_id. reflexivity.
    - rewrite handle_ibtp_id. reflexivity.
  Qed.

  Lemma exec_txs_id ts : forall i inv v, exec_txs cfg o base h i inv v ts = exec_txs cfg o_id base h i inv v ts.
  Proof.
    induction ts as [|t rest IH]; intros i inv v; cbn [exec_txs]; [reflexivity|].
    rewrite exec_tx_id. destruct (exec_tx cfg o_id base h i _ v t) as [v1 r]. rewrite IH. reflexivity.
  Qed.
End OneOracle2.

Section OneOracle3.
  Variable cfg : Defects.
  Hypothesis Hclean : c01_clean cfg.
  Variable o : oracle.
  Hypothesis Hok : oracle_ok o.
  Variable base : smap val.
  Variable h : N.

  Let Ht : d_timeout_child_order cfg = false. Proof. destruct Hclean as (_ & H & _). exact H. Qed.

  Lemma key_inj tag a b : key tag a = key tag b -> a = b.
  Proof. unfold key. lia. Qed.

  Lemma rdw_sset_other k k' x w : k <> k' -> rdw base (sset k' x w) k = rdw base w k.
  Proof. intro Hne. unfold rdw. rewrite sget_sset_other by exact Hne. reflexivity. Qed.

  Lemma toks_sset_other h1 h2 x w : h1 <> h2 -> toks_of base (sset (K_tl h2) x w) h1 = toks_of base w h1.
  Proof.
    intro Hne. unfold toks_of. rewrite rdw_sset_other; [reflexivity|].
    intro E. apply Hne. apply (key_inj 7). exact E.
  Qed.

  Lemma stl_add_comm adds a b w : stl_add base adds a (stl_add base adds b w) = stl_add base adds b (stl_add base adds a w).
  Proof.
    destruct (N.eq_dec a b) as [->|Hne]; [reflexivity|].
    assert (Hk : K_tl a <> K_tl b) by (intro E; apply Hne; apply (key_inj 7); exact E).
    unfold stl_add.
    destruct (sget a adds) as [ia|], (sget b adds) as [ib|]; try reflexivity.
    destruct (toks_of base w a) as [la|] eqn:Ea, (toks_of base w b) as [lb|] eqn:Eb.
    all: rewrite !toks_sset_other by (auto; intro E; apply Hne; symmetry; exact E).
    all: rewrite ?Ea, ?Eb.
    all: apply sset_comm; exact Hk.
  Qed.

  Lemma stl_remove_comm rems a b w : stl_remove base rems a (stl_remove base rems b w) = stl_remove base rems b (stl_remove base rems a w).
  Proof.
    destruct (N.eq_dec a b) as [->|Hne]; [reflexivity|].
    assert (Hk : K_tl a <> K_tl b) by (intro E; apply Hne; apply (key_inj 7); exact E).
    unfold stl_remove.
    destruct (sget a rems) as [ia|], (sget b rems) as [ib|]; try reflexivity.
    rewrite !toks_sset_other by (auto; intro E; apply Hne; symmetry; exact E).
    apply sset_comm; exact Hk.
  Qed.

  Lemma set_timeout_list_id w ts rs : set_timeout_list o base h w ts rs = set_timeout_list o_id base h w ts rs.
  Proof.
    unfold set_timeout_list. destruct (stl_collect base h w ts rs) as [adds rems].
    rewrite (visit_fold o Hok) by (intros; apply stl_remove_comm).
    rewrite (visit_fold o Hok) by (intros; apply stl_add_comm).
    reflexivity.
  Qed.

  Lemma tim_children_id j g w m : tim_children cfg o base h j g w m = tim_children cfg o_id base h j g w m.
  Proof.
    unfold tim_children. rewrite Ht.
    destruct (rdw base w (K_glob g)) as [[| | |gs gh gc ch| |]|]; try reflexivity.
    rewrite (pick_false o Hok), pick_false_id. reflexivity.
  Qed.

  Lemma timeout_map_id w l : forall j m, timeout_map cfg o base h j w l m = timeout_map cfg o_id base h j w l m.
  Proof.
    induction l as [|t rest IH]; intros j m; cbn [timeout_map]; [reflexivity|].
    destruct t; rewrite ?tim_children_id; apply IH.
  Qed.

  Lemma rollback_step_id a t : rollback_step o base h a t = rollback_step o_id base h a t.
  Proof.
    unfold rollback_step. destruct t; try reflexivity.
    destruct (rdw base a (K_glob g)) as [[| | |gs gh gc ch| |]|]; try reflexivity.
    rewrite (visit_set_all o Hok), visit_id. reflexivity.
  Qed.

  Lemma timeout_rollback_id l : forall w, timeout_rollback o base h w l = timeout_rollback o_id base h w l.
  Proof.
    unfold timeout_rollback. induction l as [|t rest IH]; intro w; cbn [fold_left]; [reflexivity|].
    rewrite rollback_step_id. apply IH.
  Qed.

  Lemma invalid_map_id l : invalid_map o h l = invalid_map o_id h l.
  Proof.
    unfold invalid_map. destruct Hok as [_ Hs].
    apply fold_perm_comm; [|apply Hs].
    intros a b y. apply (keyed_write_comm (fun _ => tt)).
  Qed.
End OneOracle3.

(* ------------------------------------------------------------------------------------- *)
(* ------------------------------------------------------------------------------------- *)
(** * One block: the oracle only decides the order of the persisted journal *)
Definition core_out (x : memory * smap val * list (list (N * list (N * val))) * list N * result) :=
  let '(m, st, root, _, r) := x in (m, st, root, r).

Lemma block_core_oracle cfg o m st root b :
  c01_clean cfg -> oracle_ok o ->
  core_out (block_core cfg o m st root b) = core_out (block_core cfg o_id m st root b).
Proof.
  intros Hc Hok. unfold block_core.
  rewrite (invalid_map_id o Hok).
  rewrite (exec_txs_id cfg Hc o Hok).
  destruct (exec_txs cfg o_id (overlay (m_acache m) st) (m_height m + 1) 0 _ _ (b_txs b)) as [v1 rs].
  rewrite (set_timeout_list_id cfg Hc o Hok).
  rewrite (timeout_map_id cfg Hc o Hok).
  rewrite !(keyed_copy_id o Hok), (l2_roots_id o Hok), (timeout_rollback_id o Hok), !(commit_id o Hok), (counters_id o Hok).
  match goal with |- context [flush o ?hh ?ww] => pose proof (flush_dirty_id o Hok hh ww) as Hfl; destruct (flush o hh ww) as [a1 d1]; destruct (flush o_id hh ww) as [a2 d2] end.
  cbn [snd] in Hfl. subst d2. reflexivity.
Qed.

(* ------------------------------------------------------------------------------------- *)
(** * Caches are refinements of the ledger *)
Section Refine.
  Variable cfg : Defects.
  Variable o : oracle.
  Variable base : smap val.
  Variable h : N.

  (** [w'] has the same service records as [w] *)
  Definition nsvc_same (w w' : smap val) : Prop := forall k, k mod 16 = 1 -> sget k w' = sget k w.
  Lemma nsvc_refl w : nsvc_same w w. Proof. intros k _. reflexivity. Qed.
  Lemma nsvc_trans w1 w2 w3 : nsvc_same w1 w2 -> nsvc_same w2 w3 -> nsvc_same w1 w3.
  Proof. intros H1 H2 k Hk. rewrite H2, H1 by exact Hk. reflexivity. Qed.
  Lemma key_mod tag a : tag < 16 -> key tag a mod 16 = tag.
  Proof.
    intro Ht. unfold key. replace (tag + 16 * a) with (tag + a * 16) by lia.
    rewrite N.mod_add by lia. apply N.mod_small. exact Ht.
  Qed.
  Local Opaque key.
  Lemma nsvc_sset tag a x w : tag < 16 -> tag <> 1 -> nsvc_same w (sset (key tag a) x w).
  Proof.
    intros Ht Hn k Hk. apply sget_sset_other. intro E. subst k. rewrite key_mod in Hk by exact Ht. contradiction.
  Qed.
  Lemma nsvc_sset_tr tag a x w0 w : tag < 16 -> tag <> 1 -> nsvc_same w0 w -> nsvc_same w0 (sset (key tag a) x w).
  Proof. intros. eapply nsvc_trans; [eassumption|apply nsvc_sset; assumption]. Qed.

  Lemma led_svc_same w w' s : nsvc_same w w' -> led_svc base w' s = led_svc base w s.
  Proof.
    intro H. unfold led_svc, rdw. rewrite (H (K_svc s)); [reflexivity|].
    unfold K_svc. apply key_mod. lia.
  Qed.

  Ltac nsvc := repeat first [ apply nsvc_refl | assumption | apply nsvc_sset_tr; [unfold N.lt; reflexivity | discriminate | ] ].

  Lemma tm_add_nsvc w0 w hh t : nsvc_same w0 w -> nsvc_same w0 (tm_add_timeout base w hh t).
  Proof. intro H. unfold tm_add_timeout, K_tl. destruct (toks_of base w hh); nsvc. Qed.
  Lemma tm_remove_nsvc w0 w hh t : nsvc_same w0 w -> nsvc_same w0 (tm_remove_timeout base w hh t).
  Proof. intro H. unfold tm_remove_timeout, K_tl. destruct (toks_of base w hh); nsvc. Qed.

  Lemma begin_single_nsvc w b f : nsvc_same w (fst (begin_single h w b f)).
  Proof. unfold begin_single, K_tx. cbn [fst]. nsvc. Qed.

  Lemma begin_multi_nsvc i w b g c f w' ch : begin_multi cfg o base h i w b g c f = Some (w', ch) -> nsvc_same w w'.
  Proof.
    unfold begin_multi, K_child, K_glob.
    destruct (rdw base w (key 6 g)) as [[| | |gs gh gc chh| |]|].
    4: { destruct (sget (ib_id b) chh); [discriminate|].
         destruct (is_final gs); [discriminate|].
         destruct (negb (gs =? ST_BEGIN)); [|destruct f].
         all: intro E; inversion E; subst; clear E; nsvc.
         apply tm_remove_nsvc. nsvc. }
    all: destruct f; intro E; inversion E; subst; clear E; nsvc; apply tm_add_nsvc; nsvc.
  Qed.

  Lemma report_nsvc i w b w' ch : report cfg o base h i w b = Some (w', ch) -> nsvc_same w w'.
  Proof.
    unfold report, K_tx, K_child, K_glob.
    destruct (rdw base w (key 4 (ib_id b))) as [[| |st hh| | |]|].
    3: { destruct (fsm_receipt st (ib_typ b)); [|discriminate]. intro E; inversion E; subst; nsvc. }
    all: destruct (rdw base w (key 5 (ib_id b))) as [[|g| | | |]|]; try discriminate.
    all: destruct (rdw base w (key 6 g)) as [[| | |gs gh gc chh| |]|]; try discriminate.
    all: destruct (sget (ib_id b) chh) as [cst|]; try discriminate.
    all: destruct ((gs =? ST_BEGIN) && (ib_typ b =? 2)).
    all: try (intro E; inversion E; subst; clear E; nsvc; apply tm_remove_nsvc; nsvc).
    all: destruct (fsm_receipt cst (ib_typ b)) as [cst'|]; try discriminate.
    all: destruct (multi_finished o h i cst' gc (sset (ib_id b) cst' chh)).
    all: try (destruct (fsm_receipt gs (ib_typ b)); try discriminate).
    all: intro E; inversion E; subst; clear E; nsvc; apply tm_remove_nsvc; nsvc.
  Qed.

  Lemma add_multi_nsvc w0 w hh ids ts : nsvc_same w0 w -> nsvc_same w0 (add_multi cfg base w hh ids ts).
  Proof. intro H. unfold add_multi, K_multi. destruct ids; nsvc. Qed.

  (** service cache: every entry is what the ledger (as seen in this block) says *)
  Definition cache_ok (c : smap svcrec) (w : smap val) : Prop :=
    forall s r, sget s c = Some r -> led_svc base w s = Some r.
  Lemma cache_ok_same c w w' : nsvc_same w w' -> cache_ok c w -> cache_ok c w'.
  Proof. intros Hs Hc s r Hg. rewrite (led_svc_same _ _ _ Hs). apply Hc. exact Hg. Qed.
  Lemma cache_ok_nil w : cache_ok [] w. Proof. intros s r Hg. discriminate. Qed.
  Lemma svc_lookup_ok c w s : cache_ok c w -> svc_lookup base c w s = svc_lookup base [] w s.
  Proof.
    intro Hc. unfold svc_lookup. cbn [sget]. destruct (sget s c) as [r|] eqn:E; [|reflexivity].
    symmetry. apply Hc. exact E.
  Qed.

  Lemma handle_ibtp_cache i c w b cur : cache_ok c w ->
    handle_ibtp cfg o base h i c w b cur = handle_ibtp cfg o base h i [] w b cur.
  Proof. intro Hc. unfold handle_ibtp. rewrite !(svc_lookup_ok c w) by exact Hc. reflexivity. Qed.
End Refine.

Section Refine2.
  Variable cfg : Defects.
  Variable o : oracle.
  Variable base : smap val.
  Variable h : N.
  Local Opaque key.

  Definition ev_ok (w : smap val) (e : N * svcrec) : Prop := led_svc base w (fst e) = Some (snd e).

  Lemma record_service_ok w wa s e : nsvc_same w wa -> In e (record_service base wa s) -> ev_ok w e.
  Proof.
    intros Hs Hin. unfold record_service in Hin. destruct (led_svc base wa s) as [r|] eqn:E; [|destruct Hin].
    destruct Hin as [<-|[]]. unfold ev_ok. cbn [fst snd]. rewrite <- (led_svc_same base _ _ s Hs). exact E.
  Qed.

  Lemma fold_children_ok w cs : forall wa ea,
    nsvc_same w wa -> (forall e, In e ea -> ev_ok w e) ->
    let '(w4, sev) := fold_left (fun (acc : smap val * list (N * svcrec)) c =>
                                   let '(wa, ea) := acc in
                                   (sset (K_rc (id_src c) (id_dst c)) (VNum (id_idx c)) wa, ea ++ record_service base wa (id_dst c)))
                                cs (wa, ea) in
    nsvc_same w w4 /\ (forall e, In e sev -> ev_ok w e).
  Proof.
    induction cs as [|c rest IH]; intros wa ea Hs He; cbn [fold_left].
    - split; assumption.
    - apply IH.
      + unfold K_rc. apply nsvc_sset_tr; [reflexivity|discriminate|exact Hs].
      + intros e Hin. apply in_app_or in Hin. destruct Hin as [Hin|Hin]; [apply He; exact Hin|].
        eapply record_service_ok; eassumption.
  Qed.

  Lemma handle_ibtp_refines i c w b cur :
    let '(w', r, _) := handle_ibtp cfg o base h i c w b cur in
    nsvc_same w w' /\ (forall e, In e (rc_svc_events r) -> ev_ok w e).
  Proof.
    assert (Htriv : forall rr, nsvc_same w w /\ (forall e, In e (rc_svc_events (failed rr)) -> ev_ok w e)).
    { intro rr. split; [apply nsvc_refl|intros e []]. }
    unfold handle_ibtp.
    destruct (negb ((ib_typ b =? 0) || (ib_typ b =? 1) || (ib_typ b =? 2) || (ib_typ b =? 3))); [apply Htriv|].
    lazy zeta.
    match goal with |- context [match ?cc with inl _ => _ | inr _ => _ end] => destruct cc as [[isBatch tfail]|e] end; [|apply Htriv].
    destruct (ib_typ b =? 0).
    - (* request *)
      assert (Hreq : forall w1 ch, nsvc_same w w1 ->
        let '(w', r, _) :=
          (let '(nsrc, ndst) := notify_flags (ch_prev ch) (ch_cur ch) in
           let '(ev1, w2) := if nsrc then (sset (chain_of (ib_src b)) (isBatch, i) [], add_multi cfg base w1 cur (ch_src ch) true) else ([], w1) in
           let '(ev2, w3) := if ndst then (if ch_fail_child ch then ev1 else sset (chain_of (ib_dst b)) (isBatch, i) ev1, add_multi cfg base w2 cur (ch_dst ch) false) else (ev1, w2) in
           (sset (K_ic (ib_src b) (ib_dst b)) (VNum (num base w3 (K_ic (ib_src b) (ib_dst b)) + 1)) w3,
            Build_receipt true tfail (if isBatch then RBatch else if tfail then RBeginFailure else RNone) (Some ev2) [], false)) in
        nsvc_same w w' /\ (forall e, In e (rc_svc_events r) -> ev_ok w e)).
      { intros w1 ch H1. destruct (notify_flags (ch_prev ch) (ch_cur ch)) as [[|] [|]]; cbn [rc_svc_events].
        all: split; [|intros e []].
        all: unfold K_ic; apply nsvc_sset_tr; [reflexivity|discriminate|].
        all: repeat apply add_multi_nsvc; exact H1. }
      destruct (ib_group b) as [[g count]|].
      + destruct (begin_multi cfg o base h i w b g count tfail) as [[w1 ch]|] eqn:E; [|apply Htriv].
        apply Hreq. eapply begin_multi_nsvc. exact E.
      + apply (Hreq (fst (begin_single h w b tfail)) (snd (begin_single h w b tfail))). apply begin_single_nsvc.
    - (* receipt *)
      destruct (report cfg o base h i w b) as [[w1 ch]|] eqn:E; [|apply Htriv].
      pose proof (report_nsvc cfg o base h i w b w1 ch E) as H1.
      destruct (notify_flags (ch_prev ch) (ch_cur ch)) as [[|] [|]].
      all: match goal with |- context [if is_final ?x then _ else _] => destruct (is_final x) end.
      all: try (cbn [rc_svc_events]; split; [repeat apply add_multi_nsvc; exact H1|intros e []]).
      all: destruct (ch_children ch) as [|c0 cs].
      all: try (cbn [rc_svc_events]; split;
                [unfold K_rc; apply nsvc_sset_tr; [reflexivity|discriminate|repeat apply add_multi_nsvc; exact H1]
                |intros e Hin; eapply record_service_ok; [|exact Hin]; repeat apply add_multi_nsvc; exact H1]).
      all: match goal with |- context [fold_left ?F ?l (?wa, [])] =>
             pose proof (fold_children_ok w l wa []) as Hfold; cbv beta in Hfold;
             destruct (fold_left F l (wa, [])) as [w4 sev] end.
      all: cbn [rc_svc_events]; apply Hfold; [repeat apply add_multi_nsvc; exact H1|intros e []].
  Qed.
End Refine2.

Lemma key_inj' tag a b : key tag a = key tag b -> a = b.
Proof. Local Transparent key. unfold key. lia. Qed.
Lemma rdw_sset_other' base k k' x w : k <> k' -> rdw base (sset k' x w) k = rdw base w k.
Proof. intro Hne. unfold rdw. rewrite sget_sset_other by exact Hne. reflexivity. Qed.

Section Pure.
  Variable cfg : Defects.
  Hypothesis Hclean : c01_clean cfg.
  Variable o : oracle.
  Variable base : smap val.
  Variable h : N.

  Let Hf : d_first_error_order cfg = false. Proof. destruct Hclean as (_ & _ & H & _). exact H. Qed.
  Let Hce : d_cache_failed_events cfg = false. Proof. destruct Hclean as (_ & _ & _ & _ & H & _). exact H. Qed.
  Let Hsi : d_singleton_mem cfg = false. Proof. destruct Hclean as (_ & _ & _ & _ & _ & H & _). exact H. Qed.
  Let Hsp : d_stale_persister cfg = false. Proof. destruct Hclean as (_ & _ & _ & _ & _ & _ & H & _). exact H. Qed.
  Let Hfp : d_forgets_persister cfg = false. Proof. destruct Hclean as (_ & _ & _ & _ & _ & _ & _ & H & _). exact H. Qed.
  Let Hpp : d_proofs_prestage cfg = false. Proof. destruct Hclean as (_ & _ & _ & _ & _ & _ & _ & _ & H). exact H. Qed.

  (** what a transaction does to the block's write set, computed without any node-local memory *)
  Definition tx_pure (i : N) (inv : bool) (w : smap val) (t : tx) : smap val * receipt :=
    let '(v', r) := exec_tx cfg o base h i inv (Build_view w [] false []) t in (v_w v', r).
  Fixpoint txs_pure (i : N) (inv : smap unit) (w : smap val) (ts : list tx) : smap val * list receipt :=
    match ts with
    | [] => (w, [])
    | t :: rest =>
        let '(w1, r) := tx_pure i (match sget i inv with Some _ => true | None => false end) w t in
        let '(w2, rs) := txs_pure (i + 1) inv w1 rest in
        (w2, r :: rs)
    end.

  Lemma cache_store_step c w e : cache_ok base c w -> ev_ok base w e -> cache_ok base (sset (fst e) (snd e) c) w.
  Proof.
    intros Hc He s r Hg. destruct (N.eq_dec s (fst e)) as [->|Hne].
    - rewrite sget_sset_same in Hg. inversion Hg; subst. exact He.
    - rewrite sget_sset_other in Hg by exact Hne. apply Hc. exact Hg.
  Qed.
  Lemma cache_store_ok evs : forall c w, cache_ok base c w -> (forall e, In e evs -> ev_ok base w e) -> cache_ok base (cache_store c evs) w.
  Proof.
    unfold cache_store. induction evs as [|e rest IH]; intros c w Hc He; cbn [fold_left]; [exact Hc|].
    apply IH.
    - apply cache_store_step; [exact Hc|apply He; left; reflexivity].
    - intros e' Hin. apply He. right. exact Hin.
  Qed.

  Lemma gov_cache_ok evs : forall c w, cache_ok base c w ->
    cache_ok base (cache_store c evs) (fold_left (fun a e => sset (K_svc (fst e)) (VSvc (snd e)) a) evs w).
  Proof.
    unfold cache_store. induction evs as [|e rest IH]; intros c w Hc; cbn [fold_left]; [exact Hc|].
    apply IH. intros s r Hg. destruct (N.eq_dec s (fst e)) as [->|Hne].
    - rewrite sget_sset_same in Hg. inversion Hg; subst.
      unfold led_svc, rdw. rewrite sget_sset_same. reflexivity.
    - rewrite sget_sset_other in Hg by exact Hne.
      unfold led_svc. rewrite rdw_sset_other'.
      + apply Hc. exact Hg.
      + unfold K_svc. intro E. apply Hne. apply (key_inj' 1). exact E.
  Qed.

  Lemma exec_tx_pure i inv v t : cache_ok base (v_cache v) (v_w v) ->
    let '(v', r) := exec_tx cfg o base h i inv v t in
    (v_w v', r) = tx_pure i inv (v_w v) t /\ cache_ok base (v_cache v') (v_w v').
  Proof.
    intro Hc. unfold tx_pure, exec_tx. rewrite Hf, Hce, Hsi, Hsp, Hfp, Hpp. destruct inv; [split; [reflexivity|exact Hc]|].
    assert (Hib : forall valid b,
      let '(v', r) := do_ibtp cfg o base h i v valid b in
      (v_w v', r) = (let '(v0, r0) := do_ibtp cfg o base h i (Build_view (v_w v) [] false []) valid b in (v_w v0, r0)) /\
      cache_ok base (if rc_ok r || false then cache_store (v_cache v') (rc_svc_events r) else v_cache v') (v_w v')).
    { intros valid b. unfold do_ibtp. destruct valid.
      + rewrite (handle_ibtp_cache cfg o base h i (v_cache v) (v_w v) b h Hc).
        cbn [v_w v_cache].
        pose proof (handle_ibtp_refines cfg o base h i [] (v_w v) b h) as Href.
        destruct (handle_ibtp cfg o base h i [] (v_w v) b h) as [[w' r] rec].
        destruct Href as [Hs He]. cbn [v_w v_cache]. split; [reflexivity|].
        destruct (rc_ok r || false).
        * apply cache_store_ok.
          -- eapply cache_ok_same; eassumption.
          -- intros e Hin. unfold ev_ok. rewrite (led_svc_same base _ _ (fst e) Hs). apply He. exact Hin.
        * eapply cache_ok_same; eassumption.
      + cbn [rc_ok rc_svc_events v_w v_cache failed orb]. split; [reflexivity|exact Hc]. }
    destruct t as [ok|ok tch evs|site ids|c forgets ok| |valid b|vnow vprev b| |b]; cbn [andb orb]; rewrite ?andb_false_r.
    - cbn [rc_ok rc_svc_events v_w v_cache]. split; [reflexivity|]. destruct (ok || false); exact Hc.
    - cbn [rc_ok rc_svc_events v_w v_cache]. split; [reflexivity|].
      destruct ok; cbn [orb].
      + apply gov_cache_ok. exact Hc.
      + exact Hc.
    - destruct (pick o h false site i ids); cbn [rc_ok rc_svc_events v_w v_cache failed orb cache_store fold_left].
      all: split; [reflexivity|exact Hc].
    - cbn [rc_ok rc_svc_events v_w v_cache failed orb cache_store fold_left]. split; [reflexivity|]. destruct (ok || false); exact Hc.
    - cbn [rc_ok rc_svc_events v_w v_cache failed orb]. split; [reflexivity|exact Hc].
    - specialize (Hib valid b). destruct (do_ibtp cfg o base h i v valid b) as [v' r].
      destruct (do_ibtp cfg o base h i (Build_view (v_w v) [] false []) valid b) as [v0 r0].
      destruct Hib as [E Hok']. inversion E; subst. cbn [v_w v_cache]. split; [reflexivity|exact Hok'].
    - specialize (Hib vnow b). destruct (do_ibtp cfg o base h i v vnow b) as [v' r].
      destruct (do_ibtp cfg o base h i (Build_view (v_w v) [] false []) vnow b) as [v0 r0].
      destruct Hib as [E Hok']. inversion E; subst. cbn [v_w v_cache]. split; [reflexivity|exact Hok'].
    - cbn [rc_ok rc_svc_events v_w v_cache failed orb]. split; [reflexivity|exact Hc].
    - cbn [rc_ok rc_svc_events v_w v_cache failed orb]. split; [reflexivity|exact Hc].
  Qed.

  Lemma exec_txs_pure ts : forall i inv v, cache_ok base (v_cache v) (v_w v) ->
    let '(v', rs) := exec_txs cfg o base h i inv v ts in
    (v_w v', rs) = txs_pure i inv (v_w v) ts /\ cache_ok base (v_cache v') (v_w v').
  Proof.
    induction ts as [|t rest IH]; intros i inv v Hc; cbn [exec_txs txs_pure].
    - split; [reflexivity|exact Hc].
    - pose proof (exec_tx_pure i (match sget i inv with Some _ => true | None => false end) v t Hc) as H1.
      destruct (exec_tx cfg o base h i _ v t) as [v1 r]. destruct H1 as [E1 Hc1].
      rewrite <- E1.
      pose proof (IH (i + 1) inv v1 Hc1) as H2.
      destruct (exec_txs cfg o base h (i + 1) inv v1 rest) as [v2 rs]. destruct H2 as [E2 Hc2].
      rewrite <- E2. split; [reflexivity|exact Hc2].
  Qed.
End Pure.

(* ------------------------------------------------------------------------------------- *)
(** * Commit, overlay, and the post-processing writes *)
Lemma copy_step_sorted {A} (w : smap A) a (y : smap A) : ssorted y -> ssorted (copy_step w a y).
Proof. intro H. unfold copy_step. destruct (sget a w); [apply ssorted_sset|]; exact H. Qed.
Lemma fold_copy_sorted {A} (w : smap A) l : forall y, ssorted y -> ssorted (fold_right (copy_step w) y l).
Proof. induction l as [|a t IH]; intros y H; cbn [fold_right]; [exact H|apply copy_step_sorted, IH, H]. Qed.
Lemma commit_sorted o h w st : ssorted st -> ssorted (commit o h w st).
Proof. apply fold_copy_sorted. Qed.

Lemma sget_fold_copy {A} (w : smap A) l : forall (y : smap A) k,
  sget k (fold_right (copy_step w) y l) =
  match (if mem_N k l then sget k w else None) with Some x => Some x | None => sget k y end.
Proof.
  induction l as [|a t IH]; intros y k; cbn [fold_right mem_N existsb]; [reflexivity|].
  unfold copy_step at 1. destruct (k =? a) eqn:E.
  - apply N.eqb_eq in E. subst a. cbn [orb].
    destruct (sget k w) as [x|] eqn:Ew.
    + rewrite sget_sset_same. reflexivity.
    + rewrite IH. fold (mem_N k t). destruct (mem_N k t); rewrite ?Ew; reflexivity.
  - cbn [orb]. assert (k <> a) by (intro; subst; rewrite N.eqb_refl in E; discriminate).
    destruct (sget a w).
    + rewrite sget_sset_other by assumption. apply IH.
    + apply IH.
Qed.

Lemma sget_in_keys {A} (w : smap A) k x : sget k w = Some x -> mem_N k (skeys w) = true.
Proof.
  induction w as [|[k' v] t IH]; cbn [sget skeys map fst mem_N existsb]; [discriminate|].
  destruct (k =? k'); [reflexivity|]. intro H. cbn [orb]. apply IH. exact H.
Qed.

Lemma sget_commit_id h w st k : sget k (commit o_id h w st) = rdw st w k.
Proof.
  unfold commit, rdw. rewrite sget_fold_copy. change (visit o_id h S_CM0 0 (skeys w)) with (skeys w).
  destruct (sget k w) as [x|] eqn:E.
  - rewrite (sget_in_keys w k x E). reflexivity.
  - destruct (mem_N k (skeys w)); reflexivity.
Qed.

Lemma overlay_id st : ssorted st -> forall A, ssorted A ->
  (forall k v, sget k A = Some v -> sget k st = Some v) -> overlay A st = st.
Proof.
  intros Hs A. unfold overlay. induction A as [|[k v] t IH]; intros HA Hsub; cbn [fold_left]; [reflexivity|].
  cbn [ssorted] in HA. destruct HA as [Hlt HA]. cbn [fst snd].
  rewrite sset_same; [|exact Hs|apply Hsub; cbn [sget]; rewrite N.eqb_refl; reflexivity].
  apply IH; [exact HA|]. intros k' v' Hg. apply Hsub. cbn [sget].
  destruct (k' =? k) eqn:E; [|exact Hg].
  apply N.eqb_eq in E. subst k'. rewrite (sget_none_lt k t Hlt) in Hg. discriminate.
Qed.

Section PostNsvc.
  Variable o : oracle.
  Variable base : smap val.
  Variable h : N.
  Local Opaque key.

  Lemma stl_add_nsvc adds hh w0 w : nsvc_same w0 w -> nsvc_same w0 (stl_add base adds hh w).
  Proof.
    intro H. unfold stl_add, K_tl. destruct (sget hh adds); [|exact H].
    destruct (toks_of base w hh); (apply nsvc_sset_tr; [reflexivity|discriminate|exact H]).
  Qed.
  Lemma stl_remove_nsvc rems hh w0 w : nsvc_same w0 w -> nsvc_same w0 (stl_remove base rems hh w).
  Proof.
    intro H. unfold stl_remove, K_tl. destruct (sget hh rems); [|exact H].
    apply nsvc_sset_tr; [reflexivity|discriminate|exact H].
  Qed.
  Lemma set_timeout_list_nsvc w ts rs : nsvc_same w (set_timeout_list o base h w ts rs).
  Proof.
    unfold set_timeout_list. destruct (stl_collect base h w ts rs) as [adds rems].
    assert (H1 : forall l, nsvc_same w (fold_right (stl_add base adds) w l)).
    { induction l as [|a t IH]; cbn [fold_right]; [apply nsvc_refl|apply stl_add_nsvc, IH]. }
    generalize (visit o h S_STL1 0 (skeys rems)). intro l.
    induction l as [|a t IH]; cbn [fold_right]; [apply H1|apply stl_remove_nsvc, IH].
  Qed.
  Lemma rollback_step_nsvc w0 a t : nsvc_same w0 a -> nsvc_same w0 (rollback_step o base h a t).
  Proof.
    intro H. unfold rollback_step, K_glob, K_tx. destruct t; [exact H| |].
    - apply nsvc_sset_tr; [reflexivity|discriminate|exact H].
    - destruct (rdw base a (key 6 g)) as [[| | |gs gh gc ch| |]|]; try exact H.
      apply nsvc_sset_tr; [reflexivity|discriminate|exact H].
  Qed.
  Lemma timeout_rollback_nsvc l : forall w0 w, nsvc_same w0 w -> nsvc_same w0 (timeout_rollback o base h w l).
  Proof.
    unfold timeout_rollback. induction l as [|t rest IH]; intros w0 w H; cbn [fold_left]; [exact H|].
    apply IH. apply rollback_step_nsvc. exact H.
  Qed.
End PostNsvc.

(* ------------------------------------------------------------------------------------- *)
(** * One block: node-local memory that refines the disk does not influence the result *)
Record inv (m : memory) (st : smap val) : Prop := {
  i_pending : m_pending m = [];
  i_sorted : ssorted st;
  i_csorted : ssorted (m_acache m);
  i_acache : forall k v, sget k (m_acache m) = Some v -> sget k st = Some v;
  i_cache : cache_ok st (m_svc_cache m) []
}.

Definition mem0 (height : N) (hash : hsh) : memory := Build_memory [] [] [] false [] height hash.

Lemma inv_mem0 height hash st : ssorted st -> inv (mem0 height hash) st.
Proof.
  intro Hs. constructor; cbn; try reflexivity; try exact Hs; try exact I.
  - intros k v H. discriminate.
  - apply cache_ok_nil.
Qed.

Definition core_res (x : memory * smap val * list (list (N * list (N * val))) * list N * result) :=
  let '(_, st, root, accts, r) := x in (st, root, accts, r).

Lemma block_core_mem cfg m st root b :
  c01_clean cfg -> inv m st ->
  let x := block_core cfg o_id m st root b in
  core_res x = core_res (block_core cfg o_id (mem0 (m_height m) (m_hash m)) st root b) /\
  (let '(m', st', _, _, r) := x in inv m' st' /\ m_height m' = r_height r /\ m_hash m' = r_block_hash r).
Proof.
  intros Hc [Hp Hs Hcs Ha Hca].
  unfold block_core. cbn [mem0 m_pending m_acache m_svc_cache m_singleton m_persister m_height m_hash].
  rewrite Hp. rewrite (overlay_id st Hs (m_acache m) Hcs Ha).
  change (overlay [] st) with st.
  set (h := m_height m + 1).
  set (ivm := invalid_map o_id h (b_invalid b)).
  (* both executions of the transaction list are the same pure function of the write set *)
  pose proof (exec_txs_pure cfg Hc o_id st h (b_txs b) 0 ivm
                (Build_view [] (m_svc_cache m) (m_singleton m) (m_persister m)) Hca) as H1.
  pose proof (exec_txs_pure cfg Hc o_id st h (b_txs b) 0 ivm
                (Build_view [] [] false []) (cache_ok_nil st [])) as H2.
  cbn [v_w v_cache] in H1, H2.
  destruct (exec_txs cfg o_id st h 0 ivm (Build_view [] (m_svc_cache m) (m_singleton m) (m_persister m)) (b_txs b)) as [v1 rs].
  destruct (exec_txs cfg o_id st h 0 ivm (Build_view [] [] false []) (b_txs b)) as [v1' rs'].
  destruct H1 as [E1 Hc1]. destruct H2 as [E2 _]. rewrite <- E1 in E2. inversion E2 as [[Ew Er]].
  rewrite Ew. clear E1 E2 Er.
  set (w2 := set_timeout_list o_id st h (v_w v1) (b_txs b) rs).
  set (w := timeout_rollback o_id st h w2 (timeout_list st w2 h)).
  destruct (flush o_id h w) as [accts dirty].
  cbn [core_res]. split; [reflexivity|].
  cbn [r_height r_block_hash m_height m_hash]. split; [|split; reflexivity].
  assert (Hns : nsvc_same (v_w v1) w).
  { unfold w. apply timeout_rollback_nsvc. unfold w2. apply set_timeout_list_nsvc. }
  constructor; cbn [m_pending m_acache m_svc_cache].
  - reflexivity.
  - apply commit_sorted. exact Hs.
  - apply commit_sorted. exact Hcs.
  - intros k v. unfold commit. rewrite !sget_fold_copy.
    destruct (if mem_N k (visit o_id h S_CM0 0 (skeys w)) then sget k w else None); [trivial|apply Ha].
  - intros s r Hg. unfold led_svc.
    assert (E : rdw (commit o_id h w st) [] (K_svc s) = rdw st w (K_svc s)).
    { unfold rdw at 1. cbn [sget]. apply sget_commit_id. }
    rewrite E. fold (led_svc st w s). rewrite (led_svc_same st _ _ s Hns). apply Hc1. exact Hg.
Qed.

(** the canonical execution of a history: identity oracle, fresh memory before every block *)
Fixpoint canon_blocks (cfg : Defects) (st : smap val) (height : N) (hash : hsh)
         (root : list (list (N * list (N * val)))) (bs : list block) : list result :=
  match bs with
  | [] => []
  | b :: rest =>
      let '(_, st', root', _, r) := block_core cfg o_id (mem0 height hash) st root b in
      r :: canon_blocks cfg st' (r_height r) (r_block_hash r) root' rest
  end.

Definition node_ok (m : memory) (d : disk) : Prop :=
  inv m (dk_state d) /\ m_height m = dk_height d /\ m_hash m = dk_hash d.

Lemma restart_ok m d : node_ok m d -> node_ok (restart m d) d.
Proof.
  intros [[_ Hs _ _ _] _]. unfold restart, reload. split; [|split; reflexivity].
  apply (inv_mem0 (dk_height d) (dk_hash d)). exact Hs.
Qed.

Lemma exec_block_canon cfg o m d b :
  c01_clean cfg -> oracle_ok o -> node_ok m d ->
  let '(m', d', r) := exec_block cfg o m d b in
  let '(_, st0, root0, _, r0) := block_core cfg o_id (mem0 (dk_height d) (dk_hash d)) (dk_state d) (dk_root d) b in
  r = r0 /\ dk_state d' = st0 /\ dk_root d' = root0 /\ dk_height d' = r_height r /\ dk_hash d' = r_block_hash r /\ node_ok m' d'.
Proof.
  intros Hc Hok [Hinv [Hh Hha]]. unfold exec_block.
  pose proof (block_core_oracle cfg o m (dk_state d) (dk_root d) b Hc Hok) as H1.
  pose proof (block_core_mem cfg m (dk_state d) (dk_root d) b Hc Hinv) as H2.
  cbv zeta in H2. rewrite Hh, Hha in H2.
  destruct (block_core cfg o m (dk_state d) (dk_root d) b) as [[[[m1 st1] root1] a1] r1].
  destruct (block_core cfg o_id m (dk_state d) (dk_root d) b) as [[[[m2 st2] root2] a2] r2].
  destruct (block_core cfg o_id (mem0 (dk_height d) (dk_hash d)) (dk_state d) (dk_root d) b) as [[[[m3 st3] root3] a3] r3].
  cbn [core_out] in H1. cbn [core_res] in H2. destruct H2 as [E2 [Hinv2 [Hh2 Hha2]]].
  inversion H1; subst. inversion E2; subst.
  cbn [dk_state dk_root dk_height dk_hash]. repeat (split; [reflexivity|]).
  unfold node_ok. cbn [dk_state dk_root dk_height dk_hash]. split; [exact Hinv2|split; assumption].
Qed.

Lemma run_blocks_canon cfg o rs bs : c01_clean cfg -> oracle_ok o ->
  forall n m d, node_ok m d ->
  run_blocks cfg o rs n m d bs = canon_blocks cfg (dk_state d) (dk_height d) (dk_hash d) (dk_root d) bs.
Proof.
  intros Hc Hok. induction bs as [|b rest IH]; intros n m d Hn; cbn [run_blocks canon_blocks]; [reflexivity|].
  set (m1 := if rs n then restart m d else m).
  assert (Hn1 : node_ok m1 d) by (unfold m1; destruct (rs n); [apply restart_ok|]; exact Hn).
  pose proof (exec_block_canon cfg o m1 d b Hc Hok Hn1) as H.
  destruct (exec_block cfg o m1 d b) as [[m2 d2] r].
  destruct (block_core cfg o_id (mem0 (dk_height d) (dk_hash d)) (dk_state d) (dk_root d) b) as [[[[m0 st0] root0] a0] r0].
  destruct H as (Er & Es & Ero & Eh & Eha & Hn2). subst r0.
  f_equal. rewrite (IH (S n) m2 d2 Hn2). rewrite Es, Ero, Eh, Eha. reflexivity.
Qed.

Lemma genesis_canon cfg o g : c01_clean cfg -> oracle_ok o ->
  let '(m, d, r) := genesis cfg o g in
  let '(_, d0, r0) := genesis cfg o_id g in
  r = r0 /\ dk_state d = dk_state d0 /\ dk_height d = dk_height d0 /\ dk_hash d = dk_hash d0 /\ dk_root d = dk_root d0 /\ node_ok m d.
Proof.
  intros Hc Hok. unfold genesis.
  assert (Hb : d_bns_after_flush cfg = false) by (destruct Hc as (_ & _ & _ & H & _); exact H).
  rewrite Hb.
  set (w1 := fold_left (fun w kv => sset (fst kv) (snd kv) w) bns_data (fold_left (fun w kv => sset (fst kv) (snd kv) w) g [])).
  pose proof (flush_dirty_id o Hok 1 w1) as Hfl.
  destruct (flush o 1 w1) as [a1 d1]. destruct (flush o_id 1 w1) as [a2 d2]. cbn [snd] in Hfl. subst d2.
  rewrite (commit_id o Hok).
  cbn [dk_state dk_height dk_hash dk_root]. repeat (split; [reflexivity|]).
  unfold node_ok. cbn [dk_state dk_height dk_hash m_height m_hash]. split; [|split; reflexivity].
  constructor; cbn [m_pending m_acache m_svc_cache].
  - reflexivity.
  - apply commit_sorted. exact I.
  - apply commit_sorted. exact I.
  - intros k v H. exact H.
  - apply cache_ok_nil.
Qed.

(** * C01: the block results do not depend on the oracle family or on the restart placement *)
Theorem exec_oracle_independent cfg : c01_clean cfg ->
  forall (g : list (N * val)) (bs : list block) (o1 o2 : oracle) (r1 r2 : nat -> bool),
  oracle_ok o1 -> oracle_ok o2 ->
  run cfg o1 r1 g bs = run cfg o2 r2 g bs.
Proof.
  intros Hc g bs o1 o2 r1 r2 H1 H2. unfold run.
  pose proof (genesis_canon cfg o1 g Hc H1) as G1.
  pose proof (genesis_canon cfg o2 g Hc H2) as G2.
  destruct (genesis cfg o1 g) as [[m1 d1] x1].
  destruct (genesis cfg o2 g) as [[m2 d2] x2].
  destruct (genesis cfg o_id g) as [[m0 d0] x0].
  destruct G1 as (E1 & S1 & Hh1 & Ha1 & R1 & N1).
  destruct G2 as (E2 & S2 & Hh2 & Ha2 & R2 & N2).
  subst x1 x2. f_equal.
  rewrite (run_blocks_canon cfg o1 r1 bs Hc H1 0%nat m1 d1 N1).
  rewrite (run_blocks_canon cfg o2 r2 bs Hc H2 0%nat m2 d2 N2).
  rewrite S1, S2, Hh1, Hh2, Ha1, Ha2, R1, R2. reflexivity.
Qed.

Lemma cfg_fixed_clean k : c01_clean (cfg_fixed_with k).
Proof. repeat split. Qed.

Corollary exec_oracle_independent_fixed :
  forall (g : list (N * val)) (bs : list block) (o1 o2 : oracle) (r1 r2 : nat -> bool),
  oracle_ok o1 -> oracle_ok o2 ->
  run cfg_fixed o1 r1 g bs = run cfg_fixed o2 r2 g bs.
Proof. apply exec_oracle_independent. apply cfg_fixed_clean. Qed.

(* ------------------------------------------------------------------------------------- *)
(** * The boolean property predicate evaluated on implementation traces *)
Lemma all_same_spec l : all_same l = true <-> (forall x y, In x l -> In y l -> x = y).
Proof.
  destruct l as [|a t]; cbn [all_same]; [split; [intros _ x y []|reflexivity]|].
  rewrite forallb_forall. split.
  - intros H x y Hx Hy.
    assert (Ha : forall z, In z (a :: t) -> z = a).
    { intros z [->|Hz]; [reflexivity|]. specialize (H z Hz). apply N.eqb_eq in H. symmetry. exact H. }
    rewrite (Ha x Hx), (Ha y Hy). reflexivity.
  - intros H z Hz. apply N.eqb_eq. apply H; [left; reflexivity|right; exact Hz].
Qed.

Lemma replicas_agree_b_spec dg : replicas_agree_b dg = true <-> replicas_agree dg.
Proof.
  unfold replicas_agree_b, replicas_agree, block_agrees. rewrite forallb_forall. split.
  - intros H fields Hf vals Hv. specialize (H fields Hf). rewrite forallb_forall in H.
    apply all_same_spec. apply H. exact Hv.
  - intros H fields Hf. rewrite forallb_forall. intros vals Hv. apply all_same_spec. apply H with fields; assumption.
Qed.

(* ------------------------------------------------------------------------------------- *)
(** * Refutation witnesses: with a defect flag on, two admissible runs of one history differ *)
Definition rev_oracle : oracle := Build_oracle (fun _ _ _ l => rev l) (fun _ l => rev l) (fun h n => h + n) (fun _ => true).
Lemma rev_oracle_ok : oracle_ok rev_oracle.
Proof. split; intros; cbn; apply Permutation_sym, Permutation_rev. Qed.
Lemma o_id_ok : oracle_ok o_id.
Proof. split; intros; cbn; apply Permutation_refl. Qed.

Definition only (f : N) : Defects :=
  Build_Defects (f =? 1) (f =? 2) (f =? 3) (f =? 4) (f =? 5) (f =? 6) (f =? 7) (f =? 8) (f =? 9) false.

Definition av : svcrec := Build_svcrec true true [].
Definition unav : svcrec := Build_svcrec false true [].
(** services: chain 0 svc 0 = 0, chain 1 svc 0 = 16, chain 1 svc 1 = 17, chain 2 svc 0 = 32 *)
Definition w_genesis : list (N * val) :=
  [(K_svc 0, VSvc av); (K_svc 16, VSvc av); (K_svc 17, VSvc av); (K_svc 32, VSvc av)].
Definition child (dst : N) (timeout : N) : tx := TIbtp true (Build_ibtp 0 dst 1 0 timeout (Some (7, 3))).
Definition child_receipt (dst typ : N) : tx := TIbtp true (Build_ibtp 0 dst 1 typ 0 (Some (7, 3))).
Definition blk (ts : list tx) : block := Build_block ts [].
Definition never : nat -> bool := fun _ => false.
Definition before0 : nat -> bool := fun n => match n with O => true | _ => false end.
Definition before1 : nat -> bool := fun n => match n with 1%nat => true | _ => false end.

(** 1. one-to-many group, failure receipt: NotifySrc ids in map order *)
Definition w_notify : list block :=
  [blk [child 16 0; child 17 0; child 32 0]; blk [child_receipt 16 2]].
Lemma notify_unsorted_refuted :
  exists g bs o1 o2, oracle_ok o1 /\ oracle_ok o2 /\ run (only 1) o1 never g bs <> run (only 1) o2 never g bs.
Proof.
  exists w_genesis, w_notify, o_id, rev_oracle. split; [apply o_id_ok|]. split; [apply rev_oracle_ok|].
  intro H. apply (f_equal (map r_multitx_counter)) in H. vm_compute in H. discriminate.
Qed.

(** 2. a group times out: children listed in map order in TimeoutCounter *)
Definition w_timeout : list block := [blk [child 16 2; child 32 2]; blk []; blk []].
Lemma timeout_child_order_refuted :
  exists g bs o1 o2, oracle_ok o1 /\ oracle_ok o2 /\ run (only 2) o1 never g bs <> run (only 2) o2 never g bs.
Proof.
  exists w_genesis, w_timeout, o_id, rev_oracle. split; [apply o_id_ok|]. split; [apply rev_oracle_ok|].
  intro H. apply (f_equal (map r_timeout_counter)) in H. vm_compute in H. discriminate.
Qed.

(** 3. two illegal permission ids: the first in map order names the error *)
Lemma first_error_order_refuted :
  exists g bs o1 o2, oracle_ok o1 /\ oracle_ok o2 /\ run (only 3) o1 never g bs <> run (only 3) o2 never g bs.
Proof.
  exists w_genesis, [blk [TPerm S_PERM [1; 2]]], o_id, rev_oracle. split; [apply o_id_ok|]. split; [apply rev_oracle_ok|].
  intro H. apply (f_equal (map r_receipts)) in H. vm_compute in H. discriminate.
Qed.

(** 4. restart between genesis and the next block loses the name-service records *)
Lemma bns_after_flush_refuted :
  exists g bs r1 r2, run (only 4) o_id r1 g bs <> run (only 4) o_id r2 g bs.
Proof.
  exists w_genesis, [blk [TOpaque true]], never, before0.
  intro H. apply (f_equal (map r_state_root)) in H. vm_compute in H. discriminate.
Qed.

(** 5. a failed transaction's SERVICE event stays in the cache of the node that kept running *)
Definition w_cache : list block :=
  [blk [TGov false [1] [(16, unav)]]; blk [TIbtp true (Build_ibtp 0 16 1 0 0 None)]].
Lemma cache_failed_events_refuted :
  exists g bs r1 r2, run (only 5) o_id r1 g bs <> run (only 5) o_id r2 g bs.
Proof.
  exists w_genesis, w_cache, never, before1.
  intro H. apply (f_equal (map r_receipts)) in H. vm_compute in H. discriminate.
Qed.

(** 6. InitServiceCache sets a field of the registered object; a restart clears it *)
Definition w_single : list block :=
  [blk [TInitCache]; blk [THandleData (Build_ibtp 0 16 1 0 0 None)]].
Lemma singleton_mem_refuted :
  exists g bs r1 r2, run (only 6) o_id r1 g bs <> run (only 6) o_id r2 g bs.
Proof.
  exists w_genesis, w_single, never, before1.
  intro H. apply (f_equal (map r_receipts)) in H. vm_compute in H. discriminate.
Qed.

(** 7. promoted core-manager method: previous call's Persister or nil *)
Definition w_persist : list block := [blk [TGov true [1] []]; blk [TPromoted]].
Lemma stale_persister_refuted :
  exists g bs r1 r2, run (only 7) o_id r1 g bs <> run (only 7) o_id r2 g bs.
Proof.
  exists w_genesis, w_persist, never, before1.
  intro H. apply (f_equal (map r_receipts)) in H. vm_compute in H. discriminate.
Qed.

(** 8. an exported manager method that forgets to re-bind the Persister (mutation class): works on
    the node that kept running, dies on the one restarted right before it *)
Definition w_forgets : list block := [blk [TMgrCall 0 false true]; blk [TMgrCall 0 true true]].
Lemma forgets_persister_refuted :
  exists g bs r1 r2, run (only 8) o_id r1 g bs <> run (only 8) o_id r2 g bs.
Proof.
  exists w_genesis, w_forgets, never, before1.
  intro H. apply (f_equal (map r_receipts)) in H. vm_compute in H. discriminate.
Qed.
(** 9. proofs checked by the pre-execute stage: a replica that received two blocks back to back
    verifies the second block's proofs before the first block's state changes exist *)
Definition w_prestage : list block := [blk [TOpaque true]; blk [TIbtpP true false (Build_ibtp 0 16 1 0 0 None)]].
Lemma proofs_prestage_refuted :
  exists g bs o1 o2, oracle_ok o1 /\ oracle_ok o2 /\ run (only 9) o1 never g bs <> run (only 9) o2 never g bs.
Proof.
  exists w_genesis, w_prestage, o_id, rev_oracle. split; [apply o_id_ok|]. split; [apply rev_oracle_ok|].
  intro H. apply (f_equal (map r_receipts)) in H. vm_compute in H. discriminate.
Qed.
(** a blacklisted source is answered begin_failure whatever the caches hold *)
Definition w_black : list block :=
  [blk [TGov true [1] [(16, Build_svcrec true true [0])]]; blk [TIbtp true (Build_ibtp 0 16 1 0 0 None); TIbtp true (Build_ibtp 32 16 1 0 0 None)]].
Example fixed_blacklist_example :
  map (fun r => map rc_begin_failure (r_receipts r)) (run cfg_fixed rev_oracle before1 w_genesis w_black) = [[]; [false]; [true; false]].
Proof. vm_compute. reflexivity. Qed.
Example fixed_forgets_example :
  map (fun r => map rc_ok (r_receipts r)) (run cfg_fixed o_id before1 w_genesis w_forgets) = [[]; [true]; [true]].
Proof. vm_compute. reflexivity. Qed.

(** non-vacuity: on the same witnesses the repaired model gives one answer, and that answer is
    not trivial (the group notification and the timeout list are really produced) *)
Example fixed_notify_example :
  map r_multitx_counter (run cfg_fixed rev_oracle before1 w_genesis w_notify) =
  [[]; []; [(0, [mk_id 0 17 1; mk_id 0 32 1])]].
Proof. vm_compute. reflexivity. Qed.
Example fixed_timeout_example :
  map r_timeout_counter (run cfg_fixed rev_oracle before1 w_genesis w_timeout) =
  [[]; []; []; [(0, [mk_id 0 16 1; mk_id 0 32 1])]].
Proof. vm_compute. reflexivity. Qed.
Example fixed_cache_example :
  map (fun r => map rc_ok (r_receipts r)) (run cfg_fixed o_id never w_genesis w_cache) = [[]; [false]; [true]].
Proof. vm_compute. reflexivity. Qed.

(* ------------------------------------------------------------------------------------- *)
(** * The site inventory regenerated from the sources is exactly the classified table *)
Definition gsite_eqb (a b : gsite) : bool :=
  let '(f1, n1, k1, o1, x1, h1) := a in let '(f2, n2, k2, o2, x2, h2) := b in
  String.eqb f1 f2 && String.eqb n1 n2 && String.eqb k1 k2 && (o1 =? o2)%N && String.eqb x1 x2 && String.eqb h1 h2.
Definition gen_all_sites : list gsite := gen_range_sites ++ gen_clock_sites ++ gen_go_sites ++ gen_select_sites.
Definition pinned_gsites : list gsite := map (fun e => fst (fst (fst e))) pinned_sites.
Definition subset_b (a b : list gsite) : bool := forallb (fun x => existsb (gsite_eqb x) b) a.

(** every generated site (a new range over a map, a new time.Now(), a new go statement, or any edit
    of a function that contains one) must be in the table with the same function hash ... *)
Lemma sites_covered : subset_b gen_all_sites pinned_gsites = true.
Proof. vm_compute. reflexivity. Qed.
(** ... the table has no stale entries ... *)
Lemma sites_not_stale : subset_b pinned_gsites gen_all_sites = true.
Proof. vm_compute. reflexivity. Qed.
(** ... and every entry carries one of the known classes (a new site arrives as UNCLASSIFIED) *)
Lemma sites_classified :
  forallb (fun e => existsb (String.eqb (snd (fst (fst e)))) site_classes) pinned_sites = true.
Proof. vm_compute. reflexivity. Qed.

(** the oracle sites the model executes are all named by some table entry *)
Definition model_sites : list N :=
  [S_BM0; S_BM1; S_R0; S_R1; S_CMS; S_IMF; S_AT0; S_TIM0; S_PE0; S_PE1; S_PE2; S_SG0; S_STL0; S_STL1; S_FL0; S_FL1; S_CM0; S_GEN0; S_PERM; S_ADMIN; S_R2].
Lemma model_sites_tied :
  forallb (fun s => existsb (fun e => (snd (fst e) =? s)%N) pinned_sites) model_sites = true.
Proof. vm_compute. reflexivity. Qed.

Lemma gsite_eqb_eq a b : gsite_eqb a b = true -> a = b.
Proof.
  destruct a as [[[[[f1 n1] k1] o1] x1] h1], b as [[[[[f2 n2] k2] o2] x2] h2]. cbn [gsite_eqb].
  rewrite !andb_true_iff. intros [[[[[A B] C] D] E] F].
  apply String.eqb_eq in A, B, C, E, F. apply N.eqb_eq in D. subst. reflexivity.
Qed.
Lemma sites_covered_In : forall s, In s gen_all_sites -> In s pinned_gsites.
Proof.
  intros s Hin. pose proof sites_covered as H. unfold subset_b in H. rewrite forallb_forall in H.
  specialize (H s Hin). apply existsb_exists in H. destruct H as [x [Hx He]].
  apply gsite_eqb_eq in He. subst. exact Hx.
Qed.

(** what is NOT derived but taken as an input: the receipt status and SERVICE events of opaque
    transactions (native transfers, governance calls, XVM/EVM execution).  The theorem holds for
    every value of these inputs, provided both runs are given the SAME inputs; that two nodes
    compute the same inputs is checked by the replica comparison only. *)
Corollary opaque_execution_partial :
  forall (g : list (N * val)) (pre post : list block) (ok : bool) (touch : list N) (evs : list (N * svcrec))
         (o1 o2 : oracle) (r1 r2 : nat -> bool),
  oracle_ok o1 -> oracle_ok o2 ->
  run cfg_fixed o1 r1 g (pre ++ blk [TGov ok touch evs; TOpaque ok] :: post) =
  run cfg_fixed o2 r2 g (pre ++ blk [TGov ok touch evs; TOpaque ok] :: post).
Proof. intros. apply exec_oracle_independent_fixed; assumption. Qed.
