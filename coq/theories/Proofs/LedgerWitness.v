(** Concrete witnesses (closed by [vm_compute]) on the executable model:
    - for each defect flag, a history on which the property predicate is false when only that
      flag is on (the behaviour of the pinned tree) and true with all flags off;
    - for the open findings (faithful behaviour kept in the model), a history showing the failure;
    - non-vacuity examples: reachable, non-trivial runs on which the predicates hold. *)
From BX Require Import Base.Prelude Base.Sha256 Model.JsonAcct Model.Merkle Model.StateLedger Model.LedgerSpec Proofs.LedgerLemmas Proofs.RootProofs.
Local Open Scope N_scope.

(** a small concrete environment: three accounts, SHA-256, a stand-in for Keccak *)
Definition w_raw (a : N) : bytes := repeat a 20.
Definition w_str (a : N) : bytes := [48; 120; 65 + a].
Definition w_kec (c : bytes) : bytes := sha256 (1 :: c).
Definition E0 : env := mkEnv w_raw w_str w_kec sha256.

Definition only_dupkey : cfg := mkCfg true false false false false false false false.
Definition only_qnil : cfg := mkCfg false true false false false false false false.
Definition only_qcache : cfg := mkCfg false false true false false false false false.
Definition only_addstate : cfg := mkCfg false false false true false false false false.
Definition only_orphan : cfg := mkCfg false false false false true false false false.
Definition only_rbhead : cfg := mkCfg false false false false false true false false.
Definition only_getcommitted : cfg := mkCfg false false false false false false true false.
Definition only_setcodenil : cfg := mkCfg false false false false false false false true.

(** P_b on the model's own trace: None = the trace agrees with the specification *)
Definition pb_model (strict : bool) (c : cfg) (ops : list op) : option N :=
  fst (spec_agree strict E0 spec0 ops (snd (run E0 c st0 ops)) 0).
(** the same history must lie inside the domain of the theorem *)
Fixpoint wf_run (s : spec) (ops : list op) (outs : list out) : bool :=
  match ops, outs with
  | o :: t, x :: t' => wf_op_b s o && wf_run (fst (spec_step E0 s o x)) t t'
  | _, _ => true
  end.
Definition wf_model (c : cfg) (ops : list op) : bool := wf_run spec0 ops (snd (run E0 c st0 ops)).

Definition ka : bytes := [97].
Definition kab : bytes := [97; 98].
Definition v1 : val := Some [118; 49].
Definition v2 : val := Some [118; 50].
Definition w1 : val := Some [119; 49].

(** ** C13: Query *)
Definition h_query : list op :=
  [SetSt 0 ka v1; SetSt 0 kab w1; Flush; Commit 1; SetSt 0 ka v2; SetSt 0 kab None; Query 0 ka].

Lemma query_dupkey_refuted : wf_model only_dupkey h_query = true /\ pb_model false only_dupkey h_query = Some 6.
Proof. split; vm_compute; reflexivity. Qed.
(** a deleted key contributes a nil entry: visible in the strict reading (no empty value in a query) *)
Lemma query_nil_refuted : wf_model only_qnil h_query = true /\ pb_model true only_qnil h_query = Some 6.
Proof. split; vm_compute; reflexivity. Qed.
(** the pinned tree returned ["", "v1", "v2", "w1"] where the live set is ["v2"] *)
Lemma query_pinned_output :
  nth 6 (snd (run E0 cfg_pinned st0 h_query)) ONone = OQuery true [None; v1; v2; w1].
Proof. vm_compute. reflexivity. Qed.
Lemma query_fixed_ok : pb_model true cfg_fixed h_query = None.
Proof. vm_compute. reflexivity. Qed.

(** a value flushed but not yet committed is invisible to Query when the cache is skipped *)
Definition h_query_cache : list op := [SetSt 0 ka v1; Flush; Query 0 ka; Commit 1; Query 0 ka].
Lemma query_cache_refuted : pb_model false only_qcache h_query_cache = Some 2.
Proof. vm_compute. reflexivity. Qed.
Lemma query_cache_fixed : pb_model true cfg_fixed h_query_cache = None.
Proof. vm_compute. reflexivity. Qed.
Lemma query_cache_fixed_model :
  nth 2 (snd (run E0 cfg_fixed st0 h_query_cache)) ONone = OQuery true [v1].
Proof. vm_compute. reflexivity. Qed.

(** ** C12 / C10 / C13: AddState without the origin *)
Definition h_addstate_rb : list op :=
  [SetSt 0 ka v1; Flush; Commit 1; AddSt 0 ka v2; Flush; Commit 2; Rollback 1; GetSt 0 ka].
Lemma addstate_rollback_refuted :
  wf_model only_addstate h_addstate_rb = true /\ pb_model false only_addstate h_addstate_rb = Some 7.
Proof. split; vm_compute; reflexivity. Qed.
Lemma addstate_rollback_fixed : pb_model true cfg_fixed h_addstate_rb = None.
Proof. vm_compute. reflexivity. Qed.

(** AddState(k, nil) on an unread existing key: cached, never committed, back after a reopen *)
Definition h_addstate_nil : list op :=
  [SetSt 0 ka v1; Flush; Commit 1; AddSt 0 ka None; SetSt 0 kab w1; Flush; Commit 2; Reopen; GetSt 0 ka].
Lemma addstate_nil_refuted :
  wf_model only_addstate h_addstate_nil = true /\ pb_model false only_addstate h_addstate_nil = Some 8.
Proof. split; vm_compute; reflexivity. Qed.
Lemma addstate_nil_fixed : pb_model true cfg_fixed h_addstate_nil = None.
Proof. vm_compute. reflexivity. Qed.

(** the root depends on whether the key was read before it was written with AddState:
    same previous root, same change set, different roots *)
Definition flush_recs (c : cfg) (hs : list (list op)) : list flushrec :=
  flat_map (fun ops => sp_flushes (snd (spec_agree false E0 spec0 ops (snd (run E0 c st0 ops)) 0))) hs.
Definition h_root_a : list op := [SetSt 0 ka v1; Flush; Commit 1; AddSt 0 ka v1; SetSt 0 kab w1; Flush; Commit 2].
Definition h_root_b : list op :=
  [SetSt 0 ka v1; Flush; Commit 1; GetSt 0 ka; AddSt 0 ka v1; SetSt 0 kab w1; Flush; Commit 2].
Lemma addstate_root_refuted : roots_check (flush_recs only_addstate [h_root_a; h_root_b]) = 1.
Proof. vm_compute. reflexivity. Qed.
Lemma addstate_root_fixed : roots_check (flush_recs cfg_fixed [h_root_a; h_root_b]) = 0.
Proof. vm_compute. reflexivity. Qed.

(** ** C13: revert after a Finalise in the same block (orphaned changer) *)
Definition h_orphan : list op :=
  [SetSt 0 ka v1; SetBal 0 5; Finalise; Snap; SetSt 0 ka v2; SetBal 0 7; Revert 0; GetSt 0 ka; GetBal 0].
Lemma orphan_changer_refuted :
  wf_model only_orphan h_orphan = true /\ pb_model false only_orphan h_orphan = Some 7.
Proof. split; vm_compute; reflexivity. Qed.
Lemma orphan_changer_fixed : pb_model true cfg_fixed h_orphan = None.
Proof. vm_compute. reflexivity. Qed.

(** ** C12: rollback to the current height keeps uncommitted writes *)
Definition h_rbhead : list op := [SetSt 0 ka v1; Flush; Commit 1; SetSt 0 ka v2; Rollback 1; GetSt 0 ka].
Lemma rbhead_refuted : wf_model only_rbhead h_rbhead = true /\ pb_model false only_rbhead h_rbhead = Some 5.
Proof. split; vm_compute; reflexivity. Qed.
Lemma rbhead_fixed : pb_model true cfg_fixed h_rbhead = None.
Proof. vm_compute. reflexivity. Qed.

(** ** open findings: behaviour kept in the model (no flag), shown on the repaired configuration *)

(** C10: the root depends on account writes that change nothing (a dirty copy of the account
    record exists): same previous root and same change set, different roots *)
Definition h_touch_a : list op := [SetBal 0 5; Flush; Commit 1; SetSt 0 ka v1; Flush; Commit 2].
Definition h_touch_b : list op := [SetBal 0 5; Flush; Commit 1; SetBal 0 5; SetSt 0 ka v1; Flush; Commit 2].
Lemma root_touched_refuted : roots_check (flush_recs cfg_fixed [h_touch_a; h_touch_b]) = 3.
Proof. vm_compute. reflexivity. Qed.

(** C10: key and value are concatenated without length prefixes: deleting the empty key contributes
    no byte (a block with and without that deletion has the same root), and different change sets
    with the same concatenation share a root (delete "ab" vs set "a" = "b") *)
Definition kb : bytes := [98].
Definition h_kv_base : list op := [SetSt 0 [] (Some [120]); SetSt 0 ka v1; Flush; Commit 1].
Definition h_kv_a : list op := h_kv_base ++ [SetSt 0 ka v2; Flush; Commit 2].
Definition h_kv_b : list op := h_kv_base ++ [SetSt 0 ka v2; SetSt 0 [] None; Flush; Commit 2].
Definition h_kv_base2 : list op := [SetSt 0 kab (Some [120]); SetSt 0 ka (Some [121]); Flush; Commit 1].
Definition h_kv_c : list op := h_kv_base2 ++ [SetSt 0 kab None; Flush; Commit 2].
Definition h_kv_d : list op := h_kv_base2 ++ [SetSt 0 ka (Some kb); Flush; Commit 2].
Lemma kv_concat_refuted :
  roots_check (flush_recs cfg_fixed [h_kv_a; h_kv_b]) = 4 /\ roots_check (flush_recs cfg_fixed [h_kv_c; h_kv_d]) = 4.
Proof. split; vm_compute; reflexivity. Qed.

(** C10 non-vacuity: the same change set written in two orders, once straight and once after a
    reopen with prior reads *)
Definition h_perm_base : list op := [SetSt 0 ka v1; SetBal 1 5; Flush; Commit 1].
Definition h_perm_a : list op := h_perm_base ++ [SetSt 0 ka v2; SetSt 1 kab w1; SetBal 1 7; SetSt 0 kab v1].
Definition h_perm_b : list op :=
  h_perm_base ++ [Reopen; GetSt 0 ka; GetBal 1; SetSt 0 kab v1; SetBal 1 7; SetSt 0 ka w1; SetSt 1 kab w1; SetSt 0 ka v2].
Lemma perm_canon_example :
  canon E0 (fst (run E0 cfg_fixed st0 h_perm_a)) = canon E0 (fst (run E0 cfg_fixed st0 h_perm_b)) /\
  List.length (canon E0 (fst (run E0 cfg_fixed st0 h_perm_a))) = 2%nat.
Proof. split; vm_compute; reflexivity. Qed.

(** C13: SetCode(nil) on an account that has code: GetCode keeps returning the old code in the
    block, nil from the cache afterwards, the old code again after a reopen *)
Definition c1 : val := Some [99; 49].
Definition h_setcode_nil : list op :=
  [SetCode 0 c1; Flush; Commit 1; SetCode 0 None; GetCode 0; Flush; Commit 2; GetCode 0; Reopen; GetCode 0].
Lemma setcode_nil_refuted :
  map (fun i => nth i (snd (run E0 only_setcodenil st0 h_setcode_nil)) ONone) [4; 7; 9]%nat =
  [OS (SVal c1); OS (SVal None); OS (SVal c1)] /\
  pb_model false only_setcodenil h_setcode_nil = Some 4.
Proof. split; vm_compute; reflexivity. Qed.
Lemma setcode_nil_fixed :
  map (fun i => nth i (snd (run E0 cfg_fixed st0 h_setcode_nil)) ONone) [4; 7; 9]%nat =
  [OS (SVal (Some [])); OS (SVal (Some [])); OS (SVal (Some []))] /\
  wf_model cfg_fixed h_setcode_nil = true /\ pb_model true cfg_fixed h_setcode_nil = None.
Proof. split; [| split]; vm_compute; reflexivity. Qed.

(** C13: GetCommittedState returns the zero hash for every non-nil committed value *)
Definition h_getcommitted : list op := [SetSt 0 ka v1; SetBal 0 5; Flush; Commit 1; GetCommitted 0 ka].
Lemma getcommitted_refuted : pb_model false only_getcommitted h_getcommitted = Some 4.
Proof. vm_compute. reflexivity. Qed.
Lemma getcommitted_fixed :
  nth 4 (snd (run E0 cfg_fixed st0 h_getcommitted)) ONone = OS (SVal v1) /\
  wf_model cfg_fixed h_getcommitted = true /\ pb_model true cfg_fixed h_getcommitted = None.
Proof. split; [| split]; vm_compute; reflexivity. Qed.

(** C13 (strict reading): the existence flag of a key whose last written value is empty depends
    on the layer that answers.  Written in-block: exists; after the commit: does not exist. *)
Definition h_empty : list op := [SetSt 0 ka (Some []); GetSt 0 ka; Flush; Commit 1; GetSt 0 ka].
Lemma empty_exists_refuted :
  pb_model false cfg_fixed h_empty = None /\ pb_model true cfg_fixed h_empty = Some 1 /\
  map (fun i => nth i (snd (run E0 cfg_fixed st0 h_empty)) ONone) [1; 4]%nat =
  [OS (SGet true (Some [])); OS (SGet false None)].
Proof. split; [| split]; vm_compute; reflexivity. Qed.

(** ** non-vacuity: a history with creations, overwrites, deletions, nested snapshots, a code
    change, eviction, reopen and rollbacks, inside the theorem's domain, on which the repaired
    model agrees with the specification (strict reading included) *)
Definition h_example : list op :=
  [Snap; SetSt 0 ka v1; SetSt 0 kab w1; SetBal 0 100; SetNonce 0 1; Snap; SetSt 0 ka v2; SetBal 1 7; Revert 1;
   GetSt 0 ka; GetBal 1; Finalise; Flush; Commit 1;
   Snap; SetSt 0 ka v2; SetSt 0 kab None; SetCode 1 c1; AddSt 2 ka w1; Query 0 ka; Finalise; Flush; Commit 2;
   Evict 0 1 []; Evict 0 0 []; GetSt 0 ka; GetSt 0 kab; GetCode 1; Reopen; GetSt 0 ka; GetBal 0;
   Snap; SetSt 0 ka None; SetSt 0 kab v1; Revert 0; Finalise; Flush; Commit 3;
   Dump [0; 1; 2] [ka; kab]; Rollback 1; Dump [0; 1; 2] [ka; kab]; GetSt 0 kab; Rollback 5; Rollback 0;
   Dump [0; 1; 2] [ka; kab]].
Lemma example_in_domain : wf_model cfg_fixed h_example = true.
Proof. vm_compute. reflexivity. Qed.
Lemma example_agrees : pb_model true cfg_fixed h_example = None.
Proof. vm_compute. reflexivity. Qed.
Lemma example_rollback_outputs :
  map (fun i => nth i (snd (run E0 cfg_fixed st0 h_example)) ONone) [39; 42; 43]%nat =
  [ORes R_ok; ORes R_higher; ORes R_ok].
Proof. vm_compute. reflexivity. Qed.
(** re-executing the same blocks after a rollback reproduces the same roots *)
Definition h_reexec : list op :=
  [SetSt 0 ka v1; Flush; Commit 1; SetSt 0 ka v2; SetBal 1 7; Flush; Commit 2; SetSt 1 kab w1; Flush; Commit 3;
   Rollback 1; SetSt 0 ka v2; SetBal 1 7; Flush; Commit 2; SetSt 1 kab w1; Flush; Commit 3].
Lemma reexec_same_roots :
  let outs := snd (run E0 cfg_fixed st0 h_reexec) in
  nth 5 outs ONone = nth 13 outs ONone /\ nth 8 outs ONone = nth 16 outs ONone /\
  roots_check (flush_recs cfg_fixed [h_reexec]) = 0.
Proof. cbv zeta. split; [| split]; vm_compute; reflexivity. Qed.
