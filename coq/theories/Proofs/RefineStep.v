(** One step of the repaired model simulates one step of the specification: in-block operations. *)
From BX Require Import Base.Prelude Model.JsonAcct Model.Merkle Model.StateLedger Model.LedgerSpec
  Proofs.LedgerLemmas Proofs.RefineBase Proofs.RefineBlock Proofs.RefineUndo Proofs.RefineSim.
From Coq Require Import Sorting.Sorted.
Local Open Scope N_scope.

Section Steps.
Variable e : env.

(** what a step must establish *)
Definition step_ok (m : st) (s : spec) (o : op) : Prop :=
  let '(m', x) := step e cfg_fixed m o in
  let '(s', ex) := spec_step e s o x in
  Sim e m' s' /\ sexp_match false ex x = true.

(** * generic transfer lemmas *)
Lemma Sim_same_views m m' s ext :
  Sim e m s -> same_views m m' -> pushed e m m' ext -> Sim e m' s.
Proof.
  intros [I C Mc Mf Sn Nu] SV P. destruct SV as [V1 V2 V3 V4 V5 Vc V6]. decompose [and] V6.
  constructor.
  - exact V1.
  - apply (Coh_frame m); assumption.
  - destruct Mc as [M1 [M2 M3]].
    split; [intros a k; rewrite V4; apply M1 | split; [intros a; rewrite V5; apply M2 | intros a; rewrite Vc; apply M3]].
  - apply (fl_matches_frame m); assumption.
  - apply (snap_ok_pushed e m m' s ext); [exact Sn | exact P].
  - apply (nums_frame m); assumption.
Qed.

Lemma snap_ok_set_cur m s c : snap_ok e m s -> snap_ok e m (sp_set_cur s c).
Proof. intros [S1 S2 S3 S4]. constructor; assumption. Qed.
Lemma snap_ok_touch m s a : snap_ok e m s -> snap_ok e m (sp_touch s a).
Proof. intros [S1 S2 S3 S4]. constructor; assumption. Qed.
Lemma nums_set_cur m s c : nums m s -> nums m (sp_set_cur s c).
Proof. intro Nu. apply (nums_transfer m m s); try reflexivity; try assumption. apply Nu. Qed.
Lemma nums_touch m s a : nums m s -> nums m (sp_touch s a).
Proof. intro Nu. apply (nums_transfer m m s); try reflexivity; try assumption. apply Nu. Qed.

Lemma Sim_wrote_st m m' s a k b ext :
  Sim e m s -> wrote_st m m' a k b -> pushed e m m' ext ->
  Sim e m' (sp_set_cur s (sm_st_set (sp_cur s) a k b)).
Proof.
  intros [I C Mc Mf Sn Nu] W P. destruct W as [W1 W2 W3 W4 W5 Wc W6]. decompose [and] W6.
  constructor.
  - exact W1.
  - apply (Coh_frame m); assumption.
  - destruct Mc as [M1 [M2 M3]]. split; [| split].
    + intros a' k'. cbn [sp_cur sp_set_cur]. rewrite W4, sm_st_get_set.
      destruct ((a' =? a) && bytes_eqb k' k); [reflexivity | apply M1].
    + intros a'. cbn [sp_cur sp_set_cur]. rewrite W5, sm_acct_get_st_set. apply M2.
    + intros a'. cbn [sp_cur sp_set_cur]. rewrite Wc, sm_acct_get_st_set. apply M3.
  - apply (fl_matches_frame m); assumption.
  - apply snap_ok_set_cur. apply (snap_ok_pushed e m m' s ext); [exact Sn | exact P].
  - apply nums_set_cur. apply (nums_frame m); assumption.
Qed.

Lemma Sim_wrote_ac m m' s a x b y ext :
  Sim e m s -> wrote_ac m m' a x b -> pushed e m m' ext -> acct_rel (acct_view (Some x)) y -> sa_code y = b ->
  Sim e m' (sp_touch (sp_set_cur s (sm_acct_set (sp_cur s) a y)) a).
Proof.
  intros [I C Mc Mf Sn Nu] W P Hy Hyc. destruct W as [W1 W2 W3 W4 W5 Wc W6]. decompose [and] W6.
  constructor.
  - exact W1.
  - apply (Coh_frame m); assumption.
  - destruct Mc as [M1 [M2 M3]]. split; [| split].
    + intros a' k'. cbn [sp_cur sp_set_cur sp_touch]. rewrite W4, sm_st_get_acct_set. apply M1.
    + intros a'. cbn [sp_cur sp_set_cur sp_touch]. rewrite W5, sm_acct_get_set.
      destruct (a' =? a); [exact Hy | apply M2].
    + intros a'. cbn [sp_cur sp_set_cur sp_touch]. rewrite Wc, sm_acct_get_set.
      destruct (a' =? a); [symmetry; exact Hyc | apply M3].
  - apply (fl_matches_frame m); assumption.
  - apply snap_ok_touch, snap_ok_set_cur. apply (snap_ok_pushed e m m' s ext); [exact Sn | exact P].
  - apply nums_touch, nums_set_cur. apply (nums_frame m); assumption.
Qed.

(** * reads *)
Lemma got_ok_pushed m a m1 o : Inv m -> got m a m1 o -> got_ok m a m1 o ->
  exists ext0, pushed e m m1 ext0 /\ s_chg m1 = ext0 ++ s_chg m /\ create_ext m a ext0.
Proof.
  intros I G GO. destruct (got_ok_create_ext e m a m1 o GO) as [ext0 [Hc CE]].
  exists ext0. split; [| split; assumption].
  apply (pushed_same_views e m m1 a ext0); try assumption.
  - apply (got_ok_same_views m a m1 o GO).
  - eapply got_objs_mono; exact G.
  - rewrite (go_obj m a m1 o GO). discriminate.
Qed.

Lemma step_getbal m s a : Sim e m s -> step_ok m s (GetBal a).
Proof.
  intro S. unfold step_ok. cbn [step spec_step].
  pose proof (do_getbal_spec m a (sim_inv e m s S)) as D.
  pose proof (get_obj_got m a) as G. unfold do_getbal in *.
  destruct (get_obj m a) as [m1 o]. simpl in D, G. destruct D as [GO Hx].
  destruct (got_ok_pushed m a m1 o (sim_inv e m s S) G GO) as [ext0 [P _]].
  split.
  - apply (Sim_same_views m m1 s ext0 S); [apply (got_ok_same_views m a m1 o GO) | exact P].
  - cbn [sexp_match sx_match]. injection Hx as Hx. rewrite Hx.
    destruct (sim_cur e m s S) as [_ [M2 _]]. destruct (M2 a) as [_ Hb]. rewrite Hb. apply Z.eqb_refl.
Qed.

Lemma step_getnonce m s a : Sim e m s -> step_ok m s (GetNonce a).
Proof.
  intro S. unfold step_ok. cbn [step spec_step].
  pose proof (do_getnonce_spec m a (sim_inv e m s S)) as D.
  pose proof (get_obj_got m a) as G. unfold do_getnonce in *.
  destruct (get_obj m a) as [m1 o]. simpl in D, G. destruct D as [GO Hx].
  destruct (got_ok_pushed m a m1 o (sim_inv e m s S) G GO) as [ext0 [P _]].
  split.
  - apply (Sim_same_views m m1 s ext0 S); [apply (got_ok_same_views m a m1 o GO) | exact P].
  - cbn [sexp_match sx_match]. injection Hx as Hx. rewrite Hx.
    destruct (sim_cur e m s S) as [_ [M2 _]]. destruct (M2 a) as [Hn _]. rewrite Hn. apply N.eqb_refl.
Qed.

Lemma step_getcode m s a : Sim e m s -> step_ok m s (GetCode a).
Proof.
  intro S. unfold step_ok. cbn [step spec_step].
  pose proof (do_getcode_spec m a (sim_inv e m s S)) as D.
  pose proof (do_getcode_mono m a) as Mo.
  destruct (do_getcode m a) as [m2 x]. cbn [fst] in Mo.
  destruct D as [m1 [o [c [GO [SV [Hc [Hx [Hcv Hp]]]]]]]].
  destruct (got_ok_create_ext e m a m1 o GO) as [ext0 [Hc1 CE]].
  assert (SV2 : same_views m m2) by (eapply same_views_trans; [apply (got_ok_same_views m a m1 o GO) | exact SV]).
  split.
  - apply (Sim_same_views m m2 s ext0 S SV2).
    apply (pushed_same_views e m m2 a ext0); try assumption; try (apply S). congruence.
  - subst x. cbn [sexp_match sx_match].
    destruct (sim_cur e m s S) as [_ [_ M3]]. rewrite Hcv, M3. apply bytes_eqb_refl.
Qed.

Lemma step_getst m s a k : Sim e m s -> step_ok m s (GetSt a k).
Proof.
  intro S. unfold step_ok. cbn [step spec_step].
  pose proof (do_getst_spec m a k (sim_inv e m s S)) as D.
  pose proof (do_getst_mono m a k) as Mo.
  destruct (do_getst m a k) as [m2 x]. cbn [fst] in Mo.
  destruct D as [m1 [o [v [GO [SV [Hc [Hx [Hv Hp]]]]]]]].
  destruct (got_ok_create_ext e m a m1 o GO) as [ext0 [Hc1 CE]].
  assert (SV2 : same_views m m2) by (eapply same_views_trans; [apply (got_ok_same_views m a m1 o GO) | exact SV]).
  split.
  - apply (Sim_same_views m m2 s ext0 S SV2).
    apply (pushed_same_views e m m2 a ext0); try assumption; try (apply S). congruence.
  - subst x. cbn [sexp_match sx_match negb orb andb]. rewrite Hv.
    destruct (sim_cur e m s S) as [M1 _]. rewrite M1, bytes_eqb_refl. reflexivity.
Qed.

(** GetCommittedState: the value as of the block start, the zero hash (or nothing) when there is none *)
Lemma step_getcommitted m s a k : Sim e m s -> step_ok m s (GetCommitted a k).
Proof.
  intro S. unfold step_ok. cbn [step spec_step].
  pose proof (do_getcommitted_spec m a k (sim_inv e m s S)) as D.
  pose proof (do_getcommitted_mono m a k) as Mo.
  destruct (do_getcommitted cfg_fixed m a k) as [m2 x]. cbn [fst] in Mo.
  destruct D as [m1 [o [v [GO [SV [Hc [Hx [Hv Hp]]]]]]]].
  destruct (got_ok_create_ext e m a m1 o GO) as [ext0 [Hc1 CE]].
  assert (SV2 : same_views m m2) by (eapply same_views_trans; [apply (got_ok_same_views m a m1 o GO) | exact SV]).
  split.
  - apply (Sim_same_views m m2 s ext0 S SV2).
    apply (pushed_same_views e m m2 a ext0); try assumption; try (apply S). congruence.
  - subst x. cbn [sexp_match sx_match].
    destruct (sim_fl e m s S) as [F1 _]. rewrite <- F1, <- Hv.
    unfold committed_out. destruct v as [b|]; cbn [is_nil nb].
    + destruct (nonempty b) eqn:En; [apply bytes_eqb_refl|].
      unfold nonempty in En. apply negb_false_iff in En. rewrite En. reflexivity.
    + reflexivity.
Qed.

Lemma step_setst m s a k v : Sim e m s -> step_ok m s (SetSt a k v).
Proof.
  intro S. unfold step_ok. cbn [step spec_step].
  pose proof (do_setst_spec m a k v (sim_inv e m s S)) as D. cbv zeta in D.
  pose proof (do_setst_mono m a k v) as Mo.
  destruct D as [W [prev [m1 [o [GO [Hprev [Hc Ho']]]]]]].
  destruct (got_ok_create_ext e m a m1 o GO) as [ext0 [Hc1 CE]].
  split; [| reflexivity].
  apply (Sim_wrote_st m _ s a k (nb v) (ChState a k prev :: ext0) S W).
  apply (pushed_write_st e m _ a k (nb v) prev ext0); try assumption; try (apply S).
  rewrite Hc, Hc1. reflexivity.
Qed.

Lemma step_setbal m s a z : Sim e m s -> step_ok m s (SetBal a z).
Proof.
  intro S. unfold step_ok. cbn [step spec_step].
  pose proof (do_setbal_spec m a z (sim_inv e m s S)) as D. cbv zeta in D.
  pose proof (do_setbal_mono m a z) as Mo.
  destruct D as [W [m1 [o [GO [Hc Hp]]]]].
  destruct (got_ok_create_ext e m a m1 o GO) as [ext0 [Hc1 CE]].
  split; [| reflexivity].
  destruct (sim_cur e m s S) as [_ [M2 M3]]. destruct (M2 a) as [Hn Hb].
  apply (Sim_wrote_ac m _ s a (with_bal (cur_oacct m a) z) (cur_code m a) _ (ChBal a (snd (fst (acct_view (cur_oacct m a)))) :: ext0) S W).
  - apply (pushed_write_ac e m _ a (with_bal (cur_oacct m a) z) (cur_code m a) _ ext0); try assumption; try (apply S).
    + rewrite Hc, Hc1. reflexivity.
    + left. split; [reflexivity|]. unfold with_bal. destruct (cur_oacct m a); split; reflexivity.
  - unfold acct_rel, with_bal. cbn [acct_view fst snd sa_nonce sa_bal sa_code].
    split; [| reflexivity].
    rewrite <- Hn. destruct (cur_oacct m a); reflexivity.
  - cbn [sa_code]. symmetry. apply M3.
Qed.

Lemma step_setcode m s a c : Sim e m s -> step_ok m s (SetCode a c).
Proof.
  intros S. unfold step_ok. cbn [step spec_step].
  pose proof (do_setcode_spec m a c (sim_inv e m s S)) as D. cbv zeta in D.
  pose proof (do_setcode_mono m a c) as Mo.
  destruct D as [prev [m1 [o [GO [W [Hc [Hprev [Hnone Hp]]]]]]]].
  destruct (got_ok_create_ext e m a m1 o GO) as [ext0 [Hc1 CE]].
  split; [| reflexivity].
  destruct (sim_cur e m s S) as [_ [M2 M3]]. destruct (M2 a) as [Hn Hb].
  apply (Sim_wrote_ac m _ s a (with_ch (cur_oacct m a) (e_kec e (nb c))) (nb c) _ (ChCode a prev :: ext0) S W).
  - apply (pushed_write_ac e m _ a (with_ch (cur_oacct m a) (e_kec e (nb c))) (nb c) _ ext0); try assumption; try (apply S).
    + rewrite Hc, Hc1. reflexivity.
    + right. right. exists prev. split; [reflexivity|]. split; [| split; assumption].
      unfold with_ch. destruct (cur_oacct m a); reflexivity.
  - unfold acct_rel, with_ch. cbn [acct_view fst snd sa_nonce sa_bal sa_code].
    split; [rewrite <- Hn | rewrite <- Hb]; destruct (cur_oacct m a); reflexivity.
  - reflexivity.
Qed.

(** AddBalance = GetOrCreateAccount, then SetBalance(current + amount) unless the amount is zero *)
Lemma step_addbal m s a z : Sim e m s -> step_ok m s (AddBal a z).
Proof.
  intro S. unfold step_ok. cbn [step spec_step]. unfold do_addbal.
  pose proof (step_getbal m s a S) as SG. unfold step_ok in SG. cbn [step spec_step] in SG.
  pose proof (do_getbal_spec m a (sim_inv e m s S)) as DG.
  unfold do_getbal in SG, DG. destruct (get_obj m a) as [m1 o]. cbn [fst snd] in *.
  destruct SG as [S1 _]. destruct DG as [GO Hx]. injection Hx as Hx.
  destruct (z =? 0)%Z eqn:Ez; [split; [exact S1 | reflexivity]|].
  pose proof (step_setbal m1 s a (obj_bal o + z)%Z S1) as SB. unfold step_ok in SB. cbn [step spec_step] in SB.
  destruct SB as [S2 _]. split; [| reflexivity].
  assert (Hb : obj_bal o = sa_bal (sm_acct_get (sp_cur s) a)).
  { rewrite Hx. destruct (sim_cur e m s S) as [_ [M2 _]]. destruct (M2 a) as [_ Hb]. exact Hb. }
  rewrite <- Hb. exact S2.
Qed.

Lemma step_setnonce m s a n : Sim e m s -> step_ok m s (SetNonce a n).
Proof.
  intro S. unfold step_ok. cbn [step spec_step].
  pose proof (do_setnonce_spec m a n (sim_inv e m s S)) as D. cbv zeta in D.
  pose proof (do_setnonce_mono m a n) as Mo.
  destruct D as [W [m1 [o [GO [Hc Hp]]]]].
  destruct (got_ok_create_ext e m a m1 o GO) as [ext0 [Hc1 CE]].
  split; [| reflexivity].
  destruct (sim_cur e m s S) as [_ [M2 M3]]. destruct (M2 a) as [Hn Hb].
  apply (Sim_wrote_ac m _ s a (with_nonce (cur_oacct m a) n) (cur_code m a) _ (ChNonce a (fst (fst (acct_view (cur_oacct m a)))) :: ext0) S W).
  - apply (pushed_write_ac e m _ a (with_nonce (cur_oacct m a) n) (cur_code m a) _ ext0); try assumption; try (apply S).
    + rewrite Hc, Hc1. reflexivity.
    + right. left. split; [reflexivity|]. unfold with_nonce. destruct (cur_oacct m a); split; reflexivity.
  - unfold acct_rel, with_nonce. cbn [acct_view fst snd sa_nonce sa_bal sa_code].
    split; [reflexivity |].
    rewrite <- Hb. destruct (cur_oacct m a); reflexivity.
  - cbn [sa_code]. symmetry. apply M3.
Qed.

(** * AddState: no undo entry; every snapshot taken before it loses its claim *)
Lemma alookup_taint (l : list (N * (smap * bool))) id S t :
  alookup N.eqb id (taint l) = Some (S, t) -> t = true.
Proof.
  induction l as [|[i [S' t']] r IH]; simpl; [discriminate|].
  destruct (id =? i); [intro H; inversion H; reflexivity | exact IH].
Qed.
Lemma taint_ids (l : list (N * (smap * bool))) : map fst (taint l) = map fst l.
Proof. unfold taint. rewrite map_map. reflexivity. Qed.

Lemma snap_ok_taint m m' s :
  snap_ok e m s -> s_revs m' = s_revs m -> s_next m' = s_next m ->
  (List.length (s_chg m) <= List.length (s_chg m'))%nat ->
  forall s', sp_snaps s' = taint (sp_snaps s) -> snap_ok e m' s'.
Proof.
  intros [S1 S2 S3 S4] Hr Hn Hl s' Hs. constructor.
  - rewrite Hs, taint_ids, Hr. exact S1.
  - intros id len Hin. rewrite Hr in Hin. destruct (S2 id len Hin). rewrite Hn. split; [assumption | lia].
  - rewrite Hr. exact S3.
  - intros id len S Ha Hb. rewrite Hs in Hb. apply alookup_taint in Hb. discriminate.
Qed.

Lemma step_addst m s a k v : Sim e m s -> step_ok m s (AddSt a k v).
Proof.
  intro S. unfold step_ok. cbn [step spec_step].
  pose proof (do_addst_spec m a k v (sim_inv e m s S)) as D. cbv zeta in D.
  destruct D as [W [m1 [o [GO Hc]]]].
  destruct (got_ok_create_ext e m a m1 o GO) as [ext0 [Hc1 CE]].
  split; [| reflexivity].
  destruct S as [I C Mc Mf Sn Nu]. destruct W as [W1 W2 W3 W4 W5 Wc W6]. decompose [and] W6.
  constructor.
  - exact W1.
  - apply (Coh_frame m); assumption.
  - destruct Mc as [M1 [M2 M3]]. split; [| split].
    + intros a' k'. cbn [sp_cur sp_set_cur sp_set_snaps]. rewrite W4, sm_st_get_set.
      destruct ((a' =? a) && bytes_eqb k' k); [reflexivity | apply M1].
    + intros a'. cbn [sp_cur sp_set_cur sp_set_snaps]. rewrite W5, sm_acct_get_st_set. apply M2.
    + intros a'. cbn [sp_cur sp_set_cur sp_set_snaps]. rewrite Wc, sm_acct_get_st_set. apply M3.
  - apply (fl_matches_frame m); assumption.
  - apply (snap_ok_taint m _ s Sn); try assumption; [| reflexivity].
    rewrite Hc, Hc1, app_length. lia.
  - apply (nums_transfer m _ s); try assumption; try reflexivity.
    cbn [sp_next sp_set_snaps sp_set_cur]. rewrite <- (nu_next m s Nu). assumption.
Qed.

(** * Version, DbDump: no effect *)
Lemma step_version m s : Sim e m s -> step_ok m s Version.
Proof.
  intro S. unfold step_ok. cbn [step spec_step]. split; [exact S|].
  cbn [sexp_match sx_match]. rewrite (nu_max m s (sim_num e m s S)). apply N.eqb_refl.
Qed.
Lemma step_dbdump m s : Sim e m s -> step_ok m s DbDump.
Proof. intro S. unfold step_ok. cbn [step spec_step]. split; [exact S | reflexivity]. Qed.

(** * Clear *)
Lemma Inv_clear m : Inv m -> Inv (set_objs m []).
Proof.
  intros [J1 J2 J3 J4 J5]. constructor; [constructor | intros a o H; discriminate | exact J3 | exact J4 | exact J5].
Qed.

Lemma cur_st_no_objs m a k : cur_st (set_objs m []) a k = fl_st m a k.
Proof. reflexivity. Qed.
Lemma cur_oacct_no_objs m a : cur_oacct (set_objs m []) a = fl_acct m a.
Proof. reflexivity. Qed.

Lemma Sim_clear m s : Sim e m s -> Sim e (set_objs m []) (sp_clear s).
Proof.
  intros [I C Mc Mf Sn Nu]. constructor.
  - apply Inv_clear. exact I.
  - apply (Coh_frame m); try reflexivity. exact C.
  - destruct Mf as [F1 [F2 F3]].
    split; [intros a k; rewrite cur_st_no_objs; apply F1 | split; [intros a; rewrite cur_oacct_no_objs; apply F2|]].
    intros a. change (cur_code (set_objs m []) a) with (nb (load_code m a)). rewrite (load_code_cached m a I). apply F3.
  - apply (fl_matches_frame m); try reflexivity. exact Mf.
  - apply (snap_ok_taint m _ s Sn); try reflexivity; simpl; lia.
  - apply (nums_transfer m _ s); try reflexivity; try assumption. apply Nu.
Qed.

Lemma step_clear m s : Sim e m s -> step_ok m s Clear.
Proof. intro S. unfold step_ok. cbn [step spec_step]. split; [apply Sim_clear; exact S | reflexivity]. Qed.

(** * Finalise *)
Lemma step_finalise m s : Sim e m s -> step_ok m s Finalise.
Proof.
  intro S. unfold step_ok. cbn [step spec_step]. split; [| reflexivity].
  destruct S as [I C Mc Mf Sn Nu]. unfold do_finalise.
  set (m1 := match s_chg m with [] => m | _ => _ end).
  assert (F : s_db m1 = s_db m /\ s_cache m1 = s_cache m /\ s_objs m1 = s_objs m /\ s_pend m1 = s_pend m /\
              s_prev m1 = s_prev m /\ s_min m1 = s_min m /\ s_max m1 = s_max m).
  { unfold m1. destruct (s_chg m); repeat split. }
  destruct F as [F1 [F2 [F3 [F4 [F5 [F6 F7]]]]]].
  constructor.
  - apply (Inv_frame m); assumption.
  - apply (Coh_frame m); assumption.
  - destruct Mc as [M1 [M2 M3]]. split; [| split].
    + intros a k. unfold cur_st. cbn [s_objs set_revs]. rewrite F3.
      unfold obj_st, fl_st, cached_state. cbn [s_db s_cache set_revs]. rewrite F1, F2. apply M1.
    + intros a. unfold cur_oacct, fl_acct. cbn [s_objs s_db s_cache set_revs]. rewrite F1, F2, F3. apply M2.
    + intros a. rewrite (cur_code_frame m (set_revs m1 [] 0)); [apply M3 | exact F1 | exact F2 | exact F3].
  - apply (fl_matches_frame m); assumption.
  - constructor; cbn [s_revs s_next set_revs sp_snaps sp_set_snaps].
    + reflexivity.
    + intros id len [].
    + constructor.
    + intros id len S0 H. discriminate.
  - apply (nums_transfer m _ s); try assumption; try reflexivity.
Qed.

(** * Snapshot / RevertToSnapshot *)
Lemma view_eq_frame m m' :
  s_db m' = s_db m -> s_cache m' = s_cache m -> s_chg m' = s_chg m -> s_objs m' = s_objs m -> view_eq m' m.
Proof.
  intros Hd Hc Hg Ho. constructor; try assumption.
  - intros a k. unfold cur_st, obj_st, fl_st, cached_state. rewrite Hd, Hc, Ho. reflexivity.
  - intros a. unfold cur_oacct, fl_acct. rewrite Hd, Hc, Ho. reflexivity.
  - intros a. apply cur_code_frame; assumption.
Qed.

Lemma live_ok_frame m m' l :
  s_db m' = s_db m -> s_cache m' = s_cache m -> s_objs m' = s_objs m -> live_ok m l -> live_ok m' l.
Proof.
  intros Hd Hc Ho. apply live_ok_mono.
  - intro a. apply fl_acct_frame; assumption.
  - intro a. apply cached_code_frame; assumption.
  - intros a o H. exists o. rewrite Ho. split; [exact H | tauto].
Qed.

Lemma sorted_head_bound (l : list (N * nat)) id len id' len' :
  StronglySorted rev_order l -> alookup N.eqb id l = Some len -> In (id', len') l -> id' < id -> (len' <= len)%nat.
Proof.
  induction l as [|[i n] t IH]; simpl; intros Hs Ha Hin Hlt; [discriminate|].
  inversion Hs as [|? ? Hs' Hf]; subst.
  destruct (id =? i) eqn:E.
  - apply N.eqb_eq in E. subst i. inversion Ha; subst n.
    destruct Hin as [Hin | Hin]; [inversion Hin; subst; lia|].
    rewrite Forall_forall in Hf. destruct (Hf _ Hin) as [_ H]. exact H.
  - destruct Hin as [Hin | Hin].
    + inversion Hin; subst i n. apply (alookup_In N.eqb N_eqb_spec) in Ha.
      rewrite Forall_forall in Hf. destruct (Hf _ Ha) as [H _]. simpl in H. lia.
    + apply IH; assumption.
Qed.

Lemma sorted_NoDup (l : list (N * nat)) : StronglySorted rev_order l -> NoDup (map fst l).
Proof.
  induction l as [|[i n] t IH]; simpl; intro Hs; [constructor|].
  inversion Hs as [|? ? Hs' Hf]; subst. constructor; [| apply IH; exact Hs'].
  intro Hin. apply in_map_iff in Hin. destruct Hin as [[i' n'] [E Hin]]. simpl in E. subst i'.
  rewrite Forall_forall in Hf. destruct (Hf _ Hin) as [H _]. simpl in H. lia.
Qed.

Lemma sorted_filter {A} (R : A -> A -> Prop) (p : A -> bool) l : StronglySorted R l -> StronglySorted R (filter p l).
Proof.
  induction l as [|x t IH]; simpl; intro Hs; [constructor|].
  inversion Hs as [|? ? Hs' Hf]; subst. destruct (p x); [| apply IH; exact Hs'].
  constructor; [apply IH; exact Hs'|]. rewrite Forall_forall in *. intros y Hy. apply Hf.
  apply filter_In in Hy. apply Hy.
Qed.

Lemma filter_ids_aligned {A B} (l1 : list (N * A)) (l2 : list (N * B)) id :
  map fst l1 = map fst l2 ->
  map fst (filter (fun x => fst x <? id) l1) = map fst (filter (fun x => fst x <? id) l2).
Proof.
  revert l2. induction l1 as [|[x a] t IH]; intros [|[y b] u] H; simpl in *; try discriminate; [reflexivity|].
  injection H as -> H. destruct (y <? id); simpl; [f_equal|]; apply IH; exact H.
Qed.

Lemma aligned_NoDup {A B} (l1 : list (N * A)) (l2 : list (N * B)) :
  map fst l1 = map fst l2 -> NoDup (map fst l2) -> NoDup (map fst l1).
Proof. intros H. rewrite H. tauto. Qed.

Lemma step_snap m s : Sim e m s -> step_ok m s Snap.
Proof.
  intro S. unfold step_ok. cbn [step spec_step]. unfold do_snap.
  destruct S as [I C Mc Mf Sn Nu]. pose proof (nu_next m s Nu) as Hnext.
  set (m' := set_revs m ((s_next m, List.length (s_chg m)) :: s_revs m) (s_next m + 1)).
  assert (V : view_eq m' m) by (apply view_eq_frame; reflexivity).
  split.
  - constructor.
    + apply (Inv_frame m); try reflexivity. exact I.
    + apply (Coh_frame m); try reflexivity. exact C.
    + eapply matches_view_eq; [exact V | exact Mc].
    + apply (fl_matches_frame m); try reflexivity. exact Mf.
    + subst m'. destruct Sn as [S1 S2 S3 S4]. constructor; cbn [s_revs s_next s_chg set_revs sp_snaps sp_set_snaps map fst].
      * rewrite Hnext, S1. reflexivity.
      * intros id len [Hin | Hin].
        -- inversion Hin; subst. split; [lia | lia].
        -- destruct (S2 id len Hin). split; [lia | assumption].
      * constructor; [exact S3|]. apply Forall_forall. intros [id len] Hin.
        destruct (S2 id len Hin). unfold rev_order. simpl. split; [assumption | assumption].
      * intros id len S0. cbn [alookup]. rewrite <- Hnext. destruct (id =? s_next m) eqn:E.
        -- intros H1 H2. inversion H1; inversion H2; subst. rewrite Nat.sub_diag. cbn [firstn revert_n live_ok].
           split; [exact Logic.I|]. eapply matches_view_eq; [exact V | exact Mc].
        -- intros H1 H2. destruct (S4 id len S0 H1 H2) as [L M]. split.
           ++ apply (live_ok_frame m); try reflexivity. exact L.
           ++ eapply matches_view_eq; [| exact M]. apply revert_n_view_eq. exact V.
    + subst m'. apply (nums_transfer m _ s); try reflexivity; try assumption.
      cbn [s_next set_revs sp_next sp_set_snaps]. rewrite Hnext. reflexivity.
  - cbn [sexp_match sx_match]. rewrite Hnext. apply N.eqb_refl.
Qed.

Lemma wf_thm_nopend s o : sp_pend s = false -> wf_thm_b s o = true -> wf_op_b s o = true /\ thm_op o = true.
Proof.
  intros Hp H. unfold wf_thm_b in H. rewrite Hp in H. rewrite !andb_true_iff in H. tauto.
Qed.

Lemma alookup_filter_lt {A} (l : list (N * A)) id id' :
  NoDup (map fst l) ->
  alookup N.eqb id' (filter (fun x => fst x <? id) l) =
  if id' <? id then alookup N.eqb id' l else None.
Proof.
  intro Hn. rewrite (alookup_filter N.eqb N_eqb_spec (fun x => fst x <? id) id' l Hn).
  destruct (alookup N.eqb id' l) as [v|]; simpl; destruct (id' <? id); reflexivity.
Qed.

Lemma step_revert m s id : Sim e m s -> wf_thm_b s (Revert id) = true -> step_ok m s (Revert id).
Proof.
  intros S Hwf. unfold step_ok. cbn [step spec_step]. unfold do_revert.
  destruct S as [I C Mc Mf Sn Nu].
  destruct (wf_thm_nopend s _ (nu_pend m s Nu) Hwf) as [Hw _].
  unfold wf_op_b in Hw. rewrite (nu_pend m s Nu) in Hw. cbn [andb] in Hw.
  pose proof Sn as [S1 S2 S3 S4].
  destruct (alookup N.eqb id (s_revs m)) as [len|] eqn:Er.
  2:{ assert (Es : alookup N.eqb id (sp_snaps s) = None) by (apply (alookup_aligned _ _ id S1); exact Er).
      rewrite Es. split; [constructor; assumption | reflexivity]. }
  destruct (alookup N.eqb id (sp_snaps s)) as [[saved t]|] eqn:Es.
  2:{ apply (alookup_aligned _ _ id S1) in Es. congruence. }
  assert (t = false) by (destruct t; [discriminate | reflexivity]). subst t.
  assert (Hin : In (id, len) (s_revs m)) by (apply (alookup_In N.eqb N_eqb_spec); exact Er).
  destruct (S2 id len Hin) as [Hid Hlen].
  destruct (S4 id len saved Er Es) as [L M].
  set (n := (List.length (s_chg m) - len)%nat) in *.
  assert (Hn : (n <= List.length (s_chg m))%nat) by (unfold n; lia).
  assert (L0 : live_ok m (firstn (n + 0) (s_chg m))) by (rewrite Nat.add_0_r; exact L).
  destruct (revert_n_ok e n 0 m I Hn L0) as [I1 [_ [D1 [C1 [G1 [B1 [R1 [R2 [R3 [R4 [R5 [R6 R7]]]]]]]]]]]].
  set (m1 := revert_n e n m) in *.
  rewrite B1. replace (s_bad m && negb (s_bad m)) with false by (destruct (s_bad m); reflexivity).
  set (m' := set_revs m1 (filter (fun r : N * nat => fst r <? id) (s_revs m1)) (s_next m1)).
  assert (V : view_eq m' m1) by (apply view_eq_frame; reflexivity).
  assert (Hlen' : List.length (s_chg m1) = len).
  { rewrite G1, skipn_length. unfold n. lia. }
  assert (Nd : NoDup (map fst (s_revs m))) by (apply sorted_NoDup; exact S3).
  split; [| reflexivity].
  constructor.
  - apply (Inv_frame m1); try reflexivity. exact I1.
  - apply (Coh_frame m); assumption.
  - cbn [sp_cur sp_set_cur sp_set_snaps]. eapply matches_view_eq; [exact V | exact M].
  - cbn [sp_fl sp_set_cur sp_set_snaps]. apply (fl_matches_frame m); assumption.
  - subst m'. constructor; cbn [s_revs s_next s_chg set_revs sp_snaps sp_set_snaps sp_set_cur].
    + rewrite R1. apply filter_ids_aligned. exact S1.
    + intros id' len' Hin'. rewrite R1 in Hin'. apply filter_In in Hin'. destruct Hin' as [Hin' Hlt]. simpl in Hlt.
      apply N.ltb_lt in Hlt. destruct (S2 id' len' Hin') as [H1 _]. rewrite R2. split; [exact H1|].
      rewrite Hlen'. eapply sorted_head_bound; eassumption.
    + rewrite R1. apply sorted_filter. exact S3.
    + intros id' len' S' Ha Hb. rewrite R1 in Ha.
      rewrite (alookup_filter_lt _ id id' Nd) in Ha.
      rewrite (alookup_filter_lt _ id id' (aligned_NoDup _ _ S1 Nd)) in Hb.
      destruct (id' <? id) eqn:Elt; [| discriminate]. apply N.ltb_lt in Elt.
      destruct (S4 id' len' S' Ha Hb) as [L' M'].
      assert (Hle : (len' <= len)%nat).
      { eapply sorted_head_bound; try eassumption. apply (alookup_In N.eqb N_eqb_spec). exact Ha. }
      rewrite Hlen'.
      assert (Hsum : (n + (len - len') = List.length (s_chg m) - len')%nat) by (unfold n; lia).
      assert (Lj : live_ok m (firstn (n + (len - len')) (s_chg m))) by (rewrite Hsum; exact L').
      destruct (revert_n_ok e n (len - len') m I Hn Lj) as [_ [Lm1 _]]. fold m1 in Lm1.
      split.
      * apply (live_ok_frame m1); try reflexivity. exact Lm1.
      * eapply matches_view_eq; [apply revert_n_view_eq; exact V|].
        unfold m1. rewrite <- revert_n_add, Hsum. exact M'.
  - subst m'. apply (nums_transfer m _ s); try assumption; try reflexivity.
    cbn [s_next set_revs sp_next sp_set_snaps sp_set_cur]. rewrite R2. apply Nu.
Qed.
End Steps.

(** * cache eviction and reopen *)
Section Steps2.
Variable e : env.

Lemma ObjOk_fl_ext m m' a o :
  (forall k, fl_st m' a k = fl_st m a k) -> fl_acct m' a = fl_acct m a -> cached_code m' a = cached_code m a ->
  ObjOk m a o -> ObjOk m' a o.
Proof.
  intros Hs Ha Hc [H1 H2 H3 H4 H5 H6]. constructor; try assumption.
  - intros k v Hk. rewrite Hs. apply H2. exact Hk.
  - rewrite Ha. exact H4.
  - rewrite Hc. exact H5.
  - rewrite Hc. exact H6.
Qed.

(** with a coherent cache, dropping cache entries changes no flushed view *)
Lemma evict_fl m a layer k : Inv m -> Coh m ->
  let m' := do_evict m a layer k in
  (forall a' k', fl_st m' a' k' = fl_st m a' k') /\ (forall a', fl_acct m' a' = fl_acct m a') /\
  Coh m' /\ (forall a', cached_code m' a' = cached_code m a') /\
  (forall a' v, aget a' (c_code (s_cache m')) = Some v -> v = db_code m' a').
Proof.
  intros I C. cbv zeta. unfold do_evict.
  pose proof (inv_cc m I) as Hcc.
  assert (Hsame : (forall a' k', fl_st m a' k' = fl_st m a' k') /\ (forall a', fl_acct m a' = fl_acct m a') /\
                  Coh m /\ (forall a', cached_code m a' = cached_code m a') /\
                  (forall a' v, aget a' (c_code (s_cache m)) = Some v -> v = db_code m a')).
  { repeat split; try assumption; try apply C. }
  assert (Hid : set_cache m (s_cache m) = m) by (destruct m; reflexivity).
  destruct (layer =? 0) eqn:E0; [| destruct (layer =? 1) eqn:E1; [| destruct (layer =? 2) eqn:E2; [| destruct (layer =? 3) eqn:E3]]].
  - (* inner account *)
    split; [intros a' k'; reflexivity|]. split; [| split; [| split; [intros a'; reflexivity | exact Hcc]]].
    + intros a'. unfold fl_acct. cbn [s_cache set_cache c_acct s_db]. rewrite aget_adel.
      destruct (a' =? a) eqn:E; [| reflexivity]. apply N.eqb_eq in E. subst a'.
      destruct (aget a (c_acct (s_cache m))) as [x|] eqn:Ex; [| reflexivity].
      exact (coh_acct m C a x Ex).
    + constructor; cbn [s_cache set_cache c_acct c_st s_db s_pend]; try apply C.
      intros a' x. rewrite aget_adel. destruct (a' =? a); [discriminate | apply (coh_acct m C)].
  - (* the account's whole state cache *)
    split; [| split; [intros a'; reflexivity | split; [| split; [intros a'; reflexivity | exact Hcc]]]].
    + intros a' k'. unfold fl_st, cached_state. cbn [s_cache set_cache c_st s_db]. rewrite aget_adel.
      destruct (a' =? a) eqn:E; [| reflexivity]. apply N.eqb_eq in E. subst a'.
      destruct (aget a (c_st (s_cache m))) as [cm|] eqn:Ec; [| reflexivity].
      destruct (kget k' cm) as [v|] eqn:Ek; [| reflexivity].
      symmetry. exact (coh_st m C a cm k' v Ec Ek).
    + constructor; cbn [s_cache set_cache c_acct c_st s_db s_pend]; try apply C.
      intros a' cm k' v. rewrite aget_adel. destruct (a' =? a); [discriminate | apply (coh_st m C)].
  - (* one key *)
    destruct (aget a (c_st (s_cache m))) as [cm|] eqn:Ec; [| rewrite Hid; exact Hsame].
    split; [| split; [intros a'; reflexivity | split; [| split; [intros a'; reflexivity | exact Hcc]]]].
    + intros a' k'. unfold fl_st, cached_state. cbn [s_cache set_cache c_st s_db]. rewrite aget_aput.
      destruct (a' =? a) eqn:E; [| reflexivity]. apply N.eqb_eq in E. subst a'. rewrite Ec, kget_kdel.
      destruct (bytes_eqb k' k) eqn:Ek; [| reflexivity]. apply bytes_eqb_spec in Ek. subst k'.
      destruct (kget k cm) as [v|] eqn:Ev; [| reflexivity].
      symmetry. exact (coh_st m C a cm k v Ec Ev).
    + constructor; cbn [s_cache set_cache c_acct c_st s_db s_pend]; try apply C.
      intros a' cm' k' v. rewrite aget_aput. destruct (a' =? a) eqn:E.
      * apply N.eqb_eq in E. subst a'. intro H. inversion H; subst cm'. rewrite kget_kdel.
        destruct (bytes_eqb k' k); [discriminate | apply (coh_st m C a cm k' v Ec)].
      * apply (coh_st m C).
  - (* code: a cached code is the stored code *)
    split; [intros a' k'; reflexivity|]. split; [intros a'; reflexivity|]. split; [| split].
    + constructor; cbn [s_cache set_cache c_acct c_st s_db s_pend]; apply C.
    + intros a'. unfold cached_code, db_code. cbn [s_cache set_cache c_code s_db]. rewrite aget_adel.
      destruct (a' =? a) eqn:E; [| reflexivity]. apply N.eqb_eq in E. subst a'.
      destruct (aget a (c_code (s_cache m))) as [v|] eqn:Ev; [| reflexivity].
      symmetry. exact (Hcc a v Ev).
    + intros a' v. cbn [s_cache set_cache c_code]. rewrite aget_adel. destruct (a' =? a); [discriminate | apply Hcc].
  - rewrite Hid. exact Hsame.
Qed.

Lemma step_evict m s a layer k : Sim e m s -> wf_thm_b s (Evict a layer k) = true -> step_ok e m s (Evict a layer k).
Proof.
  intros S Hwf. unfold step_ok. cbn [step spec_step]. split; [| reflexivity].
  destruct S as [I C Mc Mf Sn Nu].
  destruct (wf_thm_nopend s _ (nu_pend m s Nu) Hwf) as [Hw _].
  unfold wf_op_b in Hw. rewrite (nu_pend m s Nu) in Hw. cbn [andb] in Hw.
  destruct (evict_fl m a layer k I C) as [E1 [E2 [E3 [E4 E5]]]].
  set (m' := do_evict m a layer k) in *.
  assert (Hf : s_db m' = s_db m /\ s_objs m' = s_objs m /\ s_chg m' = s_chg m /\ s_revs m' = s_revs m /\
               s_next m' = s_next m /\ s_prev m' = s_prev m /\ s_min m' = s_min m /\ s_max m' = s_max m).
  { unfold m', do_evict. repeat split. }
  destruct Hf as [G1 [G2 [G3 [G4 [G5 [G6 [G7 G8]]]]]]].
  assert (Hcs : forall a' k', cur_st m' a' k' = cur_st m a' k').
  { intros a' k'. unfold cur_st, obj_st. rewrite G2. destruct (aget a' (s_objs m)) as [o|]; [| apply E1].
    destruct (kget k' (o_dst o)); [reflexivity|]. destruct (kget k' (o_ost o)); [reflexivity | apply E1]. }
  assert (Hca : forall a', cur_oacct m' a' = cur_oacct m a').
  { intros a'. unfold cur_oacct. rewrite G2. destruct (aget a' (s_objs m)); [reflexivity | apply E2]. }
  assert (Hfc : forall a', fl_ch m' a' = fl_ch m a') by (intro a'; unfold fl_ch; rewrite E2; reflexivity).
  assert (I' : Inv m').
  { destruct I as [J1 J2 J3 J4 J5]. constructor.
    - rewrite G2. exact J1.
    - intros a' o Ho. rewrite G2 in Ho.
      apply (ObjOk_fl_ext m m' a' o); [intro k'; apply E1 | apply E2 | apply E4 | apply J2; exact Ho].
    - intro a'. rewrite Hfc, E4. apply J3.
    - intro a'. rewrite Hfc, E4. apply J4.
    - exact E5. }
  assert (Hcc : forall a', cur_code m' a' = cur_code m a').
  { intros a'. unfold cur_code. rewrite G2. destruct (aget a' (s_objs m)); [reflexivity|].
    rewrite (load_code_cached m' a' I'), (load_code_cached m a' I), E4. reflexivity. }
  constructor.
  - exact I'.
  - exact E3.
  - destruct Mc as [M1 [M2 M3]].
    split; [intros a' k'; rewrite Hcs; apply M1 | split; [intros a'; rewrite Hca; apply M2 | intros a'; rewrite Hcc; apply M3]].
  - destruct Mf as [M1 [M2 M3]].
    split; [intros a' k'; rewrite E1; apply M1 | split; [intros a'; rewrite E2; apply M2 | intros a'; rewrite E4; apply M3]].
  - destruct Sn as [S1 S2 S3 S4]. constructor; rewrite ?G4, ?G5, ?G3; try assumption.
    intros id len S0 Ha Hb. exfalso.
    (* no live snapshot while an eviction happens *)
    apply (alookup_In N.eqb N_eqb_spec) in Hb.
    rewrite forallb_forall in Hw. specialize (Hw _ Hb). discriminate.
  - apply (nums_frame m); assumption.
Qed.

Lemma step_reopen m s : Sim e m s -> step_ok e m s Reopen.
Proof.
  intros [I C Mc Mf Sn Nu]. unfold step_ok. cbn [step spec_step]. unfold do_reopen.
  destruct Nu as [N1 N2 N3 N4 N5 N6 N7 N8].
  (* the running root survives: it is the root of the journal of the current height *)
  assert (Hre : exists prev,
            (if d_max (s_db m) =? 0
             then (mkSt (s_db m) cache0 [] [] 0 [] 0 None zero32 (d_min (s_db m)) (d_max (s_db m)) (s_bad m), ORes R_ok)
             else match aget (d_max (s_db m)) (d_jnl (s_db m)) with
                  | Some jn => (mkSt (s_db m) cache0 [] [] 0 [] 0 None (j_root jn) (d_min (s_db m)) (d_max (s_db m)) (s_bad m), ORes R_ok)
                  | None => (set_bad (mkSt (s_db m) cache0 [] [] 0 [] 0 None zero32 (d_min (s_db m)) (d_max (s_db m)) (s_bad m)), ORes R_err)
                  end) =
            (mkSt (s_db m) cache0 [] [] 0 [] 0 None prev (d_min (s_db m)) (d_max (s_db m)) (s_bad m), ORes R_ok) /\
            prev = s_prev m).
  { rewrite N4. destruct N8 as [[A B] | [A [jn [B D]]]].
    - rewrite A. exists zero32. split; [reflexivity | symmetry; exact B].
    - destruct (s_max m =? 0) eqn:E; [apply N.eqb_eq in E; contradiction|].
      rewrite B. exists (j_root jn). split; [reflexivity | exact D]. }
  destruct Hre as [prev [Hre Hprev]]. rewrite Hre. subst prev.
  set (m' := mkSt (s_db m) cache0 [] [] 0 [] 0 None (s_prev m) (d_min (s_db m)) (d_max (s_db m)) (s_bad m)).
  assert (Hfl : forall a k, fl_st m' a k = fl_st m a k).
  { intros a k. rewrite (fl_st_coh m a k C). reflexivity. }
  assert (Hfa : forall a, fl_acct m' a = fl_acct m a).
  { intros a. rewrite (fl_acct_coh m a C). reflexivity. }
  assert (Hfc : forall a, fl_ch m' a = fl_ch m a) by (intro a; unfold fl_ch; rewrite Hfa; reflexivity).
  assert (Hcd : forall a, cached_code m' a = cached_code m a).
  { intros a. unfold cached_code at 2. destruct (aget a (c_code (s_cache m))) as [v|] eqn:Ev; [| reflexivity].
    rewrite (inv_cc m I a v Ev). reflexivity. }
  assert (I' : Inv m').
  { constructor.
    - constructor.
    - intros a o H. discriminate.
    - intro a. rewrite Hfc, Hcd. apply (inv_t1 m I).
    - intro a. rewrite Hfc, Hcd. apply (inv_k1 m I).
    - intros a v H. discriminate. }
  split; [| reflexivity].
  constructor.
  - exact I'.
  - constructor; cbn [s_cache s_pend c_st c_acct cache0 m']; try reflexivity; intros; discriminate.
  - cbn [sp_cur sp_set_snaps sp_clear]. destruct Mf as [F1 [F2 F3]]. split; [| split].
    + intros a k. change (cur_st m' a k) with (fl_st m' a k). rewrite Hfl. apply F1.
    + intros a. change (cur_oacct m' a) with (fl_acct m' a). rewrite Hfa. apply F2.
    + intros a. change (cur_code m' a) with (nb (load_code m' a)). rewrite (load_code_cached m' a I'), Hcd. apply F3.
  - cbn [sp_fl sp_set_snaps sp_clear]. destruct Mf as [F1 [F2 F3]]. split; [| split].
    + intros a k. rewrite Hfl. apply F1.
    + intros a. rewrite Hfa. apply F2.
    + intros a. rewrite Hcd. apply F3.
  - constructor; cbn [s_revs s_next s_chg sp_snaps sp_set_snaps m'].
    + reflexivity.
    + intros id len [].
    + constructor.
    + intros id len S0 H. discriminate.
  - constructor; cbn [s_next s_max s_min s_prev s_db sp_pend sp_next sp_max sp_min sp_prev sp_set_snaps sp_clear m'].
    + exact N1.
    + reflexivity.
    + rewrite N4. exact N3.
    + reflexivity.
    + unfold min_rel. cbn [s_min sp_max sp_min sp_set_snaps sp_clear m'].
      destruct N7 as [N7 | [A [B D]]].
      * rewrite N7. exact N5.
      * destruct N5 as [N5 | [A' [B' D']]]; [| rewrite A in D'; discriminate].
        assert (d_min (s_db m) = 0 \/ d_min (s_db m) = 1) by lia.
        destruct H as [H | H]; rewrite H; [left; congruence | right; repeat split; congruence].
    + exact N6.
    + left. reflexivity.
    + rewrite N4. exact N8.
Qed.

(** Commit without a flushed block: refused, nothing changes *)
Lemma step_commit_nopend m s h : Sim e m s -> step_ok e m s (Commit h).
Proof.
  intros S. unfold step_ok. cbn [step spec_step]. unfold do_commit.
  rewrite (coh_pend m (sim_coh e m s S)), (nu_pend m s (sim_num e m s S)).
  split; [exact S | reflexivity].
Qed.
End Steps2.
