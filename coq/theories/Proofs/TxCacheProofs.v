(** The intake cache neither loses, duplicates nor reorders accepted transactions. *)
From BX Require Import Base.Prelude Model.Mempool Model.TxCache Proofs.MempoolLib.
From Coq Require Import ZifyBool ZifyN ZifyNat.
Local Open Scope N_scope.

Lemma absorb_inflight size q : forall buf, inflight (absorb size q buf) = buf ++ q.
Proof.
  induction q as [|t q IH]; intros buf; cbn [absorb].
  - unfold inflight. cbn. rewrite app_nil_r. reflexivity.
  - destruct (size <=? len (buf ++ [t])).
    + unfold inflight. cbn. rewrite <- app_assoc. reflexivity.
    + rewrite IH, <- app_assoc. reflexivity.
Qed.

Lemma normalize_inflight size st : inflight (normalize size st) = inflight st.
Proof.
  unfold normalize. destruct st as [q buf [s|]]; cbn [c_pend c_q c_buf]; [reflexivity|].
  rewrite absorb_inflight. reflexivity.
Qed.

(** one operation: what was in flight plus what is received = what is delivered plus what is in flight *)
Lemma cstep_conserves size st o :
  let '(st', out) := cstep size st o in
  inflight st ++ received [o] = concat (delivered [out]) ++ inflight st'.
Proof.
  destruct o as [txs| |]; cbn [cstep received delivered flat_map concat app].
  - rewrite normalize_inflight. unfold inflight. cbn [c_pend c_buf c_q]. rewrite app_nil_r, !app_assoc. reflexivity.
  - destruct st as [q buf [s|]]; cbn [c_pend c_q c_buf delivered flat_map concat app].
    + rewrite normalize_inflight. unfold inflight. cbn. rewrite !app_nil_r. reflexivity.
    + rewrite app_nil_r. reflexivity.
  - destruct st as [q buf [s|]]; cbn [c_pend c_q c_buf delivered flat_map concat app]; rewrite app_nil_r; reflexivity.
Qed.

Lemma received_app a b : received (a ++ b) = received a ++ received b.
Proof. unfold received. apply flat_map_app. Qed.

Lemma received_cons o r : received (o :: r) = received [o] ++ received r.
Proof. unfold received. cbn [flat_map]. rewrite app_nil_r. reflexivity. Qed.

Lemma delivered_cons o r : concat (delivered (o :: r)) = concat (delivered [o]) ++ concat (delivered r).
Proof. unfold delivered. cbn [flat_map]. rewrite app_nil_r, concat_app. reflexivity. Qed.

Lemma crun_conserves size ops : forall st,
  inflight st ++ received ops = concat (delivered (snd (crun size st ops))) ++ inflight (fst (crun size st ops)).
Proof.
  induction ops as [|o r IH]; intros st; cbn [crun].
  - cbn. rewrite app_nil_r. reflexivity.
  - pose proof (cstep_conserves size st o) as H. destruct (cstep size st o) as [st1 out].
    specialize (IH st1). destruct (crun size st1 r) as [st2 outs]. cbn [fst snd] in *.
    rewrite (received_cons o r), app_assoc, H, <- app_assoc, IH, (delivered_cons out outs), <- app_assoc. reflexivity.
Qed.

(** no loss, no duplicate, no reordering: the concatenation of the delivered sets followed by what
    is still inside the cache is exactly the sequence of accepted transactions *)
Theorem intake_no_loss size ops :
  concat (delivered (snd (crun size cs0 ops))) ++ inflight (fst (crun size cs0 ops)) = received ops.
Proof. rewrite <- (crun_conserves size ops cs0). reflexivity. Qed.

Lemma crun_app size a : forall st b,
  crun size st (a ++ b) =
  let '(st1, o1) := crun size st a in let '(st2, o2) := crun size st1 b in (st2, o1 ++ o2).
Proof.
  induction a as [|o r IH]; intros st b; cbn [crun app].
  - destruct (crun size st b). reflexivity.
  - destruct (cstep size st o) as [s1 out]. rewrite IH. destruct (crun size s1 r) as [s2 o2].
    destruct (crun size s2 b). reflexivity.
Qed.

(** taking: every take with a set on offer shortens the queue (a set holds at least one transaction) *)
Definition weight (st : cstate) : nat := length (c_q st) + match c_pend st with Some _ => 1 | None => 0 end.

Lemma absorb_weight size q : 0 < size -> forall buf, (weight (absorb size q buf) <= length q)%nat.
Proof.
  intro Hs. induction q as [|t q IH]; intros buf; cbn [absorb]; [cbn; lia|].
  destruct (size <=? len (buf ++ [t])); [cbn; lia|]. specialize (IH (buf ++ [t])). cbn [length]. lia.
Qed.

Lemma take_weight size st : 0 < size -> c_pend st <> None ->
  (weight (fst (cstep size st CTake)) < weight st)%nat.
Proof.
  intros Hs Hp. destruct st as [q buf [s|]]; [|exfalso; apply Hp; reflexivity]. unfold cstep, normalize. cbn [c_pend c_q c_buf fst].
  pose proof (absorb_weight size q Hs buf). unfold weight at 2. cbn [c_q c_pend]. lia.
Qed.

(** a normalized state without a set on offer has an empty queue *)
Definition settled (st : cstate) : Prop := c_pend st = None -> c_q st = [].

Lemma absorb_settled size q buf : settled (absorb size q buf).
Proof.
  revert buf. induction q as [|t q IH]; intros buf; cbn [absorb]; [intro; reflexivity|].
  destruct (size <=? len (buf ++ [t])); [intro H; discriminate | apply IH].
Qed.

Lemma cstep_settled size st o : settled st -> settled (fst (cstep size st o)).
Proof.
  intro H. destruct o; cbn [cstep].
  - unfold normalize. cbn [c_pend c_q c_buf fst]. destruct (c_pend st) eqn:E; [intro H2; cbn in H2; congruence | apply absorb_settled].
  - destruct (c_pend st) eqn:E; cbn [fst]; [unfold normalize; cbn [c_pend]; apply absorb_settled | exact H].
  - destruct (c_pend st) eqn:E; cbn [fst]; [exact H | intro H2; discriminate].
Qed.

Lemma crun_settled size ops : forall st, settled st -> settled (fst (crun size st ops)).
Proof.
  induction ops as [|o r IH]; intros st H; cbn [crun]; [exact H|].
  pose proof (cstep_settled size st o H) as H1. destruct (cstep size st o) as [s1 out]. cbn [fst] in H1.
  specialize (IH s1 H1). destruct (crun size s1 r). exact IH.
Qed.

Lemma takes_clear size : 0 < size -> forall n st, settled st -> (weight st <= n)%nat ->
  c_pend (fst (crun size st (repeat CTake n))) = None.
Proof.
  intros Hs. induction n as [|n IH]; intros st Hset Hw; cbn [repeat crun].
  - destruct st as [q buf [s|]]; cbn in *; [lia | reflexivity].
  - pose proof (cstep_settled size st CTake Hset) as Hset1.
    destruct (c_pend st) eqn:Ep.
    + pose proof (take_weight size st Hs) as Ht. rewrite Ep in Ht. specialize (Ht ltac:(discriminate)).
      destruct (cstep size st CTake) as [s1 out] eqn:E1. cbn [fst] in Ht, Hset1.
      pose proof (IH s1 Hset1 ltac:(lia)) as H1. destruct (crun size s1 (repeat CTake n)). exact H1.
    + assert (E1 : cstep size st CTake = (st, OutTake None)) by (cbn [cstep]; rewrite Ep; reflexivity).
      rewrite E1.
      assert (Hw0 : (weight st <= n)%nat).
      { unfold weight. rewrite Ep, (Hset Ep). cbn. lia. }
      pose proof (IH st Hset Hw0) as H1. destruct (crun size st (repeat CTake n)). exact H1.
Qed.

(** after taking what is offered, one timer event and one more take the cache is empty: every
    accepted transaction has been delivered, exactly once, in order *)
Theorem intake_drained k ops :
  let size := set_size k in
  let n := weight (fst (crun size cs0 ops)) in
  let r := crun size cs0 (ops ++ flush_ops n) in
  inflight (fst r) = [] /\ concat (delivered (snd r)) = received ops.
Proof.
  cbn zeta. set (size := set_size k).
  assert (Hs : 0 < size) by (unfold size, set_size; destruct (k =? 0) eqn:E; lia).
  set (n := weight (fst (crun size cs0 ops))).
  assert (Hin : inflight (fst (crun size cs0 (ops ++ flush_ops n))) = []).
  { rewrite crun_app. destruct (crun size cs0 ops) as [s1 o1] eqn:E1. cbn [fst] in n.
    assert (Hset : settled s1) by (pose proof (crun_settled size ops cs0 (fun _ => eq_refl)) as H; rewrite E1 in H; exact H).
    unfold flush_ops. rewrite crun_app.
    pose proof (takes_clear size Hs n s1 Hset (le_n _)) as Hp.
    pose proof (crun_settled size (repeat CTake n) s1 Hset) as Hset2.
    destruct (crun size s1 (repeat CTake n)) as [s2 o2]. cbn [fst] in Hp, Hset2.
    destruct s2 as [q buf pd]. cbn [c_pend] in Hp. subst pd. specialize (Hset2 eq_refl). cbn [c_q] in Hset2. subst q.
    cbn [crun cstep c_pend c_q c_buf normalize absorb fst]. reflexivity. }
  split; [exact Hin|].
  pose proof (intake_no_loss size (ops ++ flush_ops n)) as H. rewrite Hin, app_nil_r in H. rewrite H.
  rewrite received_app. unfold flush_ops. rewrite received_app.
  assert (Hr : received (repeat CTake n) = []) by (clear; induction n; cbn; auto).
  rewrite Hr. cbn. rewrite !app_nil_r. reflexivity.
Qed.
