(** Facts about the *generated* status table.  These are re-checked against what
    transaction_manager.go says on every run: adding, removing or redirecting an fsm event
    in the Go source changes [Gen_TxFsm.tx_fsm_events] and these proofs stop closing. *)
From BX Require Import Base.Prelude Base.Fsm Model.TxFsm.
From BXGen Require Import Gen_TxFsm.
From Coq Require Import String.
Local Open Scope string_scope.

Definition edges_allowed_b : bool :=
  forallb (fun e => existsb (edge_eqb e) allowed_triples) (fsm_edges tx_fsm_events).

Lemma edges_allowed_true : edges_allowed_b = true.
Proof. vm_compute. reflexivity. Qed.

Lemma edge_eqb_eq a b : edge_eqb a b = true -> a = b.
Proof.
  destruct a as [[a1 a2] a3], b as [[b1 b2] b3]. unfold edge_eqb.
  rewrite !andb_true_iff, !String.eqb_eq. intros [[-> ->] ->]. reflexivity.
Qed.

(** every transition the table permits is one the protocol lists *)
Lemma table_allowed cur ev dst :
  fsm_fire tx_fsm_events cur ev = Some dst -> In (cur, ev, dst) allowed_triples.
Proof.
  intro H. apply fsm_fire_in_edges in H.
  pose proof edges_allowed_true as A. unfold edges_allowed_b in A.
  rewrite forallb_forall in A. specialize (A _ H).
  apply existsb_exists in A. destruct A as [t [Hin Heq]].
  apply edge_eqb_eq in Heq. subst. exact Hin.
Qed.

(** SUCCESS, FAILURE and ROLLBACK have no outgoing transition whatever the event *)
Lemma final_absorbing cur ev : In cur final_names -> fsm_fire tx_fsm_events cur ev = None.
Proof.
  intros Hf. destruct (fsm_fire tx_fsm_events cur ev) as [d|] eqn:E; [|reflexivity].
  apply table_allowed in E. simpl in Hf. simpl in E.
  repeat match goal with
         | H : _ \/ _ |- _ => destruct H
         | H : False |- _ => contradiction
         | H : (_, _, _) = (_, _, _) |- _ => inversion H; clear H; subst
         | H : _ = _ |- _ => try discriminate H
         end.
Qed.

(** the table is not weaker than the protocol either: each listed transition is present *)
Lemma table_complete :
  forallb (fun t : string * string * string =>
             let '(s, e, d) := t in
             match fsm_fire tx_fsm_events s e with Some d' => String.eqb d d' | None => false end)
          allowed_triples = true.
Proof. vm_compute. reflexivity. Qed.

Lemma alookup_N_in_keys {V} r (l : list (N * V)) e :
  alookup N.eqb r l = Some e -> In r (map fst l).
Proof.
  induction l as [|[k v] t IH]; simpl; [discriminate|].
  destruct (r =? k)%N eqn:E; [apply N.eqb_eq in E; subst; tauto|]. intro H. right. apply IH. exact H.
Qed.

(** numeric view used by the transaction-manager model *)
Lemma set_fsm_final s ev : is_final s = true -> set_fsm s ev = None.
Proof.
  intro H. unfold set_fsm.
  assert (In (status_name s) final_names) as Hin.
  { unfold is_final, ST_SUCCESS, ST_FAILURE, ST_ROLLBACK in H.
    rewrite !orb_true_iff, !N.eqb_eq in H.
    destruct H as [[-> | ->] | ->]; vm_compute; tauto. }
  rewrite (final_absorbing _ ev Hin). reflexivity.
Qed.

Lemma set_fsm_receipt_edges s r s' :
  set_fsm s (event_of_receipt r) = Some s' ->
  (s = ST_BEGIN /\ r = 1%N /\ s' = ST_SUCCESS) \/
  (s = ST_BEGIN /\ r = 2%N /\ s' = ST_FAILURE) \/
  (s = ST_BEGIN_FAILURE /\ r = 2%N /\ s' = ST_FAILURE) \/
  (s = ST_BEGIN_ROLLBACK /\ r = 3%N /\ s' = ST_ROLLBACK) \/
  (s = ST_BEGIN_ROLLBACK /\ r = 2%N /\ s' = ST_ROLLBACK).
Proof.
  unfold set_fsm. intro H.
  destruct (fsm_fire tx_fsm_events (status_name s) (event_of_receipt r)) as [d|] eqn:E; [|discriminate].
  inversion H; subst; clear H.
  pose proof (table_allowed _ _ _ E) as A.
  (* status_name s ranges over the six names or "" ; event_of_receipt r over three events or "" *)
  assert (Hs : s = 0%N \/ s = 1%N \/ s = 2%N \/ s = 3%N \/ s = 4%N \/ s = 5%N \/ status_name s = "").
  { unfold status_name.
    destruct (find (fun p : string * N => (snd p =? s)%N) tx_status_values) as [p|] eqn:F.
    - apply find_some in F. destruct F as [Fin Feq]. apply N.eqb_eq in Feq. subst s.
      vm_compute in Fin.
      repeat match goal with H : _ \/ _ |- _ => destruct H end; try contradiction; subst p; simpl; tauto.
    - tauto. }
  assert (Hr : r = 1%N \/ r = 2%N \/ r = 3%N \/ event_of_receipt r = "").
  { unfold event_of_receipt.
    destruct (alookup N.eqb r receipt2event) as [e|] eqn:F; [|tauto].
    apply alookup_N_in_keys in F. vm_compute in F.
    repeat match goal with H : _ \/ _ |- _ => destruct H end; try contradiction; subst r; tauto. }
  unfold ST_BEGIN, ST_BEGIN_FAILURE, ST_BEGIN_ROLLBACK, ST_SUCCESS, ST_FAILURE, ST_ROLLBACK.
  destruct Hs as [->|[->|[->|[->|[->|[->|Hs]]]]]];
    destruct Hr as [->|[->|[->|Hr]]];
    try (vm_compute in E; try discriminate E; inversion E; subst d; vm_compute; tauto);
    try (rewrite Hr in E; vm_compute in E; discriminate E);
    try (rewrite Hs in E; vm_compute in E; discriminate E).
  all: rewrite ?Hs, ?Hr in E; vm_compute in E; discriminate E.
Qed.
