(** The base invariant of the interchain / transaction-manager state under [cfg_fixed] and its
    preservation by every transaction. *)
From BX Require Import Base.Prelude Base.Fsm Model.TxFsm Model.TxMgr Model.Interchain Model.IbtpExec
     Proofs.TxFsmProofs Proofs.IbtpBasics Proofs.IbtpStep Proofs.IbtpTm Proofs.IbtpIc.
From Coq Require Import String ZifyBool ZifyN ZifyNat.
Local Open Scope N_scope.

Definition B63 : N := 9223372036854775808.

(** * sorting is a permutation *)
Lemma id_insert_in w x y l : In y (id_insert w x l) <-> y = x \/ In y l.
Proof.
  induction l as [|z t IH]; simpl; [intuition congruence|].
  destruct (id_leb w x z); simpl; [intuition congruence|]. rewrite IH. intuition congruence.
Qed.
Lemma id_sort_in w y l : In y (id_sort w l) <-> In y l.
Proof.
  unfold id_sort. induction l as [|x t IH]; simpl; [tauto|].
  rewrite id_insert_in, IH. intuition congruence.
Qed.

(** * begun transactions *)
Definition begun (t : txm) (i : txid) : Prop := tm_rec t i <> None \/ tm_child t i <> None.

Record BInv (w : world) (t : txm) (c : ichain) : Prop := {
  b_small : forall f t0, IC c f t0 < B63;
  b_begun_le : forall f t0 x, begun t (f, t0, x) -> 1 <= x <= IC c f t0;
  b_le_begun : forall f t0 x, 1 <= x <= IC c f t0 -> begun t (f, t0, x);
  b_req_iff : forall f t0 x, i_req c (f, t0, x) <> None <-> 1 <= x <= IC c f t0;
  b_mirror_ic : forall f t0, SIC c t0 f = IC c f t0;
  b_mirror_rc : forall f t0, SRC c t0 f = RC c f t0;
  b_rc_le : forall f t0, RC c f t0 <= IC c f t0;
  b_rcpt : forall i, i_rcpt c i <> None -> begun t i;
  g_child_glob : forall i g, tm_child t i = Some g ->
                             exists gi, tm_glob t g = Some gi /\ child_lookup i (g_children gi) <> None;
  g_glob_child : forall g gi i, tm_glob t g = Some gi -> child_lookup i (g_children gi) <> None ->
                                tm_child t i = Some g;
  g_nodup : forall g gi, tm_glob t g = Some gi -> NoDup (map fst (g_children gi));
  g_excl : forall i, tm_child t i <> None -> tm_rec t i = None;
  g_samehub : forall i g sf sd, tm_child t i = Some g ->
                                svc_lookup w (fst (fst i)) = Some sf -> svc_lookup w (snd (fst i)) = Some sd ->
                                sv_hub sf = sv_hub sd
}.

Lemma binv_init w : BInv w txm_init ichain_init.
Proof.
  constructor; unfold IC, RC, SIC, SRC, begun, get_rec; simpl; intros;
    try reflexivity; try lia; try discriminate; try (unfold B63; lia); try tauto.
  all: try (match goal with H : _ \/ _ |- _ => destruct H; congruence end).
  all: try (split; [intro HH; congruence | lia]).
Qed.

(** records only ever appear *)
Lemma binv_rec_exists w t c f t0 x :
  BInv w t c -> begun t (f, t0, x) -> i_rec c f <> None /\ i_rec c t0 <> None.
Proof.
  intros I Hb. pose proof (b_begun_le _ _ _ I _ _ _ Hb) as Hle.
  pose proof (b_mirror_ic _ _ _ I f t0) as Hm. unfold IC, SIC, get_rec in *.
  split.
  - destruct (i_rec c f); [discriminate|]. simpl in Hle. lia.
  - destruct (i_rec c t0); [discriminate|]. simpl in Hm. lia.
Qed.

(** * [handle_multi] *)
Lemma handle_multi_spec kids : forall c,
  (forall k, In k kids -> atoi_ok k = true) ->
  exists c', handle_multi c kids = (c', true) /\
    (forall f t, IC c' f t = IC c f t) /\ (forall f t, SIC c' t f = SIC c t f) /\
    i_req c' = i_req c /\ i_rcpt c' = i_rcpt c /\ i_multi c' = i_multi c /\
    (forall k, i_rec c k <> None -> i_rec c' k <> None) /\
    ((forall f t, SRC c t f = RC c f t) -> forall f t, SRC c' t f = RC c' f t) /\
    (forall f t, RC c' f t = RC c f t \/ exists x, In (f, t, x) kids /\ RC c' f t = x) /\
    (forall f t, (forall x, ~ In (f, t, x) kids) -> RC c' f t = RC c f t).
Proof.
  induction kids as [|[[kf kt] kx] r IH]; intros c Hok.
  - exists c. simpl. repeat split; auto.
  - simpl. rewrite (Hok (kf, kt, kx)) by (left; reflexivity).
    set (c1 := set_dest c kf kt kx (get_rec c kf)).
    destruct (IH c1) as [c' [E [HIC [HSIC [Hreq [Hrcpt [Hmul [Hmono [Hmir [Hrc Hrc2]]]]]]]]]].
    { intros k Hk. apply Hok. right. exact Hk. }
    exists c'. split; [exact E|].
    destruct (set_dest_fields c kf kt kx (get_rec c kf)) as [F1 [F2 F3]].
    subst c1.
    repeat split.
    + intros f t. rewrite HIC. apply set_dest_IC. reflexivity.
    + intros f t. rewrite HSIC. apply set_dest_SIC. reflexivity.
    + congruence.
    + congruence.
    + congruence.
    + intros k Hk. apply Hmono. apply set_dest_rec_mono. exact Hk.
    + intro Hm. apply Hmir. intros f t.
      rewrite set_dest_SRC, set_dest_RC by reflexivity. rewrite Hm.
      rewrite (andb_comm (t =? kt)). reflexivity.
    + intros f t. destruct (Hrc f t) as [H | [x [Hin Hx]]].
      * rewrite H. rewrite set_dest_RC by reflexivity.
        destruct ((f =? kf) && (t =? kt)) eqn:Eft.
        -- right. apply andb_true_iff in Eft. destruct Eft as [E1 E2].
           apply N.eqb_eq in E1, E2. subst. exists kx. split; [left; reflexivity | reflexivity].
        -- left. reflexivity.
      * right. exists x. split; [right; exact Hin | exact Hx].
    + intros f t Hnot. rewrite Hrc2.
      * rewrite set_dest_RC by reflexivity.
        destruct ((f =? kf) && (t =? kt)) eqn:Eft; [|reflexivity].
        apply andb_true_iff in Eft. destruct Eft as [E1 E2]. apply N.eqb_eq in E1, E2. subst.
        exfalso. apply (Hnot kx). left. reflexivity.
      * intros x Hin. apply (Hnot x). right. exact Hin.
Qed.
